/-
C17 (JSON half) — the nesting limit of `json.ImpliedType` (/repo 0c63e6a), about `D17.jsonImplied`:

* `jsonImplied_ok_nest`: a document for which a type is returned is nested at most `max` deep
  (counted from the depth the walk starts at);
* `jsonImplied_eq_or_err`: the limit changes nothing but turning results into errors: the outcome
  is that of the limit-free `JsonVal.impliedType` (what the theorems of the JSON half are about) or
  an error — so `never panics` and `ok ⇒ well-formed type` carry over;
* `jsonImplied_within`: within the limit the two agree.
-/
import CtyModel.d17JsonDepth
import CtyModel.Lemmas.C17JsonImplied
namespace CtyModel
namespace D17
open JsonVal

def IsErr {α} (r : Res α) : Prop := ∃ c, r = .err c

section
variable (env : JEnv) (max : Nat)

mutual
theorem jsonImplied_eq_or_err : ∀ (j : Json) (d : Nat),
    jsonImplied env max d j = impliedType env j ∨ IsErr (jsonImplied env max d j)
  | .null, _ | .bool _, _ | .num _, _ | .str _, _ => by left; simp [jsonImplied, impliedType]
  | .arr xs, d => by
    simp only [jsonImplied, impliedType]
    split
    · right; exact ⟨_, rfl⟩
    · rcases jsonImpliedAll_eq_or_err xs (d + 1) with h | ⟨c, h⟩
      · left; rw [h]; try rfl
      · right; exact ⟨c, by rw [h]; rfl⟩
  | .obj ks vs, d => by
    simp only [jsonImplied, impliedType]
    split
    · right; exact ⟨_, rfl⟩
    · rcases jsonImpliedMembers_eq_or_err ks vs [] [] (d + 1) with h | ⟨c, h⟩
      · left; rw [h]; try rfl
      · right; exact ⟨c, by rw [h]; rfl⟩
theorem jsonImpliedAll_eq_or_err : ∀ (js : List Json) (d : Nat),
    jsonImpliedAll env max d js = impliedAll env js ∨ IsErr (jsonImpliedAll env max d js)
  | [], _ => by left; simp [jsonImpliedAll, impliedAll]
  | j :: js, d => by
    simp only [jsonImpliedAll, impliedAll]
    rcases jsonImplied_eq_or_err j d with h | ⟨c, h⟩
    · rw [h]
      cases impliedType env j with
      | ok t =>
        simp only
        rcases jsonImpliedAll_eq_or_err js d with h2 | ⟨c, h2⟩
        · left; rw [h2]; try rfl
        · right; exact ⟨c, by rw [h2]⟩
      | _ => left; rfl
    · right; exact ⟨c, by rw [h]; rfl⟩
theorem jsonImpliedMembers_eq_or_err : ∀ (ks : List String) (js : List Json) (aK : List String) (aT : List Ty) (d : Nat),
    jsonImpliedMembers env max d ks js aK aT = impliedMembers env ks js aK aT ∨
      IsErr (jsonImpliedMembers env max d ks js aK aT)
  | [], _, _, _, _ => by left; simp [jsonImpliedMembers, impliedMembers]
  | _ :: _, [], _, _, _ => by left; simp [jsonImpliedMembers, impliedMembers]
  | k :: ks, j :: js, aK, aT, d => by
    simp only [jsonImpliedMembers, impliedMembers]
    rcases jsonImplied_eq_or_err j d with h | ⟨c, h⟩
    · rw [h]
      cases impliedType env j with
      | ok t =>
        simp only
        cases hl : lookupTy k aK aT with
        | some ex =>
          simp only []
          by_cases he : (!ex.equals t) = true
          · simp only [he, if_true]; left; trivial
          · simp only [he]; exact jsonImpliedMembers_eq_or_err ks js _ _ d
        | none => simp only []; exact jsonImpliedMembers_eq_or_err ks js _ _ d
      | _ => left; rfl
    · right; exact ⟨c, by rw [h]; rfl⟩
end

mutual
theorem jsonImplied_ok_nest : ∀ (j : Json) (d : Nat) (t : Ty), jsonImplied env max d j = .ok t → d + jnest j ≤ max ∨ (jnest j = 0)
  | .null, _, _, _ | .bool _, _, _, _ | .num _, _, _, _ | .str _, _, _, _ => by right; simp [jnest]
  | .arr xs, d, t, h => by
    left
    simp only [jsonImplied] at h
    split at h
    · cases h
    · rename_i hd
      cases hr : jsonImpliedAll env max (d + 1) xs with
      | ok ts =>
        have := jsonImpliedAll_ok_nest xs (d + 1) ts hr
        simp only [jnest]; omega
      | _ => rw [hr] at h; simp [Res.map] at h
  | .obj ks vs, d, t, h => by
    left
    simp only [jsonImplied] at h
    split at h
    · cases h
    · rename_i hd
      cases hr : jsonImpliedMembers env max (d + 1) ks vs [] [] with
      | ok r =>
        have := jsonImpliedMembers_ok_nest ks vs [] [] (d + 1) r hr
        simp only [jnest]; omega
      | _ => rw [hr] at h; simp [errOf] at h
theorem jsonImpliedAll_ok_nest : ∀ (js : List Json) (d : Nat) (ts : List Ty), jsonImpliedAll env max d js = .ok ts →
    d + jnestL js ≤ max ∨ jnestL js = 0
  | [], _, _, _ => by right; simp [jnestL]
  | j :: js, d, ts, h => by
    simp only [jsonImpliedAll] at h
    cases hj : jsonImplied env max d j with
    | ok t =>
      rw [hj] at h; simp only at h
      cases hr : jsonImpliedAll env max d js with
      | ok ts' =>
        have h1 := jsonImplied_ok_nest j d t hj
        have h2 := jsonImpliedAll_ok_nest js d ts' hr
        simp only [jnestL]; omega
      | _ => rw [hr] at h; simp at h
    | _ => rw [hj] at h; simp [errOf] at h
theorem jsonImpliedMembers_ok_nest : ∀ (ks : List String) (js : List Json) (aK : List String) (aT : List Ty) (d : Nat)
    (r : List String × List Ty), jsonImpliedMembers env max d ks js aK aT = .ok r →
    d + jnestM ks js ≤ max ∨ jnestM ks js = 0
  | [], _, _, _, _, _, _ => by right; simp [jnestM]
  | _ :: _, [], _, _, _, _, _ => by right; simp [jnestM]
  | k :: ks, j :: js, aK, aT, d, r, h => by
    simp only [jsonImpliedMembers] at h
    cases hj : jsonImplied env max d j with
    | ok t =>
      rw [hj] at h; simp only at h
      have h1 := jsonImplied_ok_nest j d t hj
      have h2 : d + jnestM ks js ≤ max ∨ jnestM ks js = 0 := by
        split at h
        · split at h
          · cases h
          · exact jsonImpliedMembers_ok_nest ks js _ _ d r h
        · exact jsonImpliedMembers_ok_nest ks js _ _ d r h
      simp only [jnestM]; omega
    | _ => rw [hj] at h; simp [errOf] at h
end

/-! within the limit the two functions agree -/
mutual
theorem jsonImplied_within : ∀ (j : Json) (d : Nat), (d + jnest j ≤ max ∨ jnest j = 0) →
    jsonImplied env max d j = impliedType env j
  | .null, _, _ | .bool _, _, _ | .num _, _, _ | .str _, _, _ => by simp [jsonImplied, impliedType]
  | .arr xs, d, h => by
    have h' : d + (1 + jnestL xs) ≤ max := by
      rcases h with h | h <;> simp only [jnest] at h <;> omega
    have hd : ¬ d ≥ max := by omega
    simp only [jsonImplied, impliedType, hd, if_false]
    rw [jsonImpliedAll_within xs (d + 1) (Or.inl (by omega))]
  | .obj ks vs, d, h => by
    have h' : d + (1 + jnestM ks vs) ≤ max := by
      rcases h with h | h <;> simp only [jnest] at h <;> omega
    have hd : ¬ d ≥ max := by omega
    simp only [jsonImplied, impliedType, hd, if_false]
    rw [jsonImpliedMembers_within ks vs [] [] (d + 1) (Or.inl (by omega))]
    try rfl
theorem jsonImpliedAll_within : ∀ (js : List Json) (d : Nat), (d + jnestL js ≤ max ∨ jnestL js = 0) →
    jsonImpliedAll env max d js = impliedAll env js
  | [], _, _ => by simp [jsonImpliedAll, impliedAll]
  | j :: js, d, h => by
    have hj : d + jnest j ≤ max ∨ jnest j = 0 := by simp only [jnestL] at h; omega
    have hjs : d + jnestL js ≤ max ∨ jnestL js = 0 := by simp only [jnestL] at h; omega
    simp only [jsonImpliedAll, impliedAll]
    rw [jsonImplied_within j d hj, jsonImpliedAll_within js d hjs]
    try rfl
theorem jsonImpliedMembers_within : ∀ (ks : List String) (js : List Json) (aK : List String) (aT : List Ty) (d : Nat),
    (d + jnestM ks js ≤ max ∨ jnestM ks js = 0) →
    jsonImpliedMembers env max d ks js aK aT = impliedMembers env ks js aK aT
  | [], _, _, _, _, _ => by simp [jsonImpliedMembers, impliedMembers]
  | _ :: _, [], _, _, _, _ => by simp [jsonImpliedMembers, impliedMembers]
  | k :: ks, j :: js, aK, aT, d, h => by
    have hj : d + jnest j ≤ max ∨ jnest j = 0 := by simp only [jnestM] at h; omega
    have hjs : d + jnestM ks js ≤ max ∨ jnestM ks js = 0 := by simp only [jnestM] at h; omega
    simp only [jsonImpliedMembers, impliedMembers]
    rw [jsonImplied_within j d hj]
    cases impliedType env j with
    | ok t =>
      simp only
      cases hl : lookupTy k aK aT with
      | some ex =>
        simp only []
        by_cases he : (!ex.equals t) = true
        · simp only [he, if_true]
        · simp only [he]; exact jsonImpliedMembers_within ks js _ _ d hjs
      | none => simp only []; exact jsonImpliedMembers_within ks js _ _ d hjs
    | _ => rfl
end

end
end D17
end CtyModel
