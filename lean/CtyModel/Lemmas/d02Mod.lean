/-
C02, Modulo: the method on known numbers as a number-level function following the
Go control flow (`modNum`), its special branches as the code now has them
(/repo 572b8ba), the specification vocabulary (remainder of truncated division:
sign of the dividend, |r| < |y|), and the counterexample showing that the full
clause is false of the code once the quotient needs more bits than the operands
carry (the quotient is rounded BEFORE it is truncated; the three following steps
round to the dividend's precision).
-/
import CtyModel.Lemmas.d02Lift
import CtyModel.Lemmas.OpsArith
namespace CtyModel
namespace D02
open Num Value NumCmp

/-- `Value.Modulo` on two known numbers -/
def modNum (x y : Num) : Res Num :=
  if x.isInf || y.isInf then Num.mulCty x y
  else if y.isZero then .ok x
  else do
    let rat ← Num.quo x y
    match rat.truncInt with
    | none => .panic "Int of Inf"
    | some q =>
      let w := Num.setIntP q x.prec
      let w ← Num.mulP y w w.prec
      let w ← Num.addP x (Num.neg w) w.prec
      pure w

/-- on known numbers the method is `modNum` -/
theorem mod_num (x y : Num) : Value.mod (numVal x) (numVal y) = (modNum x y).map numVal := by
  simp only [Value.mod, binMarks, Value.isMarked, Payload.isMarked, numVal, modU, typeCheck, typeCheckAux,
    Ty.equals, Ty.isDyn, Value.isUnk, asNum, Bool.or_self, Bool.false_eq_true, if_false, Bool.not_true,
    Res.bind_ok, modNum]
  by_cases hi : (x.isInf || y.isInf) = true
  · simp only [hi, if_true]
    cases Num.mulCty x y <;> rfl
  · simp only [hi, Bool.false_eq_true, if_false]
    by_cases hz : y.isZero = true
    · simp only [hz, if_true]; rfl
    · simp only [hz, Bool.false_eq_true, if_false]
      cases Num.quo x y with
      | ok rat =>
        simp only [Res.bind_ok]
        cases rat.truncInt with
        | none => rfl
        | some q =>
          simp only []
          cases Num.mulP y (Num.setIntP q x.prec) (Num.setIntP q x.prec).prec with
          | ok w =>
            simp only [Res.bind_ok]
            cases Num.addP x w.neg w.prec <;> rfl
          | _ => rfl
      | _ => rfl

/-- an infinite operand: Modulo answers what Multiply answers (an infinity with the
product sign; the NaN panic when the other operand is a zero) -/
theorem modNum_inf (x y : Num) (h : (x.isInf || y.isInf) = true) : modNum x y = Num.mulCty x y := by
  simp [modNum, h]

/-- a zero divisor (finite dividend): Modulo returns its receiver -/
theorem modNum_zero (x y : Num) (hx : x.isInf = false) (hy : y.isZero = true) : modNum x y = .ok x := by
  have : y.isInf = false := by cases y <;> simp_all [Num.isZero, Num.isInf]
  simp [modNum, hx, this, hy]

/-- the remainder of truncated division: `X = Y·(X tdiv Y) + r`, `|r| < |Y|`, and `r`
has the sign of the dividend (or is zero) -/
theorem truncRem_spec (X Y : Int) (hY : Y ≠ 0) :
    Int.tmod X Y = X - Y * Int.tdiv X Y ∧ (Int.tmod X Y).natAbs < Y.natAbs ∧
    (0 ≤ X → 0 ≤ Int.tmod X Y) ∧ (X ≤ 0 → Int.tmod X Y ≤ 0) := by
  refine ⟨Int.tmod_def X Y, ?_, fun h => Int.tmod_nonneg Y h, ?_⟩
  · rw [Int.natAbs_tmod]
    exact Nat.mod_lt _ (by omega)
  · intro h
    have hneg : Int.tmod (-X) Y = - Int.tmod X Y := Int.neg_tmod X Y
    have := Int.tmod_nonneg Y (a := -X) (by omega)
    omega

/-- the full clause: on finite whole numbers with a non-zero divisor, Modulo is the
remainder of truncated division.  FALSE of the code (`mod_float_counterexample`). -/
def ModIsTruncRem : Prop :=
  ∀ (x y : Num) (a b : Int), x.toInt? = some a → y.toInt? = some b → b ≠ 0 →
    ∃ r, modNum x y = .ok r ∧ r.toInt? = some (Int.tmod a b)

/-- 1e17 held at float64 precision modulo 7 is 16 (exact remainder 5; 16 > 7) -/
theorem mod_float_counterexample :
    modNum (.fin false 762939453125 17 53) (Num.ofInt 7 64) = .ok (.fin false 1 4 53) ∧
    (Num.fin false 762939453125 17 53).toInt? = some 100000000000000000 ∧
    Int.tmod 100000000000000000 7 = 5 := by
  refine ⟨by decide +kernel, by decide +kernel, by decide⟩

/-- 2^60 held at float64 precision modulo 3 is 0 (exact remainder 1) -/
theorem mod_float_counterexample_pow2 :
    modNum (.fin false 1 60 53) (Num.ofInt 3 64) = .ok (.fin false 0 0 53) ∧ Int.tmod (2 ^ 60) 3 = 1 := by
  refine ⟨by decide +kernel, by decide⟩

theorem modIsTruncRem_false : ¬ ModIsTruncRem := by
  intro h
  obtain ⟨r, h1, h2⟩ := h (.fin false 762939453125 17 53) (Num.ofInt 7 64) 100000000000000000 7
    (by decide +kernel) (by decide +kernel) (by decide)
  rw [mod_float_counterexample.1] at h1
  cases h1
  revert h2
  decide +kernel

/-- instances on which the clause does hold, as the driver runs them (int64-built operands) -/
theorem mod_instances :
    modNum (Num.ofInt 17 64) (Num.ofInt (-5) 64) = .ok (Num.ofInt 2 64) ∧
    modNum (Num.ofInt (-17) 64) (Num.ofInt 5 64) = .ok (Num.ofInt (-2) 64) ∧
    modNum (Num.ofInt 9223372036854775807 64) (Num.ofInt 1000000007 64) = .ok (Num.ofInt (Int.tmod 9223372036854775807 1000000007) 64) ∧
    modNum (.fin false 11 (-1) 53) (Num.ofInt 2 64) = .ok (.fin false 3 (-1) 53) := by
  refine ⟨by decide +kernel, by decide +kernel, by decide +kernel, by decide +kernel⟩

end D02
end CtyModel
