/-
Round trips through element conversions (audit C08 item 4 / brief item 5): object → map → object
where the attributes have DIFFERENT types, each converted to the map's element type on the way
out and back to its own type on the way in.  The element conversions themselves are hypotheses
(stated with the same `apply`), so the theorem composes: bool ↔ string, number ↔ string (where
`numTextExact`), nested objects, ….
-/
import CtyModel.Lemmas.ConvertRoundtrip
set_option linter.unusedSimpArgs false
namespace CtyModel
namespace Convert
open Ty

/-! ### object → map with element conversions -/

/-- an object converted to `map(T)`: the map whose members are the converted attributes -/
theorem object_to_map_elems {E : Env} (hU : UnifyLaws E) (fuel : Nat) (T : Ty) (ns : List String)
    (its : List Ty) (os : List Bool) (ps : List Payload) (cs : List Plan) (es' : List Value)
    (hT : wf T = true) (hTo : hasOpt T = false) (hTd : hasDyn T = false) (hne : its ≠ [])
    (hw : wtZip its ps = true) (hnd : ns.Nodup) (hln : ns.length = its.length)
    (hgc : gcAll E its T true = some cs)
    (hF : applyZip (apply E fuel) id cs (zipTys its ps) = .ok es') (hty : ∀ e ∈ es', e.ty = T) :
    convert E (fuel + 2) ⟨.object ns its os, .smap ns ps⟩ (.map T) =
      .ok ⟨.map T, .smap ns (es'.map (·.v))⟩ := by
  have hnd' : T.isDyn = false := not_isDyn_of_noDyn hTd
  have h1 : (Ty.map T).isDyn = false := rfl
  have h2 : (Ty.object ns its os).isDyn = false := rfl
  have hg : getConv E (.object ns its os) (.map T) true =
      some (.wrap (.map T) (.objToMap ns cs T true)) := by
    simp [getConv, gck, h1, h2, isPrim, hne, mapTargetEty, hnd', hgc]
  have hlc : ns.length = cs.length := by rw [hln]; exact (gcAll_inv E true T hgc).length
  have hself := lookup_map_self [] [] ns cs rfl hlc (by simp) hnd
  simp only [List.nil_append] at hself
  have hnz : es' ≠ [] := by
    intro h0
    subst h0
    have hz : (zipTys its ps) ≠ [] := by
      intro hz
      have := zipTys_length hw
      rw [hz] at this
      exact hne (List.length_eq_zero_iff.mp this.symm)
    cases hzz : zipTys its ps with
    | nil => exact hz hzz
    | cons e es =>
      rw [hzz] at hF
      cases cs with
      | nil => simp [applyZip] at hF
      | cons c cs =>
        simp only [applyZip] at hF
        obtain ⟨v', _, hF⟩ := Res.bind_eq_ok hF
        obtain ⟨vs', _, hF⟩ := Res.bind_eq_ok hF
        simp at hF
  have hneq : (Ty.object ns its os).equals (Ty.map T).stripOpt = false := by simp [stripOpt, Ty.equals]
  have hstep : applyStep E (apply E fuel) (.objToMap ns cs T true) ⟨.object ns its os, .smap ns ps⟩ =
      .ok ⟨.map T, .smap ns (es'.map (·.v))⟩ := by
    simp only [applyStep, elemsOf, keysOf, Res.bind, hself, hF]
    have hun : (if isCollOrObj T = true then unifyElems E (apply E fuel) true es' else Res.ok es') = .ok es' := by
      split
      · exact unifyElems_same hU hT hTo hnz hty
      · rfl
    simp only [hun, canCollVal_same hT hnd' hnz hty]
    unfold mapVal
    have : es'.isEmpty = false := by
      cases es' with
      | nil => exact absurd rfl hnz
      | cons => rfl
    simp [this, elemTyOf_same hT hnd' hnz hty]
  simp only [convert, convertWith, hneq, hg, apply, applyStep, Value.isMarked, Payload.isMarked, h1,
    Value.isKnown, Payload.isKnown, Payload.unmark1, Value.isNull, Payload.isNull, Bool.false_eq_true,
    if_false, Bool.not_true, Bool.or_self]
  exact hstep

/-! ### map → object with element conversions -/

/-- the element step of conversionMapToObject for a key whose entry in `elemConvs` is `c` -/
def mapElemStep (rec : Rec) (c : Plan) (v : Value) : Res Value :=
  match c with
  | .impossible => .err "map element type is incompatible with attribute"
  | .nil => .ok v
  | p => rec p v

/-- element by element: the map member `q` converts (by the entry `c` of `elemConvs`) to the
non-null attribute value `p` -/
inductive BackAll (rec : Rec) : List Plan → List Value → List Value → Prop
  | nil : BackAll rec [] [] []
  | cons {c q p cs qs ps} : mapElemStep rec c q = .ok p → p.isNull = false → BackAll rec cs qs ps →
      BackAll rec (c :: cs) (q :: qs) (p :: ps)

theorem BackAll.lengths {rec : Rec} : ∀ {cs : List Plan} {qs ps : List Value}, BackAll rec cs qs ps →
    cs.length = qs.length ∧ ps.length = qs.length
  | _, _, _, .nil => ⟨rfl, rfl⟩
  | _, _, _, .cons _ _ h => by simp [h.lengths.1, h.lengths.2]

theorem mapObjLoop_elems (rec : Rec) (tys : List Ty) (opts : List Bool) :
    ∀ (pre : List String) (preC : List Plan) (ks : List String) (cs : List Plan) (qs ps : List Value),
    pre.length = preC.length → (∀ x ∈ ks, x ∉ pre) → ks.Nodup → ks.length = cs.length →
    BackAll rec cs qs ps →
    mapObjLoop rec (pre ++ ks) tys opts (preC ++ cs) ks qs = .ok (ks, ps)
  | _, _, [], [], _, _, _, _, _, _, .nil => by simp [mapObjLoop]
  | _, _, [], _ :: _, _, _, _, _, _, h, _ => by simp at h
  | _, _, _ :: _, [], _, _, _, _, _, h, _ => by simp at h
  | pre, preC, k :: ks, c :: cs, _, _, hl, hpre, hnd, hlen, .cons hstep hnn hrest => by
    rename_i q p qs ps
    have hnd' := List.nodup_cons.mp hnd
    have hck : (pre ++ k :: ks).contains k = true := by simp
    have hlk := lookupPlan_prefix pre preC k ks c cs hl (hpre k (by simp))
    have ih := mapObjLoop_elems rec tys opts (pre ++ [k]) (preC ++ [c]) ks cs qs ps (by simp [hl])
      (by
        intro x hx hm
        rcases List.mem_append.mp hm with hm | hm
        · exact hpre x (by simp [hx]) hm
        · simp at hm; subst hm; exact hnd'.1 hx) hnd'.2 (by simpa using hlen) hrest
    simp only [List.append_assoc, List.singleton_append] at ih
    simp only [mapObjLoop, hck, Bool.not_true, Bool.false_eq_true, if_false, hlk]
    cases c <;> simp only [mapElemStep] at hstep <;>
      first
        | (simp at hstep; done)
        | (simp only [Res.ok.injEq] at hstep; subst hstep; simp [Res.bind, ih, stripNull, hnn])
        | simp [hstep, Res.bind, ih, stripNull, hnn]

/-- a map converted to an object type: the object of the converted members -/
theorem map_to_object_elems {E : Env} (fuel : Nat) (T : Ty) (ns : List String)
    (its : List Ty) (os : List Bool) (qs : List Payload) (cs' : List Plan) (ps' : List Value)
    (hnd : ns.Nodup) (hln : ns.length = its.length) (hlo : os.length = its.length)
    (hgc : mapToObjConvs (fun o => gck E T o true) T its os = some cs')
    (hB : BackAll (apply E fuel) cs' (qs.map fun q => ⟨T, q⟩) ps') :
    convert E (fuel + 2) ⟨.map T, .smap ns qs⟩ (.object ns its os) = .ok (objectVal ns ps') := by
  have h1 : (Ty.object ns its os).isDyn = false := rfl
  have h2 : (Ty.map T).isDyn = false := rfl
  have hg : getConv E (.map T) (.object ns its os) true =
      some (.wrap (.object ns its os) (.mapToObj ns its os cs')) := by
    simp [getConv, gck, h1, h2, isPrim, hgc]
  have hneq : (Ty.map T).equals (Ty.object ns its os).stripOpt = false := by simp [stripOpt, Ty.equals]
  have hlc : its.length = cs'.length := (mapToObjConvs_inv E true T hlo.symm hgc).length
  have hlens := hB.lengths
  have hloop := mapObjLoop_elems (apply E fuel) its os [] [] ns cs' _ ps' rfl (by simp) hnd
    (by rw [hln, hlc]) hB
  simp only [List.nil_append] at hloop
  have hpl : ps'.length = its.length := by rw [hlens.2, ← hlens.1, hlc]
  have hfill := mapObjFill_self [] [] ns ps' its os rfl (by rw [hpl, hln]) hpl.symm (by rw [hpl, hlo])
    (by simp) hnd
  simp only [List.nil_append] at hfill
  have hstep : applyStep E (apply E fuel) (.mapToObj ns its os cs') ⟨.map T, .smap ns qs⟩ =
      .ok (objectVal ns ps') := by
    simp only [applyStep, elemsOf, keysOf, Res.bind, hloop, hfill]
  simp only [convert, convertWith, hneq, hg, apply, applyStep, Value.isMarked, Payload.isMarked, h1,
    Value.isKnown, Payload.isKnown, Payload.unmark1, Value.isNull, Payload.isNull, Bool.false_eq_true,
    if_false, Bool.not_true, Bool.or_self]
  exact hstep

theorem zipTys_tys : ∀ {its : List Ty} {ps : List Payload}, wtZip its ps = true →
    (zipTys its ps).map (·.ty) = its
  | [], [], _ => rfl
  | [], _ :: _, h => by simp [wtZip] at h
  | _ :: _, [], h => by simp [wtZip] at h
  | _ :: its, _ :: ps, h => by
    simp only [wtZip, Bool.and_eq_true] at h
    simp [zipTys, zipTys_tys h.2]

theorem map_mk_v {T : Ty} : ∀ (es : List Value), (∀ e ∈ es, e.ty = T) →
    (es.map (·.v)).map (fun q => (⟨T, q⟩ : Value)) = es
  | [], _ => rfl
  | e :: es, h => by
    have he : e.ty = T := h e (by simp)
    have : (⟨T, e.v⟩ : Value) = e := by cases e; simp at he; subst he; rfl
    simp [this, map_mk_v es (fun x hx => h x (by simp [hx]))]

theorem map_const_false_eq : ∀ (os : List Bool) (vs : List Value), vs.length = os.length → (∀ o ∈ os, o = false) →
    vs.map (fun _ => false) = os
  | [], [], _, _ => rfl
  | [], _ :: _, h, _ => by simp at h
  | _ :: _, [], h, _ => by simp at h
  | o :: os, _ :: vs, h, hall => by
    simp only [List.map_cons, List.cons.injEq]
    exact ⟨(hall o (by simp)).symm, map_const_false_eq os vs (by simpa using h) fun x hx => hall x (by simp [hx])⟩

/-- **object → map → object through element conversions**: if every attribute converts to the
element type `T` (forward: `es'`) and every converted member converts back to its attribute
(backward, non-null), the object converts to the map of the converted members and that map
converts back to the ORIGINAL object. -/
theorem object_map_object_elems {E : Env} (hU : UnifyLaws E) (fuel : Nat) (T : Ty) (ns : List String)
    (its : List Ty) (os : List Bool) (ps : List Payload) (cs cs' : List Plan) (es' : List Value)
    (hT : wf T = true) (hTo : hasOpt T = false) (hTd : hasDyn T = false) (hne : its ≠ [])
    (hw : wtZip its ps = true) (hnd : ns.Nodup) (hln : ns.length = its.length)
    (hlo : os.length = its.length) (hos : ∀ o ∈ os, o = false)
    (hgc : gcAll E its T true = some cs)
    (hgc' : mapToObjConvs (fun o => gck E T o true) T its os = some cs')
    (hF : applyZip (apply E fuel) id cs (zipTys its ps) = .ok es') (hty : ∀ e ∈ es', e.ty = T)
    (hB : BackAll (apply E fuel) cs' es' (zipTys its ps)) :
    convert E (fuel + 2) ⟨.object ns its os, .smap ns ps⟩ (.map T) = .ok ⟨.map T, .smap ns (es'.map (·.v))⟩ ∧
    convert E (fuel + 2) ⟨.map T, .smap ns (es'.map (·.v))⟩ (.object ns its os) =
      .ok ⟨.object ns its os, .smap ns ps⟩ := by
  refine ⟨object_to_map_elems hU fuel T ns its os ps cs es' hT hTo hTd hne hw hnd hln hgc hF hty, ?_⟩
  have hB' : BackAll (apply E fuel) cs' ((es'.map (·.v)).map fun q => ⟨T, q⟩) (zipTys its ps) := by
    rw [map_mk_v es' hty]; exact hB
  rw [map_to_object_elems fuel T ns its os _ cs' (zipTys its ps) hnd hln hlo hgc' hB']
  simp only [objectVal, zipTys_tys hw, zipTys_v hw,
    map_const_false_eq os (zipTys its ps) (by rw [zipTys_length hw, hlo]) hos]

end Convert
end CtyModel
