/-
PathSet: `pathSetRules` is lawful on paths with plain known keys
(`PathSet.goodRules`), and the PathSet-specific methods (`AddAllSteps`, `Empty`,
`List`, `Equal`) refine their mathematical counterparts — the extension of
`SetImpl.runRegs_refines` (C03) to `PathSet.psRun`.
-/
import CtyModel.PathSet
import CtyModel.Lemmas.SetRefineRun
import CtyModel.Lemmas.WalkApply
namespace CtyModel

/-! ### `rawNumberEqual` is the equality of a key -/
namespace Num

def fixZero (s : String) : String := if s == "-0" then "0" else s

theorem rawEqual_iff (a b : Num) :
    rawEqual a b = true ↔
      a.sign = b.sign ∧ a.isInt = b.isInt ∧
        (if a.isInt then a.truncInt = b.truncInt else fixZero (textF a) = fixZero (textF b)) := by
  unfold rawEqual
  by_cases hs : a.sign = b.sign
  · by_cases hi : a.isInt = b.isInt
    · cases hai : a.isInt
      · simp [hs, ← hi, hai, fixZero]
      · simp [hs, ← hi, hai]
    · simp [hs, hi]
  · simp [hs]

theorem rawEqual_refl (a : Num) : rawEqual a a = true := by
  rw [rawEqual_iff]; simp

theorem rawEqual_symm {a b : Num} (h : rawEqual a b = true) : rawEqual b a = true := by
  rw [rawEqual_iff] at h ⊢
  obtain ⟨h1, h2, h3⟩ := h
  refine ⟨h1.symm, h2.symm, ?_⟩
  rw [← h2]
  split at h3 <;> simp_all

theorem rawEqual_trans {a b c : Num} (h : rawEqual a b = true) (h' : rawEqual b c = true) :
    rawEqual a c = true := by
  rw [rawEqual_iff] at h h' ⊢
  obtain ⟨h1, h2, h3⟩ := h
  obtain ⟨g1, g2, g3⟩ := h'
  refine ⟨h1.trans g1, h2.trans g2, ?_⟩
  rw [← h2] at g3
  split at h3 <;> simp_all

end Num

namespace PathSet
open SetImpl

/-! ### the equivalence, in closed form on plain keys -/

/-- the number or string a good key stands for (marks aside) -/
def keyOf (a : Value) : Option (Num ⊕ String) :=
  match a.ty, a.v.unmark1 with
  | .number, .n x => some (.inl x)
  | .string, .s x => some (.inr x)
  | _, _ => none

/-- `Key.Equals(other)` is known and true, for known number/string keys (marks aside) -/
def keyEq (a b : Value) : Bool :=
  match keyOf a, keyOf b with
  | some (.inl x), some (.inl y) => Num.rawEqual x y
  | some (.inr x), some (.inr y) => x == y
  | _, _ => false

/-- the step loop of `Equivalent` in closed form -/
def stepsEq : Path → Path → Bool
  | .getAttr a :: p, .getAttr b :: q => a == b && stepsEq p q
  | .index a :: p, .index b :: q => keyEq a b && stepsEq p q
  | [], _ => true
  | _, _ => false

/-- the shape of a good key: a number or string payload under at most one marker -/
theorem primKey_cases {a : Value} (h : primKey a = true) :
    (∃ x, a = ⟨.number, .n x⟩) ∨ (∃ ms x, a = ⟨.number, .marked ms (.n x)⟩) ∨
    (∃ x, a = ⟨.string, .s x⟩) ∨ (∃ ms x, a = ⟨.string, .marked ms (.s x)⟩) := by
  obtain ⟨ta, pa⟩ := a
  cases ta <;> cases pa <;> simp [primKey, Payload.unmark1] at h
  · exact Or.inl ⟨_, rfl⟩
  · rename_i ms r
    cases r <;> simp at h
    exact Or.inr (Or.inl ⟨_, _, rfl⟩)
  · exact Or.inr (Or.inr (Or.inl ⟨_, rfl⟩))
  · rename_i ms r
    cases r <;> simp at h
    exact Or.inr (Or.inr (Or.inr ⟨_, _, rfl⟩))

theorem unmark_withMarks (x : Value) (L : List String) : (x.withMarks L).unmark = x.unmark := by
  simp only [Value.unmark, Value.withMarks, Walk.unmark1_withMarks]

theorem equals_primKey {a b : Value} (ha : primKey a = true) (hb : primKey b = true) :
    ∃ r, Value.equals a b = .ok r ∧ r.unmark = Value.boolVal (keyEq a b) := by
  rcases primKey_cases ha with ⟨x, rfl⟩ | ⟨ms, x, rfl⟩ | ⟨x, rfl⟩ | ⟨ms, x, rfl⟩ <;>
    rcases primKey_cases hb with ⟨y, rfl⟩ | ⟨ms', y, rfl⟩ | ⟨y, rfl⟩ | ⟨ms', y, rfl⟩ <;>
    first
    | exact ⟨_, rfl, rfl⟩
    | exact ⟨_, rfl, unmark_withMarks _ _⟩

theorem equivSteps_good : ∀ (p q : Path), keysOk p = true → keysOk q = true →
    equivSteps p q = .ok (stepsEq p q)
  | [], q, _, _ => by cases q <;> rfl
  | .getAttr a :: p, [], _, _ => rfl
  | .index a :: p, [], _, _ => rfl
  | .getAttr a :: p, .index b :: q, _, _ => rfl
  | .index a :: p, .getAttr b :: q, _, _ => rfl
  | .getAttr a :: p, .getAttr b :: q, hp, hq => by
    simp only [keysOk] at hp hq
    simp only [equivSteps, stepsEq]
    by_cases h : a = b
    · simp [h, equivSteps_good p q hp hq]
    · simp [h]
  | .index a :: p, .index b :: q, hp, hq => by
    simp only [keysOk, Bool.and_eq_true] at hp hq
    obtain ⟨r, hr, hu⟩ := equals_primKey hp.1 hq.1
    simp only [equivSteps, stepsEq, hr, hu]
    cases h : keyEq a b
    · simp [Value.boolVal, Value.isKnown, Payload.isKnown, Payload.unmark1, Value.isTrue]
    · simp [Value.boolVal, Value.isKnown, Payload.isKnown, Payload.unmark1, Value.isTrue,
        equivSteps_good p q hp.2 hq.2]

/-- `Equivalent` on plain-key paths: same length and stepwise equal -/
def pathEqv (p q : Path) : Bool := p.length == q.length && stepsEq p q

theorem equiv_good (p q : GoodPath) : goodRules.equiv p q = pathEqv p.1 q.1 := by
  simp only [goodRules, pathRules, equiv, pathEqv]
  by_cases h : p.1.length = q.1.length
  · simp [h, equivSteps_good p.1 q.1 p.2 q.2]
  · simp [h]

theorem keyEq_refl {a : Value} (h : primKey a = true) : keyEq a a = true := by
  rcases primKey_cases h with ⟨x, rfl⟩ | ⟨ms, x, rfl⟩ | ⟨x, rfl⟩ | ⟨ms, x, rfl⟩ <;>
    simp [keyEq, keyOf, Payload.unmark1, Num.rawEqual_refl]

theorem keyEq_symm {a b : Value} (h : keyEq a b = true) : keyEq b a = true := by
  simp only [keyEq] at h ⊢
  cases ha : keyOf a with
  | none => simp [ha] at h
  | some ka =>
    cases hb : keyOf b with
    | none => cases ka <;> simp [ha, hb] at h
    | some kb =>
      cases ka <;> cases kb <;> simp [ha, hb] at h ⊢
      · exact Num.rawEqual_symm h
      · exact h.symm

theorem keyEq_trans {a b c : Value} (h : keyEq a b = true) (h' : keyEq b c = true) :
    keyEq a c = true := by
  simp only [keyEq] at h h' ⊢
  cases ha : keyOf a with
  | none => simp [ha] at h
  | some ka =>
    cases hb : keyOf b with
    | none => cases ka <;> simp [ha, hb] at h
    | some kb =>
      cases hc : keyOf c with
      | none => cases kb <;> simp [hb, hc] at h'
      | some kc =>
        cases ka <;> cases kb <;> simp [ha, hb] at h <;> cases kc <;> simp [hb, hc] at h' ⊢
        · exact Num.rawEqual_trans h h'
        · exact h.trans h'

theorem pathEqv_refl : ∀ (p : Path), keysOk p = true → pathEqv p p = true
  | [], _ => rfl
  | .getAttr a :: p, h => by
    have := pathEqv_refl p (by simpa [keysOk] using h)
    simp only [pathEqv, Bool.and_eq_true, beq_iff_eq] at this ⊢
    simp [stepsEq, this.2]
  | .index a :: p, h => by
    simp only [keysOk, Bool.and_eq_true] at h
    have := pathEqv_refl p h.2
    simp only [pathEqv, Bool.and_eq_true, beq_iff_eq] at this ⊢
    simp [stepsEq, this.2, keyEq_refl h.1]

theorem pathEqv_symm : ∀ (p q : Path), pathEqv p q = true → pathEqv q p = true
  | [], [], _ => rfl
  | [], _ :: _, h => by simp [pathEqv] at h
  | _ :: _, [], h => by simp [pathEqv] at h
  | .getAttr a :: p, .index b :: q, h => by simp [pathEqv, stepsEq] at h
  | .index a :: p, .getAttr b :: q, h => by simp [pathEqv, stepsEq] at h
  | .getAttr a :: p, .getAttr b :: q, h => by
    simp only [pathEqv, stepsEq, List.length_cons, Bool.and_eq_true, beq_iff_eq,
      Nat.add_right_cancel_iff] at h ⊢
    have := pathEqv_symm p q (by simp [pathEqv, h.1, h.2.2])
    simp only [pathEqv, Bool.and_eq_true, beq_iff_eq] at this
    exact ⟨h.1.symm, h.2.1.symm, this.2⟩
  | .index a :: p, .index b :: q, h => by
    simp only [pathEqv, stepsEq, List.length_cons, Bool.and_eq_true, beq_iff_eq,
      Nat.add_right_cancel_iff] at h ⊢
    have := pathEqv_symm p q (by simp [pathEqv, h.1, h.2.2])
    simp only [pathEqv, Bool.and_eq_true, beq_iff_eq] at this
    exact ⟨h.1.symm, keyEq_symm h.2.1, this.2⟩

theorem pathEqv_trans : ∀ (p q r : Path), pathEqv p q = true → pathEqv q r = true →
    pathEqv p r = true
  | [], [], r, _, h' => h'
  | [], _ :: _, _, h, _ => by simp [pathEqv] at h
  | _ :: _, [], _, h, _ => by simp [pathEqv] at h
  | _ :: _, _ :: _, [], _, h' => by simp [pathEqv] at h'
  | .getAttr a :: p, .index b :: q, _, h, _ => by simp [pathEqv, stepsEq] at h
  | .index a :: p, .getAttr b :: q, _, h, _ => by simp [pathEqv, stepsEq] at h
  | _ :: _, .getAttr b :: q, .index c :: r, _, h' => by simp [pathEqv, stepsEq] at h'
  | _ :: _, .index b :: q, .getAttr c :: r, _, h' => by simp [pathEqv, stepsEq] at h'
  | .getAttr a :: p, .getAttr b :: q, .getAttr c :: r, h, h' => by
    simp only [pathEqv, stepsEq, List.length_cons, Bool.and_eq_true, beq_iff_eq,
      Nat.add_right_cancel_iff] at h h' ⊢
    have := pathEqv_trans p q r (by simp [pathEqv, h.1, h.2.2]) (by simp [pathEqv, h'.1, h'.2.2])
    simp only [pathEqv, Bool.and_eq_true, beq_iff_eq] at this
    exact ⟨h.1.trans h'.1, h.2.1.trans h'.2.1, this.2⟩
  | .index a :: p, .index b :: q, .index c :: r, h, h' => by
    simp only [pathEqv, stepsEq, List.length_cons, Bool.and_eq_true, beq_iff_eq,
      Nat.add_right_cancel_iff] at h h' ⊢
    have := pathEqv_trans p q r (by simp [pathEqv, h.1, h.2.2]) (by simp [pathEqv, h'.1, h'.2.2])
    simp only [pathEqv, Bool.and_eq_true, beq_iff_eq] at this
    exact ⟨h.1.trans h'.1, keyEq_trans h.2.1 h'.2.1, this.2⟩

/-- equivalent paths write the same bytes to the hash -/
theorem hashBytes_eq_of_pathEqv : ∀ (p q : Path), pathEqv p q = true → hashBytes p = hashBytes q
  | [], [], _ => rfl
  | [], _ :: _, h => by simp [pathEqv] at h
  | _ :: _, [], h => by simp [pathEqv] at h
  | .getAttr a :: p, .index b :: q, h => by simp [pathEqv, stepsEq] at h
  | .index a :: p, .getAttr b :: q, h => by simp [pathEqv, stepsEq] at h
  | .getAttr a :: p, .getAttr b :: q, h => by
    simp only [pathEqv, stepsEq, List.length_cons, Bool.and_eq_true, beq_iff_eq,
      Nat.add_right_cancel_iff] at h
    have := hashBytes_eq_of_pathEqv p q (by simp [pathEqv, h.1, h.2.2])
    simp [hashBytes, h.2.1, this]
  | .index a :: p, .index b :: q, h => by
    simp only [pathEqv, stepsEq, List.length_cons, Bool.and_eq_true, beq_iff_eq,
      Nat.add_right_cancel_iff] at h
    have := hashBytes_eq_of_pathEqv p q (by simp [pathEqv, h.1, h.2.2])
    simp [hashBytes, this]

/-- **`pathSetRules` meets the contract of `set.Rules`** on paths whose index keys
are plain known numbers or strings: `Equivalent` is an equivalence relation and
equivalent paths hash alike. -/
theorem goodRules_lawful : goodRules.Lawful where
  refl a := by rw [equiv_good]; exact pathEqv_refl a.1 a.2
  symm a b h := by rw [equiv_good] at h ⊢; exact pathEqv_symm _ _ h
  trans a b c h h' := by rw [equiv_good] at h h' ⊢; exact pathEqv_trans _ _ _ h h'
  hash_eq a b h := by
    rw [equiv_good] at h
    simp only [goodRules, pathRules, hash, hashBytes_eq_of_pathEqv _ _ h]

/-! ### the PathSet-specific methods (any lawful rules) -/
section Generic
variable {α : Type} {R : Rules α}

theorem invB_addAll (hR : R.Lawful) {s : SetImpl α} (h : InvB R s) (xs : List α) :
    InvB R (addAll R s xs) := by
  induction xs generalizing s with
  | nil => exact h
  | cons x xs ih => exact ih (invB_add hR h x)

theorem abs_addAll (hR : R.Lawful) {s : SetImpl α} (h : InvB R s) (xs : List α) (y : α) :
    abs R (addAll R s xs) y ↔ abs R s y ∨ ∃ x ∈ xs, R.equiv y x = true := by
  induction xs generalizing s with
  | nil => simp [addAll]
  | cons x xs ih =>
    simp only [addAll, List.foldl_cons] at ih ⊢
    rw [ih (invB_add hR h x), abs_add hR h x y]
    simp only [List.mem_cons, exists_eq_or_imp]
    constructor
    · rintro ((h1 | h1) | h1)
      · exact Or.inl h1
      · exact Or.inr (Or.inl h1)
      · exact Or.inr (Or.inr h1)
    · rintro (h1 | h1 | h1)
      · exact Or.inl (Or.inl h1)
      · exact Or.inl (Or.inr h1)
      · exact Or.inr h1

/-- pigeonhole, other direction: two duplicate-free lists of representatives of
equal length, one covered by the other, cover each other -/
theorem cover_surj (hR : R.Lawful) (l1 l2 : List α) (h1 : Inequiv R l1)
    (hlen : l2.length ≤ l1.length) (hcov : ∀ a ∈ l1, ∃ b ∈ l2, R.equiv a b = true) :
    ∀ b ∈ l2, ∃ a ∈ l1, R.equiv b a = true := by
  intro b hb
  apply Classical.byContradiction
  intro hno
  obtain ⟨p, q, rfl⟩ := List.append_of_mem hb
  have : l1.length ≤ (p ++ q).length := by
    apply length_le_of_cover hR l1 (p ++ q) h1
    intro a ha
    obtain ⟨b', hb', hab'⟩ := hcov a ha
    refine ⟨b', ?_, hab'⟩
    rcases List.mem_append.mp hb' with hb' | hb'
    · exact List.mem_append_left _ hb'
    · rcases List.mem_cons.mp hb' with rfl | hb'
      · exact absurd ⟨a, ha, hR.symm a b' hab'⟩ hno
      · exact List.mem_append_right _ hb'
  simp only [List.length_append, List.length_cons] at this hlen
  omega

/-- `Equal` decides equality of the mathematical sets -/
theorem equal_iff (hR : R.Lawful) {s o : SetImpl α} (hs : InvB R s) (ho : InvB R o) :
    equal R s o = true ↔ ∀ y, abs R s y ↔ abs R o y := by
  have is := hs.toInv hR
  have io := ho.toInv hR
  constructor
  · intro h
    simp only [equal, Bool.and_eq_true, beq_iff_eq, List.all_eq_true] at h
    obtain ⟨hlen, hall⟩ := h
    rw [length_eq_values_length, length_eq_values_length] at hlen
    have hcov : ∀ a ∈ values s, ∃ b ∈ values o, R.equiv a b = true := by
      intro a ha
      exact (has_iff_abs hR ho a).mp (hall a ((mem_iter R s a).mpr ha))
    have hsurj := cover_surj hR (values s) (values o) is.nodup (by omega) hcov
    intro y
    constructor
    · rintro ⟨m, hm, hym⟩
      obtain ⟨b, hb, hmb⟩ := hcov m hm
      exact ⟨b, hb, hR.trans y m b hym hmb⟩
    · rintro ⟨m, hm, hym⟩
      obtain ⟨a, ha, hma⟩ := hsurj m hm
      exact ⟨a, ha, hR.trans y m a hym hma⟩
  · intro h
    simp only [equal, Bool.and_eq_true, beq_iff_eq, List.all_eq_true]
    refine ⟨length_eq_of_abs_eq hR is io h, ?_⟩
    intro m hm
    rw [has_iff_abs hR ho m, ← h m]
    exact ⟨m, (mem_iter R s m).mp hm, hR.refl m⟩

theorem isEmpty_iff (hR : R.Lawful) (s : SetImpl α) : isEmpty s = true ↔ ∀ y, ¬ abs R s y := by
  simp only [isEmpty, beq_iff_eq, length_eq_values_length]
  constructor
  · intro h y ⟨m, hm, _⟩
    rw [List.length_eq_zero_iff] at h
    rw [h] at hm
    cases hm
  · intro h
    cases hv : values s with
    | nil => rfl
    | cons m ms =>
      exact absurd ⟨m, by rw [hv]; exact List.mem_cons_self, hR.refl m⟩ (h m)

end Generic
/-! ### histories of PathSet calls -/
section Run
variable {α : Type} {R : Rules α} {pre : α → List α}

/-- what each PathSet call does to the mathematical sets -/
def psSpecStep (R : Rules α) (pre : α → List α) : PSOp α → AbsRegs α → AbsRegs α
  | .set op, A => specStep R op A
  | .addAllSteps i x, A => A.set i (fun y => A i y ∨ ∃ q ∈ pre x, R.equiv y q = true)
  | .empty _, A => A
  | .list _, A => A
  | .equal _ _, A => A

def psSpecRun (R : Rules α) (pre : α → List α) : List (PSOp α) → AbsRegs α → AbsRegs α
  | [], A => A
  | op :: ops, A => psSpecRun R pre ops (psSpecStep R pre op A)

/-- what each PathSet call must return, in terms of the mathematical sets before it -/
def PSOutOk (R : Rules α) (A : AbsRegs α) : PSOp α → SetOut α → Prop
  | .set op, o => OutOk R A op o
  | .addAllSteps _ _, o => o = .none
  | .empty i, o => ∃ b, o = .bool b ∧ (b = true ↔ ∀ y, ¬ A i y)
  | .list i, o => ∃ l, o = .list l ∧ Represents R l (A i)
  | .equal a b, o => ∃ r, o = .bool r ∧ (r = true ↔ ∀ y, A a y ↔ A b y)

def PSOutsOk (R : Rules α) (pre : α → List α) : AbsRegs α → List (PSOp α) → List (SetOut α) → Prop
  | _, [], outs => outs = []
  | A, op :: ops, outs => ∃ o rest, outs = o :: rest ∧ PSOutOk R A op o ∧
      PSOutsOk R pre (psSpecStep R pre op A) ops rest

theorem allInv_psStep (hR : R.Lawful) (op : PSOp α) {st : List (SetImpl α)} (h : AllInv R st) :
    AllInv R (psStep R pre op st).1 := by
  cases op with
  | set op => exact allInv_step hR op h
  | addAllSteps i x => exact allInv_putReg h i (invB_addAll hR (h i) _)
  | empty i => exact h
  | list i => exact h
  | equal a b => exact h

theorem allInv_psRun (hR : R.Lawful) (ops : List (PSOp α)) {st : List (SetImpl α)}
    (h : AllInv R st) : AllInv R (psRun R pre ops st).1 := by
  induction ops generalizing st with
  | nil => exact h
  | cons op ops ih => exact ih (allInv_psStep hR op h)

theorem psStep_refines (hR : R.Lawful) (op : PSOp α) {st : List (SetImpl α)} (h : AllInv R st) :
    absRegs R (psStep R pre op st).1 = psSpecStep R pre op (absRegs R st) ∧
      PSOutOk R (absRegs R st) op (psStep R pre op st).2 := by
  cases op with
  | set op => exact step_refines hR op h
  | addAllSteps i x =>
    refine ⟨?_, rfl⟩
    simp only [psStep, psSpecStep, absRegs_putReg]
    congr 1
    funext y
    exact propext (abs_addAll hR (h i) _ y)
  | empty i => exact ⟨rfl, _, rfl, isEmpty_iff hR _⟩
  | list i =>
    refine ⟨rfl, _, rfl, ?_⟩
    simp only [list]
    split
    · rename_i he
      refine ⟨List.Pairwise.nil, fun y => ?_⟩
      have := (isEmpty_iff (R := R) hR _).mp he y
      simp only [absRegs]
      constructor
      · intro hy; exact absurd hy this
      · rintro ⟨m, hm, _⟩; cases hm
    · exact represents_iter hR (h i)
  | equal a b => exact ⟨rfl, _, rfl, equal_iff hR (h a) (h b)⟩

theorem psRun_refines (hR : R.Lawful) (ops : List (PSOp α)) {st : List (SetImpl α)}
    (h : AllInv R st) :
    absRegs R (psRun R pre ops st).1 = psSpecRun R pre ops (absRegs R st) ∧
      PSOutsOk R pre (absRegs R st) ops (psRun R pre ops st).2 := by
  induction ops generalizing st with
  | nil => exact ⟨rfl, rfl⟩
  | cons op ops ih =>
    have ⟨h1, h2⟩ := psStep_refines (pre := pre) hR op h
    have ⟨i1, i2⟩ := ih (allInv_psStep (pre := pre) hR op h)
    simp only [psRun, psSpecRun]
    refine ⟨by rw [i1, h1], _, _, rfl, h2, ?_⟩
    rw [← h1]
    exact i2

end Run

/-- `AddAllSteps` adds exactly the non-empty prefixes of the path -/
theorem mem_prefixesG (x q : GoodPath) :
    q ∈ prefixesG x ↔ ∃ n, 0 < n ∧ n ≤ x.1.length ∧ q.1 = x.1.take n := by
  simp only [prefixesG, List.mem_map, List.mem_range]
  constructor
  · rintro ⟨i, hi, rfl⟩
    exact ⟨i + 1, by omega, by omega, rfl⟩
  · rintro ⟨n, h0, hn, hq⟩
    refine ⟨n - 1, by omega, ?_⟩
    apply Subtype.ext
    simp only [hq]
    congr 1
    omega

end PathSet
end CtyModel

