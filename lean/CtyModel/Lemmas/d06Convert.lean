/-
C06 × C08: the conversion model (`Convert.convert`, `Convert.apply`) preserves
C06 well-formedness (`Value.WF nfc`) for placeholder-free targets.

Main results (namespace `CtyModel.D06Conv`):
* `convert_wf` / `convert_wf'` — `convert E fuel v want = .ok r → r.WF nfc`, for every fuel, every
  well-formed `v`, every well-formed target without DynamicPseudoType whose attribute names satisfy `nfc`;
* `apply_wf` / `apply_wf'` — the same for a conversion returned by `getConv` (safe or unsafe);
* `convert_wt_of_wf` — the result is also well-typed in the C08 sense (`Value.wt`).
Side conditions: `UnifyLaws E` (as in C08), `SetWFLaws nfc E` (the set oracle of `E`: a member the oracle
declares not `Equivalent` to a stored one is not `Equals`-true to it, and `Equals`-true members hash
alike — needed for "no duplicate members"), `TextLaws nfc` (the texts number → string and bool → string
produce are accepted by `nfc`).  `setWFLaws_concrete` reduces `SetWFLaws` for the driver's
`Env.concrete` to symmetry of `equivP` and hash coherence of `hashC`.

Method: the invariant is `PW nfc v` (payload well-formed for the value's own type); the result *type* is
known from the C08 typing theorem (`recOK_apply`), so `Value.WF` = `Ty.ok` of `want.stripOpt` + `PW`.
`recWF_apply` is the induction over fuel, `inner_pw` the case analysis over closure bodies.

Everything here is new (namespace `D06Conv`); nothing existing is changed.
-/
import CtyModel.Lemmas.ConvertProps
import CtyModel.Lemmas.WFRefine
import CtyModel.ConvertSet
set_option linter.unusedSimpArgs false
set_option linter.unusedVariables false
set_option linter.unusedSectionVars false
namespace CtyModel
namespace D06Conv
open Convert Ty

variable {nfc : String → Bool}

/-- the payload is well-formed for the value's own type (the payload half of `Value.WF`) -/
def PW (nfc : String → Bool) (v : Value) : Prop := Payload.wfP nfc v.ty v.v = true

theorem wf_of_pw {v : Value} (hok : v.ty.ok nfc = true) (h : PW nfc v) : v.WF nfc = true := by
  simp only [Value.WF, Bool.and_eq_true]; exact ⟨hok, h⟩

theorem pw_of_wf {v : Value} (h : v.WF nfc = true) : PW nfc v := by
  simp only [Value.WF, Bool.and_eq_true] at h; exact h.2

/-! ### C06 payload well-formedness implies C08 well-typedness -/
mutual
theorem wt_of_wf : ∀ (t : Ty) (p : Payload), Payload.wfP nfc t p = true → wtP t p = true
  | t, .marked ms r, h => by
    simp only [Payload.wfP_marked, Bool.and_eq_true, Bool.not_eq_true'] at h
    have := wt_of_wf t r h.2
    cases t <;> simp [wtP, h.1.2, this]
  | t, .null, _ => by cases t <;> simp [wtP]
  | t, .unk _, _ => by cases t <;> simp [wtP]
  | t, .seq vs, h => by
    cases t <;> simp [Payload.wfP] at h
    · simp only [wtP]; exact wtAll_of_wf _ vs h
    · simp only [wtP]; exact wtZip_of_wf _ vs h.1 h.2
  | t, .smap ks vs, h => by
    cases t <;> simp [Payload.wfP] at h
    · simp only [wtP, Bool.and_eq_true, beq_iff_eq]; exact ⟨h.1.1.1, wtAll_of_wf _ vs h.2⟩
    · simp only [wtP, Bool.and_eq_true, beq_iff_eq]; exact ⟨h.1.1, wtZip_of_wf _ vs h.1.2 h.2⟩
  | t, .sset ids vs, h => by
    cases t <;> simp [Payload.wfP] at h
    simp only [wtP, Bool.and_eq_true, beq_iff_eq]; exact ⟨h.1.1.1.1, wtAll_of_wf _ vs h.2⟩
  | t, .b _, h | t, .n _, h | t, .s _, h | t, .caps, h => by
    cases t <;> simp [Payload.wfP] at h <;> simp [wtP]
  | t, .bad _, h => by cases t <;> simp [Payload.wfP] at h
theorem wtAll_of_wf : ∀ (e : Ty) (vs : List Payload), Payload.wfAll nfc e vs = true → wtAll e vs = true
  | _, [], _ => by simp [wtAll]
  | e, v :: vs, h => by
    simp only [Payload.wfAll, Bool.and_eq_true] at h
    simp [wtAll, wt_of_wf e v h.1, wtAll_of_wf e vs h.2]
theorem wtZip_of_wf : ∀ (ts : List Ty) (vs : List Payload), ts.length = vs.length →
    Payload.wfZip nfc ts vs = true → wtZip ts vs = true
  | [], [], _, _ => by simp [wtZip]
  | [], _ :: _, hl, _ => by simp at hl
  | _ :: _, [], hl, _ => by simp at hl
  | t :: ts, v :: vs, hl, h => by
    simp only [Payload.wfZip, Bool.and_eq_true] at h
    simp [wtZip, wt_of_wf t v h.1, wtZip_of_wf ts vs (by simpa using hl) h.2]
end

/-- a C06-well-formed value is well-typed in the sense the C08 theorems assume -/
theorem valueWt_of_WF {v : Value} (h : v.WF nfc = true) : Value.wt v = true := by
  simp only [Value.WF, Ty.ok, Bool.and_eq_true, Bool.not_eq_true'] at h
  simp [Value.wt, h.1.1.1, h.1.1.2, wt_of_wf _ _ h.2]

/-! ### attribute names survive the erasure of optional-attribute annotations -/
mutual
theorem namesAll_stripOpt (p : String → Bool) : ∀ t : Ty, namesAll p t = true → namesAll p (stripOpt t) = true
  | .list e, h | .set e, h | .map e, h => by
    simp only [namesAll] at h; simp [stripOpt, namesAll, namesAll_stripOpt p e h]
  | .tuple es, h => by
    simp only [namesAll] at h; simp [stripOpt, namesAll, namesAllL_stripOptL p es h]
  | .object ns ts os, h => by
    simp only [namesAll, Bool.and_eq_true] at h
    simp only [stripOpt, namesAll, Bool.and_eq_true]
    exact ⟨h.1, namesAllL_stripOptL p ts h.2⟩
  | .bool, _ | .number, _ | .string, _ | .dyn, _ | .capsule _, _ => by simp [stripOpt, namesAll]
theorem namesAllL_stripOptL (p : String → Bool) : ∀ ts : List Ty, namesAllL p ts = true →
    namesAllL p (stripOptL ts) = true
  | [], _ => by simp [stripOptL, namesAllL]
  | t :: ts, h => by
    simp only [namesAllL, Bool.and_eq_true] at h
    simp [stripOptL, namesAllL, namesAll_stripOpt p t h.1, namesAllL_stripOptL p ts h.2]
end

theorem ok_stripOpt {t : Ty} (hw : wf t = true) (hn : namesAll nfc t = true) : (stripOpt t).ok nfc = true := by
  simp [Ty.ok, wf_stripOpt t hw, stripOpt_noOpt, namesAll_stripOpt nfc t hn]

theorem namesAllL_mem {p : String → Bool} : ∀ {ts : List Ty}, namesAllL p ts = true → ∀ t ∈ ts, namesAll p t = true
  | [], _, _, h => by simp at h
  | u :: us, hw, t, h => by
    simp only [namesAllL, Bool.and_eq_true] at hw
    rcases List.mem_cons.mp h with rfl | h
    · exact hw.1
    · exact namesAllL_mem hw.2 t h

/-! ### value constructors of the conversion model -/

theorem wfAll_map_v {t : Ty} : ∀ {vs : List Value}, (∀ v ∈ vs, Payload.wfP nfc t v.v = true) →
    Payload.wfAll nfc t (vs.map (·.v)) = true
  | [], _ => rfl
  | w :: ws, h => by
    simp only [List.map_cons, Payload.wfAll, Bool.and_eq_true]
    exact ⟨h w (by simp), wfAll_map_v fun x hx => h x (by simp [hx])⟩

theorem wfZip_map_v : ∀ {vs : List Value}, (∀ v ∈ vs, PW nfc v) →
    Payload.wfZip nfc (vs.map (·.ty)) (vs.map (·.v)) = true
  | [], _ => by simp [Payload.wfZip]
  | w :: ws, h => by
    simp only [List.map_cons, Payload.wfZip, Bool.and_eq_true]
    exact ⟨h w (by simp), wfZip_map_v fun x hx => h x (by simp [hx])⟩

theorem wfAll_of_same {t : Ty} {vs : List Value} (hty : ∀ v ∈ vs, v.ty = t) (hpw : ∀ v ∈ vs, PW nfc v) :
    Payload.wfAll nfc t (vs.map (·.v)) = true :=
  wfAll_map_v fun v hv => by have := hpw v hv; rw [PW, hty v hv] at this; exact this

theorem listVal_pw {vs : List Value} {r : Value} {t : Ty} (hw : wf t = true) (hd : t.isDyn = false)
    (hty : ∀ v ∈ vs, v.ty = t) (hpw : ∀ v ∈ vs, PW nfc v) (hr : listVal vs = .ok r) : PW nfc r := by
  unfold listVal at hr
  by_cases he : vs.isEmpty
  · simp [he] at hr
  · have hne : vs ≠ [] := by simpa using he
    simp [he, elemTyOf_same hw hd hne hty] at hr
    subst hr
    simp only [PW, Payload.wfP]
    exact wfAll_of_same hty hpw

theorem mapVal_pw {ks : List String} {vs : List Value} {r : Value} {t : Ty} (hw : wf t = true)
    (hd : t.isDyn = false) (hty : ∀ v ∈ vs, v.ty = t) (hpw : ∀ v ∈ vs, PW nfc v)
    (hlen : ks.length = vs.length) (hasc : strictAsc ks = true) (hk : ks.all nfc = true)
    (hr : mapVal ks vs = .ok r) : PW nfc r := by
  unfold mapVal at hr
  by_cases he : vs.isEmpty
  · simp [he] at hr
  · have hne : vs ≠ [] := by simpa using he
    simp [he, elemTyOf_same hw hd hne hty] at hr
    subst hr
    simp only [PW, Payload.wfP, Bool.and_eq_true, beq_iff_eq, List.length_map]
    exact ⟨⟨⟨hlen, hasc⟩, hk⟩, wfAll_of_same hty hpw⟩

theorem tupleVal_pw {vs : List Value} (hpw : ∀ v ∈ vs, PW nfc v) : PW nfc (tupleVal vs) := by
  simp only [PW, tupleVal, Payload.wfP, Bool.and_eq_true, beq_iff_eq, List.length_map]
  exact ⟨trivial, wfZip_map_v hpw⟩

theorem objectVal_pw {names : List String} {vs : List Value} (hpw : ∀ v ∈ vs, PW nfc v) :
    PW nfc (objectVal names vs) := by
  simp only [PW, objectVal, Payload.wfP, Bool.and_eq_true, beq_iff_eq, List.length_map]
  exact ⟨⟨trivial, trivial⟩, wfZip_map_v hpw⟩

theorem withMarks_pw {v : Value} (ms : List String) (h : PW nfc v) : PW nfc (v.withMarks ms) :=
  Payload.wfP_withMarks ms h

theorem null_pw (t : Ty) : PW nfc (Value.null t) := by simp [PW, Value.null]

theorem stripNull_pw {v : Value} (h : PW nfc v) : PW nfc (stripNull v) := by
  unfold stripNull
  split
  · exact withMarks_pw _ (null_pw _)
  · exact h

theorem unknown_pw (t : Ty) : PW nfc (Value.unknown t) := by
  simp [PW, Value.unknown, Payload.kindOk_unref]

/-! ### `prepareUnknownResult` -/

theorem prepareUnknownResult_wf {src : Refine.ValueRange} {t : Ty} {r : Value} (ht : t.ok nfc = true)
    (h : prepareUnknownResult src t = .ok r) : r.WF nfc = true := by
  unfold prepareUnknownResult at h
  simp only at h
  obtain ⟨ret, hret, h⟩ := Res.bind_eq_ok h
  have hr0 : (Value.unknown t).WF nfc = true := Value.wf_unknown ht
  have key : ∀ (x : Value) (cs : List Refine.RefineCall) (y : Value), x.WF nfc = true →
      Refine.refine x cs = .ok y → y.WF nfc = true :=
    fun x cs y hx hy => (Res.all_iff.mp (Refine.wf_refine x cs hx)) y hy
  have hrt : ret.WF nfc = true := by
    split at hret
    · exact key _ _ _ hr0 hret
    · simp at hret; subst hret; exact hr0
  split at h
  · exact key _ _ _ hrt h
  · exact key _ _ _ hrt h
  · split at h <;> exact key _ _ _ hrt h
  · split at h
    · obtain ⟨lo, _, h⟩ := Res.bind_eq_ok h
      obtain ⟨hi, _, h⟩ := Res.bind_eq_ok h
      exact key _ _ _ hrt h
    · simp at h; subst h; exact hrt

/-! ### `cty.SetVal` as the conversion model builds it (`setAdd`, `newSetAcc`) -/

/-- what a member handed to the set oracle looks like: well-formed for the element type, no marker inside -/
def SetMem (nfc : String → Bool) (t : Ty) (p : Payload) : Prop :=
  Payload.wfP nfc t p = true ∧ p.containsMarked = false

/-- Laws of the set oracle of `E` needed for C06 clause "sets hold no duplicate members": on mark-free
well-formed members of the element type,
* when `Equivalent(a, b)` answers *false* for a new member `a` against a stored member `b`, then
  `b.Equals(a)` is not known-true (`equivP`, the relation `Value.WF` judges duplicates by);
* members that are `equivP` were hashed into the same bucket. -/
structure SetWFLaws (nfc : String → Bool) (E : Env) : Prop where
  equiv_false : ∀ (t : Ty) (a b : Payload), SetMem nfc t a → SetMem nfc t b →
    E.equiv t a b = .ok false → equivP t b a = false
  hash_coh : ∀ (t : Ty) (a b : Payload) (ha hb : Int), SetMem nfc t a → SetMem nfc t b →
    E.hash t a = .ok ha → E.hash t b = .ok hb → equivP t a b = true → ha = hb

/-- invariant of the flattened bucket map while `NewSetFromSlice` runs -/
structure SInv (nfc : String → Bool) (E : Env) (t : Ty) (acc : List (Int × Payload)) : Prop where
  asc : (acc.map (·.1)).Pairwise (· ≤ ·)
  mem : ∀ m ∈ acc, E.hash t m.2 = .ok m.1 ∧ SetMem nfc t m.2
  nodup : (acc.map (·.2)).Pairwise (fun a b => equivP t a b = false)

theorem setAdd_mem {E : Env} {t : Ty} {h : Int} {x : Payload} : ∀ (acc acc' : List (Int × Payload)),
    setAdd E t h x acc = .ok acc' → ∀ m ∈ acc', m ∈ acc ∨ m = (h, x)
  | [], acc', hadd, m, hm => by
    simp [setAdd] at hadd; subst hadd
    simp at hm; exact .inr hm
  | (j, y) :: rest, acc', hadd, m, hm => by
    have cons_case : ∀ r', setAdd E t h x rest = .ok r' → m ∈ (j, y) :: r' → m ∈ (j, y) :: rest ∨ m = (h, x) := by
      intro r' hr' hm'
      rcases List.mem_cons.mp hm' with rfl | hm'
      · exact .inl (by simp)
      · rcases setAdd_mem rest r' hr' m hm' with h1 | h1
        · exact .inl (by simp [h1])
        · exact .inr h1
    simp only [setAdd] at hadd
    split at hadd
    · unfold resMapCons at hadd
      obtain ⟨r', hr', rfl⟩ := Res.map_eq_ok hadd
      exact cons_case r' hr' hm
    · split at hadd
      · split at hadd
        · simp at hadd; subst hadd; exact .inl hm
        · unfold resMapCons at hadd
          obtain ⟨r', hr', rfl⟩ := Res.map_eq_ok hadd
          exact cons_case r' hr' hm
        · simp at hadd
        · simp at hadd
        · simp at hadd
      · simp at hadd; subst hadd
        rcases List.mem_cons.mp hm with rfl | hm
        · exact .inr rfl
        · exact .inl hm

theorem setAdd_inv {E : Env} (hL : SetWFLaws nfc E) {t : Ty} {h : Int} {x : Payload}
    (hh : E.hash t x = .ok h) (hx : SetMem nfc t x) : ∀ (acc acc' : List (Int × Payload)),
    SInv nfc E t acc → setAdd E t h x acc = .ok acc' → SInv nfc E t acc'
  | [], acc', _, hadd => by
    simp [setAdd] at hadd; subst hadd
    exact ⟨by simp, by simp [hh, hx], by simp⟩
  | (j, y) :: rest, acc', hI, hadd => by
    have hIrest : SInv nfc E t rest :=
      ⟨(List.pairwise_cons.mp hI.asc).2, fun m hm => hI.mem m (by simp [hm]), (List.pairwise_cons.mp hI.nodup).2⟩
    have hy := hI.mem (j, y) (by simp)
    have hjle : ∀ m ∈ rest, j ≤ m.1 := by
      intro m hm
      exact (List.pairwise_cons.mp hI.asc).1 m.1 (List.mem_map.mpr ⟨m, hm, rfl⟩)
    have hyne : ∀ m ∈ rest, equivP t y m.2 = false := by
      intro m hm
      exact (List.pairwise_cons.mp hI.nodup).1 m.2 (List.mem_map.mpr ⟨m, hm, rfl⟩)
    have cons_case : ∀ r', setAdd E t h x rest = .ok r' → j ≤ h → equivP t y x = false →
        SInv nfc E t ((j, y) :: r') := by
      intro r' hr' hjh hyx
      have ih := setAdd_inv hL hh hx rest r' hIrest hr'
      have hm := setAdd_mem rest r' hr'
      refine ⟨?_, ?_, ?_⟩
      · simp only [List.map_cons]
        refine List.pairwise_cons.mpr ⟨?_, ih.asc⟩
        intro k hk
        obtain ⟨m, hmr, rfl⟩ := List.mem_map.mp hk
        rcases hm m hmr with h1 | rfl
        · exact hjle m h1
        · exact hjh
      · intro m hm'
        rcases List.mem_cons.mp hm' with rfl | hm'
        · exact hy
        · exact ih.mem m hm'
      · simp only [List.map_cons]
        refine List.pairwise_cons.mpr ⟨?_, ih.nodup⟩
        intro z hz
        obtain ⟨m, hmr, rfl⟩ := List.mem_map.mp hz
        rcases hm m hmr with h1 | rfl
        · exact hyne m h1
        · exact hyx
    simp only [setAdd] at hadd
    split at hadd
    · rename_i hlt
      unfold resMapCons at hadd
      obtain ⟨r', hr', rfl⟩ := Res.map_eq_ok hadd
      refine cons_case r' hr' (Int.le_of_lt hlt) ?_
      cases he : equivP t y x with
      | false => rfl
      | true =>
        have := hL.hash_coh t y x j h hy.2 hx hy.1 hh he
        omega
    · split at hadd
      · rename_i hnlt heq
        split at hadd
        · simp at hadd; subst hadd; exact hI
        · rename_i hfalse
          unfold resMapCons at hadd
          obtain ⟨r', hr', rfl⟩ := Res.map_eq_ok hadd
          exact cons_case r' hr' (by omega) (hL.equiv_false t x y hx hy.2 hfalse)
        · simp at hadd
        · simp at hadd
        · simp at hadd
      · rename_i hnlt hne
        simp at hadd; subst hadd
        have hge : ∀ m ∈ (j, y) :: rest, h < m.1 := by
          intro m hm
          rcases List.mem_cons.mp hm with rfl | hm
          · simp only; omega
          · have := hjle m hm; omega
        refine ⟨?_, ?_, ?_⟩
        · rw [List.map_cons]
          refine List.pairwise_cons.mpr ⟨?_, hI.asc⟩
          intro k hk
          obtain ⟨m, hmr, rfl⟩ := List.mem_map.mp hk
          exact Int.le_of_lt (hge m hmr)
        · intro m hm'
          rcases List.mem_cons.mp hm' with rfl | hm'
          · exact ⟨hh, hx⟩
          · exact hI.mem m hm'
        · rw [List.map_cons]
          refine List.pairwise_cons.mpr ⟨?_, hI.nodup⟩
          intro z hz
          obtain ⟨m, hmr, rfl⟩ := List.mem_map.mp hz
          cases he : equivP t x m.2 with
          | false => rfl
          | true =>
            have hmm := hI.mem m hmr
            have := hL.hash_coh t x m.2 h m.1 hx hmm.2 hh hmm.1 he
            have := hge m hmr
            omega

theorem newSetAcc_inv {E : Env} (hL : SetWFLaws nfc E) {t : Ty} : ∀ (xs : List Payload) (acc bs : List (Int × Payload)),
    (∀ x ∈ xs, SetMem nfc t x) → SInv nfc E t acc → newSetAcc E t xs acc = .ok bs → SInv nfc E t bs
  | [], acc, bs, _, hI, h => by simp [newSetAcc] at h; subst h; exact hI
  | x :: xs, acc, bs, hxs, hI, h => by
    simp only [newSetAcc] at h
    split at h
    · rename_i hv hh
      split at h
      · rename_i acc' hadd
        exact newSetAcc_inv hL xs acc' bs (fun y hy => hxs y (by simp [hy]))
          (setAdd_inv hL hh (hxs x (by simp)) acc acc' hI hadd) h
      · simp at h
      · simp at h
      · simp at h
    · simp at h
    · simp at h
    · simp at h

theorem containsMarkedL_false : ∀ {ps : List Payload}, (∀ p ∈ ps, p.containsMarked = false) →
    Payload.containsMarkedL ps = false
  | [], _ => rfl
  | p :: ps, h => by
    simp [Payload.containsMarkedL, h p (by simp), containsMarkedL_false (ps := ps) fun q hq => h q (by simp [hq])]

theorem wfAll_of_mem {t : Ty} : ∀ {ps : List Payload}, (∀ p ∈ ps, Payload.wfP nfc t p = true) →
    Payload.wfAll nfc t ps = true
  | [], _ => rfl
  | p :: ps, h => by
    simp [Payload.wfAll, h p (by simp), wfAll_of_mem (ps := ps) fun q hq => h q (by simp [hq])]

/-- `SetVal` of the conversion model returns a payload that is a well-formed set -/
theorem setVal_pw {E : Env} (hL : SetWFLaws nfc E) {vs : List Value} {r : Value} {t : Ty} (hw : wf t = true)
    (hd : t.isDyn = false) (hty : ∀ v ∈ vs, v.ty = t) (hpw : ∀ v ∈ vs, PW nfc v)
    (hr : setVal E vs = .ok r) : PW nfc r := by
  unfold setVal at hr
  by_cases he : vs.isEmpty
  · simp [he] at hr
  · have hne : vs ≠ [] := by simpa using he
    simp only [he, elemTyOf_same hw hd hne hty] at hr
    obtain ⟨p, hp, rfl⟩ := Res.map_eq_ok hr
    apply withMarks_pw
    unfold newSet at hp
    obtain ⟨bs, hbs, rfl⟩ := Res.map_eq_ok hp
    have hraw : ∀ x ∈ vs.map (fun v => v.v.stripMarks), SetMem nfc t x := by
      intro x hx
      obtain ⟨v, hv, rfl⟩ := List.mem_map.mp hx
      refine ⟨Payload.wfP_stripMarks t v.v ?_, Payload.stripMarks_clean _⟩
      have := hpw v hv
      rw [PW, hty v hv] at this
      exact this
    have hI := newSetAcc_inv hL _ [] bs hraw ⟨by simp, by simp, by simp⟩ hbs
    simp only [PW, Payload.wfP, Bool.and_eq_true, beq_iff_eq, List.length_map, Bool.not_eq_true']
    refine ⟨⟨⟨⟨trivial, (idsAsc_iff _).mpr hI.asc⟩, ?_⟩, (noDup_iff t _).mpr hI.nodup⟩, ?_⟩
    · apply containsMarkedL_false
      intro q hq
      obtain ⟨m, hm, rfl⟩ := List.mem_map.mp hq
      exact (hI.mem m hm).2.2
    · apply wfAll_of_mem
      intro q hq
      obtain ⟨m, hm, rfl⟩ := List.mem_map.mp hq
      exact (hI.mem m hm).2.1

/-! ## The closures preserve payload well-formedness -/

/-- the texts the primitive conversions produce are accepted by `nfc` (they are ASCII) -/
structure TextLaws (nfc : String → Bool) : Prop where
  num : ∀ x : Num, nfc (Num.textF x) = true
  tt : nfc "true" = true
  ff : nfc "false" = true

/-- the recursive calls behave: a wrapped conversion yields a well-formed payload -/
def RecWF (nfc : String → Bool) (E : Env) (rec : Rec) : Prop :=
  ∀ (inT out : Ty) (uns : Bool) (c : Plan) (v r : Value), gck E inT out uns = some c →
    Conds inT out v → namesAll nfc inT = true → namesAll nfc out = true → PW nfc v →
    rec (.wrap out c) v = .ok r → PW nfc r

theorem planFor_pw {E : Env} {rec : Rec} (hwf : RecWF nfc E rec) {uns : Bool} {it ot : Ty} {p : Plan}
    {e e' : Value} (hp : PlanFor E uns it ot p) (hc : Conds it ot e) (hni : namesAll nfc it = true)
    (hno : namesAll nfc ot = true) (hpw : PW nfc e) (h : applyOpt rec p e = .ok e') : PW nfc e' := by
  rcases hp with ⟨rfl, he⟩ | ⟨c, rfl, hg⟩
  · simp [applyOpt] at h; subst h; exact hpw
  · simp [applyOpt] at h
    exact hwf it ot uns c e e' hg hc hni hno hpw h

theorem applyZip_all_pw {E : Env} {rec : Rec} (hwf : RecWF nfc E rec) {uns : Bool} {t : Ty}
    (post : Value → Value) (hpost : ∀ v : Value, PW nfc v → PW nfc (post v))
    (hwt : wf t = true) (hdt : hasDyn t = false) (hnt : namesAll nfc t = true) :
    ∀ (its : List Ty) (cs : List Plan) (ps : List Payload) (es' : List Value),
    All2 (fun it p => PlanFor E uns it t p) its cs → wtZip its ps = true → Payload.wfZip nfc its ps = true →
    (∀ it ∈ its, wf it = true ∧ hasOpt it = false ∧ namesAll nfc it = true) →
    applyZip rec post cs (zipTys its ps) = .ok es' → ∀ e' ∈ es', PW nfc e'
  | [], _, [], es', .nil, _, _, _, h => by simp [zipTys, applyZip] at h; subst h; simp
  | [], _, _ :: _, _, _, hw, _, _, _ => by simp [wtZip] at hw
  | _ :: _, _, [], _, _, hw, _, _, _ => by simp [wtZip] at hw
  | it :: its, _, p :: ps, es', .cons hp hps, hw, hf, hall, h => by
    simp only [wtZip, Bool.and_eq_true] at hw
    simp only [Payload.wfZip, Bool.and_eq_true] at hf
    simp only [zipTys, applyZip] at h
    obtain ⟨v', hv', h⟩ := Res.bind_eq_ok h
    obtain ⟨vs', hvs', h⟩ := Res.bind_eq_ok h
    simp at h; subst h
    obtain ⟨hwi, hoi, hni⟩ := hall it (by simp)
    have hc : Conds it t ⟨it, p⟩ := ⟨rfl, hwi, hwt, hoi, hdt, hw.1⟩
    have h1 := planFor_pw hwf hp hc hni hnt hf.1 hv'
    have ih := applyZip_all_pw hwf post hpost hwt hdt hnt its _ ps vs' hps hw.2 hf.2
      (fun x hx => hall x (by simp [hx])) hvs'
    intro e' he'
    rcases List.mem_cons.mp he' with rfl | he'
    · exact hpost _ h1
    · exact ih e' he'

theorem applyZip_zip_pw {E : Env} {rec : Rec} (hwf : RecWF nfc E rec) {uns : Bool} :
    ∀ (its ots : List Ty) (cs : List Plan) (ps : List Payload) (es' : List Value),
    All3 (fun it ot p => PlanFor E uns it ot p) its ots cs → wtZip its ps = true →
    Payload.wfZip nfc its ps = true →
    wfL its = true → hasOptL its = false → namesAllL nfc its = true →
    wfL ots = true → hasDynL ots = false → namesAllL nfc ots = true →
    applyZip rec id cs (zipTys its ps) = .ok es' → ∀ e' ∈ es', PW nfc e'
  | [], _, _, [], es', .nil, _, _, _, _, _, _, _, _, h => by
    simp [zipTys, applyZip] at h; subst h; simp
  | [], _, _, _ :: _, _, _, hw, _, _, _, _, _, _, _, _ => by simp [wtZip] at hw
  | _ :: _, _, _, [], _, _, hw, _, _, _, _, _, _, _, _ => by simp [wtZip] at hw
  | it :: its, ot :: ots, c :: cs, p :: ps, es', .cons hp hps, hw, hf, hwi, hoi, hni, hwo, hdo, hno, h => by
    simp only [wtZip, Bool.and_eq_true] at hw
    simp only [Payload.wfZip, Bool.and_eq_true] at hf
    simp only [wfL, Bool.and_eq_true] at hwi hwo
    simp only [hasOptL, Bool.or_eq_false_iff] at hoi
    simp only [hasDynL, Bool.or_eq_false_iff] at hdo
    simp only [namesAllL, Bool.and_eq_true] at hni hno
    simp only [zipTys, applyZip] at h
    obtain ⟨v', hv', h⟩ := Res.bind_eq_ok h
    obtain ⟨vs', hvs', h⟩ := Res.bind_eq_ok h
    simp at h; subst h
    have hc : Conds it ot ⟨it, p⟩ := ⟨rfl, hwi.1, hwo.1, hoi.1, hdo.1, hw.1⟩
    have h1 := planFor_pw hwf hp hc hni.1 hno.1 hf.1 hv'
    have ih := applyZip_zip_pw hwf its ots cs ps vs' hps hw.2 hf.2 hwi.2 hoi.2 hni.2 hwo.2 hdo.2 hno.2 hvs'
    intro e' he'
    rcases List.mem_cons.mp he' with rfl | he'
    · exact h1
    · exact ih e' he'

theorem lookupVal_mem {k : String} {v : Value} : ∀ {ns : List String} {vs : List Value},
    lookupVal k ns vs = some v → v ∈ vs
  | [], _, h => by simp [lookupVal] at h
  | _ :: _, [], h => by simp [lookupVal] at h
  | n :: ns, w :: ws, h => by
    simp only [lookupVal] at h
    split at h
    · simp at h; simp [h]
    · exact List.mem_cons_of_mem _ (lookupVal_mem h)

/-! ### conversionObjectToObject -/

theorem objAttrLoop_pw {E : Env} {rec : Rec} (hwf : RecWF nfc E rec) {uns : Bool} {on : List String}
    {ot : List Ty} {oo : List Bool} {keys : List String} {convs : List Plan}
    (hnot : ∀ t ∈ ot, namesAll nfc t = true) :
    ∀ (ns : List String) (its : List Ty) (cs : List Plan) (ps : List Payload) (r : List String × List Value),
    All3 (AttrOK E uns on ot oo keys convs) ns its cs → wtZip its ps = true →
    Payload.wfZip nfc its ps = true → (∀ it ∈ its, namesAll nfc it = true) →
    objAttrLoop rec keys convs ns (zipTys its ps) = .ok r → ∀ v ∈ r.2, PW nfc v
  | [], [], [], [], r, .nil, _, _, _, h => by
    simp [zipTys, objAttrLoop] at h; subst h; simp
  | _ :: _, _ :: _, _ :: _, [], _, _, hw, _, _, _ => by simp [wtZip] at hw
  | n :: ns, it :: its, c :: cs, p :: ps, r, .cons hok hoks, hw, hf, hnall, h => by
    simp only [wtZip, Bool.and_eq_true] at hw
    simp only [Payload.wfZip, Bool.and_eq_true] at hf
    obtain ⟨hlk, hap, hwi, hoi, hout⟩ := hok
    simp only [zipTys, objAttrLoop, hlk] at h
    rcases hap with ⟨rfl, hfn⟩ | ⟨oty, o, hfd, hpf⟩
    · simp only at h
      exact objAttrLoop_pw hwf hnot ns its cs ps r hoks hw.2 hf.2 (fun x hx => hnall x (by simp [hx])) h
    · have hc : Conds it oty ⟨it, p⟩ :=
        ⟨rfl, hwi, (hout oty o hfd).1, hoi, (hout oty o hfd).2, hw.1⟩
      have h' : ((applyOpt rec c ⟨it, p⟩).bind fun v' =>
          (objAttrLoop rec keys convs ns (zipTys its ps)).bind fun r' =>
            Res.ok (n :: r'.1, stripNull v' :: r'.2)) = .ok r := by
        rcases hpf with ⟨rfl, _⟩ | ⟨c', rfl, _⟩ <;> exact h
      obtain ⟨v', hv', h'⟩ := Res.bind_eq_ok h'
      obtain ⟨r', hr', h'⟩ := Res.bind_eq_ok h'
      simp at h'; subst h'
      have ih := objAttrLoop_pw hwf hnot ns its cs ps r' hoks hw.2 hf.2 (fun x hx => hnall x (by simp [hx])) hr'
      have h1 := planFor_pw hwf hpf hc (hnall it (by simp)) (hnot oty (find_mem_ty hfd)) hf.1 hv'
      intro v hv
      rcases List.mem_cons.mp hv with rfl | hv
      · exact stripNull_pw h1
      · exact ih v hv

theorem objFill_pw {names : List String} {vals : List Value} (hv : ∀ v ∈ vals, PW nfc v) :
    ∀ (ns : List String) (ts : List Ty) (os : List Bool), ∀ v ∈ (objFill names vals ns ts os).2, PW nfc v
  | [], _, _ => by simp [objFill]
  | _ :: _, [], _ => by simp [objFill]
  | _ :: _, _ :: _, [] => by simp [objFill]
  | n :: ns, t :: ts, o :: os => by
    have ih := objFill_pw (names := names) hv ns ts os
    simp only [objFill]
    cases hl : lookupVal n names vals with
    | some w =>
      simp only
      intro v hv'
      rcases List.mem_cons.mp hv' with rfl | hv'
      · exact hv _ (lookupVal_mem hl)
      · exact ih v hv'
    | none =>
      simp only
      split
      · intro v hv'
        rcases List.mem_cons.mp hv' with rfl | hv'
        · exact null_pw _
        · exact ih v hv'
      · exact ih

/-! ### conversionMapToObject -/

theorem mapObjLoop_pw {E : Env} {rec : Rec} (hwf : RecWF nfc E rec) {uns : Bool} {ie : Ty}
    {names : List String} {tys : List Ty} {opts : List Bool} {convs : List Plan}
    (hpl : All2 (fun ot p => MapObjPlan E uns ie ot p) tys convs)
    (hl1 : names.length = tys.length) (hl2 : opts.length = tys.length)
    (hwi : wf ie = true) (hoi : hasOpt ie = false) (hni : namesAll nfc ie = true)
    (hty : ∀ n t o, Ty.find n names tys opts = some (t, o) → wf t = true ∧ hasDyn t = false)
    (hnt : ∀ t ∈ tys, namesAll nfc t = true) :
    ∀ (ks : List String) (ps : List Payload) (r : List String × List Value), wtAll ie ps = true →
    Payload.wfAll nfc ie ps = true →
    mapObjLoop rec names tys opts convs ks (ps.map fun p => ⟨ie, p⟩) = .ok r → ∀ v ∈ r.2, PW nfc v
  | [], _, r, _, _, h => by
    simp [mapObjLoop] at h; subst h; simp
  | _ :: _, [], r, _, _, h => by
    simp [mapObjLoop] at h; subst h; simp
  | k :: ks, p :: ps, r, hw, hf, h => by
    simp only [wtAll, Bool.and_eq_true] at hw
    simp only [Payload.wfAll, Bool.and_eq_true] at hf
    simp only [List.map_cons, mapObjLoop] at h
    split at h
    · exact mapObjLoop_pw hwf hpl hl1 hl2 hwi hoi hni hty hnt ks ps r hw.2 hf.2 h
    · rename_i hc
      have hc' : names.contains k = true := by simpa using hc
      have hsome := find_of_contains names tys opts hl1 hl2 hc'
      obtain ⟨⟨t, o⟩, hfd⟩ := Option.isSome_iff_exists.mp hsome
      obtain ⟨pl, hlk, hmp⟩ := find_lookupPlan names tys opts convs hpl hfd
      obtain ⟨hwt, hdt⟩ := hty k t o hfd
      simp only [hlk] at h
      obtain ⟨v', hv', h⟩ := Res.bind_eq_ok h
      obtain ⟨r', hr', h⟩ := Res.bind_eq_ok h
      simp at h; subst h
      have ih := mapObjLoop_pw hwf hpl hl1 hl2 hwi hoi hni hty hnt ks ps r' hw.2 hf.2 hr'
      have hv'pw : PW nfc v' := by
        rcases hmp with rfl | ⟨rfl, he⟩ | ⟨c, rfl, hg⟩
        · simp at hv'
        · simp at hv'; subst hv'; exact hf.1
        · simp at hv'
          exact hwf ie t uns c ⟨ie, p⟩ v' hg ⟨rfl, hwi, hwt, hoi, hdt, hw.1⟩ hni
            (hnt t (find_mem_ty hfd)) hf.1 hv'
      intro v hv
      rcases List.mem_cons.mp hv with rfl | hv
      · exact stripNull_pw hv'pw
      · exact ih v hv

theorem mapObjFill_pw {keys : List String} {vals : List Value} (hv : ∀ v ∈ vals, PW nfc v) :
    ∀ (ns : List String) (ts : List Ty) (os : List Bool) (out : List Value),
    mapObjFill keys vals ns ts os = .ok out → ∀ v ∈ out, PW nfc v
  | [], _, _, out, h => by simp [mapObjFill] at h; subst h; simp
  | _ :: _, [], _, out, h => by simp [mapObjFill] at h; subst h; simp
  | _ :: _, _ :: _, [], out, h => by simp [mapObjFill] at h; subst h; simp
  | n :: ns, t :: ts, o :: os, out, h => by
    simp only [mapObjFill] at h
    split at h
    · rename_i w hl
      obtain ⟨rest, hrest, h⟩ := Res.map_eq_ok h
      subst h
      intro v hv'
      rcases List.mem_cons.mp hv' with rfl | hv'
      · exact hv _ (lookupVal_mem hl)
      · exact mapObjFill_pw (keys := keys) hv ns ts os rest hrest v hv'
    · split at h
      · obtain ⟨rest, hrest, h⟩ := Res.map_eq_ok h
        subst h
        intro v hv'
        rcases List.mem_cons.mp hv' with rfl | hv'
        · exact null_pw _
        · exact mapObjFill_pw (keys := keys) hv ns ts os rest hrest v hv'
      · simp at h

/-! ### the closure bodies, one kind at a time -/

/-- the members a collection value yields carry the element type and are well-formed for it -/
def ElemsWF (nfc : String → Bool) (E : Env) (v : Value) (ie : Ty) : Prop :=
  ∀ es, elemsOf E v = .ok es → ∀ e ∈ es, e.ty = ie ∧ wtP ie e.v = true ∧ PW nfc e

theorem elems_list {E : Env} {ie : Ty} {ps : List Payload} (hps : wtAll ie ps = true)
    (hfa : Payload.wfAll nfc ie ps = true) : ElemsWF nfc E ⟨.list ie, .seq ps⟩ ie := by
  intro es hes e he
  simp [elemsOf] at hes; subst hes
  obtain ⟨p, hpm, rfl⟩ := List.mem_map.mp he
  exact ⟨rfl, wtAll_mem hps p hpm, Payload.wfAll_mem hfa hpm⟩

theorem elems_set {E : Env} {ie : Ty} {ids : List Int} {ps : List Payload} (hps : wtAll ie ps = true)
    (hfa : Payload.wfAll nfc ie ps = true) : ElemsWF nfc E ⟨.set ie, .sset ids ps⟩ ie := by
  intro es hes e he
  simp [elemsOf] at hes; subst hes
  obtain ⟨p, hpm, rfl⟩ := List.mem_map.mp he
  exact ⟨rfl, wtAll_mem hps p (setValues_mem hpm), Payload.wfAll_mem hfa (setValues_mem hpm)⟩

theorem elems_map {E : Env} {ie : Ty} {ks : List String} {ps : List Payload} (hps : wtAll ie ps = true)
    (hfa : Payload.wfAll nfc ie ps = true) : ElemsWF nfc E ⟨.map ie, .smap ks ps⟩ ie := by
  intro es hes e he
  simp [elemsOf] at hes; subst hes
  obtain ⟨p, hpm, rfl⟩ := List.mem_map.mp he
  exact ⟨rfl, wtAll_mem hps p hpm, Payload.wfAll_mem hfa hpm⟩

theorem converted_members_pw {E : Env} {rec : Rec} (hwf : RecWF nfc E rec) {uns : Bool} {ie oe : Ty} {conv : Plan}
    {post : Value → Value} (hpost : ∀ v : Value, PW nfc v → PW nfc (post v))
    (hpf : PlanFor E uns ie oe conv) (hwi : wf ie = true) (hoi : hasOpt ie = false)
    (hwo : wf oe = true) (hdo : hasDyn oe = false) (hni : namesAll nfc ie = true) (hno : namesAll nfc oe = true)
    {es es' : List Value} (hes : ∀ e ∈ es, e.ty = ie ∧ wtP ie e.v = true ∧ PW nfc e)
    (h : mapRes (fun e => (applyOpt rec conv e).map post) es = .ok es') : ∀ e' ∈ es', PW nfc e' := by
  refine (mapRes_forall (P := fun e => e.ty = ie ∧ wtP ie e.v = true ∧ PW nfc e) (Q := fun e' => PW nfc e')
    ?_ es es' hes h).2
  intro a b ⟨hat, haw, hap⟩ hb
  obtain ⟨b', hb', rfl⟩ := Res.map_eq_ok hb
  exact hpost _ (planFor_pw hwf hpf ⟨hat, hwi, hwo, hoi, hdo, haw⟩ hni hno hap hb')

section Bodies
variable {E : Env} (hU : UnifyLaws E) (hL : SetWFLaws nfc E) {rec : Rec} (hrec : RecOK E rec) (hwf : RecWF nfc E rec)
include hU hL hrec hwf

theorem collToList_pw {uns : Bool} {ie oe conv} {v r : Value}
    (hpf : PlanFor E uns ie oe conv) (hwi : wf ie = true) (hoi : hasOpt ie = false)
    (hwo : wf oe = true) (hdo : hasDyn oe = false) (hni : namesAll nfc ie = true) (hno : namesAll nfc oe = true)
    (hel : ElemsWF nfc E v ie) (h : applyStep E rec (.collToList oe conv) v = .ok r) : PW nfc r := by
  have hnd : oe.isDyn = false := not_isDyn_of_noDyn hdo
  simp only [applyStep, hnd, hdo] at h
  split at h
  · simp at h; subst h; exact unknown_pw _
  · obtain ⟨es, hes, h⟩ := Res.bind_eq_ok h
    obtain ⟨es', hes', h⟩ := Res.bind_eq_ok h
    have hm := converted_members hU hrec (post := stripNull) (fun _ hv => stripNull_ty' hv)
      hpf hwi hoi hwo hdo (fun e he => ⟨(hel es hes e he).1, (hel es hes e he).2.1⟩) hes'
    have hpm := converted_members_pw hwf (post := stripNull) (fun _ hv => stripNull_pw hv)
      hpf hwi hoi hwo hdo hni hno (hel es hes) hes'
    split at h
    · simp at h; subst h; simp [PW, Payload.wfP, Payload.wfAll]
    · rename_i hne
      have hne' : es' ≠ [] := by simpa using hne
      have hT := wf_stripOpt oe hwo
      have hTd : (stripOpt oe).isDyn = false := not_isDyn_of_noDyn (by rw [stripOpt_hasDyn]; exact hdo)
      simp only [canCollVal_same hT hTd hne' hm.2] at h
      exact listVal_pw hT hTd hm.2 hpm h

theorem collToSet_pw {uns : Bool} {ie oe conv} {v r : Value}
    (hpf : PlanFor E uns ie oe conv) (hwi : wf ie = true) (hoi : hasOpt ie = false)
    (hwo : wf oe = true) (hdo : hasDyn oe = false) (hni : namesAll nfc ie = true) (hno : namesAll nfc oe = true)
    (hel : ElemsWF nfc E v ie) (h : applyStep E rec (.collToSet oe conv) v = .ok r) : PW nfc r := by
  have hnd : oe.isDyn = false := not_isDyn_of_noDyn hdo
  simp only [applyStep, hnd, hdo] at h
  obtain ⟨es, hes, h⟩ := Res.bind_eq_ok h
  obtain ⟨es', hes', h⟩ := Res.bind_eq_ok h
  have hm := converted_members hU hrec (post := stripNull) (fun _ hv => stripNull_ty' hv)
    hpf hwi hoi hwo hdo (fun e he => ⟨(hel es hes e he).1, (hel es hes e he).2.1⟩) hes'
  have hpm := converted_members_pw hwf (post := stripNull) (fun _ hv => stripNull_pw hv)
    hpf hwi hoi hwo hdo hni hno (hel es hes) hes'
  split at h
  · simp at h; subst h
    simp [PW, Payload.wfP, Payload.wfAll, idsAsc, noDup, Payload.containsMarkedL]
  · rename_i hne
    have hne' : es' ≠ [] := by simpa using hne
    have hT := wf_stripOpt oe hwo
    have hTd : (stripOpt oe).isDyn = false := not_isDyn_of_noDyn (by rw [stripOpt_hasDyn]; exact hdo)
    simp only [canCollVal_same hT hTd hne' hm.2] at h
    exact setVal_pw hL hT hTd hm.2 hpm h

theorem collToMap_pw {uns : Bool} {ie oe conv} {v r : Value}
    (hpf : PlanFor E uns ie oe conv) (hwi : wf ie = true) (hoi : hasOpt ie = false)
    (hwo : wf oe = true) (hdo : hasDyn oe = false) (hni : namesAll nfc ie = true) (hno : namesAll nfc oe = true)
    (hel : ElemsWF nfc E v ie)
    (hkeys : ∀ es, elemsOf E v = .ok es → (keysOf v).length = es.length ∧ strictAsc (keysOf v) = true ∧
      (keysOf v).all nfc = true)
    (h : applyStep E rec (.collToMap oe conv) v = .ok r) : PW nfc r := by
  have hnd : oe.isDyn = false := not_isDyn_of_noDyn hdo
  simp only [applyStep, hnd, hdo] at h
  obtain ⟨es, hes, h⟩ := Res.bind_eq_ok h
  obtain ⟨es', hes', h⟩ := Res.bind_eq_ok h
  have hes'' : mapRes (fun e => (applyOpt rec conv e).map id) es = .ok es' := by
    have : (fun e => (applyOpt rec conv e).map id) = fun e => applyOpt rec conv e := by
      funext e; cases applyOpt rec conv e <;> rfl
    rw [this]; exact hes'
  have hm := converted_members hU hrec (post := id) (fun _ hv => hv)
    hpf hwi hoi hwo hdo (fun e he => ⟨(hel es hes e he).1, (hel es hes e he).2.1⟩) hes''
  have hpm := converted_members_pw hwf (post := id) (fun _ hv => hv)
    hpf hwi hoi hwo hdo hni hno (hel es hes) hes''
  split at h
  · simp at h; subst h
    simp [PW, Payload.wfP, Payload.wfAll, strictAsc]
  · rename_i hne
    have hne' : es' ≠ [] := by simpa using hne
    have hT := wf_stripOpt oe hwo
    have hTo := stripOpt_noOpt oe
    have hTd : (stripOpt oe).isDyn = false := not_isDyn_of_noDyn (by rw [stripOpt_hasDyn]; exact hdo)
    have hun : (if isCollOrObj oe = true then unifyElems E rec false es' else Res.ok es') = .ok es' := by
      split
      · exact unifyElems_same hU hT hTo hne' hm.2
      · rfl
    rw [hun] at h
    simp only [Res.bind, canCollVal_same hT hTd hne' hm.2] at h
    obtain ⟨hk1, hk2, hk3⟩ := hkeys es hes
    exact mapVal_pw hT hTd hm.2 hpm (hk1.trans hm.1.symm) hk2 hk3 h

theorem tupToList_pw {uns : Bool} {its : List Ty} {oe : Ty} {cs : List Plan} {ps : List Payload} {r : Value}
    (hpl : All2 (fun it p => PlanFor E uns it oe p) its cs) (hne : its ≠ []) (hw : wtZip its ps = true)
    (hf : Payload.wfZip nfc its ps = true)
    (hall : ∀ it ∈ its, wf it = true ∧ hasOpt it = false ∧ namesAll nfc it = true)
    (hwo : wf oe = true) (hdo : hasDyn oe = false) (hno : namesAll nfc oe = true)
    (h : applyStep E rec (.tupToList cs uns) ⟨.tuple its, .seq ps⟩ = .ok r) : PW nfc r := by
  simp only [applyStep, elemsOf] at h
  obtain ⟨es, hes, h⟩ := Res.bind_eq_ok h
  simp at hes; subst hes
  obtain ⟨es', hes', h⟩ := Res.bind_eq_ok h
  have hm := applyZip_all hrec id (fun _ hv => hv) hwo hdo its cs ps es' hpl hw
    (fun it hit => ⟨(hall it hit).1, (hall it hit).2.1⟩) hes'
  have hpm := applyZip_all_pw hwf id (fun _ hv => hv) hwo hdo hno its cs ps es' hpl hw hf hall hes'
  have hne' : es' ≠ [] := by
    intro he; rw [he] at hm
    have h0 := hm.1
    simp at h0
    exact hne (List.length_eq_zero_iff.mp h0.symm)
  have hT := wf_stripOpt oe hwo
  have hTd : (stripOpt oe).isDyn = false := not_isDyn_of_noDyn (by rw [stripOpt_hasDyn]; exact hdo)
  rw [unifyElems_same hU hT (stripOpt_noOpt oe) hne' hm.2] at h
  simp only [Res.bind, canCollVal_same hT hTd hne' hm.2] at h
  exact listVal_pw hT hTd hm.2 hpm h

theorem tupToSet_pw {uns : Bool} {its : List Ty} {oe : Ty} {cs : List Plan} {ps : List Payload} {r : Value}
    (hpl : All2 (fun it p => PlanFor E uns it oe p) its cs) (hne : its ≠ []) (hw : wtZip its ps = true)
    (hf : Payload.wfZip nfc its ps = true)
    (hall : ∀ it ∈ its, wf it = true ∧ hasOpt it = false ∧ namesAll nfc it = true)
    (hwo : wf oe = true) (hdo : hasDyn oe = false) (hno : namesAll nfc oe = true)
    (h : applyStep E rec (.tupToSet cs) ⟨.tuple its, .seq ps⟩ = .ok r) : PW nfc r := by
  simp only [applyStep, elemsOf] at h
  obtain ⟨es, hes, h⟩ := Res.bind_eq_ok h
  simp at hes; subst hes
  obtain ⟨es', hes', h⟩ := Res.bind_eq_ok h
  have hm := applyZip_all hrec stripNull (fun _ hv => stripNull_ty' hv) hwo hdo its cs ps es' hpl hw
    (fun it hit => ⟨(hall it hit).1, (hall it hit).2.1⟩) hes'
  have hpm := applyZip_all_pw hwf stripNull (fun _ hv => stripNull_pw hv) hwo hdo hno its cs ps es' hpl hw hf
    hall hes'
  have hne' : es' ≠ [] := by
    intro he; rw [he] at hm
    have h0 := hm.1
    simp at h0
    exact hne (List.length_eq_zero_iff.mp h0.symm)
  have hT := wf_stripOpt oe hwo
  have hTd : (stripOpt oe).isDyn = false := not_isDyn_of_noDyn (by rw [stripOpt_hasDyn]; exact hdo)
  simp only [canCollVal_same hT hTd hne' hm.2] at h
  exact setVal_pw hL hT hTd hm.2 hpm h

theorem objToMap_pw {uns : Bool} {inn : List String} {its : List Ty} {ios : List Bool} {oe : Ty}
    {cs : List Plan} {ps : List Payload} {r : Value}
    (hpl : All2 (fun it p => PlanFor E uns it oe p) its cs) (hne : its ≠ []) (hw : wtZip its ps = true)
    (hf : Payload.wfZip nfc its ps = true)
    (hasc : strictAsc inn = true) (hnn : inn.all nfc = true) (hln : inn.length = its.length)
    (hall : ∀ it ∈ its, wf it = true ∧ hasOpt it = false ∧ namesAll nfc it = true)
    (hwo : wf oe = true) (hdo : hasDyn oe = false) (hno : namesAll nfc oe = true)
    (h : applyStep E rec (.objToMap inn cs oe uns) ⟨.object inn its ios, .smap inn ps⟩ = .ok r) :
    PW nfc r := by
  simp only [applyStep, elemsOf, keysOf] at h
  obtain ⟨es, hes, h⟩ := Res.bind_eq_ok h
  simp at hes; subst hes
  have hlc : inn.length = cs.length := by rw [hln]; exact hpl.length
  have hself := lookup_map_self [] [] inn cs rfl hlc (by simp) (strictAsc_nodup hasc)
  simp only [List.nil_append] at hself
  rw [hself] at h
  obtain ⟨es', hes', h⟩ := Res.bind_eq_ok h
  have hm := applyZip_all hrec id (fun _ hv => hv) hwo hdo its cs ps es' hpl hw
    (fun it hit => ⟨(hall it hit).1, (hall it hit).2.1⟩) hes'
  have hpm := applyZip_all_pw hwf id (fun _ hv => hv) hwo hdo hno its cs ps es' hpl hw hf hall hes'
  have hne' : es' ≠ [] := by
    intro he; rw [he] at hm
    have h0 := hm.1
    simp at h0
    exact hne (List.length_eq_zero_iff.mp h0.symm)
  have hT := wf_stripOpt oe hwo
  have hTd : (stripOpt oe).isDyn = false := not_isDyn_of_noDyn (by rw [stripOpt_hasDyn]; exact hdo)
  have hun : (if isCollOrObj oe = true then unifyElems E rec uns es' else Res.ok es') = .ok es' := by
    split
    · exact unifyElems_same hU hT (stripOpt_noOpt oe) hne' hm.2
    · rfl
  rw [hun] at h
  simp only [Res.bind, canCollVal_same hT hTd hne' hm.2] at h
  exact mapVal_pw hT hTd hm.2 hpm (hln.trans hm.1.symm) hasc hnn h

theorem tupToTup_pw {uns : Bool} {its ots : List Ty} {cs : List Plan} {ps : List Payload} {r : Value}
    (hpl : All3 (fun it ot p => PlanFor E uns it ot p) its ots cs) (hw : wtZip its ps = true)
    (hf : Payload.wfZip nfc its ps = true)
    (hwi : wfL its = true) (hoi : hasOptL its = false) (hni : namesAllL nfc its = true)
    (hwo : wfL ots = true) (hdo : hasDynL ots = false) (hno : namesAllL nfc ots = true)
    (h : applyStep E rec (.tupToTup cs) ⟨.tuple its, .seq ps⟩ = .ok r) : PW nfc r := by
  simp only [applyStep, elemsOf] at h
  obtain ⟨es, hes, h⟩ := Res.bind_eq_ok h
  simp at hes; subst hes
  obtain ⟨es', hes', h⟩ := Res.bind_eq_ok h
  simp at h; subst h
  exact tupleVal_pw (applyZip_zip_pw hwf its ots cs ps es' hpl hw hf hwi hoi hni hwo hdo hno hes')

theorem objToObj_pw {uns : Bool} {inn : List String} {its : List Ty} {ios : List Bool} {on : List String}
    {ot : List Ty} {oo : List Bool} {cs : List Plan} {ps : List Payload} {r : Value}
    (hpl : All3 (AttrPlan E uns on ot oo) inn its cs) (hw : wtZip its ps = true)
    (hf : Payload.wfZip nfc its ps = true)
    (hwfI : wf (.object inn its ios) = true) (hoI : hasOpt (.object inn its ios) = false)
    (hnI : namesAllL nfc its = true)
    (hwfO : wf (.object on ot oo) = true) (hdO : hasDyn (.object on ot oo) = false)
    (hnO : namesAllL nfc ot = true)
    (h : applyStep E rec (.objToObj inn cs on ot oo) ⟨.object inn its ios, .smap inn ps⟩ = .ok r) :
    PW nfc r := by
  simp only [wf, Bool.and_eq_true, beq_iff_eq] at hwfI hwfO
  simp only [hasOpt, Bool.or_eq_false_iff] at hoI
  simp only [hasDyn] at hdO
  simp only [applyStep, elemsOf, keysOf] at h
  obtain ⟨es, hes, h⟩ := Res.bind_eq_ok h
  simp at hes; subst hes
  obtain ⟨rr, hrr, h⟩ := Res.bind_eq_ok h
  simp at h; subst h
  have hndI := strictAsc_nodup hwfI.1.2
  have hok := attrOK_build (E := E) (uns := uns) (on := on) (ot := ot) (oo := oo) [] [] [] [] inn its ios cs
    rfl rfl rfl hwfI.1.1.2 (by simp) hndI hpl (by
      intro n it b hfd
      simp only [List.nil_append] at hfd
      refine ⟨wfL_mem hwfI.2 it (find_mem_ty hfd), hasOptL_mem hoI.2 it (find_mem_ty hfd), ?_⟩
      intro oty o hfo
      exact ⟨wfL_mem hwfO.2 oty (find_mem_ty hfo), hasDynL_mem hdO oty (find_mem_ty hfo)⟩)
  simp only [List.nil_append] at hok
  have hloop := objAttrLoop_pw hwf (namesAllL_mem hnO) inn its cs ps rr hok hw hf (namesAllL_mem hnI) hrr
  exact objectVal_pw (objFill_pw hloop on ot oo)

theorem mapToObj_pw {uns : Bool} {ie : Ty} {on : List String} {ot : List Ty} {oo : List Bool}
    {cs : List Plan} {ks : List String} {ps : List Payload} {r : Value}
    (hpl : All2 (fun t p => MapObjPlan E uns ie t p) ot cs) (hw : wtAll ie ps = true)
    (hf : Payload.wfAll nfc ie ps = true)
    (hwi : wf ie = true) (hoi : hasOpt ie = false) (hni : namesAll nfc ie = true)
    (hwfO : wf (.object on ot oo) = true) (hdO : hasDyn (.object on ot oo) = false)
    (hnO : namesAllL nfc ot = true)
    (h : applyStep E rec (.mapToObj on ot oo cs) ⟨.map ie, .smap ks ps⟩ = .ok r) : PW nfc r := by
  simp only [wf, Bool.and_eq_true, beq_iff_eq] at hwfO
  simp only [hasDyn] at hdO
  simp only [applyStep, elemsOf, keysOf] at h
  obtain ⟨es, hes, h⟩ := Res.bind_eq_ok h
  simp at hes; subst hes
  obtain ⟨rr, hrr, h⟩ := Res.bind_eq_ok h
  obtain ⟨vals, hvals, h⟩ := Res.bind_eq_ok h
  simp at h; subst h
  have hloop := mapObjLoop_pw hwf hpl hwfO.1.1.1 hwfO.1.1.2 hwi hoi hni (by
      intro n t o hfd
      exact ⟨wfL_mem hwfO.2 t (find_mem_ty hfd), hasDynL_mem hdO t (find_mem_ty hfd)⟩)
    (namesAllL_mem hnO) ks ps rr hw hf hrr
  exact objectVal_pw (mapObjFill_pw hloop on ot oo vals hvals)

end Bodies

/-! ### primitive conversions -/

theorem numToStr_pw (hT : TextLaws nfc) {E : Env} {rec : Rec} {v r : Value}
    (h : applyStep E rec .numToStr v = .ok r) : PW nfc r := by
  simp only [applyStep] at h
  split at h <;> simp at h
  subst h; simp [PW, Payload.wfP, hT.num]

theorem boolToStr_pw (hT : TextLaws nfc) {E : Env} {rec : Rec} {v r : Value}
    (h : applyStep E rec .boolToStr v = .ok r) : PW nfc r := by
  simp only [applyStep] at h
  split at h <;> simp at h
  subst h
  rename_i x _
  cases x <;> simp [PW, Payload.wfP, hT.tt, hT.ff]

theorem strToNum_pw {E : Env} {rec : Rec} {v r : Value} (h : applyStep E rec .strToNum v = .ok r) :
    PW nfc r := by
  simp only [applyStep] at h
  split at h
  · obtain ⟨x, _, hx⟩ := Res.map_eq_ok h
    subst hx; simp [PW, Payload.wfP]
  · simp at h

theorem strToBool_pw {E : Env} {rec : Rec} {v r : Value} (h : applyStep E rec .strToBool v = .ok r) :
    PW nfc r := by
  simp only [applyStep] at h
  split at h
  · split at h
    · simp at h; subst h; simp [PW, Payload.wfP]
    · split at h
      · simp at h; subst h; simp [PW, Payload.wfP]
      · simp at h
  · simp at h

/-! ### every closure body -/

theorem inner_pw {E : Env} (hU : UnifyLaws E) (hL : SetWFLaws nfc E) (hT : TextLaws nfc) {rec : Rec}
    (hrec : RecOK E rec) (hwf : RecWF nfc E rec)
    (inT out : Ty) (uns : Bool) (c : Plan) (v r : Value) (hg : gck E inT out uns = some c)
    (hc : Conds inT out v) (hnI : namesAll nfc inT = true) (hnO : namesAll nfc out = true)
    (hpw : PW nfc v) (hp : plain v.v) (h : applyStep E rec c v = .ok r) : PW nfc r := by
  obtain ⟨hty, hwI, hwO, hoI, hdO, hwt⟩ := hc
  obtain ⟨vt, vp⟩ := v
  simp only [PW] at hpw
  simp only at hty hwt hp hpw
  subst hty
  have hid : vt.isDyn = false := by
    cases vt <;> simp [Ty.isDyn]
    exact (shape_prim_dyn hp hwt).elim
  cases out with
  | dyn => simp [hasDyn] at hdO
  | bool =>
    cases vt <;> simp [gck, Ty.isDyn, isPrim, primSafe, primUnsafe] at hg hid
    all_goals (obtain ⟨_, rfl⟩ := hg; exact strToBool_pw h)
  | number =>
    cases vt <;> simp [gck, Ty.isDyn, isPrim, primSafe, primUnsafe] at hg hid
    all_goals (obtain ⟨_, rfl⟩ := hg; exact strToNum_pw h)
  | string =>
    cases vt <;> simp [gck, Ty.isDyn, isPrim, primSafe, primUnsafe] at hg hid
    · subst hg; exact boolToStr_pw hT h
    · subst hg; exact numToStr_pw hT h
  | capsule i =>
    cases vt <;> simp [gck, Ty.isDyn, isPrim, primSafe, primUnsafe] at hg hid
  | list oe =>
    have hwo : wf oe = true := by simpa [wf] using hwO
    have hdo : hasDyn oe = false := by simpa [hasDyn] using hdO
    have hno : namesAll nfc oe = true := by simpa [namesAll] using hnO
    cases vt <;> simp [gck, Ty.isDyn, isPrim] at hg hid
    case list ie =>
      have hwi : wf ie = true := by simpa [wf] using hwI
      have hoi : hasOpt ie = false := by simpa [hasOpt] using hoI
      have hni : namesAll nfc ie = true := by simpa [namesAll] using hnI
      obtain ⟨ps, rfl, hps⟩ := shape_list hp hwt
      have hfa : Payload.wfAll nfc ie ps = true := by simpa [Payload.wfP] using hpw
      have hpf : ∃ conv, c = .collToList oe conv ∧ PlanFor E uns ie oe conv := by
        split at hg
        · rename_i he; simp at hg; exact ⟨.nil, hg.symm, .inl ⟨rfl, he⟩⟩
        · obtain ⟨c', hc', rfl⟩ := Option.map_eq_some_iff.mp hg
          exact ⟨_, rfl, .inr ⟨c', rfl, hc'⟩⟩
      obtain ⟨conv, rfl, hpf⟩ := hpf
      exact collToList_pw hU hL hrec hwf hpf hwi hoi hwo hdo hni hno (elems_list hps hfa) h
    case set ie =>
      have hwi : wf ie = true := by simpa [wf] using hwI
      have hoi : hasOpt ie = false := by simpa [hasOpt] using hoI
      have hni : namesAll nfc ie = true := by simpa [namesAll] using hnI
      obtain ⟨ids, ps, rfl, hps⟩ := shape_set hp hwt
      have hfa : Payload.wfAll nfc ie ps = true := by
        simp only [Payload.wfP, Bool.and_eq_true] at hpw; exact hpw.2
      have hpf : ∃ conv, c = .collToList oe conv ∧ PlanFor E uns ie oe conv := by
        split at hg
        · rename_i he; simp at hg; exact ⟨.nil, hg.symm, .inl ⟨rfl, he⟩⟩
        · obtain ⟨c', hc', rfl⟩ := Option.map_eq_some_iff.mp hg
          exact ⟨_, rfl, .inr ⟨c', rfl, hc'⟩⟩
      obtain ⟨conv, rfl, hpf⟩ := hpf
      exact collToList_pw hU hL hrec hwf hpf hwi hoi hwo hdo hni hno (elems_set hps hfa) h
    case tuple its =>
      have hwi : wfL its = true := by simpa [wf] using hwI
      have hoi : hasOptL its = false := by simpa [hasOpt] using hoI
      have hni : namesAllL nfc its = true := by simpa [namesAll] using hnI
      obtain ⟨ps, rfl, hps⟩ := shape_tuple hp hwt
      have hfz : Payload.wfZip nfc its ps = true := by
        simp only [Payload.wfP, Bool.and_eq_true] at hpw; exact hpw.2
      split at hg
      · simp at hg; subst hg
        simp only [applyStep] at h
        simp at h; subst h; simp [PW, Payload.wfP, Payload.wfAll]
      · rename_i hne
        have hnd : oe.isDyn = false := not_isDyn_of_noDyn hdo
        simp only [seqTargetEty, hnd] at hg
        obtain ⟨cs, hcs, rfl⟩ := Option.map_eq_some_iff.mp hg
        have hpl := gcAll_inv E uns oe hcs
        exact tupToList_pw hU hL hrec hwf hpl hne hps hfz
          (fun it hit => ⟨wfL_mem hwi it hit, hasOptL_mem hoi it hit, namesAllL_mem hni it hit⟩) hwo hdo hno h
  | set oe =>
    have hwo : wf oe = true := by simpa [wf] using hwO
    have hdo : hasDyn oe = false := by simpa [hasDyn] using hdO
    have hno : namesAll nfc oe = true := by simpa [namesAll] using hnO
    cases vt <;> simp [gck, Ty.isDyn, isPrim] at hg hid
    case list ie =>
      have hwi : wf ie = true := by simpa [wf] using hwI
      have hoi : hasOpt ie = false := by simpa [hasOpt] using hoI
      have hni : namesAll nfc ie = true := by simpa [namesAll] using hnI
      obtain ⟨ps, rfl, hps⟩ := shape_list hp hwt
      have hfa : Payload.wfAll nfc ie ps = true := by simpa [Payload.wfP] using hpw
      have hpf : ∃ conv, c = .collToSet oe conv ∧ PlanFor E uns ie oe conv := by
        obtain ⟨_, hg⟩ := hg
        split at hg
        · rename_i he; simp at hg; exact ⟨.nil, hg.symm, .inl ⟨rfl, he⟩⟩
        · obtain ⟨c', hc', rfl⟩ := Option.map_eq_some_iff.mp hg
          exact ⟨_, rfl, .inr ⟨c', rfl, hc'⟩⟩
      obtain ⟨conv, rfl, hpf⟩ := hpf
      exact collToSet_pw hU hL hrec hwf hpf hwi hoi hwo hdo hni hno (elems_list hps hfa) h
    case set ie =>
      have hwi : wf ie = true := by simpa [wf] using hwI
      have hoi : hasOpt ie = false := by simpa [hasOpt] using hoI
      have hni : namesAll nfc ie = true := by simpa [namesAll] using hnI
      obtain ⟨ids, ps, rfl, hps⟩ := shape_set hp hwt
      have hfa : Payload.wfAll nfc ie ps = true := by
        simp only [Payload.wfP, Bool.and_eq_true] at hpw; exact hpw.2
      have hpf : ∃ conv, c = .collToSet oe conv ∧ PlanFor E uns ie oe conv := by
        split at hg
        · rename_i he; simp at hg; exact ⟨.nil, hg.symm, .inl ⟨rfl, he⟩⟩
        · obtain ⟨c', hc', rfl⟩ := Option.map_eq_some_iff.mp hg
          exact ⟨_, rfl, .inr ⟨c', rfl, hc'⟩⟩
      obtain ⟨conv, rfl, hpf⟩ := hpf
      exact collToSet_pw hU hL hrec hwf hpf hwi hoi hwo hdo hni hno (elems_set hps hfa) h
    case tuple its =>
      have hwi : wfL its = true := by simpa [wf] using hwI
      have hoi : hasOptL its = false := by simpa [hasOpt] using hoI
      have hni : namesAllL nfc its = true := by simpa [namesAll] using hnI
      obtain ⟨ps, rfl, hps⟩ := shape_tuple hp hwt
      have hfz : Payload.wfZip nfc its ps = true := by
        simp only [Payload.wfP, Bool.and_eq_true] at hpw; exact hpw.2
      split at hg
      · simp at hg; subst hg
        simp only [applyStep] at h
        simp at h; subst h
        simp [PW, Payload.wfP, Payload.wfAll, idsAsc, noDup, Payload.containsMarkedL]
      · rename_i hne
        have hnd : oe.isDyn = false := not_isDyn_of_noDyn hdo
        simp only [seqTargetEty, hnd] at hg
        obtain ⟨cs, hcs, rfl⟩ := Option.map_eq_some_iff.mp hg
        have hpl := gcAll_inv E uns oe hcs
        exact tupToSet_pw hU hL hrec hwf hpl hne hps hfz
          (fun it hit => ⟨wfL_mem hwi it hit, hasOptL_mem hoi it hit, namesAllL_mem hni it hit⟩) hwo hdo hno h
  | map oe =>
    have hwo : wf oe = true := by simpa [wf] using hwO
    have hdo : hasDyn oe = false := by simpa [hasDyn] using hdO
    have hno : namesAll nfc oe = true := by simpa [namesAll] using hnO
    cases vt <;> simp [gck, Ty.isDyn, isPrim] at hg hid
    case map ie =>
      have hwi : wf ie = true := by simpa [wf] using hwI
      have hoi : hasOpt ie = false := by simpa [hasOpt] using hoI
      have hni : namesAll nfc ie = true := by simpa [namesAll] using hnI
      obtain ⟨ks, ps, rfl, hkl, hps⟩ := shape_map hp hwt
      simp only [Payload.wfP, Bool.and_eq_true, beq_iff_eq] at hpw
      obtain ⟨c', hc', rfl⟩ := hg
      refine collToMap_pw hU hL hrec hwf (.inr ⟨c', rfl, hc'⟩) hwi hoi hwo hdo hni hno
        (elems_map hps hpw.2) ?_ h
      intro es hes
      simp [elemsOf] at hes; subst hes
      simp only [keysOf, List.length_map]
      exact ⟨hkl, hpw.1.1.2, hpw.1.2⟩
    case object inn its ios =>
      have hwi : wfL its = true := by
        simp only [wf, Bool.and_eq_true] at hwI; exact hwI.2
      have hoi : hasOptL its = false := by
        simp only [hasOpt, Bool.or_eq_false_iff] at hoI; exact hoI.2
      have hni : inn.all nfc = true ∧ namesAllL nfc its = true := by
        simpa only [namesAll, Bool.and_eq_true] using hnI
      obtain ⟨ps, rfl, hps⟩ := shape_object hp hwt
      have hfz : Payload.wfZip nfc its ps = true := by
        simp only [Payload.wfP, Bool.and_eq_true] at hpw; exact hpw.2
      split at hg
      · simp at hg; subst hg
        simp only [applyStep] at h
        simp at h; subst h; simp [PW, Payload.wfP, Payload.wfAll, strictAsc]
      · rename_i hne
        have hnd : oe.isDyn = false := not_isDyn_of_noDyn hdo
        simp only [mapTargetEty, hnd] at hg
        obtain ⟨cs, hcs, rfl⟩ := Option.map_eq_some_iff.mp hg
        have hpl := gcAll_inv E uns oe hcs
        simp only [wf, Bool.and_eq_true, beq_iff_eq] at hwI
        exact objToMap_pw hU hL hrec hwf hpl hne hps hfz hwI.1.2 hni.1 hwI.1.1.1
          (fun it hit => ⟨wfL_mem hwi it hit, hasOptL_mem hoi it hit, namesAllL_mem hni.2 it hit⟩) hwo hdo hno h
  | tuple ots =>
    cases vt <;> simp [gck, Ty.isDyn, isPrim] at hg hid
    case tuple its =>
      obtain ⟨hlen, cs, hcs, rfl⟩ := hg
      obtain ⟨ps, rfl, hps⟩ := shape_tuple hp hwt
      have hfz : Payload.wfZip nfc its ps = true := by
        simp only [Payload.wfP, Bool.and_eq_true] at hpw; exact hpw.2
      have hpl := gcZip_inv E uns hlen hcs
      exact tupToTup_pw hU hL hrec hwf hpl hps hfz (by simpa [wf] using hwI) (by simpa [hasOpt] using hoI)
        (by simpa [namesAll] using hnI) (by simpa [wf] using hwO) (by simpa [hasDyn] using hdO)
        (by simpa [namesAll] using hnO) h
  | object on ot oo =>
    have hno : on.all nfc = true ∧ namesAllL nfc ot = true := by
      simpa only [namesAll, Bool.and_eq_true] using hnO
    cases vt <;> simp [gck, Ty.isDyn, isPrim] at hg hid
    case map ie =>
      obtain ⟨_, cs, hcs, rfl⟩ := hg
      obtain ⟨ks, ps, rfl, _, hps⟩ := shape_map hp hwt
      simp only [Payload.wfP, Bool.and_eq_true, beq_iff_eq] at hpw
      have hwO' := hwO
      simp only [wf, Bool.and_eq_true, beq_iff_eq] at hwO'
      have hpl := mapToObjConvs_inv E uns ie (hwO'.1.1.2.symm) hcs
      exact mapToObj_pw hU hL hrec hwf hpl hps hpw.2 (by simpa [wf] using hwI) (by simpa [hasOpt] using hoI)
        (by simpa [namesAll] using hnI) hwO hdO hno.2 h
    case object inn its ios =>
      obtain ⟨hreq, cs, hcs, rfl⟩ := hg
      obtain ⟨ps, rfl, hps⟩ := shape_object hp hwt
      have hfz : Payload.wfZip nfc its ps = true := by
        simp only [Payload.wfP, Bool.and_eq_true] at hpw; exact hpw.2
      have hni : inn.all nfc = true ∧ namesAllL nfc its = true := by
        simpa only [namesAll, Bool.and_eq_true] using hnI
      have hwI' := hwI
      simp only [wf, Bool.and_eq_true, beq_iff_eq] at hwI'
      have hpl := gcObj_inv E uns on ot oo hwI'.1.1.1 hcs
      exact objToObj_pw hU hL hrec hwf hpl hps hfz hwI hoI hni.2 hwO hdO hno.2 h

/-! ### the wrapper, and every fuel -/

theorem recWF_apply {E : Env} (hU : UnifyLaws E) (hL : SetWFLaws nfc E) (hT : TextLaws nfc) :
    ∀ n, RecWF nfc E (apply E n) := by
  intro n
  induction n using Nat.strongRecOn with
  | _ n ih =>
    intro inT out uns c v r hg hc hnI hnO hpw h
    cases n with
    | zero => simp [apply] at h
    | succ n =>
      have hnd : out.isDyn = false := not_isDyn_of_noDyn hc.dynO
      simp only [apply, applyStep] at h
      split at h
      · -- marked: convert the unmarked value, re-apply the marks
        rename_i hm
        split at h
        · rename_i r0 hr0
          simp at h; subst h
          have hc' : Conds inT out v.unmark :=
            ⟨hc.ty, hc.wfI, hc.wfO, hc.optI, hc.dynO, unmark_wt hm hc.wt⟩
          have hpw' : PW nfc v.unmark := (Payload.wfP_unmark1 hpw).1
          exact withMarks_pw _ (ih n (Nat.lt_succ_self n) inT out uns c v.unmark r0 hg hc' hnI hnO hpw' hr0)
        · rename_i hno
          exact absurd h (by
            intro hh
            exact hno r hh)
      · rename_i hm
        simp only [hnd, Bool.false_eq_true, if_false] at h
        split at h
        · -- unknown or null: the type comes from dynamicReplace
          have hrepl := dynRepl_id E inT out hc.dynO hc.wfO
          rw [hc.ty, hrepl] at h
          simp only at h
          split at h
          · obtain ⟨rng, _, h⟩ := Res.bind_eq_ok h
            exact pw_of_wf (prepareUnknownResult_wf (ok_stripOpt hc.wfO hnO) h)
          · simp at h; subst h; exact null_pw _
        · rename_i hkn
          have hk : v.isKnown = true ∧ v.isNull = false := by
            simp only [Bool.or_eq_true, Bool.not_eq_true', not_or, Bool.not_eq_false,
              Bool.not_eq_true] at hkn
            exact hkn
          cases n with
          | zero => simp [apply] at h
          | succ m =>
            simp only [apply] at h
            have hm' : v.v.isMarked = false := by
              have : v.isMarked = false := by simpa using hm
              exact this
            exact inner_pw hU hL hT (recOK_apply hU m) (ih m (by omega)) inT out uns c v r hg hc hnI hnO hpw
              ⟨hm', hk.1, hk.2⟩ h

/-! ## The theorems -/

/-- a conversion obtained from `GetConversion` / `GetConversionUnsafe` for the value's type returns a
C06-well-formed value -/
theorem apply_wf (E : Env) (hU : UnifyLaws E) (hS : SetWFLaws nfc E) (hT : TextLaws nfc)
    (fuel : Nat) (uns : Bool) (p : Plan) (v r : Value) (want : Ty) (hp : RegularPair v want)
    (hn : want.namesAll nfc = true) (hv : v.WF nfc = true)
    (hg : getConv E v.ty want uns = some p) (h : apply E fuel p v = .ok r) : r.WF nfc = true := by
  have hty := apply_ty hU hp hg h
  obtain ⟨c, hc, rfl⟩ := Option.map_eq_some_iff.mp hg
  have hvn : namesAll nfc v.ty = true := by
    have := Value.ok_of_wf hv
    simp only [Ty.ok, Bool.and_eq_true] at this; exact this.2
  have hpw := recWF_apply hU hS hT fuel v.ty want uns c v r hc hp.conds hvn hn (pw_of_wf hv) h
  exact wf_of_pw (by rw [hty]; exact ok_stripOpt hp.wfT hn) hpw

/-- the same, with the C08 well-typedness premise discharged from C06 well-formedness -/
theorem apply_wf' (E : Env) (hU : UnifyLaws E) (hS : SetWFLaws nfc E) (hT : TextLaws nfc)
    (fuel : Nat) (uns : Bool) (p : Plan) (v r : Value) (want : Ty) (hw : want.wf = true)
    (hd : want.hasDyn = false) (hn : want.namesAll nfc = true) (hv : v.WF nfc = true)
    (hg : getConv E v.ty want uns = some p) (h : apply E fuel p v = .ok r) : r.WF nfc = true :=
  apply_wf E hU hS hT fuel uns p v r want ⟨valueWt_of_WF hv, hw, hd⟩ hn hv hg h

/-- `convert.Convert` to a placeholder-free target returns a C06-well-formed value -/
theorem convert_wf (E : Env) (hU : UnifyLaws E) (hS : SetWFLaws nfc E) (hT : TextLaws nfc)
    (fuel : Nat) (v r : Value) (want : Ty) (hp : RegularPair v want) (hn : want.namesAll nfc = true)
    (hv : v.WF nfc = true) (h : convert E fuel v want = .ok r) : r.WF nfc = true := by
  unfold convert convertWith at h
  split at h
  · simp at h; subst h; exact hv
  · split at h
    · simp at h
    · rename_i p hg
      exact apply_wf E hU hS hT fuel true p v r want hp hn hv hg h

/-- the same, with the C08 well-typedness premise discharged from C06 well-formedness -/
theorem convert_wf' (E : Env) (hU : UnifyLaws E) (hS : SetWFLaws nfc E) (hT : TextLaws nfc)
    (fuel : Nat) (v r : Value) (want : Ty) (hw : want.wf = true) (hd : want.hasDyn = false)
    (hn : want.namesAll nfc = true) (hv : v.WF nfc = true) (h : convert E fuel v want = .ok r) :
    r.WF nfc = true :=
  convert_wf E hU hS hT fuel v r want ⟨valueWt_of_WF hv, hw, hd⟩ hn hv h

/-- a C06-well-formed input converts to a value that is well-typed in the C08 sense too -/
theorem convert_wt_of_wf (E : Env) (hU : UnifyLaws E) (hS : SetWFLaws nfc E) (hT : TextLaws nfc)
    (fuel : Nat) (v r : Value) (want : Ty) (hw : want.wf = true) (hd : want.hasDyn = false)
    (hn : want.namesAll nfc = true) (hv : v.WF nfc = true) (h : convert E fuel v want = .ok r) :
    Value.wt r = true :=
  valueWt_of_WF (convert_wf' E hU hS hT fuel v r want hw hd hn hv h)

/-! ## What `SetWFLaws` asks of the driver's concrete set oracle (`Env.concrete`) -/

/-- For `Env.concrete` (hash = CRC-32 of the set-hash bytes, `Equivalent` = `Equals` is known true) the
law `equiv_false` follows from symmetry of "`Equals` is known true" on set members; what remains is that
symmetry and the coherence of `hashC` with it (both statements about `Value.Equals` / `setRules.Hash`,
i.e. properties C03 / C02 own). -/
theorem setWFLaws_concrete (U : Bool → List Ty → Option Ty)
    (hsym : ∀ (t : Ty) (a b : Payload), SetMem nfc t a → SetMem nfc t b →
      equivP t a b = false → equivP t b a = false)
    (hcoh : ∀ (t : Ty) (a b : Payload) (ha hb : Int), SetMem nfc t a → SetMem nfc t b →
      hashC t a = .ok ha → hashC t b = .ok hb → equivP t a b = true → ha = hb) :
    SetWFLaws nfc (Env.concrete U) where
  equiv_false := by
    intro t a b ha hb h
    apply hsym t a b ha hb
    have h' : equivC t a b = .ok false := h
    have hq : (Value.equals ⟨t, a⟩ ⟨t, b⟩).map Value.isTrue = .ok false := by
      unfold equivC at h'
      split at h'
      · simp at h'
      · exact h'
    obtain ⟨w, hw, hwt⟩ := Res.map_eq_ok hq
    have hw' : Value.equalsP t a t b = .ok w := by
      simpa [Value.equals, Value.containsMarked, ha.2, hb.2] using hw
    simp [equivP, hw', hwt]
  hash_coh := fun t a b ha hb h1 h2 h3 h4 h5 => hcoh t a b ha hb h1 h2 h3 h4 h5

/-! ## The hypotheses are jointly satisfiable (and `SetWFLaws` is needed) -/

/-- an environment whose set oracle is lawful: every member in bucket 0, `Equivalent` = the symmetric
closure of the relation `Value.WF` judges duplicates by; `unify` as in `Env.simple` -/
def envDedup : Env :=
  { unify := Env.simple.unify
    hash := fun _ _ => .ok 0
    equiv := fun t a b => .ok (equivP t a b || equivP t b a)
    less := fun _ _ _ => false }

theorem unifyLaws_envDedup : UnifyLaws envDedup := ⟨unifyLaws_simple.same⟩

theorem setWFLaws_envDedup (nfc : String → Bool) : SetWFLaws nfc envDedup where
  equiv_false := by
    intro t a b _ _ h
    simp only [envDedup, Res.ok.injEq, Bool.or_eq_false_iff] at h
    exact h.2
  hash_coh := by
    intro t a b ha hb _ _ h1 h2 _
    simp only [envDedup, Res.ok.injEq] at h1 h2
    omega

/-- the trivial normalisation predicate (every string counts as normalised) satisfies `TextLaws` -/
theorem textLaws_true : TextLaws (fun _ => true) := ⟨fun _ => rfl, rfl, rfl⟩

def exOne : Num := .fin false 1 0 64
def exTwo : Num := .fin false 2 0 64
/-- a nested value with a marked member: `{a = ["m"-marked list [1, 1, 2]], b = true}` -/
def exVal : Value :=
  ⟨.object ["a", "b"] [.list .number, .bool] [false, false],
   .smap ["a", "b"] [.marked ["m"] (.seq [.n exOne, .n exOne, .n exTwo]), .b true]⟩
/-- target: list → set (duplicates collapse), number → string, bool → string, a missing optional attribute -/
def exWant : Ty := .object ["a", "b", "c"] [.set .string, .string, .number] [false, false, true]

example : exVal.WF (fun _ => true) = true := by decide

/-- the conversion evaluates: the list becomes the set {"1", "2"} (still marked), `c` is filled with null -/
theorem exConvert : convert envDedup 8 exVal exWant =
    .ok ⟨.object ["a", "b", "c"] [.set .string, .string, .number] [false, false, false],
      .smap ["a", "b", "c"] [.marked ["m"] (.sset [0, 0] [.s "1", .s "2"]), .s "true", .null]⟩ := by rfl

/-- `convert_wf` applies to it (all hypotheses discharged) … -/
example : (⟨.object ["a", "b", "c"] [.set .string, .string, .number] [false, false, false],
      .smap ["a", "b", "c"] [.marked ["m"] (.sset [0, 0] [.s "1", .s "2"]), .s "true", .null]⟩ : Value).WF
        (fun _ => true) = true :=
  convert_wf envDedup unifyLaws_envDedup (setWFLaws_envDedup _) textLaws_true 8 exVal _ exWant
    ⟨by decide, by decide, by decide⟩ (by decide) (by decide) exConvert

/-- … and, for a lawless set oracle (`Env.simple`: no two members are ever `Equivalent`), the same
conversion returns a set with a duplicate member, which is not C06-well-formed: `SetWFLaws` is needed.
(This is a property of the stand-in oracle, not of the conversion code.) -/
example : ∃ r, convert Env.simple 8 exVal exWant = .ok r ∧ r.WF (fun _ => true) = false :=
  ⟨⟨.object ["a", "b", "c"] [.set .string, .string, .number] [false, false, false],
      .smap ["a", "b", "c"] [.marked ["m"] (.sset [0, 0, 0] [.s "1", .s "1", .s "2"]), .s "true", .null]⟩,
    by rfl, by decide⟩

end D06Conv
end CtyModel
