/-
C06 (production sites), part 1: every value `gocty.ToCtyValue` returns is
well-formed (`Value.WF`).

Side conditions
* `hn : ∀ s, nfc (norm s) = true` — what `ctystrings.Normalize` returns is NFC.
* `ty.ok nfc` — the target type handed to `ToCtyValue` is itself a legal type of
  a value (representation invariant, no optional-attribute annotation, attribute
  names NFC).
* `goOk nfc g` — what the model's `GoVal` does not enforce by construction:
  every `cty.Value` embedded in the Go value is itself well-formed (such a value
  is passed through as is), and a Go map is listed with distinct keys in
  ascending order, one value per key (`GoVal.map`'s stated convention, also a
  clause of `hasTy`).
Sets need no restriction: the model answers `unmodelled` for a non-empty Go
slice/array converted to a set type (so there is no `.ok` result to speak about);
the empty set and the null set are covered.
-/
import CtyModel.Lemmas.WFCons
import CtyModel.Lemmas.GoctyRoundtrip
set_option linter.unusedSimpArgs false
set_option linter.unusedVariables false
namespace CtyModel
namespace D06Prod
open Gocty

/-! `goOk nfc g`: every embedded `cty.Value` is well-formed; Go maps are listed
key-ascending, one value per key -/
mutual
def goOk (nfc : String → Bool) : GoVal → Bool
  | .cval v => v.WF nfc
  | .ptr v => goOk nfc v
  | .slice vs => goOkL nfc vs
  | .arr vs => goOkL nfc vs
  | .map ks vs => ks.length == vs.length && Ty.strictAsc ks && goOkL nfc vs
  | .struct _ vs => goOkL nfc vs
  | _ => true
def goOkL (nfc : String → Bool) : List GoVal → Bool
  | [] => true
  | v :: vs => goOk nfc v && goOkL nfc vs
end

variable {nfc : String → Bool}

/-! ### loops -/

theorem seqAll_ok_inv {α} : ∀ (rs : List (Res α)) (xs : List α), seqAll rs = .ok xs → rs = xs.map Res.ok
  | [], xs, h => by simp only [seqAll, Res.ok.injEq] at h; subst h; rfl
  | r :: rs, xs, h => by
    cases r with
    | ok a =>
      simp only [seqAll] at h
      cases hs : seqAll rs with
      | ok as =>
        rw [hs] at h; simp only [Res.ok.injEq] at h; subst h
        simp [seqAll_ok_inv rs as hs]
      | err c => rw [hs] at h; cases h
      | panic w => rw [hs] at h; cases h
      | unmodelled => rw [hs] at h; cases h
    | err c => simp [seqAll] at h
    | panic w => simp [seqAll] at h
    | unmodelled => simp [seqAll] at h

/-- every member of `ws` is the `.ok` payload of a member of `rs` -/
theorem all_of_map_ok {rs : List (Res Value)} {ws : List Value} (h : rs = ws.map Res.ok)
    (hr : ∀ r ∈ rs, ∀ w, r = .ok w → w.WF nfc = true) : ∀ w ∈ ws, w.WF nfc = true := by
  intro w hw
  exact hr (.ok w) (by rw [h]; exact List.mem_map.mpr ⟨w, hw, rfl⟩) w rfl

theorem toCtyL_length (norm : String → String) : ∀ (vs : List GoVal) (ety : Ty), (toCtyL norm vs ety).length = vs.length
  | [], _ => by simp [toCtyL]
  | _ :: vs, ety => by simp [toCtyL, toCtyL_length norm vs ety]

/-! ### null members -/

theorem okL_mem {atys : List Ty} (h : Ty.okL nfc atys = true) {t : Ty} (ht : t ∈ atys) : t.ok nfc = true := by
  obtain ⟨i, hi, rfl⟩ := List.mem_iff_getElem.mp ht
  exact Ty.okL_getElem h (List.getElem?_eq_getElem hi)

theorem wf_nulls : ∀ {atys : List Ty}, Ty.okL nfc atys = true → ∀ w ∈ atys.map Value.null, w.WF nfc = true := by
  intro atys h w hw
  obtain ⟨t, ht, rfl⟩ := List.mem_map.mp hw
  exact Value.wf_nullOf (okL_mem h ht)

theorem lookupKey_mem {α} {k : String} : ∀ {ns : List String} {xs : List α} {x : α},
    lookupKey k ns xs = some x → x ∈ xs
  | [], _, _, h => by simp [lookupKey] at h
  | _ :: _, [], _, h => by simp [lookupKey] at h
  | n :: ns, y :: ys, x, h => by
    simp only [lookupKey] at h
    split at h
    · simp only [Option.some.injEq] at h; subst h; simp
    · exact List.mem_cons_of_mem _ (lookupKey_mem h)

theorem attrResults_mem {names : List String} {atys : List Ty} {ks : List String} {rs : List (Res Value)} :
    ∀ {names : List String} {atys : List Ty} {r : Res Value}, r ∈ attrResults names atys ks rs →
      r ∈ rs ∨ ∃ aty ∈ atys, r = .ok (Value.null aty)
  | [], _, _, h => by simp [attrResults] at h
  | _ :: _, [], _, h => by simp [attrResults] at h
  | k :: names, aty :: atys, r, h => by
    simp only [attrResults, List.mem_cons] at h
    rcases h with h | h
    · cases hl : lookupKey k ks rs with
      | some r' =>
        rw [hl] at h; simp only at h; subst h
        exact Or.inl (lookupKey_mem hl)
      | none =>
        rw [hl] at h; simp only at h
        exact Or.inr ⟨aty, by simp, h⟩
    · rcases attrResults_mem (names := names) (atys := atys) h with h | ⟨a, ha, h⟩
      · exact Or.inl h
      · exact Or.inr ⟨a, List.mem_cons_of_mem _ ha, h⟩

theorem attrResults_length (ks : List String) (rs : List (Res Value)) : ∀ (names : List String) (atys : List Ty),
    names.length = atys.length → (attrResults names atys ks rs).length = names.length
  | [], [], _ => by simp [attrResults]
  | [], _ :: _, h => by simp at h
  | _ :: _, [], h => by simp at h
  | _ :: names, _ :: atys, h => by
    simp only [attrResults, List.length_cons]
    rw [attrResults_length ks rs names atys (by simpa using h)]

/-! ### `cty.MapVal`'s key handling -/

theorem all_nfc_of_norm_fix {norm : String → String} (hn : ∀ s, nfc (norm s) = true) :
    ∀ {ks : List String}, ks.map norm = ks → ks.all nfc = true
  | [], _ => rfl
  | k :: ks, h => by
    simp only [List.map_cons, List.cons.injEq] at h
    simp only [List.all_cons, Bool.and_eq_true]
    exact ⟨by rw [← h.1]; exact hn k, all_nfc_of_norm_fix hn h.2⟩

theorem insertKV_len (k : String) (w : Value) : ∀ (xs : List String) (ys : List Value), xs.length = ys.length →
    (insertKV k w xs ys).1.length = (insertKV k w xs ys).2.length
  | [], _, _ => by simp [insertKV]
  | _ :: _, [], _ => by simp [insertKV]
  | x :: xs, y :: ys, h => by
    simp only [List.length_cons, Nat.add_right_cancel_iff] at h
    simp only [insertKV]
    split
    · simp [h]
    · simp [insertKV_len k w xs ys h]

theorem insertKV_mem1 {k : String} {w : Value} : ∀ {xs : List String} {ys : List Value} {a : String},
    a ∈ (insertKV k w xs ys).1 → a = k ∨ a ∈ xs
  | [], _, a, h => by simp [insertKV] at h; exact Or.inl h
  | _ :: _, [], a, h => by simp [insertKV] at h; exact Or.inl h
  | x :: xs, y :: ys, a, h => by
    simp only [insertKV] at h
    split at h
    · simpa using h
    · simp only [List.mem_cons] at h
      rcases h with h | h
      · exact Or.inr (by simp [h])
      · rcases insertKV_mem1 h with h | h
        · exact Or.inl h
        · exact Or.inr (List.mem_cons_of_mem _ h)

theorem insertKV_mem2 {k : String} {w : Value} : ∀ {xs : List String} {ys : List Value} {a : Value},
    a ∈ (insertKV k w xs ys).2 → a = w ∨ a ∈ ys
  | [], _, a, h => by simp [insertKV] at h; exact Or.inl h
  | _ :: _, [], a, h => by simp [insertKV] at h; exact Or.inl h
  | x :: xs, y :: ys, a, h => by
    simp only [insertKV] at h
    split at h
    · simpa using h
    · simp only [List.mem_cons] at h
      rcases h with h | h
      · exact Or.inr (by simp [h])
      · rcases insertKV_mem2 h with h | h
        · exact Or.inl h
        · exact Or.inr (List.mem_cons_of_mem _ h)

theorem insertKV_asc {k : String} {w : Value} : ∀ {xs : List String} {ys : List Value},
    Ty.strictAsc xs = true → k ∉ xs → Ty.strictAsc (insertKV k w xs ys).1 = true
  | [], _, _, _ => by simp [insertKV, Ty.strictAsc]
  | _ :: _, [], _, _ => by simp [insertKV, Ty.strictAsc]
  | x :: xs, y :: ys, h, hk => by
    have ⟨hxs, hlt⟩ := Ty.strictAsc_cons h
    simp only [insertKV]
    split
    · rename_i hkx
      apply Ty.strictAsc_of h
      intro z hz
      rcases List.mem_cons.mp hz with rfl | hz
      · exact hkx
      · exact String.lt_trans hkx (hlt z hz)
    · rename_i hkx
      have hne : k ≠ x := fun e => hk (by simp [e])
      have hxk : x < k := lt_of_not_lt_of_ne hkx hne
      apply Ty.strictAsc_of (insertKV_asc hxs (fun hm => hk (List.mem_cons_of_mem _ hm)))
      intro z hz
      rcases insertKV_mem1 hz with rfl | hz
      · exact hxk
      · exact hlt z hz

theorem sortKV_len : ∀ (ks : List String) (ws : List Value), (sortKV ks ws).1.length = (sortKV ks ws).2.length
  | [], _ => by simp [sortKV]
  | _ :: _, [] => by simp [sortKV]
  | k :: ks, w :: ws => by simp only [sortKV]; exact insertKV_len _ _ _ _ (sortKV_len ks ws)

theorem sortKV_mem1 : ∀ {ks : List String} {ws : List Value} {a : String}, a ∈ (sortKV ks ws).1 → a ∈ ks
  | [], _, a, h => by simp [sortKV] at h
  | _ :: _, [], a, h => by simp [sortKV] at h
  | k :: ks, w :: ws, a, h => by
    simp only [sortKV] at h
    rcases insertKV_mem1 h with h | h
    · simp [h]
    · exact List.mem_cons_of_mem _ (sortKV_mem1 h)

theorem sortKV_mem2 : ∀ {ks : List String} {ws : List Value} {a : Value}, a ∈ (sortKV ks ws).2 → a ∈ ws
  | [], _, a, h => by simp [sortKV] at h
  | _ :: _, [], a, h => by simp [sortKV] at h
  | k :: ks, w :: ws, a, h => by
    simp only [sortKV] at h
    rcases insertKV_mem2 h with h | h
    · simp [h]
    · exact List.mem_cons_of_mem _ (sortKV_mem2 h)

theorem sortKV_asc : ∀ {ks : List String} {ws : List Value}, keysDistinct ks = true →
    Ty.strictAsc (sortKV ks ws).1 = true
  | [], _, _ => by simp [sortKV, Ty.strictAsc]
  | _ :: _, [], _ => by simp [sortKV, Ty.strictAsc]
  | k :: ks, w :: ws, h => by
    simp only [keysDistinct, Bool.and_eq_true, Bool.not_eq_true', List.contains_eq_mem, decide_eq_false_iff_not] at h
    simp only [sortKV]
    exact insertKV_asc (sortKV_asc h.2) (fun hm => h.1 (sortKV_mem1 hm))


/-! ### the main induction -/

theorem toCtyZ_length (norm : String → String) : ∀ (vs : List GoVal) (etys : List Ty), vs.length = etys.length →
    (toCtyZ norm vs etys).length = vs.length
  | [], [], _ => by simp [toCtyZ]
  | [], _ :: _, h => by simp at h
  | _ :: _, [], h => by simp at h
  | _ :: vs, _ :: etys, h => by simp [toCtyZ, toCtyZ_length norm vs etys (by simpa using h)]

/-- the list branch shared by Go slices and arrays -/
theorem list_branch {rs : List (Res Value)} {v : Value}
    (hr : ∀ r ∈ rs, ∀ w, r = .ok w → w.WF nfc = true) {ws : List Value} (hs : seqAll rs = .ok ws)
    (h : (if !canListVal ws then Res.err "all list elements must have the same type" else listVal ws) = .ok v) :
    v.WF nfc = true := by
  split at h
  · cases h
  · exact Value.wf_listVal h (all_of_map_ok (seqAll_ok_inv _ _ hs) hr)

/-- the object branch shared by Go maps and structs -/
theorem object_branch {names : List String} {atys : List Ty} {os : List Bool} {ks : List String}
    {rs : List (Res Value)} {ws : List Value} (hty : Ty.ok nfc (.object names atys os) = true)
    (hr : ∀ r ∈ rs, ∀ w, r = .ok w → w.WF nfc = true)
    (hc : combAll (attrResults names atys ks rs) = .ok ws) : (objectVal names ws).WF nfc = true := by
  obtain ⟨hL, hlen, _, hasc, _, hnfc⟩ := Ty.ok_object hty
  have hinv := combAll_ok_inv _ _ hc
  have hwlen : ws.length = names.length := by
    have := congrArg List.length hinv
    rw [attrResults_length ks rs names atys hlen] at this
    simpa using this.symm
  refine Value.wf_objectVal (all_of_map_ok hinv ?_) hwlen.symm hasc hnfc
  intro r hr' w hw
  rcases attrResults_mem (names := names) (atys := atys) hr' with h | ⟨aty, ha, h⟩
  · exact hr r h w hw
  · rw [h] at hw; cases hw
    exact Value.wf_nullOf (okL_mem hL ha)

theorem nulls_object {names : List String} {atys : List Ty} {os : List Bool}
    (hty : Ty.ok nfc (.object names atys os) = true) : (objectVal names (atys.map Value.null)).WF nfc = true := by
  obtain ⟨hL, hlen, _, hasc, _, hnfc⟩ := Ty.ok_object hty
  exact Value.wf_objectVal (wf_nulls hL) (by simp [hlen]) hasc hnfc

theorem passthrough_wf {c v : Value} {ty : Ty} (h : passthrough c ty = .ok v) (hc : c.WF nfc = true) :
    v.WF nfc = true := by
  unfold passthrough at h
  split at h
  · cases h; exact hc
  · split at h
    · cases h; exact hc
    · cases h

/-! `gocty.ToCtyValue` (in.go `toCtyValue` and the per-kind functions it dispatches to) -/
mutual
theorem toCtyG_wf {norm : String → String} (hn : ∀ s, nfc (norm s) = true) :
    ∀ (g : GoVal) (pass : Bool) (ty : Ty) (v : Value),
    toCtyG norm pass g ty = .ok v → goOk nfc g = true → ty.ok nfc = true → v.WF nfc = true
  | .nilPtr, pass, ty, v, h, _, hty => by
    simp only [toCtyG, Res.ok.injEq] at h; subst h; exact Value.wf_nullOf hty
  | .ptr g, pass, ty, v, h, hg, hty => by
    simp only [toCtyG] at h; simp only [goOk] at hg
    exact toCtyG_wf hn g false ty v h hg hty
  | .cvalNil, pass, ty, v, h, _, _ => by simp [toCtyG] at h
  | .cval c, pass, ty, v, h, hg, hty => by
    simp only [goOk] at hg
    simp only [toCtyG] at h
    split at h
    · exact passthrough_wf h hg
    · cases ty <;> simp at h
      · subst h; exact hg
      · split at h <;> cases h
      · subst h; exact nulls_object hty
  | .int i, pass, ty, v, h, _, _ => by
    cases ty <;> simp [toCtyG] at h
    subst h; simp [Value.WF, Payload.wfP]
  | .flt x, pass, ty, v, h, _, _ => by
    cases ty <;> simp [toCtyG] at h
    subst h; simp [Value.WF, Payload.wfP]
  | .nan, pass, ty, v, h, _, _ => by cases ty <;> simp [toCtyG] at h
  | .str s, pass, ty, v, h, _, _ => by
    cases ty <;> simp [toCtyG] at h
    subst h; simp [Value.WF, Payload.wfP, hn]
  | .bool b, pass, ty, v, h, _, _ => by
    cases ty <;> simp [toCtyG] at h
    subst h; simp [Value.WF, Payload.wfP]
  | .bigInt i, pass, ty, v, h, _, hty => by
    cases ty <;> simp [toCtyG] at h
    · subst h; simp [Value.WF, Payload.wfP]
    · split at h <;> cases h
    · subst h; exact nulls_object hty
  | .bigFloat x, pass, ty, v, h, _, hty => by
    cases ty <;> simp [toCtyG] at h
    · subst h; simp [Value.WF, Payload.wfP]
    · split at h <;> cases h
    · subst h; exact nulls_object hty
  | .nilSlice, pass, ty, v, h, _, hty => by
    cases ty <;> simp [toCtyG] at h <;> (subst h; exact Value.wf_nullOf hty)
  | .nilMap, pass, ty, v, h, _, hty => by
    cases ty <;> simp [toCtyG] at h <;> (subst h; exact Value.wf_nullOf hty)
  | .slice vs, pass, ty, v, h, hg, hty => by
    simp only [goOk] at hg
    cases ty <;> simp only [toCtyG] at h <;> try (cases h; done)
    · rename_i ety
      rw [Ty.ok_list] at hty
      split at h
      · cases h; exact Value.wf_listValEmpty hty
      · cases hs : seqAll (toCtyL norm vs ety) with
        | ok ws => rw [hs] at h; exact list_branch (toCtyL_wf hn vs ety hg hty) hs h
        | err c => rw [hs] at h; cases h
        | panic w => rw [hs] at h; cases h
        | unmodelled => rw [hs] at h; cases h
    · rename_i ety
      rw [Ty.ok_set] at hty
      split at h
      · cases h; exact Value.wf_setValEmpty hty
      · cases h
    · rename_i etys
      rw [Ty.ok_tuple] at hty
      split at h
      · cases h
      · cases hs : seqAll (toCtyZ norm vs etys) with
        | ok ws =>
          rw [hs] at h; cases h
          exact Value.wf_tupleVal (all_of_map_ok (seqAll_ok_inv _ _ hs) (toCtyZ_wf hn vs etys hg hty))
        | err c => rw [hs] at h; cases h
        | panic w => rw [hs] at h; cases h
        | unmodelled => rw [hs] at h; cases h
  | .arr vs, pass, ty, v, h, hg, hty => by
    simp only [goOk] at hg
    cases ty <;> simp only [toCtyG] at h <;> try (cases h; done)
    · rename_i ety
      rw [Ty.ok_list] at hty
      split at h
      · cases h; exact Value.wf_listValEmpty hty
      · cases hs : seqAll (toCtyL norm vs ety) with
        | ok ws => rw [hs] at h; exact list_branch (toCtyL_wf hn vs ety hg hty) hs h
        | err c => rw [hs] at h; cases h
        | panic w => rw [hs] at h; cases h
        | unmodelled => rw [hs] at h; cases h
    · rename_i ety
      rw [Ty.ok_set] at hty
      split at h
      · cases h; exact Value.wf_setValEmpty hty
      · cases h
  | .map ks vs, pass, ty, v, h, hg, hty => by
    simp only [goOk, Bool.and_eq_true, beq_iff_eq] at hg
    obtain ⟨⟨hlen, hasc⟩, hg⟩ := hg
    cases ty <;> simp only [toCtyG] at h <;> try (cases h; done)
    · rename_i ety
      rw [Ty.ok_map] at hty
      split at h
      · cases h; exact Value.wf_mapValEmpty hty
      · cases hs : combAll (toCtyL norm vs ety) with
        | ok ws =>
          rw [hs] at h; simp only at h
          have hinv := combAll_ok_inv _ _ hs
          have hws := all_of_map_ok hinv (toCtyL_wf hn vs ety hg hty)
          have hwl : ws.length = vs.length := by
            have := congrArg List.length hinv
            rw [toCtyL_length] at this; simpa using this.symm
          split at h
          · cases h
          · split at h
            · split at h
              · cases h
              · rename_i hd
                simp only [Bool.not_eq_true', Bool.not_eq_false] at hd
                refine Value.wf_mapVal h (fun w hw => hws w (sortKV_mem2 hw)) (sortKV_len _ _) (sortKV_asc (by simpa using hd)) ?_
                rw [List.all_eq_true]
                intro k hk
                obtain ⟨k0, _, rfl⟩ := List.mem_map.mp (sortKV_mem1 hk)
                exact hn k0
            · rename_i hne
              have hfix : ks.map norm = ks := by simpa using hne
              exact Value.wf_mapVal h hws (by rw [hlen, hwl]) hasc (all_nfc_of_norm_fix hn hfix)
        | err c => rw [hs] at h; cases h
        | panic w => rw [hs] at h; cases h
        | unmodelled => rw [hs] at h; cases h
    · rename_i names atys os
      split at h
      · cases h; exact Value.wf_emptyObjectVal
      · cases hs : combAll (attrResults names atys ks (toCtyM norm ks vs names atys)) with
        | ok ws =>
          rw [hs] at h; cases h
          exact object_branch hty (toCtyM_wf hn ks vs names atys hg (Ty.ok_object hty).1) hs
        | err c => rw [hs] at h; cases h
        | panic w => rw [hs] at h; cases h
        | unmodelled => rw [hs] at h; cases h
  | .struct tags vs, pass, ty, v, h, hg, hty => by
    simp only [goOk] at hg
    cases ty <;> simp only [toCtyG] at h <;> try (cases h; done)
    · rename_i etys
      rw [Ty.ok_tuple] at hty
      split at h
      · cases h
      · cases hs : seqAll (toCtyZ norm vs etys) with
        | ok ws =>
          rw [hs] at h; cases h
          exact Value.wf_tupleVal (all_of_map_ok (seqAll_ok_inv _ _ hs) (toCtyZ_wf hn vs etys hg hty))
        | err c => rw [hs] at h; cases h
        | panic w => rw [hs] at h; cases h
        | unmodelled => rw [hs] at h; cases h
    · rename_i names atys os
      split at h
      · cases h; exact Value.wf_emptyObjectVal
      · cases hs : combAll (attrResults names atys (taggedNames (effTags tags))
            (toCtyF norm (effTags tags) vs names atys)) with
        | ok ws =>
          rw [hs] at h; cases h
          exact object_branch hty (toCtyF_wf hn (effTags tags) vs names atys hg (Ty.ok_object hty).1) hs
        | err c => rw [hs] at h; cases h
        | panic w => rw [hs] at h; cases h
        | unmodelled => rw [hs] at h; cases h
theorem toCtyL_wf {norm : String → String} (hn : ∀ s, nfc (norm s) = true) :
    ∀ (vs : List GoVal) (ety : Ty), goOkL nfc vs = true → ety.ok nfc = true →
    ∀ r ∈ toCtyL norm vs ety, ∀ w, r = .ok w → w.WF nfc = true
  | [], _, _, _, r, hr, _, _ => by simp [toCtyL] at hr
  | g :: vs, ety, hg, hty, r, hr, w, hw => by
    simp only [goOkL, Bool.and_eq_true] at hg
    simp only [toCtyL, List.mem_cons] at hr
    rcases hr with rfl | hr
    · exact toCtyG_wf hn g true ety w hw hg.1 hty
    · exact toCtyL_wf hn vs ety hg.2 hty r hr w hw
theorem toCtyZ_wf {norm : String → String} (hn : ∀ s, nfc (norm s) = true) :
    ∀ (vs : List GoVal) (etys : List Ty), goOkL nfc vs = true → Ty.okL nfc etys = true →
    ∀ r ∈ toCtyZ norm vs etys, ∀ w, r = .ok w → w.WF nfc = true
  | [], _, _, _, r, hr, _, _ => by simp [toCtyZ] at hr
  | _ :: _, [], _, _, r, hr, _, _ => by simp [toCtyZ] at hr
  | g :: vs, ety :: etys, hg, hty, r, hr, w, hw => by
    simp only [goOkL, Bool.and_eq_true] at hg
    simp only [toCtyZ, List.mem_cons] at hr
    have h0 : ety.ok nfc = true := okL_mem hty (by simp)
    have h1 : Ty.okL nfc etys = true := by
      simp only [Ty.okL, Ty.wfL, Ty.hasOptL, Ty.namesAllL, Bool.and_eq_true, Bool.not_eq_true', Bool.or_eq_false_iff] at hty ⊢
      simp [hty]
    rcases hr with rfl | hr
    · exact toCtyG_wf hn g true ety w hw hg.1 h0
    · exact toCtyZ_wf hn vs etys hg.2 h1 r hr w hw
theorem toCtyM_wf {norm : String → String} (hn : ∀ s, nfc (norm s) = true) :
    ∀ (ks : List String) (vs : List GoVal) (names : List String) (atys : List Ty), goOkL nfc vs = true →
    Ty.okL nfc atys = true → ∀ r ∈ toCtyM norm ks vs names atys, ∀ w, r = .ok w → w.WF nfc = true
  | _, [], _, _, _, _, r, hr, _, _ => by cases ‹List String› <;> simp [toCtyM] at hr
  | [], _ :: _, _, _, _, _, r, hr, _, _ => by simp [toCtyM] at hr
  | k :: ks, g :: vs, names, atys, hg, hty, r, hr, w, hw => by
    simp only [goOkL, Bool.and_eq_true] at hg
    simp only [toCtyM, List.mem_cons] at hr
    rcases hr with rfl | hr
    · cases hl : lookupKey k names atys with
      | some aty =>
        rw [hl] at hw; simp only at hw
        exact toCtyG_wf hn g true aty w hw hg.1 (okL_mem hty (lookupKey_mem hl))
      | none =>
        rw [hl] at hw; simp only [Res.ok.injEq] at hw; subst hw
        exact Value.wf_nullOf rfl
    · exact toCtyM_wf hn ks vs names atys hg.2 hty r hr w hw
theorem toCtyF_wf {norm : String → String} (hn : ∀ s, nfc (norm s) = true) :
    ∀ (tags : List String) (vs : List GoVal) (names : List String) (atys : List Ty), goOkL nfc vs = true →
    Ty.okL nfc atys = true → ∀ r ∈ toCtyF norm tags vs names atys, ∀ w, r = .ok w → w.WF nfc = true
  | _, [], _, _, _, _, r, hr, _, _ => by cases ‹List String› <;> simp [toCtyF] at hr
  | [], _ :: _, _, _, _, _, r, hr, _, _ => by simp [toCtyF] at hr
  | t :: tags, g :: vs, names, atys, hg, hty, r, hr, w, hw => by
    simp only [goOkL, Bool.and_eq_true] at hg
    simp only [toCtyF] at hr
    split at hr
    · exact toCtyF_wf hn tags vs names atys hg.2 hty r hr w hw
    · simp only [List.mem_cons] at hr
      rcases hr with rfl | hr
      · cases hl : lookupKey t names atys with
        | some aty =>
          rw [hl] at hw; simp only at hw
          exact toCtyG_wf hn g true aty w hw hg.1 (okL_mem hty (lookupKey_mem hl))
        | none =>
          rw [hl] at hw; simp only [Res.ok.injEq] at hw; subst hw
          exact Value.wf_nullOf rfl
      · exact toCtyF_wf hn tags vs names atys hg.2 hty r hr w hw
end


/-! a Go value of a Go type in which `cty.Value` does not occur embeds no `cty.Value`; its maps are
listed key-ascending by `hasTy` -/
mutual
theorem goOk_of_hasTy : ∀ (g : GoVal) (T : GoTy), hasTy g T = true → hasCval T = false → goOk nfc g = true
  | .int _, _, _, _ | .flt _, _, _, _ | .nan, _, _, _ | .str _, _, _, _ | .bool _, _, _, _ | .nilSlice, _, _, _
  | .nilMap, _, _, _ | .nilPtr, _, _, _ | .bigInt _, _, _, _ | .bigFloat _, _, _, _ | .cvalNil, _, _, _ => by
    simp [goOk]
  | .cval _, T, h, hc => by cases T <;> simp [hasTy] at h; simp [hasCval] at hc
  | .ptr g, T, h, hc => by
    cases T <;> simp only [hasTy, Bool.false_eq_true] at h
    simp only [hasCval] at hc; simp only [goOk]; exact goOk_of_hasTy g _ h hc
  | .slice vs, T, h, hc => by
    cases T <;> simp only [hasTy, Bool.false_eq_true] at h
    simp only [hasCval] at hc; simp only [goOk]; exact goOkL_of_hasTyL vs _ h hc
  | .arr vs, T, h, hc => by
    cases T <;> simp only [hasTy, Bool.false_eq_true, Bool.and_eq_true] at h
    simp only [hasCval] at hc; simp only [goOk]; exact goOkL_of_hasTyL vs _ h.2 hc
  | .map ks vs, T, h, hc => by
    cases T <;> simp only [hasTy, Bool.false_eq_true, Bool.and_eq_true] at h
    simp only [hasCval] at hc
    simp only [goOk, Bool.and_eq_true]; exact ⟨h.1, goOkL_of_hasTyL vs _ h.2 hc⟩
  | .struct tags vs, T, h, hc => by
    cases T <;> simp only [hasTy, Bool.false_eq_true, Bool.and_eq_true] at h
    simp only [hasCval] at hc; simp only [goOk]; exact goOkL_of_hasTyZ vs _ h.2 hc
theorem goOkL_of_hasTyL : ∀ (vs : List GoVal) (T : GoTy), hasTyL vs T = true → hasCval T = false →
    goOkL nfc vs = true
  | [], _, _, _ => rfl
  | g :: vs, T, h, hc => by
    simp only [hasTyL, Bool.and_eq_true] at h
    simp only [goOkL, Bool.and_eq_true]
    exact ⟨goOk_of_hasTy g T h.1 hc, goOkL_of_hasTyL vs T h.2 hc⟩
theorem goOkL_of_hasTyZ : ∀ (vs : List GoVal) (Ts : List GoTy), hasTyZ vs Ts = true → hasCvalL Ts = false →
    goOkL nfc vs = true
  | [], _, _, _ => rfl
  | _ :: _, [], h, _ => by simp [hasTyZ] at h
  | g :: vs, T :: Ts, h, hc => by
    simp only [hasTyZ, Bool.and_eq_true] at h
    simp only [hasCvalL, Bool.or_eq_false_iff] at hc
    simp only [goOkL, Bool.and_eq_true]
    exact ⟨goOk_of_hasTy g T h.1 hc.1, goOkL_of_hasTyZ vs Ts h.2 hc.2⟩
end

end D06Prod

namespace D06Thm
open Gocty D06Prod
variable {nfc : String → Bool}

/-- `gocty.ToCtyValue(g, ty)`: whenever it returns a value, that value is well-formed — provided the
strings `ctystrings.Normalize` returns are NFC, the target type `ty` is a legal value type, every
`cty.Value` embedded in `g` is well-formed, and Go maps are listed key-ascending (`goOk`). -/
theorem d06_toCtyValue_wf {norm : String → String} (hn : ∀ s, nfc (norm s) = true) (g : GoVal) (ty : Ty)
    (v : Value) (h : toCty norm g ty = .ok v) (hg : goOk nfc g = true) (hty : ty.ok nfc = true) :
    v.WF nfc = true := toCtyG_wf hn g true ty v h hg hty

/-- `gocty.ToCtyValue` after `toCtyUnwrapPointer` (model entry `pass = false`), same statement -/
theorem d06_toCtyValue_wf_inner {norm : String → String} (hn : ∀ s, nfc (norm s) = true) (pass : Bool)
    (g : GoVal) (ty : Ty) (v : Value) (h : toCtyG norm pass g ty = .ok v) (hg : goOk nfc g = true)
    (hty : ty.ok nfc = true) : v.WF nfc = true := toCtyG_wf hn g pass ty v h hg hty

/-- `gocty.ToCtyValue(g, ty)` for a Go value `g` of a Go type `T` in which `cty.Value` does not occur
(what the Go type checker guarantees, `hasTy`): no hypothesis on `g` beyond its Go type is needed. -/
theorem d06_toCtyValue_wf_typed {norm : String → String} (hn : ∀ s, nfc (norm s) = true) (g : GoVal) (T : GoTy)
    (ty : Ty) (v : Value) (hT : hasTy g T = true) (hc : hasCval T = false) (h : toCty norm g ty = .ok v)
    (hty : ty.ok nfc = true) : v.WF nfc = true :=
  toCtyG_wf hn g true ty v h (goOk_of_hasTy g T hT hc) hty

/-- `gocty.ToCtyValue(g, ImpliedType-bridge(T))`: the target type the round-trip property (C18) converts
through is a legal value type as soon as its attribute names are NFC, so the result is well-formed. -/
theorem d06_toCtyValue_wf_bridge {norm : String → String} (hn : ∀ s, nfc (norm s) = true) (g : GoVal) (T : GoTy)
    (ty : Ty) (v : Value) (hT : hasTy g T = true) (hc : hasCval T = false) (hb : bridgeType norm T = .ok ty)
    (ho : ty.hasOpt = false) (hnames : ty.namesAll nfc = true) (h : toCty norm g ty = .ok v) :
    v.WF nfc = true := by
  refine d06_toCtyValue_wf_typed hn g T ty v hT hc h ?_
  simp [Ty.ok, impliedG_wf norm true T ty hb, ho, hnames]

/-! ### the hypotheses are jointly satisfiable, and the conclusion is not vacuous -/

/-- a normaliser that rewrites one string, and the matching NFC test -/
def d06_norm (s : String) : String := if s = "é" then "é" else s
def d06_nfc (s : String) : Bool := s != "é"

theorem d06_norm_nfc : ∀ s, d06_nfc (d06_norm s) = true := by
  intro s
  unfold d06_norm d06_nfc
  split
  · decide
  · rename_i h; simpa using h

/-- struct { Name string `cty:"name"`; skip int; Tags []string `cty:"tags"`; Raw *cty.Value `cty:"raw"` } -/
def d06_g : GoVal :=
  .struct ["name", "", "tags", "raw"]
    [.str "é", .int 3, .slice [.str "a", .str "b"], .ptr (.cval ⟨.tuple [.bool], .seq [.marked ["m"] (.b true)]⟩)]
def d06_ty : Ty := .object ["name", "raw", "tags"] [.string, .dyn, .list .string] [false, false, false]

example : goOk d06_nfc d06_g = true := by decide
example : d06_ty.ok d06_nfc = true := by decide
/-- the conversion succeeds (the theorem is not vacuous on this instance) … -/
example : (toCty d06_norm d06_g d06_ty).isOk = true := by decide
/-- … and its result is well-formed, by the theorem -/
example (v : Value) (h : toCty d06_norm d06_g d06_ty = .ok v) : v.WF d06_nfc = true :=
  d06_toCtyValue_wf d06_norm_nfc d06_g d06_ty v h (by decide) (by decide)
end D06Thm
end CtyModel

