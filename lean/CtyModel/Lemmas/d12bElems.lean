/-
C12 / d12b: known collections with unknown MEMBERS.  A weakening that is known at the top has the shape
of the value it weakens; `ElementIterator` over it yields, position by position, weakenings of the
concrete elements (lists, maps, tuples, objects — not sets, whose iteration order depends on the
members), and the constructors `cty.ListVal` / `cty.TupleVal` carry that through to the result.
-/
import CtyModel.Lemmas.d12bCoalesce2
namespace CtyModel
namespace D12b
open Fn Stdlib C12L Cov

/-- two slices of values agree in their types and the first admits the second payload by payload
(`ex`: known numbers identical / equal in value) -/
def CovVals (ex : Bool) (ws os : List Value) : Prop :=
  Gocty.tysOf ws = Gocty.tysOf os ∧ coversL ex (Gocty.payloads ws) (Gocty.payloads os) = true

theorem payloads_map_mk (e : Ty) : ∀ (vs : List Payload), Gocty.payloads (vs.map (⟨e, ·⟩)) = vs
  | [] => rfl
  | v :: vs => by simp [Gocty.payloads, payloads_map_mk e vs]

theorem tysOf_map_mk (e : Ty) : ∀ (vs : List Payload), Gocty.tysOf (vs.map (⟨e, ·⟩)) = List.replicate vs.length e
  | [] => rfl
  | v :: vs => by simp [Gocty.tysOf, tysOf_map_mk e vs, List.replicate_succ]

theorem covVals_zipTV {ex : Bool} : ∀ (ts : List Ty) (ws vs : List Payload), coversL ex ws vs = true →
    CovVals ex (zipTV ts ws) (zipTV ts vs)
  | [], ws, vs, _ => by
    cases ws <;> cases vs <;> simp [zipTV, CovVals, Gocty.tysOf, Gocty.payloads, coversL]
  | t :: ts, [], vs, h => by
    cases vs <;> simp [coversL] at h
    simp [zipTV, CovVals, Gocty.tysOf, Gocty.payloads, coversL]
  | t :: ts, w :: ws, [], h => by simp [coversL] at h
  | t :: ts, w :: ws, v :: vs, h => by
    simp only [coversL, Bool.and_eq_true] at h
    obtain ⟨h1, h2⟩ := covVals_zipTV ts ws vs h.2
    simp only [zipTV, CovVals, Gocty.tysOf, Gocty.payloads, coversL, h.1, h2, Bool.and_self, h1, and_self]

/-- `ElementIterator` over a weakening that is known at the top (not a set) -/
theorem elems_cov (E : Env) {w o : Value} (hmw : w.containsMarked = false) (hmo : o.containsMarked = false)
    (hty : w.ty = o.ty) (hc : CoversX w o = true) (hk : w.isKnown = true) (hset : isSetTy o.ty = false)
    {eo : List Value} (h : elems E o = .ok eo) : ∃ ew, elems E w = .ok ew ∧ CovVals true ew eo := by
  obtain ⟨wt, wp⟩ := w
  obtain ⟨ot, op⟩ := o
  simp only at hty
  subst hty
  simp only [CoversX, CoversG, Bool.and_eq_true] at hc
  have h1 := stripMarks_clean' wp hmw
  have h2 := stripMarks_clean' op hmo
  simp only [h1, h2] at hc
  have hc2 := hc.2
  unfold elems at h ⊢
  cases op with
  | seq vs =>
    cases wp <;> simp [coversP, Value.isKnown, Payload.isKnown, Payload.unmark1, Value.containsMarked,
      Payload.containsMarked] at hc2 hk hmw
    rename_i ws
    cases wt <;> simp at h ⊢
    · subst h
      refine ⟨?_, ?_⟩
      · rw [tysOf_map_mk, tysOf_map_mk, coversL_length hc2]
      · rw [payloads_map_mk, payloads_map_mk]; exact hc2
    · subst h
      exact covVals_zipTV _ ws vs hc2
  | smap ks vs =>
    cases wp <;> simp [coversP, Value.isKnown, Payload.isKnown, Payload.unmark1, Value.containsMarked,
      Payload.containsMarked] at hc2 hk hmw
    rename_i ks' ws
    cases wt <;> simp at h ⊢
    · subst h
      refine ⟨?_, ?_⟩
      · rw [tysOf_map_mk, tysOf_map_mk, coversL_length hc2.2]
      · rw [payloads_map_mk, payloads_map_mk]; exact hc2.2
    · subst h
      exact covVals_zipTV _ ws vs hc2.2
  | sset ids vs =>
    cases wt <;> simp at h
    simp [isSetTy] at hset
  | _ => simp at h

theorem elemTypeOf_tys : ∀ (ws os : List Value) (acc : Ty), Gocty.tysOf ws = Gocty.tysOf os →
    Gocty.elemTypeOf acc ws = Gocty.elemTypeOf acc os
  | [], [], _, _ => rfl
  | [], _ :: _, _, h => by simp [Gocty.tysOf] at h
  | _ :: _, [], _, h => by simp [Gocty.tysOf] at h
  | w :: ws, o :: os, acc, h => by
    simp only [Gocty.tysOf, List.cons.injEq] at h
    simp only [Gocty.elemTypeOf, h.1]
    split
    · exact elemTypeOf_tys ws os _ h.2
    · split
      · rfl
      · exact elemTypeOf_tys ws os _ h.2

theorem tysOf_length : ∀ (ws : List Value), (Gocty.tysOf ws).length = ws.length
  | [] => rfl
  | _ :: ws => by simp [Gocty.tysOf, tysOf_length ws]

theorem containsMarkedL_iff : ∀ (ps : List Payload), Payload.containsMarkedL ps = false ↔ ∀ p ∈ ps, p.containsMarked = false
  | [] => by simp [Payload.containsMarkedL]
  | p :: ps => by simp [Payload.containsMarkedL, containsMarkedL_iff ps]

/-- every member payload is mark-free -/
def CleanVals (ws : List Value) : Prop := ∀ p ∈ Gocty.payloads ws, p.containsMarked = false

theorem payloads_clean (ws : List Value) (h : CleanVals ws) : Payload.containsMarkedL (Gocty.payloads ws) = false :=
  (containsMarkedL_iff _).mpr h

theorem stripMarksL_clean (ps : List Payload) (h : Payload.containsMarkedL ps = false) : Payload.stripMarksL ps = ps := by
  have := stripMarks_clean' (.seq ps) (by simpa [Payload.containsMarked] using h)
  simpa [Payload.stripMarks] using this

/-- a sequence value built from covered members (same type) covers -/
theorem covers_seq_of {ex : Bool} (t : Ty) {pw po : List Payload} (hw : Payload.containsMarkedL pw = false)
    (ho : Payload.containsMarkedL po = false) (h : coversL ex pw po = true) :
    Covers ⟨t, .seq pw⟩ ⟨t, .seq po⟩ = true := by
  simp only [Covers, CoversG, Ty.matches_refl, Bool.true_and, Payload.stripMarks, stripMarksL_clean _ hw,
    stripMarksL_clean _ ho, coversP]
  cases ex
  · exact h
  · exact coversL_mono _ _ h

theorem listVal_cov {ex : Bool} {ws os : List Value} (hmw : CleanVals ws)
    (hmo : CleanVals os) (hc : CovVals ex ws os) {r : Value}
    (h : Gocty.listVal os = .ok r) : ∃ r', Gocty.listVal ws = .ok r' ∧ r'.ty = r.ty ∧ Covers r' r = true := by
  unfold Gocty.listVal at h ⊢
  have hl : ws.length = os.length := by rw [← tysOf_length ws, ← tysOf_length os, hc.1]
  have he : ws.isEmpty = os.isEmpty := by cases ws <;> cases os <;> simp_all
  rw [he, elemTypeOf_tys ws os _ hc.1]
  split at h
  · cases h
  · rename_i hne
    simp only [hne, if_false]
    cases hel : Gocty.elemTypeOf .dyn os with
    | ok et =>
      rw [hel] at h
      simp only [Res.ok.injEq] at h ⊢
      subst h
      exact ⟨_, rfl, rfl, covers_seq_of _ (payloads_clean ws hmw) (payloads_clean os hmo) hc.2⟩
    | err c => rw [hel] at h; cases h
    | panic c => rw [hel] at h; cases h
    | unmodelled => rw [hel] at h; cases h

theorem tupleVal_cov {ex : Bool} {ws os : List Value} (hmw : CleanVals ws)
    (hmo : CleanVals os) (hc : CovVals ex ws os) :
    (Gocty.tupleVal ws).ty = (Gocty.tupleVal os).ty ∧ Covers (Gocty.tupleVal ws) (Gocty.tupleVal os) = true := by
  unfold Gocty.tupleVal
  rw [hc.1]
  exact ⟨rfl, covers_seq_of _ (payloads_clean ws hmw) (payloads_clean os hmo) hc.2⟩

/-! ### reversal -/

theorem coversL_append {ex : Bool} : ∀ (as cs as' cs' : List Payload), coversL ex as cs = true → coversL ex as' cs' = true →
    coversL ex (as ++ as') (cs ++ cs') = true
  | [], cs, as', cs', h, h' => by cases cs <;> simp_all [coversL]
  | a :: as, [], _, _, h, _ => by simp [coversL] at h
  | a :: as, c :: cs, as', cs', h, h' => by
    simp only [coversL, Bool.and_eq_true, List.cons_append] at h ⊢
    exact ⟨h.1, coversL_append as cs as' cs' h.2 h'⟩

theorem coversL_reverse {ex : Bool} : ∀ (as cs : List Payload), coversL ex as cs = true →
    coversL ex as.reverse cs.reverse = true
  | [], cs, h => by cases cs <;> simp_all [coversL]
  | a :: as, [], h => by simp [coversL] at h
  | a :: as, c :: cs, h => by
    simp only [coversL, Bool.and_eq_true] at h
    simp only [List.reverse_cons]
    exact coversL_append _ _ _ _ (coversL_reverse as cs h.2) (by simp [coversL, h.1])

theorem tysOf_eq_map (ws : List Value) : Gocty.tysOf ws = ws.map (·.ty) := by
  induction ws with
  | nil => rfl
  | cons w ws ih => simp [Gocty.tysOf, ih]

theorem payloads_eq_map (ws : List Value) : Gocty.payloads ws = ws.map (·.v) := by
  induction ws with
  | nil => rfl
  | cons w ws ih => simp [Gocty.payloads, ih]

theorem covVals_reverse {ex : Bool} {ws os : List Value} (h : CovVals ex ws os) : CovVals ex ws.reverse os.reverse := by
  obtain ⟨h1, h2⟩ := h
  constructor
  · rw [tysOf_eq_map, tysOf_eq_map, List.map_reverse, List.map_reverse, ← tysOf_eq_map, ← tysOf_eq_map, h1]
  · rw [payloads_eq_map, payloads_eq_map, List.map_reverse, List.map_reverse, ← payloads_eq_map, ← payloads_eq_map]
    exact coversL_reverse _ _ h2

theorem reverseLoop_eq : ∀ (l out : List Value), Stdlib.reverseLoop l out = l.reverse ++ out
  | [], out => rfl
  | v :: l, out => by simp [Stdlib.reverseLoop, reverseLoop_eq l (v :: out)]

theorem cleanVals_reverse {ws : List Value} (h : CleanVals ws) : CleanVals ws.reverse := by
  intro p hp
  rw [payloads_eq_map, List.map_reverse, List.mem_reverse, ← payloads_eq_map] at hp
  exact h p hp

theorem payloads_zipTV_sub : ∀ (ts : List Ty) (vs : List Payload), ∀ p ∈ Gocty.payloads (zipTV ts vs), p ∈ vs
  | [], vs, p, hp => by cases vs <;> simp [zipTV, Gocty.payloads] at hp
  | t :: ts, [], p, hp => by simp [zipTV, Gocty.payloads] at hp
  | t :: ts, v :: vs, p, hp => by
    simp only [zipTV, Gocty.payloads, List.mem_cons] at hp ⊢
    rcases hp with h | h
    · exact Or.inl h
    · exact Or.inr (payloads_zipTV_sub ts vs p h)

/-- what `ElementIterator` yields over a mark-free collection (not a set) is mark-free -/
theorem elems_clean (E : Env) {v : Value} (hm : v.containsMarked = false) (hset : isSetTy v.ty = false)
    {es : List Value} (h : elems E v = .ok es) : CleanVals es := by
  obtain ⟨t, p⟩ := v
  unfold elems at h
  cases p with
  | seq vs =>
    have hvs : ∀ q ∈ vs, q.containsMarked = false :=
      (containsMarkedL_iff vs).mp (by simpa [Value.containsMarked, Payload.containsMarked] using hm)
    cases t <;> simp at h
    · subst h; intro q hq; rw [payloads_map_mk] at hq; exact hvs q hq
    · subst h; intro q hq; exact hvs q (payloads_zipTV_sub _ _ q hq)
  | smap ks vs =>
    have hvs : ∀ q ∈ vs, q.containsMarked = false :=
      (containsMarkedL_iff vs).mp (by simpa [Value.containsMarked, Payload.containsMarked] using hm)
    cases t <;> simp at h
    · subst h; intro q hq; rw [payloads_map_mk] at hq; exact hvs q hq
    · subst h; intro q hq; exact hvs q (payloads_zipTV_sub _ _ q hq)
  | sset ids vs =>
    cases t <;> simp at h
    simp [isSetTy] at hset
  | _ => simp at h

end D12b
end CtyModel
