/-
d14b — lemmas about the transliterated RFC 3339 parser.
-/
import CtyModel.Stdlib.d14bTimestamp
import CtyModel.Lemmas.d14bDuration
namespace CtyModel
namespace StdNum
namespace D14b
open Value

theorem parseUint_range {s : List Char} {lo hi x : Nat} (h : parseUint s lo hi = some x) : lo ≤ x ∧ x ≤ hi := by
  unfold parseUint at h
  split at h
  · split at h
    · simp at h
    · rename_i hr; injection h with h; subst h; omega
  · simp at h

theorem parseZone_range {rest : List Char} {off : Int} (h : parseZone rest = some off) : -86400 < off ∧ off < 86400 := by
  unfold parseZone at h
  split at h
  · injection h with h; subst h; omega
  · split at h
    · simp at h
    · simp only [Option.bind_eq_bind] at h
      cases hhr : parseUint (sub2 rest 1) 0 23 with
      | none => simp [hhr] at h
      | some hr =>
      cases hmm : parseUint (sub2 rest 4) 0 59 with
      | none => simp [hhr, hmm] at h
      | some mm =>
      have r7 := parseUint_range hhr
      have r8 := parseUint_range hmm
      simp only [hhr, hmm, Option.bind_some] at h
      split at h
      · simp at h
      · injection h with h; subst h
        split <;> omega

/-- every field of an accepted timestamp is in its calendar range -/
theorem goParseRFC3339_ranges {s : List Char} {t : Time} (h : goParseRFC3339 s = some t) :
    t.year ≤ 9999 ∧ 1 ≤ t.month ∧ t.month ≤ 12 ∧ 1 ≤ t.day ∧ t.day ≤ daysIn t.month t.year ∧
    t.hour ≤ 23 ∧ t.minute ≤ 59 ∧ t.second ≤ 59 ∧ t.weekday = weekdayOf t.year t.month t.day ∧
    -86400 < t.offset ∧ t.offset < 86400 := by
  unfold goParseRFC3339 at h
  split at h
  · simp at h
  · simp only [Option.bind_eq_bind] at h
    cases hy : parseUint (s.take 4) 0 9999 with
    | none => simp [hy] at h
    | some year =>
    cases hmo : parseUint (sub2 s 5) 1 12 with
    | none => simp [hy, hmo] at h
    | some month =>
    cases hd : parseUint (sub2 s 8) 1 (daysIn month year) with
    | none => simp [hy, hmo, hd] at h
    | some day =>
    cases hh : parseUint (sub2 s 11) 0 23 with
    | none => simp [hy, hmo, hh] at h
    | some hour =>
    cases hmi : parseUint (sub2 s 14) 0 59 with
    | none => simp [hy, hmo, hh, hmi] at h
    | some mi =>
    cases hs : parseUint (sub2 s 17) 0 59 with
    | none => simp [hy, hmo, hh, hmi, hs] at h
    | some sec =>
    have r1 := parseUint_range hy
    have r2 := parseUint_range hmo
    have r3 := parseUint_range hd
    have r4 := parseUint_range hh
    have r5 := parseUint_range hmi
    have r6 := parseUint_range hs
    simp only [hy, hmo, hd, hh, hmi, hs, Option.bind_some] at h
    split at h
    · simp at h
    · cases hz : parseZone (skipFraction (s.drop 19)) with
      | none => simp [hz] at h
      | some off =>
        have r7 := parseZone_range hz
        simp only [hz, Option.bind_some] at h
        injection h with h; subst h
        simp only
        exact ⟨by omega, by omega, by omega, by omega, by omega, by omega, by omega, by omega, trivial, by omega, by omega⟩

/-- through `refLibTs` nothing of `formatdate` is recorded from a library but NFC -/
theorem formatDateImpl_only_nfc (L L' : Lib) (h : L.nfc = L'.nfc) (args : List Value) :
    formatDateImpl (refLibTs L) args = formatDateImpl (refLibTs L') args := by
  simp [formatDateImpl, refLibTs, refLibDur, h]

end D14b
end StdNum
end CtyModel
