/-
C20 — every step keeps the state invariant; hence, for every history from the empty
state that respects the DOCUMENTED ownership rules: every value is made of
library-owned storage, and the receiver of every mutating helper-set method is a
helper set in order (the remaining hypotheses of the frame theorems hold by themselves).
-/
import CtyModel.Lemmas.HeapInvE
import CtyModel.Lemmas.d20InvOps
namespace CtyModel
namespace Heap

theorem stepApi_inv {st st' : St} {c : Api} (hi : Inv st) (hd : docRespectful st (.api c) = true)
    (h : stepApi st c = some st') : Inv st' := by
  cases c with
  | numberVal g => exact inv_numberVal hi hd h
  | numberIntVal n => exact inv_numberIntVal hi h
  | stringVal s => exact inv_scalars hi (.inl ⟨s, rfl⟩) h
  | boolVal b => exact inv_scalars hi (.inr (.inl ⟨b, rfl⟩)) h
  | nullVal t => exact inv_scalars hi (.inr (.inr (.inl ⟨t, rfl⟩))) h
  | unknownVal t r => exact inv_scalars hi (.inr (.inr (.inr ⟨t, r, rfl⟩))) h
  | listVal g => exact inv_listVal hi h
  | tupleVal g => exact inv_tupleVal hi h
  | objectVal g => exact inv_objectVal hi h
  | mapVal g => exact inv_mapVal hi h
  | setVal g hs => exact inv_setVal hi h
  | setValFromValueSet g => exact inv_setValFromValueSet hi h
  | asBigFloat v => exact inv_asBigFloat hi h
  | asValueSlice v perm => exact inv_asValueSlice hi h
  | asValueMap v => exact inv_asValueMap hi h
  | asValueSet v hs => exact inv_asValueSet hi h
  | elements v perm => exact inv_elements hi h
  | lengthInt v => exact inv_lengthInt hi h
  | getAttr v name => exact inv_getAttr hi h
  | index v k => exact inv_index hi h
  | marks v => exact inv_marks hi h
  | unmark v => exact inv_unmark hi h
  | mark v mk => exact inv_mark hi h
  | withMarks v g => exact inv_withMarks hi h
  | withSameMarks v w => exact inv_withSameMarks hi h
  | opAdd v w => exact inv_ops hi (.inl ⟨v, w, rfl⟩) h
  | opNegate v => exact inv_ops hi (.inr (.inl ⟨v, rfl⟩)) h
  | opEquals v w => exact inv_ops hi (.inr (.inr (.inl ⟨v, w, rfl⟩))) h
  | opLength v => exact inv_ops hi (.inr (.inr (.inr ⟨v, rfl⟩))) h
  | newValueSet t => exact inv_newValueSet hi h
  | vsAdd g v hh => exact inv_vsAdd hi h
  | vsRemove g v hh => exact inv_vsRemove hi h
  | vsHas g v hh => exact inv_outs hi (.inl ⟨g, v, hh, rfl⟩) h
  | vsCopy g => exact inv_vsCopy hi h
  | vsValues g perm => exact inv_vsValues hi h
  | vsLength g => exact inv_outs hi (.inr (.inl ⟨g, rfl⟩)) h
  | tupleType g => exact inv_tupleType hi hd h
  | tupleElementTypes v => exact inv_tupleElementTypes hi h
  | objectType g => exact inv_objectType hi h
  | attributeTypes v => exact inv_attributeTypes hi h
  | pathIndex g v => exact inv_paths hi (.inl ⟨g, v, rfl⟩) h
  | pathGetAttr g n => exact inv_paths hi (.inr (.inl ⟨g, n, rfl⟩)) h
  | pathCopy g => exact inv_paths hi (.inr (.inr ⟨g, rfl⟩)) h
  | newPathSet => exact inv_newPathSet hi h
  | psAdd g p hh => exact inv_psAdd hi hd h
  | psHas g p hh => exact inv_outs hi (.inr (.inr ⟨g, p, hh, rfl⟩)) h
  | psRemove g p hh => exact inv_psRemove hi h
  | psAddAllSteps g p hs => exact inv_psAddAllSteps hi hd h
  | psList g perm => exact inv_psList hi h
  | walkBegin v => exact inv_walkBegin hi h
  | walkNext w => exact inv_walkNext hi h

theorem step_inv {st st' : St} {op : HeapOp} (hi : Inv st) (hd : docRespectful st op = true)
    (h : step st op = some st') : Inv st' := by
  cases op with
  | api c => exact stepApi_inv hi hd h
  | caller c => exact stepCaller_inv hi hd h

/-- a helper set the caller holds is in order -/
theorem setOwned_of_inv {m : Mem} (hok : HeapOK m) {a : Addr} {kvs : List (Key × Word)}
    (hm : m[a]? = some ⟨.helper, .gomap kvs⟩) : setOwned m a = true := by
  have hb : BucketsOf m a kvs := bucketsOf_of_ok hok hm rfl
  simp only [setOwned, Bool.and_eq_true, beq_iff_eq, kvsOf_eq hm, List.all_eq_true]
  refine ⟨by simp [ownerOf, hm], fun kv hkv => ?_⟩
  obtain ⟨arr, off, len, cap, cells, e, hma⟩ := hb kv hkv
  rw [e]
  simp [sliceOwned, ownerOf, hma]

theorem sliceOwned_of_pathOK {m : Mem} {p : Word} (h : PathOK m p) : sliceOwned m .scratch p = true := by
  rcases h with h | ⟨arr, off, len, cap, cells, e, hm⟩
  · subst h; rfl
  · subst e; simp [sliceOwned, ownerOf, hm]

/-- **the receivers are in order**: in a state that satisfies the invariant, a step
that respects the documented ownership rules is `respectful` -/
theorem receivers_in_order {st : St} {op : HeapOp} (hi : Inv st) (hd : docRespectful st op = true) :
    respectful st op = true := by
  cases op with
  | caller c => exact hd
  | api c =>
    cases c
    all_goals (try rfl)
    all_goals (try exact hd)
    case vsAdd g v hh =>
      simp only [respectful]
      split
      · rename_i ety a hg
        obtain ⟨_, kvs, hm⟩ := go_ok hi hg
        exact setOwned_of_inv hi.heap hm
      · rfl
    case vsRemove g v hh =>
      simp only [respectful]
      split
      · rename_i ety a hg
        obtain ⟨_, kvs, hm⟩ := go_ok hi hg
        exact setOwned_of_inv hi.heap hm
      · rfl
    case psRemove g p hh =>
      simp only [respectful]
      split
      · rename_i a hg
        obtain ⟨kvs, hm⟩ := go_ok hi hg
        exact setOwned_of_inv hi.heap hm
      · rfl
    case psAddAllSteps g p hz =>
      simp only [respectful, Bool.and_eq_true]
      refine ⟨?_, hd⟩
      split
      · rename_i a hg
        obtain ⟨kvs, hm⟩ := go_ok hi hg
        exact setOwned_of_inv hi.heap hm
      · rfl
    case psAdd g p hh =>
      simp only [respectful, Bool.and_eq_true]
      refine ⟨?_, hd⟩
      split
      · rename_i a hg
        obtain ⟨kvs, hm⟩ := go_ok hi hg
        exact setOwned_of_inv hi.heap hm
      · rfl
    case walkNext w =>
      simp only [respectful]
      split
      · rename_i wk hwk
        have hw := hi.wks wk (List.mem_of_getElem? hwk)
        simp only [walkerOwned, Bool.and_eq_true, List.all_eq_true]
        constructor
        · split
          · rename_i p n hpn
            exact sliceOwned_of_pathOK (hw.1 p n hpn).1
          · rfl
        · exact fun fr hfr => sliceOwned_of_pathOK (hw.2 fr hfr).1
      · rfl

/-- **all histories** from a state in order -/
theorem run_inv : ∀ (ops : List HeapOp) (st : St), Inv st → docRespectfulRun st ops = true →
    Inv (run st ops) ∧ respectfulRun st ops = true := by
  intro ops
  induction ops with
  | nil => intro st hi _; exact ⟨hi, rfl⟩
  | cons op ops ih =>
    intro st hi hd
    simp only [docRespectfulRun, Bool.and_eq_true] at hd
    simp only [run, respectfulRun, Bool.and_eq_true]
    have hr := receivers_in_order hi hd.1
    cases hs : step st op with
    | none =>
      simp only [hs, Option.getD_none] at hd ⊢
      obtain ⟨h1, h2⟩ := ih st hi hd.2
      exact ⟨h1, hr, h2⟩
    | some st1 =>
      simp only [hs, Option.getD_some] at hd ⊢
      obtain ⟨h1, h2⟩ := ih st1 (step_inv hi hd.1 hs) hd.2
      exact ⟨h1, hr, h2⟩

/-- a ValueSet / PathSet register of a state in order is a helper set in order -/
theorem helperOK_of_inv {st : St} (hi : Inv st) {a : Addr} {kvs : List (Key × Word)}
    (hm : st.mem[a]? = some ⟨.helper, .gomap kvs⟩) (f : Nat) : helperOK f st.mem (.set a) = true := by
  have hb : BucketsOf st.mem a kvs := bucketsOf_of_ok hi.heap hm rfl
  refine helperOK_iff.mpr ⟨kvs, hm, List.all_eq_true.mpr fun kv hkv => ?_⟩
  obtain ⟨arr, off, len, cap, cells, e, hma⟩ := hb kv hkv
  exact bucketOK_iff.mpr ⟨arr, off, len, cap, cells, e, hma,
    List.all_eq_true.mpr fun c hc => hi.heap arr _ hma c hc f⟩

theorem run_append (st : St) (a b : List HeapOp) : run st (a ++ b) = run (run st a) b := by
  induction a generalizing st with
  | nil => rfl
  | cons op a ih => simp only [List.cons_append, run]; exact ih _

theorem docRespectfulRun_append (st : St) (a b : List HeapOp) :
    docRespectfulRun st (a ++ b) = (docRespectfulRun st a && docRespectfulRun (run st a) b) := by
  induction a generalizing st with
  | nil => simp [docRespectfulRun, run]
  | cons op a ih => simp only [List.cons_append, docRespectfulRun, run, ih, Bool.and_assoc]

end Heap
end CtyModel
