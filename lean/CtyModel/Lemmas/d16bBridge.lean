/-
C16 (second deepening, d16b) — the BRIDGE between the two hand-written decoders of an unknown-value extension
item: `Msgpack.unmarshal` (the C16 theorems' one: the known-length test is the separate scan `knownLenList`)
and `D17.unmarshal` (C17's: the loop carries `notNull, minLen, maxLen` as the Go code does; the regenerated
decoder is tied to this one by `Lemmas/d16bDecTie.lean`).  They answer the same up to the text of an error on
every extension item whose refinement stream holds no extension item where a numeric bound is read
(`boundPlain`, decidable; everything `marshalUnknownValue` writes is of that form: `rfnStream_plain`).
-/
import CtyModel.Lemmas.d16bDecTie
import CtyModel.Lemmas.MsgpackUnknown
set_option linter.unusedSimpArgs false
set_option linter.unusedVariables false
set_option linter.unusedSectionVars false
namespace CtyModel
namespace D16b
open Refine Msgpack MpUnknownFnsTie

def isExt : Item → Bool
  | .ext _ _ _ _ => true
  | _ => false

/-- no extension item where `[number, bool]` is read: not at the top, not as a member of the array -/
def boundPlain : Item → Bool
  | .ext _ _ _ _ => false
  | .arr xs => xs.all fun x => !isExt x
  | _ => true

def toSt (f : Bool × Int × Int) : D17.LenSt := ⟨f.1, f.2.1, f.2.2⟩

section
variable [O : EqOracle] (E : Ext)

theorem num_eq {x : Item} (h : isExt x = false) : Msgpack.unmarshal E x .number = D17.unmarshal E x .number := by
  cases x <;> simp [isExt] at h <;> simp [Msgpack.unmarshal, D17.unmarshal]

theorem bool_eq {x : Item} (h : isExt x = false) : Msgpack.unmarshal E x .bool = D17.unmarshal E x .bool := by
  cases x <;> simp [isExt] at h <;> simp [Msgpack.unmarshal, D17.unmarshal]

theorem bound_eq {v : Item} (h : boundPlain v = true) : Msgpack.unmarshal E v boundTy = D17.unmarshal E v boundTy := by
  cases v with
  | ext c l hd s => simp [boundPlain] at h
  | arr xs =>
    simp only [Msgpack.unmarshal, D17.unmarshal, boundTy]
    by_cases hl : xs.length = 2
    · obtain ⟨x, y, rfl⟩ := len_two hl
      simp [boundPlain] at h
      simp [Msgpack.unmarshalZip, D17.unmarshalZip, num_eq E h.1, bool_eq E h.2]
      cases D17.unmarshal E x .number <;> cases D17.unmarshal E y .bool <;> rfl
    · simp [hl]
  | _ => simp [Msgpack.unmarshal, D17.unmarshal, boundTy]

macro "br_simp" "[" ts:Lean.Parser.Tactic.simpLemma,* "]" : tactic => `(tactic|
    simp [$ts,*, *, lenFacts, Res.map, toSt, keyNullness, keyStringPrefix, keyNumberMin, keyNumberMax, keyLengthMin,
      keyLengthMax, D17.LenSt.bound])

set_option maxHeartbeats 4000000 in
/-- the two loops: same builder, and the three variables are what the scan `lenFacts` computes -/
theorem rfnLoop_bridge (ty : Ty) : ∀ (n : Nat) (stream : List Item) (b : Builder) (nn : Bool) (mn mx : Int),
    (∀ v ∈ stream, boundPlain v = true) →
    D17.rfnLoop E ty n stream b ⟨nn, mn, mx⟩ =
      (Msgpack.rfnLoop E ty n stream b).map fun b' => (b', toSt (lenFacts n stream (nn, mn, mx))) := by
  intro n
  induction n with
  | zero => intro stream b nn mn mx _; cases stream <;> simp [D17.rfnLoop, Msgpack.rfnLoop, lenFacts, Res.map, toSt]
  | succ n ih =>
    intro stream b nn mn mx hp
    cases stream with
    | nil => simp [D17.rfnLoop, Msgpack.rfnLoop, Res.map]
    | cons k rest =>
      rw [D17.rfnLoop.eq_def, Msgpack.rfnLoop.eq_def]; simp only []
      cases hk : decInt64 k with
      | none => simp [Res.map]
      | some key =>
        cases rest with
        | nil => simp only []; repeat' split
                 all_goals simp [Res.map]
        | cons v rest' =>
          have hrest : ∀ v ∈ rest', boundPlain v = true := fun w hw => hp w (by simp [hw])
          have hv : boundPlain v = true := hp v (by simp)
          have ih' : ∀ (b : Builder) (nn : Bool) (mn mx : Int), D17.rfnLoop E ty n rest' b ⟨nn, mn, mx⟩ =
              (Msgpack.rfnLoop E ty n rest' b).map fun b' => (b', toSt (lenFacts n rest' (nn, mn, mx))) :=
            fun b nn mn mx => ih rest' b nn mn mx hrest
          clear ih
          simp only [bound_eq E hv]
          by_cases h1 : key = 1
          · subst h1
            cases hb : decBool v with
            | none => br_simp [Res.map]
            | some isNull =>
              cases isNull
              · cases hs : Refine.step b .notNull <;> br_simp [ih']
              · cases hs : Refine.step b .null <;> br_simp [ih']
          · by_cases h2 : key = 2
            · subst h2
              cases hty : ty.isString
              · br_simp [Res.map]
              · cases hd : decString v with
                | ok s => cases hs : Refine.step b (.stringPrefixFull (E.norm s)) <;> br_simp [ih']
                | _ => br_simp [Res.map]
            · by_cases h5 : key = 5
              · subst h5
                cases hc : isCollection ty
                · br_simp [Res.map]
                · cases hd : decInt64 v with
                  | none => br_simp [Res.map]
                  | some bound =>
                    cases hs : Refine.step b (.lenLower bound) <;> br_simp [ih']
                    by_cases hg : bound > mn <;> simp [hg, ih', toSt]
              · by_cases h6 : key = 6
                · subst h6
                  cases hc : isCollection ty
                  · br_simp [Res.map]
                  · cases hd : decInt64 v with
                    | none => br_simp [Res.map]
                    | some bound =>
                      cases hs : Refine.step b (.lenUpper bound) <;> br_simp [ih']
                      by_cases hg : bound < mx <;> simp [hg, ih', toSt]
                · by_cases h34 : key = 3 ∨ key = 4
                  · have hl : lenFacts (n + 1) (k :: v :: rest') (nn, mn, mx) = lenFacts n rest' (nn, mn, mx) := by
                      rcases h34 with rfl | rfl <;> br_simp [Res.map]
                    rw [hl]
                    rcases h34 with rfl | rfl
                    all_goals (
                      cases hty : ty.isNumber
                      · br_simp [Res.map]
                      · cases hu : D17.unmarshal E v boundTy with
                        | ok raw =>
                          rcases bound_shape E hu with hn | ⟨r, hr⟩ | ⟨pa, pb, hraw, hpa, hpb⟩
                          · obtain ⟨t, p⟩ := raw
                            simp at hn; subst hn
                            br_simp [Res.map, Value.isNull, Value.isKnown, Payload.isNull, Payload.isKnown, Payload.unmark1]
                          · obtain ⟨t, p⟩ := raw
                            simp at hr; subst hr
                            br_simp [Res.map, Value.isNull, Value.isKnown, Payload.isNull, Payload.isKnown, Payload.unmark1]
                          · subst hraw
                            cases pa <;> simp [numP] at hpa <;> cases pb <;> simp [boolP] at hpb <;>
                              br_simp [Res.map, Value.isNull, Value.isKnown, Payload.isNull, Payload.isKnown, Payload.unmark1]
                            all_goals (rename_i x t; first
                              | (cases hs : Refine.step b (.numLower (.known x) t) <;> br_simp [ih', Res.map])
                              | (cases hs : Refine.step b (.numUpper (.known x) t) <;> br_simp [ih', Res.map]))
                        | _ => br_simp [Res.map])
                  · have h3 : key ≠ 3 := fun h => h34 (Or.inl h)
                    have h4 : key ≠ 4 := fun h => h34 (Or.inr h)
                    br_simp [ih']


theorem isListTy_eq (ty : Ty) : D17.isListTy ty = Msgpack.isListTy ty := by cases ty <;> rfl

theorem er_recoverErr_congr {x y : Res Value} (h : er x = er y) : er (recoverErr x) = er (recoverErr y) := by
  cases x <;> cases y <;> simp [er, recoverErr] at h ⊢
  exact h

/-- the two hand-written decoders on an extension item whose stream is `boundPlain`: same answer up to error text -/
theorem ext_bridge (code : Int) (len : Nat) (hdr : ExtHdr) (stream : List Item) (ty : Ty)
    (hp : ∀ v ∈ stream, boundPlain v = true) :
    er (D17.unmarshal E (.ext code len hdr stream) ty) = er (Msgpack.unmarshal E (.ext code len hdr stream) ty) := by
  simp only [D17.unmarshal, Msgpack.unmarshal]
  apply er_recoverErr_congr
  by_cases hl : len ≤ 1
  · simp [hl]
  · by_cases hc : code = unknownWithRefinementsExt
    · by_cases hb : len > maxExtLen
      · simp [hl, hc, hb]
      · cases hdr with
        | map n =>
          cases hd : ty.isDyn
          · simp only [hl, hc, hb, hd, if_false, ne_eq, not_true_eq_false, Bool.false_eq_true]
            cases hi : Refine.init (Value.unknown ty) with
            | ok b0 =>
              simp only [Res.bind]
              have h0 : D17.lenSt0 = ⟨false, 0, Refine.maxInt⟩ := rfl
              rw [h0, rfnLoop_bridge E ty n stream b0 false 0 Refine.maxInt hp]
              cases hr : Msgpack.rfnLoop E ty n stream b0 with
              | ok b1 =>
                have hk : ((toSt (lenFacts n stream (false, 0, Refine.maxInt))).notNull && D17.isListTy ty &&
                    (toSt (lenFacts n stream (false, 0, Refine.maxInt))).minLen == (toSt (lenFacts n stream (false, 0, Refine.maxInt))).maxLen &&
                    decide ((toSt (lenFacts n stream (false, 0, Refine.maxInt))).minLen > 0)) = knownLenList ty n stream := by
                  rw [isListTy_eq]; rfl
                simp only [Res.map, hk]
                cases knownLenList ty n stream <;> simp [er]
              | _ => simp [Res.map, er]
            | _ => simp [Res.bind]
          · simp [hl, hc, hb, hd]
        | _ => simp [hl, hc, hb]
    · simp [hl, hc]

end

/-! ### everything `marshalUnknownValue` writes is an extension item with a `boundPlain` stream -/

theorem encInt_plain (i : Int) : boundPlain (encInt i) = true ∧ isExt (encInt i) = false := by
  unfold encInt
  repeat' split
  all_goals exact ⟨rfl, rfl⟩

theorem encNum_notExt (x : Num) : isExt (encNum x) = false := by
  unfold encNum
  split <;> first | rfl | exact (encInt_plain _).2

theorem encInt_bp (i : Int) : boundPlain (encInt i) = true := (encInt_plain i).1

@[simp] theorem bp_int (i : Int) : boundPlain (.int i) = true := rfl
@[simp] theorem bp_bool (i : Bool) : boundPlain (.bool i) = true := rfl
@[simp] theorem bp_str (i : String) : boundPlain (.str i) = true := rfl
theorem bp_bound (x : Num) (i : Bool) : boundPlain (.arr [encNum x, .bool i]) = true := by
  simp only [boundPlain, List.all_cons, List.all_nil, encNum_notExt]; rfl

theorem boundEntry_all (k : Int) (b : Option Bound) : (boundEntry k b).all boundPlain = true := by
  cases b <;> simp [boundEntry, bp_bound]

theorem rfnEntries_all (E : Ext) (vt : Ty) (r : Rfn) (sp : List Item) (h : rfnEntries E vt r = .ok sp) :
    sp.all boundPlain = true := by
  unfold rfnEntries at h
  repeat' split at h
  all_goals first
    | (cases h; done)
    | (injection h with h; subst h; simp [List.all_append, boundEntry_all, encInt_bp])

theorem rfnEntries_plain (E : Ext) (vt : Ty) (r : Rfn) (sp : List Item) (h : rfnEntries E vt r = .ok sp) :
    ∀ v ∈ sp, boundPlain v = true := by
  have := rfnEntries_all E vt r sp h
  simpa [List.all_eq_true] using this

theorem marshalUnknown_ext (E : Ext) (vt : Ty) (r : Rfn) (it : Item) (h : marshalUnknown E vt r = .ok it) :
    ∃ code len hdr stream, it = .ext code len hdr stream ∧ ∀ v ∈ stream, boundPlain v = true := by
  unfold marshalUnknown at h
  split at h
  · injection h with h; subst h; exact ⟨_, _, _, _, rfl, by simp⟩
  · split at h
    · rename_i sp hsp
      have hsp' := rfnEntries_plain E vt r sp hsp
      have hnull : ∀ v ∈ (if r.nullness = .f then [Item.int keyNullness, .bool false] else []), boundPlain v = true := by
        split <;> simp
      generalize (if r.nullness = .f then [Item.int keyNullness, .bool false] else []) = pre at h hnull
      simp only at h
      split at h
      · injection h with h; subst h; exact ⟨_, _, _, _, rfl, by simp⟩
      · injection h with h; subst h
        refine ⟨_, _, _, _, rfl, ?_⟩
        intro v hv
        rcases List.mem_append.mp hv with hv | hv
        · exact hnull v hv
        · exact hsp' v hv
    all_goals cases h

theorem er_ok_inv {α} {x : Res α} {a : α} (h : er x = .ok a) : x = .ok a := by
  cases x <;> simp [er] at h ⊢
  exact h

/-- THE DECODER-SIDE TIE IN C16's TERMS: on anything the (hand-written = regenerated) encoder of unknown values
writes, what `Msgpack.unmarshal` answers with a value, the regenerated `unmarshalUnknownValue` answers too -/
theorem generated_decodes [O : EqOracle] (E : Ext) (vt ty : Ty) (r : Rfn) (it : Item) (v : Value)
    (hm : marshalUnknown E vt r = .ok it) (hu : Msgpack.unmarshal E it ty = .ok v) :
    toV (Generated.MpUnknownFns.unmarshalUnknownValue E (.atItem it) ty) = .ok v := by
  obtain ⟨code, len, hdr, stream, rfl, hp⟩ := marshalUnknown_ext E vt r it hm
  apply er_ok_inv
  rw [unmarshalUnknownValue_eq, ext_bridge E code len hdr stream ty hp, hu]
  rfl

end D16b
end CtyModel
