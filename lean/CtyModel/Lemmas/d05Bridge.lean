/-
C05, THE BRIDGE from the idealised number-equality oracle to the code's.

`Props/C05.lean` proves narrowing, exactness, rejection and the collapse rules for oracles
that are exact wherever they answer (`[ExactOracle]`); the code's `Value.Equals` on numbers is
`rawNumberEqual` (`textOracle`), for which the full statements fail.  This file says where the
two coincide and that, there, the whole builder behaves identically under both:

* `rawEqual_intLike` — on integers and infinities (any precisions) `rawNumberEqual` IS exact
  comparison: the decimal text is never consulted;
* `TextExactOn P` — "on numbers satisfying `P` the code's equality is exact" — the form in which the
  congruence lemmas take it, so that other classes of inputs can instantiate it (one fixed precision
  would need "math/big's shortest decimal text is injective at a fixed precision", which is not proved
  here; `intLike_textExact` is the instance that is);
* `step_congr` / `run_congr` / `newValue_congr` / `refine_congr` — two oracles that agree on `P`
  give the same outcome (value, panic, everything) on builders and calls whose numbers satisfy `P`;
  `step_numsOk` / `run_numsOk` — accepted calls keep the numbers of the builder inside `P`.

`idealOracle` is the total exact oracle (`some (cmp a b == 0)`), an `ExactOracle`.
-/
import CtyModel.Lemmas.RefineEnds
import CtyModel.Lemmas.RefineBase
import CtyModel.RefineIdeal
namespace CtyModel
namespace Refine
namespace D05
open NumCmp

/-! ## where `rawNumberEqual` is exact comparison -/

theorem beq_eq_icmp' (a b : Int) : (a == b) = ((if a < b then (-1:Int) else if a = b then 0 else 1) == 0) := by
  by_cases h1 : a < b
  · have : ¬ a = b := by omega
    simp [h1, this]
  · by_cases h2 : a = b <;> simp [h1, h2]

theorem beq_neg_icmp' (a b : Int) : (-a == -b) = ((if b < a then (-1:Int) else if a = b then 0 else 1) == 0) := by
  by_cases h1 : b < a
  · have : ¬ a = b := by omega
    have : ¬ (-a = -b) := by omega
    simp [*]
  · by_cases h2 : a = b
    · simp [h2]
    · have : ¬ (-a = -b) := by omega
      simp [h1, h2, this]

/-- two integers: `rawNumberEqual` compares `big.Int`s, which is exact -/
theorem rawEqual_int {x y : Num} (hx : x.isInt = true) (hy : y.isInt = true) :
    Num.rawEqual x y = (Num.cmp x y == 0) := by
  cases x with
  | inf _ => simp [Num.isInt] at hx
  | fin nx mx ex px =>
    cases y with
    | inf _ => simp [Num.isInt] at hy
    | fin ny my ey py =>
      simp only [Num.isInt, ge_iff_le, decide_eq_true_eq] at hx hy
      rw [cmp_eq_kcmp 0 _ _ (by simpa [below] using hx) (by simpa [below] using hy)]
      simp only [Num.rawEqual, Num.isInt, ge_iff_le, hx, hy, decide_true, bne_self_eq_false, Bool.false_eq_true,
        if_false, if_true, Num.truncInt, key, kcmp, Num.scaleTo, Int.sub_zero, Int.lt_irrefl, icmp, sgnm]
      have px : (0:Int) < 2 ^ ex.toNat := two_pow_pos _
      have py : (0:Int) < 2 ^ ey.toNat := two_pow_pos _
      have hvx : (mx = 0 → (mx:Int) * 2 ^ ex.toNat = 0) ∧ (mx ≠ 0 → 0 < (mx:Int) * 2 ^ ex.toNat) :=
        ⟨fun h => by simp [h], fun h => Int.mul_pos (by omega) px⟩
      have hvy : (my = 0 → (my:Int) * 2 ^ ey.toNat = 0) ∧ (my ≠ 0 → 0 < (my:Int) * 2 ^ ey.toNat) :=
        ⟨fun h => by simp [h], fun h => Int.mul_pos (by omega) py⟩
      cases nx <;> cases ny <;> simp only [Bool.false_eq_true, if_false, if_true, Int.neg_mul] <;>
        generalize (mx:Int) * 2 ^ ex.toNat = vx at hvx ⊢ <;>
        generalize (my:Int) * 2 ^ ey.toNat = vy at hvy ⊢ <;>
        by_cases hmx : mx = 0 <;> by_cases hmy : my = 0 <;>
        simp [Num.sign, hmx, hmy] <;>
        (first | (have := hvx.1 hmx) | (have := hvx.2 hmx)) <;>
        (first | (have := hvy.1 hmy) | (have := hvy.2 hmy)) <;>
        (try (split <;> (try split) <;> omega)) <;> (try omega) <;> (try exact beq_eq_icmp' _ _) <;>
        (try exact beq_neg_icmp' _ _)

/-- on integers and infinities of any precision the code's number equality is exact comparison -/
theorem rawEqual_intLike {a b : Num} (ha : intLike a = true) (hb : intLike b = true) :
    Num.rawEqual a b = (Num.cmp a b == 0) := by
  cases a with
  | inf na =>
    cases b with
    | inf nb => cases na <;> cases nb <;> decide
    | fin nb mb eb pb =>
      have hb' : eb ≥ 0 := by simpa [intLike] using hb
      have h1 : Num.rawEqual (.inf na) (.fin nb mb eb pb) = false := by
        simp only [Num.rawEqual, Num.isInt, hb', decide_true]
        split <;> simp
      rw [h1]
      cases na <;> simp [Num.cmp]
  | fin na ma ea pa =>
    have ha' : ea ≥ 0 := by simpa [intLike] using ha
    cases b with
    | inf nb =>
      have h1 : Num.rawEqual (.fin na ma ea pa) (.inf nb) = false := by
        simp only [Num.rawEqual, Num.isInt, ha', decide_true]
        split <;> simp
      rw [h1]
      cases nb <;> simp [Num.cmp]
    | fin nb mb eb pb =>
      have hb' : eb ≥ 0 := by simpa [intLike] using hb
      exact rawEqual_int (by simpa [Num.isInt] using ha') (by simpa [Num.isInt] using hb')

/-- "on numbers satisfying `P`, `rawNumberEqual` is exact comparison" -/
def TextExactOn (P : Num → Bool) : Prop :=
  ∀ a b, P a = true → P b = true → Num.rawEqual a b = (Num.cmp a b == 0)

theorem intLike_textExact : TextExactOn intLike := fun _ _ ha hb => rawEqual_intLike ha hb

/-! ## the total exact oracle -/

/-- … is an `ExactOracle` (not declared an instance: theorems name it) -/
@[instance_reducible] def exactIdealOracle : ExactOracle where
  toEqOracle := idealOracle
  exact := by
    intro a b t h
    change some (Num.cmp a b == 0) = some t at h
    simp only [Option.some.injEq] at h
    subst h
    simp

/-- two oracles give the same answers on numbers satisfying `P` -/
def AgreeOn (O1 O2 : EqOracle) (P : Num → Bool) : Prop :=
  ∀ a b, P a = true → P b = true → O1.eq a b = O2.eq a b

theorem agree_text_ideal {P : Num → Bool} (hP : TextExactOn P) : AgreeOn textOracle idealOracle P :=
  fun a b ha hb => by
    show some (Num.rawEqual a b) = some (Num.cmp a b == 0)
    rw [hP a b ha hb]

theorem agree_text_partial {P : Num → Bool} (hP : TextExactOn P)
    (hN : ∀ a b, P a = true → P b = true → needsText a b = false) : AgreeOn textOracle partialOracle P :=
  fun a b ha hb => by
    show some (Num.rawEqual a b) = numEqPartial a b
    simp only [numEqPartial, hN a b ha hb, hP a b ha hb, Bool.false_eq_true, if_false]

theorem intLike_needsText {a b : Num} (ha : intLike a = true) : needsText a b = false := by
  cases a with
  | inf _ => rfl
  | fin na ma ea pa =>
    have ha' : ea ≥ 0 := by simpa [intLike] using ha
    cases b with
    | inf _ => rfl
    | fin nb mb eb pb =>
      have : ¬ ea < 0 := by omega
      simp [needsText, this]

/-! ## the numbers a builder and a call carry -/

def boundOk (P : Num → Bool) : Option Bound → Bool
  | none => true
  | some w => P w.v

def rfnOk (P : Num → Bool) : Rfn → Bool
  | .num _ lo hi => boundOk P lo && boundOk P hi
  | _ => true

/-- the number a known receiver is (the only part of `orig` the oracle is asked about) -/
def origOk (P : Num → Bool) (v : Value) : Bool :=
  match v.v with
  | .n x => P x
  | _ => true

def builderOk (P : Num → Bool) (b : Builder) : Bool := origOk P b.orig && rfnOk P b.wip

def argOk (P : Num → Bool) : NumArg → Bool
  | .known m => P m
  | .negInf => P (.inf true)
  | .posInf => P (.inf false)
  | _ => true

def callOk (P : Num → Bool) : RefineCall → Bool
  | .numLower a _ => argOk P a
  | .numUpper a _ => argOk P a
  | .numRangeInclusive lo hi => argOk P lo && argOk P hi
  | _ => true

/-- the numbers of a value about to be refined: a known number, or the bounds it already carries -/
def valueOk (P : Num → Bool) (v : Value) : Bool :=
  match v.unmark.v with
  | .n x => P x
  | .unk r => rfnOk P r
  | _ => true

/-! ## congruence: agreeing oracles, same outcome -/

section Congr
variable {O1 O2 : EqOracle} {P : Num → Bool}

theorem numEq?_congr (hA : AgreeOn O1 O2 P) {a b : Num} (ha : P a = true) (hb : P b = true) :
    @numEq? O1 a b = @numEq? O2 a b := hA a b ha hb

theorem ge?_congr (hA : AgreeOn O1 O2 P) {a b : Num} (ha : P a = true) (hb : P b = true) :
    @ge? O1 a b = @ge? O2 a b := by
  unfold ge?; rw [numEq?_congr hA ha hb]

theorem le?_congr (hA : AgreeOn O1 O2 P) {a b : Num} (ha : P a = true) (hb : P b = true) :
    @le? O1 a b = @le? O2 a b := by
  unfold le?; rw [numEq?_congr hA ha hb]

theorem lowerTighter?_congr (hA : AgreeOn O1 O2 P) {m : Num} {incl : Bool} {lo : Option Bound}
    (hm : P m = true) (hlo : boundOk P lo = true) : @lowerTighter? O1 m incl lo = @lowerTighter? O2 m incl lo := by
  cases lo with
  | none => rfl
  | some w =>
    simp only [lowerTighter?]
    rw [ge?_congr hA hm hlo]

theorem upperTighter?_congr (hA : AgreeOn O1 O2 P) {m : Num} {incl : Bool} {hi : Option Bound}
    (hm : P m = true) (hhi : boundOk P hi = true) : @upperTighter? O1 m incl hi = @upperTighter? O2 m incl hi := by
  cases hi with
  | none => rfl
  | some w =>
    simp only [upperTighter?]
    rw [le?_congr hA hm hhi]

theorem consistent?_congr (hA : AgreeOn O1 O2 P) {lo hi : Option Bound}
    (hlo : boundOk P lo = true) (hhi : boundOk P hi = true) : @consistent? O1 lo hi = @consistent? O2 lo hi := by
  cases lo with
  | none => rfl
  | some l =>
    cases hi with
    | none => rfl
    | some h =>
      simp only [consistent?]
      rw [le?_congr hA hlo hhi]

theorem origRejectsLower_congr (hA : AgreeOn O1 O2 P) {orig : Value} {m : Num} {incl : Bool}
    (ho : origOk P orig = true) (hm : P m = true) :
    @origRejectsLower O1 orig m incl = @origRejectsLower O2 orig m incl := by
  unfold origRejectsLower
  cases hv : orig.v <;> try rfl
  rename_i x
  have hx : P x = true := by simpa [origOk, hv] using ho
  simp only
  rw [ge?_congr hA hm hx]

theorem origRejectsUpper_congr (hA : AgreeOn O1 O2 P) {orig : Value} {m : Num} {incl : Bool}
    (ho : origOk P orig = true) (hm : P m = true) :
    @origRejectsUpper O1 orig m incl = @origRejectsUpper O2 orig m incl := by
  unfold origRejectsUpper
  cases hv : orig.v <;> try rfl
  rename_i x
  have hx : P x = true := by simpa [origOk, hv] using ho
  simp only
  rw [le?_congr hA hm hx]

theorem boundOk_store {m : Num} {incl store : Bool} {lo : Option Bound} (hm : P m = true)
    (hlo : boundOk P lo = true) : boundOk P (if store then some ⟨m, incl⟩ else lo) = true := by
  cases store
  · simpa using hlo
  · simpa [boundOk] using hm

theorem lowerCore_congr (hA : AgreeOn O1 O2 P) {b : Builder} {n : Tri} {lo hi : Option Bound} {m : Num}
    {incl store : Bool} (ho : origOk P b.orig = true) (hlo : boundOk P lo = true) (hhi : boundOk P hi = true)
    (hm : P m = true) : @lowerCore O1 b n lo hi m incl store = @lowerCore O2 b n lo hi m incl store := by
  have h3 := consistent?_congr hA (boundOk_store (incl := incl) (store := store) hm hlo) hhi
  unfold lowerCore
  rw [origRejectsLower_congr hA ho hm, lowerTighter?_congr hA hm hlo]
  simp only [h3]

theorem upperCore_congr (hA : AgreeOn O1 O2 P) {b : Builder} {n : Tri} {lo hi : Option Bound} {m : Num}
    {incl store : Bool} (ho : origOk P b.orig = true) (hlo : boundOk P lo = true) (hhi : boundOk P hi = true)
    (hm : P m = true) : @upperCore O1 b n lo hi m incl store = @upperCore O2 b n lo hi m incl store := by
  have h3 := consistent?_congr hA hlo (boundOk_store (incl := incl) (store := store) hm hhi)
  unfold upperCore
  rw [origRejectsUpper_congr hA ho hm, upperTighter?_congr hA hm hhi]
  simp only [h3]

theorem stepNumLower_congr (hA : AgreeOn O1 O2 P) {b : Builder} {a : NumArg} {incl : Bool}
    (hb : builderOk P b = true) (ha : argOk P a = true) :
    @stepNumLower O1 b a incl = @stepNumLower O2 b a incl := by
  unfold stepNumLower
  simp only [builderOk, Bool.and_eq_true] at hb
  cases hw : b.wip <;> try rfl
  rename_i n lo hi
  have hr : boundOk P lo = true ∧ boundOk P hi = true := by simpa [rfnOk, hw] using hb.2
  cases a <;> try rfl
  all_goals exact lowerCore_congr hA hb.1 hr.1 hr.2 ha

theorem stepNumUpper_congr (hA : AgreeOn O1 O2 P) {b : Builder} {a : NumArg} {incl : Bool}
    (hb : builderOk P b = true) (ha : argOk P a = true) :
    @stepNumUpper O1 b a incl = @stepNumUpper O2 b a incl := by
  unfold stepNumUpper
  simp only [builderOk, Bool.and_eq_true] at hb
  cases hw : b.wip <;> try rfl
  rename_i n lo hi
  have hr : boundOk P lo = true ∧ boundOk P hi = true := by simpa [rfnOk, hw] using hb.2
  cases a <;> try rfl
  all_goals exact upperCore_congr hA hb.1 hr.1 hr.2 ha

end Congr

/-! ## accepted calls keep the builder's numbers inside `P` (any oracle) -/

theorem rfnOk_setNull {P : Num → Bool} (n : Tri) (r : Rfn) : rfnOk P (setNull n r) = rfnOk P r := by cases r <;> rfl

section Keep
variable [O : EqOracle] {P : Num → Bool}

theorem stepNumLower_numsOk {b b' : Builder} {a : NumArg} {incl : Bool} (h : stepNumLower b a incl = .ok b')
    (hb : builderOk P b = true) (ha : argOk P a = true) : builderOk P b' = true := by
  obtain ⟨n, lo, hi, hw, hcase⟩ := stepNumLower_ok h
  rcases hcase with ⟨_, rfl⟩ | ⟨m, hm, hcore⟩
  · exact hb
  · obtain ⟨_, hc⟩ := lowerCore_ok hcore
    rcases hc with ⟨rfl, _⟩ | ⟨_, rfl, _⟩
    · exact hb
    · simp only [builderOk, Bool.and_eq_true] at hb ⊢
      have hr : boundOk P lo = true ∧ boundOk P hi = true := by simpa [rfnOk, hw] using hb.2
      have hm' : P m = true := by cases a <;> simp_all [NumArg.num?, argOk]
      exact ⟨hb.1, by simp only [rfnOk, Bool.and_eq_true]; exact ⟨boundOk_store hm' hr.1, hr.2⟩⟩

theorem stepNumUpper_numsOk {b b' : Builder} {a : NumArg} {incl : Bool} (h : stepNumUpper b a incl = .ok b')
    (hb : builderOk P b = true) (ha : argOk P a = true) : builderOk P b' = true := by
  obtain ⟨n, lo, hi, hw, hcase⟩ := stepNumUpper_ok h
  rcases hcase with ⟨_, rfl⟩ | ⟨m, hm, hcore⟩
  · exact hb
  · obtain ⟨_, hc⟩ := upperCore_ok hcore
    rcases hc with ⟨rfl, _⟩ | ⟨_, rfl, _⟩
    · exact hb
    · simp only [builderOk, Bool.and_eq_true] at hb ⊢
      have hr : boundOk P lo = true ∧ boundOk P hi = true := by simpa [rfnOk, hw] using hb.2
      have hm' : P m = true := by cases a <;> simp_all [NumArg.num?, argOk]
      exact ⟨hb.1, by simp only [rfnOk, Bool.and_eq_true]; exact ⟨hr.1, boundOk_store hm' hr.2⟩⟩

theorem step_numsOk {b b' : Builder} {c : RefineCall} (h : step b c = .ok b')
    (hb : builderOk P b = true) (hc : callOk P c = true) : builderOk P b' = true := by
  unfold step at h
  split at h
  · simp at h; subst h; exact hb
  · split at h
    · simp at h
    · cases c with
      | notNull =>
        obtain ⟨rfl, _, _⟩ := stepNotNull_ok h
        simpa [builderOk, rfnOk_setNull] using hb
      | null =>
        obtain ⟨rfl, _, _⟩ := stepNull_ok h
        simpa [builderOk, rfnOk_setNull] using hb
      | numLower a incl => exact stepNumLower_numsOk h hb hc
      | numUpper a incl => exact stepNumUpper_numsOk h hb hc
      | lenLower n =>
        obtain ⟨nl, lo, hi, hw, hcase, _⟩ := stepLenLower_ok h
        rcases hcase with ⟨rfl, _⟩ | ⟨_, _, rfl⟩
        · exact hb
        · simp only [builderOk, Bool.and_eq_true] at hb ⊢; exact ⟨hb.1, rfl⟩
      | lenUpper n =>
        obtain ⟨nl, lo, hi, hw, hcase, _⟩ := stepLenUpper_ok h
        rcases hcase with ⟨rfl, _⟩ | ⟨_, _, rfl⟩
        · exact hb
        · simp only [builderOk, Bool.and_eq_true] at hb ⊢; exact ⟨hb.1, rfl⟩
      | stringPrefix p =>
        obtain ⟨n, q, hw, _, rfl, _⟩ := stepPrefix_ok h
        simp only [builderOk, Bool.and_eq_true] at hb ⊢; exact ⟨hb.1, rfl⟩
      | stringPrefixFull p =>
        obtain ⟨n, q, hw, _, rfl, _⟩ := stepPrefix_ok h
        simp only [builderOk, Bool.and_eq_true] at hb ⊢; exact ⟨hb.1, rfl⟩
      | numRangeInclusive lo hi =>
        simp only [step1] at h
        simp only [callOk, Bool.and_eq_true] at hc
        cases h1 : stepNumLower b lo true with
        | ok b1 => rw [h1] at h; exact stepNumUpper_numsOk h (stepNumLower_numsOk h1 hb hc.1) hc.2
        | err e => rw [h1] at h; simp [Res.bind] at h
        | panic w => rw [h1] at h; simp [Res.bind] at h
        | unmodelled => rw [h1] at h; simp [Res.bind] at h
      | collectionLength n =>
        simp only [step1] at h
        cases h1 : stepLenLower b n with
        | ok b1 =>
          rw [h1] at h
          have hb1 : builderOk P b1 = true := by
            obtain ⟨nl, lo, hi, hw, hcase, _⟩ := stepLenLower_ok h1
            rcases hcase with ⟨rfl, _⟩ | ⟨_, _, rfl⟩
            · exact hb
            · simp only [builderOk, Bool.and_eq_true] at hb ⊢; exact ⟨hb.1, rfl⟩
          obtain ⟨nl, lo, hi, hw, hcase, _⟩ := stepLenUpper_ok h
          rcases hcase with ⟨rfl, _⟩ | ⟨_, _, rfl⟩
          · exact hb1
          · simp only [builderOk, Bool.and_eq_true] at hb1 ⊢; exact ⟨hb1.1, rfl⟩
        | err e => rw [h1] at h; simp [Res.bind] at h
        | panic w => rw [h1] at h; simp [Res.bind] at h
        | unmodelled => rw [h1] at h; simp [Res.bind] at h

theorem run_numsOk {cs : List RefineCall} : ∀ {b b' : Builder}, run b cs = .ok b' →
    builderOk P b = true → cs.all (callOk P) = true → builderOk P b' = true := by
  induction cs with
  | nil => intro b b' h hb _; simp [run] at h; subst h; exact hb
  | cons c cs ih =>
    intro b b' h hb hc
    simp only [List.all_cons, Bool.and_eq_true] at hc
    simp only [run] at h
    cases h1 : step b c with
    | ok b1 => rw [h1] at h; exact ih h (step_numsOk h1 hb hc.1) hc.2
    | err e => rw [h1] at h; simp [Res.bind] at h
    | panic w => rw [h1] at h; simp [Res.bind] at h
    | unmodelled => rw [h1] at h; simp [Res.bind] at h

end Keep

/-! ## whole calls, chains, `NewValue`, `Refine()…NewValue()` -/

section Whole
variable {O1 O2 : EqOracle} {P : Num → Bool}

theorem step_congr (hA : AgreeOn O1 O2 P) {b : Builder} {c : RefineCall}
    (hb : builderOk P b = true) (hc : callOk P c = true) : @step O1 b c = @step O2 b c := by
  unfold step
  split
  · rfl
  · split
    · rfl
    · cases c with
      | numLower a incl => exact stepNumLower_congr hA hb hc
      | numUpper a incl => exact stepNumUpper_congr hA hb hc
      | numRangeInclusive lo hi =>
        simp only [callOk, Bool.and_eq_true] at hc
        simp only [step1]
        rw [stepNumLower_congr hA hb hc.1]
        cases h1 : @stepNumLower O2 b lo true with
        | ok b1 =>
          simp only [Res.bind]
          exact stepNumUpper_congr hA (@stepNumLower_numsOk O2 P _ _ _ _ h1 hb hc.1) hc.2
        | err e => rfl
        | panic w => rfl
        | unmodelled => rfl
      | _ => rfl

theorem run_congr (hA : AgreeOn O1 O2 P) {cs : List RefineCall} : ∀ {b : Builder},
    builderOk P b = true → cs.all (callOk P) = true → @run O1 b cs = @run O2 b cs := by
  induction cs with
  | nil => intro b _ _; rfl
  | cons c cs ih =>
    intro b hb hc
    simp only [List.all_cons, Bool.and_eq_true] at hc
    simp only [run]
    rw [step_congr hA hb hc.1]
    cases h1 : @step O2 b c with
    | ok b1 =>
      simp only [Res.bind]
      exact ih (@step_numsOk O2 P _ _ _ h1 hb hc.1) hc.2
    | err e => rfl
    | panic w => rfl
    | unmodelled => rfl

theorem collapse_congr (hA : AgreeOn O1 O2 P) {ty : Ty} {r : Rfn} (hr : rfnOk P r = true) :
    @collapse O1 ty r = @collapse O2 ty r := by
  cases r with
  | num n lo hi =>
    cases lo with
    | none => rfl
    | some l =>
      cases hi with
      | none => rfl
      | some h =>
        have hh : P l.v = true ∧ P h.v = true := by simpa [rfnOk, boundOk] using hr
        simp only [collapse]
        rw [numEq?_congr hA hh.1 hh.2]
  | _ => rfl

theorem newValue_congr (hA : AgreeOn O1 O2 P) {b : Builder} (hb : builderOk P b = true) :
    @newValue O1 b = @newValue O2 b := by
  simp only [builderOk, Bool.and_eq_true] at hb
  unfold newValue
  rw [collapse_congr hA hb.2]

theorem init_numsOk {v : Value} {b : Builder} (h : init v = .ok b) (hv : valueOk P v = true) :
    builderOk P b = true := by
  unfold init at h
  simp only at h
  split at h
  · simp at h
  · split at h
    · simp at h
    · rename_i r hr
      split at h
      · split at h
        · simp at h; subst h
          simp only [builderOk, origOk, hr, Bool.true_and]
          simpa [valueOk, hr] using hv
        · simp at h
      · simp at h; subst h
        simp only [builderOk, origOk, hr, Bool.true_and]
        unfold freshWip; split <;> (try rfl); split <;> rfl
    · rename_i hnb hnu
      simp at h; subst h
      simp only [builderOk, Bool.and_eq_true]
      refine ⟨?_, by unfold freshWip; split <;> (try rfl); split <;> rfl⟩
      unfold valueOk at hv
      unfold origOk
      split <;> simp_all

theorem refine_congr (hA : AgreeOn O1 O2 P) {v : Value} {cs : List RefineCall}
    (hv : valueOk P v = true) (hc : cs.all (callOk P) = true) : @refine O1 v cs = @refine O2 v cs := by
  unfold refine
  cases hi : init v with
  | ok b =>
    have hb := init_numsOk hi hv
    simp only [Res.bind]
    rw [run_congr hA hb hc]
    cases hr : @run O2 b cs with
    | ok b' =>
      simp only
      exact newValue_congr hA (@run_numsOk O2 P _ _ _ hr hb hc)
    | err e => rfl
    | panic w => rfl
    | unmodelled => rfl
  | err e => rfl
  | panic w => rfl
  | unmodelled => rfl

end Whole

end D05
end Refine
end CtyModel
