/-
C17 (JSON half) — `json.ImpliedType` (`JsonVal.impliedType`, cty/json/type_implied.go) on EVERY
token tree: no panic; a type it returns is well-formed, carries no optional-attribute annotation
and has normalised attribute names.
-/
import CtyModel.Lemmas.C17JsonTy
import CtyModel.Lemmas.JsonValNoOpt
namespace CtyModel
namespace C17Json
open Ty JsonVal

/-- what an implied type is shown to satisfy -/
def ImpGood (norm : String → String) (t : Ty) : Prop := TyGood norm t ∧ hasOpt t = false

def ImpGoodL (norm : String → String) (ts : List Ty) : Prop := ∀ t ∈ ts, ImpGood norm t

theorem impGoodL_tuple {norm : String → String} {ts : List Ty} (h : ImpGoodL norm ts) :
    ImpGood norm (.tuple ts) := by
  have hg := tyGoodL_mem (fun t ht => (h t ht).1)
  refine ⟨⟨by simpa [Ty.wf] using hg.1, fun hn => by simpa [Ty.namesAll] using hg.2 hn⟩, ?_⟩
  simpa [hasOpt] using hasOptL_of_mem (fun t ht => (h t ht).2)

theorem setTy_mem (k : String) (t : Ty) : ∀ (aK : List String) (aT : List Ty), ∀ u ∈ setTy k t aK aT, u = t ∨ u ∈ aT
  | [], _, u, hu => by simp [setTy] at hu
  | _ :: _, [], u, hu => by simp [setTy] at hu
  | n :: ns, v :: vs, u, hu => by
    simp only [setTy] at hu
    split at hu
    · simp at hu; rcases hu with rfl | hu
      · exact Or.inl rfl
      · exact Or.inr (by simp [hu])
    · simp at hu; rcases hu with rfl | hu
      · exact Or.inr (by simp)
      · rcases setTy_mem k t ns vs u hu with h | h
        · exact Or.inl h
        · exact Or.inr (by simp [h])

theorem impGood_object {norm : String → String} (ks : List String) {ts : List Ty} (h : ImpGoodL norm ts) :
    ImpGood norm (.object (buildFields norm ks ts).1 (buildFields norm ks ts).2
      ((buildFields norm ks ts).1.map fun _ => false)) := by
  refine ⟨tyGood_object (tyGoodL_mem (fun t ht => (h t ht).1)) _ (by simp), ?_⟩
  obtain ⟨_, _, _, ht⟩ := buildFields_inv norm ks ts
  simp only [hasOpt, Bool.or_eq_false_iff]
  exact ⟨hasOpt_map_false _, hasOptL_of_mem (fun u hu => (h u (ht u hu)).2)⟩

mutual
theorem implied_sat (env : JEnv) : ∀ j : Json, Sat (ImpGood env.norm) (impliedType env j)
  | .null => Sat.ok ⟨⟨rfl, fun _ => rfl⟩, rfl⟩
  | .bool _ => Sat.ok ⟨⟨rfl, fun _ => rfl⟩, rfl⟩
  | .num _ => Sat.ok ⟨⟨rfl, fun _ => rfl⟩, rfl⟩
  | .str _ => Sat.ok ⟨⟨rfl, fun _ => rfl⟩, rfl⟩
  | .arr xs => by
    simp only [impliedType]
    exact (impliedAll_sat env xs).map (fun ts h => impGoodL_tuple h)
  | .obj ks vs => by
    simp only [impliedType]
    have := impliedMembers_sat env ks vs [] [] (by intro t ht; simp at ht)
    cases hr : impliedMembers env ks vs [] [] with
    | ok p =>
      rw [hr] at this
      obtain ⟨aK, aT⟩ := p
      simp only
      split
      · exact Sat.unm
      · exact Sat.ok (impGood_object aK this)
    | err c => exact Sat.err
    | panic w => rw [hr] at this; exact absurd this id
    | unmodelled => exact Sat.unm
theorem impliedAll_sat (env : JEnv) : ∀ xs : List Json, Sat (ImpGoodL env.norm) (impliedAll env xs)
  | [] => Sat.ok (by intro t ht; simp at ht)
  | x :: xs => by
    simp only [impliedAll]
    have hx := implied_sat env x
    have hxs := impliedAll_sat env xs
    cases hr : impliedType env x with
    | ok t =>
      rw [hr] at hx
      simp only
      cases hrs : impliedAll env xs with
      | ok ts =>
        rw [hrs] at hxs
        refine Sat.ok ?_
        intro u hu
        rcases List.mem_cons.mp hu with rfl | hu
        · exact hx
        · exact hxs u hu
      | err c => exact Sat.err
      | panic w => rw [hrs] at hxs; exact absurd hxs id
      | unmodelled => exact Sat.unm
    | err c => exact Sat.err
    | panic w => rw [hr] at hx; exact absurd hx id
    | unmodelled => exact Sat.unm
theorem impliedMembers_sat (env : JEnv) : ∀ (ks : List String) (vs : List Json) (aK : List String) (aT : List Ty),
    ImpGoodL env.norm aT → Sat (fun p : List String × List Ty => ImpGoodL env.norm p.2) (impliedMembers env ks vs aK aT)
  | [], _, _, _, h => by simp only [impliedMembers]; exact Sat.ok h
  | _ :: _, [], _, _, h => by simp only [impliedMembers]; exact Sat.ok h
  | k :: ks, v :: vs, aK, aT, h => by
    simp only [impliedMembers]
    have hv := implied_sat env v
    cases hr : impliedType env v with
    | ok aty =>
      rw [hr] at hv
      simp only
      split
      · split
        · exact Sat.err
        · refine impliedMembers_sat env ks vs _ _ ?_
          intro u hu
          rcases setTy_mem k aty aK aT u hu with rfl | hu
          · exact hv
          · exact h u hu
      · refine impliedMembers_sat env ks vs _ _ ?_
        intro u hu
        rcases List.mem_append.mp hu with hu | hu
        · exact h u hu
        · simp at hu; subst hu; exact hv
    | err c => exact Sat.err
    | panic w => rw [hr] at hv; exact absurd hv id
    | unmodelled => exact Sat.unm
end

end C17Json
end CtyModel
