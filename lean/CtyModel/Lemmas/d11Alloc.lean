/-
C11, allocation drivers (model: Stdlib/d11Alloc.lean): where the caller's number stays below what
the runtime can address nothing panics; beyond it the Go code panics (witnesses by `decide`), and
Go's wrapping `int` arithmetic makes the scanned width / the product of lengths a different number.
-/
import CtyModel.Stdlib.d11Alloc
import CtyModel.Lemmas.StdOblAcc
namespace CtyModel
namespace D11
open Stdlib Value

theorem wrap64_id {x : Int} (h1 : -9223372036854775808 ≤ x) (h2 : x ≤ maxInt64) : wrap64 x = x := by
  unfold wrap64; unfold maxInt64 at h2; omega

/-! ### `strings.Repeat`, `makeslice` -/

theorem goRepeat_one_no_panic {count : Int} (h0 : 0 ≤ count) (h : count ≤ maxAlloc) :
    (goRepeat 1 count).isPanic = false := by
  have h1 : ¬ count < 0 := by omega
  have h2 : ¬ (maxInt64 < count) := by unfold maxInt64; unfold maxAlloc at h; omega
  have h3 : ¬ (maxAlloc < count) := by omega
  simp [goRepeat, h1, h2, h3, Res.isPanic]

theorem goRepeat_one_panics {count : Int} (h : count > maxAlloc) : (goRepeat 1 count).isPanic = true := by
  have h1 : ¬ count < 0 := by unfold maxAlloc at h; omega
  have h3 : maxAlloc < count := h
  by_cases h2 : maxInt64 < count
  · simp [goRepeat, h1, h2, Res.isPanic]
  · simp [goRepeat, h1, h2, h3, Res.isPanic]

/-! ### indent -/

/-- FALSE of the code: `indent` never panics, whatever the number of spaces -/
def IndentPadTotal : Prop := ∀ spaces : Value, (∀ w, fromCtyInt spaces ≠ .panic w) → (indentPad spaces).isPanic = false

theorem indentPad_total_partial (spaces : Value) (hc : ∀ w, fromCtyInt spaces ≠ .panic w)
    (hk : ∀ k, fromCtyInt spaces = .ok k → k ≤ maxAlloc) : (indentPad spaces).isPanic = false := by
  unfold indentPad
  cases h : fromCtyInt spaces with
  | ok k =>
    by_cases h0 : k < 0
    · simp [h0, Res.isPanic]
    · simp only [h0, if_false]
      exact goRepeat_one_no_panic (by omega) (hk k h)
  | err c => simp [Res.isPanic]
  | panic w => exact absurd h (hc w)
  | unmodelled => simp [Res.isPanic]

/-- exactly when it panics: the conversion to `int` succeeded with a count beyond `maxAlloc` -/
theorem indentPad_panics_iff (spaces : Value) (hc : ∀ w, fromCtyInt spaces ≠ .panic w) :
    (indentPad spaces).isPanic = true ↔ ∃ k, fromCtyInt spaces = .ok k ∧ k > maxAlloc := by
  unfold indentPad
  cases h : fromCtyInt spaces with
  | ok k =>
    by_cases h0 : k < 0
    · have : ¬ k > maxAlloc := by unfold maxAlloc; omega
      simp [h0, Res.isPanic, this]
    · simp only [h0, if_false]
      by_cases hk : k > maxAlloc
      · simp [goRepeat_one_panics hk, hk]
      · have := goRepeat_one_no_panic (count := k) (by omega) (by omega)
        simp [this, hk]
  | err c => simp [Res.isPanic]
  | panic w => exact absurd h (hc w)
  | unmodelled => simp [Res.isPanic]

/-- the witness: `indent(2^62, …)` -/
def indentCex : Value := intVal 4611686018427387904

/-! ### format -/

theorem le_litFold : ∀ (ds : List Nat) (n : Int), 0 ≤ n → n ≤ ds.foldl (fun (n : Int) (d : Nat) => 10 * n + (d : Int)) n
  | [], n, _ => by simp
  | d :: ds, n, h => by
    simp only [List.foldl_cons]
    have := le_litFold ds (10 * n + d) (by omega)
    omega

theorem accFold_eq_litFold : ∀ (ds : List Nat) (n : Int), 0 ≤ n →
    ds.foldl (fun (n : Int) (d : Nat) => 10 * n + (d : Int)) n ≤ maxInt64 →
    ds.foldl (fun (n : Int) (d : Nat) => wrap64 (10 * n + (d : Int))) n = ds.foldl (fun (n : Int) (d : Nat) => 10 * n + (d : Int)) n
  | [], _, _, _ => rfl
  | d :: ds, n, h0, h => by
    simp only [List.foldl_cons] at h ⊢
    have hle := le_litFold ds (10 * n + d) (by omega)
    have hw : wrap64 (10 * n + d) = 10 * n + d := wrap64_id (by omega) (by omega)
    rw [hw]
    exact accFold_eq_litFold ds (10 * n + d) (by omega) h

/-- FALSE of the code: the scanner reads the width (precision) that is written -/
def WidthReadsLiteral : Prop := ∀ ds : List Nat, accDigits ds = litValue ds

theorem widthReadsLiteral_partial (ds : List Nat) (h : litValue ds ≤ maxInt64) : accDigits ds = litValue ds :=
  accFold_eq_litFold ds 0 (by omega) h

/-- FALSE of the code: padding never panics -/
def FormatPadTotal : Prop := ∀ (ds : List Nat) (g : Int), 0 ≤ g → (formatPadOfDigits ds g).isPanic = false

theorem formatPad_total_partial (ds : List Nat) (g : Int) (hg : 0 ≤ g) (h : accDigits ds ≤ maxAlloc) :
    (formatPadOfDigits ds g).isPanic = false := by
  unfold formatPadOfDigits formatPad
  by_cases h1 : accDigits ds < 0
  · simp [h1, Res.isPanic]
  · by_cases h2 : g ≥ accDigits ds
    · simp [h1, h2, Res.isPanic]
    · simp only [h1, h2, if_false]
      exact goRepeat_one_no_panic (by omega) (by omega)

/-- digits of 9223372036854775807 -/
def maxIntDigits : List Nat := [9, 2, 2, 3, 3, 7, 2, 0, 3, 6, 8, 5, 4, 7, 7, 5, 8, 0, 7]
/-- digits of 18446744073709551621 = 2^64 + 5 -/
def wrapDigits : List Nat := [1, 8, 4, 4, 6, 7, 4, 4, 0, 7, 3, 7, 0, 9, 5, 5, 1, 6, 2, 1]

/-! ### setproduct -/

theorem le_prodFold : ∀ (ls : List Int) (t : Int), 1 ≤ t → (∀ l ∈ ls, 1 ≤ l) → t ≤ ls.foldl (fun t l => t * l) t
  | [], t, _, _ => by simp
  | l :: ls, t, ht, hl => by
    simp only [List.foldl_cons]
    have h1 : 1 ≤ l := hl l (by simp)
    have h2 : t ≤ t * l := by
      calc t = t * 1 := (Int.mul_one t).symm
        _ ≤ t * l := Int.mul_le_mul_of_nonneg_left h1 (by omega)
    have h3 := le_prodFold ls (t * l) (by omega) (fun x hx => hl x (by simp [hx]))
    omega

theorem totalFold_eq_prodFold : ∀ (ls : List Int) (t : Int), 1 ≤ t → (∀ l ∈ ls, 1 ≤ l) →
    ls.foldl (fun t l => t * l) t ≤ maxInt64 →
    ls.foldl (fun t l => wrap64 (t * l)) t = ls.foldl (fun t l => t * l) t
  | [], _, _, _, _ => rfl
  | l :: ls, t, ht, hl, h => by
    simp only [List.foldl_cons] at h ⊢
    have h1 : 1 ≤ l := hl l (by simp)
    have h2 : t ≤ t * l := by
      calc t = t * 1 := (Int.mul_one t).symm
        _ ≤ t * l := Int.mul_le_mul_of_nonneg_left h1 (by omega)
    have hle := le_prodFold ls (t * l) (by omega) (fun x hx => hl x (by simp [hx]))
    have hw : wrap64 (t * l) = t * l := wrap64_id (by omega) (by omega)
    rw [hw]
    exact totalFold_eq_prodFold ls (t * l) (by omega) (fun x hx => hl x (by simp [hx])) h

/-- below 2^63 the loop computes the product -/
theorem totalLen_eq_prodLen (ls : List Int) (hl : ∀ l ∈ ls, 1 ≤ l) (h : prodLen ls ≤ maxInt64) :
    totalLen ls = prodLen ls := totalFold_eq_prodFold ls 1 (by omega) hl h

/-- FALSE of the code: the allocation part of `setproduct` never panics -/
def SetProductAllocTotal : Prop :=
  ∀ ls : List Int, (∀ l ∈ ls, 0 ≤ l ∧ l ≤ maxInt64) → (setProductAlloc ls).isPanic = false

/-- no panic when every argument is non-empty, the product of the lengths is at most 2^30 and
there are at most 2^10 arguments -/
theorem setProductAlloc_total_partial (ls : List Int) (hl : ∀ l ∈ ls, 1 ≤ l)
    (hp : prodLen ls ≤ 1073741824) (hn : (ls.length : Int) ≤ 1024) :
    (setProductAlloc ls).isPanic = false := by
  have he := totalLen_eq_prodLen ls hl (by unfold maxInt64; omega)
  have h1 : 1 ≤ prodLen ls := le_prodFold ls 1 (by omega) hl
  have hm : prodLen ls * (ls.length : Int) ≤ 1073741824 * 1024 :=
    Int.mul_le_mul hp hn (by omega) (by omega)
  have hm0 : 0 ≤ prodLen ls * (ls.length : Int) := Int.mul_nonneg (by omega) (by omega)
  have hw : wrap64 (prodLen ls * (ls.length : Int)) = prodLen ls * (ls.length : Int) :=
    wrap64_id (by omega) (by unfold maxInt64; omega)
  unfold setProductAlloc
  simp only [he]
  have hz : (prodLen ls == 0) = false := by
    rw [beq_eq_false_iff_ne]; omega
  have hs1 : makeslice (prodLen ls) 24 = .ok () := by
    unfold makeslice maxAlloc
    have : ¬ (prodLen ls < 0 ∨ prodLen ls * 24 > 281474976710656) := by omega
    simp [this]
  have hs2 : makeslice (prodLen ls * (ls.length : Int)) 32 = .ok () := by
    unfold makeslice maxAlloc
    have : ¬ (prodLen ls * (ls.length : Int) < 0 ∨ prodLen ls * (ls.length : Int) * 32 > 281474976710656) := by omega
    simp [this]
  simp [hz, hs1, hw, hs2, Res.isPanic]

/-- FALSE of the code: the result is empty only if some argument is -/
def SetProductEmptyOnlyIfSomeEmpty : Prop :=
  ∀ ls : List Int, (∀ l ∈ ls, 1 ≤ l ∧ l ≤ maxInt64) → totalLen ls ≠ 0

theorem setProduct_nonempty_partial (ls : List Int) (hl : ∀ l ∈ ls, 1 ≤ l) (h : prodLen ls ≤ maxInt64) :
    totalLen ls ≠ 0 := by
  rw [totalLen_eq_prodLen ls hl h]
  have := le_prodFold ls 1 (by omega) hl
  unfold prodLen; omega

end D11
end CtyModel
