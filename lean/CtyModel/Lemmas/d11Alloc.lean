/-
C11, allocation drivers (model: Stdlib/d11Alloc.lean, following /repo 490ecb9, d4d90b0, 84cbc5e):
`indent`, the width padding of `format` and `setproduct` never reach an allocation the runtime
refuses — for EVERY number of spaces, every digit string, every list of argument lengths — and the
number that decides the allocation is the one the caller wrote (no wrap-around).
-/
import CtyModel.Stdlib.d11Alloc
import CtyModel.Lemmas.StdOblAcc
namespace CtyModel
namespace D11
open Stdlib Value

theorem wrap64_id {x : Int} (h1 : -9223372036854775808 ≤ x) (h2 : x ≤ maxInt64) : wrap64 x = x := by
  unfold wrap64; unfold maxInt64 at h2; omega

/-! ### `strings.Repeat`, `makeslice` -/

theorem goRepeat_one_ok {count : Int} (h0 : 0 ≤ count) (h : count ≤ maxAlloc) :
    goRepeat 1 count = .ok count := by
  have h1 : ¬ count < 0 := by omega
  have h2 : ¬ (maxInt64 < count) := by unfold maxInt64; unfold maxAlloc at h; omega
  have h3 : ¬ (maxAlloc < count) := by omega
  simp [goRepeat, h1, h2, h3]

theorem goRepeat_one_no_panic {count : Int} (h0 : 0 ≤ count) (h : count ≤ maxAlloc) :
    (goRepeat 1 count).isPanic = false := by
  rw [goRepeat_one_ok h0 h]; rfl

theorem goRepeat_one_panics {count : Int} (h : count > maxAlloc) : (goRepeat 1 count).isPanic = true := by
  have h1 : ¬ count < 0 := by unfold maxAlloc at h; omega
  have h3 : maxAlloc < count := h
  by_cases h2 : maxInt64 < count
  · simp [goRepeat, h1, h2, Res.isPanic]
  · simp [goRepeat, h1, h2, h3, Res.isPanic]

/-! ### Go's truncating division by a positive divisor -/

theorem tdiv_pos_le {a b c : Int} (hc : 0 < c) (hb : 0 ≤ b) (h : a ≤ Int.tdiv b c) : a * c ≤ b := by
  rw [Int.tdiv_eq_ediv_of_nonneg hb] at h
  exact (Int.le_ediv_iff_mul_le hc).1 h

theorem tdiv_neg_nonpos {b c : Int} (hc : 0 < c) (hb : b < 0) : Int.tdiv b c ≤ 0 := by
  have h1 : Int.tdiv b c = -(Int.tdiv (-b) c) := by rw [Int.neg_tdiv, Int.neg_neg]
  have h2 : 0 ≤ Int.tdiv (-b) c := Int.tdiv_nonneg (by omega) (by omega)
  omega

theorem le_mul_pos {a c : Int} (ha : 0 ≤ a) (hc : 1 ≤ c) : a ≤ a * c := by
  calc a = a * 1 := (Int.mul_one a).symm
    _ ≤ a * c := Int.mul_le_mul_of_nonneg_left hc ha

/-! ### indent -/

/-- the padding `indent` builds is at most `MaxInt32` bytes whenever the guard lets it through -/
theorem indent_guard_bound_neg {k num lines : Int} (hl : 0 < lines) (hle : k ≤ Int.tdiv num lines)
    (hneg : num < 0) : k ≤ 0 := by
  have := tdiv_neg_nonpos hl hneg
  omega

theorem indent_guard_bound_pos {k num lines : Int} (hk : 0 ≤ k) (hl : 0 < lines)
    (hle : k ≤ Int.tdiv num lines) (hneg : ¬ num < 0) : k ≤ num ∧ k * lines ≤ num := by
  have hm := tdiv_pos_le hl (by omega) hle
  have hkm : k ≤ k * lines := le_mul_pos hk (by omega)
  exact ⟨by omega, hm⟩

theorem indent_guard_bound {k num lines : Int} (hk : 0 ≤ k) (hl : 0 < lines) (hn : num ≤ 2147483647)
    (hle : k ≤ Int.tdiv num lines) : k ≤ 2147483647 ∧ (0 ≤ num → k * lines ≤ num) := by
  by_cases hneg : num < 0
  · have h0 := indent_guard_bound_neg hl hle hneg
    exact ⟨by omega, fun h => absurd h (by omega)⟩
  · have h1 := indent_guard_bound_pos hk hl hle hneg
    exact ⟨by omega, fun _ => h1.2⟩

theorem indent_tail_no_panic (k dataLen lines : Int) (hd : 0 ≤ dataLen) (hl : 0 ≤ lines) (h0 : ¬ k < 0) (hl0 : ¬ lines = 0)
    (h1 : ¬ k > Int.tdiv (maxInt32 - dataLen) lines) : (goRepeat 1 k).isPanic = false := by
  have hn : maxInt32 - dataLen ≤ 2147483647 := by unfold maxInt32; omega
  have hle : k ≤ Int.tdiv (maxInt32 - dataLen) lines := by omega
  have hb := (indent_guard_bound (by omega : 0 ≤ k) (by omega : 0 < lines) hn hle).1
  exact goRepeat_one_no_panic (by omega) (by unfold maxAlloc; omega)

theorem indent_body_no_panic (k dataLen lines : Int) (hd : 0 ≤ dataLen) (hl : 0 ≤ lines) (h0 : ¬ k < 0) :
    (if (lines == 0) = true then (Res.ok 0 : Res Int)
     else if k > (maxInt32 - dataLen).tdiv lines then Res.err "the number of spaces is too large" else goRepeat 1 k).isPanic = false := by
  by_cases hl0 : lines = 0
  · simp [hl0, Res.isPanic]
  · have hl0' : (lines == 0) = false := by rw [beq_eq_false_iff_ne]; exact hl0
    simp only [hl0']
    by_cases h1 : k > Int.tdiv (maxInt32 - dataLen) lines
    · simp [h1, Res.isPanic]
    · rw [if_neg (by simp), if_neg h1]
      exact indent_tail_no_panic k dataLen lines hd hl h0 hl0 h1

/-- **`indent` never panics**: whatever the number of spaces, the length of the string and the
number of line breaks in it -/
theorem indentPad_total (spaces : Value) (dataLen lines : Int) (hc : ∀ w, fromCtyInt spaces ≠ .panic w)
    (hd : 0 ≤ dataLen) (hl : 0 ≤ lines) : (indentPad spaces dataLen lines).isPanic = false := by
  unfold indentPad
  cases hk : fromCtyInt spaces with
  | ok k =>
    simp only
    by_cases h0 : k < 0
    · simp [h0, Res.isPanic]
    · rw [if_neg h0]
      exact indent_body_no_panic k dataLen lines hd hl h0
  | err c => simp [Res.isPanic]
  | panic w => exact absurd hk (hc w)
  | unmodelled => simp [Res.isPanic]

/-- what an `ok` answer means when there is a line break: the padding is exactly the number of
spaces asked for, and the whole result (`len(data) + lines * spaces` bytes) is within `MaxInt32` -/
theorem indentPad_ok_bound {spaces : Value} {dataLen lines n : Int} (hd : 0 ≤ dataLen) (hd2 : dataLen ≤ maxInt32)
    (hl : 0 < lines) (h : indentPad spaces dataLen lines = .ok n) :
    fromCtyInt spaces = .ok n ∧ 0 ≤ n ∧ dataLen + lines * n ≤ maxInt32 := by
  unfold indentPad at h
  cases hk : fromCtyInt spaces with
  | ok k =>
    rw [hk] at h
    simp only at h
    by_cases h0 : k < 0
    · simp [h0] at h
    · have hl0 : (lines == 0) = false := by rw [beq_eq_false_iff_ne]; omega
      simp only [h0, if_false, hl0] at h
      by_cases h1 : k > Int.tdiv (maxInt32 - dataLen) lines
      · simp [h1] at h
      · simp only [h1, if_false] at h
        have hn : maxInt32 - dataLen ≤ 2147483647 := by unfold maxInt32; omega
        have hle : k ≤ Int.tdiv (maxInt32 - dataLen) lines := by omega
        have hb := indent_guard_bound (by omega : 0 ≤ k) hl hn hle
        have hm := hb.2 (by omega)
        rw [goRepeat_one_ok (by omega) (by have := hb.1; unfold maxAlloc; omega)] at h
        cases h
        refine ⟨rfl, by omega, ?_⟩
        rw [Int.mul_comm]; omega
  | err c => rw [hk] at h; simp at h
  | panic w => rw [hk] at h; simp at h
  | unmodelled => rw [hk] at h; simp at h

/-- a string without a line break is never padded, whatever the number of spaces -/
theorem indentPad_no_newline (spaces : Value) (dataLen k : Int) (hk : fromCtyInt spaces = .ok k) (h0 : 0 ≤ k) :
    indentPad spaces dataLen 0 = .ok 0 := by
  unfold indentPad; rw [hk]
  have : ¬ k < 0 := by omega
  simp [this]

/-- the former witness `indent(2^62, …)` -/
def indentCex : Value := intVal 4611686018427387904

/-! ### format -/

theorem appendDigit_nonneg {n : Int} (d : Nat) (h : 0 ≤ n) : 0 ≤ appendDigit n d := by
  unfold appendDigit; split
  · unfold maxInt64; omega
  · omega

theorem accFold_nonneg : ∀ (ds : List Nat) (n : Int), 0 ≤ n → 0 ≤ ds.foldl appendDigit n
  | [], _, h => h
  | d :: ds, n, h => accFold_nonneg ds _ (appendDigit_nonneg d h)

theorem accDigits_nonneg (ds : List Nat) : 0 ≤ accDigits ds := accFold_nonneg ds 0 (by omega)

theorem le_litFold : ∀ (ds : List Nat) (n : Int), 0 ≤ n → n ≤ ds.foldl (fun (n : Int) (d : Nat) => 10 * n + (d : Int)) n
  | [], n, _ => by simp
  | d :: ds, n, h => by
    simp only [List.foldl_cons]
    have := le_litFold ds (10 * n + d) (by omega)
    omega

/-- the scanner's number is the literal, or it is saturated and the literal is beyond the threshold -/
theorem accFold_inv : ∀ (ds : List Nat) (a l : Int), 0 ≤ l → (a = l ∨ (a = maxInt64 ∧ l > satThreshold)) →
    (ds.foldl appendDigit a = ds.foldl (fun (n : Int) (d : Nat) => 10 * n + (d : Int)) l ∨
     (ds.foldl appendDigit a = maxInt64 ∧ ds.foldl (fun (n : Int) (d : Nat) => 10 * n + (d : Int)) l > satThreshold))
  | [], _, _, _, h => h
  | d :: ds, a, l, hl, h => by
    simp only [List.foldl_cons]
    apply accFold_inv ds _ _ (by omega)
    rcases h with h | ⟨h1, h2⟩
    · subst h
      unfold appendDigit
      by_cases hs : a > satThreshold
      · right; rw [if_pos hs]; exact ⟨rfl, by omega⟩
      · left; rw [if_neg hs]
    · right
      subst h1
      have : maxInt64 > satThreshold := by decide
      unfold appendDigit
      rw [if_pos this]
      exact ⟨rfl, by omega⟩

/-- **the scanner reads the width (precision) that is written**, as far as it is accepted at all … -/
theorem accDigits_eq_lit (ds : List Nat) (h : litValue ds ≤ formatMaxWidthPrec) : accDigits ds = litValue ds := by
  rcases accFold_inv ds 0 0 (by omega) (Or.inl rfl) with h1 | ⟨_, h2⟩
  · exact h1
  · unfold litValue formatMaxWidthPrec at h; unfold satThreshold at h2; omega

/-- … and a literal beyond the limit is seen as beyond the limit (no wrap-around to an acceptable number) -/
theorem accDigits_gt_of_lit_gt (ds : List Nat) (h : litValue ds > formatMaxWidthPrec) : accDigits ds > formatMaxWidthPrec := by
  rcases accFold_inv ds 0 0 (by omega) (Or.inl rfl) with h1 | ⟨h1, _⟩
  · unfold accDigits; rw [h1]; exact h
  · unfold accDigits; rw [h1]; decide

theorem formatPad_no_panic {w g : Int} (hw : w ≤ formatMaxWidthPrec) (hg : 0 ≤ g) : (formatPad w g).isPanic = false := by
  unfold formatPad
  by_cases h1 : w < 0
  · simp [h1, Res.isPanic]
  · by_cases h2 : g ≥ w
    · simp [h1, h2, Res.isPanic]
    · rw [if_neg h1, if_neg h2]
      exact goRepeat_one_no_panic (by omega) (by unfold maxAlloc; unfold formatMaxWidthPrec at hw; omega)

/-- **padding never panics**, whatever digits the format string spells -/
theorem formatPadOfDigits_total (ds : List Nat) (g : Int) (hg : 0 ≤ g) : (formatPadOfDigits ds g).isPanic = false := by
  unfold formatPadOfDigits
  by_cases h : accDigits ds > formatMaxWidthPrec
  · simp [h, Res.isPanic]
  · rw [if_neg h]
    exact formatPad_no_panic (by omega) hg

/-- the closed form: an error exactly when the LITERAL is beyond the limit, otherwise the padding to the literal -/
theorem formatPadOfDigits_eq (ds : List Nat) (g : Int) :
    formatPadOfDigits ds g = if litValue ds > formatMaxWidthPrec then .err "unsupported width" else formatPad (litValue ds) g := by
  unfold formatPadOfDigits
  by_cases h : litValue ds > formatMaxWidthPrec
  · rw [if_pos (accDigits_gt_of_lit_gt ds h), if_pos h]
  · have he := accDigits_eq_lit ds (by omega)
    rw [he, if_neg h]

/-- digits of 9223372036854775807 -/
def maxIntDigits : List Nat := [9, 2, 2, 3, 3, 7, 2, 0, 3, 6, 8, 5, 4, 7, 7, 5, 8, 0, 7]
/-- digits of 18446744073709551621 = 2^64 + 5 -/
def wrapDigits : List Nat := [1, 8, 4, 4, 6, 7, 4, 4, 0, 7, 3, 7, 0, 9, 5, 5, 1, 6, 2, 1]

/-! ### setproduct -/

theorem le_prodFold : ∀ (ls : List Int) (t : Int), 1 ≤ t → (∀ l ∈ ls, 1 ≤ l) → t ≤ ls.foldl (fun t l => t * l) t
  | [], t, _, _ => by simp
  | l :: ls, t, ht, hl => by
    simp only [List.foldl_cons]
    have h1 : 1 ≤ l := hl l (by simp)
    have h2 : t ≤ t * l := le_mul_pos (by omega) h1
    have h3 := le_prodFold ls (t * l) (by omega) (fun x hx => hl x (by simp [hx]))
    omega

/-- loop invariant: `total` is non-negative and within `maxTotal`, unless `tooMany` is set -/
def SpInv (M : Int) (st : Int × Bool) : Prop := 0 ≤ st.1 ∧ (st.1 ≤ M ∨ st.2 = true)

theorem tdiv_le_self_pos {M l : Int} (hM : 0 ≤ M) (hl : 1 ≤ l) : Int.tdiv M l ≤ M := by
  rw [Int.tdiv_eq_ediv_of_nonneg hM]
  exact Int.ediv_le_self _ hM

theorem spStep_inv {M : Int} (hM : 0 ≤ M) (hM2 : M ≤ maxInt32) {st : Int × Bool} {l : Int} (hl : 0 ≤ l) (h : SpInv M st) :
    SpInv M (spStep M st l) := by
  obtain ⟨t, b⟩ := st
  obtain ⟨h0, h1⟩ := h
  simp only at h0 h1
  unfold spStep
  by_cases hl0 : (l == 0) = true
  · rw [if_pos hl0]; exact ⟨by simp, Or.inl hM⟩
  · rw [if_neg hl0]
    have hl1 : 1 ≤ l := by
      have : l ≠ 0 := by intro h; apply hl0; simp [h]
      omega
    by_cases hc : (t != 0 && decide (t > Int.tdiv M l)) = true
    · rw [if_pos hc]
      exact ⟨h0, Or.inr rfl⟩
    · rw [if_neg hc]
      by_cases ht : t = 0
      · subst ht
        have : wrap64 (0 * l) = 0 := by rw [Int.zero_mul]; decide
        simp only [this]
        exact ⟨by omega, Or.inl hM⟩
      · have hle : t ≤ Int.tdiv M l := by
          simp only [Bool.and_eq_true, bne_iff_ne, ne_eq, decide_eq_true_eq, not_and] at hc
          have := hc ht; omega
        have hm := tdiv_pos_le (by omega : 0 < l) hM hle
        have hnn : 0 ≤ t * l := Int.mul_nonneg h0 hl
        have hw : wrap64 (t * l) = t * l := wrap64_id (by omega) (by unfold maxInt64; unfold maxInt32 at hM2; omega)
        simp only [hw]
        exact ⟨hnn, Or.inl hm⟩

theorem spFold_inv {M : Int} (hM : 0 ≤ M) (hM2 : M ≤ maxInt32) : ∀ (ls : List Int) (st : Int × Bool), (∀ l ∈ ls, 0 ≤ l) → SpInv M st →
    SpInv M (ls.foldl (spStep M) st)
  | [], _, _, h => h
  | l :: ls, st, hl, h => by
    simp only [List.foldl_cons]
    exact spFold_inv hM hM2 ls _ (fun x hx => hl x (by simp [hx])) (spStep_inv hM hM2 (hl l (by simp)) h)

/-- the first round establishes the invariant even when `maxTotal` is 0 -/
theorem spStep_first {M : Int} (hM : 0 ≤ M) (hM2 : M ≤ maxInt32) {l : Int} (hl : 0 ≤ l) : SpInv M (spStep M (1, false) l) := by
  by_cases h1 : 1 ≤ M
  · exact spStep_inv hM hM2 hl ⟨by simp, Or.inl h1⟩
  · have hM0 : M = 0 := by omega
    subst hM0
    unfold spStep
    by_cases hl0 : l = 0
    · simp [hl0, SpInv]
    · have hl0' : (l == 0) = false := by rw [beq_eq_false_iff_ne]; exact hl0
      have hq : Int.tdiv 0 l = 0 := Int.zero_tdiv l
      simp [hl0', hq, SpInv]

theorem spMaxTotal_bounds (n : Nat) : 0 ≤ spMaxTotal n ∧ spMaxTotal n ≤ maxInt32 ∧ spMaxTotal n * (n : Int) ≤ maxInt32 := by
  unfold spMaxTotal
  by_cases h : n > 1
  · simp only [h, if_true]
    have hn : (0 : Int) < (n : Int) := by omega
    have h32 : (0 : Int) ≤ maxInt32 := by decide
    refine ⟨Int.tdiv_nonneg h32 (by omega), tdiv_le_self_pos h32 (by omega), ?_⟩
    exact tdiv_pos_le hn h32 (Int.le_refl _)
  · simp only [h, if_false]
    have h32 : (0 : Int) ≤ maxInt32 := by decide
    refine ⟨h32, Int.le_refl _, ?_⟩
    have : (n : Int) = 0 ∨ (n : Int) = 1 := by omega
    rcases this with h | h <;> rw [h] <;> unfold maxInt32 <;> omega

theorem spLoop_inv (ls : List Int) (hl : ∀ l ∈ ls, 0 ≤ l) (hne : ls ≠ []) : SpInv (spMaxTotal ls.length) (spLoop ls) := by
  have hb := spMaxTotal_bounds ls.length
  unfold spLoop
  cases ls with
  | nil => exact absurd rfl hne
  | cons l rest =>
    simp only [List.foldl_cons]
    exact spFold_inv hb.1 hb.2.1 rest _ (fun x hx => hl x (by simp [hx])) (spStep_first hb.1 hb.2.1 (hl l (by simp)))

theorem makeslice_ok {n esz : Int} (h0 : 0 ≤ n) (h : n * esz ≤ maxAlloc) : makeslice n esz = .ok () := by
  unfold makeslice
  have : ¬ (n < 0 ∨ n * esz > maxAlloc) := by omega
  simp [this]

/-- **the allocation part of `setproduct` never panics**, whatever the lengths of the arguments -/
theorem setProductAlloc_total (ls : List Int) (hl : ∀ l ∈ ls, 0 ≤ l) : (setProductAlloc ls).isPanic = false := by
  by_cases hne : ls = []
  · subst hne; decide
  · have hinv := spLoop_inv ls hl hne
    have hb := spMaxTotal_bounds ls.length
    unfold setProductAlloc
    simp only
    generalize spLoop ls = st at hinv
    obtain ⟨t, b⟩ := st
    obtain ⟨h0, h1⟩ := hinv
    simp only at h0 h1 ⊢
    by_cases hc : (t != 0 && b) = true
    · simp [hc, Res.isPanic]
    · simp only [hc]
      by_cases ht : t = 0
      · simp [ht, Res.isPanic]
      · have ht' : (t == 0) = false := by rw [beq_eq_false_iff_ne]; exact ht
        have hb' : b = false := by
          cases b with
          | false => rfl
          | true => exact absurd (by simp [ht] : (t != 0 && true) = true) hc
        have hle : t ≤ spMaxTotal ls.length := by
          rcases h1 with h | h
          · exact h
          · rw [hb'] at h; cases h
        have hn0 : (0 : Int) ≤ (ls.length : Int) := by omega
        have hmul : t * (ls.length : Int) ≤ maxInt32 :=
          Int.le_trans (Int.mul_le_mul_of_nonneg_right hle hn0) hb.2.2
        have hmul0 : 0 ≤ t * (ls.length : Int) := Int.mul_nonneg h0 hn0
        have hw : wrap64 (t * (ls.length : Int)) = t * (ls.length : Int) :=
          wrap64_id (by omega) (by unfold maxInt64; unfold maxInt32 at hmul; omega)
        have ht32 : t ≤ maxInt32 := Int.le_trans hle hb.2.1
        have hs1 : makeslice t 24 = .ok () := makeslice_ok h0 (by unfold maxAlloc; unfold maxInt32 at ht32; omega)
        have hs2 : makeslice (t * (ls.length : Int)) 32 = .ok () :=
          makeslice_ok hmul0 (by unfold maxAlloc; unfold maxInt32 at hmul; omega)
        simp [ht', hw, hs1, hs2, Res.isPanic]

/-- while nothing is refused the loop computes the true product: no wrap-around -/
theorem spFold_prod : ∀ (ls : List Int) (M t : Int), 0 ≤ M → M ≤ maxInt32 → 1 ≤ t → t ≤ M → (∀ l ∈ ls, 1 ≤ l) →
    ((ls.foldl (spStep M) (t, false)).2 = false → (ls.foldl (spStep M) (t, false)).1 = ls.foldl (fun t l => t * l) t)
  | [], _, _, _, _, _, _, _ => fun _ => rfl
  | l :: ls, M, t, hM, hM2, ht, htM, hl => by
    simp only [List.foldl_cons]
    have h1 : 1 ≤ l := hl l (by simp)
    have hl0' : (l == 0) = false := by rw [beq_eq_false_iff_ne]; omega
    by_cases hc : t > Int.tdiv M l
    · -- tooMany is set and never cleared
      have hst : spStep M (t, false) l = (t, true) := by
        unfold spStep
        have : (t != 0) = true := by simp; omega
        simp [hl0', this, hc]
      rw [hst]
      intro h
      exfalso
      have : ∀ (xs : List Int) (a : Int), (xs.foldl (spStep M) (a, true)).2 = true := by
        intro xs
        induction xs with
        | nil => intro a; rfl
        | cons x xs ih =>
          intro a
          simp only [List.foldl_cons]
          unfold spStep
          by_cases hx : (x == 0) = true
          · simp only [hx, if_true]; exact ih 0
          · simp only [hx]
            by_cases hy : (a != 0 && decide (a > Int.tdiv M x)) = true
            · simp only [hy, if_true]; exact ih a
            · simp only [hy]; exact ih _
      rw [this ls t] at h; cases h
    · have hle : t ≤ Int.tdiv M l := by omega
      have hm := tdiv_pos_le (by omega : 0 < l) hM hle
      have hw : wrap64 (t * l) = t * l := wrap64_id (by
        have : 0 ≤ t * l := Int.mul_nonneg (by omega) (by omega)
        omega) (by unfold maxInt64; unfold maxInt32 at hM2; omega)
      have hst : spStep M (t, false) l = (t * l, false) := by
        unfold spStep
        have hd : decide (t > Int.tdiv M l) = false := by simp; omega
        simp [hl0', hd, hw]
      rw [hst]
      have h2 : t ≤ t * l := le_mul_pos (by omega) h1
      exact spFold_prod ls M (t * l) hM hM2 (by omega) hm (fun x hx => hl x (by simp [hx]))

theorem spStep_zero_keep {x : Int} (b : Bool) (hx1 : 1 ≤ x) : spStep 0 (1, b) x = (1, true) := by
  unfold spStep
  have hl0' : (x == 0) = false := by rw [beq_eq_false_iff_ne]; omega
  have hq : Int.tdiv 0 x = 0 := Int.zero_tdiv x
  simp [hl0', hq]

theorem spFold_zero_keep : ∀ (xs : List Int), (∀ x ∈ xs, 1 ≤ x) → xs.foldl (spStep 0) (1, true) = (1, true)
  | [], _ => rfl
  | x :: xs, hx => by
    simp only [List.foldl_cons]
    rw [spStep_zero_keep true (hx x (by simp))]
    exact spFold_zero_keep xs (fun y hy => hx y (by simp [hy]))

/-- with `maxTotal = 0` (more than `MaxInt32` arguments) every non-empty argument is one too many -/
theorem spLoop_of_zero (l : Int) (rest : List Int) (hl : ∀ x ∈ l :: rest, 1 ≤ x) (hM0 : spMaxTotal (l :: rest).length = 0) :
    spLoop (l :: rest) = (1, true) := by
  unfold spLoop
  rw [hM0]
  simp only [List.foldl_cons]
  rw [spStep_zero_keep false (hl l (by simp))]
  exact spFold_zero_keep rest (fun y hy => hl y (by simp [hy]))

/-- **`setproduct` answers a number of tuples only if it is the true product of the lengths**
(all arguments non-empty): never an empty or short result through wrap-around -/
theorem setProductAlloc_ok_is_product (ls : List Int) (hl : ∀ l ∈ ls, 1 ≤ l) (n : Int) (h : setProductAlloc ls = .ok n) :
    n = prodLen ls := by
  have hb := spMaxTotal_bounds ls.length
  by_cases h1 : 1 ≤ spMaxTotal ls.length
  · have hp := spFold_prod ls (spMaxTotal ls.length) 1 hb.1 hb.2.1 (by omega) h1 hl
    have hge : 1 ≤ prodLen ls := le_prodFold ls 1 (by omega) hl
    unfold setProductAlloc at h
    simp only at h
    unfold spLoop at h
    generalize hst : ls.foldl (spStep (spMaxTotal ls.length)) (1, false) = st at h hp
    obtain ⟨t, b⟩ := st
    simp only at h hp
    cases b with
    | true =>
      by_cases ht : t = 0
      · simp [ht] at h; subst ht
        -- total = 0 with all lengths ≥ 1 is impossible: the invariant keeps total ≥ 1 … shown via the product when tooMany is unset;
        -- with tooMany set the answer `.ok 0` still needs total = 0: excluded by positivity below
        have hpos : ∀ (xs : List Int) (st : Int × Bool), 1 ≤ st.1 → (∀ l ∈ xs, 1 ≤ l) → st.1 ≤ spMaxTotal ls.length ∨ st.2 = true →
            1 ≤ (xs.foldl (spStep (spMaxTotal ls.length)) st).1 := by
          intro xs
          induction xs with
          | nil => intro st h _ _; exact h
          | cons x xs ih =>
            intro st hs hx hinv
            simp only [List.foldl_cons]
            have hx1 : 1 ≤ x := hx x (by simp)
            have hinv' := spStep_inv (M := spMaxTotal ls.length) hb.1 hb.2.1 (by omega : 0 ≤ x) ⟨by omega, hinv⟩
            apply ih _ _ (fun y hy => hx y (by simp [hy])) hinv'.2
            unfold spStep
            have hx0 : (x == 0) = false := by rw [beq_eq_false_iff_ne]; omega
            rw [if_neg (by rw [hx0]; simp)]
            by_cases hy : (st.1 != 0 && decide (st.1 > Int.tdiv (spMaxTotal ls.length) x)) = true
            · rw [if_pos hy]; exact hs
            · rw [if_neg hy]
              have hle : st.1 ≤ Int.tdiv (spMaxTotal ls.length) x := by
                simp only [Bool.and_eq_true, bne_iff_ne, ne_eq, decide_eq_true_eq, not_and] at hy
                have := hy (by omega); omega
              have hm := tdiv_pos_le (by omega : 0 < x) hb.1 hle
              have hge1 : st.1 ≤ st.1 * x := le_mul_pos (by omega) hx1
              have hw : wrap64 (st.1 * x) = st.1 * x := wrap64_id (by omega) (by unfold maxInt64; have := hb.2.1; unfold maxInt32 at this; omega)
              simp only [hw]; omega
        have := hpos ls (1, false) (by simp) hl (Or.inl h1)
        rw [hst] at this; simp at this
      · have : (t != 0 && true) = true := by simp [ht]
        simp [this] at h
    | false =>
      have hp' := hp rfl
      simp only [Bool.and_false] at h
      have ht : t = prodLen ls := hp'
      have ht0 : (t == 0) = false := by rw [beq_eq_false_iff_ne]; omega
      simp only [ht0] at h
      cases hm1 : makeslice t 24 with
      | ok _ =>
        rw [hm1] at h; simp only at h
        cases hm2 : makeslice (wrap64 (t * (ls.length : Int))) 32 with
        | ok _ => rw [hm2] at h; simp at h; omega
        | err c => rw [hm2] at h; simp at h
        | panic w => rw [hm2] at h; simp at h
        | unmodelled => rw [hm2] at h; simp at h
      | err c => rw [hm1] at h; simp at h
      | panic w => rw [hm1] at h; simp at h
      | unmodelled => rw [hm1] at h; simp at h
  · -- maxTotal = 0: more than MaxInt32 arguments; every non-empty argument list is refused
    have hM0 : spMaxTotal ls.length = 0 := by omega
    cases ls with
    | nil => simp [spMaxTotal] at hM0; exact absurd hM0 (by decide)
    | cons l rest =>
      exfalso
      have hloop := spLoop_of_zero l rest hl hM0
      unfold setProductAlloc at h
      simp only [hloop] at h
      simp at h

end D11
end CtyModel
