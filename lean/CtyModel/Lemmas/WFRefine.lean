/-
C06 lemmas, part 6: refinement builders.  Every builder method changes only the
work-in-progress refinement and never its kind; `NewValue` returns the receiver,
a null, an unknown carrying that refinement, or one of the collapsed known values
— all well-formed for the receiver's type.
-/
import CtyModel.Lemmas.WFSet
set_option linter.unusedSimpArgs false
set_option linter.unusedVariables false
namespace CtyModel
namespace Res
variable {α β : Type} {P : β → Prop}
theorem all_bind' (x : Res α) (f : α → Res β) : AllW P (x.bind f) ↔ AllW (fun a => AllW P (f a)) x := by
  cases x <;> simp [AllW, Res.bind]
end Res

namespace Refine
variable {nfc : String → Bool}
open Value

/-- same refinement struct kind -/
def sameKind : Rfn → Rfn → Bool
  | .unref, .unref => true
  | .nullable _, .nullable _ => true
  | .str _ _, .str _ _ => true
  | .num _ _ _, .num _ _ _ => true
  | .coll _ _ _, .coll _ _ _ => true
  | _, _ => false

theorem kindOk_sameKind {t : Ty} {r r' : Rfn} (h : sameKind r r' = true) : kindOk t r' = kindOk t r := by
  cases r <;> cases r' <;> simp_all [sameKind, kindOk]

theorem sameKind_refl (r : Rfn) : sameKind r r = true := by cases r <;> rfl
theorem sameKind_trans {a b c : Rfn} (h1 : sameKind a b = true) (h2 : sameKind b c = true) : sameKind a c = true := by
  cases a <;> cases b <;> cases c <;> simp_all [sameKind]
theorem sameKind_setNull (n : Tri) (r : Rfn) : sameKind r (setNull n r) = true := by cases r <;> rfl

/-- what a builder method may change: only the work-in-progress refinement, and not its kind -/
def Keeps (b b' : Builder) : Prop := b'.orig = b.orig ∧ b'.marks = b.marks ∧ sameKind b.wip b'.wip = true

theorem Keeps.refl (b : Builder) : Keeps b b := ⟨rfl, rfl, sameKind_refl _⟩
theorem Keeps.trans {a b c : Builder} (h1 : Keeps a b) (h2 : Keeps b c) : Keeps a c :=
  ⟨h2.1.trans h1.1, h2.2.1.trans h1.2.1, sameKind_trans h1.2.2 h2.2.2⟩

theorem keeps_stepNotNull (b : Builder) : Res.AllW (Keeps b) (stepNotNull b) := by
  unfold stepNotNull
  res_all
  exact (Res.all_ok _).mpr ⟨rfl, rfl, sameKind_setNull _ _⟩
theorem keeps_stepNull (b : Builder) : Res.AllW (Keeps b) (stepNull b) := by
  unfold stepNull
  res_all
  exact (Res.all_ok _).mpr ⟨rfl, rfl, sameKind_setNull _ _⟩

theorem keeps_lowerCore (b : Builder) (n lo hi m incl store) (hw : b.wip = .num n lo hi) :
    Res.AllW (Keeps b) (lowerCore b n lo hi m incl store) := by
  unfold lowerCore
  res_all
  all_goals try (dsimp only; res_all)
  all_goals first
    | exact (Res.all_ok _).mpr (Keeps.refl b)
    | exact (Res.all_ok _).mpr ⟨rfl, rfl, by rw [hw]; rfl⟩
theorem keeps_upperCore (b : Builder) (n lo hi m incl store) (hw : b.wip = .num n lo hi) :
    Res.AllW (Keeps b) (upperCore b n lo hi m incl store) := by
  unfold upperCore
  res_all
  all_goals try (dsimp only; res_all)
  all_goals first
    | exact (Res.all_ok _).mpr (Keeps.refl b)
    | exact (Res.all_ok _).mpr ⟨rfl, rfl, by rw [hw]; rfl⟩

theorem keeps_stepNumLower (b : Builder) (a incl) : Res.AllW (Keeps b) (stepNumLower b a incl) := by
  unfold stepNumLower
  split
  · rename_i n lo hi hw
    split
    · exact (Res.all_ok _).mpr (Keeps.refl b)
    · simp
    all_goals exact keeps_lowerCore b _ _ _ _ _ _ hw
  · simp
theorem keeps_stepNumUpper (b : Builder) (a incl) : Res.AllW (Keeps b) (stepNumUpper b a incl) := by
  unfold stepNumUpper
  split
  · rename_i n lo hi hw
    split
    · exact (Res.all_ok _).mpr (Keeps.refl b)
    · simp
    all_goals exact keeps_upperCore b _ _ _ _ _ _ hw
  · simp

theorem keeps_stepLenLower (b : Builder) (n : Int) : Res.AllW (Keeps b) (stepLenLower b n) := by
  unfold stepLenLower
  split
  · rename_i nl lo hi hw
    res_all
    all_goals first
      | exact (Res.all_ok _).mpr (Keeps.refl b)
      | exact (Res.all_ok _).mpr ⟨rfl, rfl, by rw [hw]; rfl⟩
  · simp
theorem keeps_stepLenUpper (b : Builder) (n : Int) : Res.AllW (Keeps b) (stepLenUpper b n) := by
  unfold stepLenUpper
  split
  · rename_i nl lo hi hw
    res_all
    all_goals first
      | exact (Res.all_ok _).mpr (Keeps.refl b)
      | exact (Res.all_ok _).mpr ⟨rfl, rfl, by rw [hw]; rfl⟩
  · simp
theorem keeps_stepPrefix (b : Builder) (p : String) : Res.AllW (Keeps b) (stepPrefix b p) := by
  unfold stepPrefix
  split
  · rename_i n q hw
    res_all
    all_goals first
      | exact (Res.all_ok _).mpr (Keeps.refl b)
      | exact (Res.all_ok _).mpr ⟨rfl, rfl, by rw [hw]; rfl⟩
  · simp

theorem keeps_bind {b : Builder} {x : Res Builder} {f : Builder → Res Builder} (hx : Res.AllW (Keeps b) x)
    (hf : ∀ b', Res.AllW (Keeps b') (f b')) : Res.AllW (Keeps b) (x.bind f) := by
  rw [Res.all_bind']
  refine Res.all_mono hx fun b' hb' => Res.all_mono (hf b') fun _ h => hb'.trans h

theorem keeps_step1 (b : Builder) (c : RefineCall) : Res.AllW (Keeps b) (step1 b c) := by
  cases c <;> simp only [step1]
  · exact keeps_stepNotNull b
  · exact keeps_stepNull b
  · exact keeps_stepNumLower b _ _
  · exact keeps_stepNumUpper b _ _
  · exact keeps_bind (keeps_stepNumLower b _ _) fun b' => keeps_stepNumUpper b' _ _
  · exact keeps_stepLenLower b _
  · exact keeps_stepLenUpper b _
  · exact keeps_bind (keeps_stepLenLower b _) fun b' => keeps_stepLenUpper b' _
  · exact keeps_stepPrefix b _
  · exact keeps_stepPrefix b _

theorem keeps_step (b : Builder) (c : RefineCall) : Res.AllW (Keeps b) (step b c) := by
  unfold step
  split
  · exact (Res.all_ok _).mpr (Keeps.refl b)
  · split
    · simp
    · exact keeps_step1 b c

theorem keeps_run : ∀ (cs : List RefineCall) (b : Builder), Res.AllW (Keeps b) (run b cs)
  | [], b => (Res.all_ok _).mpr (Keeps.refl b)
  | c :: cs, b => by
    simp only [run]
    exact keeps_bind (keeps_step b c) fun b' => keeps_run cs b'

/-- the builder invariant: the receiver is well-formed and unmarked, and — unless it is known, in which
case `NewValue` hands it back — the work-in-progress refinement is of the kind its type calls for -/
def BInv (nfc : String → Bool) (b : Builder) : Prop :=
  b.orig.WF nfc = true ∧ b.orig.isMarked = false ∧ (b.orig.isKnown = true ∨ kindOk b.orig.ty b.wip = true)

theorem BInv_of_keeps {b b' : Builder} (h : Keeps b b') (hb : BInv nfc b) : BInv nfc b' := by
  obtain ⟨h1, _, h3⟩ := h
  unfold BInv
  rw [h1, kindOk_sameKind h3]
  exact hb

theorem kindOk_freshWip (u : Value) (hk : u.isKnown = false) : kindOk u.ty (freshWip u) = true := by
  obtain ⟨t, p⟩ := u
  cases t <;> simp [freshWip, kindOk]
  -- the placeholder type: an unknown value is not null
  have : (⟨.dyn, p⟩ : Value).isNull = false := by
    simp only [isKnown, Payload.isKnown] at hk
    simp only [isNull, Payload.isNull]
    split at hk <;> simp_all
  simp [this]

theorem binv_init (v : Value) (hv : v.WF nfc = true) : Res.AllW (BInv nfc) (init v) := by
  have hu := wf_unmark hv
  have hum : v.unmark.isMarked = false := by
    simp only [WF, Bool.and_eq_true] at hv
    exact (Payload.wfP_unmark1 hv.2).2
  unfold init
  simp only
  split
  · simp
  · split
    · simp
    · rename_i r hr
      split
      · split
        · rename_i hk
          exact (Res.all_ok _).mpr ⟨hu, hum, Or.inr hk⟩
        · simp
      · refine (Res.all_ok _).mpr ⟨hu, hum, Or.inr (kindOk_freshWip _ ?_)⟩
        simp [isKnown, Payload.isKnown, hr, Payload.unmark1]
    · rename_i hnb hnu
      refine (Res.all_ok _).mpr ⟨hu, hum, ?_⟩
      by_cases hk : v.unmark.isKnown = true
      · exact Or.inl hk
      · exact Or.inr (kindOk_freshWip _ (by simpa using hk))

theorem wf_replicate_unk (e : Ty) : ∀ (n : Nat), Payload.wfAll nfc e (List.replicate n (.unk .unref)) = true
  | 0 => rfl
  | n + 1 => by simp [List.replicate, Payload.wfAll, Payload.kindOk_unref, wf_replicate_unk e n]

theorem wf_collapse (ty : Ty) (r : Rfn) (hty : ty.ok nfc = true) (hk : kindOk ty r = true) :
    Res.AllW (fun o => ∀ v, o = some v → v.WF nfc = true) (collapse ty r) := by
  unfold collapse
  res_all
  all_goals first
    | (cases ty <;> simp_all [kindOk, WF, Payload.wfP]; done)
    | (simp_all [WF, Payload.wfP, Payload.wfAll, Ty.ok_list, Ty.ok_set, Ty.ok_map, Ty.strictAsc, idsAsc, noDup,
        Payload.containsMarkedL, Payload.containsMarked, Payload.kindOk_unref, wf_replicate_unk]; done)

theorem wf_newValue (b : Builder) (hb : BInv nfc b) : Res.AllW (fun r => r.WF nfc = true) (newValue b) := by
  obtain ⟨hw, hm, hk⟩ := hb
  have hty := ok_of_wf hw
  unfold newValue
  split
  · exact (Res.all_ok _).mpr (wf_withMarks _ hw)
  · rename_i hnk
    simp only [Bool.or_eq_true, not_or, Bool.not_eq_true] at hnk
    have hkind : kindOk b.orig.ty b.wip = true := by
      rcases hk with hk | hk
      · rw [hnk.1] at hk; cases hk
      · exact hk
    simp only
    split
    · simp
    · split
      · exact (Res.all_ok _).mpr (wf_withMarks _ (wf_nullOf hty))
      · refine (Res.all_ok _).mpr (wf_withMarks _ ?_)
        simp [WF, hty, hkind]
      · have hc := wf_collapse b.orig.ty b.wip hty hkind
        split
        · rename_i v hcv
          rw [hcv] at hc
          exact (Res.all_ok _).mpr (wf_withMarks _ (hc v rfl))
        · refine (Res.all_ok _).mpr (wf_withMarks _ ?_)
          simp [WF, hty, hkind]
        all_goals simp

/-- `v.Refine().<calls>.NewValue()`, whenever it returns, is well-formed -/
theorem wf_refine (v : Value) (cs : List RefineCall) (hv : v.WF nfc = true) :
    Res.AllW (fun r => r.WF nfc = true) (refine v cs) := by
  unfold refine
  rw [Res.all_bind']
  refine Res.all_mono (binv_init v hv) fun b hb => ?_
  rw [Res.all_bind']
  refine Res.all_mono (keeps_run cs b) fun b' hk => ?_
  exact wf_newValue b' (BInv_of_keeps hk hb)
end Refine
end CtyModel
