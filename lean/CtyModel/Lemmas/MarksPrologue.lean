/-
The mark prologue of every operation method, as a shape — which operand is
unmarked at the top (`IsMarked` / `Unmark`) and which deeply (`ContainsMarked` /
`UnmarkDeep`) — tied on one side to the source text of cty/value_ops.go
(`Generated/OpPrologue.lean`, re-extracted on every check) and on the other to
the model (`Op.run` IS that prologue around the method's unmarked core).
-/
import CtyModel.MarksOps
import CtyModel.Generated.OpPrologue
namespace CtyModel
namespace Op
open Value

/-- how a method's prologue treats its operands, and the text of that prologue -/
structure Shape where
  method : String               -- Go method name
  recvDeep : Bool               -- receiver: `ContainsMarked`/`UnmarkDeep` (else `IsMarked`/`Unmark`)
  arg : Option (String × Bool)  -- second operand: its Go name, and whether it is unmarked deeply
  cond : String                 -- the condition of the prologue's `if`, as go/printer prints it
  body : String                 -- its body (statements joined by one blank)
  deriving Repr, DecidableEq

/-- One row per method: the flags say which operand is tested with `IsMarked` and
unmarked with `Unmark` (false) or tested with `ContainsMarked` and unmarked with
`UnmarkDeep` (true); `cond` / `body` spell the same thing out as Go text. -/
def shape : Op → Shape
  -- the three compositions have no prologue of their own (`Generated.opPrologues`: form "none")
  | .notEqual => ⟨"NotEqual", false, none, "", ""⟩
  | .le => ⟨"LessThanOrEqualTo", false, none, "", ""⟩
  | .ge => ⟨"GreaterThanOrEqualTo", false, none, "", ""⟩
  | .equals =>
    ⟨"Equals", true, some ("other", true),
      "val.ContainsMarked() || other.ContainsMarked()",
      "{ val, valMarks := val.UnmarkDeep() other, otherMarks := other.UnmarkDeep() return val.Equals(other).WithMarks(valMarks, otherMarks) }"⟩
  | .add =>
    ⟨"Add", false, some ("other", false),
      "val.IsMarked() || other.IsMarked()",
      "{ val, valMarks := val.Unmark() other, otherMarks := other.Unmark() return val.Add(other).WithMarks(valMarks, otherMarks) }"⟩
  | .sub =>
    ⟨"Subtract", false, some ("other", false),
      "val.IsMarked() || other.IsMarked()",
      "{ val, valMarks := val.Unmark() other, otherMarks := other.Unmark() return val.Subtract(other).WithMarks(valMarks, otherMarks) }"⟩
  | .mul =>
    ⟨"Multiply", false, some ("other", false),
      "val.IsMarked() || other.IsMarked()",
      "{ val, valMarks := val.Unmark() other, otherMarks := other.Unmark() return val.Multiply(other).WithMarks(valMarks, otherMarks) }"⟩
  | .div =>
    ⟨"Divide", false, some ("other", false),
      "val.IsMarked() || other.IsMarked()",
      "{ val, valMarks := val.Unmark() other, otherMarks := other.Unmark() return val.Divide(other).WithMarks(valMarks, otherMarks) }"⟩
  | .mod =>
    ⟨"Modulo", false, some ("other", false),
      "val.IsMarked() || other.IsMarked()",
      "{ val, valMarks := val.Unmark() other, otherMarks := other.Unmark() return val.Modulo(other).WithMarks(valMarks, otherMarks) }"⟩
  | .neg =>
    ⟨"Negate", false, none,
      "val.IsMarked()",
      "{ val, valMarks := val.Unmark() return val.Negate().WithMarks(valMarks) }"⟩
  | .abs =>
    ⟨"Absolute", false, none,
      "val.IsMarked()",
      "{ val, valMarks := val.Unmark() return val.Absolute().WithMarks(valMarks) }"⟩
  | .not =>
    ⟨"Not", false, none,
      "val.IsMarked()",
      "{ val, valMarks := val.Unmark() return val.Not().WithMarks(valMarks) }"⟩
  | .and =>
    ⟨"And", false, some ("other", false),
      "val.IsMarked() || other.IsMarked()",
      "{ val, valMarks := val.Unmark() other, otherMarks := other.Unmark() return val.And(other).WithMarks(valMarks, otherMarks) }"⟩
  | .or =>
    ⟨"Or", false, some ("other", false),
      "val.IsMarked() || other.IsMarked()",
      "{ val, valMarks := val.Unmark() other, otherMarks := other.Unmark() return val.Or(other).WithMarks(valMarks, otherMarks) }"⟩
  | .lt =>
    ⟨"LessThan", false, some ("other", false),
      "val.IsMarked() || other.IsMarked()",
      "{ val, valMarks := val.Unmark() other, otherMarks := other.Unmark() return val.LessThan(other).WithMarks(valMarks, otherMarks) }"⟩
  | .gt =>
    ⟨"GreaterThan", false, some ("other", false),
      "val.IsMarked() || other.IsMarked()",
      "{ val, valMarks := val.Unmark() other, otherMarks := other.Unmark() return val.GreaterThan(other).WithMarks(valMarks, otherMarks) }"⟩
  | .index =>
    ⟨"Index", false, some ("key", false),
      "val.IsMarked() || key.IsMarked()",
      "{ val, valMarks := val.Unmark() key, keyMarks := key.Unmark() return val.Index(key).WithMarks(valMarks, keyMarks) }"⟩
  | .hasIndex =>
    ⟨"HasIndex", false, some ("key", false),
      "val.IsMarked() || key.IsMarked()",
      "{ val, valMarks := val.Unmark() key, keyMarks := key.Unmark() return val.HasIndex(key).WithMarks(valMarks, keyMarks) }"⟩
  | .length =>
    ⟨"Length", false, none,
      "val.IsMarked()",
      "{ val, valMarks := val.Unmark() return val.Length().WithMarks(valMarks) }"⟩
  | .getAttr _ =>
    ⟨"GetAttr", false, none,
      "val.IsMarked()",
      "{ val, valMarks := val.Unmark() return val.GetAttr(name).WithMarks(valMarks) }"⟩
  | .hasElement _ =>
    ⟨"HasElement", false, some ("elem", true),
      "val.IsMarked() || elem.ContainsMarked()",
      "{ val, valMarks := val.Unmark() elem, elemMarks := elem.UnmarkDeep() return val.HasElement(elem).WithMarks(valMarks, elemMarks) }"⟩

def Shape.entry (s : Shape) : Generated.OpPrologue :=
  { method := s.method, cond := s.cond, form := "unmark-recurse-withmarks", body := s.body }

/-- every operation method with a prologue of its own (the attribute name and the
needle hash do not matter here) -/
def all : List Op :=
  [.equals, .add, .sub, .mul, .div, .mod, .neg, .abs, .not, .and, .or, .lt, .gt, .index, .hasIndex, .length,
   .getAttr "", .hasElement none]

/-- the table row the source must show for this method -/
def sourceRow (op : Op) : Option Generated.OpPrologue :=
  Generated.opPrologues.find? fun e => e.method == op.shape.method

/-! ### the model is that prologue around the unmarked core -/

def isM (deep : Bool) (v : Value) : Bool := if deep then v.containsMarked else v.isMarked
def unM (deep : Bool) (v : Value) : Value := if deep then v.unmarkDeep else v.unmark
def msM (deep : Bool) (v : Value) : List String := if deep then v.marksDeep else v.marks

/-- `if test(val) || test(arg) { val, vm := un(val); arg, am := un(arg); return val.M(arg).WithMarks(vm, am) }` -/
def prologue2 (rd ad : Bool) (core : Value → Value → Res Value) (a b : Value) : Res Value :=
  if isM rd a || isM ad b then
    (core (unM rd a) (unM ad b)).map (·.withMarks (unionMarks (msM rd a) (msM ad b)))
  else core a b

def prologue1 (rd : Bool) (core : Value → Res Value) (a : Value) : Res Value :=
  if isM rd a then (core (unM rd a)).map (·.withMarks (msM rd a)) else core a

/-- the unmarked core of each binary method -/
def core2 : Op → Value → Value → Res Value
  | .equals => fun a b => equalsP a.ty a.v b.ty b.v
  | .add => addU | .sub => subU | .mul => mulU | .div => divU | .mod => modU
  | .and => andU | .or => orU | .lt => lessThanU | .gt => greaterThanU
  | .index => indexU | .hasIndex => hasIndexU
  | .hasElement h => fun a b => hasElementU a b h
  | _ => fun _ _ => .unmodelled

def core1 : Op → Value → Res Value
  | .neg => negU | .abs => absU | .not => notU | .length => lengthU
  | .getAttr n => fun a => getAttrU a n
  | _ => fun _ => .unmodelled

end Op
end CtyModel
