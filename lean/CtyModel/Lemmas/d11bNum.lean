/-
C11 totality obligations (slice d11b) for the statically typed number / bool functions of
`Stdlib/d11bFuncs.lean`: signum, ceil, floor, int, abs, neg, min, max, not, and, or.
-/
import CtyModel.Lemmas.d11bBase
import CtyModel.Lemmas.StdNumMisc
import CtyModel.Stdlib.d11bFuncs
import CtyModel.Lemmas.StdOblTable
namespace CtyModel
namespace D11b
open Fn Value Stdlib
variable {nfc : String → Bool}

theorem unmark_eq_self {a : Value} (h : a.isMarked = false) : a.unmark = a := by
  obtain ⟨t, p⟩ := a
  cases p <;> simp_all [Value.unmark, Payload.unmark1, Value.isMarked, Payload.isMarked]

/-- an argument under a `number` parameter without `AllowNull` / `AllowUnknown`: a known number,
possibly under a marker -/
theorem num_arg {p : Param} {a : Value} (ha : ImplArgOK nfc p a) (hty : p.ty = .number)
    (hu : p.allowUnknown = false) (hn : p.allowNull = false) : ∃ x, a.unmark = numVal x := by
  obtain ⟨hk, hnn⟩ := arg_known_nonnull ha hu hn
  have hd := not_dyn_of_known_nonnull ha.wf hk hnn
  have ht : a.ty = .number := conform_number_inv (hty ▸ ha.conf hd)
  obtain ⟨huw, hum, huk, hun⟩ := arg_unmark ha.toArgOK
  exact wf_number_shape huw hum (huk.trans hk) (hun.trans hnn) ht

theorem conform_bool_inv {t : Ty} (h : Ty.conformErrs .bool t = 0) : t = .bool := by
  cases t <;> simp [Ty.conformErrs, Ty.equals] at h
  rfl

theorem bool_arg {p : Param} {a : Value} (ha : ImplArgOK nfc p a) (hty : p.ty = .bool)
    (hu : p.allowUnknown = false) (hn : p.allowNull = false) : ∃ x, a.unmark = boolVal x := by
  obtain ⟨hk, hnn⟩ := arg_known_nonnull ha hu hn
  have hd := not_dyn_of_known_nonnull ha.wf hk hnn
  have ht : a.ty = .bool := conform_bool_inv (hty ▸ ha.conf hd)
  obtain ⟨huw, hum, huk, hun⟩ := arg_unmark ha.toArgOK
  exact wf_bool_shape huw hum (huk.trans hk) (hun.trans hnn) ht

/-- … and the argument itself when the parameter does not allow marks -/
theorem num_arg' {p : Param} {a : Value} (ha : ImplArgOK nfc p a) (hty : p.ty = .number)
    (hu : p.allowUnknown = false) (hn : p.allowNull = false) (hm : p.allowMarked = false) : ∃ x, a = numVal x := by
  obtain ⟨x, hx⟩ := num_arg ha hty hu hn
  rw [unmark_eq_self (isMarked_of_clean (ha.mark hm))] at hx
  exact ⟨x, hx⟩

theorem implGood_num (x : Num) : ImplGood .number (.ok (numVal x)) :=
  implGood_known rfl rfl rfl rfl (fun _ h => by cases h) rfl

theorem implGood_bool (b : Bool) : ImplGood .bool (.ok (boolVal b)) :=
  implGood_known rfl rfl rfl rfl (fun _ h => by cases h) rfl

/-- `WithMarks` on a good result -/
theorem implGood_withMarks {rt : Ty} {x : Value} (ms : List String) (h : ImplGood rt (.ok x)) :
    ImplGood rt (.ok (x.withMarks ms)) := by
  obtain ⟨h1, h2⟩ := h.2 x rfl
  refine implGood_ok h1 ?_
  have : (x.withMarks ms).unmark = x.unmark := by simp [Value.unmark, Value.withMarks, Payload.unmark1_withMarks]
  rw [this]; exact h2

/-- a unary operation method under its marks prologue -/
theorem implGood_unMarks {rt : Ty} {f : Value → Res Value} {a : Value} (h : ImplGood rt (f a.unmark)) :
    ImplGood rt (unMarks f a) := by
  unfold unMarks
  split
  · cases hr : f a.unmark with
    | ok x => rw [hr] at h; exact implGood_withMarks _ h
    | err c => exact implGood_err _ _
    | panic w => exact absurd hr (h.1 w)
    | unmodelled => exact implGood_unmodelled _
  · rename_i hm
    rw [unmark_eq_self (by simpa using hm)] at h
    exact h

/-- a binary operation method under its marks prologue -/
theorem implGood_binMarks {rt : Ty} {f : Value → Value → Res Value} {a b : Value} (h : ImplGood rt (f a.unmark b.unmark)) :
    ImplGood rt (binMarks f a b) := by
  unfold binMarks
  split
  · cases hr : f a.unmark b.unmark with
    | ok x => rw [hr] at h; exact implGood_withMarks _ h
    | err c => exact implGood_err _ _
    | panic w => exact absurd hr (h.1 w)
    | unmodelled => exact implGood_unmodelled _
  · rename_i hm
    simp only [Bool.or_eq_true, not_or, Bool.not_eq_true] at hm
    rw [unmark_eq_self hm.1, unmark_eq_self hm.2] at h
    exact h

/-! ### the eleven functions -/

theorem static_total (T : Ty) (as : List Value) (w : String) : staticTf T as ≠ .panic w := by simp [staticTf]

theorem good_signum {as : List Value} {rt : Ty} (h : ImplArgsOK nfc signumF.spec as) (ht : staticTf .number as = .ok rt) :
    ImplGood rt (implOf StdNum.signumImpl as rt) := by
  cases ht
  obtain ⟨a, rfl, ha⟩ := args_inv1 h
  obtain ⟨x, rfl⟩ := num_arg' ha rfl rfl rfl rfl
  simp only [implOf, StdNum.signumImpl, StdNum.arg, List.getElem?_cons_zero, Res.bind_ok, StdNum.asBigFloat]
  exact implGood_num _

theorem good_ceil {as : List Value} {rt : Ty} (h : ImplArgsOK nfc ceilF.spec as) (ht : staticTf .number as = .ok rt) :
    ImplGood rt (implOf StdNum.ceilImpl as rt) := by
  cases ht
  obtain ⟨a, rfl, ha⟩ := args_inv1 h
  obtain ⟨x, rfl⟩ := num_arg' ha rfl rfl rfl rfl
  cases x with
  | inf n => exact implGood_num _
  | fin n m e p =>
    simp only [implOf, StdNum.ceilImpl, StdNum.arg, List.getElem?_cons_zero, Res.bind_ok, StdNum.asBigFloat]
    exact implGood_num _

theorem good_floor {as : List Value} {rt : Ty} (h : ImplArgsOK nfc floorF.spec as) (ht : staticTf .number as = .ok rt) :
    ImplGood rt (implOf StdNum.floorImpl as rt) := by
  cases ht
  obtain ⟨a, rfl, ha⟩ := args_inv1 h
  obtain ⟨x, rfl⟩ := num_arg' ha rfl rfl rfl rfl
  cases x with
  | inf n => exact implGood_num _
  | fin n m e p =>
    simp only [implOf, StdNum.floorImpl, StdNum.arg, List.getElem?_cons_zero, Res.bind_ok, StdNum.asBigFloat]
    exact implGood_num _


theorem good_int {as : List Value} {rt : Ty} (h : ImplArgsOK nfc intF.spec as) (ht : staticTf .number as = .ok rt) :
    ImplGood rt (implOf StdNum.intImpl as rt) := by
  cases ht
  obtain ⟨a, rfl, ha⟩ := args_inv1 h
  obtain ⟨x, rfl⟩ := num_arg' ha rfl rfl rfl rfl
  simp only [implOf]
  cases x with
  | inf n => obtain ⟨msg, hm⟩ := StdNum.int_inf n; rw [hm]; exact implGood_err _ _
  | fin n m e p =>
    by_cases hi : (Num.fin n m e p).isInt = true
    · rw [StdNum.int_whole _ hi]; exact implGood_num _
    · simp only [StdNum.intImpl, StdNum.arg, List.getElem?_cons_zero, Res.bind_ok, StdNum.asBigFloat]
      simp [numVal, Value.isMarked, Payload.isMarked, Ty.isNumber, Num.isInf, hi, Num.truncInt]
      exact implGood_num _

theorem absU_num (x : Num) : absU (numVal x) = .ok (numVal x.abs) := by
  simpa [Value.abs, unMarks, numVal, Value.isMarked, Payload.isMarked] using StdNum.abs_num x

theorem negU_num (x : Num) : negU (numVal x) = .ok (numVal x.neg) := by
  simpa [Value.neg, unMarks, numVal, Value.isMarked, Payload.isMarked] using StdNum.neg_num x

theorem good_abs {as : List Value} {rt : Ty} (h : ImplArgsOK nfc absF.spec as) (ht : staticTf .number as = .ok rt) :
    ImplGood rt (implOf StdNum.absoluteImpl as rt) := by
  cases ht
  obtain ⟨a, rfl, ha⟩ := args_inv1 h
  obtain ⟨x, hx⟩ := num_arg ha rfl rfl rfl
  simp only [implOf, StdNum.absoluteImpl, StdNum.arg, List.getElem?_cons_zero, Res.bind_ok, Value.abs]
  refine implGood_unMarks ?_
  rw [hx, absU_num]; exact implGood_num _

theorem good_neg {as : List Value} {rt : Ty} (h : ImplArgsOK nfc negF.spec as) (ht : staticTf .number as = .ok rt) :
    ImplGood rt (implOf StdNum.negateImpl as rt) := by
  cases ht
  obtain ⟨a, rfl, ha⟩ := args_inv1 h
  obtain ⟨x, hx⟩ := num_arg ha rfl rfl rfl
  simp only [implOf, StdNum.negateImpl, StdNum.arg, List.getElem?_cons_zero, Res.bind_ok, Value.neg]
  refine implGood_unMarks ?_
  rw [hx, negU_num]; exact implGood_num _

theorem all_numVal : ∀ (as : List Value), (∀ a ∈ as, ∃ x, a = numVal x) → ∃ xs : List Num, as = xs.map numVal
  | [], _ => ⟨[], rfl⟩
  | a :: as, h => by
    obtain ⟨x, rfl⟩ := h a List.mem_cons_self
    obtain ⟨xs, rfl⟩ := all_numVal as fun b hb => h b (List.mem_cons_of_mem _ hb)
    exact ⟨x :: xs, rfl⟩

theorem good_min {as : List Value} {rt : Ty} (h : ImplArgsOK nfc minF.spec as) (ht : staticTf .number as = .ok rt) :
    ImplGood rt (implOf StdNum.minImpl as rt) := by
  cases ht
  have hc := args_invVar h
  obtain ⟨xs, rfl⟩ := all_numVal as fun a ha => num_arg' (hc a ha) rfl rfl rfl rfl
  simp only [implOf, StdNum.minImpl]
  split
  · exact implGood_err _ _
  · show ImplGood .number (StdNum.minLoop (xs.map numVal) (numVal (.inf false)))
    rw [StdNum.minLoop_num]; exact implGood_num _

theorem good_max {as : List Value} {rt : Ty} (h : ImplArgsOK nfc maxF.spec as) (ht : staticTf .number as = .ok rt) :
    ImplGood rt (implOf StdNum.maxImpl as rt) := by
  cases ht
  have hc := args_invVar h
  obtain ⟨xs, rfl⟩ := all_numVal as fun a ha => num_arg' (hc a ha) rfl rfl rfl rfl
  simp only [implOf, StdNum.maxImpl]
  split
  · exact implGood_err _ _
  · show ImplGood .number (StdNum.maxLoop (xs.map numVal) (numVal (.inf true)))
    rw [StdNum.maxLoop_num]; exact implGood_num _

theorem notU_bool (b : Bool) : notU (boolVal b) = .ok (boolVal (!b)) := by
  simp [notU, typeCheck, typeCheckAux, boolVal, Ty.isDyn, Ty.equals, Value.isUnk, asBool]

theorem andU_bool (x y : Bool) : ∃ r, andU (boolVal x) (boolVal y) = .ok (boolVal r) := by
  cases x <;> simp [andU, typeCheck, typeCheckAux, boolVal, Ty.isDyn, Ty.equals, Value.isUnk, asBool]

theorem orU_bool (x y : Bool) : ∃ r, orU (boolVal x) (boolVal y) = .ok (boolVal r) := by
  cases x <;> simp [orU, typeCheck, typeCheckAux, boolVal, Ty.isDyn, Ty.equals, Value.isUnk, asBool]

theorem good_not {as : List Value} {rt : Ty} (h : ImplArgsOK nfc notF.spec as) (ht : staticTf .bool as = .ok rt) :
    ImplGood rt (implOf StdNum.notImpl as rt) := by
  cases ht
  obtain ⟨a, rfl, ha⟩ := args_inv1 h
  obtain ⟨x, hx⟩ := bool_arg ha rfl rfl rfl
  simp only [implOf, StdNum.notImpl, StdNum.arg, List.getElem?_cons_zero, Res.bind_ok, Value.not]
  refine implGood_unMarks ?_
  rw [hx, notU_bool]; exact implGood_bool _

theorem good_and {as : List Value} {rt : Ty} (h : ImplArgsOK nfc andF.spec as) (ht : staticTf .bool as = .ok rt) :
    ImplGood rt (implOf StdNum.andImpl as rt) := by
  cases ht
  obtain ⟨a, b, rfl, ha, hb⟩ := args_inv2 h
  obtain ⟨x, hx⟩ := bool_arg ha rfl rfl rfl
  obtain ⟨y, hy⟩ := bool_arg hb rfl rfl rfl
  simp only [implOf, StdNum.andImpl, StdNum.arg, List.getElem?_cons_zero, List.getElem?_cons_succ, Res.bind_ok, Value.and]
  refine implGood_binMarks ?_
  obtain ⟨r, hr⟩ := andU_bool x y
  rw [hx, hy, hr]; exact implGood_bool _

theorem good_or {as : List Value} {rt : Ty} (h : ImplArgsOK nfc orF.spec as) (ht : staticTf .bool as = .ok rt) :
    ImplGood rt (implOf StdNum.orImpl as rt) := by
  cases ht
  obtain ⟨a, b, rfl, ha, hb⟩ := args_inv2 h
  obtain ⟨x, hx⟩ := bool_arg ha rfl rfl rfl
  obtain ⟨y, hy⟩ := bool_arg hb rfl rfl rfl
  simp only [implOf, StdNum.orImpl, StdNum.arg, List.getElem?_cons_zero, List.getElem?_cons_succ, Res.bind_ok, Value.or]
  refine implGood_binMarks ?_
  obtain ⟨r, hr⟩ := orU_bool x y
  rw [hx, hy, hr]; exact implGood_bool _

/-! ### `Call` is total for every function of `D11b.table` -/

/-- what is proved of one function: `Call` on well-formed arguments of any kind returns a value or
an ordinary error -/
def CallTotal (nfc : String → Bool) (f : Func) : Prop :=
  ∀ (E : Env) (args : List Value), (∀ a ∈ args, a.WF nfc = true) →
    (∀ w, (call f.spec (f.tf E) (f.impl E) args).1 ≠ .panic w) ∧
    (∀ w, (call f.spec (f.tf E) (f.impl E) args).1 ≠ .err (.panicError w))

theorem callTotal_mk {spec : Spec} {T : Ty} {f : List Value → Res Value} (hr : spec.refine = some refineNN)
    (hg : ∀ as rt, ImplArgsOK nfc spec as → staticTf T as = .ok rt → ImplGood rt (implOf f as rt)) :
    CallTotal nfc (mk spec T f) := fun _ args hargs =>
  call_total_of_good spec (staticTf T) (implOf f) hr (fun as w _ => static_total T as w) hg args hargs

theorem callTotal_table : ∀ e ∈ table, CallTotal nfc e.2.2.2 := by
  intro e he
  simp only [table, List.mem_cons, List.not_mem_nil, or_false] at he
  rcases he with rfl | rfl | rfl | rfl | rfl | rfl | rfl | rfl | rfl | rfl | rfl
  · exact callTotal_mk rfl fun _ _ => good_signum
  · exact callTotal_mk rfl fun _ _ => good_ceil
  · exact callTotal_mk rfl fun _ _ => good_floor
  · exact callTotal_mk rfl fun _ _ => good_int
  · exact callTotal_mk rfl fun _ _ => good_abs
  · exact callTotal_mk rfl fun _ _ => good_neg
  · exact callTotal_mk rfl fun _ _ => good_min
  · exact callTotal_mk rfl fun _ _ => good_max
  · exact callTotal_mk rfl fun _ _ => good_not
  · exact callTotal_mk rfl fun _ _ => good_and
  · exact callTotal_mk rfl fun _ _ => good_or


/-- the `Type` callback of every entry of `D11b.table` is the constant one of the static type the
SOURCE declares for that function (the string of the regenerated syntax table, read by `Std.staticTy?`) -/
theorem table_static : ∀ e ∈ table, ∃ T, Std.staticTy? e.2.2.1 = some T ∧ ∀ E as, e.2.2.2.tf E as = .ok T := by
  intro e he
  simp only [table, List.mem_cons, List.not_mem_nil, or_false] at he
  rcases he with rfl | rfl | rfl | rfl | rfl | rfl | rfl | rfl | rfl | rfl | rfl <;>
    exact ⟨_, rfl, fun _ _ => rfl⟩

end D11b
end CtyModel
