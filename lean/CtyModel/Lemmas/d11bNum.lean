/-
C11 totality obligations (slice d11b) for the statically typed number / bool functions of
`Stdlib/d11bFuncs.lean`: signum, ceil, floor, int, abs, neg, min, max, not, and, or.
-/
import CtyModel.Lemmas.d11bBase
import CtyModel.Lemmas.StdNumMisc
import CtyModel.Stdlib.d11bFuncs
import CtyModel.Lemmas.StdOblTable
namespace CtyModel
namespace D11b
open Fn Value Stdlib
variable {nfc : String → Bool}

theorem unmark_eq_self {a : Value} (h : a.isMarked = false) : a.unmark = a := by
  obtain ⟨t, p⟩ := a
  cases p <;> simp_all [Value.unmark, Payload.unmark1, Value.isMarked, Payload.isMarked]

/-- an argument under a `number` parameter without `AllowNull` / `AllowUnknown`: a known number,
possibly under a marker -/
theorem num_arg {p : Param} {a : Value} (ha : ImplArgOK nfc p a) (hty : p.ty = .number)
    (hu : p.allowUnknown = false) (hn : p.allowNull = false) : ∃ x, a.unmark = numVal x := by
  obtain ⟨hk, hnn⟩ := arg_known_nonnull ha hu hn
  have hd := not_dyn_of_known_nonnull ha.wf hk hnn
  have ht : a.ty = .number := conform_number_inv (hty ▸ ha.conf hd)
  obtain ⟨huw, hum, huk, hun⟩ := arg_unmark ha.toArgOK
  exact wf_number_shape huw hum (huk.trans hk) (hun.trans hnn) ht

theorem conform_bool_inv {t : Ty} (h : Ty.conformErrs .bool t = 0) : t = .bool := by
  cases t <;> simp [Ty.conformErrs, Ty.equals] at h
  rfl

theorem bool_arg {p : Param} {a : Value} (ha : ImplArgOK nfc p a) (hty : p.ty = .bool)
    (hu : p.allowUnknown = false) (hn : p.allowNull = false) : ∃ x, a.unmark = boolVal x := by
  obtain ⟨hk, hnn⟩ := arg_known_nonnull ha hu hn
  have hd := not_dyn_of_known_nonnull ha.wf hk hnn
  have ht : a.ty = .bool := conform_bool_inv (hty ▸ ha.conf hd)
  obtain ⟨huw, hum, huk, hun⟩ := arg_unmark ha.toArgOK
  exact wf_bool_shape huw hum (huk.trans hk) (hun.trans hnn) ht

/-- … and the argument itself when the parameter does not allow marks -/
theorem num_arg' {p : Param} {a : Value} (ha : ImplArgOK nfc p a) (hty : p.ty = .number)
    (hu : p.allowUnknown = false) (hn : p.allowNull = false) (hm : p.allowMarked = false) : ∃ x, a = numVal x := by
  obtain ⟨x, hx⟩ := num_arg ha hty hu hn
  rw [unmark_eq_self (isMarked_of_clean (ha.mark hm))] at hx
  exact ⟨x, hx⟩

theorem implGood_num (x : Num) : ImplGood .number (.ok (numVal x)) :=
  implGood_known rfl rfl rfl rfl (fun _ h => by cases h) rfl

theorem implGood_bool (b : Bool) : ImplGood .bool (.ok (boolVal b)) :=
  implGood_known rfl rfl rfl rfl (fun _ h => by cases h) rfl

/-- `WithMarks` on a good result -/
theorem implGood_withMarks {rt : Ty} {x : Value} (ms : List String) (h : ImplGood rt (.ok x)) :
    ImplGood rt (.ok (x.withMarks ms)) := by
  obtain ⟨h1, h2⟩ := h.2 x rfl
  refine implGood_ok h1 ?_
  have : (x.withMarks ms).unmark = x.unmark := by simp [Value.unmark, Value.withMarks, Payload.unmark1_withMarks]
  rw [this]; exact h2

/-- a unary operation method under its marks prologue -/
theorem implGood_unMarks {rt : Ty} {f : Value → Res Value} {a : Value} (h : ImplGood rt (f a.unmark)) :
    ImplGood rt (unMarks f a) := by
  unfold unMarks
  split
  · cases hr : f a.unmark with
    | ok x => rw [hr] at h; exact implGood_withMarks _ h
    | err c => exact implGood_err _ _
    | panic w => exact absurd hr (h.1 w)
    | unmodelled => exact implGood_unmodelled _
  · rename_i hm
    rw [unmark_eq_self (by simpa using hm)] at h
    exact h

/-- a binary operation method under its marks prologue -/
theorem implGood_binMarks {rt : Ty} {f : Value → Value → Res Value} {a b : Value} (h : ImplGood rt (f a.unmark b.unmark)) :
    ImplGood rt (binMarks f a b) := by
  unfold binMarks
  split
  · cases hr : f a.unmark b.unmark with
    | ok x => rw [hr] at h; exact implGood_withMarks _ h
    | err c => exact implGood_err _ _
    | panic w => exact absurd hr (h.1 w)
    | unmodelled => exact implGood_unmodelled _
  · rename_i hm
    simp only [Bool.or_eq_true, not_or, Bool.not_eq_true] at hm
    rw [unmark_eq_self hm.1, unmark_eq_self hm.2] at h
    exact h

/-! ### the eleven functions -/

theorem static_total (T : Ty) (as : List Value) (w : String) : staticTf T as ≠ .panic w := by simp [staticTf]

theorem good_signum {as : List Value} {rt : Ty} (h : ImplArgsOK nfc signumF.spec as) (ht : staticTf .number as = .ok rt) :
    ImplGood rt (implOf StdNum.signumImpl as rt) := by
  cases ht
  obtain ⟨a, rfl, ha⟩ := args_inv1 h
  obtain ⟨x, rfl⟩ := num_arg' ha rfl rfl rfl rfl
  simp only [implOf, StdNum.signumImpl, StdNum.arg, List.getElem?_cons_zero, Res.bind_ok, StdNum.asBigFloat]
  exact implGood_num _

theorem good_ceil {as : List Value} {rt : Ty} (h : ImplArgsOK nfc ceilF.spec as) (ht : staticTf .number as = .ok rt) :
    ImplGood rt (implOf StdNum.ceilImpl as rt) := by
  cases ht
  obtain ⟨a, rfl, ha⟩ := args_inv1 h
  obtain ⟨x, rfl⟩ := num_arg' ha rfl rfl rfl rfl
  cases x with
  | inf n => exact implGood_num _
  | fin n m e p =>
    simp only [implOf, StdNum.ceilImpl, StdNum.arg, List.getElem?_cons_zero, Res.bind_ok, StdNum.asBigFloat]
    exact implGood_num _

theorem good_floor {as : List Value} {rt : Ty} (h : ImplArgsOK nfc floorF.spec as) (ht : staticTf .number as = .ok rt) :
    ImplGood rt (implOf StdNum.floorImpl as rt) := by
  cases ht
  obtain ⟨a, rfl, ha⟩ := args_inv1 h
  obtain ⟨x, rfl⟩ := num_arg' ha rfl rfl rfl rfl
  cases x with
  | inf n => exact implGood_num _
  | fin n m e p =>
    simp only [implOf, StdNum.floorImpl, StdNum.arg, List.getElem?_cons_zero, Res.bind_ok, StdNum.asBigFloat]
    exact implGood_num _


theorem good_int {as : List Value} {rt : Ty} (h : ImplArgsOK nfc intF.spec as) (ht : staticTf .number as = .ok rt) :
    ImplGood rt (implOf StdNum.intImpl as rt) := by
  cases ht
  obtain ⟨a, rfl, ha⟩ := args_inv1 h
  obtain ⟨x, rfl⟩ := num_arg' ha rfl rfl rfl rfl
  simp only [implOf]
  cases x with
  | inf n => obtain ⟨msg, hm⟩ := StdNum.int_inf n; rw [hm]; exact implGood_err _ _
  | fin n m e p =>
    by_cases hi : (Num.fin n m e p).isInt = true
    · rw [StdNum.int_whole _ hi]; exact implGood_num _
    · simp only [StdNum.intImpl, StdNum.arg, List.getElem?_cons_zero, Res.bind_ok, StdNum.asBigFloat]
      simp [numVal, Value.isMarked, Payload.isMarked, Ty.isNumber, Num.isInf, hi, Num.truncInt]
      exact implGood_num _

theorem absU_num (x : Num) : absU (numVal x) = .ok (numVal x.abs) := by
  simpa [Value.abs, unMarks, numVal, Value.isMarked, Payload.isMarked] using StdNum.abs_num x

theorem negU_num (x : Num) : negU (numVal x) = .ok (numVal x.neg) := by
  simpa [Value.neg, unMarks, numVal, Value.isMarked, Payload.isMarked] using StdNum.neg_num x

theorem good_abs {as : List Value} {rt : Ty} (h : ImplArgsOK nfc absF.spec as) (ht : staticTf .number as = .ok rt) :
    ImplGood rt (implOf StdNum.absoluteImpl as rt) := by
  cases ht
  obtain ⟨a, rfl, ha⟩ := args_inv1 h
  obtain ⟨x, hx⟩ := num_arg ha rfl rfl rfl
  simp only [implOf, StdNum.absoluteImpl, StdNum.arg, List.getElem?_cons_zero, Res.bind_ok, Value.abs]
  refine implGood_unMarks ?_
  rw [hx, absU_num]; exact implGood_num _

theorem good_neg {as : List Value} {rt : Ty} (h : ImplArgsOK nfc negF.spec as) (ht : staticTf .number as = .ok rt) :
    ImplGood rt (implOf StdNum.negateImpl as rt) := by
  cases ht
  obtain ⟨a, rfl, ha⟩ := args_inv1 h
  obtain ⟨x, hx⟩ := num_arg ha rfl rfl rfl
  simp only [implOf, StdNum.negateImpl, StdNum.arg, List.getElem?_cons_zero, Res.bind_ok, Value.neg]
  refine implGood_unMarks ?_
  rw [hx, negU_num]; exact implGood_num _

theorem all_numVal : ∀ (as : List Value), (∀ a ∈ as, ∃ x, a = numVal x) → ∃ xs : List Num, as = xs.map numVal
  | [], _ => ⟨[], rfl⟩
  | a :: as, h => by
    obtain ⟨x, rfl⟩ := h a List.mem_cons_self
    obtain ⟨xs, rfl⟩ := all_numVal as fun b hb => h b (List.mem_cons_of_mem _ hb)
    exact ⟨x :: xs, rfl⟩

theorem good_min {as : List Value} {rt : Ty} (h : ImplArgsOK nfc minF.spec as) (ht : staticTf .number as = .ok rt) :
    ImplGood rt (implOf StdNum.minImpl as rt) := by
  cases ht
  have hc := args_invVar h
  obtain ⟨xs, rfl⟩ := all_numVal as fun a ha => num_arg' (hc a ha) rfl rfl rfl rfl
  simp only [implOf, StdNum.minImpl]
  split
  · exact implGood_err _ _
  · show ImplGood .number (StdNum.minLoop (xs.map numVal) (numVal (.inf false)))
    rw [StdNum.minLoop_num]; exact implGood_num _

theorem good_max {as : List Value} {rt : Ty} (h : ImplArgsOK nfc maxF.spec as) (ht : staticTf .number as = .ok rt) :
    ImplGood rt (implOf StdNum.maxImpl as rt) := by
  cases ht
  have hc := args_invVar h
  obtain ⟨xs, rfl⟩ := all_numVal as fun a ha => num_arg' (hc a ha) rfl rfl rfl rfl
  simp only [implOf, StdNum.maxImpl]
  split
  · exact implGood_err _ _
  · show ImplGood .number (StdNum.maxLoop (xs.map numVal) (numVal (.inf true)))
    rw [StdNum.maxLoop_num]; exact implGood_num _

theorem notU_bool (b : Bool) : notU (boolVal b) = .ok (boolVal (!b)) := by
  simp [notU, typeCheck, typeCheckAux, boolVal, Ty.isDyn, Ty.equals, Value.isUnk, asBool]

theorem andU_bool (x y : Bool) : ∃ r, andU (boolVal x) (boolVal y) = .ok (boolVal r) := by
  cases x <;> simp [andU, typeCheck, typeCheckAux, boolVal, Ty.isDyn, Ty.equals, Value.isUnk, asBool]

theorem orU_bool (x y : Bool) : ∃ r, orU (boolVal x) (boolVal y) = .ok (boolVal r) := by
  cases x <;> simp [orU, typeCheck, typeCheckAux, boolVal, Ty.isDyn, Ty.equals, Value.isUnk, asBool]

theorem good_not {as : List Value} {rt : Ty} (h : ImplArgsOK nfc notF.spec as) (ht : staticTf .bool as = .ok rt) :
    ImplGood rt (implOf StdNum.notImpl as rt) := by
  cases ht
  obtain ⟨a, rfl, ha⟩ := args_inv1 h
  obtain ⟨x, hx⟩ := bool_arg ha rfl rfl rfl
  simp only [implOf, StdNum.notImpl, StdNum.arg, List.getElem?_cons_zero, Res.bind_ok, Value.not]
  refine implGood_unMarks ?_
  rw [hx, notU_bool]; exact implGood_bool _

theorem good_and {as : List Value} {rt : Ty} (h : ImplArgsOK nfc andF.spec as) (ht : staticTf .bool as = .ok rt) :
    ImplGood rt (implOf StdNum.andImpl as rt) := by
  cases ht
  obtain ⟨a, b, rfl, ha, hb⟩ := args_inv2 h
  obtain ⟨x, hx⟩ := bool_arg ha rfl rfl rfl
  obtain ⟨y, hy⟩ := bool_arg hb rfl rfl rfl
  simp only [implOf, StdNum.andImpl, StdNum.arg, List.getElem?_cons_zero, List.getElem?_cons_succ, Res.bind_ok, Value.and]
  refine implGood_binMarks ?_
  obtain ⟨r, hr⟩ := andU_bool x y
  rw [hx, hy, hr]; exact implGood_bool _

theorem good_or {as : List Value} {rt : Ty} (h : ImplArgsOK nfc orF.spec as) (ht : staticTf .bool as = .ok rt) :
    ImplGood rt (implOf StdNum.orImpl as rt) := by
  cases ht
  obtain ⟨a, b, rfl, ha, hb⟩ := args_inv2 h
  obtain ⟨x, hx⟩ := bool_arg ha rfl rfl rfl
  obtain ⟨y, hy⟩ := bool_arg hb rfl rfl rfl
  simp only [implOf, StdNum.orImpl, StdNum.arg, List.getElem?_cons_zero, List.getElem?_cons_succ, Res.bind_ok, Value.or]
  refine implGood_binMarks ?_
  obtain ⟨r, hr⟩ := orU_bool x y
  rw [hx, hy, hr]; exact implGood_bool _


/-! ### add, sub, mul, div, mod: the operation method under `recover` of `big.ErrNaN` -/

/-- a `math/big` operation answers a number or panics with `big.ErrNaN` -/
def OkOrNaN {α} (r : Res α) : Prop := (∃ x, r = .ok x) ∨ r = .panic "ErrNaN"

theorem add_okOrNaN (a b : Num) : OkOrNaN (Num.add a b) := by
  unfold OkOrNaN
  cases a <;> cases b <;> simp only [Num.add] <;> (repeat' split) <;> simp
theorem sub_okOrNaN (a b : Num) : OkOrNaN (Num.sub a b) := add_okOrNaN a _
theorem mul_okOrNaN (a b : Num) : OkOrNaN (Num.mulCty a b) := by
  unfold OkOrNaN
  cases a <;> cases b <;> simp only [Num.mulCty] <;> (repeat' split) <;> simp
theorem quo_okOrNaN (a b : Num) : OkOrNaN (Num.quo a b) := by
  unfold OkOrNaN
  cases a <;> cases b <;> simp only [Num.quo] <;> (repeat' split) <;> simp

theorem addU_num (x y : Num) : addU (numVal x) (numVal y) = (Num.add x y).map numVal := by
  simp [addU, typeCheck, typeCheckAux, numVal, Ty.isDyn, Ty.equals, Value.isUnk, asNum]
  cases Num.add x y <;> rfl
theorem subU_num (x y : Num) : subU (numVal x) (numVal y) = (Num.sub x y).map numVal := by
  simp [subU, typeCheck, typeCheckAux, numVal, Ty.isDyn, Ty.equals, Value.isUnk, asNum]
  cases Num.sub x y <;> rfl
theorem mulU_num (x y : Num) : mulU (numVal x) (numVal y) = (Num.mulCty x y).map numVal := by
  simp [mulU, typeCheck, typeCheckAux, numVal, Ty.isDyn, Ty.equals, Value.isUnk, asNum]
  cases Num.mulCty x y <;> rfl
theorem divU_num (x y : Num) : divU (numVal x) (numVal y) = (Num.quo x y).map numVal := by
  simp [divU, typeCheck, typeCheckAux, numVal, Ty.isDyn, Ty.equals, Value.isUnk, asNum]
  cases Num.quo x y <;> rfl

/-- `recoverNaN` turns the one panic of the arithmetic into an error -/
theorem implGood_recoverNaN {r : Res Num} (h : OkOrNaN r) : ImplGood .number (StdNum.recoverNaN (r.map numVal)) := by
  rcases h with ⟨x, rfl⟩ | rfl
  · exact implGood_num x
  · exact implGood_err _ _

theorem binMarks_unmarked (f : Value → Value → Res Value) (x y : Num) :
    binMarks f (numVal x) (numVal y) = f (numVal x) (numVal y) := by
  simp [binMarks, numVal, Value.isMarked, Payload.isMarked]

theorem two_nums {as : List Value} {p q : Param} (h : ImplArgsOK nfc (spec2 p q) as)
    (hp : p = pNumD) (hq : q = pNumD) : ∃ x y, as = [numVal x, numVal y] := by
  subst hp hq
  obtain ⟨a, b, rfl, ha, hb⟩ := args_inv2 h
  obtain ⟨x, rfl⟩ := num_arg' ha rfl rfl rfl rfl
  obtain ⟨y, rfl⟩ := num_arg' hb rfl rfl rfl rfl
  exact ⟨x, y, rfl⟩

theorem good_add {as : List Value} {rt : Ty} (h : ImplArgsOK nfc addF.spec as) (ht : staticTf .number as = .ok rt) :
    ImplGood rt (implOf StdNum.addImpl as rt) := by
  cases ht
  obtain ⟨x, y, rfl⟩ := two_nums h rfl rfl
  simp only [implOf, StdNum.addImpl, StdNum.arg, List.getElem?_cons_zero, List.getElem?_cons_succ, Res.bind_ok,
    Value.add, binMarks_unmarked, addU_num]
  exact implGood_recoverNaN (add_okOrNaN x y)

theorem good_sub {as : List Value} {rt : Ty} (h : ImplArgsOK nfc subF.spec as) (ht : staticTf .number as = .ok rt) :
    ImplGood rt (implOf StdNum.subtractImpl as rt) := by
  cases ht
  obtain ⟨x, y, rfl⟩ := two_nums h rfl rfl
  simp only [implOf, StdNum.subtractImpl, StdNum.arg, List.getElem?_cons_zero, List.getElem?_cons_succ, Res.bind_ok,
    Value.sub, binMarks_unmarked, subU_num]
  exact implGood_recoverNaN (sub_okOrNaN x y)

theorem good_mul {as : List Value} {rt : Ty} (h : ImplArgsOK nfc mulF.spec as) (ht : staticTf .number as = .ok rt) :
    ImplGood rt (implOf StdNum.multiplyImpl as rt) := by
  cases ht
  obtain ⟨x, y, rfl⟩ := two_nums h rfl rfl
  simp only [implOf, StdNum.multiplyImpl, StdNum.arg, List.getElem?_cons_zero, List.getElem?_cons_succ, Res.bind_ok,
    Value.mul, binMarks_unmarked, mulU_num]
  exact implGood_recoverNaN (mul_okOrNaN x y)

theorem good_div {as : List Value} {rt : Ty} (h : ImplArgsOK nfc divF.spec as) (ht : staticTf .number as = .ok rt) :
    ImplGood rt (implOf StdNum.divideImpl as rt) := by
  cases ht
  obtain ⟨x, y, rfl⟩ := two_nums h rfl rfl
  simp only [implOf, StdNum.divideImpl, StdNum.arg, List.getElem?_cons_zero, List.getElem?_cons_succ, Res.bind_ok,
    Value.div, binMarks_unmarked, divU_num]
  exact implGood_recoverNaN (quo_okOrNaN x y)

/-! `mod`: the remainder is computed by `Quo`, `Int`, `Mul`, `Sub` on FINITE numbers with a non-zero
divisor — `rat.Int(nil)` is never asked of an infinity (that would be the nil-pointer panic) and none
of the steps can raise `big.ErrNaN`; with an infinite operand the one `Mul` can, which `recover` catches. -/

theorem add_fin {a b : Num} (ha : a.isInf = false) (hb : b.isInf = false) :
    ∃ r, Num.add a b = .ok r ∧ r.isInf = false := by
  cases a <;> cases b <;> simp [Num.isInf] at ha hb
  simp only [Num.add]
  repeat' split
  all_goals exact ⟨_, rfl, by rfl⟩

theorem addP_fin {a b : Num} (p : Nat) (ha : a.isInf = false) (hb : b.isInf = false) :
    ∃ r, Num.addP a b p = .ok r ∧ r.isInf = false := by
  obtain ⟨r, hr, hf⟩ := add_fin ha hb
  cases r <;> simp [Num.isInf] at hf
  simp only [Num.addP, hr]
  exact ⟨_, rfl, by rfl⟩

theorem mulP_fin {a b : Num} (p : Nat) (ha : a.isInf = false) (hb : b.isInf = false) :
    ∃ r, Num.mulP a b p = .ok r ∧ r.isInf = false := by
  cases a <;> cases b <;> simp [Num.isInf] at ha hb
  exact ⟨_, rfl, by rfl⟩

theorem quo_fin {a b : Num} (ha : a.isInf = false) (hb : b.isInf = false) (hz : b.isZero = false) :
    ∃ r, Num.quo a b = .ok r ∧ r.isInf = false := by
  cases a <;> cases b <;> simp [Num.isInf] at ha hb
  rename_i na ma ea pa nb mb eb pb
  have hmb : mb ≠ 0 := by intro h0; subst h0; simp [Num.isZero] at hz
  simp only [Num.quo, hmb, if_false]
  split
  · exact ⟨_, rfl, by rfl⟩
  · exact ⟨_, rfl, by rfl⟩

theorem neg_fin {a : Num} (ha : a.isInf = false) : a.neg.isInf = false := by
  cases a <;> simp_all [Num.isInf, Num.neg]

theorem modU_num (x y : Num) : OkOrNaN (modU (numVal x) (numVal y)) ∧
    ∀ v, modU (numVal x) (numVal y) = .ok v → ∃ r, v = numVal r := by
  simp only [modU, typeCheck, typeCheckAux, numVal, Ty.isDyn, Ty.equals, Value.isUnk, asNum, Res.bind_ok, Res.pure_eq,
    Bool.false_eq_true, if_false, Bool.not_true, Bool.or_false]
  by_cases hinf : (x.isInf || y.isInf) = true
  · simp only [hinf, if_true]
    rcases mul_okOrNaN x y with ⟨r, hr⟩ | hr <;> rw [hr]
    · exact ⟨.inl ⟨_, rfl⟩, fun v hv => by cases hv; exact ⟨r, rfl⟩⟩
    · exact ⟨.inr rfl, fun v hv => by cases hv⟩
  · simp only [hinf, Bool.false_eq_true, if_false]
    simp only [Bool.or_eq_true, not_or, Bool.not_eq_true] at hinf
    by_cases hz : y.isZero = true
    · simp only [hz, if_true]
      exact ⟨.inl ⟨_, rfl⟩, fun v hv => by cases hv; exact ⟨x, rfl⟩⟩
    · simp only [hz, Bool.false_eq_true, if_false]
      obtain ⟨rat, hq, hqf⟩ := quo_fin hinf.1 hinf.2 (by simpa using hz)
      simp only [hq, Res.bind_ok]
      cases rat with
      | inf n => simp [Num.isInf] at hqf
      | fin qn qm qe qp =>
        simp only [Num.truncInt]
        obtain ⟨w, hw, hwf⟩ := mulP_fin (a := y) (b := Num.setIntP (if qn = true then -(if qe ≥ 0 then (qm : Int) * 2 ^ qe.toNat else (qm : Int) / 2 ^ (-qe).toNat) else (if qe ≥ 0 then (qm : Int) * 2 ^ qe.toNat else (qm : Int) / 2 ^ (-qe).toNat)) x.prec)
          (Num.setIntP (if qn = true then -(if qe ≥ 0 then (qm : Int) * 2 ^ qe.toNat else (qm : Int) / 2 ^ (-qe).toNat) else (if qe ≥ 0 then (qm : Int) * 2 ^ qe.toNat else (qm : Int) / 2 ^ (-qe).toNat)) x.prec).prec hinf.2 rfl
        simp only [hw, Res.bind_ok]
        obtain ⟨z, hzz, _⟩ := addP_fin w.prec hinf.1 (neg_fin hwf)
        simp only [hzz, Res.bind_ok]
        exact ⟨.inl ⟨_, rfl⟩, fun v hv => by cases hv; exact ⟨z, rfl⟩⟩

theorem good_mod {as : List Value} {rt : Ty} (h : ImplArgsOK nfc modF.spec as) (ht : staticTf .number as = .ok rt) :
    ImplGood rt (implOf StdNum.moduloImpl as rt) := by
  cases ht
  obtain ⟨x, y, rfl⟩ := two_nums h rfl rfl
  simp only [implOf, StdNum.moduloImpl, StdNum.arg, List.getElem?_cons_zero, List.getElem?_cons_succ, Res.bind_ok,
    Value.mod, binMarks_unmarked]
  obtain ⟨h1, h2⟩ := modU_num x y
  rcases h1 with ⟨v, hv⟩ | hp
  · obtain ⟨r, rfl⟩ := h2 v hv
    rw [hv]; exact implGood_num r
  · rw [hp]; exact implGood_err _ _

/-! ### `Call` is total for every function of `D11b.table` -/

/-- what is proved of one function: `Call` on well-formed arguments of any kind returns a value or
an ordinary error -/
def CallTotal (nfc : String → Bool) (f : Func) : Prop :=
  ∀ (E : Env) (args : List Value), (∀ a ∈ args, a.WF nfc = true) →
    (∀ w, (call f.spec (f.tf E) (f.impl E) args).1 ≠ .panic w) ∧
    (∀ w, (call f.spec (f.tf E) (f.impl E) args).1 ≠ .err (.panicError w))

theorem callTotal_mk {spec : Spec} {T : Ty} {f : List Value → Res Value} (hr : spec.refine = some refineNN)
    (hg : ∀ as rt, ImplArgsOK nfc spec as → staticTf T as = .ok rt → ImplGood rt (implOf f as rt)) :
    CallTotal nfc (mk spec T f) := fun _ args hargs =>
  call_total_of_good spec (staticTf T) (implOf f) hr (fun as w _ => static_total T as w) hg args hargs

theorem callTotal_table : ∀ e ∈ table, CallTotal nfc e.2.2.2 := by
  intro e he
  simp only [table, List.mem_cons, List.not_mem_nil, or_false] at he
  rcases he with rfl | rfl | rfl | rfl | rfl | rfl | rfl | rfl | rfl | rfl | rfl | rfl | rfl | rfl | rfl | rfl
  · exact callTotal_mk rfl fun _ _ => good_signum
  · exact callTotal_mk rfl fun _ _ => good_ceil
  · exact callTotal_mk rfl fun _ _ => good_floor
  · exact callTotal_mk rfl fun _ _ => good_int
  · exact callTotal_mk rfl fun _ _ => good_abs
  · exact callTotal_mk rfl fun _ _ => good_neg
  · exact callTotal_mk rfl fun _ _ => good_min
  · exact callTotal_mk rfl fun _ _ => good_max
  · exact callTotal_mk rfl fun _ _ => good_not
  · exact callTotal_mk rfl fun _ _ => good_and
  · exact callTotal_mk rfl fun _ _ => good_or
  · exact callTotal_mk rfl fun _ _ => good_add
  · exact callTotal_mk rfl fun _ _ => good_sub
  · exact callTotal_mk rfl fun _ _ => good_mul
  · exact callTotal_mk rfl fun _ _ => good_div
  · exact callTotal_mk rfl fun _ _ => good_mod


/-- the `Type` callback of every entry of `D11b.table` is the constant one of the static type the
SOURCE declares for that function (the string of the regenerated syntax table, read by `Std.staticTy?`) -/
theorem table_static : ∀ e ∈ table, ∃ T, Std.staticTy? e.2.2.1 = some T ∧ ∀ E as, e.2.2.2.tf E as = .ok T := by
  intro e he
  simp only [table, List.mem_cons, List.not_mem_nil, or_false] at he
  rcases he with rfl | rfl | rfl | rfl | rfl | rfl | rfl | rfl | rfl | rfl | rfl | rfl | rfl | rfl | rfl | rfl <;>
    exact ⟨_, rfl, fun _ _ => rfl⟩

end D11b
end CtyModel
