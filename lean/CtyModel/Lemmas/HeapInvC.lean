/-
C20 — marks, operation methods, ValueSet, types, paths, path sets and walk keep the
state invariant.
-/
import CtyModel.Lemmas.HeapInvB
namespace CtyModel
namespace Heap

theorem inv_marks {st st' : St} {v : Nat} (hi : Inv st) (h : stepApi st (.marks v) = some st') : Inv st' := by
  simp only [stepApi] at h
  opt_cases h
  · rename_i l _
    exact inv_pushGo hi (good2_alloc (Good.refl hi.heap) (o := .caller) (b := .markset l) trivial) trivial
  · exact inv_pushGo' hi trivial

theorem inv_unmark {st st' : St} {v : Nat} (hi : Inv st) (h : stepApi st (.unmark v) = some st') : Inv st' := by
  simp only [stepApi] at h
  opt_cases h
  · rename_i tp htp _ ms r heq l _
    obtain ⟨ht, hp⟩ := val_frozen hi (t := tp.1) (p := tp.2) htp
    rw [heq] at hp
    have h1 := good2_alloc (Good.refl hi.heap) (o := .caller) (b := .markset l) trivial
    have := inv_step (outs := st.outs) hi h1 (nv := [.pair tp.1 r]) (ng := [.marks st.mem.length])
      (fun w hw => by
        simp at hw; subst hw
        exact frozenAll_stable h1.pres (frozenAll_pair.mpr ⟨ht, frozenAll_unmark hp⟩))
      (fun w hw => by simp at hw; subst hw; trivial)
    simpa [St.withMem, St.pushVal, St.pushGo] using this
  · rename_i tp htp _ _
    obtain ⟨ht, hp⟩ := val_frozen hi (t := tp.1) (p := tp.2) htp
    exact inv_pushGo' (inv_pushVal' hi (frozenAll_pair.mpr ⟨ht, hp⟩)) trivial

theorem inv_mark {st st' : St} {v : Nat} {mk : String} (hi : Inv st)
    (h : stepApi st (.mark v mk) = some st') : Inv st' := by
  simp only [stepApi] at h
  opt_cases h
  rename_i tp htp
  obtain ⟨ht, hp⟩ := val_frozen hi (t := tp.1) (p := tp.2) htp
  have h1 := good2_alloc (Good.refl hi.heap) (o := .lib) (b := .markset (msInsert mk (valMarks st.mem tp.2))) trivial
  exact inv_pushVal hi h1 (frozenAll_pair.mpr ⟨frozenAll_stable h1.pres ht,
    frozenAll_marked (alloc_get_new _ _ _) (frozenAll_stable h1.pres (frozenAll_unwrap' hp))⟩)

theorem inv_withMarks {st st' : St} {v g : Nat} (hi : Inv st)
    (h : stepApi st (.withMarks v g) = some st') : Inv st' := by
  simp only [stepApi] at h
  opt_cases h
  · rename_i tp htp _ _ _ _ _
    obtain ⟨ht, hp⟩ := val_frozen hi (t := tp.1) (p := tp.2) htp
    exact inv_pushVal' hi (frozenAll_pair.mpr ⟨ht, hp⟩)
  · rename_i tp htp _ _ given _ _
    obtain ⟨ht, hp⟩ := val_frozen hi (t := tp.1) (p := tp.2) htp
    have h1 := good2_alloc (Good.refl hi.heap) (o := .lib)
      (b := .markset (msUnion (valMarks st.mem tp.2) given)) trivial
    exact inv_pushVal hi h1 (frozenAll_pair.mpr ⟨frozenAll_stable h1.pres ht,
      frozenAll_marked (alloc_get_new _ _ _) (frozenAll_stable h1.pres (frozenAll_unwrap' hp))⟩)

theorem inv_newNumber {st : St} (hi : Inv st) (x : Int) :
    Inv ((st.withMem (alloc st.mem .lib (.bigfloat x)).1).pushVal tNumber (.num (alloc st.mem .lib (.bigfloat x)).2)) :=
  inv_pushVal hi (good2_alloc (Good.refl hi.heap) (o := .lib) (b := .bigfloat x) trivial)
    (frozenAll_pair.mpr ⟨frozenAll_tprim, frozenAll_num (alloc_get_new _ _ _)⟩)

theorem inv_ops {st st' : St} {c : Api} (hi : Inv st)
    (hc : (∃ v w, c = .opAdd v w) ∨ (∃ v, c = .opNegate v) ∨ (∃ v w, c = .opEquals v w) ∨ (∃ v, c = .opLength v))
    (h : stepApi st c = some st') : Inv st' := by
  rcases hc with ⟨v, w, rfl⟩ | ⟨v, rfl⟩ | ⟨v, w, rfl⟩ | ⟨v, rfl⟩ <;> simp only [stepApi] at h <;> opt_cases h
  · exact inv_newNumber hi _
  · exact inv_newNumber hi _
  · exact inv_pushVal' hi (frozenAll_pair.mpr ⟨frozenAll_tprim, frozenAll_bool⟩)
  · exact inv_newNumber hi _

/-! ### ValueSet -/

theorem inv_newValueSet {st st' : St} {t : TySrc} (hi : Inv st)
    (h : stepApi st (.newValueSet t) = some st') : Inv st' := by
  simp only [stepApi] at h
  opt_cases h
  rename_i ety hety
  have h1 := good2_alloc (Good.refl hi.heap) (o := .helper) (b := .gomap []) (by simp [NewBodyOK, isSetOwner])
  exact inv_pushGo hi h1 ⟨frozenAll_stable h1.pres (tySrc_frozen hi hety), [], alloc_get_new _ _ _⟩

theorem inv_vsAdd {st st' : St} {g v : Nat} {hh : Int} (hi : Inv st)
    (h : stepApi st (.vsAdd g v hh) = some st') : Inv st' := by
  simp only [stepApi] at h
  opt_cases h
  rename_i _ ety a hg tp htp m2 hm2
  obtain ⟨_, kvs, hm⟩ := go_ok hi hg
  obtain ⟨_, hp⟩ := val_frozen hi (t := tp.1) (p := tp.2) htp
  exact inv_withMem hi (good_setAdd (Good.refl hi.heap) hm hp hm2).1

theorem inv_vsRemove {st st' : St} {g v : Nat} {hh : Int} (hi : Inv st)
    (h : stepApi st (.vsRemove g v hh) = some st') : Inv st' := by
  simp only [stepApi] at h
  opt_cases h
  rename_i _ ety a hg tp htp m2 hm2
  obtain ⟨_, kvs, hm⟩ := go_ok hi hg
  exact inv_withMem hi (good_setRemove (Good.refl hi.heap) hm hm2).1

theorem inv_outs {st st' : St} {c : Api} (hi : Inv st)
    (hc : (∃ g v hh, c = .vsHas g v hh) ∨ (∃ g, c = .vsLength g) ∨ (∃ g p hh, c = .psHas g p hh))
    (h : stepApi st c = some st') : Inv st' := by
  rcases hc with ⟨g, v, hh, rfl⟩ | ⟨g, rfl⟩ | ⟨g, p, hh, rfl⟩ <;> simp only [stepApi] at h <;> opt_cases h <;>
    exact inv_pushOut hi _

theorem inv_vsCopy {st st' : St} {g : Nat} (hi : Inv st) (h : stepApi st (.vsCopy g) = some st') : Inv st' := by
  simp only [stepApi] at h
  opt_cases h
  rename_i _ ety a hg r hr
  obtain ⟨hety, _⟩ := go_ok hi hg
  obtain ⟨h1, _, kvs', hm'⟩ := good_setCopy (Good.refl hi.heap) (a' := r.2) hr
  exact inv_pushGo hi h1 ⟨frozenAll_stable h1.pres hety, kvs', hm'⟩

theorem inv_vsValues {st st' : St} {g : Nat} {perm : List Nat} (hi : Inv st)
    (h : stepApi st (.vsValues g perm) = some st') : Inv st' := by
  simp only [stepApi] at h
  opt_cases h
  · exact inv_pushGo' hi trivial
  · rename_i _ ety a hg xs hxs ys hys _
    obtain ⟨hety, _⟩ := go_ok hi hg
    have h1 := good2_alloc (Good.refl hi.heap) (o := .caller) (b := .array (ys.map (Word.pair ety))) (by
      intro c hc
      obtain ⟨y, hy, e⟩ := List.mem_map.mp hc
      subst e
      exact frozenAll_pair.mpr ⟨hety, setMembers_frozen hi.heap hxs y (applyPerm_mem hys y hy)⟩)
    exact inv_pushGo hi h1 trivial

/-! ### types -/

theorem inv_tupleType {st st' : St} {g : Nat} (hi : Inv st) (hd : docRespectful st (.api (.tupleType g)) = true)
    (h : stepApi st (.tupleType g) = some st') : Inv st' := by
  simp only [stepApi] at h
  opt_cases h
  rename_i _ arr off len cap hg cells hc
  simp only [docRespectful, hg] at hd
  have h1 := good2_freezeCaller (Good.refl hi.heap) arr
  unfold cellsOf at hc
  cases hm : st.mem[arr]? with
  | none => simp [hm] at hc
  | some o =>
    rcases o with ⟨ow, bd⟩
    cases bd <;> simp [hm] at hc
    subst hc
    have hlib := freezeCaller_lib hm hd
    refine inv_pushVal hi h1 (frozenAll_pair.mpr ⟨(frozenAll_wrap ?_).2.2.2.1, frozenAll_null⟩)
    exact frozenAll_slice hlib (h1.good.ok arr _ hlib)

theorem inv_tupleElementTypes {st st' : St} {v : Nat} (hi : Inv st)
    (h : stepApi st (.tupleElementTypes v) = some st') : Inv st' := by
  simp only [stepApi] at h
  opt_cases h <;> exact inv_pushGo' hi trivial

theorem inv_objectType {st st' : St} {g : Nat} (hi : Inv st)
    (h : stepApi st (.objectType g) = some st') : Inv st' := by
  simp only [stepApi] at h
  opt_cases h
  rename_i _ a hg kvs hk
  have hkv := map_kvs_frozen hi.heap (go_ok hi hg) hk
  have h1 := good2_alloc (Good.refl hi.heap) (o := .lib) (b := .gomap kvs) (by simpa [NewBodyOK, isSetOwner] using hkv)
  exact inv_pushVal hi h1 (frozenAll_pair.mpr ⟨(frozenAll_wrap (frozenAll_new_map hkv)).2.2.2.2, frozenAll_null⟩)

theorem inv_attributeTypes {st st' : St} {v : Nat} (hi : Inv st)
    (h : stepApi st (.attributeTypes v) = some st') : Inv st' := by
  simp only [stepApi] at h
  opt_cases h
  rename_i _ ta p hv
  obtain ⟨ht, _⟩ := val_frozen hi hv
  obtain ⟨kvs, hm, _⟩ := frozenAll_map_kvs (frozenAll_unwrap (.inr (.inr (.inr (.inr ht)))))
  exact inv_pushGo' hi ⟨_, hm, rfl⟩

/-! ### paths and path sets -/

theorem inv_newSlice {st : St} (hi : Inv st) {o : Owner} {cells : List Word}
    (hc : ∀ c ∈ cells, FrozenAll st.mem c) (a off len cap : Nat) :
    Inv ((st.withMem (alloc st.mem o (.array cells)).1).pushGo (.slice a off len cap)) :=
  inv_pushGo hi (good2_alloc (Good.refl hi.heap) (o := o) (b := .array cells) hc) trivial

theorem inv_paths {st st' : St} {c : Api} (hi : Inv st)
    (hc : (∃ g v, c = .pathIndex g v) ∨ (∃ g n, c = .pathGetAttr g n) ∨ (∃ g, c = .pathCopy g))
    (h : stepApi st c = some st') : Inv st' := by
  rcases hc with ⟨g, v, rfl⟩ | ⟨g, n, rfl⟩ | ⟨g, rfl⟩ <;> simp only [stepApi] at h <;> opt_cases h
  · rename_i p hp steps hs key hkey
    refine inv_newSlice hi ?_ _ _ _ _
    intro c hc
    rcases List.mem_append.mp hc with hc | hc
    · exact elems_frozen hi.heap hs c hc
    · simp at hc; subst hc; exact vals_frozen hi hkey
  · rename_i p hp steps hs
    refine inv_newSlice hi ?_ _ _ _ _
    intro c hc
    rcases List.mem_append.mp hc with hc | hc
    · exact elems_frozen hi.heap hs c hc
    · simp at hc; subst hc; exact frozenAll_attr
  · rename_i p hp steps hs
    exact inv_newSlice hi (elems_frozen hi.heap hs) _ _ _ _

theorem inv_newPathSet {st st' : St} (hi : Inv st) (h : stepApi st .newPathSet = some st') : Inv st' := by
  simp only [stepApi] at h
  cases h
  exact inv_pushGo hi (good2_alloc (Good.refl hi.heap) (o := .helper) (b := .gomap []) (by simp [NewBodyOK, isSetOwner]))
    ⟨[], alloc_get_new _ _ _⟩

theorem inv_psAdd {st st' : St} {g p : Nat} {hh : Int} (hi : Inv st)
    (hd : docRespectful st (.api (.psAdd g p hh)) = true)
    (h : stepApi st (.psAdd g p hh) = some st') : Inv st' := by
  simp only [stepApi] at h
  opt_cases h
  · rename_i _ a hg _ arr off len cap hp cells hc m2 hm2
    simp only [docRespectful, hp] at hd
    obtain ⟨kvs, hm⟩ := go_ok hi hg
    have h1 := good2_freezeCaller (Good.refl hi.heap) arr
    obtain ⟨kvs1, hm1⟩ := h1.mono.keeps_gomap hm (by simp)
    -- the path is now the library's
    have hpath : FrozenAll (freezeCaller st.mem arr) (.slice arr off len cap) := by
      unfold cellsOf at hc
      cases hma : st.mem[arr]? with
      | none => simp [hma] at hc
      | some o =>
        rcases o with ⟨ow, bd⟩
        cases bd <;> simp [hma] at hc
        have hlib := freezeCaller_lib hma hd
        exact frozenAll_slice hlib (h1.good.ok arr _ hlib)
    exact inv_withMem hi (h1.trans (good_setAdd h1.good hm1 hpath hm2).1)
  · rename_i _ a hg _ hp m2 hm2
    obtain ⟨kvs, hm⟩ := go_ok hi hg
    exact inv_withMem hi (good_setAdd (Good.refl hi.heap) hm frozenAll_null hm2).1

end Heap
end CtyModel
