/-
C20 — accessors and operation methods keep the state invariant: what they hand to
the caller is freshly allocated and caller-owned; values they derive share only
library-owned storage.
-/
import CtyModel.Lemmas.HeapInvA
namespace CtyModel
namespace Heap

theorem inv_asBigFloat {st st' : St} {v : Nat} (hi : Inv st) (h : stepApi st (.asBigFloat v) = some st') : Inv st' := by
  simp only [stepApi] at h
  opt_cases h
  rename_i x _
  exact inv_pushGo hi (good2_alloc (Good.refl hi.heap) (o := .caller) (b := .bigfloat x) trivial) trivial

theorem inv_asValueSlice {st st' : St} {v : Nat} {perm : List Nat} (hi : Inv st)
    (h : stepApi st (.asValueSlice v perm) = some st') : Inv st' := by
  simp only [stepApi] at h
  opt_cases h
  all_goals (rename_i tp htp r hr _)
  all_goals (
    obtain ⟨ht, hp⟩ := val_frozen hi (t := tp.1) (p := tp.2) htp
    obtain ⟨h1, hk⟩ := good_iterElems (Good.refl hi.heap) ht hp (kes := r.2) hr)
  · exact inv_pushGo hi h1 trivial
  · have h2 := good2_alloc h1.good (o := .caller) (b := .array (r.2.map (·.2))) (by
      intro c hc
      obtain ⟨ke, hke, e⟩ := List.mem_map.mp hc
      exact e ▸ (hk ke hke).2)
    exact inv_pushGo hi (h1.trans h2) trivial

theorem mapM_mem {α β : Type} {f : α → Option β} : ∀ (l : List α) (r : List β), l.mapM f = some r →
    ∀ y ∈ r, ∃ x ∈ l, f x = some y := by
  intro l
  induction l with
  | nil => intro r h y hy; simp at h; subst h; cases hy
  | cons a l ih =>
    intro r h y hy
    simp only [List.mapM_cons, Option.bind_eq_bind, Option.bind_eq_some_iff, Option.pure_def,
      Option.some.injEq] at h
    obtain ⟨b, hb, r0, hr0, e⟩ := h
    subst e
    rcases List.mem_cons.mp hy with e | e
    · subst e; exact ⟨a, List.mem_cons_self, hb⟩
    · obtain ⟨x, hx, hfx⟩ := ih r0 hr0 y e
      exact ⟨x, List.mem_cons_of_mem _ hx, hfx⟩

theorem inv_asValueMap {st st' : St} {v : Nat} (hi : Inv st)
    (h : stepApi st (.asValueMap v) = some st') : Inv st' := by
  simp only [stepApi] at h
  opt_cases h
  · rename_i tp htp r hr _
    obtain ⟨ht, hp⟩ := val_frozen hi (t := tp.1) (p := tp.2) htp
    obtain ⟨h1, hk⟩ := good_iterElems (Good.refl hi.heap) ht hp (kes := r.2) hr
    exact inv_pushGo hi h1 trivial
  · rename_i tp htp r hr _ kvs hkvs
    obtain ⟨ht, hp⟩ := val_frozen hi (t := tp.1) (p := tp.2) htp
    obtain ⟨h1, hk⟩ := good_iterElems (Good.refl hi.heap) ht hp (kes := r.2) hr
    have hfz : ∀ kv ∈ kvs, FrozenAll r.1 kv.2 := by
      intro kv hkv
      obtain ⟨ke, hke, hf⟩ := mapM_mem _ _ hkvs kv hkv
      split at hf
      · cases hf; exact (hk ke hke).2
      · simp at hf
    have h2 := good2_alloc h1.good (o := .caller) (b := .gomap kvs) (by simpa [NewBodyOK, isSetOwner] using hfz)
    exact inv_pushGo hi (h1.trans h2) ⟨_, alloc_get_new _ _ _, rfl⟩

theorem collElem_frozen {m : Mem} {t ety : Word}
    (h : (match t with
      | .tlist e | .tset e | .tmap e => some e
      | _ => none) = some ety) (ht : FrozenAll m t) : FrozenAll m ety := by
  cases t <;> simp at h <;> subst h
  · exact frozenAll_unwrap (.inl ht)
  · exact frozenAll_unwrap (.inr (.inl ht))
  · exact frozenAll_unwrap (.inr (.inr (.inl ht)))

theorem inv_asValueSet {st st' : St} {v : Nat} {hs : List Int} (hi : Inv st)
    (h : stepApi st (.asValueSet v hs) = some st') : Inv st' := by
  simp only [stepApi] at h
  simp only [Option.bind_eq_bind, Option.bind_eq_some_iff, Option.pure_def, Option.some.injEq] at h
  obtain ⟨tp, htp, ety, hety, r, hr, m2, hm2, h⟩ := h
  subst h
  all_goals (
    obtain ⟨ht, hp⟩ := val_frozen hi (t := tp.1) (p := tp.2) htp
    obtain ⟨h1, hk⟩ := good_iterElems (Good.refl hi.heap) ht hp (kes := r.2) hr
    have h2 := good2_alloc h1.good (o := .helper) (b := .gomap []) (by simp [NewBodyOK, isSetOwner])
    obtain ⟨h3, kvs', hm'⟩ := good_setAddAll _ hs _ m2 [] h2.good (alloc_get_new _ _ _) (by
      intro x hx
      obtain ⟨ke, hke, e⟩ := List.mem_map.mp hx
      have hf := frozenAll_stable h2.pres (hk ke hke).2
      subst e
      split
      · rename_i t' x' e'; rw [e'] at hf; exact (frozenAll_pair.mp hf).2
      · exact hf) hm2
    have hall := (h1.trans h2).trans h3
    exact inv_pushGo hi hall ⟨frozenAll_stable hall.pres (collElem_frozen hety ht), kvs', hm'⟩)

theorem inv_elements {st st' : St} {v : Nat} {perm : List Nat} (hi : Inv st)
    (h : stepApi st (.elements v perm) = some st') : Inv st' := by
  simp only [stepApi] at h
  opt_cases h
  rename_i tp htp r hr
  obtain ⟨ht, hp⟩ := val_frozen hi (t := tp.1) (p := tp.2) htp
  obtain ⟨h1, hk⟩ := good_iterElems (Good.refl hi.heap) ht hp (kes := r.2) hr
  have := inv_step (ng := []) (outs := st.outs) hi h1 (nv := (r.2.map fun ke => [ke.1, ke.2]).flatten) (by
    intro w hw
    obtain ⟨l, hl, hwl⟩ := List.mem_flatten.mp hw
    obtain ⟨ke, hke, e⟩ := List.mem_map.mp hl
    subst e
    simp only [List.mem_cons, List.not_mem_nil, or_false] at hwl
    rcases hwl with e | e <;> subst e
    · exact (hk ke hke).1
    · exact (hk ke hke).2) (fun w hw => by cases hw)
  simpa using this

theorem inv_lengthInt {st st' : St} {v : Nat} (hi : Inv st) (h : stepApi st (.lengthInt v) = some st') : Inv st' := by
  simp only [stepApi] at h
  opt_cases h
  exact inv_pushOut hi _

theorem lookup_frozen {m : Mem} {kvs : List (Key × Word)} (h : ∀ kv ∈ kvs, FrozenAll m kv.2) (k : Key) :
    FrozenAll m ((kvLookup k kvs).getD .null) := by
  cases hl : kvLookup k kvs with
  | none => exact frozenAll_null
  | some w => exact h _ (mem_of_kvLookup hl)

theorem inv_getAttr {st st' : St} {v : Nat} {name : String} (hi : Inv st)
    (h : stepApi st (.getAttr v name) = some st') : Inv st' := by
  simp only [stepApi] at h
  opt_cases h
  · rename_i _ ta tkvs htk aty haty _ a hv kvs hk
    obtain ⟨ht, hp⟩ := val_frozen hi hv
    obtain ⟨tkvs', hmt, hft⟩ := frozenAll_map_kvs (frozenAll_unwrap (.inr (.inr (.inr (.inr ht)))))
    rw [kvsOf_eq hmt] at htk; cases htk
    obtain ⟨kvs', hm', hfz⟩ := frozenAll_map_kvs hp
    rw [kvsOf_eq hm'] at hk; cases hk
    exact inv_pushVal' hi (frozenAll_pair.mpr ⟨hft _ (mem_of_kvLookup haty), lookup_frozen hfz _⟩)
  · rename_i _ ta tkvs htk aty haty _ ms a hv kvs hk l hl
    obtain ⟨ht, hp⟩ := val_frozen hi hv
    obtain ⟨tkvs', hmt, hft⟩ := frozenAll_map_kvs (frozenAll_unwrap (.inr (.inr (.inr (.inr ht)))))
    rw [kvsOf_eq hmt] at htk; cases htk
    obtain ⟨kvs', hm', hfz⟩ := frozenAll_map_kvs (frozenAll_unmark hp)
    rw [kvsOf_eq hm'] at hk; cases hk
    have h1 := good2_alloc (Good.refl hi.heap) (o := .lib)
      (b := .markset (msUnion (valMarks st.mem ((kvLookup (.s name) kvs).getD .null)) l)) trivial
    refine inv_pushVal hi h1 (frozenAll_pair.mpr ⟨frozenAll_stable h1.pres (hft _ (mem_of_kvLookup haty)), ?_⟩)
    exact frozenAll_marked (alloc_get_new _ _ _) (frozenAll_stable h1.pres (frozenAll_unwrap' (lookup_frozen hfz _)))

theorem getElem?_frozen {m : Mem} {xs : List Word} (h : ∀ x ∈ xs, FrozenAll m x) {i : Nat} {x : Word}
    (hx : xs[i]? = some x) : FrozenAll m x := h x (List.mem_of_getElem? hx)

theorem inv_index {st st' : St} {v : Nat} {k : Key} (hi : Inv st)
    (h : stepApi st (.index v k) = some st') : Inv st' := by
  simp only [stepApi] at h
  opt_cases h
  · rename_i tp htp _ _ _ e arr off len cap n heq1 heq2 xs hxs x hx
    obtain ⟨ht, hp⟩ := val_frozen hi (t := tp.1) (p := tp.2) htp
    rw [heq1] at ht
    exact inv_pushVal' hi (frozenAll_pair.mpr ⟨frozenAll_unwrap (.inl ht), getElem?_frozen (elems_frozen hi.heap hxs) hx⟩)
  · rename_i tp htp _ _ _ ts arr off len cap n heq1 heq2 xs hxs tys htys x hx ty hty
    exact inv_pushVal' hi (frozenAll_pair.mpr ⟨getElem?_frozen (elems_frozen hi.heap htys) hty,
      getElem?_frozen (elems_frozen hi.heap hxs) hx⟩)
  · rename_i tp htp _ _ _ e a k heq1 heq2 kvs hk x hx
    obtain ⟨ht, hp⟩ := val_frozen hi (t := tp.1) (p := tp.2) htp
    rw [heq1] at ht
    rw [heq2] at hp
    obtain ⟨kvs', hm', hfz⟩ := frozenAll_map_kvs hp
    rw [kvsOf_eq hm'] at hk; cases hk
    exact inv_pushVal' hi (frozenAll_pair.mpr ⟨frozenAll_unwrap (.inr (.inr (.inl ht))), hfz _ (mem_of_kvLookup hx)⟩)

end Heap
end CtyModel
