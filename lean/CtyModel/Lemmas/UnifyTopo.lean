/-
sortTypes (sort_types.go) is Kahn's algorithm.  What it guarantees, for every list
of types: no node is visited twice, and a node is visited only after every node
preferred to it (every predecessor in the graph) — the visiting order is topological
on the visited part.  Nodes on or behind a cycle of the preference relation are never
visited (`Props/C09.lean` has the witness).

Proved for an arbitrary edge table first (`Inv` is the loop invariant), then
instantiated with the table sortTypes builds from `compareTypes`.
-/
import CtyModel.Lemmas.UnifySort
namespace CtyModel
namespace Unify
open Convert Ty

/-! ### counting filters -/

theorem filter_length_mono {α} (p q : α → Bool) : ∀ (l : List α), (∀ x ∈ l, p x = true → q x = true) →
    (l.filter p).length ≤ (l.filter q).length
  | [], _ => Nat.le_refl _
  | a :: l, h => by
    have ih := filter_length_mono p q l (fun x hx => h x (List.mem_cons_of_mem _ hx))
    have ha := h a (by simp)
    simp only [List.filter]
    cases hp : p a with
    | false => cases hq : q a <;> simp <;> omega
    | true => simp [ha hp]; omega

theorem filter_length_strict {α} (p q : α → Bool) : ∀ (l : List α), (∀ x ∈ l, p x = true → q x = true) →
    (∃ x ∈ l, q x = true ∧ p x = false) → (l.filter p).length + 1 ≤ (l.filter q).length
  | [], _, h => by obtain ⟨x, hx, _⟩ := h; simp at hx
  | a :: l, h, hex => by
    have hl : ∀ x ∈ l, p x = true → q x = true := fun x hx => h x (List.mem_cons_of_mem _ hx)
    have hmono := filter_length_mono p q l hl
    obtain ⟨x, hx, hqx, hpx⟩ := hex
    simp only [List.filter]
    rcases List.mem_cons.mp hx with rfl | hx
    · simp [hqx, hpx]; omega
    · have ih := filter_length_strict p q l hl ⟨x, hx, hqx, hpx⟩
      have ha := h a (by simp)
      cases hp : p a with
      | false => cases hq : q a <;> simp <;> omega
      | true => simp [ha hp]; omega

theorem filter_length_zero {α} (p : α → Bool) (l : List α) (h : (l.filter p).length = 0) : ∀ x ∈ l, p x = false := by
  intro x hx
  have := List.length_eq_zero_iff.mp h
  cases hp : p x with
  | false => rfl
  | true =>
    have : x ∈ l.filter p := List.mem_filter.mpr ⟨hx, hp⟩
    simp_all

theorem not_contains {l : List Nat} {x : Nat} : l.contains x = false ↔ x ∉ l := by simp

/-! ### the graph -/

section
variable (E : List (List Nat)) (n : Nat)

/-- `j ∈ edges[i]`: there is an edge `i → j` -/
def isPred (i j : Nat) : Bool := (E.getD i []).contains j

/-- the number of predecessors of `j` not yet visited -/
def unproc (j : Nat) (v : List Nat) : Nat :=
  ((List.range n).filter fun i => isPred E i j && !v.contains i).length

/-- every node is visited after all its predecessors -/
def Topo (v : List Nat) : Prop := ∀ (k m : Nat), v[k]? = some m → ∀ i, i < n → isPred E i m = true → i ∈ v.take k

theorem unproc_mono (j i : Nat) (v : List Nat) : unproc E n j (v ++ [i]) ≤ unproc E n j v := by
  apply filter_length_mono
  intro x _ hx
  simp only [Bool.and_eq_true, Bool.not_eq_true'] at hx ⊢
  refine ⟨hx.1, not_contains.mpr ?_⟩
  intro hm; exact not_contains.mp hx.2 (List.mem_append_left _ hm)

theorem unproc_strict (j i : Nat) (v : List Nat) (hi : i < n) (hp : isPred E i j = true) (hv : i ∉ v) :
    unproc E n j (v ++ [i]) + 1 ≤ unproc E n j v := by
  apply filter_length_strict
  · intro x _ hx
    simp only [Bool.and_eq_true, Bool.not_eq_true'] at hx ⊢
    refine ⟨hx.1, not_contains.mpr ?_⟩
    intro hm; exact not_contains.mp hx.2 (List.mem_append_left _ hm)
  · refine ⟨i, List.mem_range.mpr hi, ?_, ?_⟩
    · simp [hp, hv]
    · simp [hp]

theorem unproc_zero (j : Nat) (v : List Nat) (h : unproc E n j v = 0) : ∀ i, i < n → isPred E i j = true → i ∈ v := by
  intro i hi hp
  have := filter_length_zero _ _ h i (List.mem_range.mpr hi)
  simp only [hp, Bool.true_and, Bool.not_eq_false', List.contains_iff_mem] at this
  simpa using this

/-! ### the loop invariant -/

/-- the state between two visits -/
structure Inv (q d v : List Nat) : Prop where
  len : d.length = n
  nodup : (v ++ q).Nodup
  zero : ∀ m ∈ v ++ q, m < n ∧ d.getD m 1 = 0
  deg : ∀ j, j < n → unproc E n j v ≤ d.getD j 1
  preds : ∀ m ∈ q, ∀ i, i < n → isPred E i m = true → i ∈ v
  topo : Topo E n v

/-- the state inside the loop over `edges[i]`; `outs` are the targets still to come -/
structure InnerInv (outs q d v : List Nat) : Prop where
  len : d.length = n
  nodup : (v ++ q).Nodup
  zero : ∀ m ∈ v ++ q, m < n ∧ d.getD m 1 = 0
  deg : ∀ j, j < n → unproc E n j v + (if outs.contains j then 1 else 0) ≤ d.getD j 1
  preds : ∀ m ∈ q, ∀ i, i < n → isPred E i m = true → i ∈ v

theorem decAt_getD (d : List Nat) (j m : Nat) (hm : m < d.length) :
    (decAt d j).getD m 1 = if m = j then d.getD m 1 - 1 else d.getD m 1 := by
  simp only [decAt, List.getD_eq_getElem?_getD, List.getElem?_mapIdx, List.getElem?_eq_getElem hm, Option.map_some,
    Option.getD_some]

theorem decAt_length (d : List Nat) (j : Nat) : (decAt d j).length = d.length := by simp [decAt]

/-- the step function of the inner loop, as written in `sortLoop` -/
def innerStep (st : List Nat × List Nat) (j : Nat) : List Nat × List Nat :=
  let deg' := decAt st.2 j
  if deg'.getD j 1 = 0 then (st.1 ++ [j], deg') else (st.1, deg')

theorem inner_fold (v : List Nat) : ∀ (outs q d : List Nat), outs.Nodup → (∀ j ∈ outs, j < n) →
    InnerInv E n outs q d v → InnerInv E n [] (outs.foldl innerStep (q, d)).1 (outs.foldl innerStep (q, d)).2 v
  | [], _, _, _, _, h => h
  | j :: rest, q, d, hnd, hlt, h => by
    obtain ⟨hjr, hnd'⟩ := List.nodup_cons.mp hnd
    have hj : j < n := hlt j (by simp)
    have hjd : j < d.length := by rw [h.len]; exact hj
    have hdj := h.deg j hj
    have hcj : (j :: rest).contains j = true := by simp
    rw [hcj] at hdj
    simp only [if_true] at hdj
    -- j is not yet visited or queued: its counter is still positive
    have hjnot : j ∉ v ++ q := by
      intro hm
      have := (h.zero j hm).2
      omega
    have hget : ∀ m, m < n → (decAt d j).getD m 1 = if m = j then d.getD m 1 - 1 else d.getD m 1 :=
      fun m hm => decAt_getD d j m (by rw [h.len]; exact hm)
    have hdeg' : ∀ j', j' < n → unproc E n j' v + (if rest.contains j' then 1 else 0) ≤ (decAt d j).getD j' 1 := by
      intro j' hj'
      rw [hget j' hj']
      by_cases he : j' = j
      · subst he
        have hc : rest.contains j' = false := not_contains.mpr hjr
        rw [if_pos rfl, hc]
        simp only [Bool.false_eq_true, if_false, Nat.add_zero]
        omega
      · have := h.deg j' hj'
        have hc : (j :: rest).contains j' = rest.contains j' := by
          rw [List.contains_cons]
          have : (j' == j) = false := by simpa using he
          rw [this, Bool.false_or]
        rw [hc] at this
        rw [if_neg he]; exact this
    have key : InnerInv E n rest (innerStep (q, d) j).1 (innerStep (q, d) j).2 v := by
      unfold innerStep
      simp only
      split
      · rename_i hz
        refine ⟨by rw [decAt_length]; exact h.len, ?_, ?_, hdeg', ?_⟩
        · rw [← List.append_assoc]
          refine List.nodup_append.mpr ⟨h.nodup, by simp, ?_⟩
          intro a ha b hb
          simp only [List.mem_singleton] at hb
          subst hb
          intro e; subst e; exact hjnot ha
        · intro m hm
          rw [← List.append_assoc] at hm
          rcases List.mem_append.mp hm with hm | hm
          · have hmn := (h.zero m hm).1
            refine ⟨hmn, ?_⟩
            rw [hget m hmn]
            have : m ≠ j := fun e => hjnot (e ▸ hm)
            rw [if_neg this]; exact (h.zero m hm).2
          · simp only [List.mem_singleton] at hm
            subst hm
            exact ⟨hj, hz⟩
        · intro m hm i hi hp
          rcases List.mem_append.mp hm with hm | hm
          · exact h.preds m hm i hi hp
          · simp only [List.mem_singleton] at hm
            subst hm
            have := hdeg' m hj
            have hr : rest.contains m = false := not_contains.mpr hjr
            rw [hr, hz] at this
            simp only [Bool.false_eq_true, if_false, Nat.add_zero] at this
            exact unproc_zero E n m v (by omega) i hi hp
      · refine ⟨by rw [decAt_length]; exact h.len, h.nodup, ?_, hdeg', h.preds⟩
        intro m hm
        have hmn := (h.zero m hm).1
        refine ⟨hmn, ?_⟩
        rw [hget m hmn]
        have : m ≠ j := fun e => hjnot (e ▸ hm)
        rw [if_neg this]; exact (h.zero m hm).2
    rw [List.foldl_cons]
    exact inner_fold v rest _ _ hnd' (fun x hx => hlt x (List.mem_cons_of_mem _ hx)) key

theorem sortLoop_succ_cons (E : List (List Nat)) (fuel i : Nat) (q d v : List Nat) :
    sortLoop E (fuel + 1) (i :: q) d v =
      sortLoop E fuel ((E.getD i []).foldl innerStep (q, d)).1 ((E.getD i []).foldl innerStep (q, d)).2 (v ++ [i]) := rfl

/-- what the visiting loop returns -/
theorem sortLoop_inv (hE : ∀ i, (E.getD i []).Nodup ∧ ∀ j ∈ E.getD i [], j < n) :
    ∀ (fuel : Nat) (q d v : List Nat), Inv E n q d v →
      Topo E n (sortLoop E fuel q d v) ∧ (sortLoop E fuel q d v).Nodup ∧ ∀ m ∈ sortLoop E fuel q d v, m < n
  | 0, q, d, v, h => by
    simp only [sortLoop]
    refine ⟨h.topo, (List.nodup_append.mp h.nodup).1, fun m hm => (h.zero m (List.mem_append_left _ hm)).1⟩
  | fuel + 1, [], d, v, h => by
    simp only [sortLoop]
    refine ⟨h.topo, (List.nodup_append.mp h.nodup).1, fun m hm => (h.zero m (List.mem_append_left _ hm)).1⟩
  | fuel + 1, i :: q, d, v, h => by
    rw [sortLoop_succ_cons]
    have hin : i < n := (h.zero i (by simp)).1
    have hiv : i ∉ v := by
      intro hm
      have := (List.nodup_append.mp h.nodup).2.2 i hm i (by simp)
      exact this rfl
    -- entering the inner loop
    have hinner : InnerInv E n (E.getD i []) q d (v ++ [i]) := by
      refine ⟨h.len, ?_, ?_, ?_, ?_⟩
      · have : v ++ [i] ++ q = v ++ i :: q := by simp
        rw [this]; exact h.nodup
      · intro m hm
        have : v ++ [i] ++ q = v ++ i :: q := by simp
        rw [this] at hm
        exact h.zero m hm
      · intro j hj
        have hd := h.deg j hj
        by_cases hp : (E.getD i []).contains j = true
        · have := unproc_strict E n j i v hin hp hiv
          simp only [hp, if_true]; omega
        · have := unproc_mono E n j i v
          simp only [hp, Bool.false_eq_true, if_false]; omega
      · intro m hm i' hi' hp
        exact List.mem_append_left _ (h.preds m (List.mem_cons_of_mem _ hm) i' hi' hp)
    have hfold := inner_fold E n (v ++ [i]) (E.getD i []) q d (hE i).1 (hE i).2 hinner
    apply sortLoop_inv hE fuel
    refine ⟨hfold.len, hfold.nodup, hfold.zero, ?_, hfold.preds, ?_⟩
    · intro j hj
      have := hfold.deg j hj
      have hc : ([] : List Nat).contains j = false := rfl
      rw [hc] at this
      simpa using this
    · -- the visited list stays topological
      intro k m hk i' hi' hp
      by_cases hkl : k < v.length
      · rw [List.getElem?_append_left hkl] at hk
        rw [List.take_append_of_le_length (by omega)]
        exact h.topo k m hk i' hi' hp
      · have hkeq : k = v.length := by
          have := (List.getElem?_eq_some_iff.mp hk).1
          simp at this; omega
        subst hkeq
        rw [List.getElem?_append_right (Nat.le_refl _)] at hk
        simp at hk
        subst hk
        rw [List.take_left]
        exact h.preds i (by simp) i' hi' hp
end

/-! ### the table sortTypes builds -/

theorem edgesOf_nodup (tys : List Ty) (k : Nat) : (edgesOf tys k).Nodup := by
  unfold edgesOf
  split
  · simp
  · refine List.nodup_append.mpr ⟨?_, ?_, ?_⟩
    · exact List.Nodup.sublist List.filter_sublist List.nodup_range
    · exact List.Nodup.sublist List.filter_sublist List.nodup_range
    · intro a ha b hb
      simp only [List.mem_filter, List.mem_range, Bool.and_eq_true, decide_eq_true_eq] at ha hb
      omega

theorem edgesOf_mem (tys : List Ty) (i j : Nat) : j ∈ edgesOf tys i ↔ prefers tys i j = true := by
  unfold edgesOf prefers
  cases hi : tys[i]? with
  | none => simp
  | some a =>
    have hil : i < tys.length := (List.getElem?_eq_some_iff.mp hi).1
    simp only [List.mem_append, List.mem_filter, List.mem_range, Bool.and_eq_true, decide_eq_true_eq]
    cases hj : tys[j]? with
    | none =>
      have : ¬ j < tys.length := by
        intro h; rw [List.getElem?_eq_getElem h] at hj; simp at hj
      simp
      all_goals omega
    | some b =>
      have hjl : j < tys.length := (List.getElem?_eq_some_iff.mp hj).1
      simp only [Bool.or_eq_true, Bool.and_eq_true, decide_eq_true_eq]
      constructor
      · rintro (⟨h1, h2⟩ | ⟨_, h1, h2⟩)
        · exact .inr ⟨h1, h2⟩
        · exact .inl ⟨h1, h2⟩
      · rintro (⟨h1, h2⟩ | ⟨h1, h2⟩)
        · exact .inr ⟨hjl, h1, h2⟩
        · exact .inl ⟨h1, h2⟩

theorem sortEdges_getD (tys : List Ty) (i : Nat) :
    ((List.range tys.length).map (edgesOf tys)).getD i [] = edgesOf tys i := by
  simp only [List.getD_eq_getElem?_getD, List.getElem?_map]
  by_cases hi : i < tys.length
  · simp [List.getElem?_range hi]
  · have h1 : (List.range tys.length)[i]? = none := by simp; omega
    have h2 : tys[i]? = none := by simp; omega
    simp [h1, edgesOf, h2]

/-- the in-degree table counts at least every predecessor -/
theorem sum_count_ge (j : Nat) (f : Nat → List Nat) : ∀ (l : List Nat),
    (l.filter fun i => (f i).contains j).length ≤ ((l.map f).map fun outs => (outs.filter (· == j)).length).sum
  | [] => by simp
  | a :: l => by
    have ih := sum_count_ge j f l
    rw [List.filter_cons, List.map_cons, List.map_cons, List.sum_cons]
    cases hc : (f a).contains j with
    | false => simp only [Bool.false_eq_true, if_false]; omega
    | true =>
      have : 1 ≤ ((f a).filter (· == j)).length := by
        have hm : j ∈ f a := by simpa using hc
        have : j ∈ (f a).filter (· == j) := List.mem_filter.mpr ⟨hm, by simp⟩
        exact List.length_pos_iff.mpr (List.ne_nil_of_mem this)
      simp only [if_true, List.length_cons]; omega

/-- the initial state satisfies the invariant -/
theorem sort_init (tys : List Ty) :
    let l := tys.length
    let edges := (List.range l).map (edgesOf tys)
    let deg := (List.range l).map fun j => (edges.map fun outs => (outs.filter (· == j)).length).sum
    let queue := (List.range l).filter fun i => deg.getD i 1 = 0
    Inv edges l queue deg [] := by
  intro l edges deg queue
  have hdeg : ∀ j, j < l → unproc edges l j [] ≤ deg.getD j 1 := by
    intro j hj
    have hget : deg.getD j 1 = (edges.map fun outs => (outs.filter (· == j)).length).sum := by
      simp [deg, List.getD_eq_getElem?_getD, List.getElem?_map, List.getElem?_range hj]
    rw [hget]
    have := sum_count_ge j (edgesOf tys) (List.range l)
    refine Nat.le_trans ?_ this
    apply filter_length_mono
    intro x _ hx
    simp only [isPred, Bool.and_eq_true] at hx
    have := hx.1
    rw [sortEdges_getD] at this
    exact this
  refine ⟨by simp [deg], ?_, ?_, hdeg, ?_, ?_⟩
  · simp only [List.nil_append]
    exact List.Nodup.sublist List.filter_sublist List.nodup_range
  · intro m hm
    simp only [List.nil_append, queue, List.mem_filter, List.mem_range, decide_eq_true_eq] at hm
    exact hm
  · intro m hm i hi hp
    simp only [queue, List.mem_filter, List.mem_range, decide_eq_true_eq] at hm
    have := hdeg m hm.1
    rw [hm.2] at this
    exact unproc_zero edges l m [] (by omega) i hi hp
  · intro k m hk; simp at hk

/-- sortTypes: the visiting order is topological, without repetition, in range -/
theorem sortVisited_spec (tys : List Ty) :
    (∀ (k m : Nat), (sortVisited tys)[k]? = some m → ∀ i, prefers tys i m = true → i ∈ (sortVisited tys).take k) ∧
    (sortVisited tys).Nodup ∧ ∀ m ∈ sortVisited tys, m < tys.length := by
  have hE : ∀ i, (((List.range tys.length).map (edgesOf tys)).getD i []).Nodup ∧
      ∀ j ∈ ((List.range tys.length).map (edgesOf tys)).getD i [], j < tys.length := by
    intro i
    rw [sortEdges_getD]
    exact ⟨edgesOf_nodup tys i, edgesOf_lt tys i⟩
  obtain ⟨ht, hn, hl⟩ := sortLoop_inv _ tys.length hE (tys.length + 1) _ _ _ (sort_init tys)
  refine ⟨?_, hn, hl⟩
  intro k m hk i hp
  have hil : i < tys.length := by
    unfold prefers at hp
    cases hi : tys[i]? with
    | none => simp [hi] at hp
    | some _ => exact (List.getElem?_eq_some_iff.mp hi).1
  refine ht k m hk i hil ?_
  simp only [isPred, sortEdges_getD, List.contains_iff_mem]
  exact (edgesOf_mem tys i m).mpr hp

theorem sortTypes_eq (tys : List Ty) :
    sortTypes tys = sortVisited tys ++ List.replicate (tys.length - (sortVisited tys).length) 0 := rfl

end Unify
end CtyModel
