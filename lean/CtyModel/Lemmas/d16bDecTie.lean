/-
C16 (second deepening, d16b) — the GENERAL tie of the regenerated DECODER of unknown values:
`Generated.MpUnknownFns.unmarshalUnknownValue` (translated from cty/msgpack/unknown.go on every check)
computes what the hand-written `D17.unmarshal` computes on an extension item, for EVERY extension item
(type code, length word, body header, item stream) and EVERY requested type, up to the TEXT of an error
(`er`): by induction over the refinement-entry loop (`unmarshalUnknownValue_loop_1` against `D17.rfnLoop`).
No side condition on the input: the shape of what the nested `unmarshal(dec, [number, bool])` answers is
proved for every item (`Lemmas/d16bShape.lean`).  This replaces the kernel-evaluated battery of
`Lemmas/MpUnknownFnsTie.lean` as the tie (the battery stays as a regression).
-/
import CtyModel.Lemmas.MpUnknownFnsTie
import CtyModel.Lemmas.d16bShape
set_option linter.unusedSimpArgs false
set_option linter.unusedVariables false
namespace CtyModel
set_option linter.unusedSectionVars false
namespace D16b
open Refine Msgpack RefineGo MpGo Generated.MpUnknownFns MpUnknownFnsTie

/-- a Go value the translated decoder answers, as a model value (`cty.NilVal` and the infinity singletons are
never answered: not modelled) -/
def toV : Res RefineGo.GoVal → Res Value
  | .ok (.v a) => .ok a
  | .ok _ => .unmodelled
  | .err c => .err c
  | .panic w => .panic w
  | .unmodelled => .unmodelled

/-- the continuation after the loop only looks at the builder and at `notNull, minLen, maxLen` -/
def kOf (k' : Builder → D17.LenSt → Res RefineGo.GoVal) : Builder → GoErr → Int → Int → Bool → RDec → Res RefineGo.GoVal :=
  fun b _ mx mn nn _ => k' b ⟨nn, mn, mx⟩

theorem er_bind_congr {α β} {x : Res α} {f g : α → Res β} (h : ∀ a, x = .ok a → er (f a) = er (g a)) :
    er (x.bind f) = er (x.bind g) := by
  cases x <;> simp [Res.bind, er]
  exact h _ rfl

@[simp] theorem er_err {α} (c : String) : er (Res.err c : Res α) = .err "" := rfl
@[simp] theorem er_panic {α} (c : String) : er (Res.panic c : Res α) = .panic "" := rfl
@[simp] theorem er_unm {α} : er (Res.unmodelled : Res α) = .unmodelled := rfl
@[simp] theorem er_ok {α} (a : α) : er (Res.ok a) = .ok a := rfl

theorem idx0 : idxOf zeroVal = some 0 := by decide
theorem idx1 : idxOf (numberIntVal 1) = some 1 := by decide

section
variable [O : EqOracle] (E : Ext)

macro "lp_simp" "[" ts:Lean.Parser.Tactic.simpLemma,* "]" : tactic => `(tactic|
    simp [$ts,*, *, decodeInt64, decodeInt, decodeBool, decodeString, decSkip, unmarshalNested, builderNull, builderNotNull,
      builderStringPrefixFull, builderLenLower, builderLenUpper, builderNumLower, builderNumUpper, toNumArg, valIndex, idx0, idx1,
      typeOf, toValue?, RefineGo.isKnown, RefineGo.isNull, RefineGo.isTrue, RefineGo.isBool, Ty.isNumber, Ty.isString, utf8ValidString,
      newErrorf, keyNullness, keyStringPrefix, keyNumberMin, keyNumberMax, keyLengthMin, keyLengthMax,
      D17.LenSt.bound, decString, boundTy, dynamicVal, Value.isNull, Value.isKnown, Payload.isNull, Payload.isKnown,
      Payload.unmark1])

set_option maxHeartbeats 4000000 in
/-- the refinement-entry loop: the translated `for` loop, run for the `n` announced entries over ANY stream of items,
then continuing with `k'`, is `D17.rfnLoop` followed by `k'` — up to the text of an error -/
theorem loop_eq (ty : Ty) (dec : Dec) (body : Buf) (ec el : Int) (ret : RefineGo.GoVal) (tc : Int) (e0 : GoErr)
    (k' : Builder → D17.LenSt → Res RefineGo.GoVal) :
    ∀ (n : Nat) (stream : List Item) (i : Int) (b : Builder) (nn : Bool) (mn mx : Int),
      er (unmarshalUnknownValue_loop_1 E dec ty body ec el ret tc (kOf k') n i b e0 mx mn nn (.items stream)) =
        er ((D17.rfnLoop E ty n stream b ⟨nn, mn, mx⟩).bind fun r => k' r.1 r.2) := by
  intro n
  induction n with
  | zero => intro stream i b nn mn mx; cases stream <;> simp [unmarshalUnknownValue_loop_1, D17.rfnLoop, kOf, Res.bind]
  | succ n ih =>
    intro stream i b nn mn mx
    rw [unmarshalUnknownValue_loop_1.eq_def]; simp only []
    cases stream with
    | nil => lp_simp [D17.rfnLoop]
    | cons k rest =>
      rw [D17.rfnLoop.eq_def]; simp only []
      cases hk : decInt64 k with
      | none => simp only [decodeInt64, hk, rbind_ok]; lp_simp [er_err]
      | some key =>
        simp only [decodeInt64, hk, rbind_ok]
        by_cases h1 : key = 1
        · subst h1
          cases rest with
          | nil => lp_simp [er_err]
          | cons v rest' =>
            cases hb : decBool v with
            | none => lp_simp [er_err]
            | some isNull =>
              cases isNull
              · cases hs : Refine.step b .notNull <;> lp_simp [ih]
              · cases hs : Refine.step b .null <;> lp_simp [ih]
        · by_cases h2 : key = 2
          · subst h2
            cases hty : ty.isString
            · cases ty <;> simp [Ty.isString] at hty <;> lp_simp [er_err]
            · cases ty <;> simp [Ty.isString] at hty
              cases rest with
              | nil => lp_simp [er_err]
              | cons v rest' =>
                cases v with
                | nil => cases hs : Refine.step b (.stringPrefixFull (E.norm "")) <;> lp_simp [ih]
                | str s => cases hs : Refine.step b (.stringPrefixFull (E.norm s)) <;> lp_simp [ih]
                | bin bs =>
                  cases hu : String.fromUTF8? (ByteArray.mk bs.toArray) with
                  | none => lp_simp [er_err]
                  | some s => cases hs : Refine.step b (.stringPrefixFull (E.norm s)) <;> lp_simp [ih]
                | _ => lp_simp [er_err]
          · by_cases h5 : key = 5
            · subst h5
              cases hc : isCollection ty
              · lp_simp [er_err]
              · cases rest with
                | nil => lp_simp [er_err]
                | cons v rest' =>
                  cases hv : decInt64 v with
                  | none => lp_simp [er_err]
                  | some bound =>
                    cases hs : Refine.step b (.lenLower bound) <;> lp_simp [ih]
                    by_cases hg : bound > mn <;> simp [hg, ih]
            · by_cases h6 : key = 6
              · subst h6
                cases hc : isCollection ty
                · lp_simp [er_err]
                · cases rest with
                  | nil => lp_simp [er_err]
                  | cons v rest' =>
                    cases hv : decInt64 v with
                    | none => lp_simp [er_err]
                    | some bound =>
                      cases hs : Refine.step b (.lenUpper bound) <;> lp_simp [ih]
                      by_cases hg : bound < mx <;> simp [hg, ih]
              · by_cases h34 : key = 3 ∨ key = 4
                · rcases h34 with rfl | rfl
                  all_goals (
                    cases hty : ty.isNumber
                    · lp_simp [er_err]
                    · cases rest with
                      | nil => lp_simp [er_err]
                      | cons v rest' =>
                        cases hu : D17.unmarshal E v boundTy with
                        | err c => simp [boundTy] at hu; lp_simp [er_err]
                        | panic w => simp [boundTy] at hu; lp_simp [er_err]
                        | unmodelled => simp [boundTy] at hu; lp_simp [er_err]
                        | ok raw =>
                          rcases bound_shape E hu with hn | ⟨r, hr⟩ | ⟨pa, pb, hraw, hpa, hpb⟩
                          · obtain ⟨t, p⟩ := raw
                            simp at hn; subst hn
                            simp [boundTy] at hu; lp_simp [er_err]
                          · obtain ⟨t, p⟩ := raw
                            simp at hr; subst hr
                            simp [boundTy] at hu; lp_simp [er_err]
                          · subst hraw
                            simp [boundTy] at hu
                            cases pa <;> simp [numP] at hpa <;> cases pb <;> simp [boolP] at hpb <;> lp_simp [er_err]
                            all_goals (rename_i x t; first
                              | (cases hs : Refine.step b (.numLower (.known x) t) <;> lp_simp [ih])
                              | (cases hs : Refine.step b (.numUpper (.known x) t) <;> lp_simp [ih])))
                · have h3 : key ≠ 3 := fun h => h34 (Or.inl h)
                  have h4 : key ≠ 4 := fun h => h34 (Or.inr h)
                  cases rest with
                  | nil => lp_simp [er_err]
                  | cons v rest' => lp_simp [ih]


theorem fin_congr {x y : Res RefineGo.GoVal} (m : String) (h : er x = er y) :
    er (toV (recoverWith (.err m) x)) = er (toV (recoverWith (.err m) y)) := by
  cases x <;> cases y <;> simp [er, recoverWith, toV] at h ⊢
  subst h; rfl

/-- the code after the loop: the known-length refusal, then `builder.NewValue()` -/
def kFin (ty : Ty) : Builder → D17.LenSt → Res RefineGo.GoVal := fun b st =>
  if (((st.notNull && RefineGo.isListType ty) && decide (st.minLen = st.maxLen)) && decide (st.minLen > (0 : Int))) then
    .err (newErrorf "invalid refinements for unknown value: a list of known length is not unknown")
  else (builderNewValue b).bind fun r => .ok r

theorem isListType_eq (ty : Ty) : RefineGo.isListType ty = D17.isListTy ty := by cases ty <;> rfl

/-- what the hand-written decoder does after the loop, in the same vocabulary -/
theorem kFin_eq (ty : Ty) (b : Builder) (st : D17.LenSt) :
    toV (kFin ty b st) =
      (if st.notNull && D17.isListTy ty && st.minLen == st.maxLen && decide (st.minLen > 0) then
        .err (newErrorf "invalid refinements for unknown value: a list of known length is not unknown")
       else Refine.newValue b) := by
  unfold kFin
  rw [isListType_eq]
  split
  · rename_i h; simp at h; obtain ⟨⟨⟨ha, hb⟩, hc⟩, hd⟩ := h; simp [ha, hb, hc, toV]; intro hh; omega
  · rename_i h; simp at h
    have : (st.notNull && D17.isListTy ty && st.minLen == st.maxLen && decide (st.minLen > 0)) = false := by
      simp; intro a b c; exact h a b c
    rw [this]
    cases hn : Refine.newValue b <;> simp [builderNewValue, hn, Res.map, toV]

theorem fin_model {x : Res RefineGo.GoVal} {y : Res Value} (m : String) (h : toV x = y) :
    er (toV (recoverWith (.err m) x)) = er (recoverErr y) := by
  subst h
  cases x with
  | ok g => cases g <;> rfl
  | _ => rfl

set_option maxHeartbeats 2000000 in
/-- the translated function on a refinement MAP under type code 12 with a body of 2..1024 bytes, for a type that is
not the dynamic placeholder: the builder is started, the loop runs for the announced entries, then `kFin` -/
theorem body_eq (len n : Nat) (stream : List Item) (ty : Ty) (hl : ¬ len ≤ 1) (hb : ¬ len > 1024) (hd : ty.isDyn = false) :
    unmarshalUnknownValue E (.atItem (.ext 12 len (.map n) stream)) ty =
      recoverWith (.err (newErrorf "invalid refinements for unknown value: %v"))
        ((Refine.init (Value.unknown ty)).bind fun b0 =>
          unmarshalUnknownValue_loop_1 E .past ty [.body (.map n) stream] (n : Int) (len : Int) .nilVal 12 (kOf (kFin ty)) n 0 b0 none
            9223372036854775807 0 false (.items stream)) := by
  have h1 : ¬ (len : Int) ≤ 1 := by omega
  have h2 : ¬ (len : Int) > 1024 := by omega
  have h3 : ¬ ((len : Int) < 0) := by omega
  delta kOf kFin
  simp [unmarshalUnknownValue, decodeExtHeader, h1, h2, h3, makeBytes, readBody, newBodyDecoder, decodeMapLen,
    hl, hb, hd, valRefine, unknownVal, toValue, toValue?, optRes]

set_option maxHeartbeats 2000000 in
/-- THE GENERAL TIE of the decoder: for every extension item and every requested type the translated
`unmarshalUnknownValue` answers what the hand-written `D17.unmarshal` answers, up to the text of an error -/
theorem unmarshalUnknownValue_eq (code : Int) (len : Nat) (hdr : ExtHdr) (stream : List Item) (ty : Ty) :
    er (toV (unmarshalUnknownValue E (.atItem (.ext code len hdr stream)) ty)) =
      er (D17.unmarshal E (.ext code len hdr stream) ty) := by
  by_cases hl : len ≤ 1
  · rw [dec_small E code len hdr stream ty hl]
    simp [D17.unmarshal, hl, recoverErr, toV]
  · have h1 : ¬ (len : Int) ≤ 1 := by omega
    by_cases hc : code = 12
    · by_cases hb : len > 1024
      · obtain ⟨c, h⟩ := dec_oversize E code len hdr stream ty hb
        rw [h]; simp [D17.unmarshal, hl, hc, hb, maxExtLen, unknownWithRefinementsExt, recoverErr, toV]
      · have h2 : ¬ (len : Int) > 1024 := by omega
        have h3 : ¬ ((len : Int) < 0) := by omega
        subst hc
        cases hdr with
        | other =>
          simp [unmarshalUnknownValue, decodeExtHeader, h1, h2, h3, makeBytes, readBody, newBodyDecoder, decodeMapLen,
            recoverWith, toV, D17.unmarshal, hl, hb, recoverErr, maxExtLen, unknownWithRefinementsExt, newErrorf]
        | ext =>
          simp [unmarshalUnknownValue, decodeExtHeader, h1, h2, h3, makeBytes, readBody, newBodyDecoder, decodeMapLen,
            recoverWith, toV, D17.unmarshal, hl, hb, recoverErr, maxExtLen, unknownWithRefinementsExt, newErrorf]
        | nil =>
          cases hd : ty.isDyn
          · simp [unmarshalUnknownValue, decodeExtHeader, h1, h2, h3, makeBytes, readBody, newBodyDecoder, decodeMapLen,
              D17.unmarshal, hl, hb, maxExtLen, unknownWithRefinementsExt, newErrorf, hd, valRefine, unknownVal,
              toValue, toValue?, optRes, unmarshalUnknownValue_loop_1]
            cases hi : Refine.init (Value.unknown ty) <;> simp [recoverWith, recoverErr, toV, Res.bind]
            rename_i b0
            cases hn : Refine.newValue b0 <;> simp [builderNewValue, hn, Res.map, recoverWith, recoverErr, toV, Res.bind]
          · simp [unmarshalUnknownValue, decodeExtHeader, h1, h2, h3, makeBytes, readBody, newBodyDecoder, decodeMapLen,
              D17.unmarshal, hl, hb, maxExtLen, unknownWithRefinementsExt, newErrorf, hd, unknownVal, recoverWith,
              recoverErr, toV]
        | map n =>
          cases hd : ty.isDyn
          · rw [body_eq E len n stream ty hl hb hd]
            simp only [D17.unmarshal]
            simp only [hl, hb, maxExtLen, unknownWithRefinementsExt, hd, if_false, ne_eq, not_true_eq_false, Bool.false_eq_true]
            cases hi : Refine.init (Value.unknown ty) with
            | ok b0 =>
              simp only [rbind_ok]
              refine (fin_congr _ (loop_eq E ty _ _ _ _ _ _ none (kFin ty) n stream 0 b0 false 0 9223372036854775807)).trans ?_
              apply fin_model
              cases hr : D17.rfnLoop E ty n stream b0 D17.lenSt0 with
              | ok r =>
                have hr' : D17.rfnLoop E ty n stream b0 ⟨false, 0, 9223372036854775807⟩ = .ok r := hr
                simp only [hr', rbind_ok]
                exact kFin_eq ty r.1 r.2
              | _ =>
                have hr' : D17.rfnLoop E ty n stream b0 ⟨false, 0, 9223372036854775807⟩ = _ := hr
                simp only [hr']; rfl
            | _ => rfl
          · simp [unmarshalUnknownValue, decodeExtHeader, h1, h2, h3, makeBytes, readBody, newBodyDecoder, decodeMapLen,
              D17.unmarshal, hl, hb, maxExtLen, unknownWithRefinementsExt, newErrorf, hd, unknownVal, recoverWith,
              recoverErr, toV]
    · obtain ⟨c, h⟩ := dec_wrong_code E code len hdr stream ty (by omega) hc
      rw [h]; simp [D17.unmarshal, hl, hc, unknownWithRefinementsExt, recoverErr, toV]

end
end D16b
end CtyModel
