/-
d03b — tying the knot over the nesting levels: at every level `lvl (n+1)` the hash
bytes and `RawEquals` of a value of depth ≤ n are those of its transliteration.
-/
import CtyModel.Lemmas.d03bEncTie
namespace CtyModel
namespace D03b
open Value SetImpl

/-! ### sorting commutes with a map that respects the comparison -/

theorem insertBack_map {α β : Type} (c : α → β) (f : β → β → Bool) (x : α) :
    ∀ acc : List α, (insertBack (fun a b => f (c a) (c b)) x acc).map c = insertBack f (c x) (acc.map c)
  | [] => rfl
  | y :: ys => by
    simp only [insertBack, List.map_cons]
    by_cases h : f (c x) (c y) = true
    · simp [h, insertBack_map c f x ys]
    · simp [h]

theorem foldl_insertBack_map {α β : Type} (c : α → β) (f : β → β → Bool) :
    ∀ (l acc : List α), (l.foldl (fun acc x => insertBack (fun a b => f (c a) (c b)) x acc) acc).map c =
      (l.map c).foldl (fun acc x => insertBack f x acc) (acc.map c)
  | [], _ => rfl
  | x :: l, acc => by
    simp only [List.foldl_cons, List.map_cons]
    rw [foldl_insertBack_map c f l, insertBack_map]

theorem sortStable_map {α β : Type} (c : α → β) (f : β → β → Bool) (l : List α) :
    (sortStable (fun a b => f (c a) (c b)) l).map c = sortStable f (l.map c) := by
  simp only [sortStable, List.map_reverse]
  rw [foldl_insertBack_map c f l []]; rfl

/-! ### `Less` from the results of `RawEquals` and the hash bytes -/

theorem less_comp_generic (L : Lvl) {e : Ty} (hc : e.isPrim = false) {x y : Payload} {r : Bool} {hx hy : Bytes}
    (hr : L.raw e x e y = .ok r) (h1 : L.hb e x = .ok hx) (h2 : L.hb e y = .ok hy) :
    L.less e x y = .ok (if r then false else if y.isNull && !x.isNull then true else if x.isNull then false
      else if x.isKnown && !y.isKnown then true else if !x.isKnown then false else bytesLt hx hy) := by
  simp only [Lvl.less, hr, Res.bind_ok]
  cases r
  · simp only [Bool.false_eq_true, if_false]
    by_cases c1 : (y.isNull && !x.isNull) = true
    · simp [c1]
    · simp only [c1]
      by_cases c2 : x.isNull = true
      · simp [c2]
      · simp only [c2]
        by_cases c3 : (x.isKnown && !y.isKnown) = true
        · simp [c3]
        · simp only [c3]
          by_cases c4 : (!x.isKnown) = true
          · simp [c4]
          · simp only [c4]
            cases e <;> simp [Ty.isPrim] at hc <;> simp [h1, h2, Res.bind_ok]
  · simp

/-- the statement proved by induction on the level -/
def S (n : Nat) : Prop :=
  (∀ t p, capFree t = true → G t p → p.depth ≤ n → (lvl (n + 1)).hb t p = hashS sh0 (enc t) (canon t p)) ∧
  (∀ t a b, capFree t = true → G t a → G t b → a.depth ≤ n → b.depth ≤ n →
    (lvl (n + 1)).raw t a t b = .ok (rawB (enc t) (canon t a) (canon t b)))

theorem canon_prim {e : Ty} (he : e.isPrim = true) (x : Payload) (hx : x.containsMarked = false) : canon e x = x := by
  cases e <;> simp [Ty.isPrim] at he <;> cases x <;> simp_all [canon, Payload.containsMarked]

theorem enc_prim {e : Ty} (he : e.isPrim = true) : enc e = e := by
  cases e <;> simp [Ty.isPrim] at he <;> rfl

/-- `Less` between two members at level `n + 1` is the specification on the transliterations -/
theorem lvl_less_enc {n : Nat} (hS : S n) {e : Ty} (hc : capFree e = true) {x y : Payload} (hx : G e x) (hy : G e y)
    (dx : x.depth ≤ n) (dy : y.depth ≤ n) :
    (lvl (n + 1)).less e x y = .ok (lessEnc e (canon e x) (canon e y)) := by
  by_cases he : e.isPrim = true
  · rw [canon_prim he x hx.2.1, canon_prim he y hy.2.1]
    simp only [lessEnc, he, if_true]
    exact lvl_less_prim n he ⟨hx.1, hx.2.1⟩ ⟨hy.1, hy.2.1⟩
  · have he' : e.isPrim = false := by simpa using he
    have gx := canon_G e x hx
    have gy := canon_G e y hy
    have pl := enc_plain e hc
    obtain ⟨bx, ebx⟩ := hashS_ok sh0 (enc e) (canon e x) pl gx.1 gx.2.2
    obtain ⟨by', eby⟩ := hashS_ok sh0 (enc e) (canon e y) pl gy.1 gy.2.2
    have h1 : (lvl (n + 1)).hb e x = .ok bx := by rw [hS.1 e x hc hx dx]; exact ebx
    have h2 : (lvl (n + 1)).hb e y = .ok by' := by rw [hS.1 e y hc hy dy]; exact eby
    rw [less_comp_generic _ he' (hS.2 e x y hc hx hy dx dy) h1 h2]
    simp only [lessEnc, he', Bool.false_eq_true, if_false, compLessB, hashBytesP_eq_hashS sh0 pl gx.1,
      hashBytesP_eq_hashS sh0 pl gy.1, ebx, eby, canon_isNull e x hx.2.1, canon_isNull e y hy.2.1,
      canon_isKnown e x hx.2.1, canon_isKnown e y hy.2.1]

theorem depth_le_of_mem {v : Payload} : ∀ {vs : List Payload}, v ∈ vs → v.depth ≤ Payload.depthL vs
  | [], h => by cases h
  | w :: ws, h => by
    simp only [Payload.depthL]
    rcases List.mem_cons.mp h with rfl | h
    · omega
    · have := depth_le_of_mem h; omega

/-- iteration order of a set node at level `n + 1` -/
theorem lvl_iter_enc {n : Nat} (hS : S n) {e : Ty} (hc : capFree e = true) {vs : List Payload} (hg : GAll e vs)
    (hd : Payload.depthL vs ≤ n) :
    (lvl (n + 1)).iter e vs = .ok (sortStable (fun x y => lessEnc e (canon e x) (canon e y)) vs) := by
  simp only [Lvl.iter, sortStable]
  rw [GAll_iff] at hg
  exact sortAuxM_eq (fun p => G e p ∧ p.depth ≤ n) (fun x y hx hy => lvl_less_enc hS hc hx.1 hy.1 hx.2 hy.2) vs []
    (fun x hx => ⟨hg x hx, Nat.le_trans (depth_le_of_mem hx) hd⟩) (by simp)

theorem canonSet_eq (e : Ty) (vs : List Payload) :
    canonSet e vs = .seq ((sortStable (fun x y => lessEnc e (canon e x) (canon e y)) vs).map (canon e)) := by
  simp only [canonSet, canonAll_eq_map, sortStable_map]

theorem lvl_hashAll_enc {n : Nat} (hS : S n) {e : Ty} (hc : capFree e = true) : ∀ (l : List Payload),
    (∀ v ∈ l, G e v ∧ v.depth ≤ n) → (lvl (n + 1)).hashAll e l = hashAllS sh0 (enc e) (l.map (canon e))
  | [], _ => rfl
  | v :: l, h => by
    have hv := h v (List.mem_cons_self ..)
    simp only [Lvl.hashAll, List.map_cons, hashAllS, hS.1 e v hc hv.1 hv.2,
      lvl_hashAll_enc hS hc l (fun w hw => h w (List.mem_cons_of_mem _ hw))]

theorem lvl_rawAllL_enc {n : Nat} (hS : S n) {e : Ty} (hc : capFree e = true) : ∀ (l1 l2 : List Payload),
    (∀ v ∈ l1, G e v ∧ v.depth ≤ n) → (∀ v ∈ l2, G e v ∧ v.depth ≤ n) →
    (lvl (n + 1)).rawAllL e l1 l2 = .ok (rawBAll (enc e) (l1.map (canon e)) (l2.map (canon e)))
  | [], _, _, _ => by simp [Lvl.rawAllL, rawBAll]
  | _ :: _, [], _, _ => by simp [Lvl.rawAllL, rawBAll]
  | x :: l1, y :: l2, h1, h2 => by
    have hx := h1 x (List.mem_cons_self ..)
    have hy := h2 y (List.mem_cons_self ..)
    simp only [Lvl.rawAllL, List.map_cons, rawBAll, hS.2 e x y hc hx.1 hy.1 hx.2 hy.2]
    cases rawB (enc e) (canon e x) (canon e y)
    · rfl
    · simpa [Res.andThen] using lvl_rawAllL_enc hS hc l1 l2 (fun w hw => h1 w (List.mem_cons_of_mem _ hw))
        (fun w hw => h2 w (List.mem_cons_of_mem _ hw))

theorem shOK_succ {n : Nat} (hS : S n) : ShOK (lvl (n + 1)).setHash (n + 1) := by
  intro e ids vs hc hg hd
  have hd' : Payload.depthL vs ≤ n := by omega
  have hm : ∀ v ∈ sortStable (fun x y => lessEnc e (canon e x) (canon e y)) vs, G e v ∧ v.depth ≤ n := fun v hv => by
    have := (mem_sortStable _ _ _).mp hv
    exact ⟨GAll_iff.mp hg v this, Nat.le_trans (depth_le_of_mem this) hd'⟩
  simp only [Lvl.setHash, lvl_iter_enc hS hc hg hd', lvl_hashAll_enc hS hc _ hm, canonSet_eq, hashS]

theorem srOK_succ {n : Nat} (hS : S n) : SrOK (lvl (n + 1)).setRaw (n + 1) := by
  intro e xs ys hc gx gy dx dy
  have dx' : Payload.depthL xs ≤ n := by omega
  have dy' : Payload.depthL ys ≤ n := by omega
  have hm : ∀ (l : List Payload), GAll e l → Payload.depthL l ≤ n →
      ∀ v ∈ sortStable (fun x y => lessEnc e (canon e x) (canon e y)) l, G e v ∧ v.depth ≤ n := fun l hg hd v hv => by
    have := (mem_sortStable _ _ _).mp hv
    exact ⟨GAll_iff.mp hg v this, Nat.le_trans (depth_le_of_mem this) hd⟩
  simp only [Lvl.setRaw, lvl_iter_enc hS hc gx dx', lvl_iter_enc hS hc gy dy',
    lvl_rawAllL_enc hS hc _ _ (hm xs gx dx') (hm ys gy dy'), canonSet_eq, rawB, List.length_map]
  by_cases hl : (sortStable (fun x y => lessEnc e (canon e x) (canon e y)) xs).length =
      (sortStable (fun x y => lessEnc e (canon e x) (canon e y)) ys).length <;> simp [hl]

theorem shOK_zero (sh : SetHashRec) : ShOK sh 0 := fun _ _ _ _ _ h => by omega
theorem srOK_zero (sr : SetRawRec) : SrOK sr 0 := fun _ _ _ _ _ _ h _ => by omega

theorem S_of {n : Nat} (hh : ShOK (lvl n).setHash n) (hr : SrOK (lvl n).setRaw n) : S n := by
  refine ⟨fun t p hc hg hd => hashS_enc _ n hh t p hc hg hd, fun t a b hc ha hb da db => ?_⟩
  show rawS (lvl n).setRaw t a t b = _
  simp only [rawS, Ty.equals_self (capFree_wf t hc), Bool.not_true, Bool.false_eq_true, if_false]
  exact rawK_enc _ n hr t a b hc ha hb da db

theorem S_all : ∀ n, S n
  | 0 => S_of (shOK_zero _) (srOK_zero _)
  | n + 1 => S_of (shOK_succ (S_all n)) (srOK_succ (S_all n))

end D03b
end CtyModel
