/-
C15 — the decoder never puts optional-attribute annotations into the type of a value
(/repo afdc0a2): by mutual structural induction on the document, every type that
`unmarshal` hands to a value constructor is either (part of) the requested type — which the
public `Unmarshal` has stripped — or a decoded type descriptor, which `unmarshalDynamic`
passes through the public `Unmarshal` too, or the type of an already decoded member.
-/
import CtyModel.Lemmas.JsonValStrip
namespace CtyModel
namespace JsonVal
open Ty

theorem hasOptL_mem : ∀ {ts : List Ty}, hasOptL ts = false → ∀ t ∈ ts, hasOpt t = false
  | [], _, _, h => by simp at h
  | x :: xs, h, t, ht => by
    simp only [hasOptL, Bool.or_eq_false_iff] at h
    rcases List.mem_cons.mp ht with rfl | ht
    · exact h.1
    · exact hasOptL_mem h.2 t ht

theorem hasOptL_of_mem : ∀ {ts : List Ty}, (∀ t ∈ ts, hasOpt t = false) → hasOptL ts = false
  | [], _ => rfl
  | x :: xs, h => by
    simp [hasOptL, h x (by simp), hasOptL_of_mem (fun t ht => h t (List.mem_cons_of_mem _ ht))]

theorem hasOptL_map_ty {vals : List Value} (h : ∀ x ∈ vals, hasOpt x.ty = false) :
    hasOptL (vals.map (·.ty)) = false :=
  hasOptL_of_mem (by
    intro t ht
    obtain ⟨x, hx, rfl⟩ := List.mem_map.mp ht
    exact h x hx)

theorem find_mem {k : String} : ∀ {ns : List String} {ts : List Ty} {os : List Bool} {a : Ty} {o : Bool},
    Ty.find k ns ts os = some (a, o) → a ∈ ts
  | [], _, _, _, _, h => by simp [Ty.find] at h
  | _ :: _, [], _, _, _, h => by simp [Ty.find] at h
  | _ :: _, _ :: _, [], _, _, h => by simp [Ty.find] at h
  | n :: ns, t :: ts, o :: os, a, o', h => by
    simp only [Ty.find] at h
    split at h
    · simp at h; simp [h.1]
    · exact List.mem_cons_of_mem _ (find_mem h)

theorem unifyElemTy_mem : ∀ (vals : List Value) (acc e : Ty), unifyElemTy vals acc = .ok e →
    e = acc ∨ ∃ v ∈ vals, v.ty = e
  | [], acc, e, h => by simp [unifyElemTy] at h; exact .inl h.symm
  | v :: vs, acc, e, h => by
    simp only [unifyElemTy] at h
    split at h
    · rcases unifyElemTy_mem vs v.ty e h with h' | ⟨x, hx, hxe⟩
      · exact .inr ⟨v, by simp, h'.symm⟩
      · exact .inr ⟨x, List.mem_cons_of_mem _ hx, hxe⟩
    · split at h
      · simp at h
      · rcases unifyElemTy_mem vs acc e h with h' | ⟨x, hx, hxe⟩
        · exact .inl h'
        · exact .inr ⟨x, List.mem_cons_of_mem _ hx, hxe⟩

theorem unify_noOpt {vals : List Value} {e : Ty} (hv : ∀ x ∈ vals, hasOpt x.ty = false)
    (h : unifyElemTy vals .dyn = .ok e) : hasOpt e = false := by
  rcases unifyElemTy_mem vals .dyn e h with rfl | ⟨x, hx, rfl⟩
  · simp [hasOpt]
  · exact hv x hx

theorem lastWins_subset : ∀ (ks : List String) (vals : List Value), ∀ x ∈ (lastWins ks vals).2, x ∈ vals
  | [], _, x, h => by simp [lastWins] at h
  | _ :: _, [], x, h => by simp [lastWins] at h
  | k :: ks, v :: vs, x, h => by
    simp only [lastWins] at h
    split at h
    · exact List.mem_cons_of_mem _ (lastWins_subset ks vs x h)
    · rcases List.mem_cons.mp h with rfl | h
      · simp
      · exact List.mem_cons_of_mem _ (lastWins_subset ks vs x h)

theorem lookupLast_mem {k : String} : ∀ (ks : List String) (vals : List Value) (v : Value),
    lookupLast k ks vals = some v → v ∈ vals
  | [], _, _, h => by simp [lookupLast] at h
  | _ :: _, [], _, h => by simp [lookupLast] at h
  | n :: ns, u :: us, v, h => by
    simp only [lookupLast] at h
    split at h
    · rename_i r hr
      simp at h; subst h
      exact List.mem_cons_of_mem _ (lookupLast_mem ns us _ hr)
    · split at h
      · simp at h; simp [h]
      · simp at h

theorem objectVal_noOpt : ∀ (ns : List String) (ts : List Ty) (ks : List String) (vals : List Value),
    hasOptL ts = false → (∀ x ∈ vals, hasOpt x.ty = false) →
    ∀ x ∈ objectVal ns ts ks vals, hasOpt x.ty = false
  | [], _, _, _, _, _, x, h => by simp [objectVal] at h
  | _ :: _, [], _, _, _, _, x, h => by simp [objectVal] at h
  | n :: ns, t :: ts, ks, vals, ht, hv, x, h => by
    simp only [hasOptL, Bool.or_eq_false_iff] at ht
    simp only [objectVal] at h
    rcases List.mem_cons.mp h with rfl | h
    · split
      · rename_i v hl; exact hv v (lookupLast_mem ks vals v hl)
      · exact ht.1
    · exact objectVal_noOpt ns ts ks vals ht.2 hv x h

theorem prim_noOpt (env : JEnv) (j : Json) (t : Ty) (v : Value) (h : unmarshalPrim env j t = .ok v) :
    hasOpt v.ty = false := by
  unfold unmarshalPrim at h
  cases t <;> cases j <;> simp [Res.map] at h
  all_goals first
    | (subst h; simp [hasOpt])
    | (split at h <;> try split at h) <;> simp at h <;> (try subst h) <;> simp [hasOpt]
    | skip

theorem errOf_ne_ok {α β} (r : Res α) (v : β) : (errOf r : Res β) ≠ .ok v := by
  cases r <;> simp [errOf]

theorem listVal_noOpt {e : Ty} {vals : List Value} {v : Value} (he : hasOpt e = false)
    (hv : ∀ x ∈ vals, hasOpt x.ty = false) (h : listVal e vals = .ok v) : hasOpt v.ty = false := by
  unfold listVal at h
  split at h
  · simp at h; subst h; simpa [hasOpt] using he
  · split at h
    · simp at h
    · cases hu : unifyElemTy vals .dyn <;> simp [hu, Res.map] at h
      subst h
      simpa [hasOpt] using unify_noOpt hv hu

theorem setVal_noOpt (env : JEnv) {e : Ty} {vals : List Value} {v : Value} (he : hasOpt e = false)
    (hv : ∀ x ∈ vals, hasOpt x.ty = false) (h : setVal env e vals = .ok v) : hasOpt v.ty = false := by
  unfold setVal at h
  split at h
  · simp at h; subst h; simpa [hasOpt] using he
  · split at h
    · simp at h
    · cases hu : unifyElemTy vals .dyn <;> simp [hu] at h
      rename_i e'
      cases hs : setFromSlice env e' (vals.map (·.v)) [] [] <;> simp [hs, Res.map] at h
      subst h
      simpa [hasOpt] using unify_noOpt hv hu

theorem mapVal_noOpt (env : JEnv) {e : Ty} {ks : List String} {vals : List Value} {v : Value}
    (he : hasOpt e = false) (hv : ∀ x ∈ vals, hasOpt x.ty = false) (h : mapVal env e ks vals = .ok v) :
    hasOpt v.ty = false := by
  unfold mapVal at h
  simp only at h
  split at h
  · simp at h; subst h; simpa [hasOpt] using he
  · split at h
    · simp at h
    · cases hu : unifyElemTy (lastWins ks vals).2 .dyn <;> simp [hu] at h
      split at h
      · simp at h
      · simp at h
        subst h
        simpa [hasOpt] using unify_noOpt (fun x hx => hv x (lastWins_subset ks vals x hx)) hu

mutual
theorem unmarshal_noOpt (env : JEnv) : ∀ (j : Json) (t : Ty) (v : Value), hasOpt t = false →
    unmarshal env j t = .ok v → hasOpt v.ty = false
  | .null, t, v, ht, h => by simp [unmarshal] at h; subst h; exact ht
  | .bool b, t, v, _, h => by
    cases t <;> first
      | (simp [unmarshal] at h; done)
      | exact prim_noOpt env _ _ v (by simpa [unmarshal] using h)
  | .num b, t, v, _, h => by
    cases t <;> first
      | (simp [unmarshal] at h; done)
      | exact prim_noOpt env _ _ v (by simpa [unmarshal] using h)
  | .str b, t, v, _, h => by
    cases t <;> first
      | (simp [unmarshal] at h; done)
      | exact prim_noOpt env _ _ v (by simpa [unmarshal] using h)
  | .arr xs, t, v, ht, h => by
    cases t with
    | list e =>
      simp only [unmarshal] at h
      split at h
      · rename_i vals hu
        exact listVal_noOpt (by simpa [hasOpt] using ht)
          (unmarshalAll_noOpt env xs e vals (by simpa [hasOpt] using ht) hu) h
      · exact absurd h (errOf_ne_ok _ _)
    | set e =>
      simp only [unmarshal] at h
      split at h
      · rename_i vals hu
        exact setVal_noOpt env (by simpa [hasOpt] using ht)
          (unmarshalAll_noOpt env xs e vals (by simpa [hasOpt] using ht) hu) h
      · exact absurd h (errOf_ne_ok _ _)
    | tuple es =>
      simp only [unmarshal] at h
      split at h
      · rename_i vals hu
        split at h
        · simp at h
        · simp at h; subst h
          simpa [tupleVal, hasOpt] using
            hasOptL_map_ty (unmarshalZip_noOpt env xs es vals (by simpa [hasOpt] using ht) hu)
      · exact absurd h (errOf_ne_ok _ _)
    | _ => first
      | (simp [unmarshal] at h; done)
      | exact prim_noOpt env _ _ v (by simpa [unmarshal] using h)
  | .obj ks vs, t, v, ht, h => by
    cases t with
    | dyn =>
      simp only [unmarshal] at h
      split at h
      · simp at h
      · simp at h
      · split at h
        · rename_i r hr
          exact dynValue_noOpt env ks vs _ r v hr h
        · simp at h
      · exact absurd h (errOf_ne_ok _ _)
    | map e =>
      simp only [unmarshal] at h
      split at h
      · rename_i vals hu
        exact mapVal_noOpt env (by simpa [hasOpt] using ht)
          (unmarshalAll_noOpt env vs e vals (by simpa [hasOpt] using ht) hu) h
      · exact absurd h (errOf_ne_ok _ _)
    | object ns ts os =>
      simp only [unmarshal] at h
      split at h
      · rename_i vals hu
        simp only [hasOpt, Bool.or_eq_false_iff] at ht
        simp at h; subst h
        simp only [hasOpt, Bool.or_eq_false_iff]
        exact ⟨hasOpt_map_false ns, hasOptL_map_ty
          (objectVal_noOpt ns ts _ vals ht.2 (unmarshalAttrs_noOpt env ks vs ns ts os vals ht.2 hu))⟩
      · exact absurd h (errOf_ne_ok _ _)
    | _ => first
      | (simp [unmarshal] at h; done)
      | exact prim_noOpt env _ _ v (by simpa [unmarshal] using h)
theorem unmarshalAll_noOpt (env : JEnv) : ∀ (js : List Json) (e : Ty) (vals : List Value), hasOpt e = false →
    unmarshalAll env js e = .ok vals → ∀ x ∈ vals, hasOpt x.ty = false
  | [], _, vals, _, h => by simp [unmarshalAll] at h; subst h; simp
  | j :: js, e, vals, he, h => by
    simp only [unmarshalAll] at h
    split at h
    · rename_i v hv
      split at h
      · rename_i vs hvs
        simp at h; subst h
        intro x hx
        rcases List.mem_cons.mp hx with rfl | hx
        · exact unmarshal_noOpt env j e _ he hv
        · exact unmarshalAll_noOpt env js e vs he hvs x hx
      · rename_i r hr; rw [h] at hr; exact absurd rfl (hr _)
    · exact absurd h (errOf_ne_ok _ _)
theorem unmarshalZip_noOpt (env : JEnv) : ∀ (js : List Json) (es : List Ty) (vals : List Value), hasOptL es = false →
    unmarshalZip env js es = .ok vals → ∀ x ∈ vals, hasOpt x.ty = false
  | [], _, vals, _, h => by simp [unmarshalZip] at h; subst h; simp
  | _ :: _, [], vals, _, h => by simp [unmarshalZip] at h
  | j :: js, e :: es, vals, he, h => by
    simp only [hasOptL, Bool.or_eq_false_iff] at he
    simp only [unmarshalZip] at h
    split at h
    · rename_i v hv
      split at h
      · rename_i vs hvs
        simp at h; subst h
        intro x hx
        rcases List.mem_cons.mp hx with rfl | hx
        · exact unmarshal_noOpt env j e _ he.1 hv
        · exact unmarshalZip_noOpt env js es vs he.2 hvs x hx
      · rename_i r hr; rw [h] at hr; exact absurd rfl (hr _)
    · exact absurd h (errOf_ne_ok _ _)
theorem unmarshalAttrs_noOpt (env : JEnv) : ∀ (ks : List String) (js : List Json) (ns : List String) (ts : List Ty)
    (os : List Bool) (vals : List Value), hasOptL ts = false →
    unmarshalAttrs env ks js ns ts os = .ok vals → ∀ x ∈ vals, hasOpt x.ty = false
  | [], _, _, _, _, vals, _, h => by simp [unmarshalAttrs] at h; subst h; simp
  | _ :: _, [], _, _, _, vals, _, h => by simp [unmarshalAttrs] at h; subst h; simp
  | k :: ks, j :: js, ns, ts, os, vals, ht, h => by
    simp only [unmarshalAttrs] at h
    split at h
    · simp at h
    · rename_i aty o hf
      split at h
      · rename_i v hv
        split at h
        · rename_i vs hvs
          simp at h; subst h
          intro x hx
          rcases List.mem_cons.mp hx with rfl | hx
          · exact unmarshal_noOpt env j aty _ (hasOptL_mem ht aty (find_mem hf)) hv
          · exact unmarshalAttrs_noOpt env ks js ns ts os vs ht hvs x hx
        · rename_i r hr; rw [h] at hr; exact absurd rfl (hr _)
      · exact absurd h (errOf_ne_ok _ _)
theorem dynValue_noOpt (env : JEnv) : ∀ (ks : List String) (js : List Json) (t : Ty) (r : Res Value) (v : Value),
    dynValue env ks js t = some r → r = .ok v → hasOpt v.ty = false
  | [], _, _, _, _, h, _ => by simp [dynValue] at h
  | _ :: _, [], _, _, _, h, _ => by simp [dynValue] at h
  | k :: ks, j :: js, t, r, v, h, hr => by
    simp only [dynValue] at h
    split at h
    · rename_i r' hr'
      simp at h; subst h
      exact dynValue_noOpt env ks js t _ v hr' hr
    · split at h
      · simp at h; subst h
        exact unmarshal_noOpt env j t.stripOpt v (stripOpt_noOpt t) hr
      · simp at h
end

/-- `Unmarshal` never returns a value whose type carries an optional-attribute annotation -/
theorem unmarshalTop_noOpt (env : JEnv) (j : Json) (t : Ty) (v : Value)
    (h : unmarshalTop env j t = .ok v) : hasOpt v.ty = false :=
  unmarshal_noOpt env j t.stripOpt v (stripOpt_noOpt t) h

end JsonVal
end CtyModel
