/-
`UnmarkDeepWithPaths` then `MarkWithPaths`: the unmark transformer returns the
stripped value and records one entry per marked position; the remark
transformer puts each recorded mark set back at its position.
-/
import CtyModel.Lemmas.WalkStrip
import CtyModel.Lemmas.WalkPathSet
namespace CtyModel
namespace Walk
open Value

/-! ### the unmark transform -/

theorem kids_unmark {X : SetOracle} (v : Value) (hs : shapedV v = true) : kids X v.unmark = kids X v := by
  have hmu := shaped_unmark1_notMarked hs
  have hidem := unmark1_idem hmu
  have h1 : v.unmark.isNull = v.isNull := by
    simp only [Value.isNull, Payload.isNull, Value.unmark, hidem]
  have h2 : v.unmark.isKnown = v.isKnown := by
    simp only [Value.isKnown, Payload.isKnown, Value.unmark, hidem]
  have h3 : v.unmark.unmark = v.unmark := by
    simp only [Value.unmark, hidem]
  simp only [kids, h1, h2, h3]

theorem ordKids_unmark {X : SetOracle} (σ : Sched) (path : Path) (v : Value) (hs : shapedV v = true) :
    ordKids X σ path v.unmark = ordKids X σ path v := by
  simp only [ordKids, kids_unmark v hs]
  rfl

/-- the `Enter` / `Exit` calls of the unmark transform -/
def unEvs (X : SetOracle) (σ : Sched) : Nat → Path → Value → List Ev
  | 0, _, _ => []
  | f + 1, path, v =>
    .enter path v :: (idEvKids (unEvs X σ f) path (ordKids X σ path v) ++ [.exit path (strip v)])

theorem mapEvKids_eq (rec : Path → Value → List Ev) (path : Path) :
    ∀ (l : List (PathStep × Value)),
      mapEvKids (fun c => rec (path ++ [c.1]) c.2) l = idEvKids rec path l
  | [] => rfl
  | (s, c) :: rest => by simp [mapEvKids, idEvKids, mapEvKids_eq rec path rest]

theorem set_kid_strip {X : SetOracle} (hX : IterPerm X) (v : Value) (hs : shapedV v = true) (e : Ty)
    (hty : v.ty = .set e) (c : PathStep × Value) (hc : c ∈ kids X v) : strip c.2 = c.2 := by
  simp only [kids] at hc
  split at hc
  · cases hc
  · have hsu : shaped v.ty v.v.unmark1 = true := shaped_unmark1 hs
    obtain ⟨t, p⟩ := v
    simp only at hty
    subst hty
    simp only [Value.unmark] at hc hsu
    cases hp : p.unmark1 <;> simp only [hp, children, List.not_mem_nil] at hc
    rename_i ids vs
    rw [hp] at hsu
    simp only [shaped, Bool.and_eq_true, Bool.not_eq_true'] at hsu
    have hm := setKids_mem e _ c hc
    have hfree := containsMarkedL_mem hsu.1.2 _ ((hX _ _ _).mem_iff.mp hm)
    obtain ⟨s, ⟨ct, cp⟩⟩ := c
    simp only [strip, Value.unmarkDeep, stripMarks_id cp hfree]

/-- **the unmark transform returns the stripped value** -/
theorem transformFuel_unmark {X : SetOracle} (hX : IterPerm X) {σ : Sched} (hσ : SchedOk σ) :
    ∀ (f : Nat) (v : Value), v.v.depth < f → Good X v → ∀ (log : List Ev) (path : Path),
      transformFuel X σ unmarkT f log path v = (log ++ unEvs X σ f path v, .ok (strip v))
  | 0, _, h, _ => by omega
  | f + 1, v, hd, hg => by
    intro log path
    have hku := kids_unmark (X := X) v hg.shaped
    have ih : ∀ c ∈ kids X v.unmark, ∀ log,
        transformFuel X σ unmarkT f log (path ++ [c.1]) c.2 =
          (log ++ (fun c : PathStep × Value => unEvs X σ f (path ++ [c.1]) c.2) c,
            .ok ((fun c : PathStep × Value => strip c.2) c)) := by
      intro c hc log
      rw [hku] at hc
      exact transformFuel_unmark hX hσ f c.2 (by have := kids_depth_lt hX v c hc; omega)
        (kids_good hX v hg c hc) log _
    have hen : ∀ l, unmarkT.enter l path v = .ok v.unmark := fun _ => rfl
    have hex : ∀ l w, unmarkT.exit l path w = .ok w := fun _ _ => rfl
    simp only [transformFuel, hen, unEvs]
    rw [rebuild_map hX hσ _ (fun c : PathStep × Value => unEvs X σ f (path ++ [c.1]) c.2)
      (fun c : PathStep × Value => strip c.2) v.unmark hg.unmark path (fun c _ => rfl)
      (fun e he c hc => by
        rw [hku] at hc
        exact set_kid_strip hX v hg.shaped e he c hc) ih]
    simp only [hex, hku, withKids_unmark_strip v hg.shaped, mapEvKids_eq,
      ordKids_unmark σ path v hg.shaped]
    simp [List.append_assoc]

/-! ### what the unmark transformer records -/

theorem pvmOf_append (a b : List Ev) : pvmOf (a ++ b) = pvmOf a ++ pvmOf b := by
  simp [pvmOf, List.filterMap_append]

theorem mem_pvmOf_idEvKids (rec : Path → Value → List Ev) (path : Path) (e : PVM) :
    ∀ (l : List (PathStep × Value)), e ∈ pvmOf (idEvKids rec path l) ↔
      ∃ c ∈ l, e ∈ pvmOf (rec (path ++ [c.1]) c.2)
  | [] => by simp [idEvKids, pvmOf]
  | (s, c) :: rest => by
    simp only [idEvKids, pvmOf_append, List.mem_append, mem_pvmOf_idEvKids rec path e rest,
      List.mem_cons, exists_eq_or_imp]

/-- an entry is recorded exactly for each marked position: its path and its marks -/
theorem mem_pvmOf_unEvs {X : SetOracle} (hX : IterPerm X) {σ : Sched} (hσ : SchedOk σ) :
    ∀ (f : Nat) (v : Value), v.v.depth < f → shapedV v = true → ∀ (path : Path) (q : Path)
      (ms : List String),
      (q, ms) ∈ pvmOf (unEvs X σ f path v) ↔
        ∃ r n q', nodeAt X v r = some n ∧ pathAt X v r = some q' ∧ q = path ++ q' ∧
          ms = n.marks ∧ n.marks ≠ []
  | 0, _, h, _ => by omega
  | f + 1, v, hd, hs => by
    intro path q ms
    have hperm := ordKids_perm (X := X) hσ path v hs
    have hown : pvmOf [Ev.enter path v] =
        if v.marks.isEmpty then [] else [(path, v.marks)] := by
      simp only [pvmOf, List.filterMap_cons, List.filterMap_nil]
      split <;> simp_all
    have hexit : pvmOf [Ev.exit path (strip v)] = [] := rfl
    have hsplit : unEvs X σ (f + 1) path v = [Ev.enter path v] ++
        (idEvKids (unEvs X σ f) path (ordKids X σ path v) ++ [Ev.exit path (strip v)]) := rfl
    rw [hsplit, pvmOf_append, pvmOf_append, hown, hexit, List.append_nil, List.mem_append,
      mem_pvmOf_idEvKids]
    constructor
    · rintro (h | ⟨c, hc, hin⟩)
      · split at h
        · cases h
        · rename_i hne
          simp only [List.mem_singleton, Prod.mk.injEq] at h
          refine ⟨[], v, [], rfl, rfl, by simp [h.1], h.2, ?_⟩
          intro h0; rw [h0] at hne; simp at hne
      · have hck : c ∈ kids X v := hperm.mem_iff.mp hc
        obtain ⟨i, hi⟩ := List.getElem?_of_mem hck
        obtain ⟨r, n, q', h1, h2, h3, h4, h5⟩ :=
          (mem_pvmOf_unEvs hX hσ f c.2 (by have := kids_depth_lt hX v c hck; omega)
            (kids_shaped hX v hs c hck) _ q ms).mp hin
        refine ⟨i :: r, n, c.1 :: q', ?_, ?_, by simp [h3, List.append_assoc], h4, h5⟩
        · rw [nodeAt_cons hi]; exact h1
        · rw [pathAt_cons hi, h2]; rfl
    · rintro ⟨r, n, q', h1, h2, h3, h4, h5⟩
      cases r with
      | nil =>
        simp only [nodeAt, pathAt, Option.some.injEq] at h1 h2
        subst h1 h2
        left
        have : v.marks.isEmpty = false := by
          cases hm : v.marks with
          | nil => exact absurd hm h5
          | cons _ _ => rfl
        simp [this, h3, h4]
      | cons i r =>
        cases hi : (kids X v)[i]? with
        | none => simp [nodeAt, hi] at h1
        | some c =>
          rw [nodeAt_cons hi] at h1
          rw [pathAt_cons hi] at h2
          cases hq : pathAt X c.2 r with
          | none => simp [hq] at h2
          | some q'' =>
            simp only [hq, Option.map_some, Option.some.injEq] at h2
            have hck : c ∈ kids X v := List.mem_of_getElem? hi
            right
            refine ⟨c, hperm.mem_iff.mpr hck, ?_⟩
            refine (mem_pvmOf_unEvs hX hσ f c.2 (by have := kids_depth_lt hX v c hck; omega)
              (kids_shaped hX v hs c hck) _ q ms).mpr ⟨r, n, q'', h1, hq, ?_, h4, h5⟩
            rw [h3, ← h2]
            simp [List.append_assoc]

/-! ### `Path.Equals` on the paths of positions -/

theorem rawEquals_num (X : SetOracle) (x y : Num) :
    Value.rawEquals X ⟨.number, .n x⟩ ⟨.number, .n y⟩ = .ok (Num.rawEqual x y) := by
  cases h : Num.rawEqual x y <;>
    simp [Value.rawEquals, Value.rawEqualsP, Value.rawEqualsFuel, Ty.equals,
      Payload.isMarked, Payload.marks1, Payload.unmark1, Value.equalsP, Value.equalsFuel,
      Value.equalsPre, Value.isNull, Payload.isNull, Value.isKnown, Payload.isKnown,
      Value.definitelyNotNull, Value.hasWhollyKnownType, Res.map, Value.boolVal, Value.isTrue, h,
      pure]

theorem rawEquals_str (X : SetOracle) (a b : String) :
    Value.rawEquals X (strVal a) (strVal b) = .ok (a == b) := by
  by_cases h : a = b <;>
    simp [Value.rawEquals, Value.rawEqualsP, Value.rawEqualsFuel, Ty.equals,
      Payload.isMarked, Payload.marks1, Payload.unmark1, Value.equalsP, Value.equalsFuel,
      Value.equalsPre, Value.isNull, Payload.isNull, Value.isKnown, Payload.isKnown,
      Value.definitelyNotNull, Value.hasWhollyKnownType, Res.map, Value.boolVal, Value.isTrue, h,
      pure, strVal]

theorem toInt_ofInt (i : Nat) (hi : (i : Int) ≤ maxInt) :
    (Num.ofInt (i : Int) 64).toInt? = some (i : Int) := by
  have h := keyIndex_intVal i hi
  simp only [keyIndex, intVal, numVal] at h
  cases ht : (Num.ofInt (i : Int) 64).toInt? with
  | none => simp [ht] at h
  | some i' =>
    simp only [ht, Res.ok.injEq] at h
    split at h
    · cases h
    · rename_i hc
      simp only [Option.some.injEq] at h
      simp only [Bool.or_eq_true, decide_eq_true_eq, not_or, Int.not_lt] at hc
      congr 1
      omega

theorem rawEqual_ofInt (i j : Nat) (hi : (i : Int) ≤ maxInt) (hj : (j : Int) ≤ maxInt) :
    Num.rawEqual (Num.ofInt (i : Int) 64) (Num.ofInt (j : Int) 64) = decide (i = j) := by
  by_cases hij : i = j
  · subst hij; simp [Num.rawEqual_refl]
  · have h1 := toInt_ofInt i hi
    have h2 := toInt_ofInt j hj
    simp only [Num.toInt?] at h1 h2
    have a1 : (Num.ofInt (i : Int) 64).isInt = true := by
      cases h : (Num.ofInt (i : Int) 64).isInt <;> simp_all
    have a2 : (Num.ofInt (j : Int) 64).isInt = true := by
      cases h : (Num.ofInt (j : Int) 64).isInt <;> simp_all
    simp only [a1, a2, if_true] at h1 h2
    simp only [hij, decide_false]
    cases hr : Num.rawEqual (Num.ofInt (i : Int) 64) (Num.ofInt (j : Int) 64) with
    | false => rfl
    | true =>
      exfalso
      have := (Num.rawEqual_iff _ _).mp hr
      rw [a1] at this
      simp only [if_true, h1, h2, Option.some.injEq] at this
      exact hij (by exact_mod_cast this.2.2)

theorem rawEquals_intVal (X : SetOracle) (i j : Nat) (hi : (i : Int) ≤ maxInt) (hj : (j : Int) ≤ maxInt) :
    Value.rawEquals X (intVal (i : Int)) (intVal (j : Int)) = .ok (decide (i = j)) := by
  simp only [intVal, numVal, rawEquals_num, rawEqual_ofInt i j hi hj]

theorem nodup_getElem?_inj {α : Type} : ∀ {l : List α}, l.Nodup → ∀ {i j : Nat} {a : α},
    l[i]? = some a → l[j]? = some a → i = j
  | [], _, _, _, _, h, _ => by simp at h
  | x :: l, hnd, 0, 0, _, _, _ => rfl
  | x :: l, hnd, 0, j + 1, a, hi, hj => by
    simp only [List.getElem?_cons_zero, Option.some.injEq, List.getElem?_cons_succ] at hi hj
    subst hi
    exact absurd (List.mem_of_getElem? hj) (List.nodup_cons.mp hnd).1
  | x :: l, hnd, i + 1, 0, a, hi, hj => by
    simp only [List.getElem?_cons_zero, Option.some.injEq, List.getElem?_cons_succ] at hi hj
    subst hj
    exact absurd (List.mem_of_getElem? hi) (List.nodup_cons.mp hnd).1
  | x :: l, hnd, i + 1, j + 1, a, hi, hj => by
    simp only [List.getElem?_cons_succ] at hi hj
    rw [nodup_getElem?_inj (List.nodup_cons.mp hnd).2 hi hj]

/-- comparing the first steps of two members of one container (not a set): the
comparison passes exactly when they are the same member -/
theorem equals_head {X : SetOracle} (v : Value) (hs : shapedV v = true) (hset : notSet v.ty = true)
    (i j : Nat) (ci cj : PathStep × Value) (hi : (kids X v)[i]? = some ci)
    (hj : (kids X v)[j]? = some cj) (p q : Path) :
    Path.equals X (ci.1 :: p) (cj.1 :: q) = if i = j then Path.equals X p q else .ok false := by
  obtain ⟨hnull, hknown, hk⟩ := kids_eq_children hi
  rw [hk] at hi hj
  have hraw := raw_of_flags hnull hknown
  have hsu : shaped v.ty v.v.unmark1 = true := shaped_unmark1 hs
  have hmu := shaped_unmark1_notMarked hs
  obtain ⟨t, pl⟩ := v
  simp only [Value.unmark] at hi hj hraw hsu hmu
  cases t with
  | set e => simp [notSet] at hset
  | list e =>
    obtain ⟨vs, hv⟩ := shaped_known_cases hsu hmu hraw.1 hraw.2
    have hsh := hsu
    rw [hv] at hsh
    simp only [shaped, Bool.and_eq_true, decide_eq_true_eq] at hsh
    simp only [hv, children] at hi hj
    obtain ⟨pi, hpi, rfl⟩ := seqKids_get e vs 0 i ci hi
    obtain ⟨pj, hpj, rfl⟩ := seqKids_get e vs 0 j cj hj
    have hil : i < vs.length := (List.getElem?_eq_some_iff.mp hpi).1
    have hjl : j < vs.length := (List.getElem?_eq_some_iff.mp hpj).1
    simp only [Path.equals, Nat.zero_add,
      rawEquals_intVal X i j (by omega) (by omega)]
    by_cases hij : i = j <;> simp [hij]
  | tuple ts =>
    obtain ⟨vs, hv, hlen⟩ := shaped_known_cases hsu hmu hraw.1 hraw.2
    have hsh := hsu
    rw [hv] at hsh
    simp only [shaped, Bool.and_eq_true, decide_eq_true_eq, beq_iff_eq] at hsh
    simp only [hv, children] at hi hj
    obtain ⟨ti, pi, _, hpi, rfl⟩ := tupKids_get ts vs 0 i ci hi
    obtain ⟨tj, pj, _, hpj, rfl⟩ := tupKids_get ts vs 0 j cj hj
    have hil : i < vs.length := (List.getElem?_eq_some_iff.mp hpi).1
    have hjl : j < vs.length := (List.getElem?_eq_some_iff.mp hpj).1
    have hb := hsh.1.2
    simp only [Path.equals, Nat.zero_add,
      rawEquals_intVal X i j (by omega) (by omega)]
    by_cases hij : i = j <;> simp [hij]
  | map e =>
    obtain ⟨ks, vs, hv⟩ := shaped_known_cases hsu hmu hraw.1 hraw.2
    have hsh := hsu
    rw [hv] at hsh
    simp only [shaped, Bool.and_eq_true, decide_eq_true_eq, beq_iff_eq] at hsh
    simp only [hv, children] at hi hj
    obtain ⟨ki, pi, hki, _, rfl⟩ := mapKids_get e ks vs i ci hi
    obtain ⟨kj, pj, hkj, _, rfl⟩ := mapKids_get e ks vs j cj hj
    simp only [Path.equals, rawEquals_str]
    by_cases hij : i = j
    · subst hij
      rw [hki] at hkj
      simp only [Option.some.injEq] at hkj
      simp [hkj]
    · have hne : ki ≠ kj := by
        intro h; subst h
        exact hij (nodup_getElem?_inj hsh.1.2 hki hkj)
      simp [hij, hne]
  | object ns ts os =>
    obtain ⟨vs, hv, _, _⟩ := shaped_known_cases hsu hmu hraw.1 hraw.2
    have hsh := hsu
    rw [hv] at hsh
    simp only [shaped, Bool.and_eq_true, decide_eq_true_eq, beq_iff_eq] at hsh
    simp only [hv, children] at hi hj
    obtain ⟨ni, _, _, hni, _, _, rfl⟩ := objKids_get ns ts vs i ci hi
    obtain ⟨nj, _, _, hnj, _, _, rfl⟩ := objKids_get ns ts vs j cj hj
    simp only [Path.equals]
    by_cases hij : i = j
    · subst hij
      rw [hni] at hnj
      simp only [Option.some.injEq] at hnj
      simp [hnj]
    · have hne : ni ≠ nj := by
        intro h; subst h
        exact hij (nodup_getElem?_inj hsh.1.2 hni hnj)
      simp [hij, hne]
  | _ => simp [children] at hi

/-- **`Path.Equals` decides whether two paths lead to the same position**, when
the second does not go through a set -/
theorem equals_pathAt {X : SetOracle} (hX : IterPerm X) : ∀ (r' r : Pos) (v : Value) (q q' : Path),
    shapedV v = true → pathAt X v r = some q → pathAt X v r' = some q' → noSetAt X v r' = true →
    Path.equals X q q' = .ok (decide (r = r'))
  | [], r, v, q, q', _, hq, hq', _ => by
    simp only [pathAt, Option.some.injEq] at hq'
    subst hq'
    cases r with
    | nil =>
      simp only [pathAt, Option.some.injEq] at hq
      subst hq
      rfl
    | cons i r =>
      cases hi : (kids X v)[i]? with
      | none => simp [pathAt, hi] at hq
      | some ci =>
        rw [pathAt_cons hi] at hq
        cases hq1 : pathAt X ci.2 r with
        | none => simp [hq1] at hq
        | some q1 =>
          simp only [hq1, Option.map_some, Option.some.injEq] at hq
          subst hq
          cases ci.1 <;> simp [Path.equals]
  | j :: r', r, v, q, q', hs, hq, hq', hns => by
    simp only [noSetAt, Bool.and_eq_true] at hns
    cases hj : (kids X v)[j]? with
    | none => simp [pathAt, hj] at hq'
    | some cj =>
      rw [pathAt_cons hj] at hq'
      simp only [hj] at hns
      cases hq1' : pathAt X cj.2 r' with
      | none => simp [hq1'] at hq'
      | some q1' =>
        simp only [hq1', Option.map_some, Option.some.injEq] at hq'
        subst hq'
        cases r with
        | nil =>
          simp only [pathAt, Option.some.injEq] at hq
          subst hq
          cases cj.1 <;> simp [Path.equals]
        | cons i r =>
          cases hi : (kids X v)[i]? with
          | none => simp [pathAt, hi] at hq
          | some ci =>
            rw [pathAt_cons hi] at hq
            cases hq1 : pathAt X ci.2 r with
            | none => simp [hq1] at hq
            | some q1 =>
              simp only [hq1, Option.map_some, Option.some.injEq] at hq
              subst hq
              rw [equals_head v hs hns.1 i j ci cj hi hj]
              by_cases hij : i = j
              · subst hij
                rw [hi] at hj
                simp only [Option.some.injEq] at hj
                subst hj
                simp only [if_true]
                rw [equals_pathAt hX r' r ci.2 q1 q1'
                  (kids_shaped hX v hs ci (List.mem_of_getElem? hi)) hq1 hq1' hns.2]
                simp
              · simp [hij]

/-! ### marked positions are not inside sets -/

theorem containsMarked_unmark1_members {p : Payload} (h : p.containsMarked = false) :
    Payload.containsMarkedL (members p.unmark1) = false := by
  cases p <;> simp_all [Payload.containsMarked, Payload.unmark1, members, Payload.containsMarkedL]

theorem marks_nil_below {X : SetOracle} (hX : IterPerm X) : ∀ (r : Pos) (v n : Value),
    v.v.containsMarked = false → nodeAt X v r = some n → n.marks = []
  | [], v, n, h, hn => by
    simp only [nodeAt, Option.some.injEq] at hn
    subst hn
    obtain ⟨t, p⟩ := v
    cases p <;> simp_all [Payload.containsMarked, Value.marks, Payload.marks1]
  | i :: r, v, n, h, hn => by
    cases hi : (kids X v)[i]? with
    | none => simp [nodeAt, hi] at hn
    | some c =>
      rw [nodeAt_cons hi] at hn
      have hc : c ∈ kids X v := List.mem_of_getElem? hi
      simp only [kids] at hc
      split at hc
      · cases hc
      · have hm := children_mem hX _ _ hc
        simp only [Value.unmark] at hm
        exact marks_nil_below hX r c.2 n
          (containsMarkedL_mem (containsMarked_unmark1_members h) _ hm) hn

theorem noSet_of_marked {X : SetOracle} (hX : IterPerm X) : ∀ (r : Pos) (v n : Value),
    shapedV v = true → nodeAt X v r = some n → n.marks ≠ [] → noSetAt X v r = true
  | [], _, _, _, _, _ => rfl
  | i :: r, v, n, hs, hn, hm => by
    cases hi : (kids X v)[i]? with
    | none => simp [nodeAt, hi] at hn
    | some c =>
      rw [nodeAt_cons hi] at hn
      have hck : c ∈ kids X v := List.mem_of_getElem? hi
      simp only [noSetAt, hi, Bool.and_eq_true]
      refine ⟨?_, noSet_of_marked hX r c.2 n (kids_shaped hX v hs c hck) hn hm⟩
      -- a set's members are mark-free all the way down
      cases hty : v.ty <;> try rfl
      rename_i e
      exfalso
      apply hm
      have hsk := set_kid_strip hX v hs e hty c hck
      have hfree : c.2.v.containsMarked = false := by
        have := stripMarks_not_containsMarked c.2.v
        have h2 : (strip c.2).v = c.2.v := by rw [hsk]
        simp only [strip, Value.unmarkDeep] at h2
        rw [h2] at this
        exact this
      exact marks_nil_below hX r c.2 n hfree hn

/-! ### the recorded list answers for every position -/

/-- the marks recorded for a node: none if it has none -/
def marksOpt (n : Value) : Option (List String) := if n.marks = [] then none else some n.marks

/-- every entry is the path and the marks of a marked position -/
def PosEntries (X : SetOracle) (v : Value) (L : List PVM) : Prop :=
  ∀ e ∈ L, ∃ r' n', nodeAt X v r' = some n' ∧ pathAt X v r' = some e.1 ∧ e.2 = n'.marks ∧ n'.marks ≠ []

theorem pathAt_isSome_of_nodeAt {X : SetOracle} : ∀ (r : Pos) (v n : Value), nodeAt X v r = some n →
    ∃ q, pathAt X v r = some q
  | [], _, _, _ => ⟨[], rfl⟩
  | i :: r, v, n, hn => by
    cases hi : (kids X v)[i]? with
    | none => simp [nodeAt, hi] at hn
    | some c =>
      rw [nodeAt_cons hi] at hn
      obtain ⟨q, hq⟩ := pathAt_isSome_of_nodeAt r c.2 n hn
      exact ⟨c.1 :: q, by rw [pathAt_cons hi, hq]; rfl⟩

theorem findPVM_posEntries {X : SetOracle} (hX : IterPerm X) (v : Value) (hs : shapedV v = true)
    (r : Pos) (n : Value) (q : Path) (hn : nodeAt X v r = some n) (hq : pathAt X v r = some q) :
    ∀ (L : List PVM), PosEntries X v L →
      (findPVM X q L = .ok (some n.marks) ∧ ∃ e ∈ L, e.1 = q) ∨
      (findPVM X q L = .ok none ∧ ∀ e ∈ L, e.1 ≠ q)
  | [], _ => Or.inr ⟨rfl, fun _ h => by cases h⟩
  | e :: L, hL => by
    obtain ⟨r', n', hn', hq', hm', hne'⟩ := hL e (by simp)
    have hns := noSet_of_marked hX r' v n' hs hn' hne'
    have heq := equals_pathAt hX r' r v q e.1 hs hq hq' hns
    obtain ⟨qe, ms⟩ := e
    simp only at hq' hm' heq
    simp only [findPVM, heq]
    by_cases hrr : r = r'
    · subst hrr
      rw [hn] at hn'
      simp only [Option.some.injEq] at hn'
      subst hn'
      rw [hq] at hq'
      simp only [Option.some.injEq] at hq'
      left
      simp only [decide_true, hm']
      exact ⟨trivial, ⟨(qe, n.marks), List.mem_cons_self, hq'.symm⟩⟩
    · simp only [hrr, decide_false]
      have hne : qe ≠ q := by
        intro h
        subst h
        have h2 := equals_pathAt hX r' r' v qe qe hs hq' hq' hns
        rw [heq] at h2
        simp [hrr] at h2
      rcases findPVM_posEntries hX v hs r n q hn hq L (fun x hx => hL x (List.mem_cons_of_mem _ hx)) with
        ⟨h1, x, hx, hxq⟩ | ⟨h1, h2⟩
      · exact Or.inl ⟨h1, x, List.mem_cons_of_mem _ hx, hxq⟩
      · refine Or.inr ⟨h1, fun x hx => ?_⟩
        rcases List.mem_cons.mp hx with rfl | hx
        · exact hne
        · exact h2 x hx

/-- **the list recorded by the unmark transform answers, for every position of the
value, with that position's marks** -/
theorem adequate_unmark {X : SetOracle} (hX : IterPerm X) {σ : Sched} (hσ : SchedOk σ) (v : Value)
    (hs : shapedV v = true) (r : Pos) (n : Value) (q : Path) (hn : nodeAt X v r = some n)
    (hq : pathAt X v r = some q) :
    findPVM X q (pvmOf (unEvs X σ (v.v.depth + 1) [] v)) = .ok (marksOpt n) := by
  have hmem := mem_pvmOf_unEvs hX hσ (v.v.depth + 1) v (by omega) hs []
  have hL : PosEntries X v (pvmOf (unEvs X σ (v.v.depth + 1) [] v)) := by
    intro e he
    obtain ⟨r', n', q', h1, h2, h3, h4, h5⟩ := (hmem e.1 e.2).mp he
    simp only [List.nil_append] at h3
    exact ⟨r', n', h1, by rw [h3]; exact h2, h4, h5⟩
  rcases findPVM_posEntries hX v hs r n q hn hq _ hL with ⟨h1, e, he, heq⟩ | ⟨h1, h2⟩
  · -- an entry with this path exists: it is this position's, so the node is marked
    obtain ⟨r', n', q', g1, g2, g3, g4, g5⟩ := (hmem e.1 e.2).mp he
    simp only [List.nil_append] at g3
    have hns := noSet_of_marked hX r' v n' hs g1 g5
    have h2 := equals_pathAt hX r' r v q q' hs hq g2 hns
    have h3 := equals_pathAt hX r' r' v q' q' hs g2 g2 hns
    rw [← g3, heq] at h3
    rw [← g3, heq, h3] at h2
    simp only [Res.ok.injEq, decide_true] at h2
    have hrr : r = r' := by
      by_cases h : r = r'
      · exact h
      · simp [h] at h2
    subst hrr
    rw [hn] at g1
    simp only [Option.some.injEq] at g1
    subst g1
    simp only [h1, marksOpt, g5, if_false]
  · -- no entry has this path: the node carries no mark
    have : n.marks = [] := by
      apply Classical.byContradiction
      intro hne
      have := (hmem q n.marks).mpr ⟨r, n, q, hn, hq, by simp, rfl, hne⟩
      exact h2 _ this rfl
    simp only [h1, marksOpt, this, if_true]

/-! ### the remark transform -/

/-- a member is determined by its step -/
theorem kid_of_step {X : SetOracle} (_hX : IterPerm X) (v : Value) (hs : shapedV v = true)
    (c c0 : PathStep × Value) (hc : c ∈ kids X v) (hc0 : c0 ∈ kids X v) (h : c.1 = c0.1) : c = c0 := by
  by_cases hset : notSet v.ty = true
  · obtain ⟨i, hi⟩ := List.getElem?_of_mem hc
    obtain ⟨j, hj⟩ := List.getElem?_of_mem hc0
    have h1 := equals_head v hs hset i j c c0 hi hj [] []
    have h2 := equals_head v hs hset i i c c hi hi [] []
    rw [← h] at h1
    rw [h2] at h1
    simp only [if_true, Path.equals] at h1
    by_cases hij : i = j
    · subst hij; rw [hi] at hj; exact Option.some.inj hj
    · simp [hij] at h1
  · -- a set: the step is the member
    obtain ⟨i, hi⟩ := List.getElem?_of_mem hc
    have hk := (kids_eq_children hi).2.2
    rw [hk] at hc hc0
    clear hk hi
    obtain ⟨t, p⟩ := v
    cases t <;> (try (simp [notSet] at hset; done))
    rename_i e
    simp only [Value.unmark] at hc hc0
    cases hp : p.unmark1 <;> simp only [hp, children, List.not_mem_nil] at hc hc0
    have key : ∀ (ms : List Payload) (c : PathStep × Value), c ∈ setKids e ms →
        c.1 = .index c.2 := by
      intro ms
      induction ms with
      | nil => intro c h; simp [setKids] at h
      | cons m ms ih =>
        intro c h
        simp only [setKids, List.mem_cons] at h
        rcases h with rfl | h
        · rfl
        · exact ih c h
    have k1 := key _ c hc
    have k2 := key _ c0 hc0
    rw [k1, k2] at h
    simp only [PathStep.index.injEq] at h
    obtain ⟨s, w⟩ := c
    obtain ⟨s0, w0⟩ := c0
    simp only at k1 k2 h
    subst k1 k2 h
    rfl

open Classical in
/-- **the remark transform restores the marks**: run on the stripped value with a
list that answers, for every position below, with that position's marks, it
returns the value -/
theorem transformFuel_remark {X : SetOracle} (hX : IterPerm X) {σ : Sched} (hσ : SchedOk σ)
    (pvm : List PVM) :
    ∀ (f : Nat) (n : Value), (strip n).v.depth < f → Good X n → ∀ (path : Path),
      (∀ r m q, nodeAt X n r = some m → pathAt X n r = some q →
        findPVM X (path ++ q) pvm = .ok (marksOpt m)) →
      ∃ evs, ∀ log, transformFuel X σ (markT X pvm) f log path (strip n) = (log ++ evs, .ok n)
  | 0, _, h, _ => by omega
  | f + 1, n, hd, hg => by
    intro path hadeq
    have hks := kids_strip hX n hg.shaped
    -- the members, one by one
    have hkid : ∀ c ∈ kids X n, ∃ evs, ∀ log,
        transformFuel X σ (markT X pvm) f log (path ++ [c.1]) (strip c.2) = (log ++ evs, .ok c.2) := by
      intro c hc
      obtain ⟨i, hi⟩ := List.getElem?_of_mem hc
      have hc' : (c.1, strip c.2) ∈ kids X (strip n) := by
        rw [hks]; exact List.mem_map.mpr ⟨c, hc, rfl⟩
      refine transformFuel_remark hX hσ pvm f c.2
        (by have := kids_depth_lt hX (strip n) _ hc'; simp only at this; omega)
        (kids_good hX n hg c hc) (path ++ [c.1]) ?_
      intro r m q hm hq
      have := hadeq (i :: r) m (c.1 :: q) (by rw [nodeAt_cons hi]; exact hm)
        (by rw [pathAt_cons hi, hq]; rfl)
      simpa [List.append_assoc] using this
    -- the original member behind a stripped one
    let orig : PathStep × Value → PathStep × Value := fun c' =>
      if h : ∃ c ∈ kids X n, c' = (c.1, strip c.2) then choose h else c'
    have horig : ∀ c ∈ kids X n, orig (c.1, strip c.2) = c := by
      intro c hc
      have hex : ∃ c0 ∈ kids X n, (c.1, strip c.2) = (c0.1, strip c0.2) := ⟨c, hc, rfl⟩
      have hor : orig (c.1, strip c.2) = choose hex := dif_pos hex
      rw [hor]
      have hsp := choose_spec hex
      exact (kid_of_step hX n hg.shaped c (choose hex) hc hsp.1 (Prod.mk.inj hsp.2).1).symm
    let g : PathStep × Value → Value := fun c' => (orig c').2
    let ev : PathStep × Value → List Ev := fun c' =>
      if h : ∃ evs, ∀ log, transformFuel X σ (markT X pvm) f log (path ++ [c'.1]) c'.2 =
        (log ++ evs, .ok (g c')) then choose h else []
    have ih : ∀ c' ∈ kids X (strip n), ∀ log,
        transformFuel X σ (markT X pvm) f log (path ++ [c'.1]) c'.2 = (log ++ ev c', .ok (g c')) := by
      intro c' hc' log
      rw [hks] at hc'
      obtain ⟨c, hc, rfl⟩ := List.mem_map.mp hc'
      have hex : ∃ evs, ∀ log, transformFuel X σ (markT X pvm) f log (path ++ [c.1]) (strip c.2) =
          (log ++ evs, .ok (g (c.1, strip c.2))) := by
        obtain ⟨evs, hevs⟩ := hkid c hc
        refine ⟨evs, fun log => ?_⟩
        simp only [g, horig c hc]
        exact hevs log
      simp only [ev, dif_pos hex]
      exact choose_spec hex log
    have hty : ∀ c' ∈ kids X (strip n), (g c').ty = c'.2.ty := by
      intro c' hc'
      rw [hks] at hc'
      obtain ⟨c, hc, rfl⟩ := List.mem_map.mp hc'
      simp only [g, horig c hc]
      rfl
    have hsetv : ∀ e, (strip n).ty = .set e → ∀ c' ∈ kids X (strip n), g c' = c'.2 := by
      intro e he c' hc'
      rw [hks] at hc'
      obtain ⟨c, hc, rfl⟩ := List.mem_map.mp hc'
      simp only [g, horig c hc]
      exact (set_kid_strip hX n hg.shaped e he c hc).symm
    have hmapg : (kids X (strip n)).map g = (kids X n).map (·.2) := by
      rw [hks, List.map_map]
      apply List.map_congr_left
      intro c hc
      simp only [Function.comp, g, horig c hc]
    have hen : ∀ l, (markT X pvm).enter l path (strip n) = .ok (strip n) := fun _ => rfl
    refine ⟨.enter path (strip n) :: (mapEvKids ev (ordKids X σ path (strip n)) ++
      [.exit path n.unmark]), fun log => ?_⟩
    simp only [transformFuel, hen]
    rw [rebuild_map hX hσ _ ev g (strip n) hg.strip path hty hsetv ih, hmapg,
      withKids_strip_restore n hg.shaped]
    have hfind := hadeq [] n [] rfl rfl
    simp only [List.append_nil] at hfind
    have hex : ∀ l, (markT X pvm).exit l path n.unmark = .ok n := by
      intro l
      simp only [markT, hfind, Res.map, marksOpt]
      by_cases hm : n.marks = []
      · simp only [hm, if_true]
        have hnm : n.isMarked = false := by
          have hsh := hg.shaped
          obtain ⟨t, p⟩ := n
          cases p <;> simp_all [Value.marks, Payload.marks1, Value.isMarked, Payload.isMarked, shapedV,
            shaped]
        rw [unmark_of_not_marked n hnm]
      · simp only [hm, if_false]
        exact congrArg Res.ok (withMarks_restore hg.shaped)
    simp only [hex]
    simp [List.append_assoc]

end Walk
end CtyModel
