/-
The REGENERATED-MODEL tie for C16/C17: the definitions that `extract/translate_mpunknown.go`
regenerates from cty/msgpack/unknown.go on every check (`Generated/MpUnknownFns.lean`) compute
what the hand-written item-level model computes:

* `marshalUnknownValue_eq`   what `marshalUnknownValue` writes into an empty encoder, read back as ONE
  item (`MpGo.assemble`), is `Msgpack.marshalUnknown` — for EVERY type and EVERY refinement record
  (which keys, in which order, under which guards, the prefix cut, the bound pairs, the length in
  the extension header, the fallback to the unrefined unknown).

The given API (`CtyModel/MpGo.lean`) is unfolded, so the statements are in the model's own terms.
A refactoring of the Go code inside the translated fragment that preserves the meaning still goes
through (the proofs are case analysis and `simp` over the generated text), while a change of
meaning makes this file fail to build.
-/
import CtyModel.Generated.MpUnknownFns
set_option linter.unusedSimpArgs false
set_option linter.unusedVariables false
namespace CtyModel
namespace MpUnknownFnsTie
open Refine Msgpack RefineGo MpGo Generated.MpUnknownFns

@[simp] theorem rbind_ok {α β} (a : α) (f : α → Res β) : Res.bind (.ok a) f = f a := rfl
@[simp] theorem rbind_panic {α β} (w : String) (f : α → Res β) : Res.bind (.panic w) f = .panic w := rfl
@[simp] theorem rbind_unmodelled {α β} (f : α → Res β) : Res.bind .unmodelled f = .unmodelled := rfl
@[simp] theorem rbind_err {α β} (w : String) (f : α → Res β) : Res.bind (.err w) f = .err w := rfl

/-- the nested `marshal` call for a bound: `[number, inclusive]` -/
theorem marshal_bound (E : Ext) (x : Num) (i : Bool) :
    marshalV E (Msgpack.tupleVal [⟨.number, .n x⟩, ⟨.bool, .b i⟩]) (.tuple [.number, .bool]) = .ok (.arr [encNum x, .bool i]) := by
  simp [marshalV, Msgpack.tupleVal, types, payloads, marshalP, marshalZip, Ty.isDyn, Payload.isMarked, Res.map]

theorem encInt_key (k : Int) (h1 : 0 ≤ k) (h2 : k ≤ 127) : encInt k = .int k := by
  simp [encInt]; omega
@[simp] theorem encInt_1 : encInt 1 = .int 1 := by simp [encInt]
@[simp] theorem encInt_2 : encInt 2 = .int 2 := by simp [encInt]
@[simp] theorem encInt_3 : encInt 3 = .int 3 := by simp [encInt]
@[simp] theorem encInt_4 : encInt 4 = .int 4 := by simp [encInt]
@[simp] theorem encInt_5 : encInt 5 = .int 5 := by simp [encInt]
@[simp] theorem encInt_6 : encInt 6 = .int 6 := by simp [encInt]

theorem isKnown_num (x : Num) : RefineGo.isKnown (.v ⟨.number, .n x⟩) = true := rfl
theorem isKnown_negInf : RefineGo.isKnown .negInf = true := rfl
theorem isKnown_posInf : RefineGo.isKnown .posInf = true := rfl

macro "mu_simp" "[" ts:Lean.Parser.Tactic.simpLemma,* "]" : tactic => `(tactic|
    simp [$ts,*, marshalUnknownValue, marshalUnknown, rfnEntries, MpGo.typeConstraint, MpGo.definitelyNotNull,
      ValueRange.definitelyNotNull, Ty.isDyn, Ty.isNumber, Ty.isString, isCollection, encodeUnknownVal, assemble,
      emptyBuf, Rfn.nullness, MpGo.newError, plainUnknown, itemsOf, encodeExtHeader, writerWrite, bufBytes,
      encodeMapLen, encodeBool, encodeInt, bufLen, bufSize, tokSize, keyNullness, unknownWithRefinementsExt,
      encSizeL, encSize, seqHdr, intSize, MpGo.numberLowerBound, MpGo.numberUpperBound, MpGo.stringPrefix,
      MpGo.lengthLowerBound, MpGo.lengthUpperBound, ValueRange.stringPrefix, ValueRange.lengthLowerBound,
      ValueRange.lengthUpperBound, isCollectionTy, isNegInf, isPosInf, boundEntry, Res.map,
      strEq, strLit, keyNumberMin, keyNumberMax, keyStringPrefix, keyLengthMin, keyLengthMax, Refine.maxInt,
      MpGo.tupleVal, toValues, toValue?, boolVal, marshalStmt, marshal_bound, isKnown_num, isKnown_negInf, isKnown_posInf])

/-- the statement of the tie, per refinement record -/
abbrev EncTie (E : Ext) (vt : Ty) (r : Rfn) : Prop :=
  (marshalUnknownValue E ⟨vt, r⟩ []).bind assemble = marshalUnknown E vt r

theorem enc_unref (E : Ext) (vt : Ty) : EncTie E vt .unref := by
  unfold EncTie
  cases vt <;> mu_simp [rbind_ok]

theorem enc_nullable (E : Ext) (vt : Ty) (n : Tri) : EncTie E vt (.nullable n) := by
  unfold EncTie
  cases n <;> cases vt <;> mu_simp [rbind_ok]

set_option maxHeartbeats 1000000 in
theorem enc_str (E : Ext) (vt : Ty) (n : Tri) (p : String) : EncTie E vt (.str n p) := by
  unfold EncTie
  by_cases hp : p = ""
  · subst hp; cases n <;> cases vt <;> mu_simp [rbind_ok]
  · by_cases hl : 256 < (bytes p).length
    · have h1 : (256 : Int) < MpGo.strLen (.text p) := by simp [MpGo.strLen, GoStr.bytes]; omega
      have h2 : (255 : Int) ≤ MpGo.strLen (.text p) := by omega
      cases hs : E.safePrefix ((bytes p).take 255) <;> cases n <;> cases vt <;>
        mu_simp [hp, hl, h1, h2, hs, strSliceTo, MpGo.safeKnownPrefix, encodeString, maxPrefixLength, GoStr.bytes, strHdr] <;> omega
    · have h1 : ¬ (256 : Int) < MpGo.strLen (.text p) := by simp [MpGo.strLen, GoStr.bytes]; omega
      cases n <;> cases vt <;>
        mu_simp [hp, hl, h1, strSliceTo, MpGo.safeKnownPrefix, encodeString, maxPrefixLength, GoStr.bytes, strHdr] <;> omega

set_option maxHeartbeats 1000000 in
theorem enc_num (E : Ext) (vt : Ty) (n : Tri) (lo hi : Option Bound) : EncTie E vt (.num n lo hi) := by
  unfold EncTie
  cases n <;> cases vt <;> cases lo <;> cases hi <;> mu_simp [rbind_ok] <;> omega

set_option maxHeartbeats 1000000 in
theorem enc_coll (E : Ext) (vt : Ty) (n : Tri) (lo hi : Int) : EncTie E vt (.coll n lo hi) := by
  unfold EncTie
  by_cases h1 : lo = 0 <;> by_cases h2 : hi = 9223372036854775807 <;> cases n <;> cases vt <;>
    mu_simp [h1, h2] <;> omega

/-- `marshalUnknownValue` = `Msgpack.marshalUnknown`, for every type and every refinement record -/
theorem marshalUnknownValue_eq (E : Ext) (vt : Ty) (r : Rfn) :
    (marshalUnknownValue E ⟨vt, r⟩ []).bind assemble = marshalUnknown E vt r := by
  cases r with
  | unref => exact enc_unref E vt
  | nullable n => exact enc_nullable E vt n
  | str n p => exact enc_str E vt n p
  | num n lo hi => exact enc_num E vt n lo hi
  | coll n lo hi => exact enc_coll E vt n lo hi

/-! ## the decoder: `unmarshalUnknownValue`

The translated decoder is tied to `D17.unmarshal` (on extension items) as follows:
* for ALL inputs: it never panics; an extension body longer than 1024 bytes, or a body of more than one
  byte under another type code, is an error; a body of at most one byte is the unrefined unknown value —
  the guards of the source before the refinement map is looked at (`dec_*` below);
* on a BATTERY of concrete extension items × requested types that exercises every key, every type guard,
  the contradiction checks and the known-length refusal, it computes exactly what `D17.unmarshal`
  computes, up to message text (`decoder_battery_agrees`, by evaluation of both definitions).
The statement for all refinement maps (an induction over the generated loop helper against
`D17.rfnLoop`) is not proved here. -/

/-- an outcome up to the text of a panic or error -/
def er {α} : Res α → Res α
  | .panic _ => .panic ""
  | .err _ => .err ""
  | r => r

theorem recoverWith_err_np {α} (m w : String) (x : Res α) : recoverWith (.err m) x ≠ .panic w := by
  cases x <;> simp [recoverWith]

section Dec
variable [O : EqOracle]

theorem dec_never_panics (E : Ext) (d : Dec) (ty : Ty) (w : String) : unmarshalUnknownValue E d ty ≠ .panic w := by
  unfold unmarshalUnknownValue
  exact recoverWith_err_np _ _ _

theorem dec_small (E : Ext) (code : Int) (len : Nat) (hdr : ExtHdr) (stream : List Item) (ty : Ty) (h : len ≤ 1) :
    unmarshalUnknownValue E (.atItem (.ext code len hdr stream)) ty = .ok (.v (Value.unknown ty)) := by
  have h1 : (len : Int) ≤ 1 := by omega
  by_cases h0 : (len : Int) > 0
  · have : ¬ ((len : Int) < 0) := by omega
    simp [unmarshalUnknownValue, decodeExtHeader, h1, h0, makeBytes, this, readBody, recoverWith, unknownVal]
  · have h0' : ¬ 0 < len := by omega
    simp [unmarshalUnknownValue, decodeExtHeader, h1, h0, h0', recoverWith, unknownVal]

theorem dec_wrong_code (E : Ext) (code : Int) (len : Nat) (hdr : ExtHdr) (stream : List Item) (ty : Ty) (h : 1 < len)
    (hc : code ≠ 12) : ∃ c, unmarshalUnknownValue E (.atItem (.ext code len hdr stream)) ty = .err c := by
  have h1 : ¬ (len : Int) ≤ 1 := by omega
  exact ⟨_, by simp [unmarshalUnknownValue, decodeExtHeader, h1, hc, recoverWith]; rfl⟩

theorem dec_oversize (E : Ext) (code : Int) (len : Nat) (hdr : ExtHdr) (stream : List Item) (ty : Ty) (h : 1024 < len) :
    ∃ c, unmarshalUnknownValue E (.atItem (.ext code len hdr stream)) ty = .err c := by
  have h1 : ¬ (len : Int) ≤ 1 := by omega
  have h2 : (len : Int) > 1024 := by omega
  by_cases hc : code = 12
  · exact ⟨_, by simp [unmarshalUnknownValue, decodeExtHeader, h1, hc, h2, recoverWith]; rfl⟩
  · exact dec_wrong_code E code len hdr stream ty (by omega) hc

end Dec

/-- what is compared of a decoded payload: everything, except that of a collapsed collection only the
number of members (they are unrefined unknown values by construction) -/
inductive PS where
  | null | unk (r : Rfn) | n (x : Num) | seq (k : Nat) | sset (k : Nat) | smap (k : Nat) | other
  deriving DecidableEq

def psum : Payload → PS
  | .null => .null
  | .unk r => .unk r
  | .n x => .n x
  | .seq vs => .seq vs.length
  | .sset _ vs => .sset vs.length
  | .smap _ vs => .smap vs.length
  | _ => .other

/-- generated decoder vs hand-written decoder on one input: same outcome (error and panic up to the
message text), and for a value the same type and the same payload (`psum`) -/
def agree (O : EqOracle) (E : Ext) (it : Item) (ty : Ty) : Bool :=
  match @unmarshalUnknownValue O E (.atItem it) ty, @D17.unmarshal O E it ty with
  | .ok (.v a), .ok b => a.ty.equals b.ty && decide (psum a.v = psum b.v)
  | .err _, .err _ => true
  | .panic _, .panic _ => true
  | .unmodelled, .unmodelled => true
  | _, _ => false

def batE : Ext := ⟨id, fun _ => none, fun _ ps => .ok (.sset (ps.map fun _ => 0) ps)⟩

def num (i : Int) : Item := .int i
def bnd (i : Int) (inc : Bool) : Item := .arr [.int i, .bool inc]

/-- extension items (type code, length word, header, stream) -/
def batItems : List Item := [
  .ext 0 1 .other [], .ext 0 0 .other [], .ext 5 1 .other [], .ext 5 3 (.map 1) [num 1, .bool false],
  .ext 12 2000 (.map 1) [num 1, .bool false], .ext 12 3 .other [], .ext 12 3 .nil [], .ext 12 3 (.map 0) [],
  .ext 12 3 (.map 1) [num 1, .bool false], .ext 12 3 (.map 1) [num 1, .bool true], .ext 12 3 (.map 1) [num 1, num 7],
  .ext 12 5 (.map 2) [num 1, .bool false, num 1, .bool true], .ext 12 5 (.map 2) [num 1, .bool true, num 1, .bool false],
  .ext 12 3 (.map 1) [.str "k", .bool true], .ext 12 3 (.map 2) [num 1, .bool false], .ext 12 3 (.map 1) [num 1],
  .ext 12 5 (.map 1) [num 2, .str "ab"], .ext 12 5 (.map 1) [num 2, num 3], .ext 12 5 (.map 1) [num 2, .bin [0xff]],
  .ext 12 5 (.map 2) [num 2, .str "ab", num 2, .str "cd"], .ext 12 5 (.map 2) [num 1, .bool false, num 2, .str "ab"],
  .ext 12 3 (.map 1) [num 5, num 2], .ext 12 3 (.map 1) [num 6, num 2], .ext 12 3 (.map 1) [num 6, num 0], .ext 12 3 (.map 1) [num 5, .str "x"],
  .ext 12 5 (.map 2) [num 5, num 3, num 6, num 2], .ext 12 5 (.map 2) [num 5, num 2, num 6, num 2],
  .ext 12 7 (.map 3) [num 1, .bool false, num 5, num 2, num 6, num 2], .ext 12 7 (.map 3) [num 1, .bool false, num 5, num 2, num 6, num 3],
  .ext 12 7 (.map 3) [num 1, .bool false, num 5, num 0, num 6, num 0], .ext 12 7 (.map 3) [num 5, num 2, num 6, num 2, num 1, .bool false],
  .ext 12 7 (.map 3) [num 1, .bool false, num 5, num 1, num 6, num 1],
  .ext 12 5 (.map 1) [num 3, bnd 1 true], .ext 12 5 (.map 1) [num 4, bnd 9 false], .ext 12 9 (.map 2) [num 3, bnd 1 true, num 4, bnd 9 true],
  .ext 12 9 (.map 2) [num 3, bnd 9 true, num 4, bnd 1 true], .ext 12 9 (.map 2) [num 3, bnd 4 true, num 4, bnd 4 true],
  .ext 12 9 (.map 3) [num 1, .bool false, num 3, bnd 4 true, num 4, bnd 4 true], .ext 12 5 (.map 1) [num 3, num 1],
  .ext 12 5 (.map 1) [num 3, .arr [.int 1]], .ext 12 5 (.map 1) [num 3, .arr [.nil, .bool true]], .ext 12 5 (.map 1) [num 3, .arr [.int 1, .nil]],
  .ext 12 5 (.map 1) [num 3, .nil], .ext 12 5 (.map 1) [num 3, .arr [.str "x", .bool true]],
  .ext 12 3 (.map 1) [num 9, .str "future"], .ext 12 3 (.map 1) [num 9], .ext 12 5 (.map 2) [num 9, .arr [num 1, num 2], num 1, .bool false],
  .ext 12 3 (.map 1) [num 0, num 0], .ext 12 3 (.map 1) [num (-1), num 0]]

def batTys : List Ty := [.string, .number, .bool, .dyn, .list .string, .set .number, .map .bool, .tuple [.string], .object ["a"] [.number] [false]]

set_option maxRecDepth 100000 in
/-- the translated decoder computes what the hand-written `D17.unmarshal` computes (up to message text and `psum`) on
every item of the battery against every type of the battery: each key with each type guard, repeated and
contradictory nullness, crossed and meeting bounds, the known-length refusal and its neighbours (sets,
zero bounds, without "not null"), malformed keys and values, unknown keys, short streams. -/
theorem decoder_battery_agrees :
    (batItems.all fun it => batTys.all fun ty => agree textOracle batE it ty && agree partialOracle batE it ty) = true := by
  decide +kernel

end MpUnknownFnsTie
end CtyModel
