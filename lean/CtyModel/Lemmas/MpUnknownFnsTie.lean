/-
The REGENERATED-MODEL tie for C16/C17: the definitions that `extract/translate_mpunknown.go`
regenerates from cty/msgpack/unknown.go on every check (`Generated/MpUnknownFns.lean`) compute
what the hand-written item-level model computes:

* `marshalUnknownValue_eq`   what `marshalUnknownValue` writes into an empty encoder, read back as ONE
  item (`MpGo.assemble`), is `Msgpack.marshalUnknown` — for EVERY type and EVERY refinement record
  (which keys, in which order, under which guards, the prefix cut, the bound pairs, the length in
  the extension header, the fallback to the unrefined unknown).

The given API (`CtyModel/MpGo.lean`) is unfolded, so the statements are in the model's own terms.
A refactoring of the Go code inside the translated fragment that preserves the meaning still goes
through (the proofs are case analysis and `simp` over the generated text), while a change of
meaning makes this file fail to build.
-/
import CtyModel.Generated.MpUnknownFns
set_option linter.unusedSimpArgs false
set_option linter.unusedVariables false
namespace CtyModel
namespace MpUnknownFnsTie
open Refine Msgpack RefineGo MpGo Generated.MpUnknownFns

@[simp] theorem rbind_ok {α β} (a : α) (f : α → Res β) : Res.bind (.ok a) f = f a := rfl
@[simp] theorem rbind_panic {α β} (w : String) (f : α → Res β) : Res.bind (.panic w) f = .panic w := rfl
@[simp] theorem rbind_unmodelled {α β} (f : α → Res β) : Res.bind .unmodelled f = .unmodelled := rfl
@[simp] theorem rbind_err {α β} (w : String) (f : α → Res β) : Res.bind (.err w) f = .err w := rfl

/-- the nested `marshal` call for a bound: `[number, inclusive]` -/
theorem marshal_bound (E : Ext) (x : Num) (i : Bool) :
    marshalV E (Msgpack.tupleVal [⟨.number, .n x⟩, ⟨.bool, .b i⟩]) (.tuple [.number, .bool]) = .ok (.arr [encNum x, .bool i]) := by
  simp [marshalV, Msgpack.tupleVal, types, payloads, marshalP, marshalZip, Ty.isDyn, Payload.isMarked, Res.map]

theorem encInt_key (k : Int) (h1 : 0 ≤ k) (h2 : k ≤ 127) : encInt k = .int k := by
  simp [encInt]; omega
@[simp] theorem encInt_1 : encInt 1 = .int 1 := by simp [encInt]
@[simp] theorem encInt_2 : encInt 2 = .int 2 := by simp [encInt]
@[simp] theorem encInt_3 : encInt 3 = .int 3 := by simp [encInt]
@[simp] theorem encInt_4 : encInt 4 = .int 4 := by simp [encInt]
@[simp] theorem encInt_5 : encInt 5 = .int 5 := by simp [encInt]
@[simp] theorem encInt_6 : encInt 6 = .int 6 := by simp [encInt]

theorem isKnown_num (x : Num) : RefineGo.isKnown (.v ⟨.number, .n x⟩) = true := rfl
theorem isKnown_negInf : RefineGo.isKnown .negInf = true := rfl
theorem isKnown_posInf : RefineGo.isKnown .posInf = true := rfl

macro "mu_simp" "[" ts:Lean.Parser.Tactic.simpLemma,* "]" : tactic => `(tactic|
    simp [$ts,*, marshalUnknownValue, marshalUnknown, rfnEntries, MpGo.typeConstraint, MpGo.definitelyNotNull,
      ValueRange.definitelyNotNull, Ty.isDyn, Ty.isNumber, Ty.isString, isCollection, encodeUnknownVal, assemble,
      emptyBuf, Rfn.nullness, MpGo.newError, plainUnknown, itemsOf, encodeExtHeader, writerWrite, bufBytes,
      encodeMapLen, encodeBool, encodeInt, bufLen, bufSize, tokSize, keyNullness, unknownWithRefinementsExt,
      encSizeL, encSize, seqHdr, intSize, MpGo.numberLowerBound, MpGo.numberUpperBound, MpGo.stringPrefix,
      MpGo.lengthLowerBound, MpGo.lengthUpperBound, ValueRange.stringPrefix, ValueRange.lengthLowerBound,
      ValueRange.lengthUpperBound, isCollectionTy, isNegInf, isPosInf, boundEntry, Res.map,
      strEq, strLit, keyNumberMin, keyNumberMax, keyStringPrefix, keyLengthMin, keyLengthMax, Refine.maxInt,
      MpGo.tupleVal, toValues, toValue?, boolVal, marshalStmt, marshal_bound, isKnown_num, isKnown_negInf, isKnown_posInf])

/-- the statement of the tie, per refinement record -/
abbrev EncTie (E : Ext) (vt : Ty) (r : Rfn) : Prop :=
  (marshalUnknownValue E ⟨vt, r⟩ []).bind assemble = marshalUnknown E vt r

theorem enc_unref (E : Ext) (vt : Ty) : EncTie E vt .unref := by
  unfold EncTie
  cases vt <;> mu_simp [rbind_ok]

theorem enc_nullable (E : Ext) (vt : Ty) (n : Tri) : EncTie E vt (.nullable n) := by
  unfold EncTie
  cases n <;> cases vt <;> mu_simp [rbind_ok]

set_option maxHeartbeats 1000000 in
theorem enc_str (E : Ext) (vt : Ty) (n : Tri) (p : String) : EncTie E vt (.str n p) := by
  unfold EncTie
  by_cases hp : p = ""
  · subst hp; cases n <;> cases vt <;> mu_simp [rbind_ok]
  · by_cases hl : 256 < (bytes p).length
    · have h1 : (256 : Int) < MpGo.strLen (.text p) := by simp [MpGo.strLen, GoStr.bytes]; omega
      have h2 : (255 : Int) ≤ MpGo.strLen (.text p) := by omega
      cases hs : E.safePrefix ((bytes p).take 255) <;> cases n <;> cases vt <;>
        mu_simp [hp, hl, h1, h2, hs, strSliceTo, MpGo.safeKnownPrefix, encodeString, maxPrefixLength, GoStr.bytes, strHdr] <;> omega
    · have h1 : ¬ (256 : Int) < MpGo.strLen (.text p) := by simp [MpGo.strLen, GoStr.bytes]; omega
      cases n <;> cases vt <;>
        mu_simp [hp, hl, h1, strSliceTo, MpGo.safeKnownPrefix, encodeString, maxPrefixLength, GoStr.bytes, strHdr] <;> omega

set_option maxHeartbeats 1000000 in
theorem enc_num (E : Ext) (vt : Ty) (n : Tri) (lo hi : Option Bound) : EncTie E vt (.num n lo hi) := by
  unfold EncTie
  cases n <;> cases vt <;> cases lo <;> cases hi <;> mu_simp [rbind_ok] <;> omega

set_option maxHeartbeats 1000000 in
theorem enc_coll (E : Ext) (vt : Ty) (n : Tri) (lo hi : Int) : EncTie E vt (.coll n lo hi) := by
  unfold EncTie
  by_cases h1 : lo = 0 <;> by_cases h2 : hi = 9223372036854775807 <;> cases n <;> cases vt <;>
    mu_simp [h1, h2] <;> omega

/-- `marshalUnknownValue` = `Msgpack.marshalUnknown`, for every type and every refinement record -/
theorem marshalUnknownValue_eq (E : Ext) (vt : Ty) (r : Rfn) :
    (marshalUnknownValue E ⟨vt, r⟩ []).bind assemble = marshalUnknown E vt r := by
  cases r with
  | unref => exact enc_unref E vt
  | nullable n => exact enc_nullable E vt n
  | str n p => exact enc_str E vt n p
  | num n lo hi => exact enc_num E vt n lo hi
  | coll n lo hi => exact enc_coll E vt n lo hi

end MpUnknownFnsTie
end CtyModel
