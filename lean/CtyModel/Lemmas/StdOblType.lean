/-
C11 obligation "the `Type` callback is monotone" (`C11.TypeMono`), discharged for the
modelled `Type` callbacks of cty/function/stdlib (collection.go, sequence.go, set.go,
general.go): replacing every argument by an unknown placeholder of its type cannot make
the callback fail and only widens its answer.
-/
import CtyModel.Lemmas.StdOblBase
namespace CtyModel
namespace Stdlib
open Fn

theorem typeMono_length : TypeMono lengthType := by
  apply typeMono_of_eq
  intro as t h
  cases as with
  | nil => simp [lengthType, oob] at h
  | cons c rest => simpa [lengthType] using h

theorem typeMono_hasIndex : TypeMono hasIndexType := by
  apply typeMono_of_eq
  intro as t h
  cases as with
  | nil => simp [hasIndexType, oob] at h
  | cons c rest => simpa [hasIndexType] using h

theorem typeMono_index : TypeMono indexType := by
  intro as t h
  match as, h with
  | [], h => simp [indexType, oob] at h
  | [_], h => simp [indexType, oob] at h
  | c :: key :: rest, h =>
    simp only [indexType] at h
    simp only [List.map, indexType, unkOf_ty, unkOf_isKnown]
    split at h
    · split at h
      · cases h
      · rename_i hk
        simp only [hk]
        exact ⟨.dyn, by simp, admits_dyn _⟩
    · exact ⟨t, h, admits_refl _⟩
    · exact ⟨t, h, admits_refl _⟩
    · cases h

theorem typeMono_element : TypeMono elementType := by
  intro as t h
  match as, h with
  | [], h => simp [elementType, oob] at h
  | [_], h => simp [elementType, oob] at h
  | l :: i :: rest, h =>
    simp only [elementType] at h
    simp only [List.map, elementType, unkOf_ty, unkOf_isKnown]
    split at h
    · exact ⟨t, h, admits_refl _⟩
    · exact ⟨.dyn, by simp, admits_dyn _⟩
    · cases h

theorem typeMono_coalesceList : TypeMono coalesceListType := by
  apply typeMono_of_dyn
  intro as t h
  cases as with
  | nil => simp [coalesceListType] at h
  | cons a rest => simp [coalesceListType, coalesceListArgTypes]

theorem typeMono_coalesce (E : Env) : TypeMono (coalesceType E) := by
  apply typeMono_of_eq
  intro as t h
  simp only [coalesceType, map_unkOf_ty] at h ⊢
  exact h

theorem typeMono_distinct : TypeMono distinctType := by
  apply typeMono_of_eq
  intro as t h
  cases as with
  | nil => simp [distinctType, oob] at h
  | cons c rest => simpa [distinctType] using h

theorem typeMono_chunklist : TypeMono chunklistType := by
  apply typeMono_of_eq
  intro as t h
  cases as with
  | nil => simp [chunklistType, oob] at h
  | cons c rest => simpa [chunklistType] using h

theorem typeMono_flatten (E : Env) : TypeMono (flattenType E) := by
  apply typeMono_of_dyn
  intro as t h
  cases as with
  | nil => simp [flattenType, oob] at h
  | cons c rest => simp [flattenType]

theorem typeMono_keys : TypeMono keysType := by
  apply typeMono_of_eq
  intro as t h
  cases as with
  | nil => simp [keysType, oob] at h
  | cons c rest => simpa [keysType] using h

theorem typeMono_values : TypeMono valuesType := by
  apply typeMono_of_eq
  intro as t h
  cases as with
  | nil => simp [valuesType, oob] at h
  | cons c rest => simpa [valuesType] using h

theorem typeMono_reverse : TypeMono reverseType := by
  apply typeMono_of_eq
  intro as t h
  cases as with
  | nil => simp [reverseType, oob] at h
  | cons c rest => simpa [reverseType] using h

theorem typeMono_zipmap (E : Env) : TypeMono (zipmapType E) := by
  intro as t h
  match as, h with
  | [], h => simp [zipmapType, oob] at h
  | [_], h => simp [zipmapType, oob] at h
  | ks :: vs :: rest, h =>
    simp only [zipmapType] at h
    simp only [List.map, zipmapType, unkOf_ty, unkOf_whollyKnown]
    split at h
    · exact ⟨t, h, admits_refl _⟩
    · exact ⟨.dyn, by simp, admits_dyn _⟩
    · cases h

/-! ### `lookup`: the map branch asks `convert.Convert(default, elementType)` -/

/-- what `lookup`'s `Type` callback needs of `convert.Convert` (an `Env` parameter): a
conversion that succeeds on a value succeeds on the unknown placeholder of its type
(`Convert` of an unknown value only looks at the types: C08). -/
def EnvConvertMono (E : Env) : Prop :=
  ∀ d e r, E.convert d e = .ok r → ∃ r', E.convert (unkOf d) e = .ok r'

theorem typeMono_lookup (E : Env) (hE : EnvConvertMono E) : TypeMono (lookupType E) := by
  intro as t h
  match as, h with
  | [], h => simp [lookupType, oob] at h
  | [_], h => simp [lookupType, oob] at h
  | m :: key :: rest, h =>
    simp only [lookupType] at h
    simp only [List.map, lookupType, unkOf_ty, unkOf_isKnown]
    split at h
    · exact ⟨.dyn, by simp, admits_dyn _⟩
    · rename_i e he
      match rest, h with
      | [], h => exact ⟨t, h, admits_refl _⟩
      | _ :: _ :: _, h => exact ⟨t, h, admits_refl _⟩
      | [d], h =>
        simp only [List.map]
        cases hc : convertTo E d e with
        | ok r =>
          simp only [hc] at h
          refine ⟨t, ?_, admits_refl _⟩
          unfold convertTo at hc ⊢
          simp only [unkOf_ty]
          split at hc
          · rename_i heq
            simp only [heq, if_true]
            exact h
          · rename_i heq
            obtain ⟨r', hr'⟩ := hE d e r hc
            simp only [heq, hr']
            exact h
        | err c => simp [hc] at h
        | panic w => simp [hc, Res.cast] at h
        | unmodelled => simp [hc, Res.cast] at h
    · cases h

/-! ### `setproduct` -/

theorem setProductTypeLoop_unkOf (E : Env) : ∀ as : List Value,
    setProductTypeLoop E (as.map unkOf) = setProductTypeLoop E as
  | [] => rfl
  | a :: rest => by
    simp only [List.map, setProductTypeLoop, unkOf_ty, setProductTypeLoop_unkOf E rest]

theorem typeMono_setProduct (E : Env) : TypeMono (setProductType E) := by
  apply typeMono_of_eq
  intro as t h
  simpa [setProductType, setProductTypeLoop_unkOf] using h

/-! ### `concat` -/

theorem concatListTypes_unkOf : ∀ as : List Value, concatListTypes (as.map unkOf) = concatListTypes as
  | [] => rfl
  | a :: rest => by simp only [List.map, concatListTypes, unkOf_ty, concatListTypes_unkOf rest]

theorem concatElemTypes_unkOf : ∀ (as : List Value) (r : Option (List Ty)), concatElemTypes as = .ok r →
    ∃ r', concatElemTypes (as.map unkOf) = .ok r' ∧ (r' = none ∨ r' = r)
  | [], r, h => ⟨r, h, .inr rfl⟩
  | a :: rest, r, h => by
    simp only [concatElemTypes] at h
    simp only [List.map, concatElemTypes, unkOf_unmarkDeep, unkOf_ty, unkOf_isKnown]
    have hty : a.unmarkDeep.ty = a.ty := rfl
    rw [hty] at h
    cases hat : a.ty with
    | tuple ts =>
      simp only [hat] at h ⊢
      cases hr : concatElemTypes rest with
      | ok more =>
        obtain ⟨m', hm', hd⟩ := concatElemTypes_unkOf rest more hr
        rw [hr] at h
        rw [hm']
        cases more with
        | none =>
          cases h
          rcases hd with rfl | rfl <;> exact ⟨none, rfl, .inl rfl⟩
        | some mo =>
          cases h
          rcases hd with rfl | rfl
          · exact ⟨none, rfl, .inl rfl⟩
          · exact ⟨_, rfl, .inr rfl⟩
      | err c => rw [hr] at h; cases h
      | panic w => rw [hr] at h; cases h
      | unmodelled => rw [hr] at h; cases h
    | list e => exact ⟨none, by simp, .inl rfl⟩
    | bool => simp [hat] at h
    | number => simp [hat] at h
    | string => simp [hat] at h
    | dyn => simp [hat] at h
    | set e => simp [hat] at h
    | map e => simp [hat] at h
    | object a b c => simp [hat] at h
    | capsule i => simp [hat] at h

theorem typeMono_concat (E : Env) : TypeMono (concatType E) := by
  intro as t h
  cases as with
  | nil => simp [concatType] at h
  | cons a0 rest =>
    have key : ∀ t, (match concatElemTypes (a0 :: rest) with
        | .ok none => (.ok .dyn : Res Ty)
        | .ok (some etys) => .ok (.tuple etys)
        | r => Res.cast r) = .ok t →
        ∃ t', (match concatElemTypes ((a0 :: rest).map unkOf) with
        | .ok none => (.ok .dyn : Res Ty)
        | .ok (some etys) => .ok (.tuple etys)
        | r => Res.cast r) = .ok t' ∧ Admits t' t := by
      intro t ht
      cases hc : concatElemTypes (a0 :: rest) with
      | ok r =>
        obtain ⟨r', hr', hd⟩ := concatElemTypes_unkOf _ r hc
        rw [hr']
        rw [hc] at ht
        rcases hd with rfl | rfl
        · exact ⟨.dyn, rfl, admits_dyn _⟩
        · exact ⟨t, ht, admits_refl _⟩
      | err c => rw [hc] at ht; simp [Res.cast] at ht
      | panic w => rw [hc] at ht; simp [Res.cast] at ht
      | unmodelled => rw [hc] at ht; simp [Res.cast] at ht
    simp only [concatType] at h
    simp only [List.map, concatType, unkOf_ty]
    have hl : concatListTypes (unkOf a0 :: rest.map unkOf) = concatListTypes (a0 :: rest) :=
      concatListTypes_unkOf (a0 :: rest)
    rw [hl]
    simp only [List.map] at key
    by_cases hlt : isListTy a0.ty = true
    · simp only [hlt, if_true] at h ⊢
      cases hcl : concatListTypes (a0 :: rest) with
      | none => rw [hcl] at h; exact key t h
      | some tys =>
        rw [hcl] at h
        simp only at h ⊢
        cases hu : E.unify tys with
        | ok o =>
          rw [hu] at h
          cases o with
          | none => exact key t h
          | some c => exact ⟨t, h, admits_refl _⟩
        | err c => rw [hu] at h; simp [Res.cast] at h
        | panic w => rw [hu] at h; simp [Res.cast] at h
        | unmodelled => rw [hu] at h; simp [Res.cast] at h
    · simp only [hlt] at h ⊢
      exact key t h

/-! ### `slice` -/

theorem sliceIndexes_unkOf (a0 a1 a2 : Value) (rest : List Value) :
    sliceIndexes (unkOf a0 :: unkOf a1 :: unkOf a2 :: rest) = .ok ⟨0, 0, false⟩ := by
  simp only [sliceIndexes, unkOf_unmark, unkOf_ty, unkOf_isKnown]
  by_cases ht : isTupleTy a0.ty = true
  · have hl : ∃ n, lengthInt (unkOf a0) = .ok n := by
      unfold lengthInt
      simp only [unkOf_isMarked, unkOf_ty]
      generalize a0.ty = x at ht
      cases x <;> simp [isTupleTy] at ht
      exact ⟨_, rfl⟩
    obtain ⟨n, hn⟩ := hl
    simp [ht, hn, Res.map]
  · simp [ht]

theorem typeMono_slice : TypeMono sliceType := by
  intro as t h
  match as, h with
  | [], h => simp [sliceType, oob] at h
  | [_], h =>
    simp only [sliceType, sliceIndexes, oob, Res.cast] at h
    split at h
    · cases h
    · split at h <;> cases h
  | [_, _], h =>
    simp only [sliceType, sliceIndexes, oob, Res.cast] at h
    split at h
    · cases h
    · split at h <;> cases h
  | a0 :: a1 :: a2 :: rest, h =>
    simp only [sliceType] at h
    simp only [List.map, sliceType, unkOf_ty]
    by_cases hs : isSetTy a0.ty = true
    · simp [hs] at h
    · simp only [hs] at h ⊢
      by_cases hlt : (!isListTy a0.ty && !isTupleTy a0.ty) = true
      · simp [hlt] at h
      · simp only [hlt] at h ⊢
        have hlt' : (isListTy a0.ty || isTupleTy a0.ty) = true := by
          cases h1 : isListTy a0.ty <;> cases h2 : isTupleTy a0.ty <;> simp_all
        rw [sliceIndexes_unkOf a0 a1 a2 _]
        cases hi : sliceIndexes (a0 :: a1 :: a2 :: rest) with
        | ok idx =>
          rw [hi] at h
          simp only [Bool.false_eq_true, if_false] at h ⊢
          cases hat : a0.ty with
          | tuple ts => exact ⟨.dyn, by simp, admits_dyn _⟩
          | list e => simp only [hat] at h; exact ⟨t, by simpa using h, admits_refl _⟩
          | bool => simp [hat, isListTy, isTupleTy] at hlt'
          | number => simp [hat, isListTy, isTupleTy] at hlt'
          | string => simp [hat, isListTy, isTupleTy] at hlt'
          | dyn => simp [hat, isListTy, isTupleTy] at hlt'
          | set e => simp [hat, isListTy, isTupleTy] at hlt'
          | map e => simp [hat, isListTy, isTupleTy] at hlt'
          | object a b c => simp [hat, isListTy, isTupleTy] at hlt'
          | capsule i => simp [hat, isListTy, isTupleTy] at hlt'
        | err c => rw [hi] at h; simp [Res.cast] at h
        | panic w => rw [hi] at h; simp [Res.cast] at h
        | unmodelled => rw [hi] at h; simp [Res.cast] at h

/-! ### `merge`: NOT monotone (a null object argument contributes no attributes to the
value-based prediction, but its placeholder does) — monotone when no object argument is null -/

/-- how the loop state on placeholders relates to the loop state on the values -/
def MergeRel (s s' : MergeTy) : Prop :=
  s'.first = s.first ∧ s'.matching = s.matching ∧
    (s'.attrsKnown = false ∨ (s'.attrsKnown = s.attrsKnown ∧ s'.attrs = s.attrs))

theorem mergeTypeLoop_unkOf : ∀ (as : List Value) (i : Nat) (s s' : MergeTy) (r : Option MergeTy),
    MergeRel s s' → (∀ a ∈ as, isObjectTy a.ty = true → a.unmark.isNull = false) →
    mergeTypeLoop as i s = .ok r →
    ∃ r', mergeTypeLoop (as.map unkOf) i s' = .ok r' ∧
      ((r = none ∧ r' = none) ∨ ∃ x x', r = some x ∧ r' = some x' ∧ MergeRel x x')
  | [], i, s, s', r, hR, _, h => by
    simp only [mergeTypeLoop] at h
    cases h
    exact ⟨some s', rfl, .inr ⟨s, s', rfl, rfl, hR⟩⟩
  | a :: rest, i, s, s', r, hR, hn, h => by
    simp only [mergeTypeLoop] at h
    simp only [List.map, mergeTypeLoop, unkOf_ty, unkOf_unmark]
    by_cases hd : a.ty.equals .dyn = true
    · simp only [hd, if_true] at h ⊢
      cases h
      exact ⟨none, rfl, .inl ⟨rfl, rfl⟩⟩
    · simp only [hd] at h ⊢
      by_cases hm : (!isMapTy a.ty && !isObjectTy a.ty) = true
      · simp [hm] at h
      · simp only [hm] at h ⊢
        have hrest : ∀ b ∈ rest, isObjectTy b.ty = true → b.unmark.isNull = false :=
          fun b hb => hn b (List.mem_cons_of_mem _ hb)
        -- one step on the value and on the placeholder
        have hstep : ∀ x, mergeTypeStep s a.ty a.unmark = .ok x →
            ∃ x', mergeTypeStep s' a.ty (unkOf a) = .ok x' ∧ MergeRel x x' := by
          intro x hx
          obtain ⟨h1, h2, h3⟩ := hR
          unfold mergeTypeStep at hx ⊢
          cases hat : a.ty with
          | object ns ts os =>
            have : a.unmark.isNull = false := hn a (List.mem_cons_self ..) (by simp [hat, isObjectTy])
            simp only [hat, this] at hx ⊢
            simp only [Bool.not_false, if_true, unkOf_isNull] at hx ⊢
            cases hx
            refine ⟨_, rfl, h1, h2, ?_⟩
            rcases h3 with h3 | ⟨h3, h4⟩
            · exact .inl h3
            · exact .inr ⟨h3, by simp [h4]⟩
          | map ety =>
            simp only [hat] at hx ⊢
            simp only [unkOf_isNull, unkOf_isKnown]
            refine ⟨_, rfl, ?_⟩
            have hx2 : x.first = s.first ∧ x.matching = s.matching := by
              split at hx
              · cases hx; exact ⟨rfl, rfl⟩
              · split at hx
                · cases hk : elemKeys a.unmark with
                  | ok ks => rw [hk] at hx; cases hx; exact ⟨rfl, rfl⟩
                  | err c => rw [hk] at hx; simp [Res.cast] at hx
                  | panic c => rw [hk] at hx; simp [Res.cast] at hx
                  | unmodelled => rw [hk] at hx; simp [Res.cast] at hx
                · cases hx; exact ⟨rfl, rfl⟩
            exact ⟨h1.trans hx2.1.symm, h2.trans hx2.2.symm, .inl rfl⟩
          | bool => simp [hat, isMapTy, isObjectTy] at hm
          | number => simp [hat, isMapTy, isObjectTy] at hm
          | string => simp [hat, isMapTy, isObjectTy] at hm
          | dyn => simp [hat, isMapTy, isObjectTy] at hm
          | list e => simp [hat, isMapTy, isObjectTy] at hm
          | set e => simp [hat, isMapTy, isObjectTy] at hm
          | tuple e => simp [hat, isMapTy, isObjectTy] at hm
          | capsule e => simp [hat, isMapTy, isObjectTy] at hm
        cases hs : mergeTypeStep s a.ty a.unmark with
        | ok x =>
          obtain ⟨x', hx', hRx⟩ := hstep x hs
          rw [hs] at h
          rw [hx']
          simp only at h ⊢
          have hty : a.unmark.ty = a.ty := rfl
          have hty' : (unkOf a).ty = a.ty := rfl
          rw [hty] at h
          obtain ⟨h1, h2, h3⟩ := hRx
          simp only [Bool.false_eq_true, if_false] at h ⊢
          by_cases hi : (i == 0) = true
          · simp only [hi, if_true] at h ⊢
            exact mergeTypeLoop_unkOf rest (i + 1) { x with first := a.ty } { x' with first := a.ty } r
              ⟨rfl, h2, h3⟩ hrest h
          · simp only [hi, Bool.false_eq_true, if_false] at h ⊢
            exact mergeTypeLoop_unkOf rest (i + 1) { x with matching := x.matching && a.ty.equals x.first }
              { x' with matching := x'.matching && a.ty.equals x'.first } r
              ⟨h1, by simp [h1, h2], h3⟩ hrest h
        | err c => rw [hs] at h; simp [Res.cast] at h
        | panic w => rw [hs] at h; simp [Res.cast] at h
        | unmodelled => rw [hs] at h; simp [Res.cast] at h

/-- full statement (false: `typeMono_merge_counterexample`) -/
def TypeMonoMerge : Prop := TypeMono mergeType

theorem typeMono_merge_partial (as : List Value) (t : Ty)
    (hn : ∀ a ∈ as, isObjectTy a.ty = true → a.unmark.isNull = false) (h : mergeType as = .ok t) :
    ∃ t', mergeType (as.map unkOf) = .ok t' ∧ Admits t' t := by
  unfold mergeType at h ⊢
  simp only [List.length_map]
  by_cases hl : (as.length == 0) = true
  · simp only [hl, if_true] at h ⊢
    exact ⟨t, h, admits_refl _⟩
  · simp only [hl] at h ⊢
    cases hm : mergeTypeLoop as 0 ⟨[], .dyn, true, true⟩ with
    | ok r =>
      obtain ⟨r', hr', hd⟩ := mergeTypeLoop_unkOf as 0 _ ⟨[], .dyn, true, true⟩ r
        ⟨rfl, rfl, .inr ⟨rfl, rfl⟩⟩ hn hm
      rw [hm] at h
      rw [hr']
      rcases hd with ⟨rfl, rfl⟩ | ⟨x, x', rfl, rfl, h1, h2, h3⟩
      · exact ⟨t, h, admits_refl _⟩
      · simp only at h ⊢
        rw [h1, h2]
        by_cases hma : x.matching = true
        · simp only [hma, if_true] at h ⊢
          exact ⟨t, h, admits_refl _⟩
        · simp only [hma] at h ⊢
          rcases h3 with h3 | ⟨h3, h4⟩
          · simp only [h3]
            exact ⟨.dyn, by simp, admits_dyn _⟩
          · rw [h3, h4]
            exact ⟨t, h, admits_refl _⟩
    | err c => rw [hm] at h; simp [Res.cast] at h
    | panic w => rw [hm] at h; simp [Res.cast] at h
    | unmodelled => rw [hm] at h; simp [Res.cast] at h

/-- the recorded finding `result-not-conforming-to-type-prediction:MergeFunc:null-argument`:
`merge(null object{z}, object{a})` is predicted `object{a}` from the values and
`object{a,z}` from the types -/
def mergeCexArgs : List Value :=
  [⟨.object ["z"] [.bool] [false], .null⟩, ⟨.object ["a"] [.bool] [false], .smap ["a"] [.b true]⟩]

theorem typeMono_merge_counterexample :
    mergeType mergeCexArgs = .ok (.object ["a"] [.bool] [false]) ∧
    mergeType (mergeCexArgs.map unkOf) = .ok (.object ["a", "z"] [.bool, .bool] [false, false]) ∧
    Ty.conformErrs (.object ["a"] [.bool] [false]) (.object ["a"] [.bool] [false]) = 0 ∧
    Ty.conformErrs (.object ["a", "z"] [.bool, .bool] [false, false]) (.object ["a"] [.bool] [false]) ≠ 0 :=
  ⟨by rfl, by rfl, by decide, by decide⟩

theorem typeMonoMerge_false : ¬ TypeMonoMerge := by
  intro h
  obtain ⟨t', ht', had⟩ := h mergeCexArgs _ typeMono_merge_counterexample.1
  rw [typeMono_merge_counterexample.2.1] at ht'
  cases ht'
  exact typeMono_merge_counterexample.2.2.2 (had _ typeMono_merge_counterexample.2.2.1)

/-! ### the set algebra functions (`setOperationReturnType`): NOT monotone (a KNOWN EMPTY
`set(dynamic)` argument is left out of the unification, its placeholder is not) — monotone
when no argument is skipped -/

/-- the value-dependent shortcut: "empty dynamic collections always convert" -/
def skippedBySetOp (a : Value) : Bool :=
  a.isKnown && (match elementTypeOf a.ty with | .ok ty => ty.equals .dyn | _ => false) &&
    (match lengthInt a with | .ok 0 => true | _ => false)

theorem setOp_match_ok {skip : Res Bool} {r : Res (Option (List Ty))} {ty : Ty} {o : Option (List Ty)}
    (h : (match skip, r with
      | .ok _, .ok none => (.ok none : Res (Option (List Ty)))
      | .ok true, .ok (some ts) => .ok (some ts)
      | .ok false, .ok (some ts) => .ok (some (ty :: ts))
      | .ok _, r => r
      | r, _ => Res.cast r) = .ok o) :
    ∃ b o', skip = .ok b ∧ r = .ok o' ∧ o = o'.map fun ts' => if b then ts' else ty :: ts' := by
  cases skip with
  | ok b =>
    cases r with
    | ok o' =>
      cases o' with
      | none => cases b <;> simp at h <;> subst h <;> simp
      | some ts' => cases b <;> simp at h <;> subst h <;> simp
    | err c => cases b <;> simp at h
    | panic c => cases b <;> simp at h
    | unmodelled => cases b <;> simp at h
  | err c => simp [Res.cast] at h
  | panic c => simp [Res.cast] at h
  | unmodelled => simp [Res.cast] at h

theorem setOpElemTypes_unkOf : ∀ (as : List Value) (o : Option (List Ty)),
    (∀ a ∈ as, skippedBySetOp a = false) → setOpElemTypes as = .ok o →
    setOpElemTypes (as.map unkOf) = .ok o
  | [], o, _, h => h
  | a :: rest, o, hs, h => by
    simp only [setOpElemTypes] at h
    simp only [List.map, setOpElemTypes, unkOf_ty, unkOf_isKnown]
    have hsa := hs a (List.mem_cons_self ..)
    have hrest : ∀ b ∈ rest, skippedBySetOp b = false := fun b hb => hs b (List.mem_cons_of_mem _ hb)
    by_cases hd : a.ty.isDyn = true
    · -- the early `return cty.DynamicPseudoType, nil` looks at the type only
      simpa only [hd, if_true] using h
    · simp only [hd, Bool.false_eq_true, if_false] at h ⊢
      cases he : elementTypeOf a.ty with
      | ok ty =>
        rw [he] at h
        simp only at h ⊢
        simp only [skippedBySetOp, he] at hsa
        obtain ⟨b, o', hb, hr, rfl⟩ := setOp_match_ok h
        rw [setOpElemTypes_unkOf rest o' hrest hr]
        simp only [Bool.not_false, if_true]
        have : b = false := by
          by_cases hk : a.isKnown = true
          · simp only [hk, Bool.not_true, Bool.false_eq_true, if_false, Bool.true_and] at hb hsa
            cases hl : lengthInt a with
            | ok l =>
              rw [hl] at hb hsa
              simp only [Res.ok.injEq] at hb
              cases l with
              | zero => simp_all
              | succ n => simpa using hb.symm
            | err c => rw [hl] at hb; simp [Res.cast] at hb
            | panic w => rw [hl] at hb; simp [Res.cast] at hb
            | unmodelled => rw [hl] at hb; simp [Res.cast] at hb
          · simp only [hk] at hb
            simpa using hb.symm
        subst this
        cases o' <;> rfl
      | err c => rw [he] at h; simp [Res.cast] at h
      | panic w => rw [he] at h; simp [Res.cast] at h
      | unmodelled => rw [he] at h; simp [Res.cast] at h

/-- full statement (false: `typeMono_setOp_counterexample`) -/
def TypeMonoSetOp : Prop := ∀ E : Env, TypeMono (setOpType E)

theorem typeMono_setOp_partial (E : Env) (as : List Value) (t : Ty)
    (hs : ∀ a ∈ as, skippedBySetOp a = false) (h : setOpType E as = .ok t) :
    ∃ t', setOpType E (as.map unkOf) = .ok t' ∧ Admits t' t := by
  unfold setOpType at h ⊢
  cases he : setOpElemTypes as with
  | ok o =>
    rw [setOpElemTypes_unkOf as o hs he]
    rw [he] at h
    exact ⟨t, h, admits_refl _⟩
  | err c => rw [he] at h; simp [Res.cast] at h
  | panic w => rw [he] at h; simp [Res.cast] at h
  | unmodelled => rw [he] at h; simp [Res.cast] at h

/-- `convert.UnifyUnsafe` on the two type lists of the recorded witness (the answers of the real
library: harness finding `result-not-conforming-to-type-prediction:Set…:empty-dynamic-collection`) -/
def setOpCexEnv : Env :=
  { unify := fun ts =>
      match ts with
      | [.list .number, .tuple [.string]] => .ok (some (.list .string))
      | [.list .number, .dyn, .tuple [.string]] => .ok (some (.list .number))
      | _ => .unmodelled }

def setOpCexArgs : List Value :=
  [setEmpty (.list .number), setEmpty .dyn, setEmpty (.tuple [.string])]

theorem typeMono_setOp_counterexample :
    setOpType setOpCexEnv setOpCexArgs = .ok (.set (.list .string)) ∧
    setOpType setOpCexEnv (setOpCexArgs.map unkOf) = .ok (.set (.list .number)) ∧
    Ty.conformErrs (.set (.list .string)) (.set (.list .string)) = 0 ∧
    Ty.conformErrs (.set (.list .number)) (.set (.list .string)) ≠ 0 :=
  ⟨by rfl, by rfl, by decide, by decide⟩

theorem typeMonoSetOp_false : ¬ TypeMonoSetOp := by
  intro h
  obtain ⟨t', ht', had⟩ := h setOpCexEnv setOpCexArgs _ typeMono_setOp_counterexample.1
  rw [typeMono_setOp_counterexample.2.1] at ht'
  cases ht'
  exact typeMono_setOp_counterexample.2.2.2 (had _ typeMono_setOp_counterexample.2.2.1)

end Stdlib
end CtyModel
