/-
`sortStable` (the model of `sort.SliceStable` inside `Set.Values`): it permutes
its input, and when `less` is a strict total order on the (pairwise distinct)
elements the result is the unique `less`-ascending arrangement — hence depends
only on the multiset of elements.
-/
import CtyModel.SetImpl
namespace CtyModel
namespace SetImpl
variable {α : Type}

theorem insertBack_perm (less : α → α → Bool) (x : α) (acc : List α) :
    (insertBack less x acc).Perm (x :: acc) := by
  induction acc with
  | nil => simp [insertBack]
  | cons y ys ih =>
    simp only [insertBack]
    split
    · exact (List.Perm.cons y ih).trans (List.Perm.swap x y ys)
    · exact List.Perm.refl _

theorem foldl_insertBack_perm (less : α → α → Bool) (l acc : List α) :
    (l.foldl (fun acc x => insertBack less x acc) acc).Perm (l ++ acc) := by
  induction l generalizing acc with
  | nil => simp
  | cons x l ih =>
    simp only [List.foldl_cons, List.cons_append]
    refine (ih _).trans ?_
    exact (List.Perm.append_left l (insertBack_perm less x acc)).trans List.perm_middle

/-- the sort returns a permutation of its input, for any `less` whatever -/
theorem sortStable_perm (less : α → α → Bool) (l : List α) : (sortStable less l).Perm l := by
  simp only [sortStable]
  refine (List.reverse_perm _).trans ?_
  simpa using foldl_insertBack_perm less l []

theorem mem_sortStable (less : α → α → Bool) (l : List α) (x : α) :
    x ∈ sortStable less l ↔ x ∈ l := (sortStable_perm less l).mem_iff

/-- `less` is a strict order on the elements of `L`, total on distinct positions -/
structure StrictTotalOnList (less : α → α → Bool) (L : List α) : Prop where
  irrefl : ∀ a ∈ L, less a a = false
  trans : ∀ a ∈ L, ∀ b ∈ L, ∀ c ∈ L, less a b = true → less b c = true → less a c = true
  total : L.Pairwise (fun a b => less a b = true ∨ less b a = true)

theorem insertBack_desc (less : α → α → Bool) (L : List α)
    (htr : ∀ a ∈ L, ∀ b ∈ L, ∀ c ∈ L, less a b = true → less b c = true → less a c = true)
    (x : α) (hx : x ∈ L) (acc : List α) (hacc : ∀ a ∈ acc, a ∈ L)
    (hd : acc.Pairwise (fun a b => less b a = true))
    (ht : ∀ y ∈ acc, less x y = true ∨ less y x = true) :
    (insertBack less x acc).Pairwise (fun a b => less b a = true) := by
  induction acc with
  | nil => simp [insertBack]
  | cons y ys ih =>
    have ⟨hy, hys⟩ := List.pairwise_cons.mp hd
    simp only [insertBack]
    split
    · rename_i hxy
      refine List.pairwise_cons.mpr ⟨?_, ?_⟩
      · intro z hz
        rcases List.mem_cons.mp ((insertBack_perm less x ys).mem_iff.mp hz) with rfl | hz
        · exact hxy
        · exact hy z hz
      · exact ih (fun a ha => hacc a (List.mem_cons_of_mem _ ha)) hys
          (fun z hz => ht z (List.mem_cons_of_mem _ hz))
    · rename_i hxy
      have hyx : less y x = true := by
        rcases ht y (by simp) with h | h
        · exact absurd h hxy
        · exact h
      refine List.pairwise_cons.mpr ⟨?_, hd⟩
      intro z hz
      rcases List.mem_cons.mp hz with rfl | hz
      · exact hyx
      · exact htr z (hacc z (List.mem_cons_of_mem _ hz)) y (hacc y (by simp)) x hx (hy z hz) hyx

theorem foldl_insertBack_desc (less : α → α → Bool) (L : List α)
    (htr : ∀ a ∈ L, ∀ b ∈ L, ∀ c ∈ L, less a b = true → less b c = true → less a c = true)
    (l acc : List α) (hl : ∀ a ∈ l, a ∈ L) (hacc : ∀ a ∈ acc, a ∈ L)
    (hd : acc.Pairwise (fun a b => less b a = true))
    (ht : (acc ++ l).Pairwise (fun a b => less a b = true ∨ less b a = true)) :
    (l.foldl (fun acc x => insertBack less x acc) acc).Pairwise (fun a b => less b a = true) := by
  induction l generalizing acc with
  | nil => simpa using hd
  | cons x l ih =>
    simp only [List.foldl_cons]
    have hsym : ∀ {a b : α}, (less a b = true ∨ less b a = true) →
        (less b a = true ∨ less a b = true) := fun h => h.symm
    have ht' : (x :: (acc ++ l)).Pairwise (fun a b => less a b = true ∨ less b a = true) :=
      (List.pairwise_middle hsym).mp ht
    have ⟨hxall, _⟩ := List.pairwise_cons.mp ht'
    apply ih
    · exact fun a ha => hl a (List.mem_cons_of_mem _ ha)
    · intro a ha
      rcases List.mem_cons.mp ((insertBack_perm less x acc).mem_iff.mp ha) with rfl | ha
      · exact hl _ (by simp)
      · exact hacc a ha
    · exact insertBack_desc less L htr x (hl x (by simp)) acc hacc hd
        (fun y hy => hxall y (List.mem_append_left _ hy))
    · have hp : (insertBack less x acc ++ l).Perm (x :: (acc ++ l)) := by
        have := List.Perm.append_right l (insertBack_perm less x acc)
        simpa using this
      exact (List.Perm.pairwise_iff hsym hp).mpr ht'

/-- under a strict total order on its elements the sort output is ascending -/
theorem sortStable_sorted (less : α → α → Bool) (l : List α) (h : StrictTotalOnList less l) :
    (sortStable less l).Pairwise (fun a b => less a b = true) := by
  simp only [sortStable, List.pairwise_reverse]
  exact foldl_insertBack_desc less l h.trans l [] (fun _ ha => ha) (by simp) List.Pairwise.nil
    (by simpa using h.total)

theorem StrictTotalOnList.perm {less : α → α → Bool} {l1 l2 : List α}
    (h : StrictTotalOnList less l1) (hp : l1.Perm l2) : StrictTotalOnList less l2 := by
  refine ⟨?_, ?_, ?_⟩
  · intro a ha; exact h.irrefl a (hp.mem_iff.mpr ha)
  · intro a ha b hb c hc
    exact h.trans a (hp.mem_iff.mpr ha) b (hp.mem_iff.mpr hb) c (hp.mem_iff.mpr hc)
  · exact (List.Perm.pairwise_iff (fun h => h.symm) hp).mp h.total

/-- The iteration order depends only on the multiset of members: two
permutations of one list sort to the same list. -/
theorem sortStable_eq_of_perm (less : α → α → Bool) {l1 l2 : List α} (hp : l1.Perm l2)
    (h : StrictTotalOnList less l1) : sortStable less l1 = sortStable less l2 := by
  have h2 := h.perm hp
  have s1 := sortStable_sorted less l1 h
  have s2 := sortStable_sorted less l2 h2
  have hpp : (sortStable less l1).Perm (sortStable less l2) :=
    (sortStable_perm less l1).trans (hp.trans (sortStable_perm less l2).symm)
  refine List.Perm.eq_of_pairwise ?_ s1 s2 hpp
  intro a b ha hb hab hba
  have ha' : a ∈ l1 := (mem_sortStable less l1 a).mp ha
  have hb' : b ∈ l1 := hp.mem_iff.mpr ((mem_sortStable less l2 b).mp hb)
  have := h.trans a ha' b hb' a ha' hab hba
  rw [h.irrefl a ha'] at this
  cases this

end SetImpl
end CtyModel
