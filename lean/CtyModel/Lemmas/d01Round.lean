/-
Rounding to nearest (ties to even) at a fixed precision is MONOTONE and commutes
with scaling by powers of two.  `rndV m p` is the value of the mantissa `m` after
the rounding step of the big.Float model (`Num.roundME`): the nearest natural
number with at most `p` significant bits.

Used by C01 for interval arithmetic on refined unknown numbers: a corner of the
result range and the concrete result are both "exact result, then one rounding"; if
the two roundings happen at the same precision, the order of the exact results is
the order of the rounded ones — whether or not anything is rounded.
-/
import CtyModel.Lemmas.NumRound
namespace CtyModel
namespace Num

/-- the rounded mantissa as a plain number: `q' · 2^k` -/
def rndV (m p : Nat) : Nat := (roundME m 0 p).1 * 2 ^ (roundME m 0 p).2.toNat

theorem roundME_exp (m : Nat) (e : Int) (p : Nat) (hp : 0 < p) :
    roundME m e p = ((roundME m 0 p).1, e + (roundME m 0 p).2) := by
  unfold roundME
  have hp' : p ≠ 0 := by omega
  simp only [hp', if_false]
  split <;> simp

theorem bitlen_lt (m : Nat) : m < 2 ^ bitlen m := (bitlen_le_iff m (bitlen m)).mp (Nat.le_refl _)

theorem bitlen_pos {m : Nat} (h : m ≠ 0) : 0 < bitlen m := by
  unfold bitlen; simp [h]

theorem bitlen_ge {m : Nat} (h : m ≠ 0) : 2 ^ (bitlen m - 1) ≤ m := by
  have hp := bitlen_pos h
  apply Nat.le_of_not_lt
  intro hlt
  have := (bitlen_le_iff m (bitlen m - 1)).mpr hlt
  omega

theorem bitlen_mono {m n : Nat} (h : m ≤ n) : bitlen m ≤ bitlen n :=
  (bitlen_le_iff m (bitlen n)).mpr (Nat.lt_of_le_of_lt h (bitlen_lt n))

theorem bitlen_unique {m b : Nat} (hb : 0 < b) (h1 : 2 ^ (b - 1) ≤ m) (h2 : m < 2 ^ b) : bitlen m = b := by
  have a : bitlen m ≤ b := (bitlen_le_iff m b).mpr h2
  have c : ¬ bitlen m ≤ b - 1 := fun hc => by
    have := (bitlen_le_iff m (b - 1)).mp hc
    omega
  omega

/-- the rounding decision -/
def rup (q r half : Nat) : Bool := decide (r > half ∨ (r = half ∧ q % 2 = 1))

theorem rndV_fits {m p : Nat} (hp : 0 < p) (h : bitlen m ≤ p) : rndV m p = m := by
  unfold rndV roundME
  have hp' : p ≠ 0 := by omega
  simp [hp', h]

theorem rndV_eq {m p : Nat} (hp : 0 < p) (h : ¬ bitlen m ≤ p) :
    rndV m p = (if rup (m / 2 ^ (bitlen m - p)) (m % 2 ^ (bitlen m - p)) (2 ^ (bitlen m - p - 1)) then m / 2 ^ (bitlen m - p) + 1
      else m / 2 ^ (bitlen m - p)) * 2 ^ (bitlen m - p) := by
  unfold rndV roundME
  have hp' : p ≠ 0 := by omega
  simp only [hp', if_false, h, Nat.shiftRight_eq_div_pow, rup]
  simp only [Int.zero_add, Int.toNat_natCast, decide_eq_true_eq]

/-- the quotient that is kept has exactly `p` bits -/
theorem keep_bounds {m p : Nat} (hp : 0 < p) (h : ¬ bitlen m ≤ p) :
    2 ^ (p - 1) ≤ m / 2 ^ (bitlen m - p) ∧ m / 2 ^ (bitlen m - p) < 2 ^ p := by
  have hm : m ≠ 0 := by
    intro h0; subst h0; simp [bitlen] at h
  have h1 := bitlen_ge hm
  have h2 := bitlen_lt m
  generalize hk : bitlen m - p = k at *
  have hb : bitlen m = p + k := by omega
  rw [hb] at h1 h2
  constructor
  · rw [Nat.le_div_iff_mul_le (Nat.two_pow_pos k), ← Nat.pow_add]
    have : p - 1 + k = p + k - 1 := by omega
    rw [this]; exact h1
  · rw [Nat.div_lt_iff_lt_mul (Nat.two_pow_pos k), ← Nat.pow_add]; exact h2

/-- a rounded number keeps its binary order of magnitude (or is the next power of two) -/
theorem rndV_bounds {m p : Nat} (hp : 0 < p) (hm : m ≠ 0) :
    2 ^ (bitlen m - 1) ≤ rndV m p ∧ rndV m p ≤ 2 ^ bitlen m := by
  by_cases h : bitlen m ≤ p
  · rw [rndV_fits hp h]; exact ⟨bitlen_ge hm, Nat.le_of_lt (bitlen_lt m)⟩
  · rw [rndV_eq hp h]
    obtain ⟨k1, k2⟩ := keep_bounds hp h
    generalize hk : bitlen m - p = k at *
    have hb : bitlen m = p + k := by omega
    generalize m / 2 ^ k = q at *
    have e1 : 2 ^ (bitlen m - 1) = 2 ^ (p - 1) * 2 ^ k := by
      rw [← Nat.pow_add]; congr 1; omega
    have e2 : 2 ^ bitlen m = 2 ^ p * 2 ^ k := by rw [← Nat.pow_add, hb]
    rw [e1, e2]
    split
    · exact ⟨Nat.mul_le_mul_right _ (by omega), Nat.mul_le_mul_right _ (by omega)⟩
    · exact ⟨Nat.mul_le_mul_right _ k1, Nat.mul_le_mul_right _ (by omega)⟩

theorem rndV_zero (p : Nat) : rndV 0 p = 0 := by
  unfold rndV roundME
  by_cases hp : p = 0 <;> simp [hp, bitlen]

/-- rounding is monotone -/
theorem rndV_mono {m n p : Nat} (hp : 0 < p) (h : m ≤ n) : rndV m p ≤ rndV n p := by
  by_cases hm : m = 0
  · subst hm; rw [rndV_zero]; exact Nat.zero_le _
  have hn : n ≠ 0 := by omega
  have hbl := bitlen_mono h
  by_cases hlt : bitlen m < bitlen n
  · -- different orders of magnitude
    have a := (rndV_bounds hp hm).2
    have b := (rndV_bounds hp hn).1
    have c : 2 ^ bitlen m ≤ 2 ^ (bitlen n - 1) := Nat.pow_le_pow_right (by decide) (by omega)
    omega
  · have hbe : bitlen m = bitlen n := by omega
    by_cases hf : bitlen m ≤ p
    · rw [rndV_fits hp hf, rndV_fits hp (hbe ▸ hf)]; exact h
    · have hf' : ¬ bitlen n ≤ p := hbe ▸ hf
      rw [rndV_eq hp hf, rndV_eq hp hf', ← hbe]
      generalize hk : bitlen m - p = k
      have hk0 : 0 < k := by omega
      have hqm := Nat.div_add_mod m (2 ^ k)
      have hqn := Nat.div_add_mod n (2 ^ k)
      have hrm := Nat.mod_lt m (Nat.two_pow_pos k)
      have hrn := Nat.mod_lt n (Nat.two_pow_pos k)
      have hq : m / 2 ^ k ≤ n / 2 ^ k := Nat.div_le_div_right h
      generalize m / 2 ^ k = qm at *
      generalize n / 2 ^ k = qn at *
      generalize m % 2 ^ k = rm at *
      generalize n % 2 ^ k = rn at *
      by_cases hqq : qm < qn
      · have : (qm + 1) * 2 ^ k ≤ qn * 2 ^ k := Nat.mul_le_mul_right _ hqq
        have up : (if rup qm rm (2 ^ (k - 1)) then qm + 1 else qm) ≤ qm + 1 := by split <;> omega
        have dn : qn ≤ (if rup qn rn (2 ^ (k - 1)) then qn + 1 else qn) := by split <;> omega
        exact Nat.le_trans (Nat.mul_le_mul_right _ up) (Nat.le_trans this (Nat.mul_le_mul_right _ dn))
      · have hqe : qm = qn := by omega
        subst hqe
        have hr : rm ≤ rn := by omega
        apply Nat.mul_le_mul_right
        unfold rup
        by_cases hu : rm > 2 ^ (k - 1) ∨ (rm = 2 ^ (k - 1) ∧ qm % 2 = 1)
        · have hu' : rn > 2 ^ (k - 1) ∨ (rn = 2 ^ (k - 1) ∧ qm % 2 = 1) := by
            rcases hu with hu | ⟨hu1, hu2⟩
            · exact .inl (by omega)
            · by_cases hx : rn = 2 ^ (k - 1)
              · exact .inr ⟨hx, hu2⟩
              · exact .inl (by omega)
          simp [hu, hu']
        · simp only [hu, decide_false, Bool.false_eq_true, if_false]
          split <;> omega

theorem bitlen_double {m : Nat} (hm : m ≠ 0) : bitlen (2 * m) = bitlen m + 1 := by
  apply bitlen_unique (by omega)
  · have := bitlen_ge hm
    have hp := bitlen_pos hm
    have : 2 ^ (bitlen m + 1 - 1) = 2 * 2 ^ (bitlen m - 1) := by
      rw [← Nat.pow_succ']; congr 1; omega
    omega
  · have := bitlen_lt m
    rw [Nat.pow_succ]; omega

/-- rounding commutes with doubling -/
theorem rndV_double {m p : Nat} (hp : 0 < p) : rndV (2 * m) p = 2 * rndV m p := by
  by_cases hm : m = 0
  · subst hm; simp [rndV_zero]
  have hb := bitlen_double hm
  by_cases hf : bitlen m ≤ p
  · rw [rndV_fits hp hf]
    by_cases hf2 : bitlen (2 * m) ≤ p
    · rw [rndV_fits hp hf2]
    · -- m has exactly p bits: one bit is dropped, and it is a zero
      rw [rndV_eq hp hf2, hb]
      have hk : bitlen m + 1 - p = 1 := by omega
      rw [hk]
      have h1 : 2 * m / 2 ^ 1 = m := by simp
      have h2 : 2 * m % 2 ^ 1 = 0 := by simp
      rw [h1, h2]
      simp [rup]; omega
  · have hf2 : ¬ bitlen (2 * m) ≤ p := by omega
    rw [rndV_eq hp hf, rndV_eq hp hf2, hb]
    generalize hk : bitlen m - p = k
    have hk0 : 0 < k := by omega
    have hk2 : bitlen m + 1 - p = k + 1 := by omega
    rw [hk2]
    have hpow : 2 ^ (k + 1) = 2 * 2 ^ k := by rw [Nat.pow_succ]; omega
    have hq : 2 * m / 2 ^ (k + 1) = m / 2 ^ k := by
      rw [hpow]; exact Nat.mul_div_mul_left _ _ (by decide)
    have hr : 2 * m % 2 ^ (k + 1) = 2 * (m % 2 ^ k) := by
      rw [hpow]; exact Nat.mul_mod_mul_left _ _ _
    have hh : 2 ^ (k + 1 - 1) = 2 * 2 ^ (k - 1) := by
      rw [← Nat.pow_succ']; congr 1; omega
    rw [hq, hr, hh]
    have hru : rup (m / 2 ^ k) (2 * (m % 2 ^ k)) (2 * 2 ^ (k - 1)) = rup (m / 2 ^ k) (m % 2 ^ k) (2 ^ (k - 1)) := by
      unfold rup
      congr 1
      apply propext
      constructor
      · rintro (h | ⟨h1, h2⟩)
        · exact .inl (by omega)
        · exact .inr ⟨by omega, h2⟩
      · rintro (h | ⟨h1, h2⟩)
        · exact .inl (by omega)
        · exact .inr ⟨by omega, h2⟩
    rw [hru, hpow]
    generalize (if rup (m / 2 ^ k) (m % 2 ^ k) (2 ^ (k - 1)) = true then m / 2 ^ k + 1 else m / 2 ^ k) = Q
    rw [Nat.mul_left_comm]

/-- rounding commutes with scaling by a power of two -/
theorem rndV_scale {m p : Nat} (hp : 0 < p) (j : Nat) : rndV (m * 2 ^ j) p = rndV m p * 2 ^ j := by
  induction j with
  | zero => simp
  | succ j ih =>
    have : m * 2 ^ (j + 1) = 2 * (m * 2 ^ j) := by rw [Nat.pow_succ]; simp [Nat.mul_comm, Nat.mul_left_comm]
    rw [this, rndV_double hp, ih, Nat.pow_succ, Nat.mul_left_comm, Nat.mul_comm 2]

end Num
end CtyModel
