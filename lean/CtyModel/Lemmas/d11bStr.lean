/-
C11 totality obligations (slice d11b) for the string functions of `D11b.glueTable`
(`cty.StringVal ∘ library`): upper, lower, reverse (of a string), title, trimspace, chomp, trim,
trimprefix, trimsuffix, replace, regexreplace, split, indent, substr — for EVERY library `L`
(no law of the library is used: whatever strings `strings.ToUpper`, `norm.NFC`, the grapheme
scanner … return, the cty layer around them adds no panic and returns a conforming non-null value).
-/
import CtyModel.Lemmas.d11bNum
namespace CtyModel
namespace D11b
open Fn Value Stdlib
variable {nfc : String → Bool}

theorem str_arg' {p : Param} {a : Value} (ha : ImplArgOK nfc p a) (hty : p.ty = .string)
    (hu : p.allowUnknown = false) (hn : p.allowNull = false) (hm : p.allowMarked = false) : ∃ x, a = strVal x := by
  obtain ⟨hk, hnn⟩ := arg_known_nonnull ha hu hn
  have hd := not_dyn_of_known_nonnull ha.wf hk hnn
  have ht : a.ty = .string := conform_string_inv (hty ▸ ha.conf hd)
  exact wf_string_shape ha.wf (isMarked_of_clean (ha.mark hm)) hk hnn ht

@[simp] theorem asString_strVal' (s : String) : StdNum.asString (strVal s) = .ok s := rfl

theorem implGood_strv (f : String → String) (s : String) : ImplGood .string (.ok (StdNum.stringVal f s)) :=
  implGood_known rfl rfl rfl rfl (fun _ h => by cases h) rfl

theorem fromCtyInt_num' (x : Num) : (∃ i, StdNum.fromCtyInt (numVal x) = .ok i) ∨ ∃ c, StdNum.fromCtyInt (numVal x) = .err c := by
  show (∃ i, Gocty.fromNumInt x 64 = .ok i) ∨ ∃ c, Gocty.fromNumInt x 64 = .err c
  rw [fromNumInt_64]
  cases Gocty.int64Exact x with
  | none => exact .inr ⟨_, rfl⟩
  | some i => exact .inl ⟨i, rfl⟩

section
variable (L : StdNum.Lib)

theorem good_str1 {p : Param} (hp : p = pStr ∨ p = pStrD) (g : String → String)
    {f : List Value → Res Value} (hf : ∀ s, f [strVal s] = .ok (StdNum.stringVal L.nfc (g s)))
    {as : List Value} {rt : Ty} (h : ImplArgsOK nfc (spec1 p) as) (ht : staticTf .string as = .ok rt) :
    ImplGood rt (implOf f as rt) := by
  cases ht
  obtain ⟨a, rfl, ha⟩ := args_inv1 h
  obtain ⟨s, rfl⟩ : ∃ s, a = strVal s := by
    rcases hp with rfl | rfl <;> exact str_arg' ha rfl rfl rfl rfl
  simp only [implOf, hf]
  exact implGood_strv _ _

theorem good_str2 (g : String → String → String)
    {f : List Value → Res Value} (hf : ∀ s t, f [strVal s, strVal t] = .ok (StdNum.stringVal L.nfc (g s t)))
    {as : List Value} {rt : Ty} (h : ImplArgsOK nfc (spec2 pStr pStr) as) (ht : staticTf .string as = .ok rt) :
    ImplGood rt (implOf f as rt) := by
  cases ht
  obtain ⟨a, b, rfl, ha, hb⟩ := args_inv2 h
  obtain ⟨s, rfl⟩ := str_arg' ha rfl rfl rfl rfl
  obtain ⟨t, rfl⟩ := str_arg' hb rfl rfl rfl rfl
  simp only [implOf, hf]
  exact implGood_strv _ _

theorem good_replace {as : List Value} {rt : Ty} (h : ImplArgsOK nfc (spec3 pStr pStr pStr) as)
    (ht : staticTf .string as = .ok rt) : ImplGood rt (implOf (StdNum.replaceImpl L) as rt) := by
  cases ht
  obtain ⟨a, b, c, rfl, ha, hb, hc⟩ := args_inv3 h
  obtain ⟨s, rfl⟩ := str_arg' ha rfl rfl rfl rfl
  obtain ⟨t, rfl⟩ := str_arg' hb rfl rfl rfl rfl
  obtain ⟨u, rfl⟩ := str_arg' hc rfl rfl rfl rfl
  exact implGood_strv _ _

theorem good_regexreplace {as : List Value} {rt : Ty} (h : ImplArgsOK nfc (spec3 pStr pStr pStr) as)
    (ht : staticTf .string as = .ok rt) : ImplGood rt (implOf (StdNum.regexReplaceImpl L) as rt) := by
  cases ht
  obtain ⟨a, b, c, rfl, ha, hb, hc⟩ := args_inv3 h
  obtain ⟨s, rfl⟩ := str_arg' ha rfl rfl rfl rfl
  obtain ⟨t, rfl⟩ := str_arg' hb rfl rfl rfl rfl
  obtain ⟨u, rfl⟩ := str_arg' hc rfl rfl rfl rfl
  simp only [implOf, StdNum.regexReplaceImpl, StdNum.arg, List.getElem?_cons_zero, List.getElem?_cons_succ,
    Res.bind_ok, asString_strVal']
  cases L.regexCompile t with
  | none => exact implGood_err _ _
  | some _ => exact implGood_strv _ _

theorem good_split {as : List Value} {rt : Ty} (h : ImplArgsOK nfc (spec2 pStr pStr) as)
    (ht : staticTf (.list .string) as = .ok rt) : ImplGood rt (implOf (StdNum.splitImpl L) as rt) := by
  cases ht
  obtain ⟨a, b, rfl, ha, hb⟩ := args_inv2 h
  obtain ⟨s, rfl⟩ := str_arg' ha rfl rfl rfl rfl
  obtain ⟨t, rfl⟩ := str_arg' hb rfl rfl rfl rfl
  exact implGood_seq (by decide) rfl

theorem good_indent {as : List Value} {rt : Ty} (h : ImplArgsOK nfc (spec2 pNum pStr) as)
    (ht : staticTf .string as = .ok rt) : ImplGood rt (implOf (StdNum.indentImpl L.nfc) as rt) := by
  cases ht
  obtain ⟨a, b, rfl, ha, hb⟩ := args_inv2 h
  obtain ⟨x, rfl⟩ := num_arg' ha rfl rfl rfl rfl
  obtain ⟨t, rfl⟩ := str_arg' hb rfl rfl rfl rfl
  simp only [implOf, StdNum.indentImpl, StdNum.arg, List.getElem?_cons_zero, List.getElem?_cons_succ, Res.bind_ok]
  rcases fromCtyInt_num' x with ⟨i, hi⟩ | ⟨c, hc⟩
  · simp only [hi, Res.bind_ok, asString_strVal', Res.pure_eq]
    split
    · exact implGood_err _ _
    · split
      · exact implGood_strv _ _
      · split
        · exact implGood_err _ _
        · exact implGood_strv _ _
  · rw [hc]; exact implGood_err _ _

theorem good_substr {as : List Value} {rt : Ty} (h : ImplArgsOK nfc (spec3 pStrD pNumD pNumD) as)
    (ht : staticTf .string as = .ok rt) : ImplGood rt (implOf (StdNum.substrImpl L.nfc L.clusters) as rt) := by
  cases ht
  obtain ⟨a, b, c, rfl, ha, hb, hc⟩ := args_inv3 h
  obtain ⟨s, rfl⟩ := str_arg' ha rfl rfl rfl rfl
  obtain ⟨x, rfl⟩ := num_arg' hb rfl rfl rfl rfl
  obtain ⟨y, rfl⟩ := num_arg' hc rfl rfl rfl rfl
  simp only [implOf, StdNum.substrImpl, StdNum.arg, List.getElem?_cons_zero, List.getElem?_cons_succ, Res.bind_ok,
    asString_strVal']
  rcases fromCtyInt_num' x with ⟨i, hi⟩ | ⟨c, hc⟩
  · rcases fromCtyInt_num' y with ⟨j, hj⟩ | ⟨c, hc⟩
    · simp only [hi, hj, Res.bind_ok, Res.pure_eq]
      exact implGood_strv _ _
    · simp only [hi, hc, Res.bind_ok]; exact implGood_err _ _
  · rw [hc]; exact implGood_err _ _

end

theorem callTotal_mk' {spec : Spec} {T : Ty} {f : List Value → Res Value} (hr : spec.refine = none)
    (hg : ∀ as rt, ImplArgsOK nfc spec as → staticTf T as = .ok rt → ImplGood rt (implOf f as rt)) :
    CallTotal nfc (mk spec T f) := fun _ args hargs =>
  call_total_of_good' spec (staticTf T) (implOf f) hr (fun as w _ => static_total T as w)
    (fun as rt h ht => (hg as rt h ht).toPrime) args hargs

theorem good_timeadd (L : StdNum.Lib) {as : List Value} {rt : Ty} (h : ImplArgsOK nfc (spec2n pStr pStr) as)
    (ht : staticTf .string as = .ok rt) : ImplGood rt (implOf (StdNum.timeAddImpl L) as rt) := by
  cases ht
  obtain ⟨a, b, rfl, ha, hb⟩ := args_inv2 h
  obtain ⟨s, rfl⟩ := str_arg' ha rfl rfl rfl rfl
  obtain ⟨t, rfl⟩ := str_arg' hb rfl rfl rfl rfl
  simp only [implOf, StdNum.timeAddImpl, StdNum.arg, List.getElem?_cons_zero, List.getElem?_cons_succ,
    Res.bind_ok, asString_strVal']
  split
  · exact implGood_err _ _
  · split
    · exact implGood_err _ _
    · exact implGood_strv _ _

/-- **every function of `D11b.glueTable` is total, for every library** -/
theorem callTotal_glueTable : ∀ e ∈ glueTable, ∀ L : StdNum.Lib, CallTotal nfc (e.2.2.2 L) := by
  intro e he L
  simp only [glueTable, List.mem_cons, List.not_mem_nil, or_false] at he
  rcases he with rfl | rfl | rfl | rfl | rfl | rfl | rfl | rfl | rfl | rfl | rfl | rfl | rfl | rfl | rfl
  · exact callTotal_mk rfl fun _ _ => good_str1 L (.inr rfl) L.toUpper (fun _ => rfl)
  · exact callTotal_mk rfl fun _ _ => good_str1 L (.inr rfl) L.toLower (fun _ => rfl)
  · exact callTotal_mk rfl fun _ _ => good_str1 L (.inr rfl)
      (fun s => String.join (StdNum.reverseLoop (L.clusters s) [])) (fun _ => rfl)
  · exact callTotal_mk rfl fun _ _ => good_str1 L (.inl rfl) L.title (fun _ => rfl)
  · exact callTotal_mk rfl fun _ _ => good_str1 L (.inl rfl) L.trimSpace (fun _ => rfl)
  · exact callTotal_mk rfl fun _ _ => good_str1 L (.inl rfl)
      (fun s => String.ofList (StdNum.chompChars s.toList)) (fun _ => rfl)
  · exact callTotal_mk rfl fun _ _ => good_str2 L L.trim (fun _ _ => rfl)
  · exact callTotal_mk rfl fun _ _ => good_str2 L L.trimPrefix (fun _ _ => rfl)
  · exact callTotal_mk rfl fun _ _ => good_str2 L L.trimSuffix (fun _ _ => rfl)
  · exact callTotal_mk rfl fun _ _ => good_replace L
  · exact callTotal_mk rfl fun _ _ => good_regexreplace L
  · exact callTotal_mk rfl fun _ _ => good_split L
  · exact callTotal_mk rfl fun _ _ => good_indent L
  · exact callTotal_mk rfl fun _ _ => good_substr L
  · exact callTotal_mk' rfl fun _ _ => good_timeadd L

/-- their `Type` callback is the constant one of the static type the SOURCE declares -/
theorem glueTable_static : ∀ e ∈ glueTable, ∃ T, Std.staticTy? e.2.2.1 = some T ∧ ∀ L E as, (e.2.2.2 L).tf E as = .ok T := by
  intro e he
  simp only [glueTable, List.mem_cons, List.not_mem_nil, or_false] at he
  rcases he with rfl | rfl | rfl | rfl | rfl | rfl | rfl | rfl | rfl | rfl | rfl | rfl | rfl | rfl | rfl <;>
    exact ⟨_, rfl, fun _ _ _ => rfl⟩


/-! ### `log`, `pow`: total whatever the math library answers -/

theorem fromCtyFloat_num (v : Num) : (∃ z, StdNum.fromCtyFloat (numVal v) = .ok z) ∨ (∃ c, StdNum.fromCtyFloat (numVal v) = .err c) := by
  simp only [StdNum.fromCtyFloat, numVal, Gocty.fromNumFloat]
  split <;> simp

theorem good_log (lib : Num → Num → StdNum.F64) {as : List Value} {rt : Ty} (h : ImplArgsOK nfc (spec2 pNum pNum) as)
    (ht : staticTf .number as = .ok rt) : ImplGood rt (implOf (StdNum.logImpl lib) as rt) := by
  cases ht
  obtain ⟨a, b, rfl, ha, hb⟩ := args_inv2 h
  obtain ⟨x, rfl⟩ := num_arg' ha rfl rfl rfl rfl
  obtain ⟨y, rfl⟩ := num_arg' hb rfl rfl rfl rfl
  simp only [implOf, StdNum.logImpl, StdNum.arg, List.getElem?_cons_zero, List.getElem?_cons_succ, Res.bind_ok]
  rcases fromCtyFloat_num x with ⟨u, hu⟩ | ⟨c, hc⟩
  · rcases fromCtyFloat_num y with ⟨v, hv⟩ | ⟨c, hc⟩
    · simp only [hu, hv, Res.bind_ok]
      cases lib u v with
      | nan => exact implGood_err _ _
      | num r => exact implGood_num r
    · simp only [hu, hc, Res.bind_ok]; exact implGood_err _ _
  · rw [hc]; exact implGood_err _ _

theorem good_pow (lib : Num → Num → StdNum.F64) {as : List Value} {rt : Ty} (h : ImplArgsOK nfc (spec2 pNum pNum) as)
    (ht : staticTf .number as = .ok rt) : ImplGood rt (implOf (StdNum.powImpl lib) as rt) := by
  cases ht
  obtain ⟨a, b, rfl, ha, hb⟩ := args_inv2 h
  obtain ⟨x, rfl⟩ := num_arg' ha rfl rfl rfl rfl
  obtain ⟨y, rfl⟩ := num_arg' hb rfl rfl rfl rfl
  simp only [implOf, StdNum.powImpl, StdNum.arg, List.getElem?_cons_zero, List.getElem?_cons_succ, Res.bind_ok]
  rcases fromCtyFloat_num x with ⟨u, hu⟩ | ⟨c, hc⟩
  · rcases fromCtyFloat_num y with ⟨v, hv⟩ | ⟨c, hc⟩
    · simp only [hu, hv, Res.bind_ok]
      cases lib u v with
      | nan => exact implGood_err _ _
      | num r => exact implGood_num r
    · simp only [hu, hc, Res.bind_ok]; exact implGood_err _ _
  · rw [hc]; exact implGood_err _ _

theorem callTotal_mathTable : ∀ e ∈ mathTable, ∀ lib : Num → Num → StdNum.F64, CallTotal nfc (e.2.2 lib) := by
  intro e he lib
  simp only [mathTable, List.mem_cons, List.not_mem_nil, or_false] at he
  rcases he with rfl | rfl
  · exact callTotal_mk rfl fun _ _ => good_log lib
  · exact callTotal_mk rfl fun _ _ => good_pow lib

end D11b
end CtyModel
