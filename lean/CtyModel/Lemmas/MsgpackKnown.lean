/-
For a wholly known original, `Approx` (acceptable decoding) is `RawEq` (equal in
every part), and the decoding is wholly known too.
-/
import CtyModel.Lemmas.MsgpackRT
namespace CtyModel
namespace Msgpack

mutual
theorem approx_rawEq : ∀ (p' : Payload) (t : Ty) (p : Payload), p.whollyKnown = true → Approx t p' p → RawEq t p' p
  | .unk _, t, p, hk, h => by
    cases p <;> simp_all [Approx, Payload.whollyKnown]
  | .null, t, p, _, h => by cases p <;> simp_all [Approx, RawEq]
  | .b _, t, p, _, h => by cases t <;> cases p <;> simp_all [Approx, RawEq]
  | .n _, t, p, _, h => by cases t <;> cases p <;> simp_all [Approx, RawEq]
  | .s _, t, p, _, h => by cases t <;> cases p <;> simp_all [Approx, RawEq]
  | .seq xs, t, p, hk, h => by
    cases t <;> cases p <;> simp only [Approx] at h <;> try exact h.elim
    case list.seq e ys =>
      simp only [RawEq]
      exact approx_rawEqAll xs e ys (by simpa [Payload.whollyKnown] using hk) h
    case tuple.seq es ys =>
      simp only [RawEq]
      exact approx_rawEqZip xs es ys (by simpa [Payload.whollyKnown] using hk) h
  | .sset _ xs, t, p, hk, h => by
    cases t <;> cases p <;> simp only [Approx] at h <;> try exact h.elim
    case set.sset e _ ys =>
      simp only [RawEq]
      exact approx_rawEqAll xs e ys (by simpa [Payload.whollyKnown] using hk) h
  | .smap ks xs, t, p, hk, h => by
    cases t <;> cases p <;> simp only [Approx] at h <;> try exact h.elim
    case map.smap e ls ys =>
      simp only [RawEq]
      exact ⟨h.1, approx_rawEqAll xs e ys (by simpa [Payload.whollyKnown] using hk) h.2⟩
    case object.smap ns ts os ls ys =>
      simp only [RawEq]
      exact ⟨h.1, approx_rawEqZip xs ts ys (by simpa [Payload.whollyKnown] using hk) h.2⟩
  | .caps, _, _, _, h => by simp [Approx] at h
  | .marked _ _, _, _, _, h => by simp [Approx] at h
  | .bad _, _, _, _, h => by simp [Approx] at h
theorem approx_rawEqAll : ∀ (xs : List Payload) (e : Ty) (ys : List Payload), Payload.whollyKnownL ys = true →
    ApproxAll e xs ys → RawEqAll e xs ys
  | [], _, ys, _, h => by simpa [ApproxAll, RawEqAll] using h
  | x :: xs, e, ys, hk, h => by
    cases ys with
    | nil => simp [ApproxAll] at h
    | cons y ys =>
      simp only [ApproxAll] at h
      simp only [Payload.whollyKnownL, Bool.and_eq_true] at hk
      simp only [RawEqAll]
      exact ⟨approx_rawEq x e y hk.1 h.1, approx_rawEqAll xs e ys hk.2 h.2⟩
theorem approx_rawEqZip : ∀ (xs : List Payload) (ts : List Ty) (ys : List Payload), Payload.whollyKnownL ys = true →
    ApproxZip ts xs ys → RawEqZip ts xs ys
  | [], _, ys, _, h => by simpa [ApproxZip, RawEqZip] using h
  | x :: xs, ts, ys, hk, h => by
    cases ts with
    | nil => simp [ApproxZip] at h
    | cons t ts =>
      cases ys with
      | nil => simp [ApproxZip] at h
      | cons y ys =>
        simp only [ApproxZip] at h
        simp only [Payload.whollyKnownL, Bool.and_eq_true] at hk
        simp only [RawEqZip]
        exact ⟨approx_rawEq x t y hk.1 h.1, approx_rawEqZip xs ts ys hk.2 h.2⟩
end

/-! ### tools for the counterexamples of `Props/C16.lean` -/

/-- the external functions of the witnesses: identity normalisation, no oracle answers -/
def E0 : Ext := ⟨id, fun _ => none, fun _ vs => .ok (.sset [] vs)⟩

/-- run the round trip and test the decoded value -/
def rtCheck (E : Ext) (v : Value) (t : Ty) (chk : Value → Bool) : Bool :=
  match marshal E v t with
  | .ok it =>
    (match Unmarshal E it t with
     | .ok v' => chk v'
     | _ => false)
  | _ => false

theorem rtCheck_of {E : Ext} {v : Value} {t : Ty} {chk : Value → Bool} {P : Value → Prop}
    (h : ∃ it v', marshal E v t = .ok it ∧ Unmarshal E it t = .ok v' ∧ P v') (hP : ∀ v', P v' → chk v' = true) :
    rtCheck E v t chk = true := by
  obtain ⟨it, v', hm, hu, hp⟩ := h
  simp [rtCheck, hm, hu, hP v' hp]

theorem noSets {E : Ext} {v : Value} (h : setNodes v.ty v.v = []) : SetsRebuild E v := by
  intro n hn; rw [h] at hn; cases hn

end Msgpack
end CtyModel
