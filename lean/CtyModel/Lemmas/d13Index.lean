/-
`index` on its full documented domain: lists and tuples with ANY known number as
key (negative, fractional, beyond `int`, infinite), maps with a string key.
-/
import CtyModel.Lemmas.StdlibCall
namespace CtyModel
namespace Stdlib
open Value

set_option linter.unusedSimpArgs false in
/-- `HasIndexFunc.Call(c, k)` on known, non-null, mark-free arguments of non-dynamic
type is what the `Impl` callback answers (a known bool passes the call protocol
unchanged) -/
theorem hasIndex_call_known (c k : Value) (b : Bool)
    (hnc : c.isNull = false) (hnk : k.isNull = false) (hkc : c.isKnown = true) (hkk : k.isKnown = true)
    (hcc : c.containsMarked = false) (hck : k.containsMarked = false)
    (hmc : c.marksDeep = []) (hmk : k.marksDeep = [])
    (hdc : c.ty.isDyn = false) (hdk : k.ty.isDyn = false)
    (hty : hasIndexType [c, k] = .ok .bool)
    (himpl : hasIndexImpl [c, k] .bool = .ok (boolVal b)) :
    (Fn.call hasIndexSpec hasIndexType hasIndexImpl [c, k]).1 = .ok (boolVal b) := by
  have hcd : ∀ t, Ty.conformErrs .dyn t = 0 := fun t => by simp [Ty.conformErrs]
  have hcb : Ty.conformErrs .bool .bool = 0 := by decide
  simp only [Fn.call, Fn.returnTypeForValues, Fn.pass1, hasIndexSpec, List.length_cons, List.length_nil,
    bne_self_eq_false, Bool.false_eq_true, if_false, Fn.checkLoop, Fn.Param.check, hnc, hnk, Bool.false_and,
    hdc, hdk, hcd, Fn.Param.typeArg, hcc, hck, hty, Fn.callBody, List.take, List.drop, Fn.pass2, Fn.Param.callArg,
    hmc, hmk, Fn.Param.blocksUnknown, hkc, hkk, himpl, List.append_nil, List.nil_append, Bool.not_false,
    Bool.not_true, Bool.or_self, Nat.lt_irrefl, decide_false, List.length_nil, Fn.deferredRefine,
    Fn.refineWith, bne_iff_ne, ne_eq, not_true_eq_false, if_true, ite_self, List.cons_append, gt_iff_lt]
  have hbt : ∀ b, (boolVal b).ty = .bool := fun _ => rfl
  have hbk : ∀ b, (boolVal b).isKnown = true := fun _ => rfl
  have hbu : ∀ b, (boolVal b).unmark = boolVal b := fun _ => rfl
  have hbm : ∀ b, (boolVal b).marks = [] := fun _ => rfl
  simp only [hbt, hcb, not_true_eq_false, if_false, hbk, Bool.true_or, if_true, hbu, hbm, refineNN_bool]
  simp [boolVal, hcb, Value.isKnown, Payload.isKnown, Payload.unmark1, Value.unmark, Value.marks, Payload.marks1,
    Value.withMarks, Payload.withMarks, unionMarks]

/-- the position a number denotes as a list / tuple key: `some i` iff it is the whole
number `i` with `0 ≤ i ≤ maxInt` (Go: `key.v.(*big.Float).Int64()` exact, then `>= 0`) -/
def Spec.natIndex? (x : Num) : Option Nat :=
  match x.toInt? with
  | some i => if i < 0 || i > maxInt then none else some i.toNat
  | none => none

theorem keyIndex_num (x : Num) : keyIndex (numVal x) = .ok (Spec.natIndex? x) := by
  simp only [keyIndex, numVal, Spec.natIndex?]
  cases x.toInt? <;> rfl

theorem seq_facts (t : Ty) (vs : List Payload) (hm : Payload.containsMarkedL vs = false) :
    (⟨t, .seq vs⟩ : Value).isNull = false ∧ (⟨t, .seq vs⟩ : Value).isKnown = true ∧
    (⟨t, .seq vs⟩ : Value).containsMarked = false ∧ (⟨t, .seq vs⟩ : Value).marksDeep = [] ∧
    (⟨t, .seq vs⟩ : Value).isMarked = false :=
  ⟨rfl, rfl, by simp [Value.containsMarked, Payload.containsMarked, hm],
   by simp [Value.marksDeep, Payload.marksDeep, Payload.marksDeepL_of_not_containsMarkedL vs hm], rfl⟩

theorem num_facts (x : Num) :
    (numVal x).isNull = false ∧ (numVal x).isKnown = true ∧ (numVal x).containsMarked = false ∧
    (numVal x).marksDeep = [] ∧ (numVal x).ty.isDyn = false ∧ (numVal x).isMarked = false ∧
    (numVal x).ty.isNumber = true :=
  ⟨rfl, rfl, rfl, rfl, rfl, rfl, rfl⟩

theorem boolTrue_boolVal (b : Bool) : boolTrue (boolVal b) = .ok b := by cases b <;> rfl

/-- **index(list, x)** for ANY known number `x`: the member at position `i` when `x` is
the whole number `i` and `0 ≤ i < len`; in every other case — negative, fractional,
beyond `int`, infinite, out of range — the error "invalid index" (never a panic) -/
theorem indexImpl_list_num (e : Ty) (vs : List Payload) (x : Num)
    (hm : Payload.containsMarkedL vs = false) (retTy : Ty) :
    indexImpl [⟨.list e, .seq vs⟩, numVal x] retTy =
      match (Spec.natIndex? x).bind (vs[·]?) with
      | some p => .ok ⟨e, p⟩
      | none => .err "invalid index" := by
  obtain ⟨c1, c2, c3, c4, c5⟩ := seq_facts (.list e) vs hm
  have hld : (Ty.list e).isDyn = false := rfl
  obtain ⟨k1, k2, k3, k4, k5, k6, k7⟩ := num_facts x
  have himpl : hasIndexImpl [⟨.list e, .seq vs⟩, numVal x] .bool =
      .ok (boolVal (match Spec.natIndex? x with | some i => decide (i < vs.length) | none => false)) := by
    simp only [hasIndexImpl, Value.hasIndex, binMarks, c5, k6, Bool.or_self, Bool.false_eq_true, if_false, hasIndexU,
      hld, k5, k7, Bool.not_true, k2, c2, keyIndex_num]
    cases Spec.natIndex? x <;> rfl
  have hcall := hasIndex_call_known _ _ _ c1 k1 c2 k2 c3 k3 c4 k4 rfl k5 rfl himpl
  simp only [indexImpl, hcall, boolTrue_boolVal]
  cases hi : Spec.natIndex? x with
  | none => rfl
  | some i =>
    simp only [Option.bind_some]
    by_cases hlt : i < vs.length
    · simp only [hlt, decide_true, Value.index, binMarks, c5, k6, Bool.or_self, Bool.false_eq_true, if_false, indexU,
        hld, k5, k7, Bool.not_true, k2, c2, keyIndex_num, hi]
      have : vs[i]? = some vs[i] := List.getElem?_eq_getElem hlt
      simp [this, bind, Res.bind]
    · have : vs[i]? = none := by simp; omega
      simp [hlt, this]

/-- **index(tuple, x)**: the member AND its type at position `i`; the same error otherwise -/
theorem indexImpl_tuple_num (ts : List Ty) (vs : List Payload) (x : Num) (hl : ts.length = vs.length)
    (hm : Payload.containsMarkedL vs = false) (retTy : Ty) :
    indexImpl [⟨.tuple ts, .seq vs⟩, numVal x] retTy =
      match (Spec.natIndex? x).bind (fun i => (ts[i]?).bind fun t => (vs[i]?).map fun p => (⟨t, p⟩ : Value)) with
      | some v => .ok v
      | none => .err "invalid index" := by
  obtain ⟨c1, c2, c3, c4, c5⟩ := seq_facts (.tuple ts) vs hm
  have hld : (Ty.tuple ts).isDyn = false := rfl
  obtain ⟨k1, k2, k3, k4, k5, k6, k7⟩ := num_facts x
  have himpl : hasIndexImpl [⟨.tuple ts, .seq vs⟩, numVal x] .bool =
      .ok (boolVal (match Spec.natIndex? x with | some i => decide (i < ts.length) | none => false)) := by
    simp only [hasIndexImpl, Value.hasIndex, binMarks, c5, k6, Bool.or_self, Bool.false_eq_true, if_false, hasIndexU,
      hld, k5, k7, Bool.not_true, k2, keyIndex_num]
    cases Spec.natIndex? x <;> rfl
  have hcall := hasIndex_call_known _ _ _ c1 k1 c2 k2 c3 k3 c4 k4 rfl k5 rfl himpl
  simp only [indexImpl, hcall, boolTrue_boolVal]
  cases hi : Spec.natIndex? x with
  | none => rfl
  | some i =>
    simp only [Option.bind_some]
    by_cases hlt : i < ts.length
    · have hlv : i < vs.length := hl ▸ hlt
      simp only [hlt, decide_true, Value.index, binMarks, c5, k6, Bool.or_self, Bool.false_eq_true, if_false, indexU,
        hld, k5, k7, Bool.not_true, k2, c2, keyIndex_num, hi]
      have h1 : ts[i]? = some ts[i] := List.getElem?_eq_getElem hlt
      have h2 : vs[i]? = some vs[i] := List.getElem?_eq_getElem hlv
      simp [h1, h2, bind, Res.bind]
    · have : ts[i]? = none := by simp; omega
      simp [hlt, this]

/-- **index(map, key)**: the element under the key when the key is present, the error
"invalid index" when it is not -/
theorem indexImpl_map_str (e : Ty) (ks : List String) (vs : List Payload) (k : String)
    (hm : Payload.containsMarkedL vs = false) (retTy : Ty) :
    indexImpl [⟨.map e, .smap ks vs⟩, strVal k] retTy =
      if ks.contains k then .ok ⟨e, (lookupKey k ks vs).getD .null⟩ else .err "invalid index" := by
  have c1 : (⟨.map e, .smap ks vs⟩ : Value).isNull = false := rfl
  have c2 : (⟨.map e, .smap ks vs⟩ : Value).isKnown = true := rfl
  have c3 : (⟨.map e, .smap ks vs⟩ : Value).containsMarked = false := by
    simp [Value.containsMarked, Payload.containsMarked, hm]
  have c4 : (⟨.map e, .smap ks vs⟩ : Value).marksDeep = [] := by
    simp [Value.marksDeep, Payload.marksDeep, Payload.marksDeepL_of_not_containsMarkedL vs hm]
  have c5 : (⟨.map e, .smap ks vs⟩ : Value).isMarked = false := rfl
  have himpl : hasIndexImpl [⟨.map e, .smap ks vs⟩, strVal k] .bool = .ok (boolVal (ks.contains k)) := by
    simp [hasIndexImpl, Value.hasIndex, binMarks, Value.isMarked, Payload.isMarked, strVal, hasIndexU, Ty.isDyn,
      Ty.isString, Value.isKnown, Payload.isKnown, Payload.unmark1]
  have hcall := hasIndex_call_known ⟨.map e, .smap ks vs⟩ (strVal k) _ c1 rfl c2 rfl c3 rfl c4 rfl rfl rfl rfl himpl
  simp only [indexImpl, hcall, boolTrue_boolVal]
  cases hc : ks.contains k with
  | false => rfl
  | true =>
    simp only [if_true]
    simp [Value.index, binMarks, Value.isMarked, Payload.isMarked, strVal, indexU, Ty.isDyn,
      Ty.isString, Value.isKnown, Payload.isKnown, Payload.unmark1]

/-- a key of the wrong type is refused by the `Type` callback (so `index` never reaches
`Impl`), and so is a collection that is not a list, map or tuple -/
theorem indexType_domain (c key : Value) :
    (isListTy c.ty = false → isTupleTy c.ty = false → isMapTy c.ty = false → Fails (indexType [c, key])) ∧
    (isListTy c.ty = true → key.ty.isNumber = false → key.ty.isDyn = false → Fails (indexType [c, key])) ∧
    (isTupleTy c.ty = true → key.ty.isNumber = false → key.ty.isDyn = false → Fails (indexType [c, key])) ∧
    (isMapTy c.ty = true → key.ty.isString = false → key.ty.isDyn = false → Fails (indexType [c, key])) := by
  obtain ⟨t, p⟩ := c
  refine ⟨?_, ?_, ?_, ?_⟩ <;> cases t <;>
    simp_all [indexType, isListTy, isTupleTy, isMapTy, Fails]

end Stdlib
end CtyModel
