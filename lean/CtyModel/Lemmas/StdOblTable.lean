/-
The bridge from the regenerated tables (`Generated.stdlibSyntax`, `Generated.stdlibSpecs`) to the
`Type` callbacks the C11/C12 theorems use: `staticTy?` interprets the Go type expressions found
as arguments of `function.StaticReturnType`, `modelName?` names the C13 model of a function,
`tfOf` picks the callback of a table entry.  (Definitions live here, outside the `C11` namespace,
so that their auto-generated equation lemmas are not counted as property theorems.)
-/
import CtyModel.Lemmas.StdOblType
namespace CtyModel
namespace Std
open Fn

/-- `function.StaticReturnType(T)` -/
def constTf (T : Ty) : TypeFn := fun _ => .ok T

/-- the Go type expressions that occur as arguments of `function.StaticReturnType` in
cty/function/stdlib (`Bytes` is the package's capsule type; its identity is the number the
harness assigns — the one `Generated.stdlibSpecs` shows for `BytesLenFunc`'s parameter) -/
def staticTy? : String → Option Ty
  | "cty.Bool" => some .bool
  | "cty.Number" => some .number
  | "cty.String" => some .string
  | "cty.List(cty.String)" => some (.list .string)
  | "cty.List(cty.Number)" => some (.list .number)
  | "Bytes" => some (.capsule 3)
  | _ => none

/-- every static return type of the regenerated table is recognised (a new expression in the
source makes this theorem fail: the tie breaks closed) -/
theorem static_types_recognised :
    ∀ sy ∈ Generated.stdlibSyntax, ∀ e, sy.staticType = some e → (staticTy? e).isSome = true := by
  decide

/-- … and `Bytes` is the capsule type of the `bytes*` functions' parameters -/
theorem bytes_capsule_is_parameter_type :
    ((Std.find? "BytesLenFunc").bind (·.params.head?)).map (·.ty.equals (.capsule 3)) = some true := by decide

theorem staticTy_wf (e : String) (T : Ty) (h : staticTy? e = some T) : Ty.wf T = true := by
  unfold staticTy? at h
  split at h <;> cases h <;> rfl

/-- the name under which the C13 model table (`Stdlib.byName`) has the function -/
def modelName? : String → Option String
  | "LengthFunc" => some "length" | "HasIndexFunc" => some "hasindex" | "IndexFunc" => some "index"
  | "ElementFunc" => some "element" | "CoalesceListFunc" => some "coalescelist" | "CoalesceFunc" => some "coalesce"
  | "CompactFunc" => some "compact" | "ContainsFunc" => some "contains" | "DistinctFunc" => some "distinct"
  | "ChunklistFunc" => some "chunklist" | "FlattenFunc" => some "flatten" | "KeysFunc" => some "keys"
  | "ValuesFunc" => some "values" | "LookupFunc" => some "lookup" | "MergeFunc" => some "merge"
  | "ReverseListFunc" => some "reverse" | "SliceFunc" => some "slice" | "ZipmapFunc" => some "zipmap"
  | "SortFunc" => some "sort" | "SetProductFunc" => some "setproduct" | "ConcatFunc" => some "concat"
  | "RangeFunc" => some "range" | "SetHasElementFunc" => some "sethaselement" | "SetUnionFunc" => some "setunion"
  | "SetIntersectionFunc" => some "setintersection" | "SetSubtractFunc" => some "setsubtract"
  | "SetSymmetricDifferenceFunc" => some "setsymmetricdifference"
  | _ => none

/-- the `Type` callback of a table entry: constant for a static entry, the model for a modelled
dynamic entry -/
def tfOf (E : Stdlib.Env) (sy : Generated.StdSyntax) : Option TypeFn :=
  match sy.staticType with
  | some e => (staticTy? e).map constTf
  | none => (modelName? sy.var).bind fun n => (Stdlib.byName n).map (·.tf E)

/-- every statically typed entry has a callback, and it is the constant one of its declared type -/
theorem tfOf_static (E : Stdlib.Env) (sy : Generated.StdSyntax) (hsy : sy ∈ Generated.stdlibSyntax) (e : String)
    (he : sy.staticType = some e) : ∃ T, staticTy? e = some T ∧ tfOf E sy = some (constTf T) := by
  have h := static_types_recognised sy hsy e he
  cases hT : staticTy? e with
  | none => rw [hT] at h; cases h
  | some T => exact ⟨T, rfl, by simp [tfOf, he, hT]⟩

/-- the model table agrees with the syntax table on which functions are static: where the source
says `StaticReturnType(e)` and C13 models the function, the model's `Type` callback IS that constant -/
theorem model_static_callbacks_agree (E : Stdlib.Env) :
    ∀ sy ∈ Generated.stdlibSyntax, ∀ e T n f, sy.staticType = some e → staticTy? e = some T →
      modelName? sy.var = some n → Stdlib.byName n = some f → f.tf E = constTf T := by
  intro sy hsy e T n f he hT hn hf
  simp only [Generated.stdlibSyntax, List.mem_cons, List.mem_nil_iff, or_false] at hsy
  rcases hsy with h | h | h | h | h | h | h | h | h | h | h | h | h | h | h | h | h | h | h | h | h | h | h | h | h |
    h | h | h | h | h | h | h | h | h | h | h | h | h | h | h | h | h | h | h | h | h | h | h | h | h | h | h | h | h |
    h | h | h | h | h | h | h | h | h | h | h | h | h | h | h | h | h | h | h | h | h | h | h | h | h | h <;>
    subst h <;> simp only [Option.some.injEq, reduceCtorEq] at he <;>
    first
    | (simp [modelName?] at hn; done)
    | (subst he; simp only [staticTy?, Option.some.injEq] at hT; subst hT
       simp only [modelName?, Option.some.injEq] at hn; subst hn
       simp only [Stdlib.byName, Option.some.injEq] at hf; subst hf; rfl)


/-- the functions whose `Type` callback is NOT monotone (recorded findings) -/
def typeMonoExceptions : List String :=
  ["MergeFunc", "SetUnionFunc", "SetIntersectionFunc", "SetSubtractFunc", "SetSymmetricDifferenceFunc"]

end Std
end CtyModel
