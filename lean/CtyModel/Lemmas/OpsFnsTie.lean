/-
The REGENERATED-MODEL tie for the operation methods of cty/value_ops.go: the
definitions that `extract/translate_ops.go` regenerates from go-cty's source on
every check (`Generated/OpsFns.lean`) compute exactly what the hand-written
transliteration layer (`CtyModel/Ops.lean`, `Ops2.lean`) computes — same value,
same `Res.panic` — for ALL operands, under the one well-formedness hypothesis the
hand-written layer builds in: an operand carries at most one marker layer
(`Single`; `Value.unmark` removes one layer, Go's `Unmark` removes the only one).

Every C02 / C04 theorem about `Value.not`, `and`, `or`, `neg`, `abs`, `add`, `sub`,
`mul`, `div`, `mod`, `lessThan`, `greaterThan`, `lessThanOrEqualTo`,
`greaterThanOrEqualTo` therefore holds of the translated source text
(`Props/C02.lean`, `…_generated`).  A refactoring of the Go code inside the
translated fragment that preserves the meaning usually still goes through; a
change of meaning (or of the hand-written model) makes this file fail to build.
-/
import CtyModel.Generated.OpsFns
import CtyModel.Lemmas.MarksOps
set_option linter.unusedSimpArgs false
set_option linter.unusedVariables false
namespace CtyModel
namespace OpsFnsTie
open Value Generated.OpsFns

/-- at most one marker layer: what `Unmark` answers is not marked -/
def Single (a : Value) : Prop := a.unmark.isMarked = false

theorem single_of_unmarked {a : Value} (h : a.isMarked = false) : Single a := by
  unfold Single Value.unmark Value.isMarked at *
  cases a with
  | mk t p => cases p <;> simp_all [Payload.unmark1, Payload.isMarked]

theorem single_boolVal (x : Bool) : Single (boolVal x) := rfl
theorem single_numVal (x : Num) : Single (numVal x) := rfl

@[simp] theorem rbind_ok {β γ} (a : β) (f : β → Res γ) : Res.bind (.ok a) f = f a := rfl
@[simp] theorem rbind_err {β γ} (c : String) (f : β → Res γ) : Res.bind (.err c) f = .err c := rfl
@[simp] theorem rbind_panic {β γ} (c : String) (f : β → Res γ) : Res.bind (.panic c) f = .panic c := rfl
@[simp] theorem rbind_unmodelled {β γ} (f : β → Res γ) : Res.bind (.unmodelled) f = .unmodelled := rfl
@[simp] theorem mbind_eq {β γ} (r : Res β) (f : β → Res γ) : (r >>= f) = Res.bind r f := rfl
@[simp] theorem rmap_ok {β γ} (a : β) (f : β → γ) : Res.map f (.ok a) = .ok (f a) := rfl
@[simp] theorem rmap_err {β γ} (c : String) (f : β → γ) : Res.map f (.err c : Res β) = .err c := rfl
@[simp] theorem rmap_panic {β γ} (c : String) (f : β → γ) : Res.map f (.panic c : Res β) = .panic c := rfl
@[simp] theorem rmap_unmodelled {β γ} (f : β → γ) : Res.map f (.unmodelled : Res β) = .unmodelled := rfl

/-! ### helper.go: `mustTypeCheck`, `forceShortCircuitType` -/

/-- what the hand-written classification `Value.typeCheck` means for the pair Go's `typeCheck` returns -/
def tcSpec (ret : Ty) : Res TC → Res (Option Value × Option String)
  | .ok .none => .ok (none, none)
  | .ok .dynamic => .ok (some dynVal, none)
  | .ok .unknown => .ok (some (unknown ret), none)
  | .panic w => .ok (none, some w)
  | .err e => .err e
  | .unmodelled => .unmodelled

theorem or_isUnk (hu u : Bool) : (if u = true then true else hu) = (hu || u) := by cases hu <;> cases u <;> rfl

/-- the loop of the translated `typeCheck` is the hand-written `typeCheckAux` -/
theorem typeCheck_loop_eq (req ret : Ty) (vals : List Value) : ∀ (vs : List Value) (hd hu : Bool),
    typeCheck_loop1 req ret vals hd hu vs = tcSpec ret (Value.typeCheckAux req vs hd hu)
  | [], hd, hu => by cases hd <;> cases hu <;> rfl
  | v :: vs, hd, hu => by
    rw [typeCheck_loop1, Value.typeCheckAux]
    by_cases h1 : v.ty.isDyn = true
    · simp only [h1, if_true]
      exact typeCheck_loop_eq req ret vals vs true hu
    · by_cases h2 : v.ty.equals req = true
      · simp only [h1, h2, Bool.not_true, Bool.false_eq_true, if_false]
        rw [or_isUnk]
        exact typeCheck_loop_eq req ret vals vs hd (hu || v.isUnk)
      · simp [h1, h2, tcSpec, OpsGo.errorf]

/-- `typeCheck`, translated, is the hand-written `Value.typeCheck` (an error is its panic) -/
theorem typeCheck_eq (req ret : Ty) (vs : List Value) : typeCheck req ret vs = tcSpec ret (Value.typeCheck req vs) :=
  typeCheck_loop_eq req ret vs vs false false

/-- the translated `mustTypeCheck` answers the short-circuit pointer that the hand-written
`typeCheck` classifies, and panics where it reports a mismatch -/
theorem mustTypeCheck_eq (req ret : Ty) (vs : List Value) :
    mustTypeCheck req ret vs =
      (match Value.typeCheck req vs with
       | .ok .none => .ok none
       | .ok .dynamic => .ok (some dynVal)
       | .ok .unknown => .ok (some (unknown ret))
       | .panic w => .panic w
       | .err e => .err e
       | .unmodelled => .unmodelled) := by
  unfold mustTypeCheck
  rw [typeCheck_eq]
  cases Value.typeCheck req vs with
  | ok tc => cases tc <;> rfl
  | err e => rfl
  | panic w => rfl
  | unmodelled => rfl

/-- `forceShortCircuitType`, translated: what it answers for every pointer and type -/
theorem force_eq (sc : Option Value) (ty : Ty) :
    forceShortCircuitType sc ty =
      (match sc with
       | none => .ok none
       | some v => if v.ty.isDyn then .ok (some (unknown ty))
                   else if !(v.ty.equals ty) then .panic "forceShortCircuitType got value of wrong type" else .ok (some v)) := by
  cases sc <;> simp [forceShortCircuitType, OpsGo.deref]

theorem force_dyn (ty : Ty) : forceShortCircuitType (some dynVal) ty = .ok (some (unknown ty)) := rfl
theorem force_bool : forceShortCircuitType (some (unknown .bool)) .bool = .ok (some (unknown .bool)) := by
  simp [forceShortCircuitType, OpsGo.deref, unknown, Ty.isDyn, Ty.equals]
theorem force_number : forceShortCircuitType (some (unknown .number)) .number = .ok (some (unknown .number)) := by
  simp [forceShortCircuitType, OpsGo.deref, unknown, Ty.isDyn, Ty.equals]

/-- what follows a successful `mustTypeCheck` in every method: `if shortCircuit != nil { S } K` -/
theorem after_typeCheck {β} (req ret : Ty) (vs : List Value) (S : Option Value → Res β) (K : Res β) :
    (Res.bind (mustTypeCheck req ret vs) fun sc => if (!(Option.isNone sc)) then S sc else K) =
      (match Value.typeCheck req vs with
       | .ok .none => K
       | .ok .dynamic => S (some dynVal)
       | .ok .unknown => S (some (unknown ret))
       | .panic w => .panic w
       | .err e => .err e
       | .unmodelled => .unmodelled) := by
  rw [mustTypeCheck_eq]
  cases Value.typeCheck req vs with
  | ok tc => cases tc <;> rfl
  | err e => rfl
  | panic w => rfl
  | unmodelled => rfl

/-- the common tail `shortCircuit = forceShortCircuitType(shortCircuit, Bool); return (*shortCircuit).RefineNotNull()` -/
theorem tail_bool_dyn : (Res.bind (forceShortCircuitType (some dynVal) .bool) fun p =>
    Res.bind (OpsGo.deref p) fun d => OpsGo.refineNotNull d) = .ok unkBool := rfl
theorem tail_bool_unk : (Res.bind (forceShortCircuitType (some (unknown .bool)) .bool) fun p =>
    Res.bind (OpsGo.deref p) fun d => OpsGo.refineNotNull d) = .ok unkBool := by
  rw [force_bool]; rfl
theorem tail_num_dyn : (Res.bind (forceShortCircuitType (some dynVal) .number) fun p =>
    Res.bind (OpsGo.deref p) fun d => OpsGo.refineNotNull d) = .ok unkNumNotNull := rfl
theorem tail_num_unk : (Res.bind (forceShortCircuitType (some (unknown .number)) .number) fun p =>
    Res.bind (OpsGo.deref p) fun d => OpsGo.refineNotNull d) = .ok unkNumNotNull := by
  rw [force_number]; rfl

/-! ### the marks prologue -/

theorem unary_tie (f : Nat → Value → Res Value) (g : Value → Res Value)
    (hu : ∀ n v, v.isMarked = false → f (n + 1) v = g v)
    (hm : ∀ n v, v.isMarked = true → f (n + 1) v = Res.bind (f n v.unmark) fun x => .ok (x.withMarks v.marks))
    (n : Nat) (a : Value) (ha : Single a) : f (n + 2) a = unMarks g a := by
  unfold unMarks
  cases h : a.isMarked
  · simp [hu (n + 1) a h]
  · rw [hm (n + 1) a h, hu n _ ha]
    cases g a.unmark <;> simp

theorem binary_tie (f : Nat → Value → Value → Res Value) (g : Value → Value → Res Value)
    (hu : ∀ n v w, v.isMarked = false → w.isMarked = false → f (n + 1) v w = g v w)
    (hm : ∀ n v w, (v.isMarked || w.isMarked) = true →
      f (n + 1) v w = Res.bind (f n v.unmark w.unmark) fun x => .ok (x.withMarks (unionMarks v.marks w.marks)))
    (n : Nat) (a b : Value) (ha : Single a) (hb : Single b) : f (n + 2) a b = binMarks g a b := by
  unfold binMarks
  cases h : (a.isMarked || b.isMarked)
  · have h' := h
    rw [Bool.or_eq_false_iff] at h'
    simp [hu (n + 1) a b h'.1 h'.2]
  · rw [hm (n + 1) a b h, hu n _ _ ha hb]
    cases g a.unmark b.unmark <;> simp

/-! ### Not, And, Or -/

theorem not_unmarked (n : Nat) (a : Value) (h : a.isMarked = false) : Value_Not_fuel (n + 1) a = notU a := by
  rw [Value_Not_fuel]
  simp only [OpsGo.isMarked, h, after_typeCheck, notU, mbind_eq]
  cases Value.typeCheck .bool [a] with
  | ok tc => cases tc <;> simp [tail_bool_dyn, tail_bool_unk, OpsGo.asBool] <;> (cases asBool a <;> rfl)
  | err e => rfl
  | panic w => rfl
  | unmodelled => rfl

/-- `Value.Not`, translated, is the hand-written `Value.not` -/
theorem not_fuel_eq (n : Nat) (a : Value) (ha : Single a) : Value_Not_fuel (n + 2) a = Value.not a :=
  unary_tie Value_Not_fuel notU not_unmarked
    (fun n v h => by rw [Value_Not_fuel]; simp [OpsGo.isMarked, h, OpsGo.unmark, OpsGo.withMarks, OpsGo.unionAll]) n a ha

theorem and_unmarked (n : Nat) (a b : Value) (ha : a.isMarked = false) (hb : b.isMarked = false) :
    Value_And_fuel (n + 1) a b = andU a b := by
  rw [Value_And_fuel]
  simp only [OpsGo.isMarked, ha, hb, after_typeCheck, andU, mbind_eq]
  cases Value.typeCheck .bool [a, b] with
  | ok tc =>
    cases tc <;> simp [tail_bool_dyn, tail_bool_unk, OpsGo.asBool, OpsGo.eqBoolLit]
    · cases asBool a with
      | ok x => cases x <;> simp <;> (cases asBool b <;> rfl)
      | _ => rfl
    all_goals (split <;> rfl)
  | err e => rfl
  | panic w => rfl
  | unmodelled => rfl

/-- `Value.And`, translated, is the hand-written `Value.and` -/
theorem and_fuel_eq (n : Nat) (a b : Value) (ha : Single a) (hb : Single b) : Value_And_fuel (n + 2) a b = Value.and a b :=
  binary_tie Value_And_fuel andU and_unmarked
    (fun n v w h => by rw [Value_And_fuel]; simp [OpsGo.isMarked, h, OpsGo.unmark, OpsGo.withMarks, OpsGo.unionAll]) n a b ha hb

theorem or_unmarked (n : Nat) (a b : Value) (ha : a.isMarked = false) (hb : b.isMarked = false) :
    Value_Or_fuel (n + 1) a b = orU a b := by
  rw [Value_Or_fuel]
  simp only [OpsGo.isMarked, ha, hb, after_typeCheck, orU, mbind_eq]
  cases Value.typeCheck .bool [a, b] with
  | ok tc =>
    cases tc <;> simp [tail_bool_dyn, tail_bool_unk, OpsGo.asBool, OpsGo.eqBoolLit]
    · cases asBool a with
      | ok x => cases x <;> simp <;> (cases asBool b <;> rfl)
      | _ => rfl
    all_goals (split <;> rfl)
  | err e => rfl
  | panic w => rfl
  | unmodelled => rfl

/-- `Value.Or`, translated, is the hand-written `Value.or` -/
theorem or_fuel_eq (n : Nat) (a b : Value) (ha : Single a) (hb : Single b) : Value_Or_fuel (n + 2) a b = Value.or a b :=
  binary_tie Value_Or_fuel orU or_unmarked
    (fun n v w h => by rw [Value_Or_fuel]; simp [OpsGo.isMarked, h, OpsGo.unmark, OpsGo.withMarks, OpsGo.unionAll]) n a b ha hb

/-! ### Negate, Absolute, Divide -/

theorem float_neg_new (x : Num) : OpsGo.Float.neg OpsGo.Float.new x = Num.neg x := rfl
theorem float_abs_new (x : Num) : OpsGo.Float.abs OpsGo.Float.new x = Num.abs x := rfl
theorem float_add_new (x y : Num) : OpsGo.Float.add OpsGo.Float.new x y = Num.add x y := rfl
theorem float_quo_new (x y : Num) : OpsGo.Float.quo OpsGo.Float.new x y = Num.quo x y := rfl

theorem neg_unmarked (n : Nat) (a : Value) (h : a.isMarked = false) : Value_Negate_fuel (n + 1) a = negU a := by
  rw [Value_Negate_fuel]
  simp only [OpsGo.isMarked, h, after_typeCheck, negU, mbind_eq]
  cases Value.typeCheck .number [a] with
  | ok tc => cases tc <;> simp [tail_num_dyn, tail_num_unk, OpsGo.asFloat, float_neg_new] <;> (cases asNum a <;> rfl)
  | err e => rfl
  | panic w => rfl
  | unmodelled => rfl

/-- `Value.Negate`, translated, is the hand-written `Value.neg` -/
theorem neg_fuel_eq (n : Nat) (a : Value) (ha : Single a) : Value_Negate_fuel (n + 2) a = Value.neg a :=
  unary_tie Value_Negate_fuel negU neg_unmarked
    (fun n v h => by rw [Value_Negate_fuel]; simp [OpsGo.isMarked, h, OpsGo.unmark, OpsGo.withMarks, OpsGo.unionAll]) n a ha

theorem abs_tail_dyn : (Res.bind (forceShortCircuitType (some dynVal) .number) fun p =>
    Res.bind (OpsGo.deref p) fun d => Res.bind (OpsGo.refine d) fun b0 => Res.bind (OpsGo.Builder.notNull' b0) fun b1 =>
    Res.bind (OpsGo.Builder.numberRangeInclusive b1 zeroVal (unknown .number)) fun b2 => OpsGo.Builder.newValue b2) =
    .ok ⟨.number, .unk (.num .f (some ⟨.fin false 0 0 53, true⟩) none)⟩ := rfl
theorem abs_tail_unk : (Res.bind (forceShortCircuitType (some (unknown .number)) .number) fun p =>
    Res.bind (OpsGo.deref p) fun d => Res.bind (OpsGo.refine d) fun b0 => Res.bind (OpsGo.Builder.notNull' b0) fun b1 =>
    Res.bind (OpsGo.Builder.numberRangeInclusive b1 zeroVal (unknown .number)) fun b2 => OpsGo.Builder.newValue b2) =
    .ok ⟨.number, .unk (.num .f (some ⟨.fin false 0 0 53, true⟩) none)⟩ := by
  rw [force_number]; rfl

theorem abs_unmarked (n : Nat) (a : Value) (h : a.isMarked = false) : Value_Absolute_fuel (n + 1) a = absU a := by
  rw [Value_Absolute_fuel]
  simp only [OpsGo.isMarked, h, after_typeCheck, absU, mbind_eq]
  cases Value.typeCheck .number [a] with
  | ok tc => cases tc <;> simp [abs_tail_dyn, abs_tail_unk, OpsGo.asFloat, float_abs_new] <;> (cases asNum a <;> rfl)
  | err e => rfl
  | panic w => rfl
  | unmodelled => rfl

/-- `Value.Absolute`, translated, is the hand-written `Value.abs` -/
theorem abs_fuel_eq (n : Nat) (a : Value) (ha : Single a) : Value_Absolute_fuel (n + 2) a = Value.abs a :=
  unary_tie Value_Absolute_fuel absU abs_unmarked
    (fun n v h => by rw [Value_Absolute_fuel]; simp [OpsGo.isMarked, h, OpsGo.unmark, OpsGo.withMarks, OpsGo.unionAll]) n a ha

theorem div_unmarked (n : Nat) (a b : Value) (ha : a.isMarked = false) (hb : b.isMarked = false) :
    Value_Divide_fuel (n + 1) a b = divU a b := by
  rw [Value_Divide_fuel]
  simp only [OpsGo.isMarked, ha, hb, after_typeCheck, divU, mbind_eq]
  cases Value.typeCheck .number [a, b] with
  | ok tc =>
    cases tc <;> simp [tail_num_dyn, tail_num_unk, OpsGo.asFloat, float_quo_new]
  | err e => rfl
  | panic w => rfl
  | unmodelled => rfl

/-- `Value.Divide`, translated, is the hand-written `Value.div` -/
theorem div_fuel_eq (n : Nat) (a b : Value) (ha : Single a) (hb : Single b) : Value_Divide_fuel (n + 2) a b = Value.div a b :=
  binary_tie Value_Divide_fuel divU div_unmarked
    (fun n v w h => by rw [Value_Divide_fuel]; simp [OpsGo.isMarked, h, OpsGo.unmark, OpsGo.withMarks, OpsGo.unionAll]) n a b ha hb

/-! ### Add, Subtract, Multiply: range arithmetic on the short circuit -/

theorem refine_tail (lo hi : Option Num) :
    (Res.bind (OpsGo.refineWith (unknown .number) ⟨lo, hi⟩) OpsGo.refineNotNull) = .ok (numRangeResult lo hi) := by
  cases lo <;> cases hi <;> rfl

/-- `shortCircuit.RefineWith(numericRangeArithmetic(Value.M, val.Range(), other.Range())).RefineNotNull()` is the
hand-written `rangeArithC` with the corner analysis of `M` -/
theorem range_arith_tie (m : OpsGo.Method) (a b : Value) :
    (Res.bind (OpsGo.range a) fun ra => Res.bind (OpsGo.range b) fun rb =>
      Res.bind (OpsGo.numericRangeArithmetic m ra rb) fun r =>
      Res.bind (OpsGo.refineWith (unknown .number) r) fun x => OpsGo.refineNotNull x) = rangeArithC m.corner a b := by
  unfold rangeArithC OpsGo.numericRangeArithmetic OpsGo.range
  simp only [mbind_eq, Res.pure_eq]
  cases a.range <;> simp
  cases b.range <;> simp
  rename_i ra rb
  cases ra.numLower <;> simp
  cases ra.numUpper <;> simp
  cases rb.numLower <;> simp
  cases rb.numUpper <;> simp
  exact refine_tail _ _

theorem arith_tail_dyn (m : OpsGo.Method) (a b : Value) :
    (Res.bind (forceShortCircuitType (some dynVal) .number) fun p => Res.bind (OpsGo.deref p) fun d =>
      Res.bind (OpsGo.range a) fun ra => Res.bind (OpsGo.range b) fun rb =>
      Res.bind (OpsGo.numericRangeArithmetic m ra rb) fun r =>
      Res.bind (OpsGo.refineWith d r) fun x => OpsGo.refineNotNull x) = rangeArithC m.corner a b := by
  rw [force_dyn]; exact range_arith_tie m a b
theorem arith_tail_unk (m : OpsGo.Method) (a b : Value) :
    (Res.bind (forceShortCircuitType (some (unknown .number)) .number) fun p => Res.bind (OpsGo.deref p) fun d =>
      Res.bind (OpsGo.range a) fun ra => Res.bind (OpsGo.range b) fun rb =>
      Res.bind (OpsGo.numericRangeArithmetic m ra rb) fun r =>
      Res.bind (OpsGo.refineWith d r) fun x => OpsGo.refineNotNull x) = rangeArithC m.corner a b := by
  rw [force_number]; exact range_arith_tie m a b

theorem add_unmarked (n : Nat) (a b : Value) (ha : a.isMarked = false) (hb : b.isMarked = false) :
    Value_Add_fuel (n + 1) a b = addU a b := by
  rw [Value_Add_fuel]
  simp only [OpsGo.isMarked, ha, hb, after_typeCheck, addU, mbind_eq]
  cases Value.typeCheck .number [a, b] with
  | ok tc =>
    cases tc <;> simp [arith_tail_dyn, arith_tail_unk, OpsGo.asFloat, float_add_new, rangeArith, OpsGo.Method.corner]
  | err e => rfl
  | panic w => rfl
  | unmodelled => rfl

/-- `Value.Add`, translated, is the hand-written `Value.add` -/
theorem add_fuel_eq (n : Nat) (a b : Value) (ha : Single a) (hb : Single b) : Value_Add_fuel (n + 2) a b = Value.add a b :=
  binary_tie Value_Add_fuel addU add_unmarked
    (fun n v w h => by rw [Value_Add_fuel]; simp [OpsGo.isMarked, h, OpsGo.unmark, OpsGo.withMarks, OpsGo.unionAll]) n a b ha hb

/-! ### what a passed type check says about the operands -/

/-- an operand that `typeCheck` lets through as a known value of the required type -/
def Plain (req : Ty) (v : Value) : Prop := v.ty.isDyn = false ∧ v.ty.equals req = true ∧ v.isUnk = false

theorem tc1_none {req : Ty} {a : Value} : Value.typeCheck req [a] = .ok .none ↔ Plain req a := by
  unfold Plain
  cases h1 : a.ty.isDyn <;> cases h2 : a.ty.equals req <;> cases h3 : a.isUnk <;>
    simp [Value.typeCheck, Value.typeCheckAux, h1, h2, h3]

theorem tc2_none {req : Ty} {a b : Value} : Value.typeCheck req [a, b] = .ok .none ↔ Plain req a ∧ Plain req b := by
  unfold Plain
  cases h1 : a.ty.isDyn <;> cases h2 : a.ty.equals req <;> cases h3 : a.isUnk <;>
    cases h4 : b.ty.isDyn <;> cases h5 : b.ty.equals req <;> cases h6 : b.isUnk <;>
    simp [Value.typeCheck, Value.typeCheckAux, h1, h2, h3, h4, h5, h6]

theorem plain_numVal (z : Num) : Plain .number (numVal z) := by
  simp [Plain, numVal, Ty.isDyn, Ty.equals, Value.isUnk]

theorem asNum_or (v : Value) : (∃ x, asNum v = .ok x) ∨ asNum v = .panic "payload is not a number" := by
  unfold asNum; split <;> simp

theorem unmarks_of (g : Value → Res Value) (a : Value) (h : a.isMarked = false) : unMarks g a = g a := by
  simp [unMarks, h]
theorem binmarks_of (g : Value → Value → Res Value) (a b : Value) (ha : a.isMarked = false) (hb : b.isMarked = false) :
    binMarks g a b = g a b := by
  simp [binMarks, ha, hb]

/-! ### Subtract: `val.Add(other.Negate())` on known operands -/

theorem sub_unmarked (n : Nat) (a b : Value) (ha : a.isMarked = false) (hb : b.isMarked = false) :
    Value_Subtract_fuel (n + 1) a b = subU a b := by
  rw [Value_Subtract_fuel]
  simp only [OpsGo.isMarked, ha, hb, after_typeCheck, subU, mbind_eq]
  cases htc : Value.typeCheck .number [a, b] with
  | ok tc =>
    cases tc <;> simp [arith_tail_dyn, arith_tail_unk, rangeArith, OpsGo.Method.corner]
    obtain ⟨pa, pb⟩ := tc2_none.mp htc
    have hneg : Value_Negate b = Res.bind (asNum b) fun y => .ok (numVal (Num.neg y)) := by
      rw [show Value_Negate b = Value_Negate_fuel 4 b from rfl, neg_fuel_eq 2 b (single_of_unmarked hb), Value.neg,
        unmarks_of _ _ hb, negU, tc1_none.mpr pb]
      simp
    have hadd : ∀ z, Value_Add a (numVal z) = Res.bind (asNum a) fun x => Res.bind (Num.add x z) fun r => .ok (numVal r) := by
      intro z
      rw [show Value_Add a (numVal z) = Value_Add_fuel 4 a (numVal z) from rfl,
        add_fuel_eq 2 a _ (single_of_unmarked ha) (single_numVal z), Value.add, binmarks_of _ _ _ ha rfl, addU,
        tc2_none.mpr ⟨pa, plain_numVal z⟩]
      simp [asNum, numVal]
    rw [hneg]
    rcases asNum_or a with ⟨x, hx⟩ | hx <;> rcases asNum_or b with ⟨y, hy⟩ | hy <;> simp [hx, hy, hadd, Num.sub]
  | err e => rfl
  | panic w => rfl
  | unmodelled => rfl

/-- `Value.Subtract`, translated, is the hand-written `Value.sub` -/
theorem sub_fuel_eq (n : Nat) (a b : Value) (ha : Single a) (hb : Single b) : Value_Subtract_fuel (n + 2) a b = Value.sub a b :=
  binary_tie Value_Subtract_fuel subU sub_unmarked
    (fun n v w h => by rw [Value_Subtract_fuel]; simp [OpsGo.isMarked, h, OpsGo.unmark, OpsGo.withMarks, OpsGo.unionAll]) n a b ha hb

/-! ### Multiply: 512-bit product, then the larger of the operand precisions and `MinPrec` -/

theorem max_ite (p q k : Nat) :
    (if (if p < q then q else p) < k then k else (if p < q then q else p)) = max (max p q) k := by
  simp only [Nat.max_def]
  (repeat' split) <;> omega

theorem mul_float (x y : Num) :
    (Res.bind (OpsGo.Float.mul (OpsGo.Float.setPrec OpsGo.Float.new 512) x y) fun r =>
      Res.ok (numVal (OpsGo.Float.setPrec r
        (if (if Num.prec x < Num.prec y then Num.prec y else Num.prec x) < Num.minPrec r then Num.minPrec r
         else (if Num.prec x < Num.prec y then Num.prec y else Num.prec x))))) =
    Res.bind (Num.mulCty x y) fun r => .ok (numVal r) := by
  have h512 : (OpsGo.Float.setPrec OpsGo.Float.new 512).prec = 512 := by decide
  simp only [OpsGo.Float.mul, h512, max_ite]
  rw [if_neg (by decide : ¬ (512 : Nat) = 0)]
  cases x with
  | inf nx =>
    cases y with
    | inf ny => simp [Num.mulP, Num.mulCty, OpsGo.Float.setPrec]
    | fin ny my ey py =>
      simp only [Num.mulP, Num.mulCty]
      by_cases hm : my = 0 <;> simp [hm, OpsGo.Float.setPrec]
  | fin nx mx ex px =>
    cases y with
    | inf ny =>
      simp only [Num.mulP, Num.mulCty]
      by_cases hm : mx = 0 <;> simp [hm, OpsGo.Float.setPrec]
    | fin ny my ey py =>
      simp only [Num.mulP, Num.mulCty, rbind_ok]
      generalize hr : Num.round (nx != ny) (mx * my) (ex + ey) 512 = r
      have hfin : ∃ n m e, r = .fin n m e 512 := by rw [← hr]; exact ⟨_, _, _, rfl⟩
      obtain ⟨n, m, e, rfl⟩ := hfin
      simp only [OpsGo.Float.setPrec]
      split
      · rfl
      · rename_i h; exact absurd (by simp only [Num.minPrec]; omega) h

theorem mul_unmarked (n : Nat) (a b : Value) (ha : a.isMarked = false) (hb : b.isMarked = false) :
    Value_Multiply_fuel (n + 1) a b = mulU a b := by
  rw [Value_Multiply_fuel]
  simp only [OpsGo.isMarked, ha, hb, after_typeCheck, mulU, mbind_eq]
  cases htc : Value.typeCheck .number [a, b] with
  | ok tc =>
    cases tc <;> simp [arith_tail_dyn, arith_tail_unk, OpsGo.Method.corner, OpsGo.rawEqualsZero]
    rcases asNum_or a with ⟨x, hx⟩ | hx <;> rcases asNum_or b with ⟨y, hy⟩ | hy <;> simp [OpsGo.asFloat, hx, hy, mul_float]
  | err e => rfl
  | panic w => rfl
  | unmodelled => rfl

/-- `Value.Multiply`, translated, is the hand-written `Value.mul` -/
theorem mul_fuel_eq (n : Nat) (a b : Value) (ha : Single a) (hb : Single b) : Value_Multiply_fuel (n + 2) a b = Value.mul a b :=
  binary_tie Value_Multiply_fuel mulU mul_unmarked
    (fun n v w h => by rw [Value_Multiply_fuel]; simp [OpsGo.isMarked, h, OpsGo.unmark, OpsGo.withMarks, OpsGo.unionAll]) n a b ha hb

/-! ### Modulo -/

theorem isNumber_of_equals {t : Ty} (h : t.equals .number = true) : t.isNumber = true := by
  cases t <;> simp_all [Ty.equals, Ty.isNumber]

theorem inf_tests (v : Value) (h : v.ty.isNumber = true) :
    (OpsGo.rawEqualsPosInf v || OpsGo.rawEqualsNegInf v) = (match v.v with | .n x => x.isInf | _ => false) := by
  simp only [OpsGo.rawEqualsPosInf, OpsGo.rawEqualsNegInf, h, Bool.true_and]
  cases v.v <;> simp
  rename_i x
  cases x with
  | fin _ _ _ _ => simp [Num.isInf]
  | inf s => cases s <;> simp [Num.isInf]

theorem setIntP_fin (q : Int) (p : Nat) : ∃ n m e pw, Num.setIntP q p = .fin n m e pw ∧ pw ≠ 0 := by
  refine ⟨_, _, _, (if p = 0 then max (Num.bitlen q.natAbs) 64 else p), rfl, ?_⟩
  split <;> omega

theorem mod_unmarked (n : Nat) (a b : Value) (ha : a.isMarked = false) (hb : b.isMarked = false) :
    Value_Modulo_fuel (n + 1) a b = modU a b := by
  rw [Value_Modulo_fuel]
  simp only [OpsGo.isMarked, ha, hb, after_typeCheck, modU, mbind_eq]
  cases htc : Value.typeCheck .number [a, b] with
  | ok tc =>
    cases tc
    case dynamic => simp [tail_num_dyn]
    case unknown => simp [tail_num_unk]
    dsimp only
    obtain ⟨pa, pb⟩ := tc2_none.mp htc
    have na := isNumber_of_equals pa.2.1
    have nb := isNumber_of_equals pb.2.1
    have hmul : Value_Multiply a b = Res.bind (asNum a) fun x => Res.bind (asNum b) fun y => Res.bind (Num.mulCty x y) fun r => .ok (numVal r) := by
      rw [show Value_Multiply a b = Value_Multiply_fuel 4 a b from rfl,
        mul_fuel_eq 2 a b (single_of_unmarked ha) (single_of_unmarked hb), Value.mul, binmarks_of _ _ _ ha hb, mulU, htc]
      simp
    have hdiv : Value_Divide a b = Res.bind (asNum a) fun x => Res.bind (asNum b) fun y => Res.bind (Num.quo x y) fun r => .ok (numVal r) := by
      rw [show Value_Divide a b = Value_Divide_fuel 4 a b from rfl,
        div_fuel_eq 2 a b (single_of_unmarked ha) (single_of_unmarked hb), Value.div, binmarks_of _ _ _ ha hb, divU, htc]
      simp
    rw [Bool.or_assoc (OpsGo.rawEqualsPosInf a || OpsGo.rawEqualsNegInf a), inf_tests a na, inf_tests b nb, hmul, hdiv]
    simp only [OpsGo.rawEqualsZero, Value.rawEqualsZero, nb, Bool.true_and]
    cases hav : a.v <;> cases hbv : b.v <;> simp [asNum, hav, hbv, OpsGo.asFloat, numVal]
    rename_i x y
    cases y with
    | inf s => simp [Num.isInf]
    | fin ny my ey py =>
      cases x with
      | inf sx => simp [Num.isInf]
      | fin nx mx ex px =>
      simp only [Num.isInf]
      simp only [Bool.or_false, Bool.false_eq_true, if_false, or_self]
      by_cases hz : (Num.fin ny my ey py).isZero = true
      · rw [if_pos hz, if_pos hz]
      rw [if_neg hz, if_neg hz]
      cases hq : Num.quo (Num.fin nx mx ex px) (Num.fin ny my ey py) <;> simp
      rename_i rat
      simp only [OpsGo.Float.int]
      cases ht : rat.truncInt <;> simp
      rename_i q
      simp only [OpsGo.Float.copy, OpsGo.Float.setInt]
      obtain ⟨nw, mw, ew, pw, hw, hpw⟩ := setIntP_fin q (Num.fin nx mx ex px).prec
      rw [hw]
      simp only [OpsGo.Float.mul, Num.prec, hpw, if_false, Num.mulP, rbind_ok]
      generalize hr : Num.round (ny != nw) (my * mw) (ey + ew) pw = r
      have hfin : ∃ n' m' e', r = .fin n' m' e' pw := by rw [← hr]; exact ⟨_, _, _, rfl⟩
      obtain ⟨n', m', e', rfl⟩ := hfin
      simp [OpsGo.Float.sub, Num.prec, hpw]
  | err e => rfl
  | panic w => rfl
  | unmodelled => rfl

/-- `Value.Modulo`, translated, is the hand-written `Value.mod` -/
theorem mod_fuel_eq (n : Nat) (a b : Value) (ha : Single a) (hb : Single b) : Value_Modulo_fuel (n + 2) a b = Value.mod a b :=
  binary_tie Value_Modulo_fuel modU mod_unmarked
    (fun n v w h => by rw [Value_Modulo_fuel]; simp [OpsGo.isMarked, h, OpsGo.unmark, OpsGo.withMarks, OpsGo.unionAll]) n a b ha hb

/-! ### LessThan, GreaterThan (mutually recursive through the range bounds) -/

theorem lt_known (n : Nat) (x y : Num) :
    Value_LessThan_fuel (n + 1) (numVal x) (numVal y) = .ok (boolVal (decide (Num.cmp x y < 0))) := by
  rw [Value_LessThan_fuel]
  simp only [OpsGo.isMarked, show (numVal x).isMarked = false from rfl, show (numVal y).isMarked = false from rfl,
    Bool.or_self, Bool.false_eq_true, if_false, after_typeCheck, tc2_none.mpr ⟨plain_numVal x, plain_numVal y⟩]
  simp [OpsGo.asFloat, asNum, numVal]

theorem gt_known (n : Nat) (x y : Num) :
    Value_GreaterThan_fuel (n + 1) (numVal x) (numVal y) = .ok (boolVal (decide (Num.cmp x y > 0))) := by
  rw [Value_GreaterThan_fuel]
  simp only [OpsGo.isMarked, show (numVal x).isMarked = false from rfl, show (numVal y).isMarked = false from rfl,
    Bool.or_self, Bool.false_eq_true, if_false, after_typeCheck, tc2_none.mpr ⟨plain_numVal x, plain_numVal y⟩]
  simp [OpsGo.asFloat, asNum, numVal]

theorem isTrue_boolVal (t : Bool) : OpsGo.isTrue (boolVal t) = .ok t := rfl
theorem isKnown_numVal (x : Num) : OpsGo.isKnown (numVal x) = true := rfl
theorem notDyn_of_isNumber {t : Ty} (h : t.isNumber = true) : t.isDyn = false := by
  cases t <;> simp_all [Ty.isNumber, Ty.isDyn]

/-- the upper / lower bound of a number range -/
def hiOf (r : VRange) : Num := match r.raw with | .num _ _ (some b) => b.v | _ => .inf false
def loOf (r : VRange) : Num := match r.raw with | .num _ (some b) _ => b.v | _ => .inf true

theorem upper_of_number (r : VRange) (h : r.ty.isNumber = true) :
    OpsGo.numberUpperBound r = .ok (numVal (hiOf r), true) := by
  obtain ⟨ty, raw⟩ := r
  have hd := notDyn_of_isNumber h
  cases raw with
  | num n lo hi => cases hi <;> simp_all [OpsGo.numberUpperBound, VRange.numUpper, OpsGo.boundValue, hiOf, loOf]
  | _ => simp_all [OpsGo.numberUpperBound, VRange.numUpper, OpsGo.boundValue, hiOf, loOf]
theorem lower_of_number (r : VRange) (h : r.ty.isNumber = true) :
    OpsGo.numberLowerBound r = .ok (numVal (loOf r), true) := by
  obtain ⟨ty, raw⟩ := r
  have hd := notDyn_of_isNumber h
  cases raw with
  | num n lo hi => cases lo <;> simp_all [OpsGo.numberLowerBound, VRange.numLower, OpsGo.boundValue, hiOf, loOf]
  | _ => simp_all [OpsGo.numberLowerBound, VRange.numLower, OpsGo.boundValue, hiOf, loOf]
theorem numUpper_of_number (r : VRange) (h : r.ty.isNumber = true) :
    r.numUpper = .ok (some (hiOf r)) := by
  obtain ⟨ty, raw⟩ := r
  have hd := notDyn_of_isNumber h
  cases raw with
  | num n lo hi => cases hi <;> simp_all [VRange.numUpper, hiOf, loOf]
  | _ => simp_all [VRange.numUpper, hiOf, loOf]
theorem numLower_of_number (r : VRange) (h : r.ty.isNumber = true) :
    r.numLower = .ok (some (loOf r)) := by
  obtain ⟨ty, raw⟩ := r
  have hd := notDyn_of_isNumber h
  cases raw with
  | num n lo hi => cases lo <;> simp_all [VRange.numLower, hiOf, loOf]
  | _ => simp_all [VRange.numLower, hiOf, loOf]

theorem lt_unmarked (n : Nat) (a b : Value) (ha : a.isMarked = false) (hb : b.isMarked = false) :
    Value_LessThan_fuel (n + 2) a b = lessThanU a b := by
  rw [Value_LessThan_fuel]
  simp only [OpsGo.isMarked, ha, hb, after_typeCheck, lessThanU, mbind_eq]
  cases htc : Value.typeCheck .number [a, b] with
  | ok tc =>
    cases tc
    case none => simp [OpsGo.asFloat]
    all_goals
      simp only [tail_bool_dyn, tail_bool_unk, rangeLess, OpsGo.range, mbind_eq, OpsGo.typeConstraint, Res.pure_eq]
      cases hra : a.range <;> simp
      cases hrb : b.range <;> simp
      rename_i ra rb
      by_cases hna : ra.ty.isNumber = true <;> simp [hna]
      by_cases hnb : rb.ty.isNumber = true <;> simp [hnb]
      simp only [upper_of_number _ hna, lower_of_number _ hnb, lower_of_number _ hna, upper_of_number _ hnb,
        numUpper_of_number _ hna, numLower_of_number _ hnb, numLower_of_number _ hna, numUpper_of_number _ hnb,
        rbind_ok, isKnown_numVal, Bool.and_self, if_true, lt_known, gt_known, isTrue_boolVal]
      simp
      split
      · simp [*]
      · split <;> simp [*]
  | err e => rfl
  | panic w => rfl
  | unmodelled => rfl

theorem gt_unmarked (n : Nat) (a b : Value) (ha : a.isMarked = false) (hb : b.isMarked = false) :
    Value_GreaterThan_fuel (n + 2) a b = greaterThanU a b := by
  rw [Value_GreaterThan_fuel]
  simp only [OpsGo.isMarked, ha, hb, after_typeCheck, greaterThanU, mbind_eq]
  cases htc : Value.typeCheck .number [a, b] with
  | ok tc =>
    cases tc
    case none => simp [OpsGo.asFloat]
    all_goals
      simp only [tail_bool_dyn, tail_bool_unk, OpsGo.range, mbind_eq, OpsGo.typeConstraint, Res.pure_eq]
      cases hra : a.range <;> simp
      cases hrb : b.range <;> simp
      rename_i ra rb
      by_cases hna : ra.ty.isNumber = true <;> simp [hna]
      by_cases hnb : rb.ty.isNumber = true <;> simp [hnb]
      simp only [upper_of_number _ hna, lower_of_number _ hnb, lower_of_number _ hna, upper_of_number _ hnb,
        numUpper_of_number _ hna, numLower_of_number _ hnb, numLower_of_number _ hna, numUpper_of_number _ hnb,
        rbind_ok, isKnown_numVal, Bool.and_self, if_true, lt_known, gt_known, isTrue_boolVal]
      simp
  | err e => rfl
  | panic w => rfl
  | unmodelled => rfl

/-- `Value.LessThan`, translated, is the hand-written `Value.lessThan` -/
theorem lt_fuel_eq (n : Nat) (a b : Value) (ha : Single a) (hb : Single b) : Value_LessThan_fuel (n + 3) a b = Value.lessThan a b :=
  binary_tie (fun k => Value_LessThan_fuel (k + 1)) lessThanU lt_unmarked
    (fun n v w h => by
      show Value_LessThan_fuel (n + 2) v w = _
      rw [Value_LessThan_fuel]; simp [OpsGo.isMarked, h, OpsGo.unmark, OpsGo.withMarks, OpsGo.unionAll]) n a b ha hb

/-- `Value.GreaterThan`, translated, is the hand-written `Value.greaterThan` -/
theorem gt_fuel_eq (n : Nat) (a b : Value) (ha : Single a) (hb : Single b) : Value_GreaterThan_fuel (n + 3) a b = Value.greaterThan a b :=
  binary_tie (fun k => Value_GreaterThan_fuel (k + 1)) greaterThanU gt_unmarked
    (fun n v w h => by
      show Value_GreaterThan_fuel (n + 2) v w = _
      rw [Value_GreaterThan_fuel]; simp [OpsGo.isMarked, h, OpsGo.unmark, OpsGo.withMarks, OpsGo.unionAll]) n a b ha hb

/-! ### the entry points (`opsFuel` suffices) -/

theorem not_eq (a : Value) (ha : Single a) : Value_Not a = Value.not a := not_fuel_eq 2 a ha
theorem and_eq (a b : Value) (ha : Single a) (hb : Single b) : Value_And a b = Value.and a b := and_fuel_eq 2 a b ha hb
theorem or_eq (a b : Value) (ha : Single a) (hb : Single b) : Value_Or a b = Value.or a b := or_fuel_eq 2 a b ha hb
theorem neg_eq (a : Value) (ha : Single a) : Value_Negate a = Value.neg a := neg_fuel_eq 2 a ha
theorem abs_eq (a : Value) (ha : Single a) : Value_Absolute a = Value.abs a := abs_fuel_eq 2 a ha
theorem div_eq (a b : Value) (ha : Single a) (hb : Single b) : Value_Divide a b = Value.div a b := div_fuel_eq 2 a b ha hb
theorem add_eq (a b : Value) (ha : Single a) (hb : Single b) : Value_Add a b = Value.add a b := add_fuel_eq 2 a b ha hb
theorem sub_eq (a b : Value) (ha : Single a) (hb : Single b) : Value_Subtract a b = Value.sub a b := sub_fuel_eq 2 a b ha hb
theorem mul_eq (a b : Value) (ha : Single a) (hb : Single b) : Value_Multiply a b = Value.mul a b := mul_fuel_eq 2 a b ha hb
theorem mod_eq (a b : Value) (ha : Single a) (hb : Single b) : Value_Modulo a b = Value.mod a b := mod_fuel_eq 2 a b ha hb
theorem lt_eq (a b : Value) (ha : Single a) (hb : Single b) : Value_LessThan a b = Value.lessThan a b := lt_fuel_eq 1 a b ha hb
theorem gt_eq (a b : Value) (ha : Single a) (hb : Single b) : Value_GreaterThan a b = Value.greaterThan a b := gt_fuel_eq 1 a b ha hb

/-- the marks prologue keeps the single-layer shape: what an operation answers has at most one marker layer -/
theorem single_withMarks (x : Value) (ms : List String) (hx : Single x) : Single (x.withMarks ms) := by
  unfold Single Value.unmark Value.isMarked Value.withMarks Payload.withMarks at *
  simp only
  split
  · exact hx
  · cases hp : x.v <;> simp_all [Payload.unmark1, Payload.isMarked]

/-- `LessThanOrEqualTo`, translated, is the hand-written one: the `Or` of `LessThan` and `Equals`.  The operands of
that `Or` are results of operations; `hs` says they have at most one marker layer (every well-formed value has). -/
theorem le_eq (a b : Value) (ha : Single a) (hb : Single b)
    (hs : ∀ l e, Value.lessThan a b = .ok l → Value.equals a b = .ok e → Single l ∧ Single e) :
    Value_LessThanOrEqualTo a b = Value.lessThanOrEqualTo a b := by
  unfold Value_LessThanOrEqualTo Value.lessThanOrEqualTo
  rw [lt_eq a b ha hb]
  simp only [mbind_eq, OpsGo.equals]
  cases hl : Value.lessThan a b <;> simp
  cases he : Value.equals a b <;> simp
  rename_i l e
  exact or_eq l e (hs l e hl he).1 (hs l e hl he).2

theorem ge_eq (a b : Value) (ha : Single a) (hb : Single b)
    (hs : ∀ g e, Value.greaterThan a b = .ok g → Value.equals a b = .ok e → Single g ∧ Single e) :
    Value_GreaterThanOrEqualTo a b = Value.greaterThanOrEqualTo a b := by
  unfold Value_GreaterThanOrEqualTo Value.greaterThanOrEqualTo
  rw [gt_eq a b ha hb]
  simp only [mbind_eq, OpsGo.equals]
  cases hl : Value.greaterThan a b <;> simp
  cases he : Value.equals a b <;> simp
  rename_i g e
  exact or_eq g e (hs g e hl he).1 (hs g e hl he).2


/-! ### results of operations have at most one marker layer, so the extra hypothesis of `le_eq` / `ge_eq` always holds -/

theorem single_of_clean {r : Value} (h : r.Clean) : Single r := by
  apply single_of_unmarked
  unfold Value.Clean at h
  unfold Value.isMarked
  cases hv : r.v <;> simp_all [Payload.containsMarked, Payload.isMarked]

theorem single_binMarks {g : Value → Value → Res Value} (hg : ∀ a b, (g a b).All Value.Clean) {a b r : Value}
    (h : binMarks g a b = .ok r) : Single r := by
  unfold binMarks at h
  split at h
  · obtain ⟨r0, h0, rfl⟩ := Res.map_eq_ok.mp h
    exact single_withMarks _ _ (single_of_clean ((hg _ _).of_eq h0))
  · exact single_of_clean ((hg _ _).of_eq h)

theorem single_equals {a b r : Value} (h : Value.equals a b = .ok r) : Single r := by
  unfold Value.equals at h
  split at h
  · obtain ⟨r0, h0, rfl⟩ := Res.map_eq_ok.mp h
    exact single_withMarks _ _ (single_of_clean ((equalsP_clean _ _ _ _).of_eq h0))
  · exact single_of_clean ((equalsP_clean _ _ _ _).of_eq h)

/-- `Value.LessThanOrEqualTo`, translated, is the hand-written `Value.lessThanOrEqualTo` -/
theorem le_eq' (a b : Value) (ha : Single a) (hb : Single b) :
    Value_LessThanOrEqualTo a b = Value.lessThanOrEqualTo a b :=
  le_eq a b ha hb fun l e hl he => ⟨single_binMarks lessThanU_clean hl, single_equals he⟩

/-- `Value.GreaterThanOrEqualTo`, translated, is the hand-written `Value.greaterThanOrEqualTo` -/
theorem ge_eq' (a b : Value) (ha : Single a) (hb : Single b) :
    Value_GreaterThanOrEqualTo a b = Value.greaterThanOrEqualTo a b :=
  ge_eq a b ha hb fun g e hg he => ⟨single_binMarks greaterThanU_clean hg, single_equals he⟩

/-- a value whose marker structure is well formed has at most one marker layer on top -/
theorem single_of_marksWF {a : Value} (h : a.MarksWF) : Single a := by
  unfold Single Value.unmark Value.isMarked
  obtain ⟨h1, _⟩ := h
  cases hv : a.v <;> simp_all [Payload.unmark1, Payload.isMarked, Payload.markerWF]


/-! ### the operation table of C04 over the translated methods -/

/-- `Op.run` with the fourteen translated methods taken from `Generated/OpsFns.lean` -/
def genRun : Op → List Value → Res Value
  | .add, [a, b] => Value_Add a b
  | .sub, [a, b] => Value_Subtract a b
  | .mul, [a, b] => Value_Multiply a b
  | .div, [a, b] => Value_Divide a b
  | .mod, [a, b] => Value_Modulo a b
  | .neg, [a] => Value_Negate a
  | .abs, [a] => Value_Absolute a
  | .not, [a] => Value_Not a
  | .and, [a, b] => Value_And a b
  | .or, [a, b] => Value_Or a b
  | .lt, [a, b] => Value_LessThan a b
  | .gt, [a, b] => Value_GreaterThan a b
  | .le, [a, b] => Value_LessThanOrEqualTo a b
  | .ge, [a, b] => Value_GreaterThanOrEqualTo a b
  | op, args => op.run args

/-- the operations whose definition `genRun` takes from the translated source -/
def translatedOps : List Op := [.add, .sub, .mul, .div, .mod, .neg, .abs, .not, .and, .or, .lt, .gt, .le, .ge]

theorem genRun_eq (op : Op) (args : List Value) (h : ∀ a ∈ args, Single a) : genRun op args = op.run args := by
  unfold genRun
  split
  next a b => exact add_eq a b (h a (by simp)) (h b (by simp))
  next a b => exact sub_eq a b (h a (by simp)) (h b (by simp))
  next a b => exact mul_eq a b (h a (by simp)) (h b (by simp))
  next a b => exact div_eq a b (h a (by simp)) (h b (by simp))
  next a b => exact mod_eq a b (h a (by simp)) (h b (by simp))
  next a => exact neg_eq a (h a (by simp))
  next a => exact abs_eq a (h a (by simp))
  next a => exact not_eq a (h a (by simp))
  next a b => exact and_eq a b (h a (by simp)) (h b (by simp))
  next a b => exact or_eq a b (h a (by simp)) (h b (by simp))
  next a b => exact lt_eq a b (h a (by simp)) (h b (by simp))
  next a b => exact gt_eq a b (h a (by simp)) (h b (by simp))
  next a b => exact le_eq' a b (h a (by simp)) (h b (by simp))
  next a b => exact ge_eq' a b (h a (by simp)) (h b (by simp))
  next => rfl

theorem single_unmarkDeep (a : Value) : Single a.unmarkDeep := single_of_clean (Value.clean_unmarkDeep a)

end OpsFnsTie
end CtyModel
