/-
The REGENERATED-MODEL tie for the operation methods of cty/value_ops.go: the
definitions that `extract/translate_ops.go` regenerates from go-cty's source on
every check (`Generated/OpsFns.lean`) compute exactly what the hand-written
transliteration layer (`CtyModel/Ops.lean`, `Ops2.lean`) computes — same value,
same `Res.panic` — for ALL operands, under the one well-formedness hypothesis the
hand-written layer builds in: an operand carries at most one marker layer
(`Single`; `Value.unmark` removes one layer, Go's `Unmark` removes the only one).

Every C02 / C04 theorem about `Value.not`, `and`, `or`, `neg`, `abs`, `add`, `sub`,
`mul`, `div`, `mod`, `lessThan`, `greaterThan`, `lessThanOrEqualTo`,
`greaterThanOrEqualTo` therefore holds of the translated source text
(`Props/C02.lean`, `…_generated`).  A refactoring of the Go code inside the
translated fragment that preserves the meaning usually still goes through; a
change of meaning (or of the hand-written model) makes this file fail to build.
-/
import CtyModel.Generated.OpsFns
set_option linter.unusedSimpArgs false
set_option linter.unusedVariables false
namespace CtyModel
namespace OpsFnsTie
open Value Generated.OpsFns

/-- at most one marker layer: what `Unmark` answers is not marked -/
def Single (a : Value) : Prop := a.unmark.isMarked = false

theorem single_of_unmarked {a : Value} (h : a.isMarked = false) : Single a := by
  unfold Single Value.unmark Value.isMarked at *
  cases a with
  | mk t p => cases p <;> simp_all [Payload.unmark1, Payload.isMarked]

@[simp] theorem rbind_ok {β γ} (a : β) (f : β → Res γ) : Res.bind (.ok a) f = f a := rfl
@[simp] theorem rbind_err {β γ} (c : String) (f : β → Res γ) : Res.bind (.err c) f = .err c := rfl
@[simp] theorem rbind_panic {β γ} (c : String) (f : β → Res γ) : Res.bind (.panic c) f = .panic c := rfl
@[simp] theorem rbind_unmodelled {β γ} (f : β → Res γ) : Res.bind (.unmodelled) f = .unmodelled := rfl
@[simp] theorem mbind_eq {β γ} (r : Res β) (f : β → Res γ) : (r >>= f) = Res.bind r f := rfl
@[simp] theorem rmap_ok {β γ} (a : β) (f : β → γ) : Res.map f (.ok a) = .ok (f a) := rfl
@[simp] theorem rmap_err {β γ} (c : String) (f : β → γ) : Res.map f (.err c : Res β) = .err c := rfl
@[simp] theorem rmap_panic {β γ} (c : String) (f : β → γ) : Res.map f (.panic c : Res β) = .panic c := rfl
@[simp] theorem rmap_unmodelled {β γ} (f : β → γ) : Res.map f (.unmodelled : Res β) = .unmodelled := rfl

/-! ### helper.go: `mustTypeCheck`, `forceShortCircuitType` -/

/-- the translated `mustTypeCheck` answers the short-circuit pointer that the hand-written
`typeCheck` classifies, and panics where it reports a mismatch -/
theorem mustTypeCheck_eq (req ret : Ty) (vs : List Value) :
    mustTypeCheck req ret vs =
      (match Value.typeCheck req vs with
       | .ok .none => .ok none
       | .ok .dynamic => .ok (some dynVal)
       | .ok .unknown => .ok (some (unknown ret))
       | .panic w => .panic w
       | .err e => .err e
       | .unmodelled => .unmodelled) := by
  unfold mustTypeCheck OpsGo.typeCheck
  cases Value.typeCheck req vs with
  | ok tc => cases tc <;> rfl
  | err e => rfl
  | panic w => rfl
  | unmodelled => rfl

theorem force_dyn (ty : Ty) : forceShortCircuitType (some dynVal) ty = .ok (some (unknown ty)) := rfl
theorem force_bool : forceShortCircuitType (some (unknown .bool)) .bool = .ok (some (unknown .bool)) := by
  simp [forceShortCircuitType, OpsGo.deref, unknown, Ty.isDyn, Ty.equals]
theorem force_number : forceShortCircuitType (some (unknown .number)) .number = .ok (some (unknown .number)) := by
  simp [forceShortCircuitType, OpsGo.deref, unknown, Ty.isDyn, Ty.equals]

/-- what follows a successful `mustTypeCheck` in every method: `if shortCircuit != nil { S } K` -/
theorem after_typeCheck {β} (req ret : Ty) (vs : List Value) (S : Option Value → Res β) (K : Res β) :
    (Res.bind (mustTypeCheck req ret vs) fun sc => if (!(Option.isNone sc)) then S sc else K) =
      (match Value.typeCheck req vs with
       | .ok .none => K
       | .ok .dynamic => S (some dynVal)
       | .ok .unknown => S (some (unknown ret))
       | .panic w => .panic w
       | .err e => .err e
       | .unmodelled => .unmodelled) := by
  rw [mustTypeCheck_eq]
  cases Value.typeCheck req vs with
  | ok tc => cases tc <;> rfl
  | err e => rfl
  | panic w => rfl
  | unmodelled => rfl

/-- the common tail `shortCircuit = forceShortCircuitType(shortCircuit, Bool); return (*shortCircuit).RefineNotNull()` -/
theorem tail_bool_dyn : (Res.bind (forceShortCircuitType (some dynVal) .bool) fun p =>
    Res.bind (OpsGo.deref p) fun d => OpsGo.refineNotNull d) = .ok unkBool := rfl
theorem tail_bool_unk : (Res.bind (forceShortCircuitType (some (unknown .bool)) .bool) fun p =>
    Res.bind (OpsGo.deref p) fun d => OpsGo.refineNotNull d) = .ok unkBool := by
  rw [force_bool]; rfl
theorem tail_num_dyn : (Res.bind (forceShortCircuitType (some dynVal) .number) fun p =>
    Res.bind (OpsGo.deref p) fun d => OpsGo.refineNotNull d) = .ok unkNumNotNull := rfl
theorem tail_num_unk : (Res.bind (forceShortCircuitType (some (unknown .number)) .number) fun p =>
    Res.bind (OpsGo.deref p) fun d => OpsGo.refineNotNull d) = .ok unkNumNotNull := by
  rw [force_number]; rfl

/-! ### the marks prologue -/

theorem unary_tie (f : Nat → Value → Res Value) (g : Value → Res Value)
    (hu : ∀ n v, v.isMarked = false → f (n + 1) v = g v)
    (hm : ∀ n v, v.isMarked = true → f (n + 1) v = Res.bind (f n v.unmark) fun x => .ok (x.withMarks v.marks))
    (n : Nat) (a : Value) (ha : Single a) : f (n + 2) a = unMarks g a := by
  unfold unMarks
  cases h : a.isMarked
  · simp [hu (n + 1) a h]
  · rw [hm (n + 1) a h, hu n _ ha]
    cases g a.unmark <;> simp

theorem binary_tie (f : Nat → Value → Value → Res Value) (g : Value → Value → Res Value)
    (hu : ∀ n v w, v.isMarked = false → w.isMarked = false → f (n + 1) v w = g v w)
    (hm : ∀ n v w, (v.isMarked || w.isMarked) = true →
      f (n + 1) v w = Res.bind (f n v.unmark w.unmark) fun x => .ok (x.withMarks (unionMarks v.marks w.marks)))
    (n : Nat) (a b : Value) (ha : Single a) (hb : Single b) : f (n + 2) a b = binMarks g a b := by
  unfold binMarks
  cases h : (a.isMarked || b.isMarked)
  · have h' := h
    rw [Bool.or_eq_false_iff] at h'
    simp [hu (n + 1) a b h'.1 h'.2]
  · rw [hm (n + 1) a b h, hu n _ _ ha hb]
    cases g a.unmark b.unmark <;> simp

/-! ### Not, And, Or -/

theorem not_unmarked (n : Nat) (a : Value) (h : a.isMarked = false) : Value_Not_fuel (n + 1) a = notU a := by
  rw [Value_Not_fuel]
  simp only [OpsGo.isMarked, h, after_typeCheck, notU, mbind_eq]
  cases Value.typeCheck .bool [a] with
  | ok tc => cases tc <;> simp [tail_bool_dyn, tail_bool_unk, OpsGo.asBool] <;> (cases asBool a <;> rfl)
  | err e => rfl
  | panic w => rfl
  | unmodelled => rfl

/-- `Value.Not`, translated, is the hand-written `Value.not` -/
theorem not_fuel_eq (n : Nat) (a : Value) (ha : Single a) : Value_Not_fuel (n + 2) a = Value.not a :=
  unary_tie Value_Not_fuel notU not_unmarked
    (fun n v h => by rw [Value_Not_fuel]; simp [OpsGo.isMarked, h, OpsGo.unmark, OpsGo.withMarks, OpsGo.unionAll]) n a ha

theorem and_unmarked (n : Nat) (a b : Value) (ha : a.isMarked = false) (hb : b.isMarked = false) :
    Value_And_fuel (n + 1) a b = andU a b := by
  rw [Value_And_fuel]
  simp only [OpsGo.isMarked, ha, hb, after_typeCheck, andU, mbind_eq]
  cases Value.typeCheck .bool [a, b] with
  | ok tc =>
    cases tc <;> simp [tail_bool_dyn, tail_bool_unk, OpsGo.asBool, OpsGo.eqBoolLit]
    · cases asBool a with
      | ok x => cases x <;> simp <;> (cases asBool b <;> rfl)
      | _ => rfl
    all_goals (split <;> rfl)
  | err e => rfl
  | panic w => rfl
  | unmodelled => rfl

/-- `Value.And`, translated, is the hand-written `Value.and` -/
theorem and_fuel_eq (n : Nat) (a b : Value) (ha : Single a) (hb : Single b) : Value_And_fuel (n + 2) a b = Value.and a b :=
  binary_tie Value_And_fuel andU and_unmarked
    (fun n v w h => by rw [Value_And_fuel]; simp [OpsGo.isMarked, h, OpsGo.unmark, OpsGo.withMarks, OpsGo.unionAll]) n a b ha hb

theorem or_unmarked (n : Nat) (a b : Value) (ha : a.isMarked = false) (hb : b.isMarked = false) :
    Value_Or_fuel (n + 1) a b = orU a b := by
  rw [Value_Or_fuel]
  simp only [OpsGo.isMarked, ha, hb, after_typeCheck, orU, mbind_eq]
  cases Value.typeCheck .bool [a, b] with
  | ok tc =>
    cases tc <;> simp [tail_bool_dyn, tail_bool_unk, OpsGo.asBool, OpsGo.eqBoolLit]
    · cases asBool a with
      | ok x => cases x <;> simp <;> (cases asBool b <;> rfl)
      | _ => rfl
    all_goals (split <;> rfl)
  | err e => rfl
  | panic w => rfl
  | unmodelled => rfl

/-- `Value.Or`, translated, is the hand-written `Value.or` -/
theorem or_fuel_eq (n : Nat) (a b : Value) (ha : Single a) (hb : Single b) : Value_Or_fuel (n + 2) a b = Value.or a b :=
  binary_tie Value_Or_fuel orU or_unmarked
    (fun n v w h => by rw [Value_Or_fuel]; simp [OpsGo.isMarked, h, OpsGo.unmark, OpsGo.withMarks, OpsGo.unionAll]) n a b ha hb

/-! ### the entry points (`opsFuel` suffices) -/

theorem single_boolVal (x : Bool) : Single (boolVal x) := rfl
theorem single_numVal (x : Num) : Single (numVal x) := rfl

theorem not_eq (a : Value) (ha : Single a) : Value_Not a = Value.not a := not_fuel_eq 2 a ha
theorem and_eq (a b : Value) (ha : Single a) (hb : Single b) : Value_And a b = Value.and a b := and_fuel_eq 2 a b ha hb
theorem or_eq (a b : Value) (ha : Single a) (hb : Single b) : Value_Or a b = Value.or a b := or_fuel_eq 2 a b ha hb

end OpsFnsTie
end CtyModel
