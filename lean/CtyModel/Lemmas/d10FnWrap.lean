/-
Lemmas for C10, slice d10 (part 1): the wrappers (`WithNewDescriptions`, `Unpredictable`), all entry
points (`Call`, `Proxy`, `ReturnTypeForValues`, `ReturnType`), `Call` as a continuation of
`ReturnTypeForValues`, the deferred refinement under a placeholder checked type, and the exact
mark set of a refined result.
-/
import CtyModel.Lemmas.FnCall2
import CtyModel.FnD10
namespace CtyModel
namespace Fn
namespace D10

/-! ### `mapOut` -/

theorem mapOut_snd {α β} (g : α → β) (o : Out α × List Event) : (mapOut g o).2 = o.2 := by
  obtain ⟨r, tr⟩ := o; cases r <;> rfl

theorem mapOut_err_iff {α β} (g : α → β) (o : Out α × List Event) (e : CallErr) :
    (mapOut g o).1 = .err e ↔ o.1 = .err e := by
  obtain ⟨r, tr⟩ := o; cases r <;> simp [mapOut]

theorem mapOut_panic_iff {α β} (g : α → β) (o : Out α × List Event) (w : String) :
    (mapOut g o).1 = .panic w ↔ o.1 = .panic w := by
  obtain ⟨r, tr⟩ := o; cases r <;> simp [mapOut]

theorem mapOut_ok_iff {α β} (g : α → β) (o : Out α × List Event) (b : β) :
    (mapOut g o).1 = .ok b ↔ ∃ a, o.1 = .ok a ∧ g a = b := by
  obtain ⟨r, tr⟩ := o; cases r <;> simp [mapOut]

/-! ### the wrappers keep the spec and the `Type` callback -/

theorem spec_withNewDescriptions_ok {spec s' : Spec} {n : Nat} (h : spec.withNewDescriptions n = .ok s') :
    s' = spec := by
  unfold Spec.withNewDescriptions at h
  cases hv : spec.varParam with
  | none =>
    simp only [hv] at h
    split at h
    · cases h
    · simp only [Out.ok.injEq] at h; exact h.symm
  | some vp =>
    simp only [hv] at h
    split at h
    · cases h
    · simp only [Out.ok.injEq] at h; exact h.symm

theorem func_withNewDescriptions_ok {f f' : Func} {n : Nat} (h : f.withNewDescriptions n = .ok f') : f' = f := by
  unfold Func.withNewDescriptions at h
  cases hs : f.spec.withNewDescriptions n with
  | ok s =>
    simp only [hs, Out.ok.injEq] at h
    have := spec_withNewDescriptions_ok hs
    subst this
    exact h.symm
  | err e => simp [hs] at h
  | panic w => simp [hs] at h
  | unmodelled => simp [hs] at h

/-- the number of descriptions is admissible for this spec -/
def descsOK (spec : Spec) (n : Nat) : Bool :=
  n == spec.params.length || (spec.varParam.isSome && n == spec.params.length + 1)

theorem func_withNewDescriptions_eq (f : Func) (n : Nat) :
    f.withNewDescriptions n = if descsOK f.spec n then .ok f else .panic "paramDescs length" := by
  unfold Func.withNewDescriptions Spec.withNewDescriptions descsOK
  cases hv : f.spec.varParam with
  | none => by_cases h : n = f.spec.params.length <;> simp [h]
  | some vp =>
    by_cases h : n = f.spec.params.length <;> by_cases h' : n = f.spec.params.length + 1 <;> simp [h, h']

/-- every `WithNewDescriptions` in the chain is given an admissible number of descriptions -/
def wrappersOK (spec : Spec) : List Wrapper → Bool
  | [] => true
  | .unpredictable :: ws => wrappersOK spec ws
  | .redesc n :: ws => descsOK spec n && wrappersOK spec ws

/-- the function a chain of wrappers makes: the same spec and `Type` callback; `Impl` is replaced by
`unpredictableImpl` iff `Unpredictable` occurs in the chain; and the constructors panic exactly on an
inadmissible number of descriptions (never an error). -/
theorem wrap_eq (f : Func) (ws : List Wrapper) :
    wrap f ws =
      if wrappersOK f.spec ws then
        .ok { f with impl := if ws.contains .unpredictable then unpredictableImpl else f.impl }
      else .panic "paramDescs length" := by
  induction ws generalizing f with
  | nil => simp [wrap, wrappersOK]
  | cons w ws ih =>
    cases w with
    | unpredictable =>
      simp only [wrap, wrappersOK, ih, Func.unpredictable]
      simp
    | redesc n =>
      simp only [wrap, wrappersOK, func_withNewDescriptions_eq]
      by_cases h : descsOK f.spec n = true
      · simp only [h, if_true, ih, Bool.true_and]
        have : (Wrapper.redesc n :: ws).contains Wrapper.unpredictable = ws.contains Wrapper.unpredictable := by
          simp
        rw [this]
      · simp [h]

theorem wrap_ok {f f' : Func} {ws : List Wrapper} (h : wrap f ws = .ok f') :
    f'.spec = f.spec ∧ f'.tf = f.tf ∧
      f'.impl = (if ws.contains .unpredictable then unpredictableImpl else f.impl) ∧ wrappersOK f.spec ws = true := by
  rw [wrap_eq] at h
  by_cases hw : wrappersOK f.spec ws = true
  · simp only [hw, if_true, Out.ok.injEq] at h
    subst h
    exact ⟨rfl, rfl, rfl, hw⟩
  · simp [hw] at h

/-! ### `ReturnType` is `ReturnTypeForValues` on the arguments it sees -/

theorem run_rt (f : Func) (args : List Value) :
    run f .rt args = mapOut .ty (returnTypeForValuesPub f.spec f.tf (Entry.rt.argsSeen args)) := rfl

theorem run_rtfv (f : Func) (args : List Value) :
    run f .rtfv args = mapOut .ty (returnTypeForValuesPub f.spec f.tf (Entry.rtfv.argsSeen args)) := rfl

theorem run_call (f : Func) (args : List Value) :
    run f .call args = mapOut .val (call f.spec f.tf f.impl (Entry.call.argsSeen args)) := rfl

theorem run_proxy (f : Func) (args : List Value) :
    run f .proxy args = mapOut .val (call f.spec f.tf f.impl (Entry.proxy.argsSeen args)) := rfl

/-! ### a panic of the `Type` callback, at every entry point -/

theorem call_type_panic {spec : Spec} {tf : TypeFn} (impl : ImplFn) {args : List Value} {w : String}
    (hc : spec.countOK args.length = true) (hap : AllPass spec args)
    (ht : tf (typeArgs spec args) = .panic w) :
    call spec tf impl args = (.err (.panicError w), [.type (typeArgs spec args)]) := by
  rw [call_eq_finish, callUnrefined_eq]
  simp only [hc, if_true, firstFail_of_allPass hc hap, ht, finish_err]

theorem rtfv_type_panic {spec : Spec} {tf : TypeFn} {args : List Value} {w : String}
    (hc : spec.countOK args.length = true) (hap : AllPass spec args)
    (ht : tf (typeArgs spec args) = .panic w) :
    returnTypeForValuesPub spec tf args = (.err (.panicError w), [.type (typeArgs spec args)]) := by
  rw [rtfvPub_pass tf hc hap, ht]

/-- every entry point of every wrapped function: when the arguments it checks are acceptable and
the `Type` callback panics on them, the answer is the `PanicError` for that panic, and `Type` is
the only callback that was invoked. -/
theorem run_type_panic {f f' : Func} {ws : List Wrapper} (e : Entry) {args : List Value} {w : String}
    (hw : wrap f ws = .ok f')
    (hc : f.spec.countOK (e.argsSeen args).length = true) (hap : AllPass f.spec (e.argsSeen args))
    (ht : f.tf (typeArgs f.spec (e.argsSeen args)) = .panic w) :
    run f' e args = (.err (.panicError w), [.type (typeArgs f.spec (e.argsSeen args))]) := by
  obtain ⟨hs, htf, _, _⟩ := wrap_ok hw
  cases e with
  | call => rw [run_call, hs, htf, call_type_panic f'.impl hc hap ht]; rfl
  | proxy => rw [run_proxy, hs, htf, call_type_panic f'.impl hc hap ht]; rfl
  | rtfv => rw [run_rtfv, hs, htf, rtfv_type_panic hc hap ht]; rfl
  | rt => rw [run_rt, hs, htf, rtfv_type_panic hc hap ht]; rfl

/-- the trace version for `Call`: if `Type` was invoked and panicked, the outcome is its `PanicError` -/
theorem call_type_event_panic (spec : Spec) (tf : TypeFn) (impl : ImplFn) (args as : List Value) (w : String)
    (h : Event.type as ∈ (call spec tf impl args).2) (hp : tf as = .panic w) :
    (call spec tf impl args).1 = .err (.panicError w) := by
  rw [call_eq_finish] at h ⊢
  obtain ⟨k, o, ho, hk⟩ := callUnrefined_case' spec tf impl args
  rw [ho] at h ⊢
  obtain ⟨_, _, rfl, _⟩ := hk.type_event (mem_finish_trace_type.mp h)
  rw [finish_err_iff]
  cases hk <;> simp_all

/-- the trace version for `ReturnTypeForValues`; and it never lets a Go panic escape -/
theorem rtfv_type_event_panic (spec : Spec) (tf : TypeFn) (args as : List Value) (w : String)
    (h : Event.type as ∈ (returnTypeForValuesPub spec tf args).2) (hp : tf as = .panic w) :
    (returnTypeForValuesPub spec tf args).1 = .err (.panicError w) := by
  rw [rtfvPub_eq] at h ⊢
  by_cases hc : spec.countOK args.length = true
  · simp only [hc, if_true] at h ⊢
    cases hf : firstFail (spec.expand args.length) args with
    | some kf => obtain ⟨k, f⟩ := kf; rw [hf] at h; cases f <;> simp at h
    | none =>
      rw [hf] at h
      simp only at h ⊢
      cases ht : tf (typeArgs spec args) <;> rw [ht] at h <;> simp at h <;> subst h <;> simp_all
  · simp [hc] at h

theorem rtfv_no_panic (spec : Spec) (tf : TypeFn) (args : List Value) (w : String) :
    (returnTypeForValuesPub spec tf args).1 ≠ .panic w := by
  rw [rtfvPub_eq]
  by_cases hc : spec.countOK args.length = true
  · simp only [hc, if_true]
    cases hf : firstFail (spec.expand args.length) args with
    | some kf => obtain ⟨k, f⟩ := kf; cases f <;> simp
    | none => cases ht : tf (typeArgs spec args) <;> simp
  · simp [hc]

/-- every entry point of every wrapped function, read off the trace: whenever the `Type` callback was
invoked and panicked, the entry point returns the `PanicError` for that panic -/
theorem run_type_event_panic {f f' : Func} {ws : List Wrapper} (e : Entry) (args as : List Value) (w : String)
    (hw : wrap f ws = .ok f') (h : Event.type as ∈ (run f' e args).2) (hp : f.tf as = .panic w) :
    (run f' e args).1 = .err (.panicError w) := by
  obtain ⟨hs, htf, _, _⟩ := wrap_ok hw
  rw [← htf] at hp
  cases e with
  | call =>
    rw [run_call, mapOut_snd] at h; rw [run_call, mapOut_err_iff]
    exact call_type_event_panic _ _ _ _ as w h hp
  | proxy =>
    rw [run_proxy, mapOut_snd] at h; rw [run_proxy, mapOut_err_iff]
    exact call_type_event_panic _ _ _ _ as w h hp
  | rtfv =>
    rw [run_rtfv, mapOut_snd] at h; rw [run_rtfv, mapOut_err_iff]
    exact rtfv_type_event_panic _ _ _ as w h hp
  | rt =>
    rw [run_rt, mapOut_snd] at h; rw [run_rt, mapOut_err_iff]
    exact rtfv_type_event_panic _ _ _ as w h hp

/-- the type-level entry points of a wrapped function never let a Go panic escape -/
theorem run_type_entries_no_panic (f : Func) (args : List Value) (w : String) :
    (run f .rtfv args).1 ≠ .panic w ∧ (run f .rt args).1 ≠ .panic w := by
  constructor
  · rw [run_rtfv, Ne, mapOut_panic_iff]; exact rtfv_no_panic _ _ _ w
  · rw [run_rt, Ne, mapOut_panic_iff]; exact rtfv_no_panic _ _ _ w

/-! ### the deferred refinement and `typed` -/

theorem typed_withMarkSets (v : Value) (mss : List (List String)) : typed (withMarkSets v mss) = typed v := by
  unfold typed
  rw [isKnown_withMarkSets, withMarkSets_ty]

theorem typed_withUnhandled (spec : Spec) (args : List Value) (v : Value) :
    typed (withUnhandled spec args v) = typed v := by
  unfold withUnhandled
  split
  · exact typed_withMarkSets _ _
  · rfl

theorem unmark_withUnhandled (spec : Spec) (args : List Value) (v : Value) :
    (withUnhandled spec args v).unmark = v.unmark := by
  unfold withUnhandled
  split
  · exact unmark_withMarkSets _ _
  · rfl

theorem isKnown_eq_of_unmark_eq {u v : Value} (h : u.unmark = v.unmark) : u.isKnown = v.isKnown := by
  have : u.v.unmark1 = v.v.unmark1 := congrArg Value.v h
  unfold Value.isKnown Payload.isKnown
  rw [this]

/-- adding marks does not change whether the refinement applies -/
theorem typed_of_withUnhandled {spec : Spec} {args : List Value} {v u : Value}
    (hwu : WithUnhandled spec args v u) : typed u = typed v := by
  unfold typed
  rw [isKnown_eq_of_unmark_eq hwu.2.1, hwu.1]

/-- `Call`'s value before the deferred refinement, when `Impl` runs and its value conforms -/
theorem callUnrefined_value {spec : Spec} {tf : TypeFn} {impl : ImplFn} {args : List Value} {rt : Ty} {v : Value}
    (hc : spec.countOK args.length = true) (hap : AllPass spec args) (hnb : ¬ SomeUnknownBlocked spec args)
    (ht : tf (typeArgs spec args) = .ok rt) (hi : impl (implArgs spec args) rt = .ok v)
    (hcf : Ty.conformErrs rt v.ty = 0) :
    callUnrefined spec tf impl args =
      (.ok (withUnhandled spec args v), [.type (typeArgs spec args), .impl (implArgs spec args) rt]) := by
  have hu : (pass2 (spec.expand args.length) args).unknown = false := by
    cases hu : (pass2 (spec.expand args.length) args).unknown with
    | false => rfl
    | true => exact absurd ((someUnknownBlocked_iff hc).mp hu) hnb
  rw [callUnrefined_eq]
  simp [hc, firstFail_of_allPass hc hap, ht, hu, hi, hcf]

/-- The declared refinement is applied to a typed value of `Impl` ALSO when the checked return type
is the placeholder `DynamicPseudoType` (everything conforms to it): what decides is the type of the
RESULT, not the checked type. -/
theorem call_placeholder_refined {spec : Spec} {tf : TypeFn} {impl : ImplFn} {args : List Value}
    {rf : RefineFn} {v : Value} (hr : spec.refine = some rf)
    (hc : spec.countOK args.length = true) (hap : AllPass spec args) (hnb : ¬ SomeUnknownBlocked spec args)
    (ht : tf (typeArgs spec args) = .ok .dyn) (hi : impl (implArgs spec args) .dyn = .ok v)
    (hty : typed v = true) :
    call spec tf impl args =
      (refineWith rf (withUnhandled spec args v),
        [.type (typeArgs spec args), .impl (implArgs spec args) .dyn, .refine v.unmark]) := by
  rw [call_eq_finish, callUnrefined_value hc hap hnb ht hi (conform_dyn _), finish_ok]
  simp [hr, typed_withUnhandled, hty, unmark_withUnhandled]

/-! ### the exact mark set of a refined result -/

/-- the builder hands back an unmarked payload for an unmarked value (`NewValue` re-applies the marks
it set aside; the model's `refineWith` does that) -/
def RefinePayloadUnmarked (rf : RefineFn) : Prop :=
  ∀ u p, u.v.isMarked = false → rf u = some p → p.isMarked = false

theorem marks_mk_withMarks {t : Ty} {p : Payload} (hp : p.isMarked = false) (ms : List String) (m : String) :
    m ∈ ((⟨t, p⟩ : Value).withMarks ms).marks ↔ m ∈ ms := by
  rw [Value.mem_marks_withMarks]
  cases p <;> simp_all [Value.marks, Payload.marks1, Payload.isMarked]

/-- the deferred refinement keeps the mark set exactly, when the value it is handed is unmarked
below its top marker -/
theorem finish_ok_marks {spec : Spec} {u w : Value} {tr : List Event}
    (hrf : ∀ rf, spec.refine = some rf → RefinePayloadUnmarked rf) (hu : u.unmark.v.isMarked = false)
    (h : (finish spec (.ok u, tr)).1 = .ok w) (m : String) : m ∈ w.marks ↔ m ∈ u.marks := by
  rw [finish_ok] at h
  cases hr : spec.refine with
  | none => simp only [hr, Out.ok.injEq] at h; subst h; exact Iff.rfl
  | some r =>
    simp only [hr] at h
    by_cases ht : typed u = true
    · simp only [ht, if_true] at h
      obtain ⟨p, hp, rfl⟩ := refineWith_ok h
      exact marks_mk_withMarks (hrf r hr _ _ hu hp) _ m
    · simp only [ht, Bool.false_eq_true, if_false, Out.ok.injEq] at h
      subst h; exact Iff.rfl

theorem unmark_not_marked_of_markerWF {v : Value} (h : v.v.markerWF = true) : v.unmark.v.isMarked = false := by
  obtain ⟨t, p⟩ := v
  cases p <;> simp_all [Value.unmark, Payload.unmark1, Payload.isMarked, Payload.markerWF]

theorem unknown_unmark_not_marked (t : Ty) : (Value.unknown t).unmark.v.isMarked = false := rfl

/-! ### `Call` continues `ReturnTypeForValues` -/

/-- `Call` begins as `ReturnTypeForValues` on the same arguments: when that fails `Call` fails the
same way having invoked the same callback(s); when it answers `t`, `Call` goes on from there — without
asking `Type` again — and whatever `Impl` is handed as return type is `t`. -/
theorem call_continues_rtfv (spec : Spec) (tf : TypeFn) (impl : ImplFn) (args : List Value) :
    (∀ e, (returnTypeForValuesPub spec tf args).1 = .err e →
      call spec tf impl args = (.err e, (returnTypeForValuesPub spec tf args).2)) ∧
    (∀ t, (returnTypeForValuesPub spec tf args).1 = .ok t →
      ∃ rest, (call spec tf impl args).2 = (returnTypeForValuesPub spec tf args).2 ++ rest ∧
        (∀ as, Event.type as ∉ rest) ∧ (∀ as rt, Event.impl as rt ∈ rest → rt = t) ∧
        (∀ e, (call spec tf impl args).1 = .err e → ∃ as rt, Event.impl as rt ∈ rest)) := by
  rw [call_eq_finish]
  rcases finish_trace' spec (callUnrefined spec tf impl args) with e | ⟨u, _, _, e⟩ <;> rw [e] <;>
  · constructor
    · intro er h
      rw [rtfvPub_eq] at h ⊢
      rw [callUnrefined_eq]
      by_cases hc : spec.countOK args.length = true
      · simp only [hc, if_true] at h ⊢
        cases hf : firstFail (spec.expand args.length) args with
        | some kf =>
          obtain ⟨k, f⟩ := kf; rw [hf] at h
          cases f <;> simp_all [finish_err]
        | none =>
          rw [hf] at h
          simp only at h ⊢
          cases ht : tf (typeArgs spec args) <;> rw [ht] at h <;> simp_all [finish_err]
      · simp_all [finish_err]
    · intro t h
      have hfe := finish_err_iff spec (callUnrefined spec tf impl args)
      rw [rtfvPub_eq] at h ⊢
      rw [callUnrefined_eq] at hfe ⊢
      by_cases hc : spec.countOK args.length = true
      · simp only [hc, if_true] at h hfe ⊢
        cases hf : firstFail (spec.expand args.length) args with
        | some kf =>
          obtain ⟨k, f⟩ := kf; rw [hf] at h hfe
          cases f <;> simp_all
        | none =>
          rw [hf] at h hfe
          simp only at h hfe ⊢
          cases ht : tf (typeArgs spec args) with
          | ok rt =>
            rw [ht] at h hfe
            simp only [Out.ok.injEq] at h; subst h
            simp only at hfe ⊢
            by_cases hu : (pass2 (spec.expand args.length) args).unknown = true
            · simp_all
            · simp only [hu, Bool.false_eq_true, if_false] at hfe ⊢
              cases hi : impl (implArgs spec args) rt with
              | ok v =>
                by_cases hcf : (Ty.conformErrs rt v.ty != 0) = true <;> simp_all
              | err c => simp_all
              | panic w => simp_all
              | unmodelled => simp_all
          | err c => rw [ht] at h; simp at h
          | panic w => rw [ht] at h; simp at h
          | unmodelled => rw [ht] at h; simp at h
      · simp_all

end D10
end Fn
end CtyModel
