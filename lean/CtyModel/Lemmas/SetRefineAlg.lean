/-
Set algebra of `SetImpl` (`Union`, `Intersection`, `Subtract`,
`SymmetricDifference`, `NewSetFromSlice`) against the mathematical operations
on the abstract sets; insertion-order independence.
-/
import CtyModel.Lemmas.SetRefineInv
import CtyModel.Lemmas.SetRefineSort
namespace CtyModel
namespace SetImpl
variable {α : Type}

/-- `Values()` lists exactly the members (sorted or not). -/
theorem iter_perm (R : Rules α) (s : SetImpl α) : (iter R s).Perm (values s) := by
  unfold iter
  split
  · exact List.Perm.refl _
  · exact sortStable_perm _ _

theorem mem_iter (R : Rules α) (s : SetImpl α) (x : α) : x ∈ iter R s ↔ x ∈ values s :=
  (iter_perm R s).mem_iff

theorem exists_iter_iff (R : Rules α) (s : SetImpl α) (y : α) :
    (∃ x ∈ iter R s, R.equiv y x = true) ↔ abs R s y := by
  simp only [abs, mem_iter]

theorem addWhere_cons (R : Rules α) (p : α → Bool) (rs : SetImpl α) (x : α) (l : List α) :
    addWhere R p rs (x :: l) = addWhere R p (if p x then add R rs x else rs) l := rfl

theorem invB_addWhere {R : Rules α} (hR : R.Lawful) (p : α → Bool) (l : List α)
    (rs : SetImpl α) (h : InvB R rs) : InvB R (addWhere R p rs l) := by
  induction l generalizing rs with
  | nil => exact h
  | cons x l ih =>
    rw [addWhere_cons]
    apply ih
    split
    · exact invB_add hR h x
    · exact h

theorem abs_addWhere {R : Rules α} (hR : R.Lawful) (p : α → Bool) (l : List α)
    (rs : SetImpl α) (h : InvB R rs) (y : α) :
    abs R (addWhere R p rs l) y ↔ abs R rs y ∨ ∃ x ∈ l, p x = true ∧ R.equiv y x = true := by
  induction l generalizing rs with
  | nil => simp [addWhere]
  | cons x l ih =>
    rw [addWhere_cons]
    by_cases hp : p x = true
    · simp only [hp, if_true]
      rw [ih _ (invB_add hR h x), abs_add hR h]
      constructor
      · rintro ((h1 | h1) | ⟨z, hz, hpz, he⟩)
        · exact Or.inl h1
        · exact Or.inr ⟨x, by simp, hp, h1⟩
        · exact Or.inr ⟨z, List.mem_cons_of_mem _ hz, hpz, he⟩
      · rintro (h1 | ⟨z, hz, hpz, he⟩)
        · exact Or.inl (Or.inl h1)
        · rcases List.mem_cons.mp hz with rfl | hz
          · exact Or.inl (Or.inr he)
          · exact Or.inr ⟨z, hz, hpz, he⟩
    · simp only [hp, if_false, Bool.false_eq_true]
      rw [ih _ h]
      constructor
      · rintro (h1 | ⟨z, hz, hpz, he⟩)
        · exact Or.inl h1
        · exact Or.inr ⟨z, List.mem_cons_of_mem _ hz, hpz, he⟩
      · rintro (h1 | ⟨z, hz, hpz, he⟩)
        · exact Or.inl h1
        · rcases List.mem_cons.mp hz with rfl | hz
          · exact absurd hpz hp
          · exact Or.inr ⟨z, hz, hpz, he⟩

/-! ### the four operations -/

theorem invB_union {R : Rules α} (hR : R.Lawful) (s1 s2 : SetImpl α) : InvB R (union R s1 s2) :=
  invB_addWhere hR _ _ _ (invB_addWhere hR _ _ _ (invB_empty R))

theorem invB_intersection {R : Rules α} (hR : R.Lawful) (s1 s2 : SetImpl α) :
    InvB R (intersection R s1 s2) := invB_addWhere hR _ _ _ (invB_empty R)

theorem invB_subtract {R : Rules α} (hR : R.Lawful) (s1 s2 : SetImpl α) :
    InvB R (subtract R s1 s2) := invB_addWhere hR _ _ _ (invB_empty R)

theorem invB_symmetricDifference {R : Rules α} (hR : R.Lawful) (s1 s2 : SetImpl α) :
    InvB R (symmetricDifference R s1 s2) :=
  invB_addWhere hR _ _ _ (invB_addWhere hR _ _ _ (invB_empty R))

theorem abs_union {R : Rules α} (hR : R.Lawful) (s1 s2 : SetImpl α) (y : α) :
    abs R (union R s1 s2) y ↔ abs R s1 y ∨ abs R s2 y := by
  simp only [union]
  rw [abs_addWhere hR _ _ _ (invB_addWhere hR _ _ _ (invB_empty R)),
    abs_addWhere hR _ _ _ (invB_empty R)]
  simp only [true_and, exists_iter_iff]
  have := abs_empty R y
  constructor
  · rintro ((h | h) | h)
    · exact absurd h this
    · exact Or.inl h
    · exact Or.inr h
  · rintro (h | h)
    · exact Or.inl (Or.inr h)
    · exact Or.inr h

/-- members of `s₁` filtered by (non-)membership in `s₂`, as abstract sets -/
theorem exists_iter_has_iff {R : Rules α} (hR : R.Lawful) (s1 : SetImpl α) {s2 : SetImpl α}
    (h2 : InvB R s2) (y : α) :
    (∃ x ∈ iter R s1, has R s2 x = true ∧ R.equiv y x = true) ↔ abs R s1 y ∧ abs R s2 y := by
  constructor
  · rintro ⟨x, hx, hh, he⟩
    exact ⟨(exists_iter_iff R s1 y).mp ⟨x, hx, he⟩,
      (abs_congr hR s2 he).mpr ((has_iff_abs hR h2 x).mp hh)⟩
  · rintro ⟨h1, h2'⟩
    obtain ⟨x, hx, he⟩ := (exists_iter_iff R s1 y).mpr h1
    exact ⟨x, hx, (has_iff_abs hR h2 x).mpr ((abs_congr hR s2 he).mp h2'), he⟩

theorem exists_iter_not_has_iff {R : Rules α} (hR : R.Lawful) (s1 : SetImpl α) {s2 : SetImpl α}
    (h2 : InvB R s2) (y : α) :
    (∃ x ∈ iter R s1, (!has R s2 x) = true ∧ R.equiv y x = true) ↔ abs R s1 y ∧ ¬ abs R s2 y := by
  constructor
  · rintro ⟨x, hx, hh, he⟩
    refine ⟨(exists_iter_iff R s1 y).mp ⟨x, hx, he⟩, ?_⟩
    intro hy
    have := (has_iff_abs hR h2 x).mpr ((abs_congr hR s2 he).mp hy)
    rw [this] at hh
    cases hh
  · rintro ⟨h1, h2'⟩
    obtain ⟨x, hx, he⟩ := (exists_iter_iff R s1 y).mpr h1
    refine ⟨x, hx, ?_, he⟩
    cases hh : has R s2 x with
    | false => rfl
    | true => exact absurd ((abs_congr hR s2 he).mpr ((has_iff_abs hR h2 x).mp hh)) h2'

theorem abs_intersection {R : Rules α} (hR : R.Lawful) (s1 : SetImpl α) {s2 : SetImpl α}
    (h2 : InvB R s2) (y : α) :
    abs R (intersection R s1 s2) y ↔ abs R s1 y ∧ abs R s2 y := by
  simp only [intersection]
  rw [abs_addWhere hR _ _ _ (invB_empty R), exists_iter_has_iff hR s1 h2]
  have := abs_empty R y
  constructor
  · rintro (h | h)
    · exact absurd h this
    · exact h
  · exact Or.inr

theorem abs_subtract {R : Rules α} (hR : R.Lawful) (s1 : SetImpl α) {s2 : SetImpl α}
    (h2 : InvB R s2) (y : α) :
    abs R (subtract R s1 s2) y ↔ abs R s1 y ∧ ¬ abs R s2 y := by
  simp only [subtract]
  rw [abs_addWhere hR _ _ _ (invB_empty R), exists_iter_not_has_iff hR s1 h2]
  have := abs_empty R y
  constructor
  · rintro (h | h)
    · exact absurd h this
    · exact h
  · exact Or.inr

theorem abs_symmetricDifference {R : Rules α} (hR : R.Lawful) {s1 s2 : SetImpl α}
    (h1 : InvB R s1) (h2 : InvB R s2) (y : α) :
    abs R (symmetricDifference R s1 s2) y ↔
      (abs R s1 y ∧ ¬ abs R s2 y) ∨ (abs R s2 y ∧ ¬ abs R s1 y) := by
  simp only [symmetricDifference]
  rw [abs_addWhere hR _ _ _ (invB_addWhere hR _ _ _ (invB_empty R)),
    abs_addWhere hR _ _ _ (invB_empty R), exists_iter_not_has_iff hR s1 h2,
    exists_iter_not_has_iff hR s2 h1]
  have := abs_empty R y
  constructor
  · rintro ((h | h) | h)
    · exact absurd h this
    · exact Or.inl h
    · exact Or.inr h
  · rintro (h | h)
    · exact Or.inl (Or.inr h)
    · exact Or.inr h

/-! ### NewSetFromSlice and insertion order -/

theorem invB_fromList {R : Rules α} (hR : R.Lawful) (l : List α) : InvB R (fromList R l) :=
  invB_addWhere hR _ _ _ (invB_empty R)

/-- a set built from a list represents exactly the classes of the list's elements -/
theorem abs_fromList {R : Rules α} (hR : R.Lawful) (l : List α) (y : α) :
    abs R (fromList R l) y ↔ ∃ x ∈ l, R.equiv y x = true := by
  simp only [fromList]
  rw [abs_addWhere hR _ _ _ (invB_empty R)]
  have := abs_empty R y
  simp only [true_and]
  constructor
  · rintro (h | h)
    · exact absurd h this
    · exact h
  · exact Or.inr

/-- …whatever the insertion order. -/
theorem abs_fromList_perm {R : Rules α} (hR : R.Lawful) {l l' : List α} (hp : l.Perm l') (y : α) :
    abs R (fromList R l) y ↔ abs R (fromList R l') y := by
  rw [abs_fromList hR, abs_fromList hR]
  constructor
  · rintro ⟨x, hx, he⟩; exact ⟨x, hp.mem_iff.mp hx, he⟩
  · rintro ⟨x, hx, he⟩; exact ⟨x, hp.mem_iff.mpr hx, he⟩

theorem length_fromList_perm {R : Rules α} (hR : R.Lawful) {l l' : List α} (hp : l.Perm l') :
    length (fromList R l) = length (fromList R l') :=
  length_eq_of_abs_eq hR ((invB_fromList hR l).toInv hR) ((invB_fromList hR l').toInv hR)
    (abs_fromList_perm hR hp)

theorem inequiv_perm {R : Rules α} (hR : R.Lawful) {l l' : List α} (hp : l.Perm l')
    (h : Inequiv R l) : Inequiv R l' :=
  (List.Perm.pairwise_iff (fun {_ _} h => Lawful.equiv_false_symm hR h) hp).mp h

/-- adding pairwise inequivalent, not yet represented values keeps all of them -/
theorem values_addWhere_true_perm {R : Rules α} (hR : R.Lawful) (l : List α) (rs : SetImpl α)
    (h : InvB R rs) (hne : Inequiv R (values rs ++ l)) :
    (values (addWhere R (fun _ => true) rs l)).Perm (values rs ++ l) := by
  induction l generalizing rs with
  | nil => simp [addWhere]
  | cons x l ih =>
    rw [addWhere_cons]
    simp only [if_true]
    have hnot : has R rs x = false := by
      cases hh : has R rs x with
      | false => rfl
      | true =>
        obtain ⟨m, hm, he⟩ := (has_iff_abs hR h x).mp hh
        have := (List.pairwise_append.mp hne).2.2 m hm x (by simp)
        rw [hR.symm x m he] at this
        cases this
    rcases values_add_perm h x with ⟨hh, _⟩ | ⟨_, hperm⟩
    · rw [hnot] at hh; cases hh
    · have hstep : (values (add R rs x) ++ l).Perm (values rs ++ x :: l) :=
        (List.Perm.append_right l hperm).trans (by simpa using List.perm_middle.symm)
      exact (ih _ (invB_add hR h x) (inequiv_perm hR hstep.symm hne)).trans hstep

/-- a set built from pairwise inequivalent values holds literally those values -/
theorem values_fromList_perm {R : Rules α} (hR : R.Lawful) {l : List α} (h : Inequiv R l) :
    (values (fromList R l)).Perm l := by
  have := values_addWhere_true_perm hR l empty (invB_empty R) (by simpa [empty, values] using h)
  simpa [fromList, empty, values] using this

/-! ### iteration order -/

/-- `less` is a strict order on the members `l`, total between inequivalent ones
(so, members being pairwise inequivalent, exactly one of `less a b`, `less b a`
holds for two different members). -/
structure StrictTotalOn (R : Rules α) (less : α → α → Bool) (l : List α) : Prop where
  irrefl : ∀ a ∈ l, less a a = false
  trans : ∀ a ∈ l, ∀ b ∈ l, ∀ c ∈ l, less a b = true → less b c = true → less a c = true
  total : ∀ a ∈ l, ∀ b ∈ l, R.equiv a b = false → less a b = true ∨ less b a = true

theorem StrictTotalOn.toList {R : Rules α} {less : α → α → Bool} {l : List α}
    (h : StrictTotalOn R less l) (hl : Inequiv R l) : StrictTotalOnList less l :=
  ⟨h.irrefl, h.trans, List.Pairwise.imp_of_mem (fun ha hb he => h.total _ ha _ hb he) hl⟩

/-- sorted iteration order is a function of the member multiset -/
theorem valuesSorted_eq_of_perm {R : Rules α} (less : α → α → Bool) {s1 s2 : SetImpl α}
    (h1 : Inequiv R (values s1)) (hp : (values s1).Perm (values s2))
    (ht : StrictTotalOn R less (values s1)) : valuesSorted less s1 = valuesSorted less s2 :=
  sortStable_eq_of_perm less hp (ht.toList h1)

end SetImpl
end CtyModel
