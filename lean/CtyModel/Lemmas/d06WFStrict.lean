/-
C06 (d06): for capsule-free types the strict duplicate clause adds nothing — `Equals` evaluates on every pair of
members of a well-formed set (`D06Acc.equals_total`), so `Value.WF` implies `Value.WFc`, whatever the oracle.
The wrong-reason pass of the old clause is confined to capsule-bearing element types.
-/
import CtyModel.Lemmas.d06WF
import CtyModel.Lemmas.d06Access
import CtyModel.Lemmas.d06Walk
set_option linter.unusedSimpArgs false
set_option linter.unusedVariables false
namespace CtyModel
namespace D06
variable {nfc : String → Bool}

mutual
theorem hasCapsTy_eq : ∀ (t : Ty), hasCapsTy t = Ty.hasCapsule t
  | .capsule _ | .bool | .number | .string | .dyn => by simp [hasCapsTy, Ty.hasCapsule]
  | .list e | .set e | .map e => by simp [hasCapsTy, Ty.hasCapsule, hasCapsTy_eq e]
  | .tuple es => by simp [hasCapsTy, Ty.hasCapsule, hasCapsTyL_eq es]
  | .object _ ts _ => by simp [hasCapsTy, Ty.hasCapsule, hasCapsTyL_eq ts]
theorem hasCapsTyL_eq : ∀ (ts : List Ty), hasCapsTyL ts = Ty.hasCapsuleL ts
  | [] => rfl
  | t :: ts => by simp [hasCapsTyL, Ty.hasCapsuleL, hasCapsTy_eq t, hasCapsTyL_eq ts]
end

/-- on the members of a well-formed set of a capsule-free element type `Equals` evaluates for every pair -/
theorem pairsOk_of_wf {e : Ty} (he : e.ok nfc = true) (hc : Ty.hasCapsule e = false) {vs : List Payload}
    (hw : Payload.wfAll nfc e vs = true) (hm : Payload.containsMarkedL vs = false) : Value.pairsOk e vs = true := by
  simp only [Value.pairsOk, List.all_eq_true]
  intro x hx y hy
  have wx : Value.WF nfc ⟨e, x⟩ = true := by simp [Value.WF, he, Payload.wfAll_mem hw hx]
  have wy : Value.WF nfc ⟨e, y⟩ = true := by simp [Value.WF, he, Payload.wfAll_mem hw hy]
  obtain ⟨r, hr, _⟩ := D06Acc.equals_total (nfc := nfc) ⟨e, x⟩ ⟨e, y⟩ wx wy rfl hc
  have mx := D06Acc.containsMarkedL_mem hm x hx
  have my := D06Acc.containsMarkedL_mem hm y hy
  simp only [Value.equals, Value.containsMarked, mx, my, Bool.or_self, Bool.false_eq_true, if_false] at hr
  simp [hr, Res.isOk]

mutual
theorem setsDupFree_of_wfP : ∀ (t : Ty) (p : Payload), t.ok nfc = true → Ty.hasCapsule t = false →
    Payload.wfP nfc t p = true → setsDupFree t p = true
  | t, .marked ms r, ht, hc, h => by
    simp only [Payload.wfP_marked, Bool.and_eq_true] at h
    cases t <;> simp only [setsDupFree] <;> exact setsDupFree_of_wfP _ r ht hc h.2
  | t, .null, _, _, _ | t, .unk _, _, _, _ | t, .b _, _, _, _ | t, .n _, _, _, _ | t, .s _, _, _, _
  | t, .caps, _, _, _ | t, .bad _, _, _, _ => by cases t <;> simp [setsDupFree]
  | t, .seq vs, ht, hc, h => by
    cases t <;> simp [Payload.wfP] at h <;> simp only [setsDupFree]
    · simp only [Ty.hasCapsule] at hc
      exact dupFreeAll_of_wfAll _ vs (by simpa [Ty.ok_list] using ht) hc h
    · simp only [Ty.hasCapsule] at hc
      exact dupFreeZip_of_wfZip _ vs (by simpa [Ty.ok_tuple] using ht) hc h.2
  | t, .smap ks vs, ht, hc, h => by
    cases t <;> simp [Payload.wfP] at h <;> simp only [setsDupFree]
    · simp only [Ty.hasCapsule] at hc
      exact dupFreeAll_of_wfAll _ vs (by simpa [Ty.ok_map] using ht) hc h.2
    · simp only [Ty.hasCapsule] at hc
      exact dupFreeZip_of_wfZip _ vs (Ty.ok_object ht).1 hc h.2
  | t, .sset ids vs, ht, hc, h => by
    cases t <;> simp [Payload.wfP] at h
    rename_i e
    simp only [Ty.hasCapsule] at hc
    have he : e.ok nfc = true := by simpa [Ty.ok_set] using ht
    simp only [setsDupFree, Bool.and_eq_true]
    exact ⟨noDupS_of_noDup e vs (pairsOk_of_wf he hc h.2 h.1.1.2) h.1.2, dupFreeAll_of_wfAll e vs he hc h.2⟩
theorem dupFreeAll_of_wfAll : ∀ (e : Ty) (vs : List Payload), e.ok nfc = true → Ty.hasCapsule e = false →
    Payload.wfAll nfc e vs = true → dupFreeAll e vs = true
  | _, [], _, _, _ => rfl
  | e, v :: vs, he, hc, h => by
    simp only [Payload.wfAll, Bool.and_eq_true] at h
    simp [dupFreeAll, setsDupFree_of_wfP e v he hc h.1, dupFreeAll_of_wfAll e vs he hc h.2]
theorem dupFreeZip_of_wfZip : ∀ (ts : List Ty) (vs : List Payload), Ty.okL nfc ts = true → Ty.hasCapsuleL ts = false →
    Payload.wfZip nfc ts vs = true → dupFreeZip ts vs = true
  | [], _, _, _, _ => by simp [dupFreeZip]
  | _ :: _, [], _, _, _ => by simp [dupFreeZip]
  | t :: ts, v :: vs, ht, hc, h => by
    simp only [Payload.wfZip, Bool.and_eq_true] at h
    simp only [Ty.hasCapsuleL, Bool.or_eq_false_iff] at hc
    have ⟨h1, h2⟩ := D06Prod.okL_cons ht
    simp [dupFreeZip, setsDupFree_of_wfP t v h1 hc.1 h.1, dupFreeZip_of_wfZip ts vs h2 hc.2 h.2]
end

/-- **the old clause is right for capsule-free types**: a well-formed value whose type mentions no capsule type
satisfies the strict predicate, for every capsule oracle -/
theorem WFc_of_WF_noCaps (cid : Nat → Nat) {v : Value} (hv : v.WF nfc = true) (hc : Ty.hasCapsule v.ty = false) :
    v.WFc cid nfc = true := by
  have hc' : hasCapsTy v.ty = false := by rw [hasCapsTy_eq]; exact hc
  simp only [Value.WFc, hv, Bool.true_and]
  rw [dupFreeC_of_noCaps cid hc' hv]
  simp only [Value.WF, Bool.and_eq_true] at hv
  exact setsDupFree_of_wfP _ _ hv.1 hc hv.2

end D06
end CtyModel
