/-
C20 — the building blocks of the API programs (`append`, `Set.Add/Remove/Copy`,
element iteration, walk) maintain the heap invariant.
-/
import CtyModel.Lemmas.HeapInv
namespace CtyModel
namespace Heap

/-- relative to the base heap `m0` of the running call: ownership only moves
towards the library, the invariant holds, library-owned objects of `m0` are intact -/
structure Good (m0 m : Mem) : Prop where
  mono : Mono m0 m
  ok : HeapOK m
  pres : Preserves m0 m

theorem Good.refl {m : Mem} (h : HeapOK m) : Good m m := ⟨Mono.refl m, h, Preserves.refl m⟩

theorem rel_alloc {m0 m : Mem} (h : Preserves m0 m) (o : Owner) (b : Body) :
    Preserves m0 (alloc m o b).1 :=
  ⟨Nat.le_trans h.1 (by simp), fun a ha => by
    rw [alloc_get_old _ _ (Nat.lt_of_lt_of_le (frozenObj_lt ha) h.1), h.2 a ha]⟩

theorem rel_write {m0 m m' : Mem} (h : Preserves m0 m) {a : Addr} (ha : frozenObj m0 a = false)
    (hlen : m'.length = m.length) (hne : ∀ x, a ≠ x → m'[x]? = m[x]?) : Preserves m0 m' :=
  ⟨hlen ▸ h.1, fun x hx => by
    have : a ≠ x := by intro e; subst e; rw [hx] at ha; cases ha
    rw [hne x this, h.2 x hx]⟩

/-- not library-owned now ⇒ not library-owned in the base heap -/
theorem not_frozen_base {m0 m : Mem} (hM : Mono m0 m) {a : Addr} (h : frozenObj m a = false) :
    frozenObj m0 a = false := by
  cases hf : frozenObj m0 a with
  | false => rfl
  | true =>
    exfalso
    have hlt := frozenObj_lt hf
    obtain ⟨o, ho⟩ : ∃ o, m0[a]? = some o := ⟨m0[a], List.getElem?_eq_getElem hlt⟩
    obtain ⟨o', ho', _, hw⟩ := hM.2 a o ho
    have hown : ∀ {x : Addr} {ow : Owner}, ownerOf m0 x = some ow → ow ≠ .caller → ownerOf m x = some ow := by
      intro x ow hx hne
      cases hmx : m0[x]? with
      | none => simp [ownerOf, hmx] at hx
      | some ox =>
        obtain ⟨ox', hox', _, hwx⟩ := hM.2 x ox hmx
        have e : ox.owner = ow := by simpa [ownerOf, hmx] using hx
        rcases hwx with hwx | ⟨hwx, _⟩
        · simp [ownerOf, hox', hwx, e]
        · exact absurd (e ▸ hwx) hne
    unfold frozenObj at hf h
    cases ho0 : ownerOf m0 a with
    | none => simp [ho0] at hf
    | some ow =>
      cases ow with
      | lib => rw [hown ho0 (by simp)] at h; cases h
      | libset => rw [hown ho0 (by simp)] at h; cases h
      | bucket b =>
        rw [ho0] at hf
        rw [hown ho0 (by simp)] at h
        have hb : ownerOf m0 b = some .libset := by simpa using hf
        simp [hown hb (by simp)] at h
      | caller => simp [ho0] at hf
      | helper => simp [ho0] at hf
      | scratch => simp [ho0] at hf

theorem good_alloc {m0 m : Mem} (h : Good m0 m) {o : Owner} {b : Body} (hb : NewBodyOK m o b) :
    Good m0 (alloc m o b).1 :=
  ⟨mono_alloc h.mono o b, heapOK_alloc h.ok hb, rel_alloc h.pres o b⟩

theorem good_setBody {m0 m : Mem} (h : Good m0 m) {a : Addr} {o : Obj} (hm : m[a]? = some o) {b : Body}
    (hk : sameKind o.body b = true) (hf : frozenObj m a = false)
    (hb : ObjOK (setBody m a b) a { o with body := b }) : Good m0 (setBody m a b) :=
  ⟨mono_setBody h.mono hm hk, heapOK_setBody h.ok hm hk hf hb,
    rel_write h.pres (not_frozen_base h.mono hf) (by simp) (fun _ hx => setBody_get_ne b hx)⟩

theorem good_freezeCaller {m0 m : Mem} (h : Good m0 m) (a : Addr) : Good m0 (freezeCaller m a) := by
  refine ⟨mono_freezeCaller h.mono a, heapOK_freezeCaller h.ok a, ?_⟩
  unfold freezeCaller
  split
  · rename_i ho
    have hf : frozenObj m a = false := not_frozen_of_owner (by simpa using ho) (by simp) (by simp)
    exact rel_write h.pres (not_frozen_base h.mono hf) (by simp) (fun _ hx => freeze_get_ne hx)
  · exact h.pres

theorem good_publish {m0 m : Mem} (h : Good m0 m) {a : Addr} {kvs : List (Key × Word)}
    (hm : m[a]? = some ⟨.helper, .gomap kvs⟩) (ha : m0.length ≤ a) : Good m0 (publish m a) :=
  ⟨mono_publish h.mono ha, heapOK_publish h.ok hm,
    rel_write h.pres (frozenObj_ge ha) (by simp) (fun _ hx => publish_get_ne hx)⟩

/-! ### reading -/

theorem cells_frozen {m : Mem} (hok : HeapOK m) {a : Addr} {cs : List Word} (h : cellsOf m a = some cs) :
    ∀ c ∈ cs, FrozenAll m c := by
  unfold cellsOf at h
  cases hm : m[a]? with
  | none => simp [hm] at h
  | some o =>
    rcases o with ⟨ow, bd⟩
    cases bd <;> simp [hm] at h
    subst h
    exact hok a _ hm

theorem elems_frozen {m : Mem} (hok : HeapOK m) {w : Word} {xs : List Word}
    (h : sliceElems m w = some xs) : ∀ x ∈ xs, FrozenAll m x := by
  cases w with
  | null => simp [sliceElems] at h; subst h; intro x hx; cases hx
  | slice arr off len cap =>
    simp only [sliceElems, Option.map_eq_some_iff] at h
    obtain ⟨cs, hc, e⟩ := h
    subst e
    exact fun x hx => cells_frozen hok hc x (window_subset hx)
  | _ => simp [sliceElems] at h

theorem splitPairs_frozen {m : Mem} : ∀ (cells : List Word) (ts vs : List Word),
    (∀ c ∈ cells, FrozenAll m c) → splitPairs cells = some (ts, vs) →
    (∀ t ∈ ts, FrozenAll m t) ∧ (∀ v ∈ vs, FrozenAll m v) ∧ vs.length = cells.length ∧ ts.length = cells.length := by
  intro cells
  induction cells with
  | nil => intro ts vs _ h; simp [splitPairs] at h; obtain ⟨rfl, rfl⟩ := h; simp
  | cons c r ih =>
    intro ts vs hc h
    cases c <;> simp only [splitPairs, Option.map_eq_some_iff, reduceCtorEq] at h
    rename_i t v
    obtain ⟨p, hp, e⟩ := h
    rcases p with ⟨ts', vs'⟩
    cases e
    obtain ⟨h1, h2, h3, h4⟩ := ih ts' vs' (fun c hcm => hc c (List.mem_cons_of_mem _ hcm)) hp
    have hpair := frozenAll_pair.mp (hc _ List.mem_cons_self)
    refine ⟨?_, ?_, by simp [h3], by simp [h4]⟩
    · intro x hx
      rcases List.mem_cons.mp hx with e | e
      · subst e; exact hpair.1
      · exact h1 x e
    · intro x hx
      rcases List.mem_cons.mp hx with e | e
      · subst e; exact hpair.2
      · exact h2 x e

theorem splitKV_frozen {m : Mem} : ∀ (kvs kts kvv : List (Key × Word)),
    (∀ kv ∈ kvs, FrozenAll m kv.2) → splitKV kvs = some (kts, kvv) →
    (∀ kv ∈ kts, FrozenAll m kv.2) ∧ (∀ kv ∈ kvv, FrozenAll m kv.2) := by
  intro kvs
  induction kvs with
  | nil => intro kts kvv _ h; simp [splitKV] at h; obtain ⟨rfl, rfl⟩ := h; simp
  | cons c r ih =>
    intro kts kvv hc h
    rcases c with ⟨k, w⟩
    cases w <;> simp only [splitKV, Option.map_eq_some_iff, reduceCtorEq] at h
    rename_i t v
    obtain ⟨p, hp, e⟩ := h
    rcases p with ⟨ts', vs'⟩
    cases e
    obtain ⟨h1, h2⟩ := ih ts' vs' (fun c hcm => hc c (List.mem_cons_of_mem _ hcm)) hp
    have hpair := frozenAll_pair.mp (hc _ List.mem_cons_self)
    constructor
    · intro x hx
      rcases List.mem_cons.mp hx with e | e
      · subst e; exact hpair.1
      · exact h1 x e
    · intro x hx
      rcases List.mem_cons.mp hx with e | e
      · subst e; exact hpair.2
      · exact h2 x e

theorem elemType_frozen {m : Mem} : ∀ (ts : List Word), (∀ t ∈ ts, FrozenAll m t) → FrozenAll m (elemType ts) := by
  intro ts
  induction ts with
  | nil => intro _; exact frozenAll_tprim
  | cons t r ih =>
    intro h
    simp only [elemType]
    split
    · exact ih fun x hx => h x (List.mem_cons_of_mem _ hx)
    · exact h t List.mem_cons_self

/-! ### `append` -/

theorem mem_set_cases {l : List Word} {i : Nat} {x y : Word} (h : y ∈ l.set i x) : y = x ∨ y ∈ l := by
  rcases List.mem_or_eq_of_mem_set h with h | h
  · exact .inr h
  · exact .inl h

/-- one step seen from both ends: from the call's base `m0` and from the heap `m` it starts in -/
structure Good2 (m0 m m' : Mem) : Prop where
  good : Good m0 m'
  mono : Mono m m'
  pres : Preserves m m'

theorem Good2.refl {m0 m : Mem} (h : Good m0 m) : Good2 m0 m m := ⟨h, Mono.refl m, Preserves.refl m⟩

theorem Good2.trans {m0 m m1 m2 : Mem} (h1 : Good2 m0 m m1) (h2 : Good2 m0 m1 m2) : Good2 m0 m m2 :=
  ⟨h2.good, h1.mono.trans h2.mono, h1.pres.trans h2.pres⟩

theorem good2_alloc {m0 m : Mem} (h : Good m0 m) {o : Owner} {b : Body} (hb : NewBodyOK m o b) :
    Good2 m0 m (alloc m o b).1 :=
  ⟨good_alloc h hb, mono_alloc (Mono.refl m) o b, preserves_alloc m o b⟩

theorem good2_setBody {m0 m : Mem} (h : Good m0 m) {a : Addr} {o : Obj} (hm : m[a]? = some o) {b : Body}
    (hk : sameKind o.body b = true) (hf : frozenObj m a = false)
    (hb : ObjOK (setBody m a b) a { o with body := b }) : Good2 m0 m (setBody m a b) :=
  ⟨good_setBody h hm hk hf hb, mono_setBody (Mono.refl m) hm hk, preserves_setBody b hf⟩

/-- an object of `m` that is not caller-owned is still there with the same owner and kind -/
theorem Mono.keeps {m m' : Mem} (h : Mono m m') {a : Addr} {o : Obj} (hm : m[a]? = some o)
    (hne : o.owner ≠ .caller) : ∃ o', m'[a]? = some o' ∧ o'.owner = o.owner ∧ sameKind o.body o'.body = true := by
  obtain ⟨o', ho', hk, hw⟩ := h.2 a o hm
  rcases hw with hw | ⟨hw, _⟩
  · exact ⟨o', ho', hw, hk⟩
  · exact absurd hw hne

theorem Mono.keeps_array {m m' : Mem} (h : Mono m m') {a b : Addr} {cells : List Word}
    (hm : m[a]? = some ⟨.bucket b, .array cells⟩) : ∃ cells', m'[a]? = some ⟨.bucket b, .array cells'⟩ := by
  obtain ⟨o', ho', how, hk⟩ := h.keeps hm (by simp)
  rcases o' with ⟨ow, bd⟩
  simp only at how
  subst how
  cases bd <;> simp [sameKind] at hk
  exact ⟨_, ho'⟩

theorem Mono.keeps_gomap {m m' : Mem} (h : Mono m m') {a : Addr} {ow : Owner} {kvs : List (Key × Word)}
    (hm : m[a]? = some ⟨ow, .gomap kvs⟩) (hne : ow ≠ .caller) :
    ∃ kvs', m'[a]? = some ⟨ow, .gomap kvs'⟩ := by
  obtain ⟨o', ho', how, hk⟩ := h.keeps hm hne
  rcases o' with ⟨ow', bd⟩
  simp only at how
  subst how
  cases bd <;> simp [sameKind] at hk
  exact ⟨_, ho'⟩

theorem good_goAppend {m0 m m' : Mem} (h : Good m0 m) {own : Owner} {s x s' : Word}
    (hs : ∀ arr off len cap, s = .slice arr off len cap → len < cap →
      frozenObj m arr = false ∧ ownerOf m arr = some own)
    (hx : FrozenAll m x) (he : goAppend m own s x = some (m', s')) :
    Good2 m0 m m' ∧
      (∃ arr off len cap cells, s' = .slice arr off len cap ∧ m'[arr]? = some ⟨own, .array cells⟩) ∧
      (∀ y o, m[y]? = some o → (∀ arr off len cap, s = .slice arr off len cap → y ≠ arr) → m'[y]? = some o) := by
  cases s with
  | null =>
    simp only [goAppend] at he
    cases he
    refine ⟨good2_alloc h ?_, ⟨_, _, _, _, _, rfl, alloc_get_new _ _ _⟩,
      fun y o hy _ => by rw [alloc_get_old _ _ (get_lt hy), hy]⟩
    intro c hc; simp at hc; subst hc; exact hx
  | slice arr off len cap =>
    simp only [goAppend] at he
    cases hc : cellsOf m arr with
    | none => simp [hc] at he
    | some cells =>
      simp only [hc] at he
      have hcells := cells_frozen h.ok hc
      split at he
      · rename_i hlt
        cases he
        obtain ⟨hf, hown⟩ := hs arr off len cap rfl hlt
        unfold cellsOf at hc
        cases hm : m[arr]? with
        | none => simp [hm] at hc
        | some o =>
          rcases o with ⟨ow, bd⟩
          cases bd <;> simp [hm] at hc
          subst hc
          have how : ow = own := by simpa [ownerOf, hm] using hown
          subst how
          refine ⟨good2_setBody h hm rfl hf ?_, ⟨_, _, _, _, _, rfl, setBody_get_self' _ hm⟩,
            fun y o hy hne => by rw [setBody_get_ne _ (Ne.symm (hne arr off len cap rfl)), hy]⟩
          intro c hcm
          rcases mem_set_cases hcm with e | e
          · subst e; exact frozenAll_stable (preserves_setBody _ hf) hx
          · exact frozenAll_stable (preserves_setBody _ hf) (hcells c e)
      · cases he
        refine ⟨good2_alloc h ?_, ⟨_, _, _, _, _, rfl, alloc_get_new _ _ _⟩,
          fun y o hy _ => by rw [alloc_get_old _ _ (get_lt hy), hy]⟩
        intro c hcm
        simp only [List.mem_append, List.mem_singleton, List.mem_replicate] at hcm
        rcases hcm with (hcm | hcm) | hcm
        · exact hcells c (window_subset hcm)
        · subst hcm; exact hx
        · rw [hcm.2]; exact frozenAll_null
  | _ => simp [goAppend] at he

/-! ### `Set.Add`, `Set.Remove`, `Set.Copy` -/

theorem bucketsOf_of_ok {m : Mem} (hok : HeapOK m) {a : Addr} {ow : Owner} {kvs : List (Key × Word)}
    (hm : m[a]? = some ⟨ow, .gomap kvs⟩) (hs : isSetOwner ow = true) : BucketsOf m a kvs := by
  have := hok a _ hm
  unfold ObjOK at this
  simpa [hs] using this

theorem bucketsOf_mono {m m' : Mem} (h : Mono m m') {a : Addr} {kvs : List (Key × Word)}
    (hb : BucketsOf m a kvs) : BucketsOf m' a kvs := by
  intro kv hkv
  obtain ⟨arr, off, len, cap, cells, e, hma⟩ := hb kv hkv
  obtain ⟨cells', hma'⟩ := h.keeps_array hma
  exact ⟨arr, off, len, cap, cells', e, hma'⟩

theorem helper_not_frozen {m : Mem} {a : Addr} {b : Body} (hm : m[a]? = some ⟨.helper, b⟩) :
    frozenObj m a = false :=
  not_frozen_of_owner (o := .helper) (by simp [ownerOf, hm]) (by simp) (by simp)

theorem bucket_not_frozen {m : Mem} {a arr : Addr} {b bd : Body} (hm : m[a]? = some ⟨.helper, b⟩)
    (harr : m[arr]? = some ⟨.bucket a, bd⟩) : frozenObj m arr = false := by
  simp [frozenObj, ownerOf, harr, hm]

/-- updating the bucket map of a helper set with buckets in order -/
theorem good2_setBuckets {m0 m : Mem} (h : Good m0 m) {a : Addr} {kvs kvs' : List (Key × Word)}
    (hm : m[a]? = some ⟨.helper, .gomap kvs⟩) (hb : BucketsOf m a kvs') :
    Good2 m0 m (setBody m a (.gomap kvs')) := by
  refine good2_setBody h hm rfl (helper_not_frozen hm) ?_
  unfold ObjOK
  simp only [isSetOwner, if_true]
  intro kv hkv
  obtain ⟨arr, off, len, cap, cells, e, hma⟩ := hb kv hkv
  have hne : a ≠ arr := by intro e2; subst e2; rw [hm] at hma; cases hma
  exact ⟨arr, off, len, cap, cells, e, by rw [setBody_get_ne _ hne, hma]⟩

theorem good_setAdd {m0 m m' : Mem} (h : Good m0 m) {eq : Equiv} {a : Addr} {kvs : List (Key × Word)}
    {x : Word} {hh : Int} (hm : m[a]? = some ⟨.helper, .gomap kvs⟩) (hx : FrozenAll m x)
    (he : setAdd eq m a x hh = some m') :
    Good2 m0 m m' ∧ ∃ kvs', m'[a]? = some ⟨.helper, .gomap kvs'⟩ := by
  unfold setAdd at he
  simp only [kvsOf_eq hm] at he
  -- with the bucket at hand
  have key : ∀ (m1 : Mem) (b : Word) (kvs1 : List (Key × Word)), Good2 m0 m m1 →
      m1[a]? = some ⟨.helper, .gomap kvs1⟩ →
      (∃ arr off len cap cells, b = .slice arr off len cap ∧ m1[arr]? = some ⟨.bucket a, .array cells⟩) →
      (match sliceElems m1 b with
        | none => none
        | some elems =>
          if elems.any (eq m1 x) then some m1
          else match goAppend m1 (.bucket a) b x with
            | none => none
            | some (m2, b') => match kvsOf m2 a with
              | none => none
              | some kvs2 => some (setBody m2 a (.gomap (kvInsert (.i hh) b' kvs2)))) = some m' →
      Good2 m0 m m' ∧ ∃ kvs', m'[a]? = some ⟨.helper, .gomap kvs'⟩ := by
    intro m1 b kvs1 h1 hm1 hb he
    obtain ⟨arr, off, len, cap, cells, eb, harr⟩ := hb
    subst eb
    simp only [sliceElems, cellsOf_eq harr, Option.map_some] at he
    split at he
    · cases he; exact ⟨h1, kvs1, hm1⟩
    · cases hg : goAppend m1 (.bucket a) (.slice arr off len cap) x with
      | none => simp [hg] at he
      | some r =>
        rcases r with ⟨m2, b'⟩
        simp only [hg] at he
        have hx1 : FrozenAll m1 x := frozenAll_stable h1.pres hx
        obtain ⟨h2, ⟨arr', off', len', cap', cells', eb', harr'⟩, hother⟩ :=
          good_goAppend h1.good (own := .bucket a)
            (fun arr2 off2 len2 cap2 e _ => by
              cases e
              exact ⟨bucket_not_frozen hm1 harr, by simp [ownerOf, harr]⟩) hx1 hg
        have hm2 : m2[a]? = some ⟨.helper, .gomap kvs1⟩ :=
          hother a _ hm1 (fun arr2 _ _ _ e => by
            cases e; intro e2; subst e2; rw [hm1] at harr; cases harr)
        simp only [kvsOf_eq hm2] at he
        cases he
        have hb1 : BucketsOf m2 a kvs1 := bucketsOf_of_ok h2.good.ok hm2 rfl
        have hb2 : BucketsOf m2 a (kvInsert (.i hh) b' kvs1) := by
          intro kv hkv
          rcases mem_kvInsert hkv with e | e
          · subst e; exact ⟨arr', off', len', cap', cells', eb', harr'⟩
          · exact hb1 kv e
        exact ⟨(h1.trans h2).trans (good2_setBuckets h2.good hm2 hb2), _, setBody_get_self' _ hm2⟩
  have hbk : BucketsOf m a kvs := bucketsOf_of_ok h.ok hm rfl
  cases hl : kvLookup (.i hh) kvs with
  | some b =>
    simp only [hl] at he
    obtain ⟨arr, off, len, cap, cells, e, harr⟩ := hbk _ (mem_of_kvLookup hl)
    exact key m b kvs (Good2.refl h) hm ⟨arr, off, len, cap, cells, e, harr⟩ he
  | none =>
    simp only [hl] at he
    -- s.vals[hv] = make([]T, 0, 1)
    have hA := good2_alloc h (o := .bucket a) (b := .array [.null])
      (by intro c hc; simp at hc; subst hc; exact frozenAll_null)
    have hmA : (alloc m (.bucket a) (.array [.null])).1[a]? = some ⟨.helper, .gomap kvs⟩ := by
      rw [alloc_get_old _ _ (get_lt hm), hm]
    have hnew : (alloc m (.bucket a) (.array [.null])).1[m.length]? = some ⟨.bucket a, .array [.null]⟩ :=
      alloc_get_new _ _ _
    have hbA : BucketsOf (alloc m (.bucket a) (.array [.null])).1 a (kvInsert (.i hh) (.slice m.length 0 0 1) kvs) := by
      intro kv hkv
      rcases mem_kvInsert hkv with e | e
      · subst e; exact ⟨m.length, 0, 0, 1, _, rfl, hnew⟩
      · exact bucketsOf_mono hA.mono hbk kv e
    have hS := good2_setBuckets hA.good hmA hbA
    have hne : a ≠ m.length := Nat.ne_of_lt (get_lt hm)
    refine key _ _ _ (hA.trans hS) (setBody_get_self' _ hmA)
      ⟨m.length, 0, 0, 1, _, rfl, by rw [setBody_get_ne _ hne, hnew]⟩ he

end Heap
end CtyModel
