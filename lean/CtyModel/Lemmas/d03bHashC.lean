/-
d03b — the set hash text as a text over CHARACTERS.  `hashS` (the transliteration of
`appendSetHashBytes` that the hash.bytes correspondence diffs) concatenates UTF-8
bytes; on set-free types every piece is the encoding of a string, so the whole
is `sb (hashC t p)` for a character-level function `hashC` — a proof device: the
theorems of `d03bInj.lean` are stated about `hashS`/`hashBytes`.
-/
import CtyModel.Lemmas.d03bQuote
import CtyModel.Lemmas.d03Less
namespace CtyModel
namespace D03b

/-- UTF-8 bytes of a list of characters -/
def sb (cs : List Char) : Bytes := strBytes (String.ofList cs)

theorem sb_append (a b : List Char) : sb (a ++ b) = sb a ++ sb b := by
  simp only [sb, strBytes, String.ofList_append, String.toUTF8, String.toByteArray_append]
  rw [ByteArray.toList_eq_data', ByteArray.toList_eq_data', ByteArray.toList_eq_data', ByteArray.data_append]
  simp

theorem sb_inj {a b : List Char} (h : sb a = sb b) : a = b := by
  have := strBytes_inj h
  have h2 := congrArg String.toList this
  simpa using h2

theorem sb_str (s : String) : strBytes s = sb s.toList := by simp [sb]

/-- `%q` of a string, as characters -/
def qC (s : String) : Option (List Char) :=
  match quoteChars s.toList with
  | some cs => some ('"' :: cs ++ ['"'])
  | none => none

theorem quote_ok {s : String} {bs : Bytes} (h : quote s = .ok bs) : ∃ cs, qC s = some cs ∧ bs = sb cs := by
  simp only [quote] at h
  split at h
  · rename_i cs hc
    injection h with h
    exact ⟨'"' :: cs ++ ['"'], by simp [qC, hc], by rw [← h]; rfl⟩
  · cases h

mutual
def hashC : Ty → Payload → Option (List Char)
  | t, .marked _ r => hashC t r
  | _, .unk _ => some ['?']
  | _, .null => some ['~']
  | .number, .n x => some (numHashText x).toList
  | .bool, .b v => some [if v then 'T' else 'F']
  | .string, .s v => qC v
  | .map e, .smap ks vs => (hashMapC e ks vs).map fun m => '{' :: m ++ ['}']
  | .list e, .seq vs => (hashAllC e vs).map fun m => '[' :: m ++ [']']
  | .object _ ts _, .smap _ vs => (hashZipC ts vs).map fun m => '<' :: m ++ ['>']
  | .tuple ts, .seq vs => (hashZipC ts vs).map fun m => '<' :: m ++ ['>']
  | .capsule _, .caps => some ['«', '?', '»']
  | _, _ => none
termination_by structural _ p => p
def hashAllC : Ty → List Payload → Option (List Char)
  | _, [] => some []
  | e, v :: vs =>
    match hashC e v, hashAllC e vs with
    | some a, some b => some (a ++ ';' :: b)
    | _, _ => none
def hashZipC : List Ty → List Payload → Option (List Char)
  | t :: ts, v :: vs =>
    match hashC t v, hashZipC ts vs with
    | some a, some b => some (a ++ ';' :: b)
    | _, _ => none
  | _, _ => some []
def hashMapC : Ty → List String → List Payload → Option (List Char)
  | e, k :: ks, v :: vs =>
    match qC k, hashC e v, hashMapC e ks vs with
    | some q, some a, some b => some (q ++ ':' :: (a ++ ';' :: b))
    | _, _, _ => none
  | _, _, _ => some []
end

theorem app_inv {a b : Res Bytes} {bs : Bytes} (h : Res.app a b = .ok bs) :
    ∃ x y, a = .ok x ∧ b = .ok y ∧ bs = x ++ y := by
  cases a <;> cases b <;> simp [Res.app] at h
  exact ⟨_, _, rfl, rfl, h.symm⟩

theorem c63 : ([63] : Bytes) = sb ['?'] := by decide +kernel
theorem c126 : ([126] : Bytes) = sb ['~'] := by decide +kernel
theorem c84 : ([84] : Bytes) = sb ['T'] := by decide +kernel
theorem c70 : ([70] : Bytes) = sb ['F'] := by decide +kernel
theorem c123 : ([123] : Bytes) = sb ['{'] := by decide +kernel
theorem c125 : ([125] : Bytes) = sb ['}'] := by decide +kernel
theorem c91 : ([91] : Bytes) = sb ['['] := by decide +kernel
theorem c93 : ([93] : Bytes) = sb [']'] := by decide +kernel
theorem c60 : ([60] : Bytes) = sb ['<'] := by decide +kernel
theorem c62 : ([62] : Bytes) = sb ['>'] := by decide +kernel
theorem c58 : ([58] : Bytes) = sb [':'] := by decide +kernel
theorem c59 : semi = sb [';'] := by decide +kernel
theorem ccap : strBytes "«?»" = sb ['«', '?', '»'] := by decide +kernel

end D03b
end CtyModel

namespace CtyModel
namespace D03b

theorem wrap_tie (o c : Char) {bo bc : Bytes} (ho : bo = sb [o]) (hc : bc = sb [c]) {r : Res Bytes} {bs : Bytes}
    (h : Res.app (.ok bo) (Res.app r (.ok bc)) = .ok bs) :
    ∃ m, r = .ok m ∧ ∀ cm, m = sb cm → bs = sb (o :: cm ++ [c]) := by
  obtain ⟨x, y, hx, hy, rfl⟩ := app_inv h
  obtain ⟨m, z, hm, hz, rfl⟩ := app_inv hy
  injection hx with hx; injection hz with hz
  subst hx; subst hz
  refine ⟨m, hm, fun cm e => ?_⟩
  rw [e, ho, hc, ← sb_append, ← sb_append]; rfl

theorem item_tie {a r : Res Bytes} {bs : Bytes} (h : Res.app a (Res.app (.ok semi) r) = .ok bs) :
    ∃ x m, a = .ok x ∧ r = .ok m ∧ ∀ cx cm, x = sb cx → m = sb cm → bs = sb (cx ++ ';' :: cm) := by
  obtain ⟨x, y, hx, hy, rfl⟩ := app_inv h
  obtain ⟨s, m, hs, hm, rfl⟩ := app_inv hy
  injection hs with hs; subst hs
  refine ⟨x, m, hx, hm, fun cx cm e1 e2 => ?_⟩
  rw [e1, e2, c59, ← sb_append, ← sb_append]; rfl

mutual
theorem hashS_tie (sh : SetHashRec) : ∀ (t : Ty) (p : Payload), t.setFree = true → p.shaped t = true →
    ∀ bs, hashS sh t p = .ok bs → ∃ cs, hashC t p = some cs ∧ bs = sb cs
  | t, .marked _ r, hp, hw, bs, h => by
    simp only [Payload.shaped, Bool.and_eq_true] at hw
    simp only [hashS] at h
    simp only [hashC]
    exact hashS_tie sh t r hp hw.2 bs h
  | t, .unk _, _, _, bs, h => by
    cases t <;> (simp only [hashS, Res.ok.injEq] at h; subst h; exact ⟨_, rfl, c63⟩)
  | t, .null, _, _, bs, h => by
    cases t <;> (simp only [hashS, Res.ok.injEq] at h; subst h; exact ⟨_, rfl, c126⟩)
  | t, .b v, _, hw, bs, h => by
    simp only [Payload.shaped, Ty.isBool_iff] at hw
    subst hw
    simp only [hashS, Res.ok.injEq] at h; subst h
    cases v
    · exact ⟨_, rfl, c70⟩
    · exact ⟨_, rfl, c84⟩
  | t, .n x, _, hw, bs, h => by
    simp only [Payload.shaped, Ty.isNumber_iff] at hw
    subst hw
    simp only [hashS, Res.ok.injEq] at h; subst h
    exact ⟨_, rfl, sb_str _⟩
  | t, .s v, _, hw, bs, h => by
    simp only [Payload.shaped, Ty.isString_iff] at hw
    subst hw
    simp only [hashS] at h
    simpa [hashC] using quote_ok h
  | t, .seq xs, hp, hw, bs, h => by
    cases t <;> simp [Payload.shaped] at hw
    case list e =>
      simp only [Ty.setFree] at hp
      simp only [hashS] at h
      obtain ⟨m, hm, hb⟩ := wrap_tie '[' ']' c91 c93 h
      obtain ⟨cm, hc, rfl⟩ := hashAllS_tie sh e xs hp hw m hm
      exact ⟨_, by simp [hashC, hc], hb cm rfl⟩
    case tuple ts =>
      simp only [Ty.setFree] at hp
      simp only [hashS] at h
      obtain ⟨m, hm, hb⟩ := wrap_tie '<' '>' c60 c62 h
      obtain ⟨cm, hc, rfl⟩ := hashZipS_tie sh ts xs hp hw m hm
      exact ⟨_, by simp [hashC, hc], hb cm rfl⟩
  | t, .smap ks xs, hp, hw, bs, h => by
    cases t <;> simp [Payload.shaped] at hw
    case map e =>
      simp only [Ty.setFree] at hp
      simp only [hashS] at h
      obtain ⟨m, hm, hb⟩ := wrap_tie '{' '}' c123 c125 h
      obtain ⟨cm, hc, rfl⟩ := hashMapS_tie sh e ks xs hp hw.2 m hm
      exact ⟨_, by simp [hashC, hc], hb cm rfl⟩
    case object ns ts os =>
      simp only [Ty.setFree] at hp
      simp only [hashS] at h
      obtain ⟨m, hm, hb⟩ := wrap_tie '<' '>' c60 c62 h
      obtain ⟨cm, hc, rfl⟩ := hashZipS_tie sh ts xs hp hw.2 m hm
      exact ⟨_, by simp [hashC, hc], hb cm rfl⟩
  | t, .sset _ _, hp, hw, _, _ => by
    cases t <;> simp [Payload.shaped] at hw
    simp [Ty.setFree] at hp
  | t, .caps, _, hw, bs, h => by
    cases t <;> simp [Payload.shaped] at hw
    simp only [hashS, Res.ok.injEq] at h; subst h
    exact ⟨_, rfl, ccap⟩
  | _, .bad _, _, hw, _, _ => by simp [Payload.shaped] at hw
theorem hashAllS_tie (sh : SetHashRec) : ∀ (e : Ty) (xs : List Payload), e.setFree = true →
    Payload.shapedAll e xs = true → ∀ bs, hashAllS sh e xs = .ok bs → ∃ cs, hashAllC e xs = some cs ∧ bs = sb cs
  | _, [], _, _, bs, h => by
    simp only [hashAllS, Res.ok.injEq] at h; subst h
    exact ⟨[], rfl, by decide +kernel⟩
  | e, x :: xs, hp, hw, bs, h => by
    simp only [Payload.shapedAll, Bool.and_eq_true] at hw
    simp only [hashAllS] at h
    obtain ⟨bx, m, hx, hm, hb⟩ := item_tie h
    obtain ⟨cx, hcx, rfl⟩ := hashS_tie sh e x hp hw.1 bx hx
    obtain ⟨cm, hcm, rfl⟩ := hashAllS_tie sh e xs hp hw.2 m hm
    exact ⟨_, by simp [hashAllC, hcx, hcm], hb cx cm rfl rfl⟩
theorem hashZipS_tie (sh : SetHashRec) : ∀ (ts : List Ty) (xs : List Payload), Ty.setFreeL ts = true →
    Payload.shapedZip ts xs = true → ∀ bs, hashZipS sh ts xs = .ok bs → ∃ cs, hashZipC ts xs = some cs ∧ bs = sb cs
  | [], xs, _, _, bs, h => by
    cases xs <;> (simp only [hashZipS, Res.ok.injEq] at h; subst h; exact ⟨[], by simp [hashZipC], by decide +kernel⟩)
  | _ :: _, [], _, hw, _, _ => by simp [Payload.shapedZip] at hw
  | t :: ts, x :: xs, hp, hw, bs, h => by
    simp only [Payload.shapedZip, Ty.setFreeL, Bool.and_eq_true] at hw hp
    simp only [hashZipS] at h
    obtain ⟨bx, m, hx, hm, hb⟩ := item_tie h
    obtain ⟨cx, hcx, rfl⟩ := hashS_tie sh t x hp.1 hw.1 bx hx
    obtain ⟨cm, hcm, rfl⟩ := hashZipS_tie sh ts xs hp.2 hw.2 m hm
    exact ⟨_, by simp [hashZipC, hcx, hcm], hb cx cm rfl rfl⟩
theorem hashMapS_tie (sh : SetHashRec) : ∀ (e : Ty) (ks : List String) (xs : List Payload), e.setFree = true →
    Payload.shapedAll e xs = true → ∀ bs, hashMapS sh e ks xs = .ok bs → ∃ cs, hashMapC e ks xs = some cs ∧ bs = sb cs
  | _, [], xs, _, _, bs, h => by
    cases xs <;> (simp only [hashMapS, Res.ok.injEq] at h; subst h; exact ⟨[], by simp [hashMapC], by decide +kernel⟩)
  | _, _ :: _, [], _, _, bs, h => by
    simp only [hashMapS, Res.ok.injEq] at h; subst h; exact ⟨[], by simp [hashMapC], by decide +kernel⟩
  | e, k :: ks, x :: xs, hp, hw, bs, h => by
    simp only [Payload.shapedAll, Bool.and_eq_true] at hw
    simp only [hashMapS] at h
    obtain ⟨bk, r, hk, hr, rfl⟩ := app_inv h
    obtain ⟨bc, r2, hc, hr2, rfl⟩ := app_inv hr
    injection hc with hc; subst hc
    obtain ⟨bx, m, hx, hm, hb⟩ := item_tie hr2
    obtain ⟨ck, hck, rfl⟩ := quote_ok hk
    obtain ⟨cx, hcx, rfl⟩ := hashS_tie sh e x hp hw.1 bx hx
    obtain ⟨cm, hcm, rfl⟩ := hashMapS_tie sh e ks xs hp hw.2 m hm
    refine ⟨ck ++ ':' :: (cx ++ ';' :: cm), by simp [hashMapC, hck, hcx, hcm], ?_⟩
    rw [hb cx cm rfl rfl, c58, ← sb_append, ← sb_append]; rfl
end

end D03b
end CtyModel
