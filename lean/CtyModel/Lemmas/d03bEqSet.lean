/-
d03b — `Equals` on SET values (cty/value_ops.go, set branch: every member of either
set is looked up in the other by `Has` — hash bucket, then `Equals` on the members).

  * `sorted_match`      two duplicate-free lists, each sorted by a strict order that
                        respects an equivalence `R`, that represent the same classes
                        are equivalent position by position
  * `setInclWK_spec`    the loop of the set branch computes "every member of `xs`
                        has an `R`-partner in `ys`" when the members' `Equals` is `R`
                        and `R`-partners share their bucket id
-/
import CtyModel.Lemmas.d03bEncTop
namespace CtyModel
namespace D03b
open Value SetImpl

/-- position-by-position comparison -/
def pairR {α : Type} (R : α → α → Bool) : List α → List α → Bool
  | x :: xs, y :: ys => R x y && pairR R xs ys
  | _, _ => true

theorem sorted_match {α : Type} (R less : α → α → Bool) (S : α → Prop)
    (Rsymm : ∀ a b, S a → S b → R a b = true → R b a = true)
    (Rtrans : ∀ a b c, S a → S b → S c → R a b = true → R b c = true → R a c = true)
    (compat : ∀ a a' b b', S a → S a' → S b → S b' → R a a' = true → R b b' = true → less a b = less a' b') :
    ∀ (l1 l2 : List α), (∀ a ∈ l1, S a) → (∀ a ∈ l2, S a) → (∀ a ∈ l1, less a a = false) →
      (∀ a ∈ l1, ∀ b ∈ l1, ∀ c ∈ l1, less a b = true → less b c = true → less a c = true) →
      l1.Pairwise (fun a b => less a b = true) → l2.Pairwise (fun a b => less a b = true) →
      l1.Pairwise (fun a b => R a b = false) → l2.Pairwise (fun a b => R a b = false) →
      (∀ a ∈ l1, ∃ b ∈ l2, R a b = true) → (∀ b ∈ l2, ∃ a ∈ l1, R a b = true) →
      l1.length = l2.length ∧ pairR R l1 l2 = true
  | [], [], _, _, _, _, _, _, _, _, _, _ => ⟨rfl, rfl⟩
  | [], b :: _, _, _, _, _, _, _, _, _, _, h2 => by
    obtain ⟨a, ha, _⟩ := h2 b (List.mem_cons_self ..); cases ha
  | a :: _, [], _, _, _, _, _, _, _, _, h1, _ => by
    obtain ⟨b, hb, _⟩ := h1 a (List.mem_cons_self ..); cases hb
  | a :: l1, b :: l2, s1, s2, lirr, ltrans, o1, o2, d1, d2, h1, h2 => by
    have sa := s1 a (List.mem_cons_self ..)
    have sb := s2 b (List.mem_cons_self ..)
    rw [List.pairwise_cons] at o1 o2 d1 d2
    -- the two heads are partners
    have hab : R a b = true := by
      obtain ⟨b', hb', rab'⟩ := h1 a (List.mem_cons_self ..)
      obtain ⟨a', ha', ra'b⟩ := h2 b (List.mem_cons_self ..)
      rcases List.mem_cons.mp hb' with rfl | hb'
      · exact rab'
      rcases List.mem_cons.mp ha' with rfl | ha'
      · exact ra'b
      exfalso
      have sb' := s2 b' (List.mem_cons_of_mem _ hb')
      have sa' := s1 a' (List.mem_cons_of_mem _ ha')
      have l1' : less b b' = true := o2.1 b' hb'
      have l2' : less a a' = true := o1.1 a' ha'
      -- b ~ a', b' ~ a  ⇒ less b b' = less a' a
      have := compat b a' b' a sb sa' sb' sa (Rsymm _ _ sa' sb ra'b) (Rsymm _ _ sa sb' rab')
      rw [l1'] at this
      have := ltrans a (List.mem_cons_self ..) a' (List.mem_cons_of_mem _ ha') a (List.mem_cons_self ..) l2' this.symm
      rw [lirr a (List.mem_cons_self ..)] at this; cases this
    -- the tails represent the same classes
    have t1 : ∀ x ∈ l1, ∃ y ∈ l2, R x y = true := by
      intro x hx
      obtain ⟨y, hy, rxy⟩ := h1 x (List.mem_cons_of_mem _ hx)
      rcases List.mem_cons.mp hy with rfl | hy
      · exfalso
        have sx := s1 x (List.mem_cons_of_mem _ hx)
        have := Rtrans a y x sa sb sx hab (Rsymm _ _ sx sb rxy)
        rw [d1.1 x hx] at this; cases this
      · exact ⟨y, hy, rxy⟩
    have t2 : ∀ y ∈ l2, ∃ x ∈ l1, R x y = true := by
      intro y hy
      obtain ⟨x, hx, rxy⟩ := h2 y (List.mem_cons_of_mem _ hy)
      rcases List.mem_cons.mp hx with rfl | hx
      · exfalso
        have sy := s2 y (List.mem_cons_of_mem _ hy)
        have := Rtrans b x y sb sa sy (Rsymm _ _ sa sb hab) rxy
        rw [d2.1 y hy] at this; cases this
      · exact ⟨x, hx, rxy⟩
    obtain ⟨hl, hp⟩ := sorted_match R less S Rsymm Rtrans compat l1 l2
      (fun x hx => s1 x (List.mem_cons_of_mem _ hx)) (fun x hx => s2 x (List.mem_cons_of_mem _ hx))
      (fun x hx => lirr x (List.mem_cons_of_mem _ hx))
      (fun x hx y hy z hz => ltrans x (List.mem_cons_of_mem _ hx) y (List.mem_cons_of_mem _ hy) z (List.mem_cons_of_mem _ hz))
      o1.2 o2.2 d1.2 d2.2 t1 t2
    exact ⟨by simp [hl], by simp [pairR, hab, hp]⟩

/-- conversely, position-by-position partners give mutual inclusion -/
theorem incl_of_pairR {α : Type} (R : α → α → Bool) : ∀ (l1 l2 : List α), l1.length = l2.length →
    pairR R l1 l2 = true → ∀ a ∈ l1, ∃ b ∈ l2, R a b = true
  | [], _, _, _, a, ha => by cases ha
  | _ :: _, [], hl, _, _, _ => by simp at hl
  | x :: l1, y :: l2, hl, hp, a, ha => by
    simp only [pairR, Bool.and_eq_true] at hp
    rcases List.mem_cons.mp ha with rfl | ha
    · exact ⟨y, List.mem_cons_self .., hp.1⟩
    · obtain ⟨b, hb, h⟩ := incl_of_pairR R l1 l2 (by simpa using hl) hp.2 a ha
      exact ⟨b, List.mem_cons_of_mem _ hb, h⟩

theorem incl_of_pairR' {α : Type} (R : α → α → Bool) : ∀ (l1 l2 : List α), l1.length = l2.length →
    pairR R l1 l2 = true → ∀ b ∈ l2, ∃ a ∈ l1, R a b = true
  | _, [], _, _, b, hb => by cases hb
  | [], _ :: _, hl, _, _, _ => by simp at hl
  | x :: l1, y :: l2, hl, hp, b, hb => by
    simp only [pairR, Bool.and_eq_true] at hp
    rcases List.mem_cons.mp hb with rfl | hb
    · exact ⟨x, List.mem_cons_self .., hp.1⟩
    · obtain ⟨a, ha, h⟩ := incl_of_pairR' R l1 l2 (by simpa using hl) hp.2 b hb
      exact ⟨a, List.mem_cons_of_mem _ ha, h⟩

/-! ### the loops of the set branch -/

theorem boolVal_isTrue (r : Bool) : (boolVal r).isTrue = r := by cases r <;> rfl

/-- `s.Has(x)`: the bucket of `x` is scanned with `Equals`; when partners share their
bucket id this is "some member is a partner of `x`" -/
theorem setHas_spec (rec : EqRec) (e : Ty) (R : Payload → Payload → Bool) (hash : Payload → Int) (x : Payload) :
    ∀ (ys : List Payload), (∀ y ∈ ys, rec e x e y = .ok (boolVal (R x y))) →
      (∀ y ∈ ys, R x y = true → hash x = hash y) →
      setHas rec e (hash x) x (ys.map hash) ys = .ok (ys.any (R x))
  | [], _, _ => rfl
  | y :: ys, hr, hh => by
    have ih := setHas_spec rec e R hash x ys (fun z hz => hr z (List.mem_cons_of_mem _ hz))
      (fun z hz => hh z (List.mem_cons_of_mem _ hz))
    simp only [List.map_cons, setHas, hr y (List.mem_cons_self ..), boolVal_isTrue, List.any_cons]
    by_cases hi : (hash x == hash y) = true
    · simp only [hi, if_true]
      cases hxy : R x y
      · simpa using ih
      · simp
    · simp only [hi]
      have : R x y = false := by
        cases hxy : R x y
        · rfl
        · exact absurd (by simpa using hh y (List.mem_cons_self ..) hxy) hi
      simpa [this] using ih

theorem setInclWK_spec (rec : EqRec) (e : Ty) (R : Payload → Payload → Bool) (hash : Payload → Int)
    (ys : List Payload) : ∀ (xs : List Payload), (∀ x ∈ xs, x.whollyKnown = true) →
      (∀ x ∈ xs, ∀ y ∈ ys, rec e x e y = .ok (boolVal (R x y))) →
      (∀ x ∈ xs, ∀ y ∈ ys, R x y = true → hash x = hash y) →
      setInclWK rec e (xs.map hash) xs (ys.map hash) ys = .ok (some (xs.all fun x => ys.any (R x)))
  | [], _, _, _ => rfl
  | x :: xs, hk, hr, hh => by
    have ih := setInclWK_spec rec e R hash ys xs (fun z hz => hk z (List.mem_cons_of_mem _ hz))
      (fun z hz => hr z (List.mem_cons_of_mem _ hz)) (fun z hz => hh z (List.mem_cons_of_mem _ hz))
    simp only [List.map_cons, setInclWK, hk x (List.mem_cons_self ..), Bool.not_true, Bool.false_eq_true, if_false,
      setHas_spec rec e R hash x ys (hr x (List.mem_cons_self ..)) (hh x (List.mem_cons_self ..)), ih, List.all_cons]

end D03b
end CtyModel
