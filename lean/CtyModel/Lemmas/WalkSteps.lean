/-
`Path.Apply` succeeds exactly when every step names an existing member, and does
not panic — for steps whose keys are plain (unmarked, and a known non-null
number / string payload where the key type is number / string).
-/
import CtyModel.Lemmas.WalkApply
namespace CtyModel
namespace Walk
open Value

/-- a key that names one particular member (or, being of another type, none at all) -/
def plainKey (k : Value) : Bool :=
  !k.isMarked &&
  match k.ty, k.v with
  | .number, .n _ => true
  | .number, _ => false
  | .string, .s _ => true
  | .string, _ => false
  | _, _ => true

def plainKeys : Path → Bool
  | [] => true
  | .getAttr _ :: p => plainKeys p
  | .index k :: p => plainKey k && plainKeys p

/-- **does the step name a member of the value?**  Null has no members; an
attribute must be declared by the object type; a number key must be a whole
number within the length of the list (tuple: of the type), a string key a key
of the map; what is not known has its members by type (any index of an unknown
list, any key of an unknown map). -/
def stepExists (s : PathStep) (v : Value) : Bool :=
  !v.isNull &&
  match s with
  | .getAttr n =>
    (match v.ty with
     | .object ns _ _ => ns.contains n
     | _ => false)
  | .index k =>
    match k.ty, v.ty with
    | .number, .list _ =>
      if v.isKnown then
        (match keyIndex k, v.v.unmark1 with
         | .ok (some i), .seq vs => decide (i < vs.length)
         | _, _ => false)
      else true
    | .number, .tuple ts =>
      (match keyIndex k with
       | .ok (some i) => decide (i < ts.length)
       | _ => false)
    | .string, .map _ =>
      if v.isKnown then
        (match k.v, v.v.unmark1 with
         | .s key, .smap ks _ => ks.contains key
         | _, _ => false)
      else true
    | _, _ => false

/-- the mark prologue with an unmarked key: the operation on the unmarked
container, then a map that leaves the unmarked value alone -/
theorem binMarks_form (f : Value → Value → Res Value) (a k : Value) (hk : k.isMarked = false) :
    ∃ g : Value → Value, (∀ x, (g x).unmark = x.unmark) ∧ (∀ x, (g x).ty = x.ty) ∧
      binMarks f a k = (f a.unmark k).map g := by
  simp only [binMarks]
  by_cases ha : a.isMarked = true
  · refine ⟨fun x => x.withMarks (unionMarks a.marks k.marks), fun x => ?_, fun _ => rfl, ?_⟩
    · simp only [Value.unmark, Value.withMarks, unmark1_withMarks]
    · simp [ha, unmark_of_not_marked k hk]
  · have ha' : a.isMarked = false := by simpa using ha
    refine ⟨id, fun _ => rfl, fun _ => rfl, ?_⟩
    simp only [ha', hk, Bool.or_self, Bool.false_eq_true, if_false, unmark_of_not_marked a ha']
    cases f a k <;> rfl

theorem getAttr_form (a : Value) (n : String) :
    ∃ g : Value → Value, Value.getAttr a n = (getAttrU a.unmark n).map g := by
  simp only [Value.getAttr]
  by_cases ha : a.isMarked = true
  · exact ⟨fun x => x.withMarks a.marks, by simp [ha]⟩
  · have ha' : a.isMarked = false := by simpa using ha
    refine ⟨id, ?_⟩
    simp only [ha', Bool.false_eq_true, if_false, unmark_of_not_marked a ha']
    cases getAttrU a n <;> rfl

theorem isOk_map {α β} (r : Res α) (g : α → β) : (r.map g).isOk = r.isOk := by cases r <;> rfl
theorem isPanic_map {α β} (r : Res α) (g : α → β) : (r.map g).isPanic = r.isPanic := by cases r <;> rfl

theorem find_of_mem : ∀ (ns : List String) (ts : List Ty) (os : List Bool) (n : String),
    ns.length = ts.length → os.length = ts.length → n ∈ ns → ∃ r, Ty.find n ns ts os = some r
  | [], _, _, _, _, _, h => by cases h
  | _ :: _, [], _, _, h, _, _ => by simp at h
  | _ :: _, _ :: _, [], _, _, h, _ => by simp at h
  | n' :: ns, t :: ts, o :: os, n, h1, h2, hm => by
    simp only [Ty.find]
    by_cases hn : n' = n
    · exact ⟨(t, o), by simp [hn]⟩
    · simp only [hn, if_false]
      rcases List.mem_cons.mp hm with rfl | hm
      · exact absurd rfl hn
      · exact find_of_mem ns ts os n (by simpa using h1) (by simpa using h2) hm

theorem unmark1_idem {p : Payload} (h : p.unmark1.isMarked = false) : p.unmark1.unmark1 = p.unmark1 := by
  cases hp : p.unmark1 <;> simp_all [Payload.unmark1, Payload.isMarked]

theorem getAttr_step (v : Value) (n : String) (hs : shapedV v = true) (hw : Ty.wf v.ty = true) :
    ((PathStep.getAttr n).apply v).isOk = stepExists (.getAttr n) v ∧
      ((PathStep.getAttr n).apply v).isPanic = false := by
  obtain ⟨g, hg⟩ := getAttr_form v n
  simp only [PathStep.apply, stepExists]
  by_cases hnull : v.isNull = true
  · simp [hnull, Res.isOk, Res.isPanic]
  · have hnull' : v.isNull = false := by simpa using hnull
    simp only [hnull', Bool.false_eq_true, if_false, Bool.not_false, Bool.true_and]
    obtain ⟨t, p⟩ := v
    have hsu : shaped t p.unmark1 = true := shaped_unmark1 hs
    have hmu : p.unmark1.isMarked = false := shaped_unmark1_notMarked hs
    cases t <;> try (simp [Res.isOk, Res.isPanic]; done)
    rename_i ns ts os
    simp only
    by_cases hc : ns.contains n = true
    · simp only [hc, Bool.not_true, Bool.false_eq_true, if_false, hg, isOk_map, isPanic_map]
      simp only [Ty.wf, Bool.and_eq_true, beq_iff_eq] at hw
      obtain ⟨r, hr⟩ := find_of_mem ns ts os n hw.1.1.1 hw.1.1.2 (by simpa using hc)
      simp only [getAttrU, Value.unmark, Ty.isDyn, Bool.false_eq_true, if_false, hr]
      have hkeq : (⟨Ty.object ns ts os, p.unmark1⟩ : Value).isKnown =
          (⟨Ty.object ns ts os, p⟩ : Value).isKnown := by
        simp only [Value.isKnown, Payload.isKnown, unmark1_idem hmu]
      by_cases hk : (⟨Ty.object ns ts os, p.unmark1⟩ : Value).isKnown = true
      · simp only [hk, Bool.not_true, Bool.false_eq_true, if_false]
        have hk' : (⟨Ty.object ns ts os, p⟩ : Value).isKnown = true := hkeq ▸ hk
        have := shaped_known_cases hsu hmu (raw_of_flags hnull' hk').1 (raw_of_flags hnull' hk').2
        obtain ⟨vs, hv, _⟩ := this
        simp only [hv]
        cases lookupKey n ns vs <;> simp [Res.isOk, Res.isPanic]
      · simp [hk, Res.isOk, Res.isPanic]
    · have hc' : n ∉ ns := by simpa using hc
      simp [hc', Res.isOk, Res.isPanic]

theorem isKnown_unmark {v : Value} (hs : shapedV v = true) : v.unmark.isKnown = v.isKnown := by
  simp only [Value.isKnown, Payload.isKnown, Value.unmark, unmark1_idem (shaped_unmark1_notMarked hs)]

theorem keyIndex_num (x : Num) : ∃ o, keyIndex ⟨.number, .n x⟩ = .ok o := by
  simp only [keyIndex]
  split <;> exact ⟨_, rfl⟩

/-- `IndexStep.Apply` once the kind checks have passed, in terms of the answer
`h0` of `HasIndex` on the unmarked container -/
theorem apply_index_of (v k h0 : Value) (hnull : v.isNull = false) (hkm : k.isMarked = false)
    (hty : (k.ty = .number ∧ PathStep.isListOrTuple v.ty = true) ∨
      (k.ty = .string ∧ PathStep.isMap v.ty = true))
    (H : hasIndexU v.unmark k = .ok h0) (hh : h0.unmark = h0) :
    (PathStep.index k).apply v =
      (if !h0.isKnown then (PathStep.elementType v.ty).map Value.unknown
       else if !h0.isTrue then .err "value does not have given index key"
       else v.index k) := by
  obtain ⟨g, hgu, _, hg⟩ := binMarks_form hasIndexU v k hkm
  have hu : (g h0).unmark = h0 := by rw [hgu, hh]
  simp only [PathStep.apply, hnull, Bool.false_eq_true, if_false]
  rcases hty with ⟨h1, h2⟩ | ⟨h1, h2⟩ <;>
    simp only [h1, h2, if_true, Value.hasIndex, hg, H, Res.map, hu]

theorem index_isOk (v k : Value) (hkm : k.isMarked = false) :
    (v.index k).isOk = (indexU v.unmark k).isOk ∧ (v.index k).isPanic = (indexU v.unmark k).isPanic := by
  obtain ⟨g, _, _, hg⟩ := binMarks_form indexU v k hkm
  simp only [Value.index, hg, isOk_map, isPanic_map, and_self]

theorem hasIndexU_list_num (e : Ty) (vs : List Payload) (x : Num) (o : Option Nat)
    (ho : keyIndex ⟨.number, .n x⟩ = .ok o) :
    hasIndexU ⟨.list e, .seq vs⟩ ⟨.number, .n x⟩ =
      .ok (boolVal (match o with | some i => decide (i < vs.length) | none => false)) := by
  cases o <;>
    simp [hasIndexU, Value.isKnown, Payload.isKnown, Payload.unmark1, Ty.isDyn, Ty.isNumber, ho]

theorem indexU_list_num (e : Ty) (vs : List Payload) (x : Num) (i : Nat)
    (ho : keyIndex ⟨.number, .n x⟩ = .ok (some i)) (hi : i < vs.length) :
    indexU ⟨.list e, .seq vs⟩ ⟨.number, .n x⟩ = .ok ⟨e, vs[i]⟩ := by
  simp [indexU, Value.isKnown, Payload.isKnown, Payload.unmark1, Ty.isDyn, Ty.isNumber, ho, hi]

theorem hasIndexU_list_unk (e : Ty) (r : Rfn) (x : Num) :
    hasIndexU ⟨.list e, .unk r⟩ ⟨.number, .n x⟩ = .ok unkBool := by
  simp [hasIndexU, Value.isKnown, Payload.isKnown, Payload.unmark1, Ty.isDyn, Ty.isNumber]

theorem unknown_raw {v : Value} (hk : v.isKnown = false) : ∃ r, v.v.unmark1 = .unk r := by
  simp only [Value.isKnown, Payload.isKnown] at hk
  cases hp : v.v.unmark1 <;> simp_all

theorem boolVal_isKnown (b : Bool) : (boolVal b).isKnown = true := by cases b <;> rfl
theorem boolVal_isTrue (b : Bool) : (boolVal b).isTrue = b := by cases b <;> rfl
theorem unkBool_isKnown : unkBool.isKnown = false := rfl

theorem index_step_list (e : Ty) (p : Payload) (x : Num)
    (hs : shapedV ⟨.list e, p⟩ = true) (hnull : (⟨.list e, p⟩ : Value).isNull = false) :
    ((PathStep.index ⟨.number, .n x⟩).apply ⟨.list e, p⟩).isOk =
        stepExists (.index ⟨.number, .n x⟩) ⟨.list e, p⟩ ∧
      ((PathStep.index ⟨.number, .n x⟩).apply ⟨.list e, p⟩).isPanic = false := by
  have hkm : (⟨.number, .n x⟩ : Value).isMarked = false := rfl
  obtain ⟨o, ho⟩ := keyIndex_num x
  have hsu : shaped (.list e) p.unmark1 = true := shaped_unmark1 hs
  have hmu := shaped_unmark1_notMarked hs
  have hty : ((⟨.number, .n x⟩ : Value).ty = .number ∧ PathStep.isListOrTuple (⟨.list e, p⟩ : Value).ty = true) ∨
      ((⟨.number, .n x⟩ : Value).ty = .string ∧ PathStep.isMap (⟨.list e, p⟩ : Value).ty = true) :=
    Or.inl ⟨rfl, rfl⟩
  by_cases hk : (⟨.list e, p⟩ : Value).isKnown = true
  · obtain ⟨vs, hv⟩ := shaped_known_cases hsu hmu (raw_of_flags hnull hk).1 (raw_of_flags hnull hk).2
    have hu : (⟨.list e, p⟩ : Value).unmark = ⟨.list e, .seq vs⟩ := by simp only [Value.unmark, hv]
    rw [apply_index_of _ _ _ hnull hkm hty (by rw [hu]; exact hasIndexU_list_num e vs x o ho) rfl]
    simp only [stepExists, hnull, hk, ho, hv, Bool.not_false, Bool.true_and, if_true, boolVal_isKnown,
      boolVal_isTrue, Bool.not_true, Bool.false_eq_true, if_false]
    cases o with
    | none => simp [Res.isOk, Res.isPanic]
    | some i =>
      by_cases hi : i < vs.length
      · have h2 := index_isOk ⟨.list e, p⟩ ⟨.number, .n x⟩ hkm
        rw [hu, indexU_list_num e vs x i ho hi] at h2
        simp only [hi, decide_true, Bool.not_true, Bool.false_eq_true, if_false, h2.1, h2.2]
        exact ⟨rfl, rfl⟩
      · simp [hi, Res.isOk, Res.isPanic]
  · have hk0 : (⟨.list e, p⟩ : Value).isKnown = false := by simpa using hk
    obtain ⟨r, hr⟩ := unknown_raw hk0
    have hu : (⟨.list e, p⟩ : Value).unmark = ⟨.list e, .unk r⟩ := by
      simp only [Value.unmark]; simp only at hr; rw [hr]
    rw [apply_index_of _ _ _ hnull hkm hty (by rw [hu]; exact hasIndexU_list_unk e r x) rfl]
    simp only [stepExists, hnull, hk0, unkBool_isKnown, Bool.not_false, Bool.true_and, if_true,
      Bool.false_eq_true, if_false]
    exact ⟨rfl, rfl⟩

theorem hasIndexU_tuple_num (ts : List Ty) (raw : Payload) (x : Num) (o : Option Nat)
    (ho : keyIndex ⟨.number, .n x⟩ = .ok o) :
    hasIndexU ⟨.tuple ts, raw⟩ ⟨.number, .n x⟩ =
      .ok (boolVal (match o with | some i => decide (i < ts.length) | none => false)) := by
  cases o <;>
    simp [hasIndexU, Value.isKnown, Payload.isKnown, Payload.unmark1, Ty.isDyn, Ty.isNumber, ho]

theorem indexU_tuple_seq (ts : List Ty) (vs : List Payload) (x : Num) (i : Nat)
    (ho : keyIndex ⟨.number, .n x⟩ = .ok (some i)) (hi : i < ts.length) (hlen : ts.length = vs.length) :
    (indexU ⟨.tuple ts, .seq vs⟩ ⟨.number, .n x⟩).isOk = true := by
  have h1 : ts[i]? = some ts[i] := List.getElem?_eq_getElem hi
  have h2 : vs[i]? = some (vs[i]'(hlen ▸ hi)) := List.getElem?_eq_getElem (hlen ▸ hi)
  simp [indexU, Value.isKnown, Payload.isKnown, Payload.unmark1, Ty.isDyn, Ty.isNumber, ho, h1, h2,
    Res.isOk]

theorem indexU_tuple_unk (ts : List Ty) (r : Rfn) (x : Num) (i : Nat)
    (ho : keyIndex ⟨.number, .n x⟩ = .ok (some i)) (hi : i < ts.length) :
    (indexU ⟨.tuple ts, .unk r⟩ ⟨.number, .n x⟩).isOk = true := by
  have h1 : ts[i]? = some ts[i] := List.getElem?_eq_getElem hi
  simp [indexU, Value.isKnown, Payload.isKnown, Payload.unmark1, Ty.isDyn, Ty.isNumber, ho, h1, Res.isOk]

theorem isPanic_of_isOk {α} {r : Res α} (h : r.isOk = true) : r.isPanic = false := by
  cases r <;> simp_all [Res.isOk, Res.isPanic]

theorem index_step_tuple (ts : List Ty) (p : Payload) (x : Num)
    (hs : shapedV ⟨.tuple ts, p⟩ = true) (hnull : (⟨.tuple ts, p⟩ : Value).isNull = false) :
    ((PathStep.index ⟨.number, .n x⟩).apply ⟨.tuple ts, p⟩).isOk =
        stepExists (.index ⟨.number, .n x⟩) ⟨.tuple ts, p⟩ ∧
      ((PathStep.index ⟨.number, .n x⟩).apply ⟨.tuple ts, p⟩).isPanic = false := by
  have hkm : (⟨.number, .n x⟩ : Value).isMarked = false := rfl
  obtain ⟨o, ho⟩ := keyIndex_num x
  have hsu : shaped (.tuple ts) p.unmark1 = true := shaped_unmark1 hs
  have hmu := shaped_unmark1_notMarked hs
  have hty : ((⟨.number, .n x⟩ : Value).ty = .number ∧ PathStep.isListOrTuple (⟨.tuple ts, p⟩ : Value).ty = true) ∨
      ((⟨.number, .n x⟩ : Value).ty = .string ∧ PathStep.isMap (⟨.tuple ts, p⟩ : Value).ty = true) :=
    Or.inl ⟨rfl, rfl⟩
  rw [apply_index_of _ _ _ hnull hkm hty (hasIndexU_tuple_num ts p.unmark1 x o ho) rfl]
  simp only [stepExists, hnull, ho, Bool.not_false, Bool.true_and, boolVal_isKnown,
    boolVal_isTrue, Bool.not_true, Bool.false_eq_true, if_false]
  cases o with
  | none => simp [Res.isOk, Res.isPanic]
  | some i =>
    by_cases hi : i < ts.length
    · have h2 := index_isOk ⟨.tuple ts, p⟩ ⟨.number, .n x⟩ hkm
      have hok : (indexU (⟨.tuple ts, p⟩ : Value).unmark ⟨.number, .n x⟩).isOk = true := by
        by_cases hk : (⟨.tuple ts, p⟩ : Value).isKnown = true
        · obtain ⟨vs, hv, hlen⟩ :=
            shaped_known_cases hsu hmu (raw_of_flags hnull hk).1 (raw_of_flags hnull hk).2
          simp only [Value.unmark, hv]
          exact indexU_tuple_seq ts vs x i ho hi hlen
        · have hk0 : (⟨.tuple ts, p⟩ : Value).isKnown = false := by simpa using hk
          obtain ⟨r, hr⟩ := unknown_raw hk0
          simp only at hr
          simp only [Value.unmark, hr]
          exact indexU_tuple_unk ts r x i ho hi
      simp only [hi, decide_true, Bool.not_true, Bool.false_eq_true, if_false, h2.1, h2.2, hok,
        isPanic_of_isOk hok, and_self]
    · simp [hi, Res.isOk, Res.isPanic]

theorem hasIndexU_map_str (e : Ty) (ks : List String) (vs : List Payload) (key : String) :
    hasIndexU ⟨.map e, .smap ks vs⟩ ⟨.string, .s key⟩ = .ok (boolVal (ks.contains key)) := by
  simp [hasIndexU, Value.isKnown, Payload.isKnown, Payload.unmark1, Ty.isDyn, Ty.isString]

theorem hasIndexU_map_unk (e : Ty) (r : Rfn) (key : String) :
    hasIndexU ⟨.map e, .unk r⟩ ⟨.string, .s key⟩ = .ok unkBool := by
  simp [hasIndexU, Value.isKnown, Payload.isKnown, Payload.unmark1, Ty.isDyn, Ty.isString]

theorem indexU_map_str (e : Ty) (ks : List String) (vs : List Payload) (key : String) :
    (indexU ⟨.map e, .smap ks vs⟩ ⟨.string, .s key⟩).isOk = true := by
  simp [indexU, Value.isKnown, Payload.isKnown, Payload.unmark1, Ty.isDyn, Ty.isString, Res.isOk]

theorem index_step_map (e : Ty) (p : Payload) (key : String)
    (hs : shapedV ⟨.map e, p⟩ = true) (hnull : (⟨.map e, p⟩ : Value).isNull = false) :
    ((PathStep.index ⟨.string, .s key⟩).apply ⟨.map e, p⟩).isOk =
        stepExists (.index ⟨.string, .s key⟩) ⟨.map e, p⟩ ∧
      ((PathStep.index ⟨.string, .s key⟩).apply ⟨.map e, p⟩).isPanic = false := by
  have hkm : (⟨.string, .s key⟩ : Value).isMarked = false := rfl
  have hsu : shaped (.map e) p.unmark1 = true := shaped_unmark1 hs
  have hmu := shaped_unmark1_notMarked hs
  have hty : ((⟨.string, .s key⟩ : Value).ty = .number ∧ PathStep.isListOrTuple (⟨.map e, p⟩ : Value).ty = true) ∨
      ((⟨.string, .s key⟩ : Value).ty = .string ∧ PathStep.isMap (⟨.map e, p⟩ : Value).ty = true) :=
    Or.inr ⟨rfl, rfl⟩
  by_cases hk : (⟨.map e, p⟩ : Value).isKnown = true
  · obtain ⟨ks, vs, hv⟩ := shaped_known_cases hsu hmu (raw_of_flags hnull hk).1 (raw_of_flags hnull hk).2
    have hu : (⟨.map e, p⟩ : Value).unmark = ⟨.map e, .smap ks vs⟩ := by simp only [Value.unmark, hv]
    rw [apply_index_of _ _ _ hnull hkm hty (by rw [hu]; exact hasIndexU_map_str e ks vs key) rfl]
    simp only [stepExists, hnull, hk, hv, Bool.not_false, Bool.true_and, if_true, boolVal_isKnown,
      boolVal_isTrue, Bool.not_true, Bool.false_eq_true, if_false]
    by_cases hc : ks.contains key = true
    · have h2 := index_isOk ⟨.map e, p⟩ ⟨.string, .s key⟩ hkm
      have hok := indexU_map_str e ks vs key
      rw [hu] at h2
      simp only [hc, Bool.not_true, Bool.false_eq_true, if_false, h2.1, h2.2, hok,
        isPanic_of_isOk hok, and_self]
    · have hc0 : key ∉ ks := by simpa using hc
      simp [hc0, Res.isOk, Res.isPanic]
  · have hk0 : (⟨.map e, p⟩ : Value).isKnown = false := by simpa using hk
    obtain ⟨r, hr⟩ := unknown_raw hk0
    have hu : (⟨.map e, p⟩ : Value).unmark = ⟨.map e, .unk r⟩ := by
      simp only [Value.unmark]; simp only at hr; rw [hr]
    rw [apply_index_of _ _ _ hnull hkm hty (by rw [hu]; exact hasIndexU_map_unk e r key) rfl]
    simp only [stepExists, hnull, hk0, unkBool_isKnown, Bool.not_false, Bool.true_and, if_true,
      Bool.false_eq_true, if_false]
    exact ⟨rfl, rfl⟩

/-- **one step succeeds exactly when it names an existing member, and never panics**
(plain key, shaped value of a well-formed type) -/
theorem step_ok_iff (s : PathStep) (v : Value) (hs : shapedV v = true) (hw : Ty.wf v.ty = true)
    (hk : (match s with | .index k => plainKey k | .getAttr _ => true) = true) :
    (s.apply v).isOk = stepExists s v ∧ (s.apply v).isPanic = false := by
  cases s with
  | getAttr n => exact getAttr_step v n hs hw
  | index k =>
    by_cases hnull : v.isNull = true
    · simp [PathStep.apply, stepExists, hnull, Res.isOk, Res.isPanic]
    · have hnull' : v.isNull = false := by simpa using hnull
      obtain ⟨t, p⟩ := v
      obtain ⟨kt, kp⟩ := k
      simp only [plainKey, Bool.and_eq_true, Bool.not_eq_true'] at hk
      have other : ∀ (kt : Ty) (kp : Payload), kt ≠ .number → kt ≠ .string →
          ((PathStep.index ⟨kt, kp⟩).apply ⟨t, p⟩).isOk = stepExists (.index ⟨kt, kp⟩) ⟨t, p⟩ ∧
          ((PathStep.index ⟨kt, kp⟩).apply ⟨t, p⟩).isPanic = false := by
        intro kt kp h1 h2
        cases kt <;> first
          | exact absurd rfl h1
          | exact absurd rfl h2
          | simp [PathStep.apply, stepExists, hnull', Res.isOk, Res.isPanic]
      cases kt with
      | number =>
        cases kp <;> (try (simp at hk; done))
        rename_i x
        cases t with
        | list e => exact index_step_list e p x hs hnull'
        | tuple ts => exact index_step_tuple ts p x hs hnull'
        | _ => simp [PathStep.apply, stepExists, hnull', PathStep.isListOrTuple, Res.isOk, Res.isPanic]
      | string =>
        cases kp <;> (try (simp at hk; done))
        rename_i x
        cases t with
        | map e => exact index_step_map e p x hs hnull'
        | _ => simp [PathStep.apply, stepExists, hnull', PathStep.isMap, Res.isOk, Res.isPanic]
      | _ => exact other _ _ (by simp) (by simp)

end Walk
end CtyModel
