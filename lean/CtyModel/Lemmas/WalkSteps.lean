/-
`Path.Apply` succeeds exactly when every step names an existing member, and does
not panic — for every key that is itself a shaped value (marked or not, known,
unknown or null, of any type).
-/
import CtyModel.Lemmas.WalkApply
namespace CtyModel
namespace Walk
open Value

/-- a key that names one particular member (or, being of another type, none at all) -/
def plainKey (k : Value) : Bool :=
  !k.isMarked &&
  match k.ty, k.v with
  | .number, .n _ => true
  | .number, _ => false
  | .string, .s _ => true
  | .string, _ => false
  | _, _ => true

def plainKeys : Path → Bool
  | [] => true
  | .getAttr _ :: p => plainKeys p
  | .index k :: p => plainKey k && plainKeys p

/-- does the (unmarked, known, non-null) key name a member: a number key must be a
whole number within the length of the list (tuple: of the type), a string key a
key of the map; an unknown list or map has its members by type -/
def indexExists (k : Value) (v : Value) : Bool :=
  match k.ty, v.ty with
  | .number, .list _ =>
    if v.isKnown then
      (match keyIndex k, v.v.unmark1 with
       | .ok (some i), .seq vs => decide (i < vs.length)
       | _, _ => false)
    else true
  | .number, .tuple ts =>
    (match keyIndex k with
     | .ok (some i) => decide (i < ts.length)
     | _ => false)
  | .string, .map _ =>
    if v.isKnown then
      (match k.v, v.v.unmark1 with
       | .s key, .smap ks _ => ks.contains key
       | _, _ => false)
    else true
  | _, _ => false

/-- a number key fits lists and tuples, a string key fits maps -/
def kindFits (kt vt : Ty) : Bool :=
  match kt, vt with
  | .number, .list _ | .number, .tuple _ | .string, .map _ => true
  | _, _ => false

/-- **does the step name a member of the value?**  Null has no members; an
attribute must be declared by the object type; a null key names nothing; a known
key (marks aside) must name a member (`indexExists`); an unknown key of the
fitting type names no particular member and is accepted. -/
def stepExists (s : PathStep) (v : Value) : Bool :=
  !v.isNull &&
  match s with
  | .getAttr n =>
    (match v.ty with
     | .object ns _ _ => ns.contains n
     | _ => false)
  | .index k =>
    !k.isNull && (if k.isKnown then indexExists k.unmark v else kindFits k.ty v.ty)

/-- the mark prologue with an unmarked key: the operation on the unmarked
container, then a map that leaves the unmarked value alone -/
theorem binMarks_form (f : Value → Value → Res Value) (a k : Value) (hk : k.isMarked = false) :
    ∃ g : Value → Value, (∀ x, (g x).unmark = x.unmark) ∧ (∀ x, (g x).ty = x.ty) ∧
      binMarks f a k = (f a.unmark k).map g := by
  simp only [binMarks]
  by_cases ha : a.isMarked = true
  · refine ⟨fun x => x.withMarks (unionMarks a.marks k.marks), fun x => ?_, fun _ => rfl, ?_⟩
    · simp only [Value.unmark, Value.withMarks, unmark1_withMarks]
    · simp [ha, unmark_of_not_marked k hk]
  · have ha' : a.isMarked = false := by simpa using ha
    refine ⟨id, fun _ => rfl, fun _ => rfl, ?_⟩
    simp only [ha', hk, Bool.or_self, Bool.false_eq_true, if_false, unmark_of_not_marked a ha']
    cases f a k <;> rfl

theorem getAttr_form (a : Value) (n : String) :
    ∃ g : Value → Value, Value.getAttr a n = (getAttrU a.unmark n).map g := by
  simp only [Value.getAttr]
  by_cases ha : a.isMarked = true
  · exact ⟨fun x => x.withMarks a.marks, by simp [ha]⟩
  · have ha' : a.isMarked = false := by simpa using ha
    refine ⟨id, ?_⟩
    simp only [ha', Bool.false_eq_true, if_false, unmark_of_not_marked a ha']
    cases getAttrU a n <;> rfl

theorem isOk_map {α β} (r : Res α) (g : α → β) : (r.map g).isOk = r.isOk := by cases r <;> rfl
theorem isPanic_map {α β} (r : Res α) (g : α → β) : (r.map g).isPanic = r.isPanic := by cases r <;> rfl

theorem find_of_mem : ∀ (ns : List String) (ts : List Ty) (os : List Bool) (n : String),
    ns.length = ts.length → os.length = ts.length → n ∈ ns → ∃ r, Ty.find n ns ts os = some r
  | [], _, _, _, _, _, h => by cases h
  | _ :: _, [], _, _, h, _, _ => by simp at h
  | _ :: _, _ :: _, [], _, _, h, _ => by simp at h
  | n' :: ns, t :: ts, o :: os, n, h1, h2, hm => by
    simp only [Ty.find]
    by_cases hn : n' = n
    · exact ⟨(t, o), by simp [hn]⟩
    · simp only [hn, if_false]
      rcases List.mem_cons.mp hm with rfl | hm
      · exact absurd rfl hn
      · exact find_of_mem ns ts os n (by simpa using h1) (by simpa using h2) hm

theorem unmark1_idem {p : Payload} (h : p.unmark1.isMarked = false) : p.unmark1.unmark1 = p.unmark1 := by
  cases hp : p.unmark1 <;> simp_all [Payload.unmark1, Payload.isMarked]

theorem getAttr_step (v : Value) (n : String) (hs : shapedV v = true) (hw : Ty.wf v.ty = true) :
    ((PathStep.getAttr n).apply v).isOk = stepExists (.getAttr n) v ∧
      ((PathStep.getAttr n).apply v).isPanic = false := by
  obtain ⟨g, hg⟩ := getAttr_form v n
  simp only [PathStep.apply, stepExists]
  by_cases hnull : v.isNull = true
  · simp [hnull, Res.isOk, Res.isPanic]
  · have hnull' : v.isNull = false := by simpa using hnull
    simp only [hnull', Bool.false_eq_true, if_false, Bool.not_false, Bool.true_and]
    obtain ⟨t, p⟩ := v
    have hsu : shaped t p.unmark1 = true := shaped_unmark1 hs
    have hmu : p.unmark1.isMarked = false := shaped_unmark1_notMarked hs
    cases t <;> try (simp [Res.isOk, Res.isPanic]; done)
    rename_i ns ts os
    simp only
    by_cases hc : ns.contains n = true
    · simp only [hc, Bool.not_true, Bool.false_eq_true, if_false, hg, isOk_map, isPanic_map]
      simp only [Ty.wf, Bool.and_eq_true, beq_iff_eq] at hw
      obtain ⟨r, hr⟩ := find_of_mem ns ts os n hw.1.1.1 hw.1.1.2 (by simpa using hc)
      simp only [getAttrU, Value.unmark, Ty.isDyn, Bool.false_eq_true, if_false, hr]
      have hkeq : (⟨Ty.object ns ts os, p.unmark1⟩ : Value).isKnown =
          (⟨Ty.object ns ts os, p⟩ : Value).isKnown := by
        simp only [Value.isKnown, Payload.isKnown, unmark1_idem hmu]
      by_cases hk : (⟨Ty.object ns ts os, p.unmark1⟩ : Value).isKnown = true
      · simp only [hk, Bool.not_true, Bool.false_eq_true, if_false]
        have hk' : (⟨Ty.object ns ts os, p⟩ : Value).isKnown = true := hkeq ▸ hk
        have := shaped_known_cases hsu hmu (raw_of_flags hnull' hk').1 (raw_of_flags hnull' hk').2
        obtain ⟨vs, hv, _⟩ := this
        simp only [hv]
        cases lookupKey n ns vs <;> simp [Res.isOk, Res.isPanic]
      · simp [hk, Res.isOk, Res.isPanic]
    · have hc' : n ∉ ns := by simpa using hc
      simp [hc', Res.isOk, Res.isPanic]

theorem isKnown_unmark {v : Value} (hs : shapedV v = true) : v.unmark.isKnown = v.isKnown := by
  simp only [Value.isKnown, Payload.isKnown, Value.unmark, unmark1_idem (shaped_unmark1_notMarked hs)]

theorem keyIndex_num (x : Num) : ∃ o, keyIndex ⟨.number, .n x⟩ = .ok o := by
  simp only [keyIndex]
  split <;> exact ⟨_, rfl⟩

/-- `IndexStep.Apply` once the kind checks have passed, in terms of the answer
`h0` of `HasIndex` on the unmarked container -/
theorem apply_index_of (v k h0 : Value) (hnull : v.isNull = false) (hkm : k.isMarked = false)
    (hkn : k.isNull = false)
    (hty : (k.ty = .number ∧ PathStep.isListOrTuple v.ty = true) ∨
      (k.ty = .string ∧ PathStep.isMap v.ty = true))
    (H : hasIndexU v.unmark k = .ok h0) (hh : h0.unmark = h0) :
    (PathStep.index k).apply v =
      (if !h0.isKnown then
         (if PathStep.isTuple v.ty then .ok Value.dynVal
          else (PathStep.elementType v.ty).map Value.unknown)
       else if !h0.isTrue then .err "value does not have given index key"
       else v.index k) := by
  obtain ⟨g, hgu, _, hg⟩ := binMarks_form hasIndexU v k hkm
  have hu : (g h0).unmark = h0 := by rw [hgu, hh]
  simp only [PathStep.apply, hnull, hkn, Bool.false_eq_true, if_false]
  rcases hty with ⟨h1, h2⟩ | ⟨h1, h2⟩ <;>
    simp only [h1, h2, if_true, Value.hasIndex, hg, H, Res.map, hu]

theorem index_isOk (v k : Value) (hkm : k.isMarked = false) :
    (v.index k).isOk = (indexU v.unmark k).isOk ∧ (v.index k).isPanic = (indexU v.unmark k).isPanic := by
  obtain ⟨g, _, _, hg⟩ := binMarks_form indexU v k hkm
  simp only [Value.index, hg, isOk_map, isPanic_map, and_self]

theorem hasIndexU_list_num (e : Ty) (vs : List Payload) (x : Num) (o : Option Nat)
    (ho : keyIndex ⟨.number, .n x⟩ = .ok o) :
    hasIndexU ⟨.list e, .seq vs⟩ ⟨.number, .n x⟩ =
      .ok (boolVal (match o with | some i => decide (i < vs.length) | none => false)) := by
  cases o <;>
    simp [hasIndexU, Value.isKnown, Payload.isKnown, Payload.unmark1, Ty.isDyn, Ty.isNumber, ho]

theorem indexU_list_num (e : Ty) (vs : List Payload) (x : Num) (i : Nat)
    (ho : keyIndex ⟨.number, .n x⟩ = .ok (some i)) (hi : i < vs.length) :
    indexU ⟨.list e, .seq vs⟩ ⟨.number, .n x⟩ = .ok ⟨e, vs[i]⟩ := by
  simp [indexU, Value.isKnown, Payload.isKnown, Payload.unmark1, Ty.isDyn, Ty.isNumber, ho, hi]

theorem hasIndexU_list_unk (e : Ty) (r : Rfn) (x : Num) :
    hasIndexU ⟨.list e, .unk r⟩ ⟨.number, .n x⟩ = .ok unkBool := by
  simp [hasIndexU, Value.isKnown, Payload.isKnown, Payload.unmark1, Ty.isDyn, Ty.isNumber]

theorem unknown_raw {v : Value} (hk : v.isKnown = false) : ∃ r, v.v.unmark1 = .unk r := by
  simp only [Value.isKnown, Payload.isKnown] at hk
  cases hp : v.v.unmark1 <;> simp_all

theorem boolVal_isKnown (b : Bool) : (boolVal b).isKnown = true := by cases b <;> rfl
theorem boolVal_isTrue (b : Bool) : (boolVal b).isTrue = b := by cases b <;> rfl
theorem unkBool_isKnown : unkBool.isKnown = false := rfl

theorem index_step_list (e : Ty) (p : Payload) (x : Num)
    (hs : shapedV ⟨.list e, p⟩ = true) (hnull : (⟨.list e, p⟩ : Value).isNull = false) :
    ((PathStep.index ⟨.number, .n x⟩).apply ⟨.list e, p⟩).isOk =
        indexExists ⟨.number, .n x⟩ ⟨.list e, p⟩ ∧
      ((PathStep.index ⟨.number, .n x⟩).apply ⟨.list e, p⟩).isPanic = false := by
  have hkm : (⟨.number, .n x⟩ : Value).isMarked = false := rfl
  obtain ⟨o, ho⟩ := keyIndex_num x
  have hsu : shaped (.list e) p.unmark1 = true := shaped_unmark1 hs
  have hmu := shaped_unmark1_notMarked hs
  have hty : ((⟨.number, .n x⟩ : Value).ty = .number ∧ PathStep.isListOrTuple (⟨.list e, p⟩ : Value).ty = true) ∨
      ((⟨.number, .n x⟩ : Value).ty = .string ∧ PathStep.isMap (⟨.list e, p⟩ : Value).ty = true) :=
    Or.inl ⟨rfl, rfl⟩
  by_cases hk : (⟨.list e, p⟩ : Value).isKnown = true
  · obtain ⟨vs, hv⟩ := shaped_known_cases hsu hmu (raw_of_flags hnull hk).1 (raw_of_flags hnull hk).2
    have hu : (⟨.list e, p⟩ : Value).unmark = ⟨.list e, .seq vs⟩ := by simp only [Value.unmark, hv]
    rw [apply_index_of _ _ _ hnull hkm rfl hty (by rw [hu]; exact hasIndexU_list_num e vs x o ho) rfl]
    simp only [indexExists, hk, ho, hv, Bool.not_false, Bool.true_and, if_true, boolVal_isKnown,
      boolVal_isTrue, Bool.not_true, Bool.false_eq_true, if_false]
    cases o with
    | none => simp [Res.isOk, Res.isPanic]
    | some i =>
      by_cases hi : i < vs.length
      · have h2 := index_isOk ⟨.list e, p⟩ ⟨.number, .n x⟩ hkm
        rw [hu, indexU_list_num e vs x i ho hi] at h2
        simp only [hi, decide_true, Bool.not_true, Bool.false_eq_true, if_false, h2.1, h2.2]
        exact ⟨rfl, rfl⟩
      · simp [hi, Res.isOk, Res.isPanic]
  · have hk0 : (⟨.list e, p⟩ : Value).isKnown = false := by simpa using hk
    obtain ⟨r, hr⟩ := unknown_raw hk0
    have hu : (⟨.list e, p⟩ : Value).unmark = ⟨.list e, .unk r⟩ := by
      simp only [Value.unmark]; simp only at hr; rw [hr]
    rw [apply_index_of _ _ _ hnull hkm rfl hty (by rw [hu]; exact hasIndexU_list_unk e r x) rfl]
    simp only [indexExists, hk0, unkBool_isKnown, Bool.not_false, Bool.true_and, if_true, PathStep.isTuple,
      Bool.false_eq_true, if_false]
    exact ⟨rfl, rfl⟩

theorem hasIndexU_tuple_num (ts : List Ty) (raw : Payload) (x : Num) (o : Option Nat)
    (ho : keyIndex ⟨.number, .n x⟩ = .ok o) :
    hasIndexU ⟨.tuple ts, raw⟩ ⟨.number, .n x⟩ =
      .ok (boolVal (match o with | some i => decide (i < ts.length) | none => false)) := by
  cases o <;>
    simp [hasIndexU, Value.isKnown, Payload.isKnown, Payload.unmark1, Ty.isDyn, Ty.isNumber, ho]

theorem indexU_tuple_seq (ts : List Ty) (vs : List Payload) (x : Num) (i : Nat)
    (ho : keyIndex ⟨.number, .n x⟩ = .ok (some i)) (hi : i < ts.length) (hlen : ts.length = vs.length) :
    (indexU ⟨.tuple ts, .seq vs⟩ ⟨.number, .n x⟩).isOk = true := by
  have h1 : ts[i]? = some ts[i] := List.getElem?_eq_getElem hi
  have h2 : vs[i]? = some (vs[i]'(hlen ▸ hi)) := List.getElem?_eq_getElem (hlen ▸ hi)
  simp [indexU, Value.isKnown, Payload.isKnown, Payload.unmark1, Ty.isDyn, Ty.isNumber, ho, h1, h2,
    Res.isOk]

theorem indexU_tuple_unk (ts : List Ty) (r : Rfn) (x : Num) (i : Nat)
    (ho : keyIndex ⟨.number, .n x⟩ = .ok (some i)) (hi : i < ts.length) :
    (indexU ⟨.tuple ts, .unk r⟩ ⟨.number, .n x⟩).isOk = true := by
  have h1 : ts[i]? = some ts[i] := List.getElem?_eq_getElem hi
  simp [indexU, Value.isKnown, Payload.isKnown, Payload.unmark1, Ty.isDyn, Ty.isNumber, ho, h1, Res.isOk]

theorem isPanic_of_isOk {α} {r : Res α} (h : r.isOk = true) : r.isPanic = false := by
  cases r <;> simp_all [Res.isOk, Res.isPanic]

theorem index_step_tuple (ts : List Ty) (p : Payload) (x : Num)
    (hs : shapedV ⟨.tuple ts, p⟩ = true) (hnull : (⟨.tuple ts, p⟩ : Value).isNull = false) :
    ((PathStep.index ⟨.number, .n x⟩).apply ⟨.tuple ts, p⟩).isOk =
        indexExists ⟨.number, .n x⟩ ⟨.tuple ts, p⟩ ∧
      ((PathStep.index ⟨.number, .n x⟩).apply ⟨.tuple ts, p⟩).isPanic = false := by
  have hkm : (⟨.number, .n x⟩ : Value).isMarked = false := rfl
  obtain ⟨o, ho⟩ := keyIndex_num x
  have hsu : shaped (.tuple ts) p.unmark1 = true := shaped_unmark1 hs
  have hmu := shaped_unmark1_notMarked hs
  have hty : ((⟨.number, .n x⟩ : Value).ty = .number ∧ PathStep.isListOrTuple (⟨.tuple ts, p⟩ : Value).ty = true) ∨
      ((⟨.number, .n x⟩ : Value).ty = .string ∧ PathStep.isMap (⟨.tuple ts, p⟩ : Value).ty = true) :=
    Or.inl ⟨rfl, rfl⟩
  rw [apply_index_of _ _ _ hnull hkm rfl hty (hasIndexU_tuple_num ts p.unmark1 x o ho) rfl]
  simp only [indexExists, ho, Bool.not_false, Bool.true_and, boolVal_isKnown,
    boolVal_isTrue, Bool.not_true, Bool.false_eq_true, if_false]
  cases o with
  | none => simp [Res.isOk, Res.isPanic]
  | some i =>
    by_cases hi : i < ts.length
    · have h2 := index_isOk ⟨.tuple ts, p⟩ ⟨.number, .n x⟩ hkm
      have hok : (indexU (⟨.tuple ts, p⟩ : Value).unmark ⟨.number, .n x⟩).isOk = true := by
        by_cases hk : (⟨.tuple ts, p⟩ : Value).isKnown = true
        · obtain ⟨vs, hv, hlen⟩ :=
            shaped_known_cases hsu hmu (raw_of_flags hnull hk).1 (raw_of_flags hnull hk).2
          simp only [Value.unmark, hv]
          exact indexU_tuple_seq ts vs x i ho hi hlen
        · have hk0 : (⟨.tuple ts, p⟩ : Value).isKnown = false := by simpa using hk
          obtain ⟨r, hr⟩ := unknown_raw hk0
          simp only at hr
          simp only [Value.unmark, hr]
          exact indexU_tuple_unk ts r x i ho hi
      simp only [hi, decide_true, Bool.not_true, Bool.false_eq_true, if_false, h2.1, h2.2, hok,
        isPanic_of_isOk hok, and_self]
    · simp [hi, Res.isOk, Res.isPanic]

theorem hasIndexU_map_str (e : Ty) (ks : List String) (vs : List Payload) (key : String) :
    hasIndexU ⟨.map e, .smap ks vs⟩ ⟨.string, .s key⟩ = .ok (boolVal (ks.contains key)) := by
  simp [hasIndexU, Value.isKnown, Payload.isKnown, Payload.unmark1, Ty.isDyn, Ty.isString]

theorem hasIndexU_map_unk (e : Ty) (r : Rfn) (key : String) :
    hasIndexU ⟨.map e, .unk r⟩ ⟨.string, .s key⟩ = .ok unkBool := by
  simp [hasIndexU, Value.isKnown, Payload.isKnown, Payload.unmark1, Ty.isDyn, Ty.isString]

theorem indexU_map_str (e : Ty) (ks : List String) (vs : List Payload) (key : String) :
    (indexU ⟨.map e, .smap ks vs⟩ ⟨.string, .s key⟩).isOk = true := by
  simp [indexU, Value.isKnown, Payload.isKnown, Payload.unmark1, Ty.isDyn, Ty.isString, Res.isOk]

theorem index_step_map (e : Ty) (p : Payload) (key : String)
    (hs : shapedV ⟨.map e, p⟩ = true) (hnull : (⟨.map e, p⟩ : Value).isNull = false) :
    ((PathStep.index ⟨.string, .s key⟩).apply ⟨.map e, p⟩).isOk =
        indexExists ⟨.string, .s key⟩ ⟨.map e, p⟩ ∧
      ((PathStep.index ⟨.string, .s key⟩).apply ⟨.map e, p⟩).isPanic = false := by
  have hkm : (⟨.string, .s key⟩ : Value).isMarked = false := rfl
  have hsu : shaped (.map e) p.unmark1 = true := shaped_unmark1 hs
  have hmu := shaped_unmark1_notMarked hs
  have hty : ((⟨.string, .s key⟩ : Value).ty = .number ∧ PathStep.isListOrTuple (⟨.map e, p⟩ : Value).ty = true) ∨
      ((⟨.string, .s key⟩ : Value).ty = .string ∧ PathStep.isMap (⟨.map e, p⟩ : Value).ty = true) :=
    Or.inr ⟨rfl, rfl⟩
  by_cases hk : (⟨.map e, p⟩ : Value).isKnown = true
  · obtain ⟨ks, vs, hv⟩ := shaped_known_cases hsu hmu (raw_of_flags hnull hk).1 (raw_of_flags hnull hk).2
    have hu : (⟨.map e, p⟩ : Value).unmark = ⟨.map e, .smap ks vs⟩ := by simp only [Value.unmark, hv]
    rw [apply_index_of _ _ _ hnull hkm rfl hty (by rw [hu]; exact hasIndexU_map_str e ks vs key) rfl]
    simp only [indexExists, hk, hv, Bool.not_false, Bool.true_and, if_true, boolVal_isKnown,
      boolVal_isTrue, Bool.not_true, Bool.false_eq_true, if_false]
    by_cases hc : ks.contains key = true
    · have h2 := index_isOk ⟨.map e, p⟩ ⟨.string, .s key⟩ hkm
      have hok := indexU_map_str e ks vs key
      rw [hu] at h2
      simp only [hc, Bool.not_true, Bool.false_eq_true, if_false, h2.1, h2.2, hok,
        isPanic_of_isOk hok, and_self]
    · have hc0 : key ∉ ks := by simpa using hc
      simp [hc0, Res.isOk, Res.isPanic]
  · have hk0 : (⟨.map e, p⟩ : Value).isKnown = false := by simpa using hk
    obtain ⟨r, hr⟩ := unknown_raw hk0
    have hu : (⟨.map e, p⟩ : Value).unmark = ⟨.map e, .unk r⟩ := by
      simp only [Value.unmark]; simp only at hr; rw [hr]
    rw [apply_index_of _ _ _ hnull hkm rfl hty (by rw [hu]; exact hasIndexU_map_unk e r key) rfl]
    simp only [indexExists, hk0, unkBool_isKnown, Bool.not_false, Bool.true_and, if_true, PathStep.isTuple,
      Bool.false_eq_true, if_false]
    exact ⟨rfl, rfl⟩


/-! ### keys that carry marks, unknown keys, null keys -/

/-- the mark prologue in general: the operation on both operands unmarked, then a
map that leaves the unmarked value alone -/
theorem binMarks_form_gen (f : Value → Value → Res Value) (a k : Value) :
    ∃ g : Value → Value, (∀ x, (g x).unmark = x.unmark) ∧ (∀ x, (g x).ty = x.ty) ∧
      binMarks f a k = (f a.unmark k.unmark).map g := by
  simp only [binMarks]
  by_cases hm : (a.isMarked || k.isMarked) = true
  · refine ⟨fun x => x.withMarks (unionMarks a.marks k.marks), fun x => ?_, fun _ => rfl, ?_⟩
    · simp only [Value.unmark, Value.withMarks, unmark1_withMarks]
    · simp [hm]
  · simp only [Bool.or_eq_true, not_or, Bool.not_eq_true] at hm
    refine ⟨id, fun _ => rfl, fun _ => rfl, ?_⟩
    simp only [hm.1, hm.2, Bool.or_self, Bool.false_eq_true, if_false, unmark_of_not_marked a hm.1,
      unmark_of_not_marked k hm.2]
    cases f a k <;> rfl

theorem unmark_unmark {k : Value} (hs : shapedV k = true) : k.unmark.unmark = k.unmark := by
  simp only [Value.unmark, unmark1_idem (shaped_unmark1_notMarked hs)]

theorem isNull_unmark {k : Value} (hs : shapedV k = true) : k.unmark.isNull = k.isNull := by
  simp only [Value.isNull, Payload.isNull, Value.unmark, unmark1_idem (shaped_unmark1_notMarked hs)]

theorem index_core (R I : Res Value) (E : Res Value) (g1 g2 g3 g4 : Value → Value)
    (hu1 : ∀ x, (g1 x).unmark = x.unmark) (hu2 : ∀ x, (g2 x).unmark = x.unmark) :
    let body := fun (g g' : Value → Value) =>
      (match R.map g with
       | .ok has =>
         if !has.unmark.isKnown then E
         else if !has.unmark.isTrue then Res.err "value does not have given index key"
         else I.map g'
       | .err c => .err c
       | .panic w => .panic w
       | .unmodelled => .unmodelled : Res Value)
    (body g1 g3).isOk = (body g2 g4).isOk ∧ (body g1 g3).isPanic = (body g2 g4).isPanic := by
  intro body
  simp only [body]
  cases R with
  | ok h0 =>
    simp only [Res.map, hu1, hu2]
    by_cases hk : (!h0.unmark.isKnown) = true
    · simp only [hk, if_true, and_self]
    · simp only [hk, Bool.false_eq_true, if_false]
      by_cases ht : (!h0.unmark.isTrue) = true
      · simp only [ht, if_true, and_self]
      · simp only [ht, Bool.false_eq_true, if_false]
        cases I <;> exact ⟨rfl, rfl⟩
  | err c => exact ⟨rfl, rfl⟩
  | panic w => exact ⟨rfl, rfl⟩
  | unmodelled => exact ⟨rfl, rfl⟩

/-- **marks on the key do not matter** for whether the step succeeds or panics -/
theorem apply_index_unmark (v k : Value) (hks : shapedV k = true) :
    ((PathStep.index k).apply v).isOk = ((PathStep.index k.unmark).apply v).isOk ∧
    ((PathStep.index k).apply v).isPanic = ((PathStep.index k.unmark).apply v).isPanic := by
  obtain ⟨g1, hu1, _, h1⟩ := binMarks_form_gen hasIndexU v k
  obtain ⟨g2, hu2, _, h2⟩ := binMarks_form_gen hasIndexU v k.unmark
  obtain ⟨g3, _, _, h3⟩ := binMarks_form_gen indexU v k
  obtain ⟨g4, _, _, h4⟩ := binMarks_form_gen indexU v k.unmark
  rw [unmark_unmark hks] at h2 h4
  have hty : k.unmark.ty = k.ty := rfl
  have core := index_core (hasIndexU v.unmark k.unmark) (indexU v.unmark k.unmark)
    (if PathStep.isTuple v.ty then .ok Value.dynVal else (PathStep.elementType v.ty).map Value.unknown)
    g1 g2 g3 g4 hu1 hu2
  simp only [PathStep.apply, hty, isNull_unmark hks, Value.hasIndex, Value.index, h1, h2, h3, h4]
  by_cases hvn : v.isNull = true
  · simp only [hvn, if_true, and_self]
  · simp only [hvn, Bool.false_eq_true, if_false]
    by_cases hkn : k.isNull = true
    · simp only [hkn, if_true]
      cases k.ty <;> first
        | exact ⟨trivial, trivial⟩
        | exact ⟨rfl, rfl⟩
        | (split <;> first | exact ⟨trivial, trivial⟩ | exact ⟨rfl, rfl⟩)
    · simp only [hkn, Bool.false_eq_true, if_false]
      cases k.ty <;> first
        | exact ⟨trivial, trivial⟩
        | exact ⟨rfl, rfl⟩
        | (split <;> first | exact core | exact ⟨trivial, trivial⟩ | exact ⟨rfl, rfl⟩)

theorem hasIndexU_unk_num (t : Ty) (raw : Payload) (r : Rfn)
    (ht : PathStep.isListOrTuple t = true) :
    hasIndexU ⟨t, raw⟩ ⟨.number, .unk r⟩ = .ok unkBool := by
  cases t <;> simp [PathStep.isListOrTuple] at ht <;>
    simp [hasIndexU, Value.isKnown, Payload.isKnown, Payload.unmark1, Ty.isDyn, Ty.isNumber]

theorem hasIndexU_unk_str (e : Ty) (raw : Payload) (r : Rfn) :
    hasIndexU ⟨.map e, raw⟩ ⟨.string, .unk r⟩ = .ok unkBool := by
  simp [hasIndexU, Value.isKnown, Payload.isKnown, Payload.unmark1, Ty.isDyn, Ty.isString]

theorem indexExists_other (k v : Value) (h1 : k.ty ≠ .number) (h2 : k.ty ≠ .string) :
    indexExists k v = false := by
  obtain ⟨kt, kp⟩ := k
  cases kt <;> first
    | exact absurd rfl h1
    | exact absurd rfl h2
    | rfl

theorem kindFits_other (kt vt : Ty) (h1 : kt ≠ .number) (h2 : kt ≠ .string) :
    kindFits kt vt = false := by
  cases kt <;> first
    | exact absurd rfl h1
    | exact absurd rfl h2
    | rfl

/-- a key that is neither a number nor a string: an error, and it names nothing -/
theorem index_step_other (v k : Value) (h1 : k.ty ≠ .number) (h2 : k.ty ≠ .string) :
    ((PathStep.index k).apply v).isOk = stepExists (.index k) v ∧
      ((PathStep.index k).apply v).isPanic = false := by
  have hex : stepExists (.index k) v = false := by
    have h3 : k.unmark.ty ≠ .number := h1
    have h4 : k.unmark.ty ≠ .string := h2
    simp only [stepExists, indexExists_other k.unmark v h3 h4, kindFits_other k.ty v.ty h1 h2]
    simp
  rw [hex]
  obtain ⟨kt, kp⟩ := k
  simp only [PathStep.apply]
  cases kt <;> first
    | exact absurd rfl h1
    | exact absurd rfl h2
    | (split <;> exact ⟨rfl, rfl⟩)

/-- a null key: an error (no longer a panic), and it names nothing -/
theorem index_step_null (v k : Value) (hkN : k.isNull = true) :
    ((PathStep.index k).apply v).isOk = stepExists (.index k) v ∧
      ((PathStep.index k).apply v).isPanic = false := by
  have hex : stepExists (.index k) v = false := by
    simp only [stepExists, hkN]; simp
  rw [hex]
  simp only [PathStep.apply, hkN, if_true]
  split
  · exact ⟨rfl, rfl⟩
  · split <;> first
      | exact ⟨rfl, rfl⟩
      | (rename_i h; split at h <;> first | (split at h <;> cases h) | cases h)

/-- an unknown number / string key: accepted when the kind fits, with an unknown result -/
theorem index_step_unknown (v k : Value) (hnull : v.isNull = false) (hkm : k.isMarked = false)
    (hkn : k.isNull = false) (hkk : k.isKnown = false)
    (hH : ∀ raw, kindFits k.ty v.ty = true → hasIndexU ⟨v.ty, raw⟩ k = .ok unkBool)
    (hkt : k.ty = .number ∨ k.ty = .string) :
    ((PathStep.index k).apply v).isOk = stepExists (.index k) v ∧
      ((PathStep.index k).apply v).isPanic = false := by
  have hex : stepExists (.index k) v = kindFits k.ty v.ty := by
    simp only [stepExists, hnull, hkn, hkk]; simp
  rw [hex]
  by_cases hf : kindFits k.ty v.ty = true
  · have hty : (k.ty = .number ∧ PathStep.isListOrTuple v.ty = true) ∨
        (k.ty = .string ∧ PathStep.isMap v.ty = true) := by
      obtain ⟨t, p⟩ := v
      rcases hkt with h | h <;> rw [h] at hf <;> cases t <;> simp [kindFits] at hf
      · exact Or.inl ⟨h, rfl⟩
      · exact Or.inl ⟨h, rfl⟩
      · exact Or.inr ⟨h, rfl⟩
    rw [apply_index_of v k unkBool hnull hkm hkn hty (hH _ hf) rfl, hf]
    simp only [unkBool_isKnown, Bool.not_false, if_true]
    obtain ⟨t, p⟩ := v
    rcases hkt with h | h <;> rw [h] at hf <;> cases t <;> simp [kindFits] at hf <;>
      exact ⟨rfl, rfl⟩
  · have hf0 : kindFits k.ty v.ty = false := by simpa using hf
    rw [hf0]
    simp only [PathStep.apply, hnull, Bool.false_eq_true, if_false]
    obtain ⟨t, p⟩ := v
    rcases hkt with h | h <;> rw [h] at hf0 ⊢ <;> cases t <;> simp [kindFits] at hf0 <;>
      exact ⟨rfl, rfl⟩

/-- the index step with an unmarked shaped key -/
theorem index_step_unmarked (v : Value) (kt : Ty) (kp : Payload) (hs : shapedV v = true)
    (hks : shaped kt kp = true) (hkm : kp.isMarked = false) :
    ((PathStep.index ⟨kt, kp⟩).apply v).isOk = stepExists (.index ⟨kt, kp⟩) v ∧
      ((PathStep.index ⟨kt, kp⟩).apply v).isPanic = false := by
  by_cases hnull : v.isNull = true
  · simp [PathStep.apply, stepExists, hnull, Res.isOk, Res.isPanic]
  · have hnull' : v.isNull = false := by simpa using hnull
    cases kt with
    | number =>
      cases kp <;> first
        | (simp [Payload.isMarked] at hkm; done)
        | (exfalso; exact Bool.noConfusion (show false = true from hks))
        | skip
      · exact index_step_null v _ rfl
      · rename_i r
        refine index_step_unknown v _ hnull' rfl rfl rfl ?_ (Or.inl rfl)
        intro raw hf
        obtain ⟨t, p⟩ := v
        cases t <;> simp [kindFits] at hf
        · exact hasIndexU_unk_num _ raw r rfl
        · exact hasIndexU_unk_num _ raw r rfl
      · rename_i x
        have hst : stepExists (.index ⟨.number, .n x⟩) v = indexExists ⟨.number, .n x⟩ v := by
          have h1 : (⟨.number, .n x⟩ : Value).isNull = false := rfl
          have h2 : (⟨.number, .n x⟩ : Value).isKnown = true := rfl
          have h3 : (⟨.number, .n x⟩ : Value).unmark = ⟨.number, .n x⟩ := rfl
          simp only [stepExists, hnull', h1, h2, h3]; simp
        rw [hst]
        obtain ⟨t, p⟩ := v
        cases t with
        | list e => exact index_step_list e p x hs hnull'
        | tuple ts => exact index_step_tuple ts p x hs hnull'
        | _ =>
          simp only [PathStep.apply, hnull', indexExists]
          simp [PathStep.isListOrTuple, Res.isOk, Res.isPanic]
    | string =>
      cases kp <;> first
        | (simp [Payload.isMarked] at hkm; done)
        | (exfalso; exact Bool.noConfusion (show false = true from hks))
        | skip
      · exact index_step_null v _ rfl
      · rename_i r
        refine index_step_unknown v _ hnull' rfl rfl rfl ?_ (Or.inr rfl)
        intro raw hf
        obtain ⟨t, p⟩ := v
        cases t <;> simp [kindFits] at hf
        exact hasIndexU_unk_str _ raw r
      · rename_i x
        have hst : stepExists (.index ⟨.string, .s x⟩) v = indexExists ⟨.string, .s x⟩ v := by
          have h1 : (⟨.string, .s x⟩ : Value).isNull = false := rfl
          have h2 : (⟨.string, .s x⟩ : Value).isKnown = true := rfl
          have h3 : (⟨.string, .s x⟩ : Value).unmark = ⟨.string, .s x⟩ := rfl
          simp only [stepExists, hnull', h1, h2, h3]; simp
        rw [hst]
        obtain ⟨t, p⟩ := v
        cases t with
        | map e => exact index_step_map e p x hs hnull'
        | _ =>
          simp only [PathStep.apply, hnull', indexExists]
          simp [PathStep.isMap, Res.isOk, Res.isPanic]
    | _ => exact index_step_other v _ (by simp) (by simp)

/-- `stepExists` does not look at the marks of the key -/
theorem stepExists_unmark (k v : Value) (hks : shapedV k = true) :
    stepExists (.index k) v = stepExists (.index k.unmark) v := by
  have h1 : k.unmark.isKnown = k.isKnown := isKnown_unmark hks
  have hty : k.unmark.ty = k.ty := rfl
  simp only [stepExists, isNull_unmark hks, h1, unmark_unmark hks, hty]

/-- every index key of the path is a shaped value (of any type, known or not, marked or not) -/
def keysShaped : Path → Bool
  | [] => true
  | .getAttr _ :: p => keysShaped p
  | .index k :: p => shapedV k && keysShaped p

/-- **one step succeeds exactly when it names an existing member, and never panics**
(any shaped key; shaped value of a well-formed type) -/
theorem step_ok_iff (s : PathStep) (v : Value) (hs : shapedV v = true) (hw : Ty.wf v.ty = true)
    (hk : (match s with | .index k => shapedV k | .getAttr _ => true) = true) :
    (s.apply v).isOk = stepExists s v ∧ (s.apply v).isPanic = false := by
  cases s with
  | getAttr n => exact getAttr_step v n hs hw
  | index k =>
    have hred := apply_index_unmark v k hk
    have hun := index_step_unmarked v k.ty k.v.unmark1 hs (shaped_unmark1 hk)
      (shaped_unmark1_notMarked hk)
    rw [hred.1, hred.2, stepExists_unmark k v hk]
    exact hun

end Walk
end CtyModel
