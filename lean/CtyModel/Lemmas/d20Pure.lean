/-
C20 (d20) — purity beyond the all-`ok` case.

* `Value.Equals`, object and map branches, when a member comparison does NOT return
  (panics / errors): which outcome the loop reports depends on the visiting order
  only through a known-unequal member that may be visited first.
* `MapVal`'s element-type inference ranges over the caller's Go map: the type it
  picks (or the panic) does not depend on the order.
-/
import CtyModel.Lemmas.HeapPure
namespace CtyModel
namespace Purity
open Value

/-- without a known-unequal member the loop returns iff every comparison returns -/
theorem eqLoop_isOk_of_no_f : ∀ (l : List (Res EqAcc)) (s : Bool), Res.ok EqAcc.f ∉ l →
    (eqLoop l s).isOk = l.all (·.isOk) := by
  intro l
  induction l with
  | nil => intro s _; cases s <;> rfl
  | cons r l ih =>
    intro s hf
    have hl : Res.ok EqAcc.f ∉ l := fun h => hf (List.mem_cons_of_mem _ h)
    cases r with
    | ok a =>
      cases a with
      | t => simp only [eqLoop, List.all_cons, ih s hl]; simp [Res.isOk]
      | f => simp at hf
      | u => simp only [eqLoop, List.all_cons, ih true hl]; simp [Res.isOk]
    | err c => simp [eqLoop, Res.isOk]
    | panic w => simp [eqLoop, Res.isOk]
    | unmodelled => simp [eqLoop, Res.isOk]

/-- the loop never invents a failure: what it reports is `False`, or one of the
members' own failures, or (all comparisons returned) the closed form -/
theorem eqLoop_result : ∀ (l : List (Res EqAcc)) (s : Bool),
    eqLoop l s = .ok .f ∨ ((eqLoop l s).isOk = false ∧ eqLoop l s ∈ l) ∨ (∀ r ∈ l, r.isOk = true) := by
  intro l
  induction l with
  | nil => intro s; exact .inr (.inr (fun _ h => by cases h))
  | cons r l ih =>
    intro s
    cases r with
    | ok a =>
      cases a with
      | f => exact .inl rfl
      | t =>
        rcases ih s with h | ⟨h1, h2⟩ | h
        · exact .inl (by simpa [eqLoop] using h)
        · exact .inr (.inl ⟨by simpa [eqLoop] using h1, by simp only [eqLoop]; exact List.mem_cons_of_mem _ h2⟩)
        · exact .inr (.inr (fun r hr => by
            rcases List.mem_cons.mp hr with e | e
            · subst e; rfl
            · exact h r e))
      | u =>
        rcases ih true with h | ⟨h1, h2⟩ | h
        · exact .inl (by simpa [eqLoop] using h)
        · exact .inr (.inl ⟨by simpa [eqLoop] using h1, by simp only [eqLoop]; exact List.mem_cons_of_mem _ h2⟩)
        · exact .inr (.inr (fun r hr => by
            rcases List.mem_cons.mp hr with e | e
            · subst e; rfl
            · exact h r e))
    | err c => exact .inr (.inl ⟨rfl, by simp [eqLoop]⟩)
    | panic w => exact .inr (.inl ⟨rfl, by simp [eqLoop]⟩)
    | unmodelled => exact .inr (.inl ⟨rfl, by simp [eqLoop]⟩)

/-- **outcome class**: without a known-unequal member, every visiting order agrees on
WHETHER the loop returns -/
theorem eqLoop_perm_class {l l' : List (Res EqAcc)} (hp : l.Perm l') (hf : Res.ok EqAcc.f ∉ l)
    (s : Bool) : (eqLoop l s).isOk = (eqLoop l' s).isOk := by
  have hf' : Res.ok EqAcc.f ∉ l' := fun h => hf (hp.mem_iff.mpr h)
  rw [eqLoop_isOk_of_no_f l s hf, eqLoop_isOk_of_no_f l' s hf']
  exact Bool.eq_iff_iff.mpr (by
    simp only [List.all_eq_true]
    exact ⟨fun h r hr => h r (hp.mem_iff.mpr hr), fun h r hr => h r (hp.mem_iff.mp hr)⟩)

/-! ### `MapVal`: the element type picked while ranging over the caller's map

```go
elementType := DynamicPseudoType
for key, val := range vals {
    if elementType == DynamicPseudoType { elementType = val.ty
    } else if val.ty != DynamicPseudoType && !elementType.Equals(val.ty) { panic(...) }
```
`σ` is the list of the entries' types in the order visited; `none` is the panic. -/

/-- the loop; `dyn` is `DynamicPseudoType`, `eq` is `Type.Equals` -/
def mapValTy {T : Type} [DecidableEq T] (dyn : T) (eq : T → T → Bool) : List T → T → Option T
  | [], e => some e
  | t :: r, e =>
    if e = dyn then mapValTy dyn eq r t
    else if t ≠ dyn ∧ eq e t = false then none
    else mapValTy dyn eq r e

variable {T : Type} [DecidableEq T]

/-- once a non-dynamic type `e` is picked: the loop panics iff some later non-dynamic
type is unequal to it, and otherwise answers `e` -/
theorem mapValTy_picked (dyn : T) (eq : T → T → Bool) : ∀ (l : List T) (e : T), e ≠ dyn →
    mapValTy dyn eq l e = if l.all (fun t => t = dyn ∨ eq e t = true) then some e else none := by
  intro l
  induction l with
  | nil => intro e _; simp [mapValTy]
  | cons t r ih =>
    intro e he
    simp only [mapValTy, he, if_false, List.all_cons]
    by_cases h : t ≠ dyn ∧ eq e t = false
    · rw [if_pos h]
      have : (decide (t = dyn ∨ eq e t = true)) = false := by simp [h.1, h.2]
      simp [this]
    · rw [if_neg h, ih e he]
      have : (decide (t = dyn ∨ eq e t = true)) = true := by
        simp only [decide_eq_true_eq]
        by_cases ht : t = dyn
        · exact .inl ht
        · right
          cases hq : eq e t with
          | true => rfl
          | false => exact absurd ⟨ht, hq⟩ h
      simp [this]

/-- closed form from the start: skip the dynamic entries; no non-dynamic entry →
`DynamicPseudoType`; otherwise the first one, provided all the others equal it -/
theorem mapValTy_start (dyn : T) (eq : T → T → Bool) : ∀ (l : List T),
    mapValTy dyn eq l dyn =
      match l.filter (· ≠ dyn) with
      | [] => some dyn
      | e :: r => if r.all (fun t => eq e t = true) then some e else none := by
  intro l
  induction l with
  | nil => simp [mapValTy]
  | cons t r ih =>
    simp only [mapValTy, if_true]
    by_cases ht : t = dyn
    · subst ht
      simp [ih]
    · rw [mapValTy_picked dyn eq r t ht]
      simp only [List.filter_cons, ne_eq, ht, not_false_eq_true, decide_true, if_true]
      have hb : (r.all fun t' => decide (t' = dyn ∨ eq t t' = true)) =
          ((r.filter (· ≠ dyn)).all fun t' => eq t t' = true) := by
        rw [Bool.eq_iff_iff]
        simp only [List.all_eq_true, decide_eq_true_eq, List.mem_filter, decide_not,
          Bool.not_eq_eq_eq_not, Bool.not_true, decide_eq_false_iff_not, and_imp]
        constructor
        · intro h x hx hd
          exact (h x hx).resolve_left hd
        · intro h x hx
          by_cases hd : x = dyn
          · exact .inl hd
          · exact .inr (h x hx hd)
      rw [hb]

/-- **purity of MapVal's type inference**: `eq` an equivalence (as `Type.Equals` is, C07).
Two visiting orders of the same entries either both panic, or both answer
`DynamicPseudoType`, or answer two types that are `Equals`. -/
theorem mapValTy_perm (dyn : T) (eq : T → T → Bool) (hrefl : ∀ a, eq a a = true)
    (hsymm : ∀ a b, eq a b = true → eq b a = true)
    (htrans : ∀ a b c, eq a b = true → eq b c = true → eq a c = true)
    {l l' : List T} (hp : l.Perm l') :
    match mapValTy dyn eq l dyn, mapValTy dyn eq l' dyn with
    | some a, some b => eq a b = true
    | none, none => True
    | _, _ => False := by
  rw [mapValTy_start, mapValTy_start]
  have hpf : (l.filter (· ≠ dyn)).Perm (l'.filter (· ≠ dyn)) := hp.filter _
  generalize l.filter (· ≠ dyn) = a at hpf
  generalize l'.filter (· ≠ dyn) = b at hpf
  cases a with
  | nil =>
    have : b = [] := by simpa using hpf.symm
    subst this
    exact hrefl dyn
  | cons e r =>
    cases b with
    | nil => simp at hpf
    | cons e' r' =>
      simp only []
      have he' : e' ∈ e :: r := hpf.mem_iff.mpr List.mem_cons_self
      have he : e ∈ e' :: r' := hpf.mem_iff.mp List.mem_cons_self
      by_cases h1 : r.all (fun t => eq e t = true) = true
      · -- everything equals e, hence e', hence everything equals e'
        have hall : ∀ x ∈ e :: r, eq e x = true := by
          intro x hx
          rcases List.mem_cons.mp hx with rfl | hx
          · exact hrefl _
          · simpa using (List.all_eq_true.mp h1) x hx
        have h2 : r'.all (fun t => eq e' t = true) = true := by
          rw [List.all_eq_true]
          intro x hx
          have hx' : x ∈ e :: r := hpf.mem_iff.mpr (List.mem_cons_of_mem _ hx)
          simp only [decide_eq_true_eq]
          exact htrans _ _ _ (hsymm _ _ (hall e' he')) (hall x hx')
        simp only [h1, h2, if_true]
        exact hall e' he'
      · have h2 : ¬ r'.all (fun t => eq e' t = true) = true := by
          intro h2
          apply h1
          have hall : ∀ x ∈ e' :: r', eq e' x = true := by
            intro x hx
            rcases List.mem_cons.mp hx with rfl | hx
            · exact hrefl _
            · simpa using (List.all_eq_true.mp h2) x hx
          rw [List.all_eq_true]
          intro x hx
          have hx' : x ∈ e' :: r' := hpf.mem_iff.mp (List.mem_cons_of_mem _ hx)
          simp only [decide_eq_true_eq]
          exact htrans _ _ _ (hsymm _ _ (hall e he)) (hall x hx')
        rw [if_neg h1, if_neg h2]; trivial

end Purity
end CtyModel
