/-
C11 totality obligations, part 1: inversion of the argument contract for the parameter
shapes of the modelled functions, and `length`, `hasindex`, `keys`, `values`, `reverse`.
Per function:
  `type_total_<f>`  the `Type` callback does not panic on what the protocol may hand it,
  `implGood_<f>`    `Impl`, handed the type `Type` answered, does not panic, returns a value
                    conforming to that type and accepted by `refineNonNull`.
-/
import CtyModel.Lemmas.StdOblAcc
namespace CtyModel
namespace Stdlib
open Fn Value
variable {nfc : String → Bool}

/-! ### inverting the contract -/

theorem args_inv1 {P : Param → Value → Prop} {p : Param} {r : Option RefineFn} {as : List Value}
    (h : ({ params := [p], varParam := none, refine := r } : Spec).countOK as.length = true ∧
      All₂ P (({ params := [p], varParam := none, refine := r } : Spec).expand as.length) as) :
    ∃ a, as = [a] ∧ P p a := by
  obtain ⟨hc, ha⟩ := h
  simp only [Spec.countOK, List.length_cons, List.length_nil, beq_iff_eq] at hc
  match as, hc, ha with
  | [a], _, ha =>
    simp only [Spec.expand, List.append_nil] at ha
    cases ha with
    | cons h1 _ => exact ⟨a, rfl, h1⟩

theorem args_inv2 {P : Param → Value → Prop} {p q : Param} {r : Option RefineFn} {as : List Value}
    (h : ({ params := [p, q], varParam := none, refine := r } : Spec).countOK as.length = true ∧
      All₂ P (({ params := [p, q], varParam := none, refine := r } : Spec).expand as.length) as) :
    ∃ a b, as = [a, b] ∧ P p a ∧ P q b := by
  obtain ⟨hc, ha⟩ := h
  simp only [Spec.countOK, List.length_cons, List.length_nil, beq_iff_eq] at hc
  match as, hc, ha with
  | [a, b], _, ha =>
    simp only [Spec.expand, List.append_nil] at ha
    cases ha with
    | cons h1 h2 => cases h2 with
      | cons h2 _ => exact ⟨a, b, rfl, h1, h2⟩

theorem args_inv3 {P : Param → Value → Prop} {p q s : Param} {r : Option RefineFn} {as : List Value}
    (h : ({ params := [p, q, s], varParam := none, refine := r } : Spec).countOK as.length = true ∧
      All₂ P (({ params := [p, q, s], varParam := none, refine := r } : Spec).expand as.length) as) :
    ∃ a b c, as = [a, b, c] ∧ P p a ∧ P q b ∧ P s c := by
  obtain ⟨hc, ha⟩ := h
  simp only [Spec.countOK, List.length_cons, List.length_nil, beq_iff_eq] at hc
  match as, hc, ha with
  | [a, b, c], _, ha =>
    simp only [Spec.expand, List.append_nil] at ha
    cases ha with
    | cons h1 h2 => cases h2 with
      | cons h2 h3 => cases h3 with
        | cons h3 _ => exact ⟨a, b, c, rfl, h1, h2, h3⟩

theorem all₂_replicate {P : Param → Value → Prop} {vp : Param} : ∀ {n : Nat} {as : List Value},
    All₂ P (List.replicate n vp) as → ∀ a ∈ as, P vp a
  | 0, _, h, a, ha => by cases h; simp at ha
  | n + 1, _, h, a, ha => by
    simp only [List.replicate_succ] at h
    cases h with
    | cons h1 h2 =>
      simp only [List.mem_cons] at ha
      rcases ha with rfl | ha
      · exact h1
      · exact all₂_replicate h2 a ha

theorem args_invVar {P : Param → Value → Prop} {vp : Param} {r : Option RefineFn} {as : List Value}
    (h : ({ params := [], varParam := some vp, refine := r } : Spec).countOK as.length = true ∧
      All₂ P (({ params := [], varParam := some vp, refine := r } : Spec).expand as.length) as) :
    ∀ a ∈ as, P vp a := by
  obtain ⟨_, ha⟩ := h
  simp only [Spec.expand, List.nil_append, List.length_nil, Nat.sub_zero] at ha
  exact all₂_replicate ha

theorem args_inv1Var {P : Param → Value → Prop} {p vp : Param} {r : Option RefineFn} {as : List Value}
    (h : ({ params := [p], varParam := some vp, refine := r } : Spec).countOK as.length = true ∧
      All₂ P (({ params := [p], varParam := some vp, refine := r } : Spec).expand as.length) as) :
    ∃ a rest, as = a :: rest ∧ P p a ∧ ∀ b ∈ rest, P vp b := by
  obtain ⟨hc, ha⟩ := h
  simp only [Spec.countOK, List.length_cons, List.length_nil] at hc
  match as, hc, ha with
  | a :: rest, _, ha =>
    simp only [Spec.expand, List.length_cons, List.length_nil, List.cons_append, List.nil_append] at ha
    cases ha with
    | cons h1 h2 =>
      refine ⟨a, rest, rfl, h1, all₂_replicate (n := rest.length) (by simpa using h2)⟩

/-! ### `length` -/

theorem type_total_length {as : List Value} (h : TypeArgsOK nfc lengthSpec as) (w : String) :
    lengthType as ≠ .panic w := by
  obtain ⟨a, rfl, _⟩ := args_inv1 h
  simp only [lengthType]
  split <;> simp

end Stdlib
end CtyModel
