/-
Lemmas for the function-call protocol (C10): mark sets, the mark layer of
payloads, and the relation between the transliterated argument loops of
`Function.lean` and their list-level specification (`firstFail`, `Spec.expand`).
-/
import CtyModel.Function
namespace CtyModel

/-! ### mark sets -/

theorem mem_insertMark {a m : String} {l : List String} : a ∈ insertMark m l ↔ a = m ∨ a ∈ l := by
  induction l with
  | nil => simp [insertMark]
  | cons x xs ih =>
    unfold insertMark
    split
    · simp
    · split
      · rename_i h; subst h; simp
      · simp only [List.mem_cons, ih]
        constructor
        · rintro (h | h | h) <;> simp [h]
        · rintro (h | h | h) <;> simp [h]

theorem insertMark_ne_nil (m : String) (l : List String) : insertMark m l ≠ [] := by
  cases l with
  | nil => simp [insertMark]
  | cons x xs =>
    unfold insertMark
    split
    · simp
    · split <;> simp

theorem mem_unionMarks {a : String} {x y : List String} : a ∈ unionMarks x y ↔ a ∈ x ∨ a ∈ y := by
  induction x with
  | nil => simp [unionMarks]
  | cons m ms ih =>
    have : unionMarks (m :: ms) y = insertMark m (unionMarks ms y) := rfl
    rw [this, mem_insertMark, ih]; simp [or_assoc]

theorem unionMarks_eq_nil {x y : List String} : unionMarks x y = [] ↔ x = [] ∧ y = [] := by
  cases x with
  | nil => simp [unionMarks]
  | cons m ms =>
    have : unionMarks (m :: ms) y = insertMark m (unionMarks ms y) := rfl
    simp [this, insertMark_ne_nil]


/-! ### the mark layer of payloads -/
namespace Payload

mutual
/-- marker layers as the constructors build them: never an empty mark set, never a
marker directly inside a marker (`Mark`/`WithMarks` merge into the existing layer). -/
def markerWF : Payload → Bool
  | .marked ms r => !ms.isEmpty && !r.isMarked && markerWF r
  | .seq vs | .smap _ vs | .sset _ vs => markerWFL vs
  | _ => true
def markerWFL : List Payload → Bool
  | [] => true
  | v :: vs => markerWF v && markerWFL vs
end

mutual
theorem containsMarked_stripMarks : ∀ p : Payload, (stripMarks p).containsMarked = false
  | .marked _ r => by simpa [stripMarks] using containsMarked_stripMarks r
  | .seq vs => by simpa [stripMarks, containsMarked] using containsMarkedL_stripMarksL vs
  | .smap _ vs => by simpa [stripMarks, containsMarked] using containsMarkedL_stripMarksL vs
  | .sset _ vs => by simpa [stripMarks, containsMarked] using containsMarkedL_stripMarksL vs
  | .null | .unk _ | .b _ | .n _ | .s _ | .caps | .bad _ => by simp [stripMarks, containsMarked]
theorem containsMarkedL_stripMarksL : ∀ vs : List Payload, containsMarkedL (stripMarksL vs) = false
  | [] => rfl
  | v :: vs => by
    simp [stripMarksL, containsMarkedL, containsMarked_stripMarks v, containsMarkedL_stripMarksL vs]
end

mutual
theorem marksDeep_of_not_containsMarked : ∀ p : Payload, p.containsMarked = false → p.marksDeep = []
  | .marked _ r, h => by simp [containsMarked] at h
  | .seq vs, h => by simpa [marksDeep] using marksDeepL_of_not_containsMarkedL vs (by simpa [containsMarked] using h)
  | .smap _ vs, h => by simpa [marksDeep] using marksDeepL_of_not_containsMarkedL vs (by simpa [containsMarked] using h)
  | .sset _ vs, h => by simpa [marksDeep] using marksDeepL_of_not_containsMarkedL vs (by simpa [containsMarked] using h)
  | .null, _ | .unk _, _ | .b _, _ | .n _, _ | .s _, _ | .caps, _ | .bad _, _ => by simp [marksDeep]
theorem marksDeepL_of_not_containsMarkedL : ∀ vs : List Payload, containsMarkedL vs = false → marksDeepL vs = []
  | [], _ => rfl
  | v :: vs, h => by
    simp only [containsMarkedL, Bool.or_eq_false_iff] at h
    simp [marksDeepL, marksDeep_of_not_containsMarked v h.1, marksDeepL_of_not_containsMarkedL vs h.2, unionMarks]
end

theorem marksDeep_stripMarks (p : Payload) : (stripMarks p).marksDeep = [] :=
  marksDeep_of_not_containsMarked _ (containsMarked_stripMarks p)

mutual
theorem not_containsMarked_of_marksDeep_nil : ∀ p : Payload, p.markerWF = true → p.marksDeep = [] →
    p.containsMarked = false
  | .marked ms r, hw, h => by
    simp only [marksDeep, unionMarks_eq_nil] at h
    simp [markerWF, h.1] at hw
  | .seq vs, hw, h => by
    simpa [containsMarked] using not_containsMarkedL_of_marksDeepL_nil vs (by simpa [markerWF] using hw) (by simpa [marksDeep] using h)
  | .smap _ vs, hw, h => by
    simpa [containsMarked] using not_containsMarkedL_of_marksDeepL_nil vs (by simpa [markerWF] using hw) (by simpa [marksDeep] using h)
  | .sset _ vs, hw, h => by
    simpa [containsMarked] using not_containsMarkedL_of_marksDeepL_nil vs (by simpa [markerWF] using hw) (by simpa [marksDeep] using h)
  | .null, _, _ | .unk _, _, _ | .b _, _, _ | .n _, _, _ | .s _, _, _ | .caps, _, _ | .bad _, _, _ => by simp [containsMarked]
theorem not_containsMarkedL_of_marksDeepL_nil : ∀ vs : List Payload, markerWFL vs = true → marksDeepL vs = [] →
    containsMarkedL vs = false
  | [], _, _ => rfl
  | v :: vs, hw, h => by
    simp only [markerWFL, Bool.and_eq_true] at hw
    simp only [marksDeepL, unionMarks_eq_nil] at h
    simp [containsMarkedL, not_containsMarked_of_marksDeep_nil v hw.1 h.1, not_containsMarkedL_of_marksDeepL_nil vs hw.2 h.2]
end

/-- stripping marks of a value whose top node is not a marker leaves the top constructor -/
theorem unmark1_stripMarks_of_not_marked : ∀ p : Payload, p.isMarked = false →
    ((stripMarks p).isNull = p.isNull ∧ (stripMarks p).isKnown = p.isKnown)
  | .marked _ _, h => by simp [isMarked] at h
  | .seq _, _ | .smap _ _, _ | .sset _ _, _ => by simp [stripMarks, isNull, isKnown, unmark1]
  | .null, _ | .unk _, _ | .b _, _ | .n _, _ | .s _, _ | .caps, _ | .bad _, _ => by simp [stripMarks]

theorem isNull_isKnown_stripMarks (p : Payload) (hw : p.markerWF = true) :
    (stripMarks p).isNull = p.isNull ∧ (stripMarks p).isKnown = p.isKnown := by
  cases p with
  | marked ms r =>
    simp only [markerWF, Bool.and_eq_true, Bool.not_eq_true'] at hw
    have := unmark1_stripMarks_of_not_marked r hw.1.2
    cases r <;> simp_all [stripMarks, isNull, isKnown, unmark1, isMarked]
  | _ => exact unmark1_stripMarks_of_not_marked _ (by simp [isMarked])

end Payload

end CtyModel
