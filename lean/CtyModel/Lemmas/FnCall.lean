/-
Lemmas for the function-call protocol (C10): mark sets, the mark layer of
payloads, and the relation between the transliterated argument loops of
`Function.lean` and their list-level specification (`firstFail`, `Spec.expand`).
-/
import CtyModel.Function
namespace CtyModel

/-! ### mark sets -/

theorem mem_insertMark {a m : String} {l : List String} : a ∈ insertMark m l ↔ a = m ∨ a ∈ l := by
  induction l with
  | nil => simp [insertMark]
  | cons x xs ih =>
    unfold insertMark
    split
    · simp
    · split
      · rename_i h; subst h; simp
      · simp only [List.mem_cons, ih]
        constructor
        · rintro (h | h | h) <;> simp [h]
        · rintro (h | h | h) <;> simp [h]

theorem insertMark_ne_nil (m : String) (l : List String) : insertMark m l ≠ [] := by
  cases l with
  | nil => simp [insertMark]
  | cons x xs =>
    unfold insertMark
    split
    · simp
    · split <;> simp

theorem mem_unionMarks {a : String} {x y : List String} : a ∈ unionMarks x y ↔ a ∈ x ∨ a ∈ y := by
  induction x with
  | nil => simp [unionMarks]
  | cons m ms ih =>
    have : unionMarks (m :: ms) y = insertMark m (unionMarks ms y) := rfl
    rw [this, mem_insertMark, ih]; simp [or_assoc]

theorem unionMarks_eq_nil {x y : List String} : unionMarks x y = [] ↔ x = [] ∧ y = [] := by
  cases x with
  | nil => simp [unionMarks]
  | cons m ms =>
    have : unionMarks (m :: ms) y = insertMark m (unionMarks ms y) := rfl
    simp [this, insertMark_ne_nil]


/-! ### the mark layer of payloads -/
namespace Payload

mutual
theorem containsMarked_stripMarks : ∀ p : Payload, (stripMarks p).containsMarked = false
  | .marked _ r => by simpa [stripMarks] using containsMarked_stripMarks r
  | .seq vs => by simpa [stripMarks, containsMarked] using containsMarkedL_stripMarksL vs
  | .smap _ vs => by simpa [stripMarks, containsMarked] using containsMarkedL_stripMarksL vs
  | .sset _ vs => by simpa [stripMarks, containsMarked] using containsMarkedL_stripMarksL vs
  | .null | .unk _ | .b _ | .n _ | .s _ | .caps | .bad _ => by simp [stripMarks, containsMarked]
theorem containsMarkedL_stripMarksL : ∀ vs : List Payload, containsMarkedL (stripMarksL vs) = false
  | [] => rfl
  | v :: vs => by
    simp [stripMarksL, containsMarkedL, containsMarked_stripMarks v, containsMarkedL_stripMarksL vs]
end

mutual
theorem marksDeep_of_not_containsMarked : ∀ p : Payload, p.containsMarked = false → p.marksDeep = []
  | .marked _ r, h => by simp [containsMarked] at h
  | .seq vs, h => by simpa [marksDeep] using marksDeepL_of_not_containsMarkedL vs (by simpa [containsMarked] using h)
  | .smap _ vs, h => by simpa [marksDeep] using marksDeepL_of_not_containsMarkedL vs (by simpa [containsMarked] using h)
  | .sset _ vs, h => by simpa [marksDeep] using marksDeepL_of_not_containsMarkedL vs (by simpa [containsMarked] using h)
  | .null, _ | .unk _, _ | .b _, _ | .n _, _ | .s _, _ | .caps, _ | .bad _, _ => by simp [marksDeep]
theorem marksDeepL_of_not_containsMarkedL : ∀ vs : List Payload, containsMarkedL vs = false → marksDeepL vs = []
  | [], _ => rfl
  | v :: vs, h => by
    simp only [containsMarkedL, Bool.or_eq_false_iff] at h
    simp [marksDeepL, marksDeep_of_not_containsMarked v h.1, marksDeepL_of_not_containsMarkedL vs h.2, unionMarks]
end

theorem marksDeep_stripMarks (p : Payload) : (stripMarks p).marksDeep = [] :=
  marksDeep_of_not_containsMarked _ (containsMarked_stripMarks p)

mutual
theorem not_containsMarked_of_marksDeep_nil : ∀ p : Payload, p.markerWF = true → p.marksDeep = [] →
    p.containsMarked = false
  | .marked ms r, hw, h => by
    simp only [marksDeep, unionMarks_eq_nil] at h
    simp [markerWF, h.1] at hw
  | .seq vs, hw, h => by
    simpa [containsMarked] using not_containsMarkedL_of_marksDeepL_nil vs (by simpa [markerWF] using hw) (by simpa [marksDeep] using h)
  | .smap _ vs, hw, h => by
    simpa [containsMarked] using not_containsMarkedL_of_marksDeepL_nil vs (by simpa [markerWF] using hw) (by simpa [marksDeep] using h)
  | .sset _ vs, hw, h => by
    simpa [containsMarked] using not_containsMarkedL_of_marksDeepL_nil vs (by simpa [markerWF] using hw) (by simpa [marksDeep] using h)
  | .null, _, _ | .unk _, _, _ | .b _, _, _ | .n _, _, _ | .s _, _, _ | .caps, _, _ | .bad _, _, _ => by simp [containsMarked]
theorem not_containsMarkedL_of_marksDeepL_nil : ∀ vs : List Payload, markerWFL vs = true → marksDeepL vs = [] →
    containsMarkedL vs = false
  | [], _, _ => rfl
  | v :: vs, hw, h => by
    simp only [markerWFL, Bool.and_eq_true] at hw
    simp only [marksDeepL, unionMarks_eq_nil] at h
    simp [containsMarkedL, not_containsMarked_of_marksDeep_nil v hw.1 h.1, not_containsMarkedL_of_marksDeepL_nil vs hw.2 h.2]
end

/-- stripping marks of a value whose top node is not a marker leaves the top constructor -/
theorem unmark1_stripMarks_of_not_marked : ∀ p : Payload, p.isMarked = false →
    ((stripMarks p).isNull = p.isNull ∧ (stripMarks p).isKnown = p.isKnown)
  | .marked _ _, h => by simp [isMarked] at h
  | .seq _, _ | .smap _ _, _ | .sset _ _, _ => by simp [stripMarks, isNull, isKnown, unmark1]
  | .null, _ | .unk _, _ | .b _, _ | .n _, _ | .s _, _ | .caps, _ | .bad _, _ => by simp [stripMarks]

theorem isNull_isKnown_stripMarks (p : Payload) (hw : p.markerWF = true) :
    (stripMarks p).isNull = p.isNull ∧ (stripMarks p).isKnown = p.isKnown := by
  cases p with
  | marked ms r =>
    simp only [markerWF, Bool.and_eq_true, Bool.not_eq_true'] at hw
    have := unmark1_stripMarks_of_not_marked r hw.1.2
    cases r <;> simp_all [stripMarks, isNull, isKnown, unmark1, isMarked]
  | _ => exact unmark1_stripMarks_of_not_marked _ (by simp [isMarked])

end Payload


/-! ### the argument loops of `returnTypeForValues` -/
namespace Fn

/-- first argument (position, reason) at which the per-argument checks stop -/
def firstFail : List Param → List Value → Option (Nat × ArgFail)
  | p :: ps, v :: vs =>
    match p.check v with
    | some f => some (0, f)
    | none => (firstFail ps vs).map fun kf => (kf.1 + 1, kf.2)
  | _, _ => none

/-- what `returnTypeForValues` answers for a first failure at absolute position `k` -/
def Pass1.ofFail (k : Nat) : ArgFail → Pass1
  | .dynamic => .dyn
  | _ => .argErr k

theorem checkLoop_eq : ∀ (ps : List Param) (vs : List Value) (i off : Nat),
    checkLoop ps vs i off =
      match firstFail ps vs with
      | none => .ok (List.zipWith Param.typeArg ps vs)
      | some (k, f) => Pass1.ofFail (i + k + off) f
  | [], vs, i, off => by simp [checkLoop, firstFail]
  | p :: ps, [], i, off => by simp [checkLoop, firstFail]
  | p :: ps, v :: vs, i, off => by
    simp only [checkLoop, firstFail]
    cases hc : p.check v with
    | some f => cases f <;> simp [Pass1.ofFail]
    | none =>
      simp only [checkLoop_eq ps vs (i + 1) off]
      cases hf : firstFail ps vs with
      | none => simp
      | some kf =>
        obtain ⟨k, f⟩ := kf
        have : i + 1 + k + off = i + (k + 1) + off := by omega
        cases f <;> simp [Pass1.ofFail, this]

theorem firstFail_none : ∀ {ps : List Param} {vs : List Value}, firstFail ps vs = none →
    ∀ (j : Nat) (p : Param) (v : Value), ps[j]? = some p → vs[j]? = some v → p.check v = none
  | [], _, _, j, p, v, hp, _ => by simp at hp
  | _ :: _, [], _, j, p, v, _, hv => by simp at hv
  | p0 :: ps, v0 :: vs, h, j, p, v, hp, hv => by
    simp only [firstFail] at h
    cases hc : p0.check v0 with
    | some f => simp [hc] at h
    | none =>
      simp only [hc, Option.map_eq_none_iff] at h
      cases j with
      | zero => simp at hp hv; subst hp hv; exact hc
      | succ j => exact firstFail_none h j p v (by simpa using hp) (by simpa using hv)

theorem firstFail_some : ∀ {ps : List Param} {vs : List Value} {k : Nat} {f : ArgFail},
    firstFail ps vs = some (k, f) →
    (∃ p v, ps[k]? = some p ∧ vs[k]? = some v ∧ p.check v = some f) ∧
    ∀ (j : Nat) (p : Param) (v : Value), j < k → ps[j]? = some p → vs[j]? = some v → p.check v = none
  | [], _, _, _, h => by simp [firstFail] at h
  | _ :: _, [], _, _, h => by simp [firstFail] at h
  | p0 :: ps, v0 :: vs, k, f, h => by
    simp only [firstFail] at h
    cases hc : p0.check v0 with
    | some f' =>
      simp only [hc, Option.some.injEq, Prod.mk.injEq] at h
      obtain ⟨rfl, rfl⟩ := h
      exact ⟨⟨p0, v0, by simp, by simp, hc⟩, fun j _ _ hj => absurd hj (Nat.not_lt_zero _)⟩
    | none =>
      simp only [hc, Option.map_eq_some_iff] at h
      obtain ⟨⟨k', f'⟩, hf, he⟩ := h
      simp only [Prod.mk.injEq] at he
      obtain ⟨rfl, rfl⟩ := he
      obtain ⟨⟨p, v, hp, hv, hpv⟩, hlt⟩ := firstFail_some hf
      refine ⟨⟨p, v, by simpa using hp, by simpa using hv, hpv⟩, ?_⟩
      intro j p' v' hj hp' hv'
      cases j with
      | zero => simp at hp' hv'; subst hp' hv'; exact hc
      | succ j => exact hlt j p' v' (by omega) (by simpa using hp') (by simpa using hv')

theorem firstFail_append : ∀ {ps : List Param} {vs : List Value} (qs : List Param) (ws : List Value),
    ps.length = vs.length →
    firstFail (ps ++ qs) (vs ++ ws) =
      match firstFail ps vs with
      | some x => some x
      | none => (firstFail qs ws).map fun kf => (kf.1 + ps.length, kf.2)
  | [], [], qs, ws, _ => by simp [firstFail]
  | [], _ :: _, _, _, h => by simp at h
  | _ :: _, [], _, _, h => by simp at h
  | p :: ps, v :: vs, qs, ws, h => by
    simp only [List.cons_append, firstFail]
    cases hc : p.check v with
    | some f => simp
    | none =>
      simp only [firstFail_append qs ws (by simpa using h : ps.length = vs.length)]
      cases firstFail ps vs with
      | some x => simp
      | none =>
        cases firstFail qs ws with
        | none => simp
        | some kf => simp [Nat.add_assoc]

end Fn


/-! ### parameters stretched over an argument list; `pass1` as a decision table -/
namespace Fn

/-- the parameter that governs argument position `i` -/
def Spec.paramFor (spec : Spec) (i : Nat) : Option Param :=
  if i < spec.params.length then spec.params[i]? else spec.varParam

/-- the argument count is acceptable -/
def Spec.countOK (spec : Spec) (n : Nat) : Bool :=
  match spec.varParam with
  | none => n == spec.params.length
  | some _ => spec.params.length ≤ n

/-- the parameter list stretched over `n` arguments: the variadic parameter repeated for the tail -/
def Spec.expand (spec : Spec) (n : Nat) : List Param :=
  spec.params ++
    match spec.varParam with
    | some vp => List.replicate (n - spec.params.length) vp
    | none => []

theorem Spec.expand_length {spec : Spec} {n : Nat} (h : spec.countOK n = true) :
    (spec.expand n).length = n := by
  unfold Spec.expand
  unfold Spec.countOK at h
  cases hv : spec.varParam with
  | none => simp [hv] at h ⊢; omega
  | some vp => simp [hv] at h ⊢; omega

theorem Spec.expand_get {spec : Spec} {n i : Nat} (h : spec.countOK n = true) (hi : i < n) :
    (spec.expand n)[i]? = spec.paramFor i := by
  unfold Spec.expand Spec.paramFor
  unfold Spec.countOK at h
  cases hv : spec.varParam with
  | none =>
    simp [hv] at h ⊢
  | some vp =>
    simp [hv] at h ⊢
    by_cases hlt : i < spec.params.length
    · simp [hlt, List.getElem?_append_left hlt]
    · simp only [hlt, if_false]
      rw [List.getElem?_append_right (by omega)]
      simp [List.getElem?_replicate]; omega

theorem pass1_var_aux (ps : List Param) (vp : Param) (pos var : List Value)
    (h : ps.length = pos.length) :
    (match checkLoop ps pos 0 0 with
     | .ok p =>
       match checkLoop (List.replicate var.length vp) var 0 ps.length with
       | .ok v => Pass1.ok (p ++ v)
       | e => e
     | e => e) =
    match firstFail (ps ++ List.replicate var.length vp) (pos ++ var) with
    | none => .ok (List.zipWith Param.typeArg (ps ++ List.replicate var.length vp) (pos ++ var))
    | some (k, f) => Pass1.ofFail k f := by
  rw [checkLoop_eq, checkLoop_eq, firstFail_append _ _ h]
  cases h1 : firstFail ps pos with
  | some kf =>
    obtain ⟨k, f⟩ := kf
    cases f <;> simp [Pass1.ofFail]
  | none =>
    cases h2 : firstFail (List.replicate var.length vp) var with
    | some kf =>
      obtain ⟨k, f⟩ := kf
      cases f <;> simp [Pass1.ofFail, Nat.add_comm]
    | none => simp [List.zipWith_append h]

theorem pass1_eq (spec : Spec) (args : List Value) :
    pass1 spec args =
      if spec.countOK args.length then
        match firstFail (spec.expand args.length) args with
        | none => .ok (List.zipWith Param.typeArg (spec.expand args.length) args)
        | some (k, f) => Pass1.ofFail k f
      else .countErr := by
  unfold pass1 Spec.countOK Spec.expand
  cases hv : spec.varParam with
  | none =>
    by_cases hl : args.length = spec.params.length
    · simp only [hl, bne_self_eq_false, Bool.false_eq_true, if_false, checkLoop_eq, beq_self_eq_true, if_true,
        List.append_nil, Nat.zero_add, Nat.add_zero] <;> rfl
    · simp [hl]
  | some vp =>
    by_cases hl : args.length < spec.params.length
    · have : ¬ spec.params.length ≤ args.length := by omega
      simp [hl, this]
    · have hle : spec.params.length ≤ args.length := by omega
      simp only [hl, if_false, hle, decide_true, if_true]
      obtain ⟨pos, var, rfl, hlen⟩ : ∃ pos var, args = pos ++ var ∧ spec.params.length = pos.length :=
        ⟨args.take spec.params.length, args.drop spec.params.length, (List.take_append_drop _ _).symm,
          by simp [List.length_take]; omega⟩
      have h3 : (pos ++ var).length - spec.params.length = var.length := by simp; omega
      rw [List.take_left' hlen.symm, List.drop_left' hlen.symm, h3]
      exact pass1_var_aux spec.params vp pos var hlen

end Fn


/-! ### the argument loops of `Call` -/
namespace Fn

theorem pass2_append : ∀ {ps : List Param} {vs : List Value} (qs : List Param) (ws : List Value),
    ps.length = vs.length →
    pass2 (ps ++ qs) (vs ++ ws) =
      { args := (pass2 ps vs).args ++ (pass2 qs ws).args
        marks := (pass2 ps vs).marks ++ (pass2 qs ws).marks
        unknown := (pass2 ps vs).unknown || (pass2 qs ws).unknown }
  | [], [], qs, ws, _ => by simp [pass2]
  | [], _ :: _, _, _, h => by simp at h
  | _ :: _, [], _, _, h => by simp at h
  | p :: ps, v :: vs, qs, ws, h => by
    simp only [List.cons_append, pass2, pass2_append qs ws (by simpa using h : ps.length = vs.length)]
    simp [Bool.or_assoc]

theorem pass2_nil_right (ps : List Param) : pass2 ps [] = ⟨[], [], false⟩ := by
  cases ps <;> simp [pass2]

/-- the part of `callBody` after the argument loops -/
def callTail (impl : ImplFn) (expectedType : Ty) (dynTypeArgs : Bool) (r : Pass2) : Out Value × List Event :=
  if dynTypeArgs || r.unknown then
    (.ok (withMarkSets (Value.unknown expectedType) r.marks), [])
  else
    match impl r.args expectedType with
    | .panic w => (.err (.panicError w), [.impl r.args expectedType])
    | .err c => (.err (.callback c), [.impl r.args expectedType])
    | .unmodelled => (.unmodelled, [.impl r.args expectedType])
    | .ok retVal =>
      let retVal := if r.marks.length > 0 then withMarkSets retVal r.marks else retVal
      if Ty.conformErrs expectedType retVal.ty != 0 then
        (.err (.panicError "result does not conform"), [.impl r.args expectedType])
      else
        (.ok retVal, [.impl r.args expectedType])

theorem callBody_eq (spec : Spec) (impl : ImplFn) (args : List Value) (t : Ty) (d : Bool)
    (h : spec.countOK args.length = true) :
    callBody spec impl args t d = callTail impl t d (pass2 (spec.expand args.length) args) := by
  unfold callBody Spec.countOK Spec.expand at *
  cases hv : spec.varParam with
  | none =>
    simp only [hv, beq_iff_eq] at h
    have h1 : args.take spec.params.length = args := by rw [← h]; exact List.take_length
    have h2 : args.drop spec.params.length = [] := by rw [← h]; exact List.drop_length
    simp only [h1, h2, List.append_nil, Bool.or_false]
    cases hp : pass2 spec.params args
    simp [callTail] <;> rfl
  | some vp =>
    simp only [hv, decide_eq_true_eq] at h
    obtain ⟨pos, var, rfl, hlen⟩ : ∃ pos var, args = pos ++ var ∧ spec.params.length = pos.length :=
      ⟨args.take spec.params.length, args.drop spec.params.length, (List.take_append_drop _ _).symm,
        by simp [List.length_take]; omega⟩
    have h3 : (pos ++ var).length - spec.params.length = var.length := by simp; omega
    simp only [List.take_left' hlen.symm, List.drop_left' hlen.symm, h3, pass2_append _ _ hlen]
    simp [callTail, or_assoc] <;> rfl

end Fn


/-! ### marks again; per-argument facts -/

namespace Payload
mutual
theorem stripMarks_idem : ∀ p : Payload, stripMarks (stripMarks p) = stripMarks p
  | .marked _ r => by simpa [stripMarks] using stripMarks_idem r
  | .seq vs => by simp [stripMarks, stripMarksL_idem vs]
  | .smap _ vs => by simp [stripMarks, stripMarksL_idem vs]
  | .sset _ vs => by simp [stripMarks, stripMarksL_idem vs]
  | .null | .unk _ | .b _ | .n _ | .s _ | .caps | .bad _ => by simp [stripMarks]
theorem stripMarksL_idem : ∀ vs : List Payload, stripMarksL (stripMarksL vs) = stripMarksL vs
  | [] => rfl
  | v :: vs => by simp [stripMarksL, stripMarks_idem v, stripMarksL_idem vs]
end

theorem unmark1_withMarks (p : Payload) (ms : List String) : (p.withMarks ms).unmark1 = p.unmark1 := by
  unfold withMarks
  simp only
  split <;> simp [unmark1]

theorem mem_marks1_withMarks {p : Payload} {ms : List String} {m : String} :
    m ∈ (p.withMarks ms).marks1 ↔ m ∈ p.marks1 ∨ m ∈ ms := by
  unfold withMarks
  simp only
  split
  · rename_i h
    have h' : unionMarks p.marks1 ms = [] := by simpa using h
    rw [unionMarks_eq_nil] at h'
    simp [h'.1, h'.2]
  · simp [marks1, mem_unionMarks]
end Payload

namespace Value
theorem isKnown_withMarks (v : Value) (ms : List String) : (v.withMarks ms).isKnown = v.isKnown := by
  simp [isKnown, withMarks, Payload.isKnown, Payload.unmark1_withMarks]
theorem isNull_withMarks (v : Value) (ms : List String) : (v.withMarks ms).isNull = v.isNull := by
  simp [isNull, withMarks, Payload.isNull, Payload.unmark1_withMarks]
theorem mem_marks_withMarks {v : Value} {ms : List String} {m : String} :
    m ∈ (v.withMarks ms).marks ↔ m ∈ v.marks ∨ m ∈ ms := Payload.mem_marks1_withMarks
end Value

namespace Fn

theorem mem_unionAll {m : String} : ∀ {mss : List (List String)}, m ∈ unionAll mss ↔ ∃ ms ∈ mss, m ∈ ms
  | [] => by simp [unionAll]
  | ms :: mss => by
    have : unionAll (ms :: mss) = unionMarks ms (unionAll mss) := rfl
    rw [this, mem_unionMarks, mem_unionAll (mss := mss)]
    simp

theorem withMarkSets_ty (v : Value) (mss : List (List String)) : (withMarkSets v mss).ty = v.ty := by
  unfold withMarkSets; split <;> rfl

theorem isKnown_withMarkSets (v : Value) (mss : List (List String)) :
    (withMarkSets v mss).isKnown = v.isKnown := by
  unfold withMarkSets; split <;> simp [Value.isKnown_withMarks]

theorem mem_marks_withMarkSets {v : Value} {mss : List (List String)} {m : String} :
    m ∈ (withMarkSets v mss).marks ↔ m ∈ v.marks ∨ ∃ ms ∈ mss, m ∈ ms := by
  unfold withMarkSets
  split
  · rename_i h
    have : mss = [] := by simpa using h
    simp [this]
  · rw [Value.mem_marks_withMarks, mem_unionAll]

/-! per-argument facts -/

theorem Param.check_none {p : Param} {v : Value} (h : p.check v = none) :
    (v.isNull = true → p.allowNull = true) ∧ (v.ty.isDyn = true → p.allowDynamic = true) ∧
    (v.ty.isDyn = false → Ty.conformErrs p.ty v.ty = 0) := by
  unfold Param.check at h
  split at h
  · simp at h
  · rename_i hn
    split at h
    · rename_i hd
      split at h
      · simp at h
      · rename_i ha
        refine ⟨?_, ?_, ?_⟩
        · intro hv; simpa [hv] using hn
        · intro _; simpa using ha
        · intro hf; simp [hf] at hd
    · rename_i hd
      split at h
      · simp at h
      · rename_i hc
        refine ⟨?_, ?_, ?_⟩
        · intro hv; simpa [hv] using hn
        · intro ht; exact absurd ht hd
        · intro _; simpa using hc

theorem Param.check_some_null {p : Param} {v : Value} (h : p.check v = some .null) :
    v.isNull = true ∧ p.allowNull = false := by
  unfold Param.check at h
  split at h
  · rename_i hn; simpa using hn
  · split at h
    · split at h <;> simp at h
    · split at h <;> simp at h

theorem Param.check_some_nonconforming {p : Param} {v : Value} (h : p.check v = some .nonconforming) :
    v.ty.isDyn = false ∧ Ty.conformErrs p.ty v.ty ≠ 0 := by
  unfold Param.check at h
  split at h
  · simp at h
  · split at h
    · split at h <;> simp at h
    · rename_i hd
      split at h
      · rename_i hc; exact ⟨by simpa using hd, by simpa using hc⟩
      · simp at h

theorem Param.check_some_dynamic {p : Param} {v : Value} (h : p.check v = some .dynamic) :
    v.ty.isDyn = true ∧ p.allowDynamic = false := by
  unfold Param.check at h
  split at h
  · simp at h
  · split at h
    · rename_i hd
      split at h
      · rename_i ha; exact ⟨hd, by simpa using ha⟩
      · simp at h
    · split at h <;> simp at h

theorem Param.callArg_ty (p : Param) (v : Value) : (p.callArg v).1.ty = v.ty := by
  unfold Param.callArg
  split
  · split <;> rfl
  · rfl

theorem Param.typeArg_ty (p : Param) (v : Value) : (p.typeArg v).ty = v.ty := by
  unfold Param.typeArg; split <;> rfl

theorem Param.callArg_unmarkDeep (p : Param) (v : Value) : (p.callArg v).1.unmarkDeep = v.unmarkDeep := by
  unfold Param.callArg
  split
  · split
    · simp [Value.unmarkDeep, Payload.stripMarks_idem]
    · rfl
  · rfl

theorem Param.typeArg_unmarkDeep (p : Param) (v : Value) : (p.typeArg v).unmarkDeep = v.unmarkDeep := by
  unfold Param.typeArg
  split
  · simp [Value.unmarkDeep, Payload.stripMarks_idem]
  · rfl

/-- without `AllowMarked` the argument handed to `Impl` carries no mark at any depth -/
theorem Param.callArg_marksDeep {p : Param} (v : Value) (h : p.allowMarked = false) :
    (p.callArg v).1.marksDeep = [] := by
  unfold Param.callArg
  simp only [h, Bool.not_false, if_true]
  split
  · exact Payload.marksDeep_stripMarks _
  · rename_i hl
    have : v.marksDeep.length = 0 := by omega
    exact List.eq_nil_of_length_eq_zero this

theorem Param.callArg_containsMarked {p : Param} (v : Value) (h : p.allowMarked = false)
    (hw : v.v.markerWF = true) : (p.callArg v).1.containsMarked = false := by
  unfold Param.callArg
  simp only [h, Bool.not_false, if_true]
  split
  · exact Payload.containsMarked_stripMarks _
  · rename_i hl
    have : v.marksDeep = [] := List.eq_nil_of_length_eq_zero (by omega)
    exact Payload.not_containsMarked_of_marksDeep_nil _ hw this

theorem Param.callArg_isNull_isKnown (p : Param) (v : Value) (hw : v.v.markerWF = true) :
    (p.callArg v).1.isNull = v.isNull ∧ (p.callArg v).1.isKnown = v.isKnown := by
  unfold Param.callArg
  split
  · split
    · exact Payload.isNull_isKnown_stripMarks _ hw
    · exact ⟨rfl, rfl⟩
  · exact ⟨rfl, rfl⟩

/-- on constructor-built values both passes unmark exactly the same arguments -/
theorem Param.typeArg_eq_callArg (p : Param) (v : Value) (hw : v.v.markerWF = true) :
    p.typeArg v = (p.callArg v).1 := by
  unfold Param.typeArg Param.callArg
  cases hm : p.allowMarked
  · simp only [Bool.not_false, Bool.and_true, if_true]
    by_cases hc : v.containsMarked = true
    · have : v.marksDeep ≠ [] := fun h0 => by
        have := Payload.not_containsMarked_of_marksDeep_nil _ hw h0
        simp [Value.containsMarked] at hc; simp [hc] at this
      have hl : v.marksDeep.length > 0 := List.length_pos_iff.mpr this
      simp [hc, hl]
    · have h0 : v.marksDeep = [] := Payload.marksDeep_of_not_containsMarked _ (by simpa [Value.containsMarked] using hc)
      simp [hc, h0]
  · simp

end Fn


/-! ### index-level facts about the loops; `call` as a decision table -/
namespace Fn

theorem zipWith_get {f : Param → Value → Value} : ∀ {ps : List Param} {vs : List Value} {i : Nat} {a : Value},
    (List.zipWith f ps vs)[i]? = some a → ∃ p v, ps[i]? = some p ∧ vs[i]? = some v ∧ a = f p v
  | [], _, _, _, h => by simp at h
  | _ :: _, [], _, _, h => by simp at h
  | p :: ps, v :: vs, 0, a, h => ⟨p, v, rfl, rfl, by simpa using h.symm⟩
  | p :: ps, v :: vs, i + 1, a, h => by
    obtain ⟨p', v', hp, hv, ha⟩ := zipWith_get (f := f) (ps := ps) (vs := vs) (i := i) (a := a) (by simpa using h)
    exact ⟨p', v', by simpa using hp, by simpa using hv, ha⟩

theorem map_unmarkDeep_zipWith {f : Param → Value → Value} (hf : ∀ p v, (f p v).unmarkDeep = v.unmarkDeep) :
    ∀ (ps : List Param) (vs : List Value), ps.length = vs.length →
      (List.zipWith f ps vs).map Value.unmarkDeep = vs.map Value.unmarkDeep
  | [], [], _ => rfl
  | [], _ :: _, h => by simp at h
  | _ :: _, [], h => by simp at h
  | p :: ps, v :: vs, h => by
    simp [hf, map_unmarkDeep_zipWith hf ps vs (by simpa using h)]

theorem pass2_args_eq : ∀ (ps : List Param) (vs : List Value),
    (pass2 ps vs).args = List.zipWith (fun p v => (p.callArg v).1) ps vs
  | [], _ => by simp [pass2]
  | _ :: _, [] => by simp [pass2]
  | p :: ps, v :: vs => by simp [pass2, pass2_args_eq ps vs]

theorem typeArgs_eq_callArgs : ∀ (ps : List Param) (vs : List Value),
    (∀ v ∈ vs, v.v.markerWF = true) → List.zipWith Param.typeArg ps vs = (pass2 ps vs).args
  | [], _, _ => by simp [pass2]
  | _ :: _, [], _ => by simp [pass2]
  | p :: ps, v :: vs, h => by
    simp only [List.zipWith_cons_cons, pass2]
    rw [Param.typeArg_eq_callArg p v (h v (by simp)), typeArgs_eq_callArgs ps vs (fun x hx => h x (by simp [hx]))]

theorem pass2_unknown_false : ∀ {ps : List Param} {vs : List Value}, (pass2 ps vs).unknown = false →
    ∀ (i : Nat) (p : Param) (v : Value), ps[i]? = some p → vs[i]? = some v → p.blocksUnknown v = false
  | [], _, _, i, p, v, hp, _ => by simp at hp
  | _ :: _, [], _, i, p, v, _, hv => by simp at hv
  | p0 :: ps, v0 :: vs, h, i, p, v, hp, hv => by
    simp only [pass2, Bool.or_eq_false_iff] at h
    cases i with
    | zero => simp at hp hv; subst hp hv; exact h.1
    | succ i => exact pass2_unknown_false h.2 i p v (by simpa using hp) (by simpa using hv)

theorem pass2_unknown_true : ∀ {ps : List Param} {vs : List Value}, (pass2 ps vs).unknown = true →
    ∃ (i : Nat) (p : Param) (v : Value), ps[i]? = some p ∧ vs[i]? = some v ∧ p.blocksUnknown v = true
  | [], _, h => by simp [pass2] at h
  | _ :: _, [], h => by simp [pass2] at h
  | p0 :: ps, v0 :: vs, h => by
    simp only [pass2, Bool.or_eq_true] at h
    rcases h with h | h
    · exact ⟨0, p0, v0, rfl, rfl, h⟩
    · obtain ⟨i, p, v, hp, hv, hb⟩ := pass2_unknown_true h
      exact ⟨i + 1, p, v, by simpa using hp, by simpa using hv, hb⟩

/-- every mark of an argument whose parameter lacks `AllowMarked` is in `resultMarks` -/
theorem mem_pass2_marks {m : String} : ∀ {ps : List Param} {vs : List Value} (i : Nat) (p : Param) (v : Value),
    ps[i]? = some p → vs[i]? = some v → p.allowMarked = false → m ∈ v.marksDeep →
    ∃ ms ∈ (pass2 ps vs).marks, m ∈ ms
  | [], _, i, p, v, hp, _, _, _ => by simp at hp
  | _ :: _, [], i, p, v, _, hv, _, _ => by simp at hv
  | p0 :: ps, v0 :: vs, i, p, v, hp, hv, ha, hm => by
    cases i with
    | zero =>
      simp at hp hv; subst hp hv
      have hl : v0.marksDeep.length > 0 := List.length_pos_iff.mpr (List.ne_nil_of_mem hm)
      refine ⟨v0.marksDeep, ?_, hm⟩
      simp [pass2, Param.callArg, ha, hl]
    | succ i =>
      obtain ⟨ms, hms, hmm⟩ := mem_pass2_marks (ps := ps) (vs := vs) i p v (by simpa using hp) (by simpa using hv) ha hm
      exact ⟨ms, by simp [pass2, hms], hmm⟩

/-- no invention: every mark set in `resultMarks` is the deep mark set of such an argument -/
theorem pass2_marks_origin {ms : List String} : ∀ {ps : List Param} {vs : List Value},
    ms ∈ (pass2 ps vs).marks →
    ∃ (i : Nat) (p : Param) (v : Value), ps[i]? = some p ∧ vs[i]? = some v ∧ p.allowMarked = false ∧ ms = v.marksDeep
  | [], _, h => by simp [pass2] at h
  | _ :: _, [], h => by simp [pass2] at h
  | p0 :: ps, v0 :: vs, h => by
    simp only [pass2, List.mem_append] at h
    rcases h with h | h
    · refine ⟨0, p0, v0, rfl, rfl, ?_⟩
      unfold Param.callArg at h
      split at h
      · rename_i ha
        split at h
        · exact ⟨by simpa using ha, by simpa using h⟩
        · simp at h
      · simp at h
    · obtain ⟨i, p, v, hp, hv, ha, he⟩ := pass2_marks_origin h
      exact ⟨i + 1, p, v, by simpa using hp, by simpa using hv, ha, he⟩

/-! ### `call` as a decision table -/

/-- the deferred refinement, if one is declared -/
def finish (spec : Spec) (o : Out Value × List Event) : Out Value × List Event :=
  match spec.refine with
  | some r => deferredRefine r o
  | none => o

/-- `Call` as a decision table over the stretched parameter list. -/
def callTable (spec : Spec) (tf : TypeFn) (impl : ImplFn) (args : List Value) : Out Value × List Event :=
  if spec.countOK args.length then
    let E := spec.expand args.length
    let R := pass2 E args
    match firstFail E args with
    | some (_, .dynamic) => (.ok (withMarkSets (Value.unknown .dyn) R.marks), [])
    | some (k, _) => (.err (.arg k), [])
    | none =>
      let T := List.zipWith Param.typeArg E args
      match tf T with
      | .err c => (.err (.callback c), [.type T])
      | .panic w => (.err (.panicError w), [.type T])
      | .unmodelled => (.unmodelled, [.type T])
      | .ok rt => finish spec ((callTail impl rt false R).1, .type T :: (callTail impl rt false R).2)
  else (.err .argCount, [])

theorem call_eq (spec : Spec) (tf : TypeFn) (impl : ImplFn) (args : List Value) :
    call spec tf impl args = callTable spec tf impl args := by
  unfold call callTable returnTypeForValues
  rw [pass1_eq]
  by_cases hc : spec.countOK args.length = true
  · simp only [hc, if_true]
    cases hf : firstFail (spec.expand args.length) args with
    | some kf =>
      obtain ⟨k, f⟩ := kf
      cases f <;> simp only [Pass1.ofFail]
      -- dynamic
      rw [callBody_eq _ _ _ _ _ hc]
      cases hr : spec.refine <;> simp [callTail]
    | none =>
      simp only
      cases ht : tf (List.zipWith Param.typeArg (spec.expand args.length) args) with
      | ok rt =>
        simp only [callBody_eq _ _ _ _ _ hc, finish]
        cases hr : spec.refine <;> simp
      | err c => rfl
      | panic w => rfl
      | unmodelled => rfl
  · simp [hc]

end Fn


namespace Fn

/-! ### specification vocabulary over argument positions -/

/-- the per-argument checks stop first at argument `k`, for reason `f` -/
def FirstFailAt (spec : Spec) (args : List Value) (k : Nat) (f : ArgFail) : Prop :=
  (∃ p v, spec.paramFor k = some p ∧ args[k]? = some v ∧ p.check v = some f) ∧
  ∀ (j : Nat) (p : Param) (v : Value), j < k → spec.paramFor j = some p → args[j]? = some v → p.check v = none

/-- every argument passes the per-argument checks of its parameter -/
def AllPass (spec : Spec) (args : List Value) : Prop :=
  ∀ (j : Nat) (p : Param) (v : Value), spec.paramFor j = some p → args[j]? = some v → p.check v = none

/-- mark `m` occurs (at some depth) in an argument whose parameter lacks `AllowMarked` -/
def Unhandled (spec : Spec) (args : List Value) (m : String) : Prop :=
  ∃ (i : Nat) (p : Param) (v : Value), spec.paramFor i = some p ∧ args[i]? = some v ∧
    p.allowMarked = false ∧ m ∈ v.marksDeep

/-- some argument is unknown although its parameter lacks `AllowUnknown` -/
def SomeUnknownBlocked (spec : Spec) (args : List Value) : Prop :=
  ∃ (i : Nat) (p : Param) (v : Value), spec.paramFor i = some p ∧ args[i]? = some v ∧ p.blocksUnknown v = true

/-- `w` is `v` with exactly the unhandled marks added to its top-level mark set -/
def WithUnhandled (spec : Spec) (args : List Value) (v w : Value) : Prop :=
  w.ty = v.ty ∧ w.unmark = v.unmark ∧ ∀ m, m ∈ w.marks ↔ (m ∈ v.marks ∨ Unhandled spec args m)

/-- the argument list the `Type` callback is handed -/
def typeArgs (spec : Spec) (args : List Value) : List Value :=
  List.zipWith Param.typeArg (spec.expand args.length) args

/-- the argument list the `Impl` callback is handed -/
def implArgs (spec : Spec) (args : List Value) : List Value :=
  List.zipWith (fun p v => (p.callArg v).1) (spec.expand args.length) args

theorem getElem?_lt {α} {l : List α} {i : Nat} {a : α} (h : l[i]? = some a) : i < l.length := by
  have := List.getElem?_eq_some_iff.mp h
  exact this.1

theorem firstFail_to_at {spec : Spec} {args : List Value} {k : Nat} {f : ArgFail}
    (hc : spec.countOK args.length = true)
    (h : firstFail (spec.expand args.length) args = some (k, f)) : FirstFailAt spec args k f := by
  obtain ⟨⟨p, v, hp, hv, hpv⟩, hlt⟩ := firstFail_some h
  have hk := getElem?_lt hv
  refine ⟨⟨p, v, by rw [← Spec.expand_get hc hk]; exact hp, hv, hpv⟩, ?_⟩
  intro j p' v' hj hp' hv'
  have hjl := getElem?_lt hv'
  exact hlt j p' v' hj (by rw [Spec.expand_get hc hjl]; exact hp') hv'

theorem firstFail_to_allPass {spec : Spec} {args : List Value}
    (hc : spec.countOK args.length = true)
    (h : firstFail (spec.expand args.length) args = none) : AllPass spec args := by
  intro j p v hp hv
  have hjl := getElem?_lt hv
  exact firstFail_none h j p v (by rw [Spec.expand_get hc hjl]; exact hp) hv

theorem FirstFailAt.unique {spec : Spec} {args : List Value} {k k' : Nat} {f f' : ArgFail}
    (h : FirstFailAt spec args k f) (h' : FirstFailAt spec args k' f') : k = k' ∧ f = f' := by
  obtain ⟨⟨p, v, hp, hv, hpv⟩, hlt⟩ := h
  obtain ⟨⟨p', v', hp', hv', hpv'⟩, hlt'⟩ := h'
  have hk : k = k' := by
    rcases Nat.lt_trichotomy k k' with hl | he | hg
    · have := hlt' k p v hl hp hv; rw [this] at hpv; simp at hpv
    · exact he
    · have := hlt k' p' v' hg hp' hv'; rw [this] at hpv'; simp at hpv'
  subst hk
  rw [hp] at hp'; rw [hv] at hv'
  simp only [Option.some.injEq] at hp' hv'
  subst hp' hv'
  rw [hpv] at hpv'
  exact ⟨rfl, by simpa using hpv'⟩

theorem firstFail_of_at {spec : Spec} {args : List Value} {k : Nat} {f : ArgFail}
    (hc : spec.countOK args.length = true) (h : FirstFailAt spec args k f) :
    firstFail (spec.expand args.length) args = some (k, f) := by
  cases hf : firstFail (spec.expand args.length) args with
  | none =>
    obtain ⟨⟨p, v, hp, hv, hpv⟩, _⟩ := h
    have := firstFail_to_allPass hc hf k p v hp hv
    rw [this] at hpv; simp at hpv
  | some kf =>
    obtain ⟨k', f'⟩ := kf
    obtain ⟨rfl, rfl⟩ := FirstFailAt.unique h (firstFail_to_at hc hf)
    rfl

theorem firstFail_of_allPass {spec : Spec} {args : List Value}
    (hc : spec.countOK args.length = true) (h : AllPass spec args) :
    firstFail (spec.expand args.length) args = none := by
  cases hf : firstFail (spec.expand args.length) args with
  | none => rfl
  | some kf =>
    obtain ⟨k, f⟩ := kf
    obtain ⟨⟨p, v, hp, hv, hpv⟩, _⟩ := firstFail_to_at hc hf
    have := h k p v hp hv
    rw [this] at hpv; simp at hpv

theorem unhandled_iff {spec : Spec} {args : List Value} (hc : spec.countOK args.length = true) (m : String) :
    (∃ ms ∈ (pass2 (spec.expand args.length) args).marks, m ∈ ms) ↔ Unhandled spec args m := by
  constructor
  · rintro ⟨ms, hms, hm⟩
    obtain ⟨i, p, v, hp, hv, ha, rfl⟩ := pass2_marks_origin hms
    exact ⟨i, p, v, by rw [← Spec.expand_get hc (getElem?_lt hv)]; exact hp, hv, ha, hm⟩
  · rintro ⟨i, p, v, hp, hv, ha, hm⟩
    exact mem_pass2_marks i p v (by rw [Spec.expand_get hc (getElem?_lt hv)]; exact hp) hv ha hm

theorem someUnknownBlocked_iff {spec : Spec} {args : List Value} (hc : spec.countOK args.length = true) :
    (pass2 (spec.expand args.length) args).unknown = true ↔ SomeUnknownBlocked spec args := by
  constructor
  · intro h
    obtain ⟨i, p, v, hp, hv, hb⟩ := pass2_unknown_true h
    exact ⟨i, p, v, by rw [← Spec.expand_get hc (getElem?_lt hv)]; exact hp, hv, hb⟩
  · rintro ⟨i, p, v, hp, hv, hb⟩
    cases hu : (pass2 (spec.expand args.length) args).unknown with
    | true => rfl
    | false =>
      have := pass2_unknown_false hu i p v (by rw [Spec.expand_get hc (getElem?_lt hv)]; exact hp) hv
      rw [this] at hb; simp at hb

theorem unmark_withMarkSets (v : Value) (mss : List (List String)) : (withMarkSets v mss).unmark = v.unmark := by
  unfold withMarkSets
  split
  · rfl
  · simp [Value.unmark, Value.withMarks, Payload.unmark1_withMarks]

theorem withUnhandled_withMarkSets {spec : Spec} {args : List Value} (hc : spec.countOK args.length = true)
    (v : Value) : WithUnhandled spec args v (withMarkSets v (pass2 (spec.expand args.length) args).marks) :=
  ⟨withMarkSets_ty _ _, unmark_withMarkSets _ _, fun m => by rw [mem_marks_withMarkSets, unhandled_iff hc]⟩

theorem withUnhandled_cond {spec : Spec} {args : List Value} (hc : spec.countOK args.length = true)
    (v : Value) :
    WithUnhandled spec args v
      (if (pass2 (spec.expand args.length) args).marks.length > 0 then
        withMarkSets v (pass2 (spec.expand args.length) args).marks else v) := by
  split
  · exact withUnhandled_withMarkSets hc v
  · rename_i h
    have h0 : (pass2 (spec.expand args.length) args).marks = [] := List.eq_nil_of_length_eq_zero (by omega)
    refine ⟨rfl, rfl, fun m => ?_⟩
    rw [← unhandled_iff hc, h0]
    simp

end Fn

end CtyModel
