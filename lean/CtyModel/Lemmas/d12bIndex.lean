/-
C12 / d12b: `index` end to end (collection.go IndexFunc): `Impl` first asks `HasIndexFunc.Call` — a nested
protocol call — and only on a definite True goes on to `Value.Index`.  For a collection known at the top (the
parameter refuses unknowns) `HasIndex` answers from the collection's SHAPE, which a weakening keeps: the nested
call gives the very same answer, and `Value.Index` is C01 `sound_index`.
-/
import CtyModel.Lemmas.d12bHasIndex
namespace CtyModel
namespace D12b
open Fn Stdlib C12L Cov

/-- `HasIndex` looks at the type, the top-level knownness, the number of elements / the keys, and the key -/
theorem hasIndexU_shape {w o k : Value} (hmw : w.containsMarked = false) (hmo : o.containsMarked = false)
    (hty : w.ty = o.ty) (hc : CoversX w o = true) (hk : w.isKnown = true) :
    Value.hasIndexU w k = Value.hasIndexU o k := by
  obtain ⟨hko, _⟩ := known_shape hmw hmo hc hk
  obtain ⟨wt, wp⟩ := w
  obtain ⟨ot, op⟩ := o
  simp only at hty
  subst hty
  simp only [CoversX, CoversG, Bool.and_eq_true] at hc
  have h1 := stripMarks_clean' wp hmw
  have h2 := stripMarks_clean' op hmo
  simp only [h1, h2] at hc
  have hc2 := hc.2
  unfold Value.hasIndexU
  simp only [hk, hko]
  cases wt <;> simp only [Ty.isDyn, Bool.false_eq_true, if_false, if_true]
  case list e =>
    cases wp <;> cases op <;>
      simp_all [coversP, Value.isKnown, Payload.isKnown, Payload.unmark1, Value.containsMarked, Payload.containsMarked]
    rename_i ws vs
    rw [coversL_length hc2]
  case map e =>
    cases wp <;> cases op <;>
      simp_all [coversP, Value.isKnown, Payload.isKnown, Payload.unmark1, Value.containsMarked, Payload.containsMarked]
    obtain ⟨kt, kp⟩ := k
    cases kp <;> rfl

/-- the first component of `Call` (before the declared refinement) on two mark-free argument lists that the
protocol cannot tell apart -/
theorem callUnrefined_fst_congr (spec : Spec) (tf : TypeFn) (impl : ImplFn) (as bs : List Value)
    (hlen : as.length = bs.length)
    (hma : ∀ a ∈ as, a.containsMarked = false) (hmb : ∀ a ∈ bs, a.containsMarked = false)
    (hff : firstFail (spec.expand as.length) as = firstFail (spec.expand bs.length) bs)
    (htf : tf as = tf bs)
    (hp2 : (pass2 (spec.expand as.length) as).unknown = (pass2 (spec.expand bs.length) bs).unknown)
    (himpl : ∀ rt, impl as rt = impl bs rt) :
    (callUnrefined spec tf impl as).1 = (callUnrefined spec tf impl bs).1 := by
  rw [callUnrefined_eq, callUnrefined_eq]
  by_cases hc : spec.countOK as.length = true
  · have hc' : spec.countOK bs.length = true := by rw [← hlen]; exact hc
    obtain ⟨hta, hia, hua⟩ := unmarked_args hc hma
    obtain ⟨htb, hib, hub⟩ := unmarked_args hc' hmb
    simp only [hc, hc', if_true, hta, htb, hia, hib, hff, htf, hp2, himpl]
    cases hf : firstFail (spec.expand bs.length) bs with
    | some kf => obtain ⟨k, f⟩ := kf; cases f <;> simp [hua, hub]
    | none =>
      simp only
      cases ht : tf bs with
      | ok rt =>
        simp only
        cases hu : (pass2 (spec.expand bs.length) bs).unknown with
        | true => simp [hua, hub]
        | false =>
          simp only [Bool.false_eq_true, if_false]
          cases hi : impl bs rt with
          | ok v =>
            simp only
            split
            · rfl
            · simp [withUnhandled, hua, hub]
          | err c => rfl
          | panic c => rfl
          | unmodelled => rfl
      | err c => rfl
      | panic c => rfl
      | unmodelled => rfl
  · have hc' : ¬ spec.countOK bs.length = true := by rw [← hlen]; exact hc
    simp [hc, hc']

theorem finish_fst_congr (spec : Spec) (o o' : Out Value × List Event) (h : o.1 = o'.1) :
    (finish spec o).1 = (finish spec o').1 := by
  obtain ⟨a, tr⟩ := o
  obtain ⟨a', tr'⟩ := o'
  simp only at h
  subst h
  cases a with
  | ok u => rw [finish_ok, finish_ok]; cases spec.refine <;> simp only <;> split <;> rfl
  | err e => unfold finish; cases spec.refine <;> simp [deferredRefine]
  | panic e => unfold finish; cases spec.refine <;> simp [deferredRefine]
  | unmodelled => unfold finish; cases spec.refine <;> simp [deferredRefine]

/-- the nested `HasIndexFunc.Call` cannot tell a collection known at the top from the one it weakens -/
theorem hasIndexCall_shape {w o k : Value} (hmw : w.containsMarked = false) (hmo : o.containsMarked = false)
    (hmk : k.containsMarked = false) (hty : w.ty = o.ty) (hc : CoversX w o = true) (hk : w.isKnown = true) :
    (Fn.call hasIndexSpec hasIndexType hasIndexImpl [w, k]).1 = (Fn.call hasIndexSpec hasIndexType hasIndexImpl [o, k]).1 := by
  obtain ⟨hko, hnull⟩ := known_shape hmw hmo hc hk
  rw [call_eq_finish, call_eq_finish]
  apply finish_fst_congr
  apply callUnrefined_fst_congr _ _ _ [w, k] [o, k] rfl
  · intro a ha; simp at ha; rcases ha with rfl | rfl <;> assumption
  · intro a ha; simp at ha; rcases ha with rfl | rfl <;> assumption
  · simp [Spec.expand, hasIndexSpec, firstFail, Param.check, hty, hnull]
  · simp [hasIndexType, hty]
  · simp [Spec.expand, hasIndexSpec, pass2, Param.blocksUnknown, hk, hko]
  · intro rt
    simp only [hasIndexImpl]
    rw [hasIndex_clean hmw hmk, hasIndex_clean hmo hmk, hasIndexU_shape hmw hmo hty hc hk]

theorem indexType_eq {o w k : Value} (hty : w.ty = o.ty) : indexType [w, k] = indexType [o, k] := by
  simp [indexType, hty]

/-- **`index`** at the level of the callback -/
theorem index_implSound (o w k : Value) (hty : w.ty = o.ty)
    (hk : o.whollyKnown = true) (hkk : k.whollyKnown = true) (hkd : k.ty.isDyn = false)
    (hfo : o.wfc = true) (hfw : w.wfc = true) (hfk : k.wfc = true)
    (hmo : o.containsMarked = false) (hmw : w.containsMarked = false) (hmk : k.containsMarked = false)
    (hkw : w.isKnown = true) (hc : CoversX w o = true) (hck : CoversX k k = true) :
    ImplSoundAt indexType indexImpl [o, k] [w, k] := by
  intro rt rt' r ho hw hio hconf hwf' hrwf hrefl
  rw [indexType_eq hty, ho] at hw
  cases hw
  simp only [indexImpl] at hio ⊢
  rw [hasIndexCall_shape hmw hmo hmk hty hc hkw]
  cases hh : (Fn.call hasIndexSpec hasIndexType hasIndexImpl [o, k]).1 with
  | ok has =>
    rw [hh] at hio
    simp only at hio ⊢
    cases hb : boolTrue has with
    | ok b =>
      rw [hb] at hio
      cases b with
      | true =>
        simp only at hio ⊢
        obtain ⟨r', h1, h2⟩ := C01.sound_index o k w k r hk hkk hfo hfk hfw hfk hc hck hio
        refine ⟨r', h1, ?_, h2⟩
        rw [index_clean hmo hmk] at hio
        rw [index_clean hmw hmk] at h1
        rw [indexU_ty_dep hty (whollyKnown_isKnown hkk) hkd hio h1]
        exact hconf
      | false => simp at hio
    | err c => rw [hb] at hio; simp [Res.cast] at hio
    | panic c => rw [hb] at hio; simp [Res.cast] at hio
    | unmodelled => rw [hb] at hio; simp [Res.cast] at hio
  | err c => rw [hh] at hio; simp at hio
  | panic c => rw [hh] at hio; simp at hio
  | unmodelled => rw [hh] at hio; simp at hio

theorem indexType_mono {o w ok wk : Value} (hty : w.ty = o.ty)
    (hk : wk = ok ∨ (wk.isKnown = false ∧ (wk.ty = ok.ty ∨ wk.ty.isDyn = true))) :
    TypeMonoAt indexType [o, ok] [w, wk] := by
  rcases hk with rfl | ⟨hu, htk⟩
  · exact typeMonoAt_of_eq (indexType_eq hty)
  · intro t ht
    simp only [indexType, hty] at ht ⊢
    have hcond : ∀ (f : Ty → Bool), ((!f ok.ty && !ok.ty.isDyn) = false) → f wk.ty = f ok.ty ∨ wk.ty.isDyn = true →
        ((!f wk.ty && !wk.ty.isDyn) = false) := by
      intro f h1 h2
      rcases h2 with h | h
      · rcases htk with h' | h'
        · rw [h, h']; exact h1
        · simp [h']
      · simp [h]
    have hn : wk.ty.isNumber = ok.ty.isNumber ∨ wk.ty.isDyn = true := htk.elim (fun h => Or.inl (by rw [h])) Or.inr
    have hs : wk.ty.isString = ok.ty.isString ∨ wk.ty.isDyn = true := htk.elim (fun h => Or.inl (by rw [h])) Or.inr
    split at ht
    · -- tuple
      split at ht
      · cases ht
      · rename_i hc
        have := hcond Ty.isNumber (by simpa using hc) hn
        simp only [this, Bool.false_eq_true, if_false, hu, Bool.not_false, if_true]
        exact ⟨.dyn, rfl, admits_dyn' t⟩
    · split at ht
      · cases ht
      · rename_i hc
        have := hcond Ty.isNumber (by simpa using hc) hn
        simp only [this, Bool.false_eq_true, if_false]
        exact ⟨t, ht, fun _ h => h⟩
    · split at ht
      · cases ht
      · rename_i hc
        have := hcond Ty.isString (by simpa using hc) hs
        simp only [this, Bool.false_eq_true, if_false]
        exact ⟨t, ht, fun _ h => h⟩
    · cases ht

/-- two arguments, the first parameter not saying `AllowDynamicType`: a first argument that passes kept its type -/
theorem first_arg_kept {spec : Spec} {p1 p2 : Param} {w1 w2 o1 : Value}
    (he : spec.expand 2 = [p1, p2]) (hd1 : p1.allowDynamic = false) (hp : Passes spec [w1, w2])
    (hty1 : w1.ty = o1.ty ∨ w1.ty.isDyn = true) : w1.ty = o1.ty := by
  unfold Passes at hp
  simp only [List.length_cons, List.length_nil, Nat.zero_add, Nat.reduceAdd] at hp
  rw [he] at hp
  have hc1 := firstFail_none hp 0 p1 w1 rfl rfl
  rcases hty1 with h' | h'
  · exact h'
  · exfalso
    unfold Param.check at hc1
    split at hc1
    · cases hc1
    · simp [h', hd1] at hc1

end D12b
end CtyModel
