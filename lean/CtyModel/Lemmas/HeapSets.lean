/-
C20 — mutable helper sets (ValueSet, PathSet): a set in order is changed only by
its own mutating methods, and `Copy` makes a set in order that shares no storage
with its receiver (the CURRENT `Set.Copy`, /repo 877dbc3).
-/
import CtyModel.Lemmas.HeapStep
namespace CtyModel
namespace Heap

theorem helperOK_iff {f : Nat} {m : Mem} {a : Addr} :
    helperOK f m (.set a) = true ↔
      ∃ kvs, m[a]? = some ⟨.helper, .gomap kvs⟩ ∧
        (kvs.all fun kv => bucketOK (frozen f m) m a kv.2) = true := by
  simp only [helperOK]
  cases hm : m[a]? with
  | none => simp
  | some o => rcases o with ⟨ow, bd⟩; cases ow <;> cases bd <;> simp

/-- the storage of the set whose bucket map is `a` -/
def SetStorage (m : Mem) (a x : Addr) : Prop := x = a ∨ ownerOf m x = some (.bucket a)

/-- a heap change that writes neither the set's storage nor a library-owned object
leaves the set in order and its fingerprint unchanged -/
theorem helper_stable {W : Addr → Prop} {m m' : Mem} (h : Ext W m m') {f : Nat} {a : Addr}
    (hW : ∀ x, W x → ¬ SetStorage m a x ∧ frozenObj m x = false)
    (hok : helperOK f m (.set a) = true) :
    helperOK f m' (.set a) = true ∧ fp (f + 1) m' (.set a) = fp (f + 1) m (.set a) := by
  obtain ⟨kvs, hm, hb⟩ := helperOK_iff.mp hok
  have hp : Preserves m m' := h.preserves fun x hx => (hW x hx).2
  have halt := (List.getElem?_eq_some_iff.mp hm).1
  have hm' : m'[a]? = some ⟨.helper, .gomap kvs⟩ := by
    rw [h.2 a halt (fun hw => (hW a hw).1 (.inl rfl)), hm]
  rw [List.all_eq_true] at hb
  have harr : ∀ kv ∈ kvs, ∃ arr off len cap cells, kv.2 = .slice arr off len cap ∧
      m[arr]? = some ⟨.bucket a, .array cells⟩ ∧ m'[arr]? = some ⟨.bucket a, .array cells⟩ ∧
      cells.all (frozen f m) = true := by
    intro kv hkv
    obtain ⟨arr, off, len, cap, cells, e, hma, hc⟩ := bucketOK_iff.mp (hb kv hkv)
    refine ⟨arr, off, len, cap, cells, e, hma, ?_, hc⟩
    have hlt := (List.getElem?_eq_some_iff.mp hma).1
    rw [h.2 arr hlt (fun hw => (hW arr hw).1 (.inr (by simp [ownerOf, hma]))), hma]
  constructor
  · refine helperOK_iff.mpr ⟨kvs, hm', ?_⟩
    rw [List.all_eq_true]
    intro kv hkv
    obtain ⟨arr, off, len, cap, cells, e, _, hma', hc⟩ := harr kv hkv
    refine bucketOK_iff.mpr ⟨arr, off, len, cap, cells, e, hma', ?_⟩
    rw [List.all_eq_true] at hc ⊢
    exact fun x hx => frozen_stable hp f x (hc x hx)
  · simp only [fp, kvsOf_eq hm, kvsOf_eq hm']
    congr 2
    refine congrArg _ (List.map_congr_left fun kv hkv => ?_)
    obtain ⟨arr, off, len, cap, cells, e, hma, hma', hc⟩ := harr kv hkv
    rw [e]
    simp only [fpSeq, cellsOf_eq hma, cellsOf_eq hma']
    congr 3
    rw [List.all_eq_true] at hc
    exact congrArg _ (List.map_congr_left fun x hx => fp_stable hp f x (hc x (window_subset hx)))

/-- what a respectful step writes is outside every helper set other than its receiver -/
theorem wset_outside {st : St} {op : HeapOp} (hr : respectful st op = true) {a : Addr}
    (ha : ownerOf st.mem a = some .helper) (hrec : receiver st op ≠ some a) {x : Addr}
    (hx : wset st op x = true) : ¬ SetStorage st.mem a x := by
  intro hs
  have hcase : ∀ o : Owner, ownerOf st.mem x = some o → o ≠ .helper → (∀ b, o ≠ .bucket b) → False := by
    intro o ho h1 h2
    rcases hs with e | e
    · subst e; rw [ha] at ho; exact h1 (Option.some.inj ho).symm
    · rw [e] at ho; exact h2 a (Option.some.inj ho).symm
  cases op with
  | caller c =>
    simp only [wset, beq_iff_eq] at hx
    simp only [respectful, hx, beq_iff_eq] at hr
    exact hcase _ hr (by simp) (by simp)
  | api c =>
    cases c
    all_goals (try (simp [wset] at hx; done))
    case numberVal g =>
      simp only [wset, Bool.and_eq_true, beq_iff_eq] at hx
      exact hcase _ hx.2 (by simp) (by simp)
    case tupleType g =>
      simp only [wset] at hx
      split at hx
      · simp only [Bool.and_eq_true, beq_iff_eq] at hx; exact hcase _ hx.2 (by simp) (by simp)
      · simp at hx
    case walkNext w =>
      simp only [wset, beq_iff_eq] at hx
      exact hcase _ hx (by simp) (by simp)
    case vsAdd g v hh =>
      simp only [wset] at hx
      split at hx
      · rename_i ety a' hg
        simp only [receiver, hg] at hrec
        have hne : a' ≠ a := fun e => hrec (by rw [e])
        simp only [respectful, hg, setOwned, Bool.and_eq_true, beq_iff_eq] at hr
        simp only [Bool.or_eq_true, beq_iff_eq] at hx
        rcases hx with e | e
        · subst e
          rcases hs with e2 | e2
          · exact hne e2
          · rw [hr.1] at e2; cases e2
        · rcases hs with e2 | e2
          · subst e2; rw [ha] at e; cases e
          · rw [e] at e2; exact hne (by injection e2 with e3; injection e3)
      · simp at hx
    case vsRemove g v hh =>
      simp only [wset] at hx
      split at hx
      · rename_i ety a' hg
        simp only [receiver, hg] at hrec
        have hne : a' ≠ a := fun e => hrec (by rw [e])
        simp only [respectful, hg, setOwned, Bool.and_eq_true, beq_iff_eq] at hr
        simp only [Bool.or_eq_true, beq_iff_eq] at hx
        rcases hx with e | e
        · subst e
          rcases hs with e2 | e2
          · exact hne e2
          · rw [hr.1] at e2; cases e2
        · rcases hs with e2 | e2
          · subst e2; rw [ha] at e; cases e
          · rw [e] at e2; exact hne (by injection e2 with e3; injection e3)
      · simp at hx
    case psRemove g p hh =>
      simp only [wset] at hx
      split at hx
      · rename_i a' hg
        simp only [receiver, hg] at hrec
        have hne : a' ≠ a := fun e => hrec (by rw [e])
        simp only [respectful, hg, setOwned, Bool.and_eq_true, beq_iff_eq] at hr
        simp only [Bool.or_eq_true, beq_iff_eq] at hx
        rcases hx with e | e
        · subst e
          rcases hs with e2 | e2
          · exact hne e2
          · rw [hr.1] at e2; cases e2
        · rcases hs with e2 | e2
          · subst e2; rw [ha] at e; cases e
          · rw [e] at e2; exact hne (by injection e2 with e3; injection e3)
      · simp at hx
    case psAdd g p hh =>
      simp only [wset, Bool.or_eq_true] at hx
      rcases hx with hx | hx
      · split at hx
        · rename_i a' hg
          simp only [receiver, hg] at hrec
          have hne : a' ≠ a := fun e => hrec (by rw [e])
          simp only [respectful, hg, setOwned, Bool.and_eq_true, beq_iff_eq] at hr
          simp only [Bool.or_eq_true, beq_iff_eq] at hx
          rcases hx with e | e
          · subst e
            rcases hs with e2 | e2
            · exact hne e2
            · rw [hr.1.1] at e2; cases e2
          · rcases hs with e2 | e2
            · subst e2; rw [ha] at e; cases e
            · rw [e] at e2; exact hne (by injection e2 with e3; injection e3)
        · simp at hx
      · split at hx
        · simp only [Bool.and_eq_true, beq_iff_eq] at hx; exact hcase _ hx.2 (by simp) (by simp)
        · simp at hx

    case psAddAllSteps g p hz =>
      simp only [wset, Bool.or_eq_true] at hx
      rcases hx with hx | hx
      · split at hx
        · rename_i a' hg
          simp only [receiver, hg] at hrec
          have hne : a' ≠ a := fun e => hrec (by rw [e])
          simp only [respectful, hg, setOwned, Bool.and_eq_true, beq_iff_eq] at hr
          simp only [Bool.or_eq_true, beq_iff_eq] at hx
          rcases hx with e | e
          · subst e
            rcases hs with e2 | e2
            · exact hne e2
            · rw [hr.1.1] at e2; cases e2
          · rcases hs with e2 | e2
            · subst e2; rw [ha] at e; cases e
            · rw [e] at e2; exact hne (by injection e2 with e3; injection e3)
        · simp at hx
      · split at hx
        · simp only [Bool.and_eq_true, beq_iff_eq] at hx; exact hcase _ hx.2 (by simp) (by simp)
        · simp at hx

theorem helper_owner {f : Nat} {m : Mem} {a : Addr} (h : helperOK f m (.set a) = true) :
    ownerOf m a = some .helper := by
  obtain ⟨kvs, hm, _⟩ := helperOK_iff.mp h
  simp [ownerOf, hm]

/-- one step that is not a mutating call on the set at `a` -/
theorem helper_stable_step {st st' : St} {op : HeapOp} (hr : respectful st op = true)
    (h : step st op = some st') {f : Nat} {a : Addr} (hok : helperOK f st.mem (.set a) = true)
    (hrec : receiver st op ≠ some a) :
    helperOK f st'.mem (.set a) = true ∧ fp (f + 1) st'.mem (.set a) = fp (f + 1) st.mem (.set a) :=
  helper_stable (step_writes hr h)
    (fun _ hx => ⟨wset_outside hr (helper_owner hok) hrec hx, wset_not_frozen hr hx⟩) hok

/-- **all histories** without a mutating call on the set at `a` -/
theorem helper_stable_run : ∀ (ops : List HeapOp) (st : St) (f : Nat) (a : Addr),
    helperOK f st.mem (.set a) = true → respectfulRun st ops = true → notReceiver a st ops = true →
    helperOK f (run st ops).mem (.set a) = true ∧
      fp (f + 1) (run st ops).mem (.set a) = fp (f + 1) st.mem (.set a) := by
  intro ops
  induction ops with
  | nil => intro st f a h _ _; exact ⟨h, rfl⟩
  | cons op ops ih =>
    intro st f a hok hr hn
    simp only [respectfulRun, Bool.and_eq_true] at hr
    simp only [notReceiver, Bool.and_eq_true, bne_iff_ne, ne_eq] at hn
    simp only [run]
    cases hs : step st op with
    | none => simp only [hs, Option.getD_none] at hr hn ⊢; exact ih st f a hok hr.2 hn.2
    | some st1 =>
      simp only [hs, Option.getD_some] at hr hn ⊢
      obtain ⟨h1, e1⟩ := helper_stable_step hr.1 hs hok hn.1
      obtain ⟨h2, e2⟩ := ih st1 f a h1 hr.2 hn.2
      exact ⟨h2, e2.trans e1⟩

/-! ### `Set.Copy` (current code): the copy is in order and owns all its storage -/

theorem setBody_get_self {m : Mem} {a : Addr} {o : Obj} (b : Body) (h : m[a]? = some o) :
    (setBody m a b)[a]? = some { o with body := b } := by
  have hlt := (List.getElem?_eq_some_iff.mp h).1
  unfold setBody
  simp [h, List.getElem?_set_self hlt]

theorem alloc_get_new (m : Mem) (o : Owner) (b : Body) : (alloc m o b).1[m.length]? = some ⟨o, b⟩ := by
  simp [alloc]

theorem alloc_get_old {m : Mem} (o : Owner) (b : Body) {x : Addr} (h : x < m.length) :
    (alloc m o b).1[x]? = m[x]? := by
  simp [alloc, List.getElem?_append_left h]

/-- the buckets copied so far into the set at `a'` -/
def CopiedOK (p : Word → Bool) (m : Mem) (a' : Addr) (own : Owner) : Prop :=
  ∃ kvs', m[a']? = some ⟨own, .gomap kvs'⟩ ∧
    ∀ kv ∈ kvs', ∃ arr off len cap cells, kv.2 = .slice arr off len cap ∧
      m[arr]? = some ⟨.bucket a', .array cells⟩ ∧ cells.all p = true

theorem copyBuckets_ok {p : Word → Bool} {m0 : Mem} {a a' : Addr} {own : Owner} (ha' : m0.length ≤ a') :
    ∀ (l : List (Key × Word)) (m m' : Mem), Ext (fun _ => False) m0 m → CopiedOK p m a' own →
      (∀ kv ∈ l, ∃ arr off len cap cells, kv.2 = .slice arr off len cap ∧
        m0[arr]? = some ⟨.bucket a, .array cells⟩ ∧ cells.all p = true) →
      copyBuckets m a' l = some m' → Ext (fun _ => False) m0 m' ∧ CopiedOK p m' a' own := by
  intro l
  induction l with
  | nil => intro m m' h hc _ he; simp [copyBuckets] at he; subst he; exact ⟨h, hc⟩
  | cons kv r ih =>
    intro m m' h hc hsrc he
    rcases kv with ⟨k, b⟩
    obtain ⟨arr, off, len, cap, cells, eb, hm0, hp⟩ := hsrc (k, b) List.mem_cons_self
    obtain ⟨kvs', hma', hkvs'⟩ := hc
    have harr_lt := (List.getElem?_eq_some_iff.mp hm0).1
    have hmarr : m[arr]? = some ⟨.bucket a, .array cells⟩ := by rw [h.2 arr harr_lt (fun x => x), hm0]
    have ha'lt := (List.getElem?_eq_some_iff.mp hma').1
    simp only at eb
    subst eb
    simp only [copyBuckets, sliceElems, cellsOf_eq hmarr, kvsOf_eq hma', Option.map_some] at he
    refine ih _ _ (pres_setBody (pres_alloc h _ _) _ (.inr ha')) ?_
      (fun kv hkv => hsrc kv (List.mem_cons_of_mem _ hkv)) he
    have hne : m.length ≠ a' := Nat.ne_of_gt ha'lt
    have hself := setBody_get_self (m := (alloc m (.bucket a') (.array (window cells off len))).1)
      (o := ⟨own, .gomap kvs'⟩)
      (.gomap (kvInsert k (.slice m.length 0 (window cells off len).length (window cells off len).length) kvs'))
      (by rw [alloc_get_old _ _ ha'lt, hma'])
    refine ⟨_, hself, ?_⟩
    intro kv hkv
    rcases mem_kvInsert hkv with e | e
    · subst e
      refine ⟨m.length, 0, _, _, window cells off len, rfl, ?_, ?_⟩
      · rw [setBody_get_ne _ (Ne.symm hne)]; exact alloc_get_new _ _ _
      · rw [List.all_eq_true] at hp ⊢
        exact fun x hx => hp x (window_subset hx)
    · obtain ⟨arr2, off2, len2, cap2, cells2, e2, hm2, hp2⟩ := hkvs' kv e
      refine ⟨arr2, off2, len2, cap2, cells2, e2, ?_, hp2⟩
      have hlt2 := (List.getElem?_eq_some_iff.mp hm2).1
      have hne2 : a' ≠ arr2 := by
        intro e3; subst e3; rw [hma'] at hm2; cases hm2
      rw [setBody_get_ne _ hne2, alloc_get_old _ _ hlt2, hm2]

/-- `Set.Copy` of a helper set in order: a NEW helper set in order at a fresh
address; nothing that existed is written -/
theorem setCopy_helper {f : Nat} {m m' : Mem} {a a' : Addr} (hok : helperOK f m (.set a) = true)
    (he : setCopy m .helper a = some (m', a')) :
    a' = m.length ∧ Ext (fun _ => False) m m' ∧ helperOK f m' (.set a') = true := by
  obtain ⟨kvs, hm, hb⟩ := helperOK_iff.mp hok
  unfold setCopy at he
  simp only [kvsOf_eq hm, setNew, Option.map_eq_some_iff] at he
  obtain ⟨m2, hc, e⟩ := he
  cases e
  rw [List.all_eq_true] at hb
  have hsrc : ∀ kv ∈ kvs, ∃ arr off len cap cells, kv.2 = .slice arr off len cap ∧
      m[arr]? = some ⟨.bucket a, .array cells⟩ ∧ cells.all (frozen f m) = true :=
    fun kv hkv => bucketOK_iff.mp (hb kv hkv)
  have h0 : CopiedOK (frozen f m) (alloc m .helper (.gomap [])).1 m.length .helper :=
    ⟨[], alloc_get_new _ _ _, fun kv hkv => by cases hkv⟩
  obtain ⟨hext, kvs', hma', hall⟩ :=
    copyBuckets_ok (Nat.le_refl _) kvs _ _ (preserves_alloc' _ m _ _) h0 hsrc hc
  refine ⟨rfl, hext, helperOK_iff.mpr ⟨kvs', hma', ?_⟩⟩
  have hp := hext.preserves (fun _ hx => hx.elim)
  rw [List.all_eq_true]
  intro kv hkv
  obtain ⟨arr, off, len, cap, cells, e, hmarr, hcells⟩ := hall kv hkv
  refine bucketOK_iff.mpr ⟨arr, off, len, cap, cells, e, hmarr, ?_⟩
  rw [List.all_eq_true] at hcells ⊢
  exact fun x hx => frozen_stable hp f x (hcells x hx)

end Heap
end CtyModel
