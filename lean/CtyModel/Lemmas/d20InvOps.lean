/-
C20 (d20) — the state invariant is kept by the API entry points added to the heap
model in this round: `Value.WithSameMarks`, `PathSet.Remove`.
-/
import CtyModel.Lemmas.HeapInvC
import CtyModel.Lemmas.HeapInv3
namespace CtyModel
namespace Heap

theorem inv_withSameMarks {st st' : St} {v w : Nat} (hi : Inv st)
    (h : stepApi st (.withSameMarks v w) = some st') : Inv st' := by
  simp only [stepApi] at h
  opt_cases h
  · rename_i tp htp _ _ _
    obtain ⟨ht, hp⟩ := val_frozen hi (t := tp.1) (p := tp.2) htp
    exact inv_pushVal' hi (frozenAll_pair.mpr ⟨ht, hp⟩)
  · rename_i tp htp tq _ _
    obtain ⟨ht, hp⟩ := val_frozen hi (t := tp.1) (p := tp.2) htp
    have h1 := good2_alloc (Good.refl hi.heap) (o := .lib)
      (b := .markset (msUnion (valMarks st.mem tp.2) (valMarks st.mem tq.2))) trivial
    exact inv_pushVal hi h1 (frozenAll_pair.mpr ⟨frozenAll_stable h1.pres ht,
      frozenAll_marked (alloc_get_new _ _ _) (frozenAll_stable h1.pres (frozenAll_unwrap' hp))⟩)

theorem inv_psRemove {st st' : St} {g p : Nat} {hh : Int} (hi : Inv st)
    (h : stepApi st (.psRemove g p hh) = some st') : Inv st' := by
  simp only [stepApi] at h
  opt_cases h
  rename_i _ a hg pw hpw m2 hm2
  obtain ⟨kvs, hm⟩ := go_ok hi hg
  exact inv_withMem hi (good_setRemove (Good.refl hi.heap) hm hm2).1

theorem inv_psAddAllSteps {st st' : St} {g p : Nat} {hs : List Int} (hi : Inv st)
    (hd : docRespectful st (.api (.psAddAllSteps g p hs)) = true)
    (h : stepApi st (.psAddAllSteps g p hs) = some st') : Inv st' := by
  simp only [stepApi] at h
  opt_cases h
  · exact hi
  · rename_i _ a hg _ arr off len cap hp cells hc _ m2 hm2
    simp only [docRespectful, hp] at hd
    obtain ⟨kvs, hm⟩ := go_ok hi hg
    have h1 := good2_freezeCaller (Good.refl hi.heap) arr
    obtain ⟨kvs1, hm1⟩ := h1.mono.keeps_gomap hm (by simp)
    -- every prefix of the path is now the library's
    have hpath : ∀ x ∈ pathPrefixes arr off len cap, FrozenAll (freezeCaller st.mem arr) x := by
      intro x hx
      simp only [pathPrefixes, List.mem_map] at hx
      obtain ⟨i, _, rfl⟩ := hx
      unfold cellsOf at hc
      cases hma : st.mem[arr]? with
      | none => simp [hma] at hc
      | some o =>
        rcases o with ⟨ow, bd⟩
        cases bd <;> simp [hma] at hc
        have hlib := freezeCaller_lib hma hd
        exact frozenAll_slice hlib (h1.good.ok arr _ hlib)
    exact inv_withMem hi (h1.trans (good_setAddAll _ _ _ _ _ h1.good hm1 hpath hm2).1)
  · exact hi

end Heap
end CtyModel
