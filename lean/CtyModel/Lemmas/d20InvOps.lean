/-
C20 (d20) — the state invariant is kept by the API entry points added to the heap
model in this round: `Value.WithSameMarks`, `PathSet.Remove`.
-/
import CtyModel.Lemmas.HeapInvC
namespace CtyModel
namespace Heap

theorem inv_withSameMarks {st st' : St} {v w : Nat} (hi : Inv st)
    (h : stepApi st (.withSameMarks v w) = some st') : Inv st' := by
  simp only [stepApi] at h
  opt_cases h
  · rename_i tp htp _ _ _
    obtain ⟨ht, hp⟩ := val_frozen hi (t := tp.1) (p := tp.2) htp
    exact inv_pushVal' hi (frozenAll_pair.mpr ⟨ht, hp⟩)
  · rename_i tp htp tq _ _
    obtain ⟨ht, hp⟩ := val_frozen hi (t := tp.1) (p := tp.2) htp
    have h1 := good2_alloc (Good.refl hi.heap) (o := .lib)
      (b := .markset (msUnion (valMarks st.mem tp.2) (valMarks st.mem tq.2))) trivial
    exact inv_pushVal hi h1 (frozenAll_pair.mpr ⟨frozenAll_stable h1.pres ht,
      frozenAll_marked (alloc_get_new _ _ _) (frozenAll_stable h1.pres (frozenAll_unwrap' hp))⟩)

theorem inv_psRemove {st st' : St} {g p : Nat} {hh : Int} (hi : Inv st)
    (h : stepApi st (.psRemove g p hh) = some st') : Inv st' := by
  simp only [stepApi] at h
  opt_cases h
  rename_i _ a hg pw hpw m2 hm2
  obtain ⟨kvs, hm⟩ := go_ok hi hg
  exact inv_withMem hi (good_setRemove (Good.refl hi.heap) hm hm2).1

end Heap
end CtyModel
