/-
C01 for arithmetic, part 1: Negate, Absolute, Divide, Modulo.  On known numbers
the weakened call is the concrete call (a weakening keeps known numbers as they
are); as soon as an operand is unknown the result is a fixed not-null unknown
number (for Absolute: bounded below by zero) that admits every number the
concrete call can return.
-/
import CtyModel.Lemmas.OpsCompare
namespace CtyModel
open Value Cov NumCmp


theorem covers_numVal_self (x : Num) : Covers (numVal x) (numVal x) = true := by
  simp [Covers, CoversG, numVal, Ty.matches, Payload.stripMarks, coversP, numEq_refl]

theorem covers_unkNum_numVal (x : Num) : Covers unkNumNotNull (numVal x) = true := by
  simp [Covers, CoversG, numVal, unkNumNotNull, Ty.matches, Payload.stripMarks, coversP, admits, rfnAdmitsKnown,
    Rfn.nullness, loInside, hiInside, pt, negInfB, posInfB, cmp_negInf_le, cmp_posInf]
  decide

theorem covers_unkNum_self : Covers unkNumNotNull unkNumNotNull = true := by decide

theorem tc1_number_inv {a : Value} {tc : TC} (h : typeCheck .number [a] = .ok tc) :
    (tc = .dynamic ∧ a.ty = .dyn) ∨ (tc ≠ .dynamic ∧ a.ty = .number ∧ (tc = .none ↔ a.isUnk = false)) := by
  rw [typeCheck1] at h
  by_cases d : a.ty.isDyn = true
  · simp [d] at h; exact Or.inl ⟨h.symm, isDyn_iff.mp d⟩
  · by_cases e : a.ty.equals .number = true
    · simp [d, e] at h
      refine Or.inr ?_
      subst h
      refine ⟨by split <;> simp, equals_number_iff.mp e, ?_⟩
      cases a.isUnk <;> simp
    · simp [d, e] at h

/-- the common shape of the unary numeric operations: exact on a known number,
a fixed not-null unknown on anything else -/
theorem unaryNum_sound (f : Num → Num) (u : Value) (op : Value → Res Value)
    (hop : ∀ a, op a = (do match ← typeCheck .number [a] with
                          | .none => pure (numVal (f (← asNum a)))
                          | _ => pure u))
    (hu : ∀ x, Covers u (numVal (f x)) = true) (huu : Covers u u = true) : SoundU₁ op := by
  intro o w r hk hmo hmw hc ho
  rw [hop] at ho ⊢
  obtain ⟨tco, hto, ho⟩ := Res.bind_eq_ok.mp ho
  have hcg : CoversG true w o = true := hc
  rcases tc1_number_inv hto with ⟨rfl, hd⟩ | ⟨hnd, hn, hiff⟩
  · have hwd := covers_ty_dyn hcg hd
    have : typeCheck .number [w] = .ok .dynamic := by rw [typeCheck1]; simp [hwd, Ty.isDyn]
    rw [this, Res.bind_ok]
    simp only [pure, Res.ok.injEq] at ho ⊢
    subst ho
    exact ⟨_, rfl, huu⟩
  · have hnone : tco = .none := hiff.mpr (isUnk_of_whollyKnown hk)
    subst hnone
    simp only at ho
    obtain ⟨x, hx, ho⟩ := Res.bind_eq_ok.mp ho
    simp only [pure, Res.ok.injEq] at ho
    subst ho
    rcases covers_ty_number hcg hn with hwd | hwn
    · have : typeCheck .number [w] = .ok .dynamic := by rw [typeCheck1]; simp [hwd, Ty.isDyn]
      rw [this, Res.bind_ok]
      exact ⟨_, rfl, hu x⟩
    · by_cases hwu : w.isUnk = true
      · have : typeCheck .number [w] = .ok .unknown := by rw [typeCheck1]; simp [hwn, Ty.isDyn, Ty.equals, hwu]
        rw [this, Res.bind_ok]
        exact ⟨_, rfl, hu x⟩
      · have : typeCheck .number [w] = .ok .none := by rw [typeCheck1]; simp [hwn, Ty.isDyn, Ty.equals, hwu]
        rw [this, Res.bind_ok]
        obtain ⟨y, hy, hs⟩ := asNum_of_covers hcg hx hmw (by simpa using hwu)
        have := numEq_exact hs
        subst this
        simp only [hy, Res.bind_ok, pure]
        exact ⟨_, rfl, covers_numVal_self _⟩

theorem negU_sound : SoundU₁ negU :=
  unaryNum_sound Num.neg unkNumNotNull negU (fun _ => rfl) (fun _ => covers_unkNum_numVal _) covers_unkNum_self


theorem cmp_zero_abs (x : Num) : Num.cmp (.fin false 0 0 53) (Num.abs x) ≤ 0 := by
  cases x with
  | inf n => simp [Num.abs, Num.cmp]
  | fin n m e p =>
    simp only [Num.abs, cmp_fin, sgnm, icmp, Num.scaleTo]
    have : (0:Int) ≤ (m:Int) * 2 ^ (e - min 0 e).toNat := Int.mul_nonneg (Int.natCast_nonneg m) (Int.le_of_lt (two_pow_pos _))
    simp only [Bool.false_eq_true, if_false, Int.natCast_zero, Int.zero_mul]
    split
    · omega
    · split <;> omega

def absUnk : Value := ⟨.number, .unk (.num .f (some ⟨.fin false 0 0 53, true⟩) none)⟩

theorem covers_absUnk_numVal (x : Num) : Covers absUnk (numVal (Num.abs x)) = true := by
  have h := cmp_zero_abs x
  simp [Covers, CoversG, numVal, absUnk, Ty.matches, Payload.stripMarks, coversP, admits, rfnAdmitsKnown,
    Rfn.nullness, loInside, hiInside, pt, negInfB, posInfB, cmp_posInf, h]
  decide

theorem absU_sound : SoundU₁ absU :=
  unaryNum_sound Num.abs absUnk absU (fun _ => rfl) covers_absUnk_numVal (by decide)


/-- an exactly covering, known, unmarked value over a number is that number -/
theorem eq_of_coversX_num {w o : Value} {x : Num} (hc : CoversX w o = true) (ho : o.v = .n x) (hto : o.ty = .number)
    (htw : w.ty = .number) (hw : w.isMarked = false) (hu : w.isUnk = false) : w = o := by
  have hx : asNum o = .ok x := by simp [asNum, ho]
  obtain ⟨y, hy, hs⟩ := asNum_of_covers (ex := true) hc hx hw hu
  have := numEq_exact hs
  subst this
  have := asNum_inv hy
  obtain ⟨tw, pw⟩ := w
  obtain ⟨to, po⟩ := o
  simp_all

def SoundU₂If (P : Value → Value → Prop) (f : Value → Value → Res Value) : Prop :=
  ∀ o₁ o₂ w₁ w₂ r, P o₁ o₂ → o₁.whollyKnown = true → o₂.whollyKnown = true →
    o₁.isMarked = false → o₂.isMarked = false → w₁.isMarked = false → w₂.isMarked = false →
    CoversX w₁ o₁ = true → CoversX w₂ o₂ = true → f o₁ o₂ = .ok r →
    ∃ r', f w₁ w₂ = .ok r' ∧ Covers r' r = true

/-- the common shape of Divide and Modulo: some computation on two known numbers,
a fixed not-null unknown number on anything else -/
theorem binaryNum_sound (P : Value → Value → Prop) (body : Value → Value → Res Value) (u : Value)
    (op : Value → Value → Res Value)
    (hop : ∀ a b, op a b = (do match ← typeCheck .number [a, b] with
                              | .none => body a b
                              | _ => pure u))
    (hnum : ∀ a b r, P a b → body a b = .ok r → (∃ x, a.v = .n x) ∧ (∃ y, b.v = .n y) ∧ ∃ z, r = numVal z)
    (hu : ∀ x, Covers u (numVal x) = true) (huu : Covers u u = true) : SoundU₂If P op := by
  intro o₁ o₂ w₁ w₂ r hP hk₁ hk₂ hmo₁ hmo₂ hmw₁ hmw₂ hc₁ hc₂ ho
  rw [hop] at ho ⊢
  obtain ⟨tco, hto, ho⟩ := Res.bind_eq_ok.mp ho
  have hg₁ : CoversG true w₁ o₁ = true := hc₁
  have hg₂ : CoversG true w₂ o₂ = true := hc₂
  obtain ⟨tcw, htw⟩ := tc2_ok_of_covers (Or.inr rfl) hg₁ hg₂ hto
  obtain ⟨wt1, wt2, wd, wn⟩ := tc2_number_inv htw
  obtain ⟨ot1, ot2, od, on⟩ := tc2_number_inv hto
  rw [htw, Res.bind_ok]
  rcases tc_cases tco with rfl | rfl | rfl
  · simp only at ho
    obtain ⟨⟨x, hx⟩, ⟨y, hy⟩, z, rfl⟩ := hnum _ _ _ hP ho
    rcases tc_cases tcw with rfl | rfl | rfl
    · obtain ⟨_, u1, u2⟩ := tc2_none_of_covers (Or.inr rfl) hk₁ hk₂ hg₁ hg₂ htw
      have e1 := eq_of_coversX_num hc₁ hx (on (by simp)).1 (wn (by simp)).1 hmw₁ u1
      have e2 := eq_of_coversX_num hc₂ hy (on (by simp)).2 (wn (by simp)).2 hmw₂ u2
      subst e1 e2
      exact ⟨_, ho, covers_numVal_self _⟩
    · exact ⟨_, rfl, hu z⟩
    · exact ⟨_, rfl, hu z⟩
  · simp only [pure, Res.ok.injEq] at ho
    subst ho
    rcases tc_cases tcw with rfl | rfl | rfl
    · obtain ⟨h, _, _⟩ := tc2_none_of_covers (Or.inr rfl) hk₁ hk₂ hg₁ hg₂ htw
      rw [hto] at h; cases h
    · exact ⟨_, rfl, huu⟩
    · exact ⟨_, rfl, huu⟩
  · exact absurd rfl (tc2_not_unknown hk₁ hk₂ hto)

theorem divU_sound : SoundU₂If (fun _ _ => True) divU := by
  refine binaryNum_sound _ (fun a b => do pure (numVal (← Num.quo (← asNum a) (← asNum b)))) unkNumNotNull divU
    (fun _ _ => rfl) ?_ covers_unkNum_numVal covers_unkNum_self
  intro a b r _ h
  obtain ⟨x, hx, h⟩ := Res.bind_eq_ok.mp h
  obtain ⟨y, hy, h⟩ := Res.bind_eq_ok.mp h
  obtain ⟨z, hz, h⟩ := Res.bind_eq_ok.mp h
  simp only [pure, Res.ok.injEq] at h
  exact ⟨⟨x, asNum_inv hx⟩, ⟨y, asNum_inv hy⟩, z, h.symm⟩


/-- the computation of Modulo on two operands that passed the type check -/
def modBody (a b : Value) : Res Value := do
  let isInfP := fun (p : Payload) => match p with | .n x => x.isInf | _ => false
  let isZeroP := fun (p : Payload) => match p with | .n x => x.isZero | _ => false
  if isInfP a.v || isInfP b.v then pure (numVal (← Num.mulCty (← asNum a) (← asNum b)))
  else if isZeroP b.v then pure a
  else
    let x ← asNum a
    let y ← asNum b
    let rat ← Num.quo x y
    match rat.truncInt with
    | none => .panic "Int of Inf"
    | some q =>
      let w := Num.setIntP q x.prec
      let w ← Num.mulP y w w.prec
      let w ← Num.addP x (Num.neg w) w.prec
      pure (numVal w)

theorem modU_eq (a b : Value) : modU a b = (do match ← typeCheck .number [a, b] with
    | .none => modBody a b
    | _ => pure unkNumNotNull) := rfl

/-- the receiver of Modulo is an actual number (not null) -/
def IsNumber (a : Value) : Prop := ∃ x, a = numVal x

theorem modBody_num (a b r : Value) (hP : IsNumber a) (h : modBody a b = .ok r) :
    (∃ x, a.v = .n x) ∧ (∃ y, b.v = .n y) ∧ ∃ z, r = numVal z := by
  obtain ⟨x, rfl⟩ := hP
  refine ⟨⟨x, rfl⟩, ?_⟩
  obtain ⟨tb, pb⟩ := b
  unfold modBody at h
  cases pb <;> simp [numVal, asNum, Bind.bind, Res.bind, pure] at h
  case n y =>
    refine ⟨⟨y, rfl⟩, ?_⟩
    by_cases h1 : (x.isInf || y.isInf) = true
    · simp only [Bool.or_eq_true] at h1
      simp only [h1, if_true] at h
      cases hm : Num.mulCty x y <;> simp [hm] at h
      exact ⟨_, h.symm⟩
    · simp only [Bool.or_eq_true] at h1
      simp only [h1, if_false] at h
      by_cases h2 : y.isZero = true
      · simp [h2] at h; exact ⟨x, h.symm⟩
      · simp only [h2, if_false, Bool.false_eq_true] at h
        cases hq : Num.quo x y <;> simp [hq] at h
        rename_i rat
        cases ht : rat.truncInt <;> simp [ht] at h
        rename_i q
        cases hm : Num.mulP y (Num.setIntP q x.prec) (Num.setIntP q x.prec).prec <;> simp [hm] at h
        rename_i w1
        cases ha : Num.addP x w1.neg w1.prec <;> simp [ha] at h
        exact ⟨_, h.symm⟩
  all_goals (split at h <;> simp at h)

theorem modU_sound : SoundU₂If (fun a _ => IsNumber a) modU :=
  binaryNum_sound _ modBody unkNumNotNull modU modU_eq modBody_num covers_unkNum_numVal covers_unkNum_self

end CtyModel
