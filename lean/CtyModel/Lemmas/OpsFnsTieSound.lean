/-
Transfer of the C01 soundness statements (`Sound₁`, `Sound₂`, CtyModel/Covers.lean) along the regenerated-model tie
`Lemmas/OpsFnsTie.lean`: the well-formedness `Value.wfc` that every soundness statement assumes of its operands
contains `flatMarks`, which is the tie's hypothesis `Single`.
-/
import CtyModel.Lemmas.OpsFnsTie
import CtyModel.Covers
namespace CtyModel
namespace OpsFnsTie
open Value

theorem single_of_wfc {v : Value} (h : v.wfc = true) : Single v := by
  simp only [Value.wfc, Value.flatMarks, Bool.and_eq_true, Bool.not_eq_true'] at h
  exact h.1.1.1

theorem sound₁_transfer {f g : Value → Res Value} (h : ∀ a, Single a → f a = g a) (hs : Sound₁ g) : Sound₁ f := by
  intro o w r hk ho hw hc hr
  rw [h o (single_of_wfc ho)] at hr
  obtain ⟨r', h1, h2⟩ := hs o w r hk ho hw hc hr
  exact ⟨r', by rw [h w (single_of_wfc hw)]; exact h1, h2⟩

theorem sound₂_transfer {f g : Value → Value → Res Value} (h : ∀ a b, Single a → Single b → f a b = g a b)
    (hs : Sound₂ g) : Sound₂ f := by
  intro o₁ o₂ w₁ w₂ r hk₁ hk₂ ho₁ ho₂ hw₁ hw₂ hc₁ hc₂ hr
  rw [h o₁ o₂ (single_of_wfc ho₁) (single_of_wfc ho₂)] at hr
  obtain ⟨r', h1, h2⟩ := hs o₁ o₂ w₁ w₂ r hk₁ hk₂ ho₁ ho₂ hw₁ hw₂ hc₁ hc₂ hr
  exact ⟨r', by rw [h w₁ w₂ (single_of_wfc hw₁) (single_of_wfc hw₂)]; exact h1, h2⟩

end OpsFnsTie
end CtyModel
