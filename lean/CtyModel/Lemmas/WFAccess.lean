/-
C06 lemmas, part 4: `accessors_total` — on a well-formed value every accessor
applicable to its type succeeds.
-/
import CtyModel.Lemmas.WFCons
set_option linter.unusedSimpArgs false
set_option linter.unusedVariables false
namespace CtyModel
namespace Value
variable {nfc : String → Bool}

theorem find_of_mem : ∀ {ns : List String} {ts : List Ty} {os : List Bool} {k : String},
    k ∈ ns → ns.length = ts.length → os.length = ts.length → ∃ r, Ty.find k ns ts os = some r
  | [], _, _, _, h, _, _ => by simp at h
  | _ :: _, [], _, _, _, h, _ => by simp at h
  | _ :: _, _ :: _, [], _, _, _, h => by simp at h
  | k0 :: ns, t :: ts, o :: os, k, h, h1, h2 => by
    simp only [Ty.find]
    by_cases hk : k0 = k
    · simp [hk]
    · simp only [hk, if_false]
      have : k ∈ ns := by
        rcases List.mem_cons.mp h with h | h
        · exact absurd h.symm hk
        · exact h
      exact find_of_mem this (by simpa using h1) (by simpa using h2)

theorem wf_zipVals : ∀ {ts : List Ty} {vs : List Payload}, Ty.okL nfc ts = true → Payload.wfZip nfc ts vs = true →
    ∀ x ∈ zipVals ts vs, x.WF nfc = true
  | [], _, _, _ => by simp [zipVals]
  | _ :: _, [], _, _ => by simp [zipVals]
  | t :: ts, v :: vs, hok, hz => by
    intro x hx
    simp only [Payload.wfZip, Bool.and_eq_true] at hz
    simp only [zipVals, List.mem_cons] at hx
    rcases hx with rfl | hx
    · have := Ty.okL_getElem (i := 0) (t := t) hok (by simp)
      simp [WF, this, hz.1]
    · refine wf_zipVals (ts := ts) ?_ hz.2 x hx
      simp only [Ty.okL, Ty.wfL, Ty.hasOptL, Ty.namesAllL, Bool.and_eq_true, Bool.not_eq_true',
        Bool.or_eq_false_iff] at hok ⊢
      simp [hok]

theorem zipVals_length : ∀ {ts : List Ty} {vs : List Payload}, ts.length = vs.length → (zipVals ts vs).length = vs.length
  | [], [], _ => rfl
  | [], _ :: _, h => by simp at h
  | _ :: _, [], h => by simp at h
  | _ :: ts, _ :: vs, h => by simp [zipVals, zipVals_length (ts := ts) (vs := vs) (by simpa using h)]

/-- the primitive accessors of a known, non-null, unmarked well-formed value do not panic -/
theorem prim_accessors_total (v : Value) (hv : v.WF nfc = true) (hm : v.isMarked = false)
    (hk : v.isKnown = true) (hn : v.isNull = false) :
    (v.ty.isBool = true → ∃ b, asBool v = .ok b) ∧
    (v.ty.isNumber = true → ∃ n, asNum v = .ok n) ∧
    (v.ty.isString = true → ∃ s, asString v = .ok s ∧ nfc s = true) := by
  obtain ⟨t, p⟩ := v
  cases t <;> cases p <;>
    simp_all [WF, Payload.wfP, asBool, asNum, asString, Ty.isBool, Ty.isNumber, Ty.isString, isMarked, isKnown,
      isNull, Payload.isMarked, Payload.isKnown, Payload.isNull, Payload.unmark1]

/-- the container accessors: `LengthInt` and `ElementIterator` succeed, agree on the number of members, and every
member handed out is well-formed for the element / attribute type -/
theorem container_accessors_total (v : Value) (hv : v.WF nfc = true) (hm : v.isMarked = false)
    (hk : v.isKnown = true) (hn : v.isNull = false)
    (hc : isCollection v.ty = true ∨ (∃ es, v.ty = .tuple es) ∨ ∃ ns ts os, v.ty = .object ns ts os) :
    ∃ xs, elements v = .ok xs ∧ lengthInt v = .ok xs.length ∧ ∀ x ∈ xs, x.WF nfc = true := by
  obtain ⟨t, p⟩ := v
  cases t <;> cases p <;>
    simp_all [WF, Payload.wfP, isCollection, isMarked, isKnown, isNull, Payload.isMarked, Payload.isKnown,
      Payload.isNull, Payload.unmark1, elements, lengthInt]
  · intro a ha
    exact ⟨by simpa [Ty.ok_list] using hv.1, Payload.wfAll_mem hv.2 ha⟩
  · intro a ha
    exact ⟨by simpa [Ty.ok_set] using hv.1, Payload.wfAll_mem hv.2.2 ha⟩
  · intro a ha
    exact ⟨by simpa [Ty.ok_map] using hv.1, Payload.wfAll_mem hv.2.2 ha⟩
  · refine ⟨(zipVals_length hv.2.1).symm, fun x hx => ?_⟩
    have := wf_zipVals (by simpa [Ty.ok_tuple] using hv.1) hv.2.2 x hx
    simpa [WF] using this
  · have hobj := Ty.ok_object hv.1
    refine ⟨by rw [zipVals_length hv.2.1.2, ← hv.2.1.2]; exact hobj.2.1, fun x hx => ?_⟩
    have := wf_zipVals hobj.1 hv.2.2 x hx
    simpa [WF] using this

theorem unmark1_idem_of_wf {t : Ty} {p : Payload} (h : Payload.wfP nfc t p = true) :
    p.unmark1.unmark1 = p.unmark1 := by
  cases p <;> simp_all [Payload.unmark1]
  rename_i ms r
  cases r <;> simp_all [Payload.isMarked]

theorem isNull_unmark {v : Value} (hv : v.WF nfc = true) : v.unmark.isNull = v.isNull := by
  simp only [WF, Bool.and_eq_true] at hv
  simp only [isNull, Payload.isNull, unmark, unmark1_idem_of_wf hv.2]

theorem isKnown_unmark {v : Value} (hv : v.WF nfc = true) : v.unmark.isKnown = v.isKnown := by
  simp only [WF, Bool.and_eq_true] at hv
  simp only [isKnown, Payload.isKnown, unmark, unmark1_idem_of_wf hv.2]

/-- every declared attribute can be read -/
theorem getAttr_total (v : Value) (hv : v.WF nfc = true) {ns ts os} (hty : v.ty = .object ns ts os)
    (hn : v.isNull = false) (name : String) (hname : name ∈ ns) : ∃ r, getAttr v name = .ok r := by
  have hobj : ns.length = ts.length ∧ os.length = ts.length := by
    have := ok_of_wf hv
    rw [hty] at this
    exact ⟨(Ty.ok_object this).2.1, (Ty.ok_object this).2.2.1⟩
  obtain ⟨⟨aty, o⟩, hf⟩ := find_of_mem hname hobj.1 hobj.2
  have key : ∀ u : Value, u.WF nfc = true → u.ty = .object ns ts os → u.isMarked = false → u.isNull = false →
      ∃ r, getAttrU u name = .ok r := by
    intro u hu huty hum hun
    obtain ⟨t, p⟩ := u
    simp only at huty; subst huty
    unfold getAttrU
    simp only [Ty.isDyn, hf]
    cases p <;> simp_all [WF, Payload.wfP, isKnown, Payload.isKnown, Payload.unmark1, isMarked, Payload.isMarked,
      isNull, Payload.isNull]
    split <;> simp
  unfold getAttr
  split
  · obtain ⟨r, hr⟩ := key v.unmark (wf_unmark hv) hty (by
      simp only [WF, Bool.and_eq_true] at hv
      exact (Payload.wfP_unmark1 hv.2).2) (by rw [isNull_unmark hv]; exact hn)
    exact ⟨_, by rw [hr]; rfl⟩
  · rename_i hm
    exact key v hv hty (by simpa using hm) hn

/-- `Range()` is defined for every unmarked well-formed value, known or not -/
theorem range_total (v : Value) (hv : v.WF nfc = true) (hm : v.isMarked = false) : ∃ r, range v = .ok r := by
  obtain ⟨t, p⟩ := v
  unfold range
  simp only [hm]
  cases t <;> cases p <;> simp_all [WF, Payload.wfP, isMarked, Payload.isMarked]
  all_goals (split <;> simp)
end Value
end CtyModel
