/-
C17 (MessagePack half) — `D17.unmarshal` never panics, on EVERY item tree and EVERY requested
type, for every equality oracle of the refinement builder and every `Ext` whose set constructor
does not panic (`SetNP`: `cty.SetVal` is property C03's; the decoder asks `CanSetVal` first).

By mutual structural induction on the item tree, with `NP r` = "`r` is not a panic".  The
extension branch (`unmarshalUnknownValue`) is closed by its deferred `recover()` alone.
-/
import CtyModel.d17Msgpack
import CtyModel.Lemmas.C17JsonTy
import CtyModel.Lemmas.NumRound
namespace CtyModel
namespace D17
open Msgpack Refine
open C17Json (Sat)

/-- not a panic -/
abbrev NP {α} (r : Res α) : Prop := Sat (fun _ : α => True) r

theorem NP.of {α} {r : Res α} (h : ∀ w, r ≠ .panic w) : NP r := Sat.intro h (fun _ _ => trivial)

theorem np_ok {α} {a : α} : NP (.ok a : Res α) := trivial
theorem np_err {α} {c : String} : NP (.err c : Res α) := trivial
theorem np_unm {α} : NP (.unmodelled : Res α) := trivial

theorem NP.map {α β} {r : Res α} {f : α → β} (h : NP r) : NP (r.map f) := Sat.map h (fun _ _ => trivial)
theorem NP.bind {α β} {r : Res α} {f : α → Res β} (h : NP r) (hf : ∀ a, NP (f a)) : NP (r.bind f) :=
  Sat.bind h (fun a _ => hf a)

/-! ### numbers -/

theorem roundME_ne_zero (m : Nat) (e : Int) (p : Nat) (hm : m ≠ 0) (hp : p ≠ 0) : (Num.roundME m e p).1 ≠ 0 := by
  unfold Num.roundME
  simp only [hp, if_false]
  split
  · exact hm
  · rename_i hbl
    have hbl' : p < Num.bitlen m := by omega
    have h1 : ¬ Num.bitlen m ≤ Num.bitlen m - 1 := by omega
    have h2 : ¬ m < 2 ^ (Num.bitlen m - 1) := fun h => h1 ((Num.bitlen_le_iff m _).mpr h)
    have h3 : 2 ^ (Num.bitlen m - p) ≤ m :=
      Nat.le_trans (Nat.pow_le_pow_right (by decide) (by omega)) (Nat.le_of_not_lt h2)
    have h4 : 0 < m >>> (Num.bitlen m - p) := by
      rw [Nat.shiftRight_eq_div_pow]
      exact Nat.div_pos h3 (Nat.two_pow_pos _)
    simp only
    split <;> omega

theorem mk_mant_ne_zero (neg : Bool) (m : Nat) (e : Int) (p : Nat) (hm : m ≠ 0) :
    ∃ m' e', Num.mk neg m e p = .fin neg m' e' p ∧ m' ≠ 0 := by
  have := Num.norm_val m e hm
  refine ⟨(Num.norm m e).1, (Num.norm m e).2, rfl, ?_⟩
  intro h0
  rw [h0] at this
  simp at this
  exact hm this.2.symm

theorem round_mant_ne_zero (neg : Bool) (m : Nat) (e : Int) (p : Nat) (hm : m ≠ 0) (hp : p ≠ 0) :
    ∃ m' e', Num.round neg m e p = .fin neg m' e' p ∧ m' ≠ 0 :=
  mk_mant_ne_zero neg _ _ p (roundME_ne_zero m e p hm hp)

/-- finite with a non-zero mantissa -/
def NZ : Num → Prop
  | .fin _ m _ _ => m ≠ 0
  | .inf _ => False

theorem mulRound_nz {a b : Num} {p : Nat} (ha : NZ a) (hb : NZ b) (hp : p ≠ 0) : NZ (mulRound a b p) := by
  cases a with
  | inf _ => exact absurd ha id
  | fin na ma ea pa =>
    cases b with
    | inf _ => exact absurd hb id
    | fin nb mb eb pb =>
      simp only [mulRound]
      obtain ⟨m', e', h, hm'⟩ := round_mant_ne_zero (na != nb) (ma * mb) (ea + eb) p (Nat.mul_ne_zero ha hb) hp
      rw [h]; exact hm'

theorem pow5Loop_nz : ∀ (fuel n : Nat) (z f : Num), NZ z → NZ f → NZ (pow5Loop fuel n z f)
  | 0, _, _, _, hz, _ => by simpa [pow5Loop] using hz
  | fuel + 1, n, z, f, hz, hf => by
    simp only [pow5Loop]
    split
    · exact hz
    · refine pow5Loop_nz fuel _ _ _ ?_ (mulRound_nz hf hf (by decide))
      split
      · exact mulRound_nz hz hf (by decide)
      · exact hz

theorem quo_np {a b : Num} (hb : NZ b) (w : String) : Num.quo a b ≠ .panic w := by
  cases b with
  | inf _ => exact absurd hb id
  | fin nb mb eb pb =>
    have hmb : mb ≠ 0 := hb
    cases a with
    | inf _ => simp [Num.quo]
    | fin na ma ea pa =>
      simp only [Num.quo, hmb, if_false]
      split <;> simp

theorem pow10Rounded_nz (k : Nat) : NZ (pow10Rounded k) := by
  have h : NZ (pow5 k) := by
    unfold pow5
    refine pow5Loop_nz _ _ _ _ ?_ ?_
    · obtain ⟨m', e', h, hm'⟩ := mk_mant_ne_zero false (5 ^ 27) 0 576 (by decide)
      rw [h]; exact hm'
    · obtain ⟨m', e', h, hm'⟩ := mk_mant_ne_zero false 5 0 640 (by decide)
      rw [h]; exact hm'
  unfold pow10Rounded
  cases hp : pow5 k with
  | inf _ => rw [hp] at h; exact absurd h id
  | fin n m e p => rw [hp] at h; exact h

theorem parseUnsigned_np (neg : Bool) (cs : List Char) (w : String) : parseUnsigned neg cs ≠ .panic w := by
  unfold parseUnsigned
  simp only
  split
  · split <;> simp
  · split
    · split
      · simp
      · split
        · simp
        · split
          · split
            · simp
            · exact quo_np (pow10Rounded_nz _) w
          · exact quo_np (by simp [NZ]) w
    · split <;> simp
  · split <;> simp

theorem parseNumber_np (s : String) (w : String) : parseNumber s ≠ .panic w := by
  unfold parseNumber parseChars
  simp only
  split
  all_goals (split
             · simp
             · exact parseUnsigned_np _ _ w)

theorem decString_np (it : Item) (w : String) : decString it ≠ .panic w := by
  cases it <;> simp [decString]
  split <;> simp

theorem unmarshalNumber_np (it : Item) : NP (unmarshalNumber it) := by
  refine NP.of (fun w => ?_)
  have h1 := decString_np it
  unfold unmarshalNumber
  split
  all_goals (try simp)
  rename_i it' _ _ _ _ _
  split
  · rename_i s hs
    have := parseNumber_np s
    split <;> simp_all
  · simp
  · rename_i w' hs; exact absurd hs (decString_np _ w')
  · simp

/-! ### the value constructors -/

theorem typeOfJson_np (E : Ext) (j : Json) : NP (typeOfJson E j) := by
  refine NP.of (fun w => ?_)
  unfold typeOfJson
  split <;> simp_all

theorem recoverErr_np {α} (r : Res α) : NP (recoverErr r) := by
  cases r <;> simp [recoverErr, Sat]

theorem elemTy_np : ∀ (vs : List Value) (acc : Ty), NP (elemTy vs acc)
  | [], _ => by simp [elemTy, Sat]
  | v :: vs, acc => by
    simp only [elemTy]
    split
    · exact elemTy_np vs _
    · split
      · exact np_err
      · exact elemTy_np vs _

/-- `cty.SetVal` (an external function of the model) does not panic -/
def SetNP (E : Ext) : Prop := ∀ e ps w, E.setOf e ps ≠ .panic w

theorem listVal_np (vs : List Value) : NP (listVal vs) := (elemTy_np vs .dyn).map
theorem setVal_np {E : Ext} (hs : SetNP E) (vs : List Value) : NP (setVal E vs) :=
  (elemTy_np vs .dyn).bind (fun e => (NP.of (hs e _)).map)
theorem mapVal_np (E : Ext) (ks : List String) (vs : List Value) : NP (mapVal E ks vs) := by
  unfold mapVal; split
  · exact np_unm
  · exact (elemTy_np vs .dyn).map
theorem objectVal_np (E : Ext) (ks : List String) (vs : List Value) : NP (objectVal E ks vs) := by
  unfold objectVal; split
  · exact np_unm
  · exact np_ok

/-! ### the decoder -/

section
variable [O : EqOracle] (E : Ext) (hs : SetNP E)
include hs

mutual
theorem unmarshal_np : ∀ (it : Item) (ty : Ty), NP (unmarshal E it ty)
  | .ext _ _ _ _, _ => by simp only [unmarshal]; exact recoverErr_np _
  | .nil, _ => by simp only [unmarshal]; exact np_ok
  | .bool _, ty => by cases ty <;> simp [unmarshal, Sat]
  | .int _, ty => by
    cases ty <;> simp only [unmarshal] <;> first | exact np_err | exact (unmarshalNumber_np _).map
  | .uint _, ty => by
    cases ty <;> simp only [unmarshal] <;> first | exact np_err | exact (unmarshalNumber_np _).map
  | .f32 _, ty => by
    cases ty <;> simp only [unmarshal] <;> first | exact np_err | exact (unmarshalNumber_np _).map
  | .f64 _, ty => by
    cases ty <;> simp only [unmarshal] <;> first | exact np_err | exact (unmarshalNumber_np _).map
  | .fnan, ty => by
    cases ty <;> simp only [unmarshal] <;> first | exact np_err | exact (unmarshalNumber_np _).map
  | .str s, ty => by
    cases ty <;> simp only [unmarshal] <;> first
      | exact np_err
      | exact (unmarshalNumber_np _).map
      | (simp [decString, Sat])
  | .bin b, ty => by
    cases ty <;> simp only [unmarshal] <;> first
      | exact np_err
      | exact (unmarshalNumber_np _).map
      | (have := decString_np (.bin b); split <;> simp_all [Sat])
  | .binj j, ty => by
    cases ty <;> simp only [unmarshal] <;> first
      | exact np_err
      | exact (unmarshalNumber_np _).map
      | (simp [decString, Sat])
  | .arr xs, ty => by
    cases ty with
    | dyn => exact unmarshalArrDyn_np xs
    | list e =>
      simp only [unmarshal]
      split
      · exact np_ok
      · exact (unmarshalAll_np xs e).bind listVal_np
    | set e =>
      simp only [unmarshal]
      split
      · exact np_ok
      · exact (unmarshalAll_np xs e).bind (setVal_np hs)
    | tuple es =>
      simp only [unmarshal]
      split
      · exact np_err
      · split
        · exact np_ok
        · exact (unmarshalZip_np xs es).map
    | _ => simp [unmarshal, Sat]
  | .map ks vs, ty => by
    cases ty with
    | map e =>
      simp only [unmarshal]
      split
      · exact np_ok
      · exact (unmarshalEntries_np ks vs e [] []).bind (fun r => mapVal_np E _ _)
    | object ns ts os =>
      simp only [unmarshal]
      split
      · exact np_err
      · split
        · exact np_ok
        · exact (unmarshalAttrs_np ks vs ns ts os [] []).bind (fun r => objectVal_np E _ _)
    | _ => simp [unmarshal, Sat]
theorem unmarshalArrDyn_np : ∀ xs : List Item, NP (unmarshal E (.arr xs) .dyn)
  | [] => by simp [unmarshal, Sat]
  | [_] => by simp [unmarshal, Sat]
  | _ :: _ :: _ :: _ => by simp [unmarshal, Sat]
  | [tj, body] => by
    have hb := fun t => unmarshal_np body t
    cases tj with
    | binj j =>
      simp only [unmarshal]
      have h := typeOfJson_np E j
      cases hr : typeOfJson E j with
      | ok t => simp only []; exact hb _
      | err c => exact np_err
      | panic w => rw [hr] at h; exact absurd h id
      | unmodelled => exact np_unm
    | _ => simp [unmarshal, Sat]
theorem unmarshalAll_np : ∀ (xs : List Item) (e : Ty), NP (unmarshalAll E xs e)
  | [], _ => by simp [unmarshalAll, Sat]
  | x :: xs, e => by
    simp only [unmarshalAll]
    have h := unmarshal_np x e
    split
    · exact (unmarshalAll_np xs e).map
    · exact np_err
    · rename_i w hw; rw [hw] at h; exact absurd h id
    · exact np_unm
theorem unmarshalZip_np : ∀ (xs : List Item) (es : List Ty), NP (unmarshalZip E xs es)
  | [], _ => by simp [unmarshalZip, Sat]
  | _ :: _, [] => by simp [unmarshalZip, Sat]
  | x :: xs, e :: es => by
    simp only [unmarshalZip]
    have h := unmarshal_np x e
    split
    · exact (unmarshalZip_np xs es).map
    · exact np_err
    · rename_i w hw; rw [hw] at h; exact absurd h id
    · exact np_unm
theorem unmarshalEntries_np : ∀ (ks vs : List Item) (e : Ty) (accK : List String) (accV : List Value),
    NP (unmarshalEntries E ks vs e accK accV)
  | [], _, _, _, _ => by simp [unmarshalEntries, Sat]
  | _ :: _, [], _, _, _ => by simp [unmarshalEntries, Sat]
  | k :: ks, v :: vs, e, accK, accV => by
    simp only [unmarshalEntries]
    have hk := decString_np k
    split
    · have h := unmarshal_np v e
      split
      · exact unmarshalEntries_np ks vs e _ _
      · exact np_err
      · rename_i w hw; rw [hw] at h; exact absurd h id
      · exact np_unm
    · exact np_unm
    · exact np_err
    · rename_i w hw; exact absurd hw (hk w)
    · exact np_unm
theorem unmarshalAttrs_np : ∀ (ks vs : List Item) (ns : List String) (ts : List Ty) (os : List Bool)
    (accK : List String) (accV : List Value), NP (unmarshalAttrs E ks vs ns ts os accK accV)
  | [], _, _, _, _, _, _ => by simp [unmarshalAttrs, Sat]
  | _ :: _, [], _, _, _, _, _ => by simp [unmarshalAttrs, Sat]
  | k :: ks, v :: vs, ns, ts, os, accK, accV => by
    simp only [unmarshalAttrs]
    have hk := decString_np k
    split
    · split
      · exact np_err
      · rename_i aty _ _
        split
        · exact np_err
        · have h := unmarshal_np v aty
          split
          · exact unmarshalAttrs_np ks vs ns ts os _ _
          · exact np_err
          · rename_i w hw; rw [hw] at h; exact absurd h id
          · exact np_unm
    · exact np_err
    · rename_i w hw; exact absurd hw (hk w)
    · exact np_unm
end

/-- the exported `Unmarshal` -/
theorem Unmarshal_np (it : Item) (ty : Ty) : NP (Unmarshal E it ty) := unmarshal_np E hs it _

end

/-! ### `ImpliedType` -/

mutual
theorem impliedType_np (E : Ext) : ∀ it : Item, NP (impliedType E it)
  | .nil | .ext _ _ _ _ | .bool _ | .int _ | .uint _ | .f32 _ | .f64 _ | .fnan | .str _ | .bin _ | .binj _ => by
    simp [impliedType, Sat]
  | .arr xs => by
    simp only [impliedType]
    split
    · exact np_ok
    · exact (impliedAll_np E xs).map
  | .map ks vs => by
    simp only [impliedType]
    refine (impliedAttrs_np E ks vs [] []).bind (fun r => ?_)
    split
    · exact np_unm
    · exact np_ok
theorem impliedAll_np (E : Ext) : ∀ xs : List Item, NP (impliedAll E xs)
  | [] => by simp [impliedAll, Sat]
  | x :: xs => by
    simp only [impliedAll]
    have h := impliedType_np E x
    split
    · exact (impliedAll_np E xs).map
    · exact np_err
    · rename_i w hw; rw [hw] at h; exact absurd h id
    · exact np_unm
theorem impliedAttrs_np (E : Ext) : ∀ (ks vs : List Item) (accK : List String) (accT : List Ty),
    NP (impliedAttrs E ks vs accK accT)
  | [], _, _, _ => by simp [impliedAttrs, Sat]
  | _ :: _, [], _, _ => by simp [impliedAttrs, Sat]
  | k :: ks, v :: vs, accK, accT => by
    simp only [impliedAttrs]
    have hk := decString_np k
    split
    · have h := impliedType_np E v
      split
      · exact impliedAttrs_np E ks vs _ _
      · exact np_err
      · rename_i w hw; rw [hw] at h; exact absurd h id
      · exact np_unm
    · exact np_unm
    · exact np_err
    · rename_i w hw; exact absurd hw (hk w)
    · exact np_unm
end

end D17
end CtyModel
