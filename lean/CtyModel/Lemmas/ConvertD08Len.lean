/-
Conversions to list and map types keep the number of elements: the converted collection has
exactly as many members as the source collection / tuple / object (sets may coalesce members
and are not covered here).  Used by the `Covers` statement of unknown soundness for collection
targets (`ConvertD08CoversColl.lean`), and a clause of the property in its own right.
-/
import CtyModel.Lemmas.ConvertD08WT
set_option linter.unusedSimpArgs false
namespace CtyModel
namespace Convert
open Ty

/-- number of members of a known collection / tuple / object payload -/
def srcLen (p : Payload) : Nat :=
  match p with
  | .seq ps | .smap _ ps | .sset _ ps => ps.length
  | _ => 0

/-- the payload is a sequence (list) / a string-keyed map of `n` members -/
def isSeqOf (n : Nat) (p : Payload) : Prop := ∃ xs, p = .seq xs ∧ xs.length = n
def isMapOf (n : Nat) (p : Payload) : Prop := ∃ ks xs, p = .smap ks xs ∧ xs.length = n

theorem listVal_shape {vs : List Value} {r : Value} (hr : listVal vs = .ok r) : isSeqOf vs.length r.v := by
  unfold listVal at hr
  split at hr
  · simp at hr
  · split at hr
    · simp at hr
    · simp at hr; subst hr; exact ⟨_, rfl, by simp⟩

theorem mapVal_shape {ks : List String} {vs : List Value} {r : Value} (hr : mapVal ks vs = .ok r) :
    isMapOf vs.length r.v := by
  unfold mapVal at hr
  split at hr
  · simp at hr
  · split at hr
    · simp at hr
    · simp at hr; subst hr; exact ⟨_, _, rfl, by simp⟩

theorem setValues_length (E : Env) (e : Ty) (ps : List Payload) : (setValues E e ps).length = ps.length := by
  unfold setValues
  have ins : ∀ (lt : Payload → Payload → Bool) (x : Payload) (l : List Payload),
      (insertSorted lt x l).length = l.length + 1 := by
    intro lt x l
    induction l with
    | nil => rfl
    | cons y ys ih => simp only [insertSorted]; split <;> simp [ih]
  have fold : ∀ (ps acc : List Payload),
      (ps.foldl (fun acc x => insertSorted (E.less e) x acc) acc).length = acc.length + ps.length := by
    intro ps
    induction ps with
    | nil => intro acc; simp
    | cons p ps ih => intro acc; simp only [List.foldl, ih, ins]; simp; omega
  simpa using fold ps []

theorem applyZip_length {rec : Rec} {post : Value → Value} : ∀ {cs : List Plan} {vs es' : List Value},
    applyZip rec post cs vs = .ok es' → es'.length = vs.length
  | _, [], es', h => by cases ‹List Plan› <;> (simp [applyZip] at h; subst h; rfl)
  | [], _ :: _, _, h => by simp [applyZip] at h
  | c :: cs, v :: vs, es', h => by
    simp only [applyZip] at h
    obtain ⟨v', _, h⟩ := Res.bind_eq_ok h
    obtain ⟨vs', hvs', h⟩ := Res.bind_eq_ok h
    simp at h; subst h
    simp [applyZip_length hvs']

section Bodies
variable {E : Env} (hU : UnifyLaws E) {rec : Rec} (hrec : RecOK E rec)
include hU hrec

theorem collToList_shape {uns : Bool} {ie oe conv} {v r : Value} {es : List Value}
    (hpf : PlanFor E uns ie oe conv) (hwi : wf ie = true) (hoi : hasOpt ie = false)
    (hwo : wf oe = true) (hdo : hasDyn oe = false) (hlk : lengthKnown v = true)
    (hes : elemsOf E v = .ok es) (hel : ∀ e ∈ es, e.ty = ie ∧ wtP ie e.v = true)
    (h : applyStep E rec (.collToList oe conv) v = .ok r) : isSeqOf es.length r.v := by
  have hnd : oe.isDyn = false := not_isDyn_of_noDyn hdo
  simp only [applyStep, hnd, hdo, hlk, Bool.not_true, Bool.false_eq_true, if_false, hes, Res.bind] at h
  obtain ⟨es', hes', h⟩ := Res.bind_eq_ok h
  have hm := converted_members hU hrec (post := stripNull) (fun _ hv => stripNull_ty' hv)
    hpf hwi hoi hwo hdo hel hes'
  split at h
  · rename_i hemp
    have h0 : es' = [] := by simpa using hemp
    simp at h; subst h
    rw [h0] at hm
    exact ⟨[], rfl, by simpa using hm.1⟩
  · rename_i hne
    have hne' : es' ≠ [] := by simpa using hne
    have hT := wf_stripOpt oe hwo
    have hTd : (stripOpt oe).isDyn = false := not_isDyn_of_noDyn (by rw [stripOpt_hasDyn]; exact hdo)
    simp only [canCollVal_same hT hTd hne' hm.2] at h
    have := listVal_shape h
    rw [hm.1] at this
    exact this

theorem collToMap_shape {uns : Bool} {ie oe conv} {ks : List String} {ps : List Payload} {r : Value}
    (hpf : PlanFor E uns ie oe conv) (hwi : wf ie = true) (hoi : hasOpt ie = false)
    (hwo : wf oe = true) (hdo : hasDyn oe = false) (hps : wtAll ie ps = true)
    (h : applyStep E rec (.collToMap oe conv) ⟨.map ie, .smap ks ps⟩ = .ok r) : isMapOf ps.length r.v := by
  have hnd : oe.isDyn = false := not_isDyn_of_noDyn hdo
  simp only [applyStep, hnd, hdo, elemsOf, keysOf] at h
  obtain ⟨es, hes, h⟩ := Res.bind_eq_ok h
  simp at hes; subst hes
  obtain ⟨es', hes', h⟩ := Res.bind_eq_ok h
  have hes'' : mapRes (fun e => (applyOpt rec conv e).map id) (ps.map fun p => (⟨ie, p⟩ : Value)) = .ok es' := by
    have : (fun e => (applyOpt rec conv e).map id) = fun e => applyOpt rec conv e := by
      funext e; cases applyOpt rec conv e <;> rfl
    rw [this]; exact hes'
  have hel : ∀ e ∈ ps.map (fun p => (⟨ie, p⟩ : Value)), e.ty = ie ∧ wtP ie e.v = true := by
    intro e he
    obtain ⟨p, hp, rfl⟩ := List.mem_map.mp he
    exact ⟨rfl, wtAll_mem hps p hp⟩
  have hm := converted_members hU hrec (post := id) (fun _ hv => hv) hpf hwi hoi hwo hdo hel hes''
  split at h
  · rename_i hemp
    have h0 : es' = [] := by simpa using hemp
    simp at h; subst h
    rw [h0] at hm
    exact ⟨[], [], rfl, by simpa using hm.1⟩
  · rename_i hne
    have hne' : es' ≠ [] := by simpa using hne
    have hT := wf_stripOpt oe hwo
    have hTo := stripOpt_noOpt oe
    have hTd : (stripOpt oe).isDyn = false := not_isDyn_of_noDyn (by rw [stripOpt_hasDyn]; exact hdo)
    have hun : (if isCollOrObj oe = true then unifyElems E rec false es' else Res.ok es') = .ok es' := by
      split
      · exact unifyElems_same hU hT hTo hne' hm.2
      · rfl
    rw [hun] at h
    simp only [Res.bind, canCollVal_same hT hTd hne' hm.2] at h
    have := mapVal_shape h
    rw [hm.1] at this
    simpa using this

theorem tupToList_shape {uns : Bool} {its : List Ty} {oe : Ty} {cs : List Plan} {ps : List Payload} {r : Value}
    (hpl : All2 (fun it p => PlanFor E uns it oe p) its cs) (hne : its ≠ []) (hw : wtZip its ps = true)
    (hall : ∀ it ∈ its, wf it = true ∧ hasOpt it = false)
    (hwo : wf oe = true) (hdo : hasDyn oe = false)
    (h : applyStep E rec (.tupToList cs uns) ⟨.tuple its, .seq ps⟩ = .ok r) : isSeqOf ps.length r.v := by
  simp only [applyStep, elemsOf] at h
  obtain ⟨es, hes, h⟩ := Res.bind_eq_ok h
  simp at hes; subst hes
  obtain ⟨es', hes', h⟩ := Res.bind_eq_ok h
  have hm := applyZip_all hrec id (fun _ hv => hv) hwo hdo its cs ps es' hpl hw hall hes'
  have hne' : es' ≠ [] := by
    intro he; rw [he] at hm
    have h0 := hm.1
    simp at h0
    exact hne (List.length_eq_zero_iff.mp h0.symm)
  have hT := wf_stripOpt oe hwo
  have hTd : (stripOpt oe).isDyn = false := not_isDyn_of_noDyn (by rw [stripOpt_hasDyn]; exact hdo)
  rw [unifyElems_same hU hT (stripOpt_noOpt oe) hne' hm.2] at h
  simp only [Res.bind, canCollVal_same hT hTd hne' hm.2] at h
  have := listVal_shape h
  rw [hm.1, wtZip_length hw] at this
  exact this

theorem objToMap_shape {uns : Bool} {inn : List String} {its : List Ty} {ios : List Bool} {oe : Ty}
    {cs : List Plan} {ps : List Payload} {r : Value}
    (hpl : All2 (fun it p => PlanFor E uns it oe p) its cs) (hne : its ≠ []) (hw : wtZip its ps = true)
    (hnd : inn.Nodup) (hln : inn.length = its.length)
    (hall : ∀ it ∈ its, wf it = true ∧ hasOpt it = false)
    (hwo : wf oe = true) (hdo : hasDyn oe = false)
    (h : applyStep E rec (.objToMap inn cs oe uns) ⟨.object inn its ios, .smap inn ps⟩ = .ok r) :
    isMapOf ps.length r.v := by
  simp only [applyStep, elemsOf, keysOf] at h
  obtain ⟨es, hes, h⟩ := Res.bind_eq_ok h
  simp at hes; subst hes
  have hlc : inn.length = cs.length := by rw [hln]; exact hpl.length
  have hself := lookup_map_self [] [] inn cs rfl hlc (by simp) hnd
  simp only [List.nil_append] at hself
  rw [hself] at h
  obtain ⟨es', hes', h⟩ := Res.bind_eq_ok h
  have hm := applyZip_all hrec id (fun _ hv => hv) hwo hdo its cs ps es' hpl hw hall hes'
  have hne' : es' ≠ [] := by
    intro he; rw [he] at hm
    have h0 := hm.1
    simp at h0
    exact hne (List.length_eq_zero_iff.mp h0.symm)
  have hT := wf_stripOpt oe hwo
  have hTd : (stripOpt oe).isDyn = false := not_isDyn_of_noDyn (by rw [stripOpt_hasDyn]; exact hdo)
  have hun : (if isCollOrObj oe = true then unifyElems E rec uns es' else Res.ok es') = .ok es' := by
    split
    · exact unifyElems_same hU hT (stripOpt_noOpt oe) hne' hm.2
    · rfl
  rw [hun] at h
  simp only [Res.bind, canCollVal_same hT hTd hne' hm.2] at h
  have := mapVal_shape h
  rw [hm.1, wtZip_length hw] at this
  exact this

end Bodies

/-! ### every closure body with a list or map target -/

theorem inner_len {E : Env} (hU : UnifyLaws E) {rec : Rec} (hrec : RecOK E rec)
    (inT out : Ty) (uns : Bool) (c : Plan) (v r : Value) (hg : gck E inT out uns = some c)
    (hc : Conds inT out v) (hp : plain v.v) (hlk : lengthKnown v = true)
    (h : applyStep E rec c v = .ok r) :
    (∀ oe, out = .list oe → isSeqOf (srcLen v.v) r.v) ∧ (∀ oe, out = .map oe → isMapOf (srcLen v.v) r.v) := by
  obtain ⟨hty, hwI, hwO, hoI, hdO, hwt'⟩ := hc
  obtain ⟨vt, vp⟩ := v
  simp only at hty hwt' hp
  subst hty
  have hid : vt.isDyn = false := by
    cases vt <;> simp [Ty.isDyn]
    exact (shape_prim_dyn hp hwt').elim
  refine ⟨?_, ?_⟩
  · intro oe ho
    subst ho
    have hwo : wf oe = true := by simpa [wf] using hwO
    have hdo : hasDyn oe = false := by simpa [hasDyn] using hdO
    cases vt <;> simp [gck, Ty.isDyn, isPrim] at hg hid
    case list ie =>
      have hwi : wf ie = true := by simpa [wf] using hwI
      have hoi : hasOpt ie = false := by simpa [hasOpt] using hoI
      obtain ⟨ps, rfl, hps⟩ := shape_list hp hwt'
      have hpf : ∃ conv, c = .collToList oe conv ∧ PlanFor E uns ie oe conv := by
        split at hg
        · rename_i he; simp at hg; exact ⟨.nil, hg.symm, .inl ⟨rfl, he⟩⟩
        · obtain ⟨c', hc', rfl⟩ := Option.map_eq_some_iff.mp hg
          exact ⟨_, rfl, .inr ⟨c', rfl, hc'⟩⟩
      obtain ⟨conv, rfl, hpf⟩ := hpf
      have := collToList_shape hU hrec (es := ps.map fun p => ⟨ie, p⟩) hpf hwi hoi hwo hdo hlk rfl (by
        intro e he
        obtain ⟨p, hpm, rfl⟩ := List.mem_map.mp he
        exact ⟨rfl, wtAll_mem hps p hpm⟩) h
      simpa [srcLen] using this
    case set ie =>
      have hwi : wf ie = true := by simpa [wf] using hwI
      have hoi : hasOpt ie = false := by simpa [hasOpt] using hoI
      obtain ⟨ids, ps, rfl, hps⟩ := shape_set hp hwt'
      have hpf : ∃ conv, c = .collToList oe conv ∧ PlanFor E uns ie oe conv := by
        split at hg
        · rename_i he; simp at hg; exact ⟨.nil, hg.symm, .inl ⟨rfl, he⟩⟩
        · obtain ⟨c', hc', rfl⟩ := Option.map_eq_some_iff.mp hg
          exact ⟨_, rfl, .inr ⟨c', rfl, hc'⟩⟩
      obtain ⟨conv, rfl, hpf⟩ := hpf
      have := collToList_shape hU hrec (es := (setValues E ie ps).map fun p => ⟨ie, p⟩) hpf hwi hoi hwo hdo hlk rfl
        (by
          intro e he
          obtain ⟨p, hpm, rfl⟩ := List.mem_map.mp he
          exact ⟨rfl, wtAll_mem hps p (setValues_mem hpm)⟩) h
      simpa [srcLen, setValues_length] using this
    case tuple its =>
      have hwi : wfL its = true := by simpa [wf] using hwI
      have hoi : hasOptL its = false := by simpa [hasOpt] using hoI
      obtain ⟨ps, rfl, hps⟩ := shape_tuple hp hwt'
      split at hg
      · rename_i hemp
        have h0 : its = [] := by simpa using hemp
        subst h0
        have hps0 : ps = [] := by cases ps <;> simp [wtZip] at hps ⊢
        subst hps0
        simp at hg; subst hg
        simp only [applyStep] at h
        simp at h; subst h
        exact ⟨[], rfl, rfl⟩
      · rename_i hne
        have hnd : oe.isDyn = false := not_isDyn_of_noDyn hdo
        simp only [seqTargetEty, hnd] at hg
        obtain ⟨cs, hcs, rfl⟩ := Option.map_eq_some_iff.mp hg
        have hpl := gcAll_inv E uns oe hcs
        have := tupToList_shape hU hrec hpl (by simpa using hne) hps
          (fun it hit => ⟨wfL_mem hwi it hit, hasOptL_mem hoi it hit⟩) hwo hdo h
        simpa [srcLen] using this
  · intro oe ho
    subst ho
    have hwo : wf oe = true := by simpa [wf] using hwO
    have hdo : hasDyn oe = false := by simpa [hasDyn] using hdO
    cases vt <;> simp [gck, Ty.isDyn, isPrim] at hg hid
    case map ie =>
      have hwi : wf ie = true := by simpa [wf] using hwI
      have hoi : hasOpt ie = false := by simpa [hasOpt] using hoI
      obtain ⟨ks, ps, rfl, hlen, hps⟩ := shape_map hp hwt'
      obtain ⟨c', hc', rfl⟩ := hg
      have := collToMap_shape hU hrec (.inr ⟨c', rfl, hc'⟩) hwi hoi hwo hdo hps h
      simpa [srcLen] using this
    case object inn its ios =>
      have hwi : wfL its = true := by
        simp only [wf, Bool.and_eq_true] at hwI; exact hwI.2
      have hoi : hasOptL its = false := by
        simp only [hasOpt, Bool.or_eq_false_iff] at hoI; exact hoI.2
      obtain ⟨ps, rfl, hps⟩ := shape_object hp hwt'
      split at hg
      · rename_i hemp
        have h0 : its = [] := by simpa using hemp
        subst h0
        have hps0 : ps = [] := by cases ps <;> simp [wtZip] at hps ⊢
        subst hps0
        simp at hg; subst hg
        simp only [applyStep] at h
        simp at h; subst h
        exact ⟨[], [], rfl, rfl⟩
      · rename_i hne
        have hnd : oe.isDyn = false := not_isDyn_of_noDyn hdo
        simp only [mapTargetEty, hnd] at hg
        obtain ⟨cs, hcs, rfl⟩ := Option.map_eq_some_iff.mp hg
        have hpl := gcAll_inv E uns oe hcs
        simp only [wf, Bool.and_eq_true, beq_iff_eq] at hwI
        have := objToMap_shape hU hrec hpl (by simpa using hne) hps (strictAsc_nodup hwI.1.2) hwI.1.1.1
          (fun it hit => ⟨wfL_mem hwi it hit, hasOptL_mem hoi it hit⟩) hwo hdo h
        simpa [srcLen] using this

/-- **Conversions to a list / map type keep the number of elements**: an unmarked, known, non-null
value whose sets (if it is one) have a known length, converted by a conversion `GetConversion*`
returns, gives a list / map with exactly as many members as the value has. -/
theorem apply_len {E : Env} (hU : UnifyLaws E) {v r : Value} {want : Ty} {uns : Bool} {p : Plan} {fuel : Nat}
    (hp : RegularPair v want) (hg : getConv E v.ty want uns = some p)
    (hm : v.isMarked = false) (hk : v.isKnown = true) (hn : v.isNull = false) (hlk : lengthKnown v = true)
    (h : apply E fuel p v = .ok r) :
    (∀ oe, want = .list oe → isSeqOf (srcLen v.v) r.v) ∧ (∀ oe, want = .map oe → isMapOf (srcLen v.v) r.v) := by
  obtain ⟨c, hc, rfl⟩ := Option.map_eq_some_iff.mp hg
  have hnd : want.isDyn = false := not_isDyn_of_noDyn hp.noDyn
  cases fuel with
  | zero => simp [apply] at h
  | succ n =>
    simp only [apply, applyStep, hm, hnd, hk, hn, Bool.false_eq_true, if_false, Bool.not_true, Bool.or_self] at h
    cases n with
    | zero => simp [apply] at h
    | succ m =>
      simp only [apply] at h
      exact inner_len hU (recOK_apply hU m) v.ty want uns c v r hc hp.conds ⟨hm, hk, hn⟩ hlk h

end Convert
end CtyModel
