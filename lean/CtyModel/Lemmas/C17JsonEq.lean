/-
C17 (JSON half) — `Value.Equals` never panics on the kind of operands the JSON decoder hands to
the set constructor: payloads that have the shape their type dictates, are wholly known and
carry no marks.  (Sets of sets included: `Lemmas/ValEqEquals.lean` computes `Equals` on
set-free types; here only the absence of a panic is needed, for every type.)

`cty.SetVal` compares members with `Equals` (set rules `Equivalent`); the two panics of the
model of `Equals` — "payload does not match type" and a number comparison on a non-number —
need an ill-shaped or unknown operand.
-/
import CtyModel.Lemmas.ValEqEquals
import CtyModel.Lemmas.JsonValRT
namespace CtyModel
namespace C17Json
open Value

/-- an operand as the decoder builds them -/
structure Dec (t : Ty) (p : Payload) : Prop where
  shaped : p.shaped t = true
  known : p.whollyKnown = true
  clean : p.containsMarked = false

def DecAll (e : Ty) (xs : List Payload) : Prop := ∀ x ∈ xs, Dec e x

def DecZip : List Ty → List Payload → Prop
  | [], [] => True
  | t :: ts, x :: xs => Dec t x ∧ DecZip ts xs
  | _, _ => False

theorem decAll_of {e : Ty} : ∀ {xs : List Payload}, Payload.shapedAll e xs = true →
    Payload.whollyKnownL xs = true → Payload.containsMarkedL xs = false → DecAll e xs
  | [], _, _, _ => by intro x hx; simp at hx
  | x :: xs, hs, hk, hm => by
    simp only [Payload.shapedAll, Payload.whollyKnownL, Payload.containsMarkedL, Bool.and_eq_true,
      Bool.or_eq_false_iff] at hs hk hm
    intro y hy
    rcases List.mem_cons.mp hy with rfl | hy
    · exact ⟨hs.1, hk.1, hm.1⟩
    · exact decAll_of hs.2 hk.2 hm.2 y hy

theorem decZip_of : ∀ {ts : List Ty} {xs : List Payload}, Payload.shapedZip ts xs = true →
    Payload.whollyKnownL xs = true → Payload.containsMarkedL xs = false → DecZip ts xs
  | [], [], _, _, _ => trivial
  | [], _ :: _, hs, _, _ => by simp [Payload.shapedZip] at hs
  | _ :: _, [], hs, _, _ => by simp [Payload.shapedZip] at hs
  | t :: ts, x :: xs, hs, hk, hm => by
    simp only [Payload.shapedZip, Payload.whollyKnownL, Payload.containsMarkedL, Bool.and_eq_true,
      Bool.or_eq_false_iff] at hs hk hm
    exact ⟨⟨hs.1, hk.1, hm.1⟩, decZip_of hs.2 hk.2 hm.2⟩

/-- the recursive occurrence of `Equals` does not panic on decoder-built operands -/
def NPRec (rec : EqRec) : Prop := ∀ t x y, Dec t x → Dec t y → ∀ w, rec t x t y ≠ .panic w

theorem eqAccOf_np {r : Res Value} (h : ∀ w, r ≠ .panic w) : ∀ w, eqAccOf r ≠ .panic w := by
  intro w
  cases r with
  | ok v => simp only [eqAccOf]; split <;> (try split) <;> simp
  | panic w' => exact absurd rfl (h w')
  | _ => simp [eqAccOf]

theorem equalsZip_np {rec : EqRec} (hr : NPRec rec) : ∀ (ts : List Ty) (xs ys : List Payload),
    DecZip ts xs → DecZip ts ys → ∀ w, equalsZip rec ts xs ys ≠ .panic w
  | [], _, _, _, _, w => by simp [equalsZip]
  | _ :: _, [], _, _, _, w => by simp [equalsZip]
  | _ :: _, _ :: _, [], _, _, w => by simp [equalsZip]
  | t :: ts, x :: xs, y :: ys, hx, hy, w => by
    simp only [equalsZip]
    have h1 := eqAccOf_np (hr t x y hx.1 hy.1)
    cases he : eqAccOf (rec t x t y) with
    | ok a => cases a <;> simp only [] <;> first | exact equalsZip_np hr ts xs ys hx.2 hy.2 w | simp
    | panic w' => exact absurd he (h1 w')
    | _ => simp

theorem equalsObj_np {rec : EqRec} (hr : NPRec rec) : ∀ (ts : List Ty) (xs ys : List Payload) (u : Bool),
    DecZip ts xs → DecZip ts ys → ∀ w, equalsObj rec ts xs ys u ≠ .panic w
  | [], _, _, _, _, _, w => by simp [equalsObj]
  | _ :: _, [], _, _, _, _, w => by simp [equalsObj]
  | _ :: _, _ :: _, [], _, _, _, w => by simp [equalsObj]
  | t :: ts, x :: xs, y :: ys, u, hx, hy, w => by
    simp only [equalsObj]
    have h1 := eqAccOf_np (hr t x y hx.1 hy.1)
    cases he : eqAccOf (rec t x t y) with
    | ok a => cases a <;> simp only [] <;> first | exact equalsObj_np hr ts xs ys _ hx.2 hy.2 w | simp
    | panic w' => exact absurd he (h1 w')
    | _ => simp

theorem equalsAll_np {rec : EqRec} (hr : NPRec rec) (e : Ty) : ∀ (xs ys : List Payload),
    DecAll e xs → DecAll e ys → ∀ w, equalsAll rec e xs ys ≠ .panic w
  | [], _, _, _, w => by simp [equalsAll]
  | _ :: _, [], _, _, w => by simp [equalsAll]
  | x :: xs, y :: ys, hx, hy, w => by
    simp only [equalsAll]
    have h1 := eqAccOf_np (hr e x y (hx x (by simp)) (hy y (by simp)))
    have hx' : DecAll e xs := fun z hz => hx z (by simp [hz])
    have hy' : DecAll e ys := fun z hz => hy z (by simp [hz])
    cases he : eqAccOf (rec e x e y) with
    | ok a => cases a <;> simp only [] <;> first | exact equalsAll_np hr e xs ys hx' hy' w | simp
    | panic w' => exact absurd he (h1 w')
    | _ => simp

theorem lookupKey_mem {k : String} : ∀ {ks : List String} {vs : List Payload} {y : Payload},
    lookupKey k ks vs = some y → y ∈ vs
  | [], _, _, h => by simp [lookupKey] at h
  | _ :: _, [], _, h => by simp [lookupKey] at h
  | n :: ns, v :: vs, y, h => by
    simp only [lookupKey] at h
    split at h
    · simp at h; simp [h]
    · exact List.mem_cons_of_mem _ (lookupKey_mem h)

theorem equalsMap_np {rec : EqRec} (hr : NPRec rec) (e : Ty) : ∀ (ks : List String) (xs : List Payload)
    (ky : List String) (ys : List Payload) (u : Bool),
    DecAll e xs → DecAll e ys → ∀ w, equalsMap rec e ks xs ky ys u ≠ .panic w
  | [], _, _, _, _, _, _, w => by simp [equalsMap]
  | _ :: _, [], _, _, _, _, _, w => by simp [equalsMap]
  | k :: ks, x :: xs, ky, ys, u, hx, hy, w => by
    simp only [equalsMap]
    have hx' : DecAll e xs := fun z hz => hx z (by simp [hz])
    cases hl : lookupKey k ky ys with
    | none => simp
    | some y =>
      simp only []
      have h1 := eqAccOf_np (hr e x y (hx x (by simp)) (hy y (lookupKey_mem hl)))
      cases he : eqAccOf (rec e x e y) with
      | ok a => cases a <;> simp only [] <;> first | exact equalsMap_np hr e ks xs ky ys _ hx' hy w | simp
      | panic w' => exact absurd he (h1 w')
      | _ => simp

theorem setHas_np {rec : EqRec} (hr : NPRec rec) (e : Ty) (i : Int) (x : Payload) (hx : Dec e x) :
    ∀ (js : List Int) (ys : List Payload), DecAll e ys → ∀ w, setHas rec e i x js ys ≠ .panic w
  | [], _, _, w => by simp [setHas]
  | _ :: _, [], _, w => by simp [setHas]
  | j :: js, y :: ys, hy, w => by
    simp only [setHas]
    have hy' : DecAll e ys := fun z hz => hy z (by simp [hz])
    split
    · have h1 := hr e x y hx (hy y (by simp))
      cases he : rec e x e y with
      | ok v => simp only []; split <;> first | exact setHas_np hr e i x hx js ys hy' w | simp
      | panic w' => exact absurd he (h1 w')
      | _ => simp
    · exact setHas_np hr e i x hx js ys hy' w

theorem setInclWK_np {rec : EqRec} (hr : NPRec rec) (e : Ty) : ∀ (is : List Int) (xs : List Payload)
    (iy : List Int) (ys : List Payload), DecAll e xs → DecAll e ys → ∀ w, setInclWK rec e is xs iy ys ≠ .panic w
  | [], _, _, _, _, _, w => by simp [setInclWK]
  | _ :: _, [], _, _, _, _, w => by simp [setInclWK]
  | i :: is, x :: xs, iy, ys, hx, hy, w => by
    simp only [setInclWK]
    have hx' : DecAll e xs := fun z hz => hx z (by simp [hz])
    split
    · simp
    · have h1 := setHas_np hr e i x (hx x (by simp)) iy ys hy
      have h2 := setInclWK_np hr e is xs iy ys hx' hy
      cases he : setHas rec e i x iy ys with
      | ok h =>
        simp only []
        cases hi : setInclWK rec e is xs iy ys with
        | ok o => cases o <;> simp
        | panic w' => exact absurd hi (h2 w')
        | _ => simp
      | panic w' => exact absurd he (h1 w')
      | _ => simp

theorem map_np {α β} {r : Res α} {f : α → β} (h : ∀ w, r ≠ .panic w) : ∀ w, r.map f ≠ .panic w := by
  intro w; cases r with
  | panic w' => exact absurd rfl (h w')
  | _ => simp [Res.map]

/-- `Equals` on decoder-built operands of one type never panics, at any depth, for every type -/
theorem equalsFuel_np : ∀ fuel : Nat, NPRec (equalsFuel fuel)
  | 0 => by intro t x y _ _ w; simp [equalsFuel]
  | fuel + 1 => by
    have ih := equalsFuel_np fuel
    intro t x y hx hy w
    obtain ⟨sx, kx, cx⟩ := hx
    obtain ⟨sy, ky, cy⟩ := hy
    have ikx := JsonVal.isKnown_of_whollyKnown kx (JsonVal.isMarked_of_containsMarked cx)
    have iky := JsonVal.isKnown_of_whollyKnown ky (JsonVal.isMarked_of_containsMarked cy)
    simp only [equalsFuel]
    rw [equalsPre_of_known _ _ _ _ ikx iky]
    by_cases nx : x.isNull = true
    · by_cases ny : y.isNull = true <;> simp [nx, ny]
    by_cases ny : y.isNull = true
    · simp [nx, ny]
    simp only [nx, ny, Bool.false_and, Bool.or_self, Bool.false_eq_true, if_false]
    by_cases hwk : (!hasWhollyKnownType t x || !hasWhollyKnownType t y) = true
    · simp only [hwk, if_true]; split <;> simp
    by_cases hte : (!t.equals t) = true
    · simp [hwk, hte]
    simp only [hwk, hte, Bool.false_eq_true, if_false]
    -- the structural comparison: the payload constructors are those the type dictates
    cases x with
    | null => simp [Payload.isNull, Payload.unmark1] at nx
    | unk _ => simp [Payload.whollyKnown] at kx
    | marked _ _ => simp [Payload.containsMarked] at cx
    | bad _ => simp [Payload.shaped] at sx
    | b _ =>
      cases t <;> simp [Payload.shaped, Ty.isBool] at sx
      cases y <;> simp [Payload.shaped, Ty.isBool, Ty.isNumber, Ty.isString, Payload.whollyKnown,
        Payload.containsMarked, Payload.isNull, Payload.unmark1] at sy ky cy ny ⊢
    | n _ =>
      cases t <;> simp [Payload.shaped, Ty.isNumber] at sx
      cases y <;> simp [Payload.shaped, Ty.isBool, Ty.isNumber, Ty.isString, Payload.whollyKnown,
        Payload.containsMarked, Payload.isNull, Payload.unmark1] at sy ky cy ny ⊢
    | s _ =>
      cases t <;> simp [Payload.shaped, Ty.isString] at sx
      cases y <;> simp [Payload.shaped, Ty.isBool, Ty.isNumber, Ty.isString, Payload.whollyKnown,
        Payload.containsMarked, Payload.isNull, Payload.unmark1] at sy ky cy ny ⊢
    | caps =>
      cases t <;> simp [Payload.shaped] at sx
      cases y <;> simp [Payload.shaped, Ty.isBool, Ty.isNumber, Ty.isString, Payload.whollyKnown,
        Payload.containsMarked, Payload.isNull, Payload.unmark1] at sy ky cy ny ⊢
    | seq xs =>
      simp only [Payload.whollyKnown, Payload.containsMarked] at kx cx
      cases t <;> simp [Payload.shaped] at sx
      case list e =>
        cases y <;> simp [Payload.shaped, Ty.isBool, Ty.isNumber, Ty.isString, Payload.whollyKnown,
          Payload.containsMarked, Payload.isNull, Payload.unmark1] at sy ky cy ny ⊢
        rename_i ys
        split
        · exact map_np (equalsAll_np ih e xs ys (decAll_of sx kx cx) (decAll_of sy ky cy)) w
        · simp
      case tuple ts =>
        cases y <;> simp [Payload.shaped, Ty.isBool, Ty.isNumber, Ty.isString, Payload.whollyKnown,
          Payload.containsMarked, Payload.isNull, Payload.unmark1] at sy ky cy ny ⊢
        rename_i ys
        exact map_np (equalsZip_np ih ts xs ys (decZip_of sx kx cx) (decZip_of sy ky cy)) w
    | smap kxs xs =>
      simp only [Payload.whollyKnown, Payload.containsMarked] at kx cx
      cases t <;> simp [Payload.shaped] at sx
      case map e =>
        cases y <;> simp [Payload.shaped, Ty.isBool, Ty.isNumber, Ty.isString, Payload.whollyKnown,
          Payload.containsMarked, Payload.isNull, Payload.unmark1] at sy ky cy ny ⊢
        rename_i kys ys
        split
        · exact map_np (equalsMap_np ih e kxs xs kys ys false (decAll_of sx.2 kx cx) (decAll_of sy.2 ky cy)) w
        · simp
      case object ns ts os =>
        cases y <;> simp [Payload.shaped, Ty.isBool, Ty.isNumber, Ty.isString, Payload.whollyKnown,
          Payload.containsMarked, Payload.isNull, Payload.unmark1] at sy ky cy ny ⊢
        rename_i kys ys
        exact map_np (equalsObj_np ih ts xs ys false (decZip_of sx.2 kx cx) (decZip_of sy.2 ky cy)) w
    | sset ixs xs =>
      simp only [Payload.whollyKnown, Payload.containsMarked] at kx cx
      cases t <;> simp [Payload.shaped] at sx
      case set e =>
        cases y <;> simp [Payload.shaped, Ty.isBool, Ty.isNumber, Ty.isString, Payload.whollyKnown,
          Payload.containsMarked, Payload.isNull, Payload.unmark1] at sy ky cy ny ⊢
        rename_i iys ys
        have dx := decAll_of sx.2 kx cx
        have dy := decAll_of sy.2 ky cy
        have h1 := setInclWK_np ih e ixs xs iys ys dx dy
        have h2 := setInclWK_np ih e iys ys ixs xs dy dx
        cases ha : setInclWK (equalsFuel fuel) e ixs xs iys ys with
        | ok o =>
          cases o with
          | none => simp
          | some p =>
            simp only []
            cases hb : setInclWK (equalsFuel fuel) e iys ys ixs xs with
            | ok o' => cases o' <;> simp
            | panic w' => exact absurd hb (h2 w')
            | _ => simp
        | panic w' => exact absurd ha (h1 w')
        | _ => simp

/-- `Value.equals` (the entry point the set constructor of the decoder model calls) -/
theorem equals_np {t : Ty} {x y : Payload} (hx : Dec t x) (hy : Dec t y) :
    ∀ w, Value.equals ⟨t, x⟩ ⟨t, y⟩ ≠ .panic w := by
  intro w
  simp only [Value.equals, Value.containsMarked, hx.clean, hy.clean, Bool.or_self, Bool.false_eq_true, if_false]
  exact equalsFuel_np _ t x y hx hy w

end C17Json
end CtyModel
