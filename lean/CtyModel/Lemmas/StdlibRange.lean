/-
Lemmas: `range` generates the arithmetic progression from `start` by `step` up to
(excluding) the first term at or beyond `end`, or fails at the 1024-element limit.
-/
import CtyModel.Lemmas.StdlibProduct
namespace CtyModel
namespace Stdlib
open Value

/-! ### comparisons of known numbers -/

theorem lessThan_num (x y : Num) : Value.lessThan (numVal x) (numVal y) = .ok (boolVal (decide (Num.cmp x y < 0))) := by
  simp [Value.lessThan, binMarks, Value.isMarked, Payload.isMarked, numVal, lessThanU, typeCheck, typeCheckAux,
    Ty.equals, Ty.isDyn, Value.isUnk, asNum]

theorem greaterThan_num (x y : Num) : Value.greaterThan (numVal x) (numVal y) = .ok (boolVal (decide (Num.cmp x y > 0))) := by
  simp [Value.greaterThan, binMarks, Value.isMarked, Payload.isMarked, numVal, greaterThanU, typeCheck, typeCheckAux,
    Ty.equals, Ty.isDyn, Value.isUnk, asNum]

theorem equals_num (x y : Num) : Value.equals (numVal x) (numVal y) = .ok (boolVal (Num.rawEqual x y)) := by
  simp [Value.equals, Value.containsMarked, Payload.containsMarked, numVal, equalsP, Payload.depth, equalsFuel,
    equalsPre, Value.isNull, Payload.isNull, Payload.unmark1, definitelyNotNull, Value.isKnown, Payload.isKnown,
    hasWhollyKnownType, Ty.equals]

theorem or_bool (a b : Bool) : Value.or (boolVal a) (boolVal b) = .ok (boolVal (a || b)) := by
  cases a <;> cases b <;> rfl

theorem isTrueR_bool (b : Bool) : isTrueR (.ok (boolVal b)) = .ok b := rfl

theorem gte_num (x y : Num) : isTrueR (gte (numVal x) (numVal y)) = .ok (numGE x y) := by
  simp [gte, greaterThan_num, equals_num, or_bool, numGE]
  rfl

theorem lte_num (x y : Num) : isTrueR (lte (numVal x) (numVal y)) = .ok (numLE x y) := by
  simp [lte, lessThan_num, equals_num, or_bool, numLE]
  rfl


/-! ### `range` -/

/-- a finite number -/
def isFin : Num → Bool
  | .fin _ _ _ _ => true
  | _ => false

/-- `num.Add(step)` for a finite step (never the NaN panic) -/
def nextNum (step x : Num) : Num :=
  match Num.add x step with
  | .ok r => r
  | _ => x

theorem add_fin_ok (x step : Num) (h : isFin step = true) : Num.add x step = .ok (nextNum step x) := by
  have hok : (Num.add x step).isOk = true := by
    cases step with
    | inf n => simp [isFin] at h
    | fin sn sm se sp =>
      cases x with
      | inf xn => rfl
      | fin xn xm xe xp =>
        have key : ∀ (c : Prop) [Decidable c] (A B : Num),
            (if c then Res.ok A else Res.ok B : Res Num).isOk = true := by
          intro c _ A B; split <;> rfl
        simp only [Num.add]
        by_cases h1 : xm = 0 ∧ sm = 0
        · simp only [h1, and_self, if_true]; rfl
        · simp only [h1, if_false]
          exact key _ _ _
  cases hr : Num.add x step with
  | ok r => simp [nextNum, hr]
  | err c => simp [hr, Res.isOk] at hok
  | panic c => simp [hr, Res.isOk] at hok
  | unmodelled => simp [hr, Res.isOk] at hok

theorem value_add_num (x step : Num) (h : isFin step = true) :
    Value.add (numVal x) (numVal step) = .ok (numVal (nextNum step x)) :=
  C02.add_known x step _ (add_fin_ok x step h)

/-- the loop's exit test on numbers: `num <= end` going down, `num >= end` going up -/
def reached (down : Bool) (stop x : Num) : Bool := if down then numLE x stop else numGE x stop

theorem reached_eq (down : Bool) (stop x : Num) :
    isTrueR (if down then lte (numVal x) (numVal stop) else gte (numVal x) (numVal stop)) =
      .ok (reached down stop x) := by
  cases down <;> simp [reached, gte_num, lte_num]

theorem iterate_succ_eq {α} (f : α → α) (n : Nat) (x : α) :
    Spec.iterate f (n + 1) x = x :: Spec.iterate f n (f x) := rfl

/-- the loop returns a progression that exists within the limit -/
theorem rangeLoop_ok (down : Bool) (stop step : Num) (hf : isFin step = true) :
    ∀ (more acc : List Num) (x : Num) (fuel : Nat),
      Spec.IsProgression (nextNum step) (reached down stop) x more →
      acc.length + more.length ≤ 1024 → more.length < fuel →
      rangeLoop down (numVal stop) (numVal step) fuel (numVal x) (acc.map numVal) =
        .ok ((acc ++ more).map numVal) := by
  intro more
  induction more with
  | nil =>
    intro acc x fuel hp _ hfuel
    obtain ⟨fuel', rfl⟩ : ∃ f, fuel = f + 1 := ⟨fuel - 1, by simp at hfuel; omega⟩
    have hr : reached down stop x = true := by simpa [Spec.iterNth] using hp.2.2
    simp [rangeLoop, reached_eq, hr]
  | cons y ys ih =>
    intro acc x fuel hp hlen hfuel
    obtain ⟨fuel', rfl⟩ : ∃ f, fuel = f + 1 := ⟨fuel - 1, by simp at hfuel; omega⟩
    obtain ⟨h1, h2, h3⟩ := hp
    simp only [List.length_cons, iterate_succ_eq, List.cons.injEq] at h1
    obtain ⟨hy, hys⟩ := h1
    have hr : reached down stop x = false := by simpa [Spec.iterNth] using h2 0 (by simp)
    have hacc : ¬ ((acc.map numVal).length ≥ 1024) := by simp at hlen ⊢; omega
    simp only [rangeLoop, reached_eq, hr, hacc, if_false, value_add_num x step hf]
    have hp' : Spec.IsProgression (nextNum step) (reached down stop) (nextNum step x) ys :=
      ⟨hys, fun k hk => by simpa [Spec.iterNth] using h2 (k + 1) (by simp; omega),
        by simpa [Spec.iterNth] using h3⟩
    have := ih (acc ++ [x]) (nextNum step x) fuel' hp' (by simp at hlen ⊢; omega) (by simp at hfuel; omega)
    simp only [List.map_append, List.map_cons, List.map_nil] at this
    rw [this, ← hy]
    simp

/-- the loop fails when 1024 values do not reach the end -/
theorem rangeLoop_limit (down : Bool) (stop step : Num) (hf : isFin step = true) :
    ∀ (fuel : Nat) (acc : List Num) (x : Num),
      (∀ k, k + acc.length ≤ 1024 → reached down stop (Spec.iterNth (nextNum step) k x) = false) →
      acc.length ≤ 1024 → 1025 ≤ fuel + acc.length →
      Fails (rangeLoop down (numVal stop) (numVal step) fuel (numVal x) (acc.map numVal)) := by
  intro fuel
  induction fuel with
  | zero => intro acc x _ h1 h2; omega
  | succ fuel ih =>
    intro acc x h h1 h2
    have hr : reached down stop x = false := by simpa [Spec.iterNth] using h 0 (by omega)
    simp only [rangeLoop, reached_eq, hr, List.length_map]
    by_cases hlim : acc.length ≥ 1024
    · simp only [hlim, if_true]; exact ⟨_, rfl⟩
    · simp only [hlim, if_false, value_add_num x step hf]
      have := ih (acc ++ [x]) (nextNum step x) (by
        intro k hk
        have := h (k + 1) (by simp at hk; omega)
        simpa [Spec.iterNth] using this) (by simp; omega) (by simp; omega)
      simpa using this

/-- `step.LessThan(cty.Zero).True()` -/
def stepDown (step : Num) : Bool := decide (Num.cmp step (.fin false 0 0 53) < 0)

/-- the direction rule: going down the end must not be above the start, going up not below -/
def dirOk (down : Bool) (start stop : Num) : Bool :=
  if down then !decide (Num.cmp stop start > 0) else !decide (Num.cmp stop start < 0)

/-- the end of `Impl`: `ListValEmpty(Number)` or `ListVal(vals)` -/
def rangeFinish : Res (List Value) → Res Value
  | .ok vals => if vals.length == 0 then .ok (listEmpty .number) else Gocty.listVal vals
  | r => Res.cast r

/-- `step.RawEquals(cty.Zero)` on the number itself -/
def isZeroStep (s : Num) : Bool := Num.rawEqual s (.fin false 0 0 53)

/-- every zero — either sign, any precision — is `RawEquals` to `cty.Zero` -/
theorem isZeroStep_zero (n : Bool) (p : Nat) : isZeroStep (.fin n 0 0 p) = true := by
  cases n <;> simp [isZeroStep, Num.rawEqual, Num.sign, Num.isInt, Num.truncInt]

/-- a zero step is rejected -/
theorem rangeImpl_three_zero (E : Env) (a b : Value) (s : Num) (hz : isZeroStep s = true) (retTy : Ty) :
    rangeImpl E [a, b, numVal s] retTy = .err "step must not be zero" := by
  have hzn : isZeroNum (numVal s) = true := hz
  simp [rangeImpl, hzn]

theorem isInfNum_of_fin (s : Num) (hf : isFin s = true) : isInfNum (numVal s) = false := by
  cases s <;> simp_all [isFin, isInfNum, numVal]

theorem rangeImpl_three (E : Env) (a b s : Num) (hz : isZeroStep s = false) (retTy : Ty)
    (hf : isFin s = true) :
    rangeImpl E [numVal a, numVal b, numVal s] retTy =
      if dirOk (stepDown s) a b then rangeFinish (rangeLoop (stepDown s) (numVal b) (numVal s) 1025 (numVal a) [])
      else .err "end must be on the side of start that step points to" := by
  have hlt : isTrueR (Value.lessThan (numVal s) zero) = .ok (stepDown s) := by
    simp [zero, lessThan_num, stepDown, isTrueR_bool]
  have hzn : isZeroNum (numVal s) = false := hz
  simp only [rangeImpl, hzn, Bool.false_eq_true, if_false, hlt, isInfNum_of_fin s hf]
  cases hd : stepDown s
  · simp only [dirOk, lessThan_num, isTrueR_bool, Res.map, Bool.false_eq_true, if_false]
    by_cases hc : Num.cmp b a < 0
    · simp [hc]
    · simp only [hc, decide_false, Bool.not_false, if_true]
      cases rangeLoop false (numVal b) (numVal s) 1025 (numVal a) [] <;> rfl
  · simp only [dirOk, greaterThan_num, isTrueR_bool, Res.map, if_true]
    by_cases hc : Num.cmp b a > 0
    · simp [hc]
    · simp only [hc, decide_false, Bool.not_false, if_true]
      cases rangeLoop true (numVal b) (numVal s) 1025 (numVal a) [] <;> rfl

theorem listVal_nums (vals : List Num) (hne : vals ≠ []) :
    Gocty.listVal (vals.map numVal) = .ok (mkList .number (vals.map Payload.n)) := by
  have := listVal_map .number rfl (vals.map Payload.n) (by simpa using hne)
  have h2 : vals.map numVal = (vals.map Payload.n).map (⟨.number, ·⟩) := by
    simp [numVal, List.map_map, Function.comp_def]
  rw [h2]
  exact this

/-- **`range(start, end, step)`** inside its domain: the arithmetic progression
from `start` by `step` (big-float addition as `Value.Add` performs it) up to but
excluding the first term at or beyond `end` -/
theorem rangeImpl_three_ok (E : Env) (a b s : Num) (hz : isZeroStep s = false) (retTy : Ty)
    (hf : isFin s = true) (hdir : dirOk (stepDown s) a b = true) (vals : List Num)
    (hp : Spec.IsProgression (nextNum s) (reached (stepDown s) b) a vals) (hlen : vals.length ≤ 1024) :
    rangeImpl E [numVal a, numVal b, numVal s] retTy = .ok (mkList .number (vals.map Payload.n)) := by
  rw [rangeImpl_three E a b s hz retTy hf, hdir]
  have := rangeLoop_ok (stepDown s) b s hf vals [] a 1025 hp (by simpa using hlen) (by omega)
  simp only [List.map_nil, List.nil_append] at this
  simp only [if_true, this, rangeFinish, List.length_map]
  by_cases h0 : vals.length = 0
  · have := List.eq_nil_of_length_eq_zero h0
    subst this
    rfl
  · simp only [h0, beq_iff_eq, if_false]
    exact listVal_nums vals (fun h => h0 (by simp [h]))

/-- more than 1024 elements: an error -/
theorem rangeImpl_three_limit (E : Env) (a b s : Num) (hz : isZeroStep s = false) (retTy : Ty)
    (hf : isFin s = true)
    (hmany : ∀ k, k ≤ 1024 → reached (stepDown s) b (Spec.iterNth (nextNum s) k a) = false) :
    Fails (rangeImpl E [numVal a, numVal b, numVal s] retTy) := by
  rw [rangeImpl_three E a b s hz retTy hf]
  by_cases hdir : dirOk (stepDown s) a b = true
  · obtain ⟨c, hc⟩ := rangeLoop_limit (stepDown s) b s hf 1025 [] a (by simpa using hmany) (by simp) (by simp)
    simp only [List.map_nil] at hc
    simp only [hdir, if_true, hc, rangeFinish]
    exact ⟨c, rfl⟩
  · simp only [hdir]; exact ⟨_, rfl⟩

/-- the end on the wrong side of the start: an error -/
theorem rangeImpl_three_dir (E : Env) (a b s : Num) (hz : isZeroStep s = false) (retTy : Ty)
    (hf : isFin s = true) (hdir : dirOk (stepDown s) a b = false) :
    Fails (rangeImpl E [numVal a, numVal b, numVal s] retTy) := by
  rw [rangeImpl_three E a b s hz retTy hf, hdir]; exact ⟨_, rfl⟩

/-- an infinite step is rejected -/
theorem rangeImpl_three_inf (E : Env) (a b : Value) (n : Bool) (retTy : Ty) :
    Fails (rangeImpl E [a, b, numVal (.inf n)] retTy) := by
  simp only [rangeImpl, isInfNum, numVal]
  split <;> exact ⟨_, rfl⟩


/-- two arguments: the three-argument form with step `-1` if `end < start`, else `1` -/
theorem rangeImpl_two (E : Env) (a b : Num) (retTy : Ty) :
    rangeImpl E [numVal a, numVal b] retTy =
      rangeImpl {} [numVal a, numVal b, if Num.cmp b a < 0 then intVal (-1) else intVal 1] retTy := by
  by_cases hc : Num.cmp b a < 0
  · simp only [rangeImpl, lessThan_num, isTrueR_bool, hc, decide_true, if_true, Bool.false_eq_true, if_false]
  · simp only [rangeImpl, lessThan_num, isTrueR_bool, hc, decide_false, if_false, Bool.false_eq_true]

/-- one argument: `start = 0`, step `-1` if `end < 0`, else `1` -/
theorem rangeImpl_one (E : Env) (a : Num) (retTy : Ty) :
    rangeImpl E [numVal a] retTy =
      rangeImpl {} [zero, numVal a, if Num.cmp a (.fin false 0 0 53) < 0 then intVal (-1) else intVal 1] retTy := by
  have hz : zero = numVal (.fin false 0 0 53) := rfl
  by_cases hc : Num.cmp a (.fin false 0 0 53) < 0
  · simp only [rangeImpl, hz, lessThan_num, isTrueR_bool, hc, decide_true, if_true, Bool.false_eq_true, if_false]
  · simp only [rangeImpl, hz, lessThan_num, isTrueR_bool, hc, decide_false, if_false, Bool.false_eq_true]

/-- no arguments, or more than three: an error -/
theorem rangeImpl_arity (E : Env) (args : List Value) (retTy : Ty) (h : args.length = 0 ∨ 3 < args.length) :
    Fails (rangeImpl E args retTy) := by
  match args, h with
  | [], _ => exact ⟨_, rfl⟩
  | [_], h => simp at h
  | [_, _], h => simp at h
  | [_, _, _], h => simp at h
  | _ :: _ :: _ :: _ :: _, _ => exact ⟨_, rfl⟩

end Stdlib
end CtyModel
