/-
C20 — the caller's own actions keep the state invariant (when the caller writes
only what it owns); every step does; the receivers are always in order.
-/
import CtyModel.Lemmas.HeapInvD
namespace CtyModel
namespace Heap

theorem foldl_kvInsert_mem {es : List (Key × Word)} :
    ∀ (acc : List (Key × Word)) (kv : Key × Word),
      kv ∈ es.foldl (fun acc e => kvInsert e.1 e.2 acc) acc → kv ∈ acc ∨ kv ∈ es := by
  induction es with
  | nil => intro acc kv h; exact .inl h
  | cons e r ih =>
    intro acc kv h
    rcases ih _ kv h with h | h
    · rcases mem_kvInsert h with h | h
      · exact .inr (h ▸ List.mem_cons_self)
      · exact .inl h
    · exact .inr (List.mem_cons_of_mem _ h)

/-- a write of library-owned words into an array the caller owns -/
theorem good2_setCells {st : St} (hi : Inv st) {arr : Addr} {old new : List Word}
    (hc : cellsOf st.mem arr = some old) (hown : ownerOf st.mem arr = some .caller)
    (hnew : ∀ c ∈ new, FrozenAll st.mem c) : Good2 st.mem st.mem (setBody st.mem arr (.array new)) := by
  unfold cellsOf at hc
  cases hm : st.mem[arr]? with
  | none => simp [hm] at hc
  | some o =>
    rcases o with ⟨ow, bd⟩
    cases bd <;> simp [hm] at hc
    have hf : frozenObj st.mem arr = false := not_frozen_of_owner hown (by simp) (by simp)
    refine good2_setBody (Good.refl hi.heap) hm rfl hf ?_
    exact fun c hcm => frozenAll_stable (preserves_setBody _ hf) (hnew c hcm)

theorem good2_setKvs {st : St} (hi : Inv st) {a : Addr} {old new : List (Key × Word)}
    (hk : kvsOf st.mem a = some old) (hown : ownerOf st.mem a = some .caller)
    (hnew : ∀ kv ∈ new, FrozenAll st.mem kv.2) : Good2 st.mem st.mem (setBody st.mem a (.gomap new)) := by
  unfold kvsOf at hk
  cases hm : st.mem[a]? with
  | none => simp [hm] at hk
  | some o =>
    rcases o with ⟨ow, bd⟩
    cases bd <;> simp [hm] at hk
    have how : ow = .caller := by simpa [ownerOf, hm] using hown
    subst how
    have hf : frozenObj st.mem a = false := not_frozen_of_owner hown (by simp) (by simp)
    refine good2_setBody (Good.refl hi.heap) hm rfl hf ?_
    unfold ObjOK
    simp only [isSetOwner]
    exact fun kv hkv => frozenAll_stable (preserves_setBody _ hf) (hnew kv hkv)

theorem cells_set_frozen {m : Mem} {cells : List Word} {i : Nat} {w : Word}
    (hc : ∀ c ∈ cells, FrozenAll m c) (hw : FrozenAll m w) : ∀ c ∈ cells.set i w, FrozenAll m c := by
  intro c hcm
  rcases mem_set hcm with e | e
  · subst e; exact hw
  · exact hc c e

theorem stepCaller_inv {st st' : St} {c : Caller} (hi : Inv st) (hd : docRespectful st (.caller c) = true)
    (h : stepCaller st c = some st') : Inv st' := by
  cases c with
  | newFloat n =>
    simp only [stepCaller] at h; cases h
    exact inv_pushGo hi (good2_alloc (Good.refl hi.heap) (o := .caller) (b := .bigfloat n) trivial) trivial
  | newSlice vs cap =>
    simp only [stepCaller] at h; opt_cases h
    rename_i cells hcells
    refine inv_newSlice hi ?_ _ _ _ _
    intro c hc
    rcases List.mem_append.mp hc with hc | hc
    · obtain ⟨i, _, hi'⟩ := mapM_mem _ _ hcells c hc
      exact vals_frozen hi hi'
    · rw [(List.mem_replicate.mp hc).2]; exact frozenAll_null
  | newMap kvs =>
    simp only [stepCaller] at h; opt_cases h
    rename_i es hes
    have hfz : ∀ kv ∈ es, FrozenAll st.mem kv.2 := by
      intro kv hkv
      obtain ⟨x, _, hx⟩ := mapM_mem _ _ hes kv hkv
      simp only [Option.map_eq_some_iff] at hx
      obtain ⟨w, hw, e⟩ := hx
      subst e
      exact vals_frozen hi hw
    refine inv_pushGo (w := .map st.mem.length) hi (good2_alloc (Good.refl hi.heap) (o := .caller)
      (b := .gomap (es.foldl (fun acc e => kvInsert e.1 e.2 acc) [])) ?_) ⟨_, alloc_get_new _ _ _, rfl⟩
    simp only [NewBodyOK, isSetOwner]
    intro kv hkv
    rcases foldl_kvInsert_mem _ _ hkv with h | h
    · cases h
    · exact hfz kv h
  | newMarks ms =>
    simp only [stepCaller] at h; cases h
    exact inv_pushGo hi (good2_alloc (Good.refl hi.heap) (o := .caller) (b := .markset (msUnion ms [])) trivial) trivial
  | newTypes ts =>
    simp only [stepCaller] at h; opt_cases h
    rename_i cells hcells
    refine inv_newSlice hi ?_ _ _ _ _
    intro c hc
    obtain ⟨t, _, ht⟩ := mapM_mem _ _ hcells c hc
    exact tySrc_frozen hi ht
  | newTypeMap kts =>
    simp only [stepCaller] at h; opt_cases h
    rename_i es hes
    have hfz : ∀ kv ∈ es, FrozenAll st.mem kv.2 := by
      intro kv hkv
      obtain ⟨x, _, hx⟩ := mapM_mem _ _ hes kv hkv
      simp only [Option.map_eq_some_iff] at hx
      obtain ⟨w, hw, e⟩ := hx
      subst e
      exact tySrc_frozen hi hw
    refine inv_pushGo (w := .map st.mem.length) hi (good2_alloc (Good.refl hi.heap) (o := .caller)
      (b := .gomap (es.foldl (fun acc e => kvInsert e.1 e.2 acc) [])) ?_) ⟨_, alloc_get_new _ _ _, rfl⟩
    simp only [NewBodyOK, isSetOwner]
    intro kv hkv
    rcases foldl_kvInsert_mem _ _ hkv with h | h
    · cases h
    · exact hfz kv h
  | nilPath =>
    simp only [stepCaller] at h; cases h
    exact inv_pushGo' hi trivial
  | elemPath g i =>
    simp only [stepCaller] at h; opt_cases h <;> exact inv_pushGo' hi trivial
  | setFloat g n =>
    simp only [stepCaller] at h; opt_cases h
    rename_i _ a hg x hx
    simp only [docRespectful, callerTarget, hg, beq_iff_eq] at hd
    unfold floatOf at hx
    cases hm : st.mem[a]? with
    | none => simp [hm] at hx
    | some o =>
      rcases o with ⟨ow, bd⟩
      cases bd <;> simp [hm] at hx
      exact inv_withMem hi (good2_setBody (Good.refl hi.heap) hm rfl
        (not_frozen_of_owner hd (by simp) (by simp)) trivial)
  | setElem g i v =>
    simp only [stepCaller] at h; opt_cases h
    rename_i _ arr off len cap hg cells hc w hw _
    simp only [docRespectful, callerTarget, hg, beq_iff_eq] at hd
    exact inv_withMem hi (good2_setCells hi hc hd (cells_set_frozen (cells_frozen hi.heap hc) (vals_frozen hi hw)))
  | setElemType g i t =>
    simp only [stepCaller] at h; opt_cases h
    rename_i _ arr off len cap hg cells hc w hw _
    simp only [docRespectful, callerTarget, hg, beq_iff_eq] at hd
    exact inv_withMem hi (good2_setCells hi hc hd (cells_set_frozen (cells_frozen hi.heap hc) (tySrc_frozen hi hw)))
  | setStep g i name =>
    simp only [stepCaller] at h; opt_cases h
    rename_i _ arr off len cap hg cells hc _
    simp only [docRespectful, callerTarget, hg, beq_iff_eq] at hd
    exact inv_withMem hi (good2_setCells hi hc hd (cells_set_frozen (cells_frozen hi.heap hc) frozenAll_attr))
  | mapPut g k v =>
    simp only [stepCaller] at h; opt_cases h
    rename_i _ a hg kvs hk w hw
    simp only [docRespectful, callerTarget, hg, beq_iff_eq] at hd
    have hkv := map_kvs_frozen hi.heap (go_ok hi hg) hk
    refine inv_withMem hi (good2_setKvs hi hk hd ?_)
    intro kv hkvm
    rcases mem_kvInsert hkvm with e | e
    · subst e; exact vals_frozen hi hw
    · exact hkv kv e
  | mapPutType g k t =>
    simp only [stepCaller] at h; opt_cases h
    rename_i _ a hg kvs hk w hw
    simp only [docRespectful, callerTarget, hg, beq_iff_eq] at hd
    have hkv := map_kvs_frozen hi.heap (go_ok hi hg) hk
    refine inv_withMem hi (good2_setKvs hi hk hd ?_)
    intro kv hkvm
    rcases mem_kvInsert hkvm with e | e
    · subst e; exact tySrc_frozen hi hw
    · exact hkv kv e
  | mapDelete g k =>
    simp only [stepCaller] at h; opt_cases h
    rename_i _ a hg kvs hk
    simp only [docRespectful, callerTarget, hg, beq_iff_eq] at hd
    have hkv := map_kvs_frozen hi.heap (go_ok hi hg) hk
    exact inv_withMem hi (good2_setKvs hi hk hd fun kv hkvm => hkv kv (mem_kvDelete hkvm))
  | marksAdd g mk =>
    simp only [stepCaller] at h; opt_cases h
    rename_i _ a hg ms hms
    simp only [docRespectful, callerTarget, hg, beq_iff_eq] at hd
    unfold marksOf at hms
    cases hm : st.mem[a]? with
    | none => simp [hm] at hms
    | some o =>
      rcases o with ⟨ow, bd⟩
      cases bd <;> simp [hm] at hms
      exact inv_withMem hi (good2_setBody (Good.refl hi.heap) hm rfl
        (not_frozen_of_owner hd (by simp) (by simp)) trivial)
  | appendVal g v =>
    simp only [stepCaller] at h; opt_cases h
    rename_i s hs w hw r hg
    obtain ⟨h2, ⟨arr', off', len', cap', cells', es', _⟩, _⟩ :=
      good_goAppend (Good.refl hi.heap) (own := .caller) (s := s) (x := w) (by
        intro arr off len cap e hlt
        subst e
        simp only [docRespectful, callerTarget, hs, hlt, if_true, beq_iff_eq] at hd
        exact ⟨not_frozen_of_owner hd (by simp) (by simp), hd⟩) (vals_frozen hi hw) (s' := r.2) hg
    exact inv_pushGo hi h2 (by rw [es']; trivial)
  | appendStep g name =>
    simp only [stepCaller] at h; opt_cases h
    rename_i s hs r hg
    obtain ⟨h2, ⟨arr', off', len', cap', cells', es', _⟩, _⟩ :=
      good_goAppend (Good.refl hi.heap) (own := .caller) (s := s) (x := .attr name) (by
        intro arr off len cap e hlt
        subst e
        simp only [docRespectful, callerTarget, hs, hlt, if_true, beq_iff_eq] at hd
        exact ⟨not_frozen_of_owner hd (by simp) (by simp), hd⟩) frozenAll_attr (s' := r.2) hg
    exact inv_pushGo hi h2 (by rw [es']; trivial)

end Heap
end CtyModel
