/-
C20 (d20b) — what `UnmarkDeepWithPaths` records is the CALLER's: every path and every mark
set of the `[]PathValueMarks` is an object owned by the caller in the heap the call leaves,
so that writing them is a respectful caller action (`Heap.respectful`).
-/
import CtyModel.Lemmas.d20bStep
namespace CtyModel
namespace Heap

/-- a recorded `PathValueMarks` entry is made of caller-owned objects of the heap `m` -/
def OwnedPV (m : Mem) (e : Word × Word) : Prop :=
  (∃ pa off len cap, e.1 = .slice pa off len cap ∧ ownerOf m pa = some .caller) ∧
  ∃ mk, e.2 = .marks mk ∧ ownerOf m mk = some .caller

theorem ownerOf_ext {m m' : Mem} (h : Ext NoW m m') {a : Addr} {o : Owner} (ho : ownerOf m a = some o) :
    ownerOf m' a = some o := by
  have hlt : a < m.length := by
    unfold ownerOf at ho
    cases hm : m[a]? with
    | none => simp [hm] at ho
    | some x => exact (List.getElem?_eq_some_iff.mp hm).1
  unfold ownerOf at ho ⊢
  rw [h.2 a hlt (fun f => f)]
  exact ho

theorem ownedPV_mono {m m' : Mem} (h : Ext NoW m m') {e : Word × Word} (he : OwnedPV m e) : OwnedPV m' e := by
  obtain ⟨⟨pa, off, len, cap, e1, h1⟩, mk, e2, h2⟩ := he
  exact ⟨⟨pa, off, len, cap, e1, ownerOf_ext h h1⟩, mk, e2, ownerOf_ext h h2⟩

/-- what a (sub)transform guarantees relative to the heap `m` it starts from -/
def UDOwned (m : Mem) (r : UDRes) : Prop :=
  Ext NoW m r.1 ∧ ∀ e ∈ r.2.2, OwnedPV r.1 e

theorem udEnter_owned (m : Mem) (path : List Word) (p : Word) : UDOwned m (udEnter m path p) := by
  unfold udEnter
  cases p with
  | marked ms r =>
    simp only [alloc]
    split
    · exact ⟨pres_alloc (Ext.refl NoW m) _ _, fun e he => by cases he⟩
    · refine ⟨pres_alloc (pres_alloc (Ext.refl NoW m) _ _) _ _, fun e he => ?_⟩
      simp only [List.mem_singleton] at he
      subst he
      refine ⟨⟨_, _, _, _, rfl, ?_⟩, _, rfl, ?_⟩
      · simp [ownerOf]
      · simp [ownerOf]
  | _ => exact ⟨Ext.refl NoW m, fun e he => by cases he⟩

theorem udSeq_owned {rec : Mem → List Word → Word → Word → Option UDRes}
    (hrec : ∀ m path t x r, rec m path t x = some r → UDOwned m r) (path : List Word) :
    ∀ (l : List (Word × Word)) (m : Mem) (i : Nat) (m' : Mem) (xs' : List Word) (pvs : List (Word × Word)),
      udSeq rec path m i l = some (m', xs', pvs) → Ext NoW m m' ∧ ∀ e ∈ pvs, OwnedPV m' e := by
  intro l
  induction l with
  | nil =>
    intro m i m' xs' pvs he
    simp only [udSeq, Option.some.injEq, Prod.mk.injEq] at he
    obtain ⟨e1, _, e3⟩ := he
    subst e1; subst e3
    exact ⟨Ext.refl NoW m, fun e he => by cases he⟩
  | cons tx r ih =>
    intro m i m' xs' pvs he
    rcases tx with ⟨t, x⟩
    simp only [udSeq, alloc] at he
    cases h1 : rec (m ++ [⟨Owner.lib, Body.bigfloat i⟩]) (path ++ [.pair tNumber (.num m.length)]) t x with
    | none => simp [h1] at he
    | some r1 =>
      rcases r1 with ⟨m2, x', pv⟩
      simp only [h1] at he
      have g1 := hrec _ _ _ _ _ h1
      cases h2 : udSeq rec path m2 (i + 1) r with
      | none => simp [h2] at he
      | some r2 =>
        rcases r2 with ⟨m3, xs2, pvs2⟩
        simp only [h2, Option.some.injEq, Prod.mk.injEq] at he
        obtain ⟨e1, _, e3⟩ := he
        subst e1; subst e3
        obtain ⟨g2, g3⟩ := ih m2 (i + 1) m3 xs2 pvs2 h2
        have h0 : Ext NoW m (alloc m .lib (.bigfloat i)).1 := pres_alloc (Ext.refl NoW m) _ _
        refine ⟨(h0.trans' g1.1).trans' g2, fun e he => ?_⟩
        rcases List.mem_append.mp he with he | he
        · exact ownedPV_mono g2 (g1.2 e he)
        · exact g3 e he

theorem udKV_owned {rec : Mem → List Word → Word → Word → Option UDRes}
    (hrec : ∀ m path t x r, rec m path t x = some r → UDOwned m r) (path : List Word) (attr : Bool) :
    ∀ (l : List (Key × Word × Word)) (m : Mem) (m' : Mem) (xs' : List (Key × Word)) (pvs : List (Word × Word)),
      udKV rec path attr m l = some (m', xs', pvs) → Ext NoW m m' ∧ ∀ e ∈ pvs, OwnedPV m' e := by
  intro l
  induction l with
  | nil =>
    intro m m' xs' pvs he
    simp only [udKV, Option.some.injEq, Prod.mk.injEq] at he
    obtain ⟨e1, _, e3⟩ := he
    subst e1; subst e3
    exact ⟨Ext.refl NoW m, fun e he => by cases he⟩
  | cons ktx r ih =>
    intro m m' xs' pvs he
    rcases ktx with ⟨k, t, x⟩
    simp only [udKV] at he
    cases h1 : rec m (path ++ [udStep attr k]) t x with
    | none => simp [h1] at he
    | some r1 =>
      rcases r1 with ⟨m2, x', pv⟩
      simp only [h1] at he
      have g1 := hrec _ _ _ _ _ h1
      cases h2 : udKV rec path attr m2 r with
      | none => simp [h2] at he
      | some r2 =>
        rcases r2 with ⟨m3, xs2, pvs2⟩
        simp only [h2, Option.some.injEq, Prod.mk.injEq] at he
        obtain ⟨e1, _, e3⟩ := he
        subst e1; subst e3
        obtain ⟨g2, g3⟩ := ih m2 m3 xs2 pvs2 h2
        refine ⟨g1.1.trans' g2, fun e he => ?_⟩
        rcases List.mem_append.mp he with he | he
        · exact ownedPV_mono g2 (g1.2 e he)
        · exact g3 e he

theorem udOwned_finish {m m1 m2 m3 : Mem} {p : Word} {pv pvs : List (Word × Word)}
    (h1 : Ext NoW m m1) (hpv : ∀ e ∈ pv, OwnedPV m1 e) (h2 : Ext NoW m1 m2) (hpvs : ∀ e ∈ pvs, OwnedPV m2 e)
    (h3 : Ext NoW m2 m3) : UDOwned m (m3, p, pv ++ pvs) := by
  refine ⟨(h1.trans' h2).trans' h3, fun e he => ?_⟩
  rcases List.mem_append.mp he with he | he
  · exact ownedPV_mono (h2.trans' h3) (hpv e he)
  · exact ownedPV_mono h3 (hpvs e he)

theorem udw_owned : ∀ (f : Nat) (m : Mem) (path : List Word) (t p : Word) (r : UDRes),
    udw udEnter f m path t p = some r → UDOwned m r := by
  intro f
  induction f with
  | zero => intro m path t p r he; simp [udw] at he
  | succ f ih =>
    intro m path t p r he
    have hrec : ∀ m path t x r, udw udEnter f m path t x = some r → UDOwned m r :=
      fun m path t x r he => ih m path t x r he
    simp only [udw] at he
    have ge := udEnter_owned m path p
    generalize udEnter m path p = en at he ge
    rcases en with ⟨m1, p1, pv⟩
    obtain ⟨g1, gpv⟩ := ge
    simp only at he g1 gpv
    split at he
    · split at he
      · cases he
      · split at he
        · cases he; exact ⟨g1, gpv⟩
        · split at he
          · cases he
          · rename_i m2 xs' pvs hs
            split at he
            · cases he
            · cases he
              obtain ⟨g2, g3⟩ := udSeq_owned hrec path _ _ _ _ _ _ hs
              exact udOwned_finish g1 gpv g2 g3 (pres_alloc (Ext.refl NoW _) _ _)
    · split at he
      · split at he
        · cases he; exact ⟨g1, gpv⟩
        · split at he
          · cases he
          · rename_i m2 xs' pvs hs
            split at he
            · cases he
            · cases he
              obtain ⟨g2, g3⟩ := udSeq_owned hrec path _ _ _ _ _ _ hs
              exact udOwned_finish g1 gpv g2 g3 (pres_alloc (pres_alloc (Ext.refl NoW _) _ _) _ _)
      · cases he
    · split at he
      · cases he
      · split at he
        · cases he; exact ⟨g1, gpv⟩
        · split at he
          · cases he
          · rename_i m2 kvs' pvs hs
            split at he
            · cases he
            · cases he
              obtain ⟨g2, g3⟩ := udKV_owned hrec path false _ _ _ _ _ hs
              exact udOwned_finish g1 gpv g2 g3 (pres_alloc (Ext.refl NoW _) _ _)
    · split at he
      · split at he
        · cases he; exact ⟨g1, gpv⟩
        · split at he
          · cases he
          · rename_i m2 kvs' pvs hs
            split at he
            · cases he
            · cases he
              obtain ⟨g2, g3⟩ := udKV_owned hrec path true _ _ _ _ _ hs
              exact udOwned_finish g1 gpv g2 g3 (pres_alloc (pres_alloc (Ext.refl NoW _) _ _) _ _)
      · cases he
    · cases he
    · cases he; exact ⟨g1, gpv⟩

/-- **`UnmarkDeepWithPaths` hands the caller objects of the caller's**: every Go-data
register the step creates is a path or a mark set whose object is caller-owned in the
heap the call leaves -/
theorem unmarkDeepWithPaths_owned {st st' : St} {v : Nat}
    (h : stepXApi st (.unmarkDeepWithPaths v) = some st') :
    ∀ g ∈ st'.gos.drop st.gos.length, ∃ a, goRoot g = some a ∧ ownerOf st'.mem a = some .caller := by
  simp only [stepXApi] at h
  split at h
  · simp only [Option.map_eq_some_iff] at h
    obtain ⟨r, hv, e⟩ := h
    subst e
    have hg := (udw_owned _ _ _ _ _ r hv).2
    intro g hgm
    simp only [pushPVM_gos, pushPVM_mem, List.drop_left, List.mem_flatten, List.mem_map] at hgm ⊢
    obtain ⟨l, ⟨e, he, hl⟩, hgl⟩ := hgm
    subst hl
    obtain ⟨⟨pa, off, len, cap, e1, h1⟩, mk, e2, h2⟩ := hg e he
    simp only [List.mem_cons, List.not_mem_nil, or_false] at hgl
    rcases hgl with hgl | hgl
    · subst hgl; rw [e1]; exact ⟨pa, rfl, h1⟩
    · subst hgl; rw [e2]; exact ⟨mk, rfl, h2⟩
  · cases h

/-- the slice `ValueSet.Values` / `AsValueSlice` / `PathSet.List` answers is the caller's -/
theorem collectValues_owned {st st' : St} {a : Addr} {ordered : Bool} {perm : List Nat} {wrap : Word → Word}
    (he : collectValues st a ordered perm wrap = some st') :
    ∃ g, st'.gos = st.gos ++ [g] ∧ ∀ x, goRoot g = some x → ownerOf st'.mem x = some .caller := by
  unfold collectValues at he
  cases hm : setMembers st.mem a with
  | none => simp [hm] at he
  | some xs =>
    simp only [hm] at he
    split at he
    · cases he; exact ⟨_, rfl, fun x hx => by simp [goRoot] at hx⟩
    · simp only [alloc] at he
      split at he
      · cases he
      · rename_i m1 vals hv
        split at he
        · cases he
        · cases he
          refine ⟨_, rfl, fun x hx => ?_⟩
          simp only [goRoot, Option.some.injEq] at hx
          subst hx
          simp only [St.withMem, St.pushGo]
          rw [ownerOf_setBody]
          have e1 := (pres_setValuesGo (W := NoW) (Ext.refl NoW _) hv).1
          exact ownerOf_ext e1 (by simp [ownerOf])

end Heap
end CtyModel
