/-
C17 (JSON half) — what the decoder CONSTRUCTS, for a requested type without the placeholder: the
decoded value has at most `(1 + width t)` payload nodes per token of the document, where `width t`
is the largest attribute count of an object type inside `t` (the `null`s that `unmarshalObject`
supplies for attributes the document does not mention are the only nodes not paid for by a token).
By mutual structural induction on the token tree.
-/
import CtyModel.Lemmas.C17JsonCost
namespace CtyModel
namespace C17Json
open Ty JsonVal

/-- payload nodes of a list of values -/
def nodesV (vals : List Value) : Nat := Payload.nodesL (vals.map (·.v))

@[simp] theorem nodesV_nil : nodesV [] = 0 := rfl
@[simp] theorem nodesV_cons (v : Value) (vs : List Value) : nodesV (v :: vs) = v.v.nodes + nodesV vs := rfl

theorem nodes_pos (p : Payload) : 1 ≤ p.nodes := by
  cases p <;> simp [Payload.nodes] <;> omega

/-! ### the constructors never add nodes (beyond their own) -/

theorem lastWins_nodes : ∀ (ks : List String) (vals : List Value), nodesV (lastWins ks vals).2 ≤ nodesV vals
  | [], _ => by simp [lastWins]
  | _ :: _, [] => by simp [lastWins]
  | k :: ks, v :: vs => by
    have := lastWins_nodes ks vs
    simp only [lastWins]
    split <;> simp <;> omega

theorem insertKV_nodes (k : String) (v : Payload) : ∀ (ns : List String) (us : List Payload),
    Payload.nodesL (insertKV k v ns us).2 ≤ v.nodes + Payload.nodesL us
  | [], _ => by simp [insertKV, Payload.nodesL]
  | _ :: _, [] => by simp [insertKV, Payload.nodesL]
  | n :: ns, u :: us => by
    have := insertKV_nodes k v ns us
    simp only [insertKV]
    split <;> simp [Payload.nodesL] <;> omega

theorem sortKV_nodes : ∀ (ks : List String) (vs : List Payload), Payload.nodesL (sortKV ks vs).2 ≤ Payload.nodesL vs
  | [], _ => by simp [sortKV, Payload.nodesL]
  | _ :: _, [] => by simp [sortKV, Payload.nodesL]
  | k :: ks, v :: vs => by
    have h1 := sortKV_nodes ks vs
    have h2 := insertKV_nodes k v (sortKV ks vs).1 (sortKV ks vs).2
    simp only [sortKV, Payload.nodesL]
    omega

theorem setAdd_nodes (e : Ty) (x : Payload) (h : Int) : ∀ (is : List Int) (ys : List Payload) (q : List Int × List Payload),
    setAdd e x h is ys = .ok q → Payload.nodesL q.2 ≤ x.nodes + Payload.nodesL ys
  | [], ys, q, hq => by simp [setAdd] at hq; subst hq; simp [Payload.nodesL]
  | _ :: _, [], q, hq => by simp [setAdd] at hq; subst hq; simp [Payload.nodesL]
  | i :: is, y :: ys, q, hq => by
    have recur : ∀ q', ((setAdd e x h is ys).map fun q => (i :: q.1, y :: q.2)) = .ok q' →
        Payload.nodesL q'.2 ≤ x.nodes + Payload.nodesL (y :: ys) := by
      intro q' hq'
      cases hr : setAdd e x h is ys with
      | ok r =>
        rw [hr] at hq'
        simp [Res.map] at hq'
        subst hq'
        have := setAdd_nodes e x h is ys r hr
        simp [Payload.nodesL]; omega
      | _ => rw [hr] at hq'; simp [Res.map] at hq'
    simp only [setAdd] at hq
    split at hq
    · simp at hq; subst hq; simp [Payload.nodesL]
    · split at hq
      · cases he : Value.equals ⟨e, x⟩ ⟨e, y⟩ with
        | ok r =>
          rw [he] at hq
          simp only [] at hq
          split at hq
          · simp at hq; subst hq; simp [Payload.nodesL]
          · exact recur q hq
        | _ => rw [he] at hq; simp at hq
      · exact recur q hq

theorem setFromSlice_nodes (env : JEnv) (e : Ty) : ∀ (ps : List Payload) (is : List Int) (ys : List Payload)
    (q : List Int × List Payload), setFromSlice env e ps is ys = .ok q →
    Payload.nodesL q.2 ≤ Payload.nodesL ps + Payload.nodesL ys
  | [], is, ys, q, hq => by simp [setFromSlice] at hq; subst hq; simp [Payload.nodesL]
  | x :: xs, is, ys, q, hq => by
    simp only [setFromSlice] at hq
    cases hk : env.hkey e x with
    | none => rw [hk] at hq; simp at hq
    | some p =>
      rw [hk] at hq
      simp only [] at hq
      cases ha : setAdd e x p.1 is ys with
      | ok r =>
        rw [ha] at hq
        simp only [] at hq
        have h1 := setAdd_nodes e x p.1 is ys r ha
        have h2 := setFromSlice_nodes env e xs r.1 r.2 q hq
        simp [Payload.nodesL]; omega
      | _ => rw [ha] at hq; simp at hq

/-! ### objects: every attribute gets a decoded member or a null -/

/-- payload nodes of the member stored under `n`, if any -/
def hit (n : String) (nks : List String) (vals : List Value) : Nat :=
  match lookupLast n nks vals with
  | some v => v.v.nodes
  | none => 0

def sumHits (nks : List String) (vals : List Value) : List String → Nat
  | [] => 0
  | n :: ns => hit n nks vals + sumHits nks vals ns

def countEq (k : String) (c : Nat) : List String → Nat
  | [] => 0
  | n :: ns => (if k = n then c else 0) + countEq k c ns

theorem countEq_notin (k : String) (c : Nat) : ∀ ns : List String, k ∉ ns → countEq k c ns = 0
  | [], _ => rfl
  | n :: ns, h => by
    have h1 : k ≠ n := fun e => h (by simp [e])
    have h2 : k ∉ ns := fun hm => h (List.mem_cons_of_mem _ hm)
    simp [countEq, h1, countEq_notin k c ns h2]

theorem countEq_nodup (k : String) (c : Nat) : ∀ ns : List String, ns.Nodup → countEq k c ns ≤ c
  | [], _ => by simp [countEq]
  | n :: ns, h => by
    have ⟨hn, hns⟩ := List.nodup_cons.mp h
    simp only [countEq]
    by_cases e : k = n
    · subst e; simp [countEq_notin k c ns hn]
    · simp [e]; exact countEq_nodup k c ns hns

theorem hit_cons (n k : String) (ks : List String) (v : Value) (vs : List Value) :
    hit n (k :: ks) (v :: vs) ≤ hit n ks vs + (if k = n then v.v.nodes else 0) := by
  simp only [hit, lookupLast]
  cases lookupLast n ks vs with
  | some r => simp
  | none => by_cases e : k = n <;> simp [e]

theorem sumHits_cons (k : String) (ks : List String) (v : Value) (vs : List Value) : ∀ ns : List String,
    sumHits (k :: ks) (v :: vs) ns ≤ sumHits ks vs ns + countEq k v.v.nodes ns
  | [] => by simp [sumHits, countEq]
  | n :: ns => by
    have h1 := hit_cons n k ks v vs
    have h2 := sumHits_cons k ks v vs ns
    simp only [sumHits, countEq]
    omega

theorem sumHits_nil_keys (vals : List Value) : ∀ ns : List String, sumHits [] vals ns = 0
  | [] => rfl
  | n :: ns => by simp [sumHits, hit, lookupLast, sumHits_nil_keys vals ns]

theorem sumHits_nil_vals (nks : List String) : ∀ ns : List String, sumHits nks [] ns = 0
  | [] => rfl
  | n :: ns => by cases nks <;> simp [sumHits, hit, lookupLast, sumHits_nil_vals _ ns]

theorem sumHits_le : ∀ (nks : List String) (vals : List Value) (ns : List String), ns.Nodup →
    sumHits nks vals ns ≤ nodesV vals
  | [], vals, ns, _ => by simp [sumHits_nil_keys]
  | _ :: _, [], ns, _ => by simp [sumHits_nil_vals]
  | k :: ks, v :: vs, ns, hn => by
    have h1 := sumHits_cons k ks v vs ns
    have h2 := sumHits_le ks vs ns hn
    have h3 := countEq_nodup k v.v.nodes ns hn
    simp only [nodesV_cons]
    omega

theorem objectVal_nodes (nks : List String) (vals : List Value) : ∀ (ns : List String) (ts : List Ty),
    nodesV (objectVal ns ts nks vals) ≤ ns.length + sumHits nks vals ns
  | [], _ => by simp [objectVal, sumHits]
  | _ :: _, [] => by simp [objectVal]
  | n :: ns, t :: ts => by
    have := objectVal_nodes nks vals ns ts
    simp only [objectVal, nodesV_cons, sumHits, hit, List.length_cons]
    cases lookupLast n nks vals with
    | some v => simp; omega
    | none => simp [Payload.nodes]; omega

/-! ### arithmetic -/

theorem step_le {x s W : Nat} (h : x ≤ s * (1 + W)) : 1 + x ≤ (1 + s) * (1 + W) := by
  rw [Nat.add_mul]
  generalize s * (1 + W) = p at h ⊢
  omega

theorem step_obj_le {x s k n W : Nat} (h : x ≤ s * (1 + W)) (hn : n ≤ W) : 1 + (n + x) ≤ (1 + k + s) * (1 + W) := by
  rw [Nat.add_mul, Nat.add_mul]
  generalize s * (1 + W) = p at h ⊢
  have : 0 ≤ k * (1 + W) := Nat.zero_le _
  generalize k * (1 + W) = r at this ⊢
  omega

theorem one_le_mul {s W : Nat} (h : 1 ≤ s) : 1 ≤ s * (1 + W) := by
  have : 1 * 1 ≤ s * (1 + W) := Nat.mul_le_mul h (by omega)
  simpa using this

theorem add_mul_le {a b s1 s2 W : Nat} (h1 : a ≤ s1 * (1 + W)) (h2 : b ≤ s2 * (1 + W)) : a + b ≤ (s1 + s2) * (1 + W) := by
  rw [Nat.add_mul]; omega

theorem size_pos (j : Json) : 1 ≤ j.size := by
  cases j <;> simp [Json.size] <;> omega

theorem hasDynL_mem' : ∀ {ts : List Ty}, hasDynL ts = false → ∀ t ∈ ts, hasDyn t = false
  | [], _, _, h => by simp at h
  | u :: us, hd, t, h => by
    simp only [hasDynL, Bool.or_eq_false_iff] at hd
    rcases List.mem_cons.mp h with rfl | h
    · exact hd.1
    · exact hasDynL_mem' hd.2 t h

theorem widthL_mem : ∀ {ts : List Ty} {W : Nat}, Ty.widthL ts ≤ W → ∀ t ∈ ts, t.width ≤ W
  | [], _, _, _, h => by simp at h
  | u :: us, W, hw, t, h => by
    simp only [Ty.widthL] at hw
    rcases List.mem_cons.mp h with rfl | h
    · omega
    · exact widthL_mem (by omega) t h

/-! ### the decoder -/

section
variable (env : JEnv)

theorem prim_nodes (j : Json) (t : Ty) (v : Value) (h : unmarshalPrim env j t = .ok v) : v.v.nodes = 1 := by
  unfold unmarshalPrim at h
  cases t <;> cases j <;> simp [Res.map] at h
  all_goals first
    | (subst h; rfl)
    | ((split at h <;> try split at h) <;> simp at h <;> (try subst h) <;> rfl)
    | (rename_i l; cases hp : Num.parse512 l <;> simp [hp] at h; subst h; rfl)

mutual
theorem unmarshal_nodes : ∀ (j : Json) (t : Ty) (v : Value) (W : Nat), Ty.wf t = true → hasDyn t = false → t.width ≤ W →
    unmarshal env j t = .ok v → v.v.nodes ≤ j.size * (1 + W)
  | .null, t, v, W, _, _, _, h => by
    have : unmarshal env .null t = .ok ⟨t, .null⟩ := by cases t <;> simp [unmarshal]
    rw [this] at h; cases h
    exact one_le_mul (by simp [Json.size])
  | .bool b, t, v, W, _, _, _, h => by
    cases t <;> first
      | (simp [unmarshal] at h; done)
      | (rw [prim_nodes env _ _ v (by simpa [unmarshal] using h)]; exact one_le_mul (by simp [Json.size]))
  | .num l, t, v, W, _, _, _, h => by
    cases t <;> first
      | (simp [unmarshal] at h; done)
      | (rw [prim_nodes env _ _ v (by simpa [unmarshal] using h)]; exact one_le_mul (by simp [Json.size]))
  | .str s, t, v, W, _, _, _, h => by
    cases t <;> first
      | (simp [unmarshal] at h; done)
      | (rw [prim_nodes env _ _ v (by simpa [unmarshal] using h)]; exact one_le_mul (by simp [Json.size]))
  | .arr xs, t, v, W, hwf, hd, hw, h => by
    cases t with
    | list e =>
      simp only [unmarshal] at h
      split at h
      · rename_i vals hu
        have ih := unmarshalAll_nodes xs e vals W (by simpa [Ty.wf] using hwf) (by simpa [hasDyn] using hd) (by simpa [Ty.width] using hw) hu
        unfold listVal at h
        split at h
        · simp at h; subst h; exact one_le_mul (size_pos _)
        · split at h
          · simp at h
          · cases hue : unifyElemTy vals .dyn <;> simp [hue, Res.map] at h
            subst h
            simp only [Payload.nodes, Json.size]
            exact step_le ih
      · exact absurd h (errOf_ne_ok _ _)
    | set e =>
      simp only [unmarshal] at h
      split at h
      · rename_i vals hu
        have ih := unmarshalAll_nodes xs e vals W (by simpa [Ty.wf] using hwf) (by simpa [hasDyn] using hd) (by simpa [Ty.width] using hw) hu
        unfold setVal at h
        split at h
        · simp at h; subst h; exact one_le_mul (size_pos _)
        · split at h
          · simp at h
          · cases hue : unifyElemTy vals .dyn <;> simp [hue] at h
            rename_i e'
            cases hs : setFromSlice env e' (vals.map (·.v)) [] [] <;> simp [hs, Res.map] at h
            rename_i q
            subst h
            have := setFromSlice_nodes env e' _ _ _ q hs
            simp only [Payload.nodes, Json.size]
            refine step_le (Nat.le_trans ?_ ih)
            simpa [nodesV, Payload.nodesL] using this
      · exact absurd h (errOf_ne_ok _ _)
    | tuple es =>
      simp only [unmarshal] at h
      split at h
      · rename_i vals hu
        have ih := unmarshalZip_nodes xs es vals W (by simpa [Ty.wf] using hwf) (by simpa [hasDyn] using hd) (by simpa [Ty.width] using hw) hu
        split at h
        · simp at h
        · simp at h; subst h
          simp only [tupleVal, Payload.nodes, Json.size]
          exact step_le ih
      · exact absurd h (errOf_ne_ok _ _)
    | _ => first
      | (simp [unmarshal] at h; done)
      | (rw [prim_nodes env _ _ v (by simpa [unmarshal] using h)]; exact one_le_mul (size_pos _))
  | .obj ks vs, t, v, W, hwf, hd, hw, h => by
    cases t with
    | dyn => simp [hasDyn] at hd
    | map e =>
      simp only [unmarshal] at h
      split at h
      · rename_i vals hu
        have ih := unmarshalAll_nodes vs e vals W (by simpa [Ty.wf] using hwf) (by simpa [hasDyn] using hd) (by simpa [Ty.width] using hw) hu
        unfold mapVal at h
        simp only at h
        split at h
        · simp at h; subst h; exact one_le_mul (size_pos _)
        · split at h
          · simp at h
          · cases hue : unifyElemTy (lastWins ks vals).2 .dyn <;> simp [hue] at h
            split at h
            · simp at h
            · simp at h
              subst h
              have h1 := sortKV_nodes ((lastWins ks vals).1.map env.norm) ((lastWins ks vals).2.map (·.v))
              have h2 := lastWins_nodes ks vals
              simp only [Payload.nodes, Json.size]
              have : Payload.nodesL (sortKV ((lastWins ks vals).1.map env.norm) ((lastWins ks vals).2.map (·.v))).2 ≤
                  Json.sizeL vs * (1 + W) := Nat.le_trans h1 (Nat.le_trans h2 ih)
              exact step_obj_le (n := 0) (k := ks.length) (by simpa using this) (Nat.zero_le _) |> fun x => by simpa using x
      · exact absurd h (errOf_ne_ok _ _)
    | object ns ts os =>
      simp only [unmarshal] at h
      split at h
      · rename_i vals hu
        simp only [hasDyn] at hd
        simp only [Ty.width] at hw
        simp only [Ty.wf, Bool.and_eq_true] at hwf
        have ih := unmarshalAttrs_nodes ks vs ns ts os vals W hwf.2 hd (by omega) hu
        simp at h; subst h
        simp only [Payload.nodes, Json.size]
        have h1 := objectVal_nodes (ks.map env.norm) vals ns ts
        have h2 := sumHits_le (ks.map env.norm) vals ns (Ty.strictAsc_nodup hwf.1.2)
        have hx : Payload.nodesL ((objectVal ns ts (ks.map env.norm) vals).map (·.v)) ≤ ns.length + Json.sizeL vs * (1 + W) := by
          have : nodesV (objectVal ns ts (ks.map env.norm) vals) ≤ ns.length + Json.sizeL vs * (1 + W) := by omega
          exact this
        have := step_obj_le (x := Json.sizeL vs * (1 + W)) (s := Json.sizeL vs) (k := ks.length) (n := ns.length) (W := W)
          (Nat.le_refl _) (by omega)
        omega
      · exact absurd h (errOf_ne_ok _ _)
    | _ => first
      | (simp [unmarshal] at h; done)
      | (rw [prim_nodes env _ _ v (by simpa [unmarshal] using h)]; exact one_le_mul (size_pos _))
theorem unmarshalAll_nodes : ∀ (js : List Json) (e : Ty) (vals : List Value) (W : Nat), Ty.wf e = true → hasDyn e = false → e.width ≤ W →
    unmarshalAll env js e = .ok vals → nodesV vals ≤ Json.sizeL js * (1 + W)
  | [], _, vals, _, _, _, _, h => by simp [unmarshalAll] at h; subst h; simp
  | j :: js, e, vals, W, hwf, hd, hw, h => by
    simp only [unmarshalAll] at h
    split at h
    · rename_i v hv
      split at h
      · rename_i vs hvs
        simp at h; subst h
        simp only [nodesV_cons, Json.sizeL]
        exact add_mul_le (unmarshal_nodes j e v W hwf hd hw hv) (unmarshalAll_nodes js e vs W hwf hd hw hvs)
      · rename_i r hr; rw [h] at hr; exact absurd rfl (hr _)
    · exact absurd h (errOf_ne_ok _ _)
theorem unmarshalZip_nodes : ∀ (js : List Json) (es : List Ty) (vals : List Value) (W : Nat), Ty.wfL es = true → hasDynL es = false →
    Ty.widthL es ≤ W → unmarshalZip env js es = .ok vals → nodesV vals ≤ Json.sizeL js * (1 + W)
  | [], _, vals, _, _, _, _, h => by simp [unmarshalZip] at h; subst h; simp
  | _ :: _, [], vals, _, _, _, _, h => by simp [unmarshalZip] at h
  | j :: js, e :: es, vals, W, hwf, hd, hw, h => by
    simp only [Ty.wfL, Bool.and_eq_true] at hwf
    simp only [hasDynL, Bool.or_eq_false_iff] at hd
    simp only [Ty.widthL] at hw
    simp only [unmarshalZip] at h
    split at h
    · rename_i v hv
      split at h
      · rename_i vs hvs
        simp at h; subst h
        simp only [nodesV_cons, Json.sizeL]
        exact add_mul_le (unmarshal_nodes j e v W hwf.1 hd.1 (by omega) hv) (unmarshalZip_nodes js es vs W hwf.2 hd.2 (by omega) hvs)
      · rename_i r hr; rw [h] at hr; exact absurd rfl (hr _)
    · exact absurd h (errOf_ne_ok _ _)
theorem unmarshalAttrs_nodes : ∀ (ks : List String) (js : List Json) (ns : List String) (ts : List Ty) (os : List Bool)
    (vals : List Value) (W : Nat), Ty.wfL ts = true → hasDynL ts = false → Ty.widthL ts ≤ W →
    unmarshalAttrs env ks js ns ts os = .ok vals → nodesV vals ≤ Json.sizeL js * (1 + W)
  | [], _, _, _, _, vals, _, _, _, _, h => by simp [unmarshalAttrs] at h; subst h; simp
  | _ :: _, [], _, _, _, vals, _, _, _, _, h => by simp [unmarshalAttrs] at h; subst h; simp
  | k :: ks, j :: js, ns, ts, os, vals, W, hwf, hd, hw, h => by
    simp only [unmarshalAttrs] at h
    split at h
    · simp at h
    · rename_i aty o hf
      split at h
      · rename_i v hv
        split at h
        · rename_i vs hvs
          simp at h; subst h
          simp only [nodesV_cons, Json.sizeL]
          exact add_mul_le (unmarshal_nodes j aty v W (wf_find hwf hf) (hasDynL_mem' hd aty (find_mem hf)) (widthL_mem hw aty (find_mem hf)) hv)
            (unmarshalAttrs_nodes ks js ns ts os vs W hwf hd hw hvs)
        · rename_i r hr; rw [h] at hr; exact absurd rfl (hr _)
      · exact absurd h (errOf_ne_ok _ _)
end

end

mutual
theorem width_strip : ∀ t : Ty, t.stripOpt.width = t.width
  | .bool | .number | .string | .dyn | .capsule _ => by simp [stripOpt]
  | .list e | .set e | .map e => by simp [stripOpt, Ty.width, width_strip e]
  | .tuple es => by simp [stripOpt, Ty.width, widthL_strip es]
  | .object ns ts os => by simp [stripOpt, Ty.width, widthL_strip ts]
theorem widthL_strip : ∀ ts : List Ty, Ty.widthL (stripOptL ts) = Ty.widthL ts
  | [] => rfl
  | t :: ts => by simp [stripOptL, Ty.widthL, width_strip t, widthL_strip ts]
end

/-- the public `Unmarshal` against a placeholder-free type -/
theorem unmarshalTop_nodes (env : JEnv) (j : Json) (t : Ty) (v : Value) (hw : Ty.wf t = true) (hd : hasDyn t = false)
    (h : unmarshalTop env j t = .ok v) : v.v.nodes ≤ j.size * (1 + t.width) :=
  unmarshal_nodes env j t.stripOpt v t.width (wf_strip t hw) (by rw [stripOpt_hasDyn]; exact hd)
    (by rw [width_strip]; exact Nat.le_refl _) h

end C17Json
end CtyModel
