/-
d04 (audit C04, item 1 / missing theorem (a)): NO INVENTION for the REAL conversion model.

`Convert.apply E fuel p v` (Convert.lean: every closure `getConversion` can return, the
wrapper included) never puts a mark on its result — at any depth — that is not somewhere in
`v`.  For every environment, every plan (well-formed or not), every value, every fuel: no
hypothesis at all.  The old `C04.convert_no_invention` was about the two-line `convWrap`
around an ARBITRARY inner function, which may itself invent.
-/
import CtyModel.Lemmas.d04Refine
import CtyModel.Lemmas.ConvertD08WT
namespace CtyModel
namespace D04C
open Convert D04R

/-- every mark at any depth of `r` satisfies `P` -/
def W (P : String → Prop) (r : Value) : Prop := ∀ m ∈ r.marksDeep, P m

/-- the marks found anywhere in `v` -/
def From (v : Value) : String → Prop := fun m => m ∈ v.marksDeep

/-- the function standing for the nested closure calls invents nothing -/
def NoInv (rec : Rec) : Prop := ∀ p v r, rec p v = .ok r → W (From v) r

theorem W.mono {P : String → Prop} {e r : Value} (hr : W (From e) r) (he : W P e) : W P r :=
  fun m hm => he m (hr m hm)

theorem W.of_nil {P : String → Prop} {r : Value} (h : r.marksDeep = []) : W P r := by
  intro m hm; rw [h] at hm; simp at hm

theorem W.self (v : Value) : W (From v) v := fun _ hm => hm

theorem bindOk {α β} {r : Res α} {f : α → Res β} {b : β} (h : r.bind f = .ok b) :
    ∃ a, r = .ok a ∧ f a = .ok b := by
  cases r <;> simp [Res.bind] at h
  exact ⟨_, rfl, h⟩

theorem mapOk {α β} {r : Res α} {f : α → β} {b : β} (h : r.map f = .ok b) : ∃ a, r = .ok a ∧ f a = b := by
  cases r <;> simp [Res.map] at h
  exact ⟨_, rfl, h⟩

/-! ### observers -/

theorem mem_zipTys : ∀ {ts : List Ty} {ps : List Payload} {e : Value}, e ∈ zipTys ts ps → e.v ∈ ps
  | [], _, e, h => by simp [zipTys] at h
  | _ :: _, [], e, h => by simp [zipTys] at h
  | t :: ts, p :: ps, e, h => by
    simp only [zipTys, List.mem_cons] at h
    rcases h with rfl | h
    · simp
    · exact List.mem_cons_of_mem _ (mem_zipTys h)

theorem from_member {v : Value} {ps : List Payload} (hv : v.v.marksDeep = Payload.marksDeepL ps) {e : Value}
    (he : e.v ∈ ps) : W (From v) e := by
  intro m hm
  show m ∈ v.v.marksDeep
  rw [hv]
  exact Payload.marksDeepL_of_mem he hm

/-- the members an iteration yields carry only marks of the collection -/
theorem elemsOf_w {E : Env} {v : Value} {es : List Value} (h : elemsOf E v = .ok es) : ∀ e ∈ es, W (From v) e := by
  unfold elemsOf at h
  split at h <;> simp at h <;> subst h <;> intro e he <;> rename_i hv
  · obtain ⟨p, hp, rfl⟩ := List.mem_map.mp he
    exact from_member (ps := ‹List Payload›) (by rw [hv]; rfl) hp
  · obtain ⟨p, hp, rfl⟩ := List.mem_map.mp he
    exact from_member (ps := ‹List Payload›) (by rw [hv]; rfl) (setValues_mem hp)
  · obtain ⟨p, hp, rfl⟩ := List.mem_map.mp he
    exact from_member (ps := ‹List Payload›) (by rw [hv]; rfl) hp
  · exact from_member (ps := ‹List Payload›) (by rw [hv]; rfl) (mem_zipTys he)
  · exact from_member (ps := ‹List Payload›) (by rw [hv]; rfl) (mem_zipTys he)

/-! ### constructors -/

theorem w_payloads {P : String → Prop} {vs : List Value} (hall : ∀ v ∈ vs, W P v) :
    ∀ m ∈ Payload.marksDeepL (vs.map (·.v)), P m := by
  intro m hm
  obtain ⟨p, hp, hmp⟩ := Payload.mem_marksDeepL.mp hm
  obtain ⟨v, hv, rfl⟩ := List.mem_map.mp hp
  exact hall v hv m hmp

theorem listVal_w {P : String → Prop} {vs : List Value} {r : Value} (hall : ∀ v ∈ vs, W P v)
    (h : Convert.listVal vs = .ok r) : W P r := by
  unfold Convert.listVal at h
  split at h
  · simp at h
  · split at h <;> simp at h
    subst h
    exact w_payloads hall

theorem mapVal_w {P : String → Prop} {ks : List String} {vs : List Value} {r : Value} (hall : ∀ v ∈ vs, W P v)
    (h : Convert.mapVal ks vs = .ok r) : W P r := by
  unfold Convert.mapVal at h
  split at h
  · simp at h
  · split at h <;> simp at h
    subst h
    exact w_payloads hall

theorem tupleVal_w {P : String → Prop} {vs : List Value} (hall : ∀ v ∈ vs, W P v) : W P (tupleVal vs) :=
  w_payloads hall

theorem objectVal_w {P : String → Prop} {ns : List String} {vs : List Value} (hall : ∀ v ∈ vs, W P v) :
    W P (objectVal ns vs) := w_payloads hall

theorem mem_marksOfAll : ∀ {vs : List Value} {m : String}, m ∈ marksOfAll vs → ∃ v ∈ vs, m ∈ v.marksDeep
  | [], m, h => by simp [marksOfAll] at h
  | v :: vs, m, h => by
    simp only [marksOfAll] at h
    rcases CtyModel.mem_unionMarks.mp h with h | h
    · exact ⟨v, by simp, h⟩
    · obtain ⟨w, hw, hm⟩ := mem_marksOfAll h
      exact ⟨w, List.mem_cons_of_mem _ hw, hm⟩

/-- `SetVal`: the marks of the set are marks of the elements; the members carry none -/
theorem setVal_w {E : Env} {P : String → Prop} {vs : List Value} {r : Value} (hall : ∀ v ∈ vs, W P v)
    (h : Convert.setVal E vs = .ok r) : W P r := by
  unfold Convert.setVal at h
  split at h
  · simp at h
  · split at h
    · simp at h
    · obtain ⟨p, hp, rfl⟩ := mapOk h
      unfold newSet at hp
      obtain ⟨bs, hbs, rfl⟩ := mapOk hp
      intro m hm
      rcases Value.mem_marksDeep_withMarks.mp hm with h1 | h1
      · obtain ⟨v, hv, hmv⟩ := mem_marksOfAll h1
        exact hall v hv m hmv
      · exfalso
        have h1' : m ∈ Payload.marksDeepL (bs.map (·.2)) := h1
        obtain ⟨q, hq, hmq⟩ := Payload.mem_marksDeepL.mp h1'
        obtain ⟨y, hy, rfl⟩ := List.mem_map.mp hq
        rcases newSetAcc_mem hbs y hy with h2 | h2
        · obtain ⟨v, _, hv⟩ := List.mem_map.mp h2
          rw [← hv, Payload.marksDeep_stripMarks] at hmq
          simp at hmq
        · simp at h2

theorem stripNull_w {P : String → Prop} {v : Value} (h : W P v) : W P (stripNull v) := by
  unfold stripNull
  split
  · intro m hm
    rcases Value.mem_marksDeep_withMarks.mp hm with h1 | h1
    · exact h m (Value.marks_subset_marksDeep h1)
    · simp [Value.null, Value.marksDeep, Payload.marksDeep] at h1
  · exact h

theorem null_w {P : String → Prop} (t : Ty) : W P (Value.null t) := W.of_nil rfl

/-! ### loops -/

theorem lookupVal_mem' {k : String} {v : Value} : ∀ {ns : List String} {vs : List Value},
    lookupVal k ns vs = some v → v ∈ vs
  | [], _, h => by simp [lookupVal] at h
  | _ :: _, [], h => by simp [lookupVal] at h
  | n :: ns, w :: ws, h => by
    simp only [lookupVal] at h
    split at h
    · simp at h; subst h; simp
    · exact List.mem_cons_of_mem _ (lookupVal_mem' h)

theorem objFill_w {P : String → Prop} {names : List String} {vals : List Value} (hv : ∀ v ∈ vals, W P v) :
    ∀ (ns : List String) (ts : List Ty) (os : List Bool), ∀ v ∈ (objFill names vals ns ts os).2, W P v
  | [], _, _ => by simp [objFill]
  | _ :: _, [], _ => by simp [objFill]
  | _ :: _, _ :: _, [] => by simp [objFill]
  | n :: ns, t :: ts, o :: os => by
    intro v hmem
    simp only [objFill] at hmem
    have ih := objFill_w (names := names) hv ns ts os
    split at hmem
    · rename_i w hw
      rcases List.mem_cons.mp hmem with rfl | h
      · exact hv _ (lookupVal_mem' hw)
      · exact ih v h
    · split at hmem
      · rcases List.mem_cons.mp hmem with rfl | h
        · exact null_w _
        · exact ih v h
      · exact ih v hmem

theorem mapObjFill_w {P : String → Prop} {keys : List String} {vals : List Value} (hv : ∀ v ∈ vals, W P v) :
    ∀ (ns : List String) (ts : List Ty) (os : List Bool) (rs : List Value),
      mapObjFill keys vals ns ts os = .ok rs → ∀ v ∈ rs, W P v
  | [], _, _, rs, h => by simp [mapObjFill] at h; subst h; simp
  | _ :: _, [], _, rs, h => by simp [mapObjFill] at h; subst h; simp
  | _ :: _, _ :: _, [], rs, h => by simp [mapObjFill] at h; subst h; simp
  | n :: ns, t :: ts, o :: os, rs, h => by
    simp only [mapObjFill] at h
    split at h
    · rename_i w hw
      obtain ⟨rs', hrs', rfl⟩ := mapOk h
      intro v hmem
      rcases List.mem_cons.mp hmem with rfl | hm
      · exact hv _ (lookupVal_mem' hw)
      · exact mapObjFill_w hv ns ts os rs' hrs' v hm
    · split at h
      · obtain ⟨rs', hrs', rfl⟩ := mapOk h
        intro v hmem
        rcases List.mem_cons.mp hmem with rfl | hm
        · exact null_w _
        · exact mapObjFill_w hv ns ts os rs' hrs' v hm
      · simp at h

theorem mapRes_w {P : String → Prop} {f : Value → Res Value} (hf : ∀ x y, W P x → f x = .ok y → W P y) :
    ∀ (xs ys : List Value), (∀ x ∈ xs, W P x) → mapRes f xs = .ok ys → ∀ y ∈ ys, W P y
  | [], ys, _, h => by simp [mapRes] at h; subst h; simp
  | x :: xs, ys, hx, h => by
    simp only [mapRes] at h
    obtain ⟨b, hb, h⟩ := bindOk h
    obtain ⟨bs, hbs, h⟩ := bindOk h
    simp at h; subst h
    intro y hy
    rcases List.mem_cons.mp hy with rfl | hy
    · exact hf x _ (hx x (by simp)) hb
    · exact mapRes_w hf xs bs (fun z hz => hx z (List.mem_cons_of_mem _ hz)) hbs y hy

section
variable {rec : Rec} (hrec : NoInv rec)
include hrec

theorem applyOpt_w {P : String → Prop} {p : Plan} {v r : Value} (hv : W P v) (h : applyOpt rec p v = .ok r) :
    W P r := by
  cases p
  case nil => simp [applyOpt] at h; subst h; exact hv
  all_goals exact (hrec _ _ _ h).mono hv

theorem applyZip_w {P : String → Prop} {post : Value → Value} (hpost : ∀ x, W P x → W P (post x)) :
    ∀ (ps : List Plan) (vs rs : List Value), (∀ v ∈ vs, W P v) → applyZip rec post ps vs = .ok rs →
      ∀ r ∈ rs, W P r
  | ps, [], rs, _, h => by cases ps <;> (simp [applyZip] at h; subst h; simp)
  | [], _ :: _, rs, _, h => by simp [applyZip] at h
  | p :: ps, v :: vs, rs, hv, h => by
    simp only [applyZip] at h
    obtain ⟨v', hv', h⟩ := bindOk h
    obtain ⟨vs', hvs', h⟩ := bindOk h
    simp at h; subst h
    intro r hr
    rcases List.mem_cons.mp hr with rfl | hr
    · exact hpost _ (applyOpt_w hrec (hv v (by simp)) hv')
    · exact applyZip_w hpost ps vs vs' (fun z hz => hv z (List.mem_cons_of_mem _ hz)) hvs' r hr

theorem unifyElems_w {P : String → Prop} (E : Env) (uns : Bool) {vs rs : List Value} (hv : ∀ v ∈ vs, W P v)
    (h : unifyElems E rec uns vs = .ok rs) : ∀ r ∈ rs, W P r := by
  unfold unifyElems at h
  split at h
  · simp at h
  · refine mapRes_w ?_ vs rs hv h
    intro x y hx hxy
    split at hxy
    · simp at hxy; subst hxy; exact hx
    · split at hxy
      · simp at hxy
      · exact (hrec _ _ _ hxy).mono hx

theorem convertWith_w (E : Env) {v r : Value} {want : Ty} (h : convertWith E rec v want = .ok r) :
    W (From v) r := by
  unfold convertWith at h
  split at h
  · simp at h; subst h; exact W.self _
  · split at h
    · simp at h
    · exact hrec _ _ _ h

theorem objAttrLoop_w {P : String → Prop} (keys : List String) (convs : List Plan) :
    ∀ (ns : List String) (vs : List Value) (r : List String × List Value), (∀ v ∈ vs, W P v) →
      objAttrLoop rec keys convs ns vs = .ok r → ∀ x ∈ r.2, W P x
  | [], _, r, _, h => by simp [objAttrLoop] at h; subst h; simp
  | _ :: _, [], r, _, h => by simp [objAttrLoop] at h; subst h; simp
  | n :: ns, v :: vs, r, hv, h => by
    simp only [objAttrLoop] at h
    have hvs : ∀ z ∈ vs, W P z := fun z hz => hv z (List.mem_cons_of_mem _ hz)
    split at h
    · exact objAttrLoop_w keys convs ns vs r hvs h
    · exact objAttrLoop_w keys convs ns vs r hvs h
    · obtain ⟨v', hv', h⟩ := bindOk h
      obtain ⟨r', hr', h⟩ := bindOk h
      simp at h; subst h
      intro x hx
      rcases List.mem_cons.mp hx with rfl | hx
      · exact stripNull_w (applyOpt_w hrec (hv v (by simp)) hv')
      · exact objAttrLoop_w keys convs ns vs r' hvs hr' x hx

theorem mapObjLoop_w {P : String → Prop} (names : List String) (tys : List Ty) (opts : List Bool) (convs : List Plan) :
    ∀ (ks : List String) (vs : List Value) (r : List String × List Value), (∀ v ∈ vs, W P v) →
      mapObjLoop rec names tys opts convs ks vs = .ok r → ∀ x ∈ r.2, W P x
  | [], _, r, _, h => by simp [mapObjLoop] at h; subst h; simp
  | _ :: _, [], r, _, h => by simp [mapObjLoop] at h; subst h; simp
  | k :: ks, v :: vs, r, hv, h => by
    simp only [mapObjLoop] at h
    have hvs : ∀ z ∈ vs, W P z := fun z hz => hv z (List.mem_cons_of_mem _ hz)
    split at h
    · exact mapObjLoop_w names tys opts convs ks vs r hvs h
    · obtain ⟨v', hv', h⟩ := bindOk h
      obtain ⟨r', hr', h⟩ := bindOk h
      simp at h; subst h
      intro x hx
      rcases List.mem_cons.mp hx with rfl | hx
      · apply stripNull_w
        split at hv'
        · simp at hv'
        · simp at hv'; subst hv'; exact hv v (by simp)
        · simp at hv'; subst hv'; exact hv v (by simp)
        · exact (hrec _ _ _ hv').mono (hv v (by simp))
      · exact mapObjLoop_w names tys opts convs ks vs r' hvs hr' x hx

/-- one closure body invents nothing if the nested calls do not -/
theorem applyStep_noinv (E : Env) : ∀ (p : Plan) (v r : Value), applyStep E rec p v = .ok r → W (From v) r := by
  intro p v r h
  cases p with
  | nil | impossible | absent => simp [applyStep] at h
  | dynPass => simp [applyStep] at h; subst h; exact W.self _
  | numToStr | boolToStr =>
    simp only [applyStep] at h
    split at h <;> simp at h
    subst h; exact W.of_nil rfl
  | strToNum =>
    simp only [applyStep] at h
    split at h
    · obtain ⟨x, _, rfl⟩ := mapOk h; exact W.of_nil rfl
    · simp at h
  | strToBool =>
    simp only [applyStep] at h
    split at h
    · split at h
      · simp at h; subst h; exact W.of_nil rfl
      · split at h
        · simp at h; subst h; exact W.of_nil rfl
        · simp at h
    · simp at h
  | emptyToSet _ | emptyToList _ | emptyToMap _ =>
    simp [applyStep] at h; subst h; exact W.of_nil rfl
  | wrap out conv =>
    simp only [applyStep] at h
    split at h
    · split at h
      · rename_i r0 hr0
        simp at h; subst h
        intro m hm
        rcases Value.mem_marksDeep_withMarks.mp hm with h1 | h1
        · exact Value.marks_subset_marksDeep h1
        · exact Value.marksDeep_unmark_subset (hrec _ _ _ hr0 m h1)
      · rename_i hne
        exact absurd h (fun hh => hne _ hh)
    · split at h
      · simp at h; subst h; exact W.self _
      · split at h
        · split at h
          · split at h
            · obtain ⟨rng, _, h⟩ := bindOk h
              exact W.of_nil (prepareUnknownResult_clean h)
            · simp at h; subst h; exact W.of_nil rfl
          all_goals simp at h
        · exact hrec _ _ _ h
  | dynFixup want =>
    simp only [applyStep] at h
    split at h
    · rename_i r0 hr0
      simp at h; subst h
      exact convertWith_w hrec E hr0
    · simp at h
    · rename_i hne _
      exact absurd h (fun hh => hne _ hh)
  | objToObj keys convs on ot oo =>
    simp only [applyStep] at h
    obtain ⟨es, hes, h⟩ := bindOk h
    obtain ⟨q, hq, h⟩ := bindOk h
    simp at h; subst h
    exact objectVal_w (objFill_w (objAttrLoop_w hrec keys convs _ es q (elemsOf_w hes) hq) on ot oo)
  | tupToTup convs =>
    simp only [applyStep] at h
    obtain ⟨es, hes, h⟩ := bindOk h
    obtain ⟨es', hes', h⟩ := bindOk h
    simp at h; subst h
    exact tupleVal_w (applyZip_w hrec (fun x hx => hx) convs es es' (elemsOf_w hes) hes')
  | collToList ety conv =>
    simp only [applyStep] at h
    split at h
    · split at h
      · obtain ⟨ie, _, h⟩ := bindOk h
        simp at h; subst h; exact W.of_nil rfl
      · simp at h; subst h; exact W.of_nil rfl
    · obtain ⟨es, hes, h⟩ := bindOk h
      obtain ⟨es', hes', h⟩ := bindOk h
      have hw := mapRes_w (P := From v) (f := fun e => (applyOpt rec conv e).map stripNull)
        (fun x y hx hxy => by
          obtain ⟨y0, hy0, rfl⟩ := mapOk hxy
          exact stripNull_w (applyOpt_w hrec hx hy0)) es es' (elemsOf_w hes) hes'
      split at h
      · split at h
        · obtain ⟨ie, _, h⟩ := bindOk h
          obtain ⟨t, _, h⟩ := bindOk h
          simp at h; subst h; exact W.of_nil rfl
        · simp at h; subst h; exact W.of_nil rfl
      · split at h
        · simp at h
        · exact listVal_w hw h
  | collToSet ety conv =>
    simp only [applyStep] at h
    obtain ⟨es, hes, h⟩ := bindOk h
    obtain ⟨es', hes', h⟩ := bindOk h
    have hw := mapRes_w (P := From v) (f := fun e => (applyOpt rec conv e).map stripNull)
      (fun x y hx hxy => by
        obtain ⟨y0, hy0, rfl⟩ := mapOk hxy
        exact stripNull_w (applyOpt_w hrec hx hy0)) es es' (elemsOf_w hes) hes'
    split at h
    · split at h
      · obtain ⟨ie, _, h⟩ := bindOk h
        obtain ⟨t, _, h⟩ := bindOk h
        simp at h; subst h; exact W.of_nil rfl
      · simp at h; subst h; exact W.of_nil rfl
    · split at h
      · simp at h
      · exact setVal_w hw h
  | collToMap ety conv =>
    simp only [applyStep] at h
    obtain ⟨es, hes, h⟩ := bindOk h
    obtain ⟨es', hes', h⟩ := bindOk h
    have hw := mapRes_w (P := From v) (f := fun e => applyOpt rec conv e)
      (fun x y hx hxy => applyOpt_w hrec hx hxy) es es' (elemsOf_w hes) hes'
    split at h
    · split at h
      · obtain ⟨ie, _, h⟩ := bindOk h
        obtain ⟨t, _, h⟩ := bindOk h
        simp at h; subst h; exact W.of_nil rfl
      · simp at h; subst h; exact W.of_nil rfl
    · obtain ⟨es'', hes'', h⟩ := bindOk h
      have hw' : ∀ x ∈ es'', W (From v) x := by
        split at hes''
        · exact unifyElems_w hrec E false hw hes''
        · simp at hes''; subst hes''; exact hw
      split at h
      · simp at h
      · exact mapVal_w hw' h
  | tupToSet convs =>
    simp only [applyStep] at h
    obtain ⟨es, hes, h⟩ := bindOk h
    obtain ⟨es', hes', h⟩ := bindOk h
    have hw := applyZip_w hrec (P := From v) (post := stripNull) (fun x hx => stripNull_w hx) convs es es'
      (elemsOf_w hes) hes'
    split at h
    · simp at h
    · exact setVal_w hw h
  | tupToList convs uns =>
    simp only [applyStep] at h
    obtain ⟨es, hes, h⟩ := bindOk h
    obtain ⟨es', hes', h⟩ := bindOk h
    obtain ⟨es'', hes'', h⟩ := bindOk h
    have hw := applyZip_w hrec (P := From v) (post := id) (fun x hx => hx) convs es es' (elemsOf_w hes) hes'
    have hw' := unifyElems_w hrec E uns hw hes''
    split at h
    · simp at h
    · exact listVal_w hw' h
  | objToMap keys convs mapEty uns =>
    simp only [applyStep] at h
    obtain ⟨es, hes, h⟩ := bindOk h
    obtain ⟨es', hes', h⟩ := bindOk h
    obtain ⟨es'', hes'', h⟩ := bindOk h
    have hw := applyZip_w hrec (P := From v) (post := id) (fun x hx => hx) _ es es' (elemsOf_w hes) hes'
    have hw' : ∀ x ∈ es'', W (From v) x := by
      split at hes''
      · exact unifyElems_w hrec E uns hw hes''
      · simp at hes''; subst hes''; exact hw
    split at h
    · simp at h
    · exact mapVal_w hw' h
  | mapToObj names tys opts convs =>
    simp only [applyStep] at h
    obtain ⟨es, hes, h⟩ := bindOk h
    obtain ⟨q, hq, h⟩ := bindOk h
    obtain ⟨vals, hvals, h⟩ := bindOk h
    simp at h; subst h
    exact objectVal_w (mapObjFill_w (mapObjLoop_w hrec names tys opts convs _ es q (elemsOf_w hes) hq) names tys opts vals hvals)

end

/-- **No invention, real conversion model**: whatever plan is applied to whatever value
with whatever fuel and environment, every mark at any depth of the result is somewhere in
the input. -/
theorem apply_noinv (E : Env) : ∀ (fuel : Nat), NoInv (apply E fuel)
  | 0 => fun _ _ _ h => by simp [apply] at h
  | fuel + 1 => fun p v r h => applyStep_noinv (apply_noinv E fuel) E p v r h

/-- `convert.Convert` invents no mark -/
theorem convert_noinv (E : Env) (fuel : Nat) (v : Value) (want : Ty) (r : Value)
    (h : convert E fuel v want = .ok r) : ∀ m ∈ r.marksDeep, m ∈ v.marksDeep :=
  convertWith_w (apply_noinv E fuel) E h

/-! ### the wrapper of the real model is `convWrap` around the real closure -/

/-- the closure `getConversion` returns, on a marked value, IS `Value.convWrap` (the
two-line wrapper the old C04 conversion theorems are about) around the same closure with
one unit of fuel less: the `inner` of those theorems is instantiated by the real model -/
theorem apply_wrap_eq_convWrap (E : Env) (fuel : Nat) (out : Ty) (conv : Plan) (v : Value)
    (hm : v.isMarked = true) :
    apply E (fuel + 1) (.wrap out conv) v = Value.convWrap (apply E fuel (.wrap out conv)) v := by
  simp only [apply, applyStep, Value.convWrap, hm, if_true]
  cases apply E fuel (.wrap out conv) v.unmark <;> rfl

/-- **No loss at the top, real model**: every top-level mark of the converted value is on
the result of `convert.Convert`. -/
theorem convert_top_kept (E : Env) (fuel : Nat) (v : Value) (want : Ty) (r : Value)
    (h : convert E fuel v want = .ok r) (m : String) (hm : m ∈ v.marks) : m ∈ r.marks := by
  have hmk : v.isMarked = true := by
    cases hv : v.isMarked
    · rw [Value.marks_of_not_marked hv] at hm; simp at hm
    · rfl
  unfold convert convertWith at h
  split at h
  · simp at h; subst h; exact hm
  · split at h
    · simp at h
    · rename_i p hp
      obtain ⟨c, _, rfl⟩ := Option.map_eq_some_iff.mp hp
      cases fuel with
      | zero => simp [apply] at h
      | succ fuel =>
        rw [apply_wrap_eq_convWrap E fuel want c v hmk] at h
        simp only [Value.convWrap, hmk, if_true] at h
        obtain ⟨r0, _, rfl⟩ := mapOk h
        exact Value.mem_marks_withMarks.mpr (.inr hm)

end D04C
end CtyModel
