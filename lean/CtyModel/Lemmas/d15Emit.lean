/-
C15 (d15) — vocabulary for the regenerated fact `Generated.jsonEmitEvents` (everything
cty/json's `marshal` / `marshalDynamic` do with their output buffer, re-read from
marshal.go on every check by extract/jsonemit.go, which fails closed on any other use of
the buffer).  The predicates say what the token-level model takes for granted about the
byte level; `Props/C15.lean` decides them over the regenerated table.
-/
import CtyModel.Generated.JsonEmit
namespace CtyModel
namespace JsonEmit
open Generated

/-- verbatim writes: JSON punctuation and the three keyword literals, and the two halves of
the wrapper object of `marshalDynamic` (whose keys are therefore fixed ASCII literals) -/
def literalWrites : List (String × String) :=
  [("WriteString", "\"null\""), ("WriteString", "\"true\""), ("WriteString", "\"false\""),
   ("WriteString", "`{\"value\":`"), ("WriteString", "`,\"type\":`"),
   ("WriteRune", "'['"), ("WriteRune", "']'"), ("WriteRune", "'{'"), ("WriteRune", "'}'"),
   ("WriteRune", "','"), ("WriteRune", "':'")]

/-- the one place where the contents of a cty string become bytes: Go's own JSON string
encoder applied to the string -/
def stringWrite : JsonEmitEvent :=
  { fn := "marshal", branch := "cty.String", kind := "write", method := "Write", arg := "json",
    src := "json.Marshal(val.AsString())" }

/-- computed writes: (method, argument, the expression the argument was assigned from) — each
the output of another encoder: `json.Marshal` of the string, math/big's decimal text of the
number, `json.Marshal` of a capsule's Go value, `MarshalType` of the value's type -/
def computedWrites : List (String × String × String) :=
  [(stringWrite.method, stringWrite.arg, stringWrite.src),
   ("WriteString", "val.AsBigFloat().Text('f', -1)", ""),
   ("Write", "jsonVal", "json.Marshal(rawVal)"),
   ("Write", "typeJSON", "MarshalType(val.Type())")]

def okWrite (e : JsonEmitEvent) : Bool :=
  (e.src == "" && literalWrites.contains (e.method, e.arg)) || computedWrites.contains (e.method, e.arg, e.src)

/-- every write is a literal of the table or one of the four computed writes -/
def allWritesOk (es : List JsonEmitEvent) : Bool :=
  es.all fun e => (e.kind == "call") || (e.kind == "write" && okWrite e)

/-- what is done immediately before each `:` is written, i.e. how a member NAME gets into the
output: (branch, kind, callee, value expression, type expression) -/
def nameEmitters : List JsonEmitEvent → List (String × String × String × String × String)
  | a :: b :: rest =>
    (if b.kind == "write" && b.arg == "':'" then [(a.branch, a.kind, a.method, a.arg, a.src)] else []) ++
      nameEmitters (b :: rest)
  | _ => []

/-- the events of one `case` of `marshal` -/
def branchEvents (br : String) (es : List JsonEmitEvent) : List JsonEmitEvent :=
  es.filter fun e => e.fn == "marshal" && e.branch == br

end JsonEmit
end CtyModel
