/-
d08b, part 3: small facts for the frontier of the recorded C08 findings and for unknown sets.
-/
import CtyModel.Lemmas.ConvertUnknown
import CtyModel.Lemmas.ConvertProps
namespace CtyModel
namespace D08B
open Convert

/-- `Env.simple` with an EXACT member equivalence on primitive members (equal numbers, strings,
bools are equivalent): members that convert to the same value coalesce, as in the real
`setRules.Equivalent` on mark-free known primitive values -/
def envExact : Env :=
  { Env.simple with
    equiv := fun _ a b => match a, b with
      | .n x, .n y => .ok (Num.rawEqual x y)
      | .s x, .s y => .ok (x == y)
      | .b x, .b y => .ok (x == y)
      | _, _ => .ok false }

theorem unifyLaws_exact : UnifyLaws envExact where
  same := unifyLaws_simple.same

/-- the length bounds of the range of a collection-typed value are always defined -/
theorem lenBounds_defined (rng : Refine.ValueRange) (h : Refine.isCollectionTy rng.ty = true) :
    ∃ lo hi, rng.lengthLowerBound = .ok lo ∧ rng.lengthUpperBound = .ok hi := by
  obtain ⟨t, raw⟩ := rng
  cases t <;> simp [Refine.isCollectionTy] at h <;>
    cases raw <;> simp [Refine.ValueRange.lengthLowerBound, Refine.ValueRange.lengthUpperBound, Refine.isCollectionTy]

end D08B
end CtyModel
