/-
d08b, part 3: small facts for the frontier of the recorded C08 findings and for unknown sets.
-/
import CtyModel.Lemmas.ConvertUnknown
import CtyModel.Lemmas.ConvertProps
import CtyModel.Lemmas.ConvertType
namespace CtyModel
namespace D08B
open Convert

/-- `Env.simple` with an EXACT member equivalence on primitive members (equal numbers, strings,
bools are equivalent): members that convert to the same value coalesce, as in the real
`setRules.Equivalent` on mark-free known primitive values -/
def envExact : Env :=
  { Env.simple with
    equiv := fun _ a b => match a, b with
      | .n x, .n y => .ok (Num.rawEqual x y)
      | .s x, .s y => .ok (x == y)
      | .b x, .b y => .ok (x == y)
      | _, _ => .ok false }

theorem unifyLaws_exact : UnifyLaws envExact where
  same := unifyLaws_simple.same

/-- the length bounds of the range of a collection-typed value are always defined -/
theorem lenBounds_defined (rng : Refine.ValueRange) (h : Refine.isCollectionTy rng.ty = true) :
    ∃ lo hi, rng.lengthLowerBound = .ok lo ∧ rng.lengthUpperBound = .ok hi := by
  obtain ⟨t, raw⟩ := rng
  cases t <;> simp [Refine.isCollectionTy] at h <;>
    cases raw <;> simp [Refine.ValueRange.lengthLowerBound, Refine.ValueRange.lengthUpperBound, Refine.isCollectionTy]

/-! ### unknown and null inputs DO resolve placeholders

`dynamicReplace(in, out)` — the type an unknown or null input is given — fills every placeholder of
`out` from `in` when the two types have the same shape (`covered`: no `unify` is consulted: lists and
sets against lists and sets, maps against maps, tuples against tuples of the same length, objects
against objects or maps; an attribute `in` lacks must be placeholder-free). -/

mutual
def covered : (inT out : Ty) → Bool
  | inT, out =>
    match out with
    | .dyn | .bool | .number | .string | .capsule _ => true
    | .map oe =>
      match inT with
      | .map ie => covered ie oe
      | _ => false
    | .list oe | .set oe =>
      match inT with
      | .list ie | .set ie => covered ie oe
      | _ => false
    | .tuple ots =>
      match inT with
      | .tuple its => its.length == ots.length && coveredTup its 0 ots
      | _ => false
    | .object on ots _ =>
      match inT with
      | .map ie => coveredAll ie ots
      | .object inn its ios => coveredObj inn its ios on ots
      | _ => false
termination_by structural _ out => out
def coveredAll : Ty → List Ty → Bool
  | _, [] => true
  | ie, o :: os => covered ie o && coveredAll ie os
termination_by structural _ os => os
def coveredObj : List String → List Ty → List Bool → List String → List Ty → Bool
  | inn, its, ios, n :: ns, o :: os =>
    (match Ty.find n inn its ios with
     | none => !Ty.hasDyn o
     | some (ity, _) => covered ity o) && coveredObj inn its ios ns os
  | _, _, _, _, _ => true
termination_by structural _ _ _ _ os => os
def coveredTup : List Ty → Nat → List Ty → Bool
  | _, _, [] => true
  | its, ix, o :: os =>
    (match its[ix]? with
     | none => false
     | some i => covered i o) && coveredTup its (ix + 1) os
termination_by structural _ _ os => os
end

theorem hasDynL_of_getElem? {its : List Ty} (h : Ty.hasDynL its = false) {ix : Nat} {i : Ty} (hi : its[ix]? = some i) :
    Ty.hasDyn i = false :=
  hasDynL_mem h i (List.mem_of_getElem? hi)

mutual
theorem dynRepl_noDyn (E : Env) : ∀ (inT out t : Ty), Ty.hasDyn inT = false → covered inT out = true →
    dynRepl E inT out = .ok t → Ty.hasDyn t = false
  | inT, .dyn, t, hd, _, h => by
    unfold dynRepl at h
    simp [not_isDyn_of_noDyn hd] at h; subst h; exact hd
  | inT, .bool, t, hd, _, h => by
    unfold dynRepl at h
    simp [not_isDyn_of_noDyn hd] at h; subst h; rfl
  | inT, .number, t, hd, _, h => by
    unfold dynRepl at h
    simp [not_isDyn_of_noDyn hd] at h; subst h; rfl
  | inT, .string, t, hd, _, h => by
    unfold dynRepl at h
    simp [not_isDyn_of_noDyn hd] at h; subst h; rfl
  | inT, .capsule _, t, hd, _, h => by
    unfold dynRepl at h
    simp [not_isDyn_of_noDyn hd] at h; subst h; rfl
  | inT, .map oe, t, hd, hc, h => by
    cases inT <;> simp [covered] at hc
    case map ie =>
      simp [dynRepl, Ty.isDyn] at h
      obtain ⟨u, hu, rfl⟩ := Res.map_eq_ok h
      simpa [Ty.hasDyn] using dynRepl_noDyn E ie oe u (by simpa [Ty.hasDyn] using hd) hc hu
  | inT, .list oe, t, hd, hc, h => by
    cases inT <;> simp [covered] at hc
    case list ie =>
      simp [dynRepl, Ty.isDyn] at h
      obtain ⟨u, hu, rfl⟩ := Res.map_eq_ok h
      simpa [Ty.hasDyn] using dynRepl_noDyn E ie oe u (by simpa [Ty.hasDyn] using hd) hc hu
    case set ie =>
      simp [dynRepl, Ty.isDyn] at h
      obtain ⟨u, hu, rfl⟩ := Res.map_eq_ok h
      simpa [Ty.hasDyn] using dynRepl_noDyn E ie oe u (by simpa [Ty.hasDyn] using hd) hc hu
  | inT, .set oe, t, hd, hc, h => by
    cases inT <;> simp [covered] at hc
    case list ie =>
      simp [dynRepl, Ty.isDyn] at h
      obtain ⟨u, hu, rfl⟩ := Res.map_eq_ok h
      simpa [Ty.hasDyn] using dynRepl_noDyn E ie oe u (by simpa [Ty.hasDyn] using hd) hc hu
    case set ie =>
      simp [dynRepl, Ty.isDyn] at h
      obtain ⟨u, hu, rfl⟩ := Res.map_eq_ok h
      simpa [Ty.hasDyn] using dynRepl_noDyn E ie oe u (by simpa [Ty.hasDyn] using hd) hc hu
  | inT, .tuple ots, t, hd, hc, h => by
    cases inT <;> simp [covered] at hc
    case tuple its =>
      simp [dynRepl, Ty.isDyn, hc.1] at h
      obtain ⟨us, hus, rfl⟩ := Res.map_eq_ok h
      simpa [Ty.hasDyn] using dynReplTup_noDyn E its 0 ots us (by simpa [Ty.hasDyn] using hd) hc.2 hus
  | inT, .object on ots oo, t, hd, hc, h => by
    cases inT <;> simp [covered] at hc
    case map ie =>
      simp [dynRepl, Ty.isDyn] at h
      obtain ⟨us, hus, rfl⟩ := Res.map_eq_ok h
      simpa [Ty.hasDyn] using dynReplAll_noDyn E ie ots us (by simpa [Ty.hasDyn] using hd) hc hus
    case object inn its ios =>
      simp [dynRepl, Ty.isDyn] at h
      obtain ⟨us, hus, rfl⟩ := Res.map_eq_ok h
      simpa [Ty.hasDyn] using dynReplObj_noDyn E inn its ios on ots us (by simpa [Ty.hasDyn] using hd) hc hus
termination_by structural _ out => out
theorem dynReplAll_noDyn (E : Env) : ∀ (ie : Ty) (os ts : List Ty), Ty.hasDyn ie = false → coveredAll ie os = true →
    dynReplAll E ie os = .ok ts → Ty.hasDynL ts = false
  | _, [], ts, _, _, h => by simp [dynReplAll] at h; subst h; rfl
  | ie, o :: os, ts, hd, hc, h => by
    simp only [coveredAll, Bool.and_eq_true] at hc
    rw [dynReplAll] at h
    split at h <;> try (simp at h; done)
    rename_i u hu
    obtain ⟨us, hus, rfl⟩ := Res.map_eq_ok h
    simp [Ty.hasDynL, dynRepl_noDyn E ie o u hd hc.1 hu, dynReplAll_noDyn E ie os us hd hc.2 hus]
termination_by structural _ os => os
theorem dynReplObj_noDyn (E : Env) : ∀ (inn : List String) (its : List Ty) (ios : List Bool) (ns : List String)
    (os ts : List Ty), Ty.hasDynL its = false → coveredObj inn its ios ns os = true →
    dynReplObj E inn its ios ns os = .ok ts → Ty.hasDynL ts = false
  | _, _, _, _, [], ts, _, _, h => by
    cases ‹List String› <;> simp [dynReplObj] at h <;> subst h <;> rfl
  | _, _, _, [], _ :: _, ts, _, _, h => by simp [dynReplObj] at h; subst h; rfl
  | inn, its, ios, n :: ns, o :: os, ts, hd, hc, h => by
    simp only [coveredObj, Bool.and_eq_true] at hc
    rw [dynReplObj] at h
    split at h
    · rename_i hf
      rw [hf] at hc
      obtain ⟨us, hus, rfl⟩ := Res.map_eq_ok h
      simp [Ty.hasDynL, (by simpa using hc.1 : Ty.hasDyn o = false), dynReplObj_noDyn E inn its ios ns os us hd hc.2 hus]
    · rename_i ity _ hf
      rw [hf] at hc
      split at h <;> try (simp at h; done)
      rename_i u hu
      obtain ⟨us, hus, rfl⟩ := Res.map_eq_ok h
      have hdi : Ty.hasDyn ity = false := hasDynL_mem hd ity (find_mem_ty hf)
      simp [Ty.hasDynL, dynRepl_noDyn E ity o u hdi hc.1 hu, dynReplObj_noDyn E inn its ios ns os us hd hc.2 hus]
termination_by structural _ _ _ _ os => os
theorem dynReplTup_noDyn (E : Env) : ∀ (its : List Ty) (ix : Nat) (os ts : List Ty), Ty.hasDynL its = false →
    coveredTup its ix os = true → dynReplTup E (.tuple its) ix os = .ok ts → Ty.hasDynL ts = false
  | _, _, [], ts, _, _, h => by simp [dynReplTup] at h; subst h; rfl
  | its, ix, o :: os, ts, hd, hc, h => by
    simp only [coveredTup, Bool.and_eq_true] at hc
    rw [dynReplTup] at h
    split at h
    · rename_i hi; rw [hi] at hc; simp at hc
    · rename_i i hi
      rw [hi] at hc
      split at h <;> try (simp at h; done)
      rename_i u hu
      obtain ⟨us, hus, rfl⟩ := Res.map_eq_ok h
      simp [Ty.hasDynL, dynRepl_noDyn E i o u (hasDynL_of_getElem? hd hi) hc.1 hu,
        dynReplTup_noDyn E its (ix + 1) os us hd hc.2 hus]
termination_by structural _ _ os => os
end

end D08B
end CtyModel
