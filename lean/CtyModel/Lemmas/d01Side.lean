/- the driver's copies of the side conditions (CtyModel/d01Side.lean) are the side
conditions of the theorems -/
import CtyModel.d01Side
import CtyModel.Lemmas.d01Mul
import CtyModel.Lemmas.d01Len
namespace CtyModel
namespace D01
open Value

theorem sgnm_eq : @D01.sgnm = @NumCmp.sgnm := rfl
theorem isFin_eq : @D01.isFin = @Num.isFin := by funext a; cases a <;> rfl
theorem numBounds_eq : @D01.numBounds = @CtyModel.numBounds := rfl
theorem cornerOf_eq : @D01.cornerOf = @CtyModel.cornerOf := rfl

theorem cohOK_eq (op : Num → Num → Res Num) (l1 h1 l2 h2 : Num) :
    D01.cohOK op l1 h1 l2 h2 = CtyModel.cohOK (newMinOf op l1 h1 l2 h2) (newMaxOf op l1 h1 l2 h2) := rfl

theorem addFitsP_eq : @D01.addFitsP = @Num.addFitsP := by
  funext a b p; cases a <;> cases b <;> rfl

theorem addSafe_eq : @D01.addSafe = @Num.addSafe := by
  funext a b c d
  simp only [D01.addSafe, Num.addSafe, isFin_eq, addFitsP_eq]

theorem sideAdd_eq : @D01.sideAdd = @CornerSafeAdd := by
  funext a b c d
  simp only [D01.sideAdd, CornerSafeAdd, addSafe_eq, cohOK_eq, numBounds_eq]
  rfl

theorem sideSub_eq : @D01.sideSub = @CornerSafeSub := by
  funext a b c d
  simp only [D01.sideSub, CornerSafeSub, addSafe_eq, cohOK_eq, numBounds_eq]
  rfl

theorem zeroBounded_eq : @D01.zeroBounded = @CtyModel.zeroBounded := rfl
theorem zeroBoundsNumber_eq : @D01.zeroBoundsNumber = @ZeroBoundsNumber := rfl

theorem sideMul_eq (w₁ w₂ o₁ o₂ : Value) :
    D01.sideMul w₁ w₂ o₁ o₂ = (CohMul w₁ w₂ && ZeroBoundsNumber w₁ o₁ && ZeroBoundsNumber w₂ o₂) := by
  simp only [D01.sideMul, CohMul, cohOK_eq, numBounds_eq, zeroBoundsNumber_eq]
  rfl

theorem setCountOK_eq : @D01.setCountOK = @SetCountOK := rfl

end D01
end CtyModel
