/-
`shaped`: the shape every value built through the public API has — the payload
constructor is the one the type dictates at every depth, tuple/object payloads
line up with the type, map keys are distinct, object keys are the attribute
names, one marker layer per node, nothing marked inside a set, slice lengths fit
a Go `int`.  A decidable predicate, used as a hypothesis by the theorems about
paths and transforms, and inherited by every member (`shaped_kids`).
-/
import CtyModel.Lemmas.WalkBase
namespace CtyModel
namespace Walk

mutual
def shaped : Ty → Payload → Bool
  | t, .marked ms r => !ms.isEmpty && !r.isMarked && shaped t r
  | _, .null => true
  | _, .unk _ => true
  | .bool, .b _ => true
  | .number, .n _ => true
  | .string, .s _ => true
  | .capsule _, .caps => true
  | .list e, .seq vs => decide ((vs.length : Int) ≤ maxInt) && shapedAll e vs
  | .set e, .sset ids vs => ids.length == vs.length && !Payload.containsMarkedL vs && shapedAll e vs
  | .map e, .smap ks vs => ks.length == vs.length && decide ks.Nodup && shapedAll e vs
  | .tuple ts, .seq vs =>
    ts.length == vs.length && decide ((vs.length : Int) ≤ maxInt) && shapedZip ts vs
  | .object ns ts os, .smap ks vs =>
    ks == ns && ns.length == ts.length && os.length == ts.length && ts.length == vs.length &&
      decide ns.Nodup && shapedZip ts vs
  | _, _ => false
def shapedAll : Ty → List Payload → Bool
  | _, [] => true
  | e, v :: vs => shaped e v && shapedAll e vs
def shapedZip : List Ty → List Payload → Bool
  | t :: ts, v :: vs => shaped t v && shapedZip ts vs
  | _, _ => true
end

def shapedV (v : Value) : Bool := shaped v.ty v.v

theorem shapedAll_mem {e : Ty} : ∀ {vs : List Payload}, shapedAll e vs = true → ∀ m ∈ vs, shaped e m = true
  | [], _, _, hm => by cases hm
  | v :: vs, h, m, hm => by
    simp only [shapedAll, Bool.and_eq_true] at h
    rcases List.mem_cons.mp hm with rfl | hm
    · exact h.1
    · exact shapedAll_mem h.2 m hm

theorem shaped_unmark1 {t : Ty} {p : Payload} (h : shaped t p = true) : shaped t p.unmark1 = true := by
  cases p <;> simp only [Payload.unmark1] <;> try exact h
  simp only [shaped, Bool.and_eq_true] at h
  exact h.2

theorem shaped_unmark1_notMarked {t : Ty} {p : Payload} (h : shaped t p = true) :
    p.unmark1.isMarked = false := by
  cases p <;> simp only [Payload.unmark1, Payload.isMarked]
  simp only [shaped, Bool.and_eq_true, Bool.not_eq_true'] at h
  exact h.1.2

theorem seqKids_shaped {e : Ty} : ∀ (i : Nat) (vs : List Payload), shapedAll e vs = true →
    ∀ c ∈ seqKids e i vs, shapedV c.2 = true
  | _, [], _, _, h => by simp [seqKids] at h
  | i, v :: vs, hs, c, h => by
    simp only [shapedAll, Bool.and_eq_true] at hs
    simp only [seqKids, List.mem_cons] at h
    rcases h with rfl | h
    · exact hs.1
    · exact seqKids_shaped (i + 1) vs hs.2 c h

theorem mapKids_shaped {e : Ty} : ∀ (ks : List String) (vs : List Payload), shapedAll e vs = true →
    ∀ c ∈ mapKids e ks vs, shapedV c.2 = true
  | [], _, _, _, h => by simp [mapKids] at h
  | _ :: _, [], _, _, h => by simp [mapKids] at h
  | k :: ks, v :: vs, hs, c, h => by
    simp only [shapedAll, Bool.and_eq_true] at hs
    simp only [mapKids, List.mem_cons] at h
    rcases h with rfl | h
    · exact hs.1
    · exact mapKids_shaped ks vs hs.2 c h

theorem setKids_shaped {e : Ty} : ∀ (ms : List Payload), (∀ m ∈ ms, shaped e m = true) →
    ∀ c ∈ setKids e ms, shapedV c.2 = true
  | [], _, _, h => by simp [setKids] at h
  | m :: ms, hs, c, h => by
    simp only [setKids, List.mem_cons] at h
    rcases h with rfl | h
    · exact hs m (by simp)
    · exact setKids_shaped ms (fun x hx => hs x (List.mem_cons_of_mem _ hx)) c h

theorem tupKids_shaped : ∀ (i : Nat) (ts : List Ty) (vs : List Payload), shapedZip ts vs = true →
    ∀ c ∈ tupKids i ts vs, shapedV c.2 = true
  | _, [], _, _, _, h => by simp [tupKids] at h
  | _, _ :: _, [], _, _, h => by simp [tupKids] at h
  | i, t :: ts, v :: vs, hs, c, h => by
    simp only [shapedZip, Bool.and_eq_true] at hs
    simp only [tupKids, List.mem_cons] at h
    rcases h with rfl | h
    · exact hs.1
    · exact tupKids_shaped (i + 1) ts vs hs.2 c h

theorem objKids_shaped : ∀ (ns : List String) (ts : List Ty) (vs : List Payload),
    shapedZip ts vs = true → ∀ c ∈ objKids ns ts vs, shapedV c.2 = true
  | [], _, _, _, _, h => by simp [objKids] at h
  | _ :: _, [], _, _, _, h => by simp [objKids] at h
  | _ :: _, _ :: _, [], _, _, h => by simp [objKids] at h
  | n :: ns, t :: ts, v :: vs, hs, c, h => by
    simp only [shapedZip, Bool.and_eq_true] at hs
    simp only [objKids, List.mem_cons] at h
    rcases h with rfl | h
    · exact hs.1
    · exact objKids_shaped ns ts vs hs.2 c h

/-- members of a shaped (unmarked) value are shaped -/
theorem children_shaped {X : SetOracle} (hX : IterPerm X) (v : Value) (h : shapedV v = true)
    (c : PathStep × Value) (hc : c ∈ children X v) : shapedV c.2 = true := by
  obtain ⟨ty, p⟩ := v
  cases ty <;> cases p <;> simp only [children, List.not_mem_nil] at hc <;>
    simp only [shapedV, shaped, Bool.and_eq_true] at h
  · exact seqKids_shaped _ _ h.2 c hc
  · exact setKids_shaped _ (fun m hm => shapedAll_mem h.2 m ((hX _ _ _).mem_iff.mp hm)) c hc
  · exact mapKids_shaped _ _ h.2 c hc
  · exact tupKids_shaped _ _ _ h.2 c hc
  · exact objKids_shaped _ _ _ h.2 c hc

theorem kids_shaped {X : SetOracle} (hX : IterPerm X) (v : Value) (h : shapedV v = true)
    (c : PathStep × Value) (hc : c ∈ kids X v) : shapedV c.2 = true := by
  simp only [kids] at hc
  split at hc
  · cases hc
  · exact children_shaped hX v.unmark (shaped_unmark1 h) c hc

/-- every position of a shaped value holds a shaped member -/
theorem nodeAt_shaped {X : SetOracle} (hX : IterPerm X) : ∀ (r : Pos) (v n : Value),
    shapedV v = true → nodeAt X v r = some n → shapedV n = true
  | [], v, n, h, hn => by simp only [nodeAt, Option.some.injEq] at hn; exact hn ▸ h
  | j :: r, v, n, h, hn => by
    simp only [nodeAt] at hn
    split at hn
    · rename_i c hj
      exact nodeAt_shaped hX r c.2 n (kids_shaped hX v h c (List.mem_of_getElem? hj)) hn
    · cases hn

/-- the raw payload of a shaped, known, non-null value is the one its type dictates -/
theorem shaped_known_cases {t : Ty} {raw : Payload} (hs : shaped t raw = true)
    (hm : raw.isMarked = false) (hnull : raw ≠ .null) (hknown : ∀ r, raw ≠ .unk r) :
    match t with
    | .list _ => ∃ vs, raw = .seq vs
    | .tuple ts => ∃ vs, raw = .seq vs ∧ ts.length = vs.length
    | .map _ => ∃ ks vs, raw = .smap ks vs
    | .set _ => ∃ ids vs, raw = .sset ids vs
    | .object ns ts os => ∃ vs, raw = .smap ns vs ∧ ns.length = ts.length ∧ os.length = ts.length
    | _ => True := by
  cases t <;> cases raw <;>
    first
    | trivial
    | (exfalso; exact Bool.noConfusion (show false = true from hs))
    | (exfalso; exact hnull rfl)
    | (exfalso; exact hknown _ rfl)
    | (exfalso; simp [Payload.isMarked] at hm; done)
    | (simp only [shaped, Bool.and_eq_true, beq_iff_eq, decide_eq_true_eq] at hs; simp_all)

/-- what `isNull` / `isKnown` say about the raw payload -/
theorem raw_of_flags {v : Value} (hnull : v.isNull = false) (hknown : v.isKnown = true) :
    v.v.unmark1 ≠ .null ∧ ∀ r, v.v.unmark1 ≠ .unk r := by
  simp only [Value.isNull, Payload.isNull, Value.isKnown, Payload.isKnown] at hnull hknown
  constructor
  · intro h; rw [h] at hnull; cases hnull
  · intro r h; rw [h] at hknown; cases hknown


end Walk
end CtyModel
