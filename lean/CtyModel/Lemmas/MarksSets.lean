/-
Mark sets as strictly ascending lists: `insertMark` / `unionMarks` keep them
canonical, two canonical lists with the same members are equal, and the algebra
of `withMarks` / `stripMarks` / `marksDeep` on payloads that C04 needs.
-/
import CtyModel.MarksOps
import CtyModel.Lemmas.FnCall
namespace CtyModel

/-- canonical mark set: strictly ascending (hence duplicate-free) -/
def MSorted (l : List String) : Prop := l.Pairwise (· < ·)

theorem String.lt_or_eq_or_gt (a b : String) : a < b ∨ a = b ∨ b < a := by
  by_cases h1 : a < b
  · exact .inl h1
  · by_cases h2 : b < a
    · exact .inr (.inr h2)
    · exact .inr (.inl (String.le_antisymm (String.not_lt.mp h2) (String.not_lt.mp h1)))

theorem MSorted.nil : MSorted [] := List.Pairwise.nil

theorem MSorted.singleton (m : String) : MSorted [m] := List.pairwise_singleton _ _

theorem insertMark_sorted {m : String} {l : List String} (h : MSorted l) : MSorted (insertMark m l) := by
  induction l with
  | nil => exact MSorted.singleton m
  | cons x xs ih =>
    unfold insertMark
    have hx := List.pairwise_cons.mp h
    split
    · rename_i hlt
      exact List.pairwise_cons.mpr ⟨fun a ha => by
        rcases List.mem_cons.mp ha with rfl | ha
        · exact hlt
        · exact String.lt_trans hlt (hx.1 a ha), h⟩
    · split
      · exact h
      · rename_i hnlt hne
        refine List.pairwise_cons.mpr ⟨fun a ha => ?_, ih hx.2⟩
        rcases mem_insertMark.mp ha with rfl | ha
        · rcases String.lt_or_eq_or_gt a x with h1 | h1 | h1
          · exact absurd h1 hnlt
          · exact absurd h1 hne
          · exact h1
        · exact hx.1 a ha

theorem unionMarks_sorted (a : List String) {b : List String} (h : MSorted b) : MSorted (unionMarks a b) := by
  induction a with
  | nil => exact h
  | cons m ms ih => exact insertMark_sorted ih

theorem unionAllMarks_sorted (mss : List (List String)) : MSorted (unionAllMarks mss) := by
  induction mss with
  | nil => exact MSorted.nil
  | cons ms rest ih => exact unionMarks_sorted ms ih

/-- two canonical mark sets with the same members are the same list -/
theorem MSorted.ext : ∀ {a b : List String}, MSorted a → MSorted b → (∀ m, m ∈ a ↔ m ∈ b) → a = b
  | [], [], _, _, _ => rfl
  | [], y :: ys, _, _, h => by have := (h y).mpr (by simp); simp at this
  | x :: xs, [], _, _, h => by have := (h x).mp (by simp); simp at this
  | x :: xs, y :: ys, ha, hb, h => by
    have hax := List.pairwise_cons.mp ha
    have hby := List.pairwise_cons.mp hb
    have hxy : x = y := by
      rcases String.lt_or_eq_or_gt x y with h1 | h1 | h1
      · have : x ∈ y :: ys := (h x).mp (by simp)
        rcases List.mem_cons.mp this with h2 | h2
        · exact h2
        · exact absurd (String.lt_trans h1 (hby.1 x h2)) (String.lt_irrefl _)
      · exact h1
      · have : y ∈ x :: xs := (h y).mpr (by simp)
        rcases List.mem_cons.mp this with h2 | h2
        · exact h2.symm
        · exact absurd (String.lt_trans h1 (hax.1 y h2)) (String.lt_irrefl _)
    subst hxy
    congr 1
    refine MSorted.ext hax.2 hby.2 fun m => ?_
    constructor
    · intro hm
      have : m ∈ x :: ys := (h m).mp (by simp [hm])
      rcases List.mem_cons.mp this with h2 | h2
      · subst h2; exact absurd (hax.1 m hm) (String.lt_irrefl _)
      · exact h2
    · intro hm
      have : m ∈ x :: xs := (h m).mpr (by simp [hm])
      rcases List.mem_cons.mp this with h2 | h2
      · subst h2; exact absurd (hby.1 m hm) (String.lt_irrefl _)
      · exact h2

theorem mem_unionAllMarks {m : String} : ∀ {mss : List (List String)}, m ∈ unionAllMarks mss ↔ ∃ ms ∈ mss, m ∈ ms
  | [] => by simp [unionAllMarks]
  | ms :: mss => by
    have : unionAllMarks (ms :: mss) = unionMarks ms (unionAllMarks mss) := rfl
    rw [this, mem_unionMarks, mem_unionAllMarks (mss := mss)]
    simp

theorem unionAllMarks_eq_fn (mss : List (List String)) : Fn.unionAll mss = unionAllMarks mss := rfl

/-- adding marks that are already there changes nothing -/
theorem unionMarks_of_subset {a b : List String} (hb : MSorted b) (h : ∀ m ∈ a, m ∈ b) : unionMarks a b = b :=
  MSorted.ext (unionMarks_sorted a hb) hb fun m => by
    rw [mem_unionMarks]; exact ⟨fun h' => h'.elim (h m) id, .inr⟩

theorem unionMarks_nil_right_sorted {a : List String} (ha : MSorted a) : unionMarks a [] = a :=
  MSorted.ext (unionMarks_sorted a MSorted.nil) ha fun m => by simp [mem_unionMarks]

theorem unionMarks_assoc_sorted (a b : List String) {c : List String} (hc : MSorted c) :
    unionMarks (unionMarks a b) c = unionMarks a (unionMarks b c) :=
  MSorted.ext (unionMarks_sorted _ hc) (unionMarks_sorted _ (unionMarks_sorted _ hc)) fun m => by
    simp [mem_unionMarks, or_assoc]

theorem unionMarks_comm_sorted {a b : List String} (ha : MSorted a) (hb : MSorted b) :
    unionMarks a b = unionMarks b a :=
  MSorted.ext (unionMarks_sorted _ hb) (unionMarks_sorted _ ha) fun m => by
    simp [mem_unionMarks, or_comm]

theorem unionMarks_idem_sorted {a : List String} (ha : MSorted a) : unionMarks a a = a :=
  unionMarks_of_subset ha fun _ h => h

theorem insertMark_nil (m : String) : insertMark m [] = [m] := rfl

namespace Payload

/-! ### mark-set canonicity of a whole payload -/

mutual
/-- every marker layer holds a canonical (strictly ascending) mark set — what
`VerifDump` prints and every constructor of the API produces -/
def marksCanon : Payload → Prop
  | .marked ms r => MSorted ms ∧ marksCanon r
  | .seq vs | .smap _ vs | .sset _ vs => marksCanonL vs
  | _ => True
def marksCanonL : List Payload → Prop
  | [] => True
  | v :: vs => marksCanon v ∧ marksCanonL vs
end

mutual
/-- no member of a set contains a mark (what `SetVal` guarantees) -/
def setsClean : Payload → Bool
  | .marked _ r => setsClean r
  | .seq vs | .smap _ vs => setsCleanL vs
  | .sset _ vs => !containsMarkedL vs
  | _ => true
def setsCleanL : List Payload → Bool
  | [] => true
  | v :: vs => setsClean v && setsCleanL vs
end

/-! ### `stripMarks`, `withMarks`, `marksDeep`, `containsMarked` -/

theorem stripMarksL_eq_map : ∀ vs : List Payload, stripMarksL vs = vs.map stripMarks
  | [] => rfl
  | v :: vs => by simp [stripMarksL, stripMarksL_eq_map vs]

theorem stripMarksL_length (vs : List Payload) : (stripMarksL vs).length = vs.length := by
  simp [stripMarksL_eq_map]

theorem isMarked_stripMarks : ∀ p : Payload, (stripMarks p).isMarked = false
  | .marked _ r => by simpa [stripMarks] using isMarked_stripMarks r
  | .seq _ | .smap _ _ | .sset _ _ => by simp [stripMarks, isMarked]
  | .null | .unk _ | .b _ | .n _ | .s _ | .caps | .bad _ => by simp [stripMarks, isMarked]

mutual
theorem stripMarks_of_clean : ∀ p : Payload, p.containsMarked = false → stripMarks p = p
  | .marked _ r, h => by simp [containsMarked] at h
  | .seq vs, h => by simp [stripMarks, stripMarksL_of_clean vs (by simpa [containsMarked] using h)]
  | .smap _ vs, h => by simp [stripMarks, stripMarksL_of_clean vs (by simpa [containsMarked] using h)]
  | .sset _ vs, h => by simp [stripMarks, stripMarksL_of_clean vs (by simpa [containsMarked] using h)]
  | .null, _ | .unk _, _ | .b _, _ | .n _, _ | .s _, _ | .caps, _ | .bad _, _ => by simp [stripMarks]
theorem stripMarksL_of_clean : ∀ vs : List Payload, containsMarkedL vs = false → stripMarksL vs = vs
  | [], _ => rfl
  | v :: vs, h => by
    simp only [containsMarkedL, Bool.or_eq_false_iff] at h
    simp [stripMarksL, stripMarks_of_clean v h.1, stripMarksL_of_clean vs h.2]
end

theorem withMarks_def (p : Payload) (ms : List String) :
    p.withMarks ms = if (unionMarks p.marks1 ms).isEmpty then p else .marked (unionMarks p.marks1 ms) p.unmark1 := rfl

theorem stripMarks_unmark1 (p : Payload) : stripMarks p.unmark1 = stripMarks p := by
  cases p <;> simp [unmark1, stripMarks]

theorem stripMarks_withMarks (p : Payload) (ms : List String) : stripMarks (p.withMarks ms) = stripMarks p := by
  unfold withMarks
  simp only
  split
  · rfl
  · simp [stripMarks, stripMarks_unmark1]

theorem marksDeep_unmark1_subset {p : Payload} {m : String} (h : m ∈ p.unmark1.marksDeep) : m ∈ p.marksDeep := by
  cases p <;> simp_all [unmark1, marksDeep, mem_unionMarks]

theorem marks1_subset_marksDeep {p : Payload} {m : String} (h : m ∈ p.marks1) : m ∈ p.marksDeep := by
  cases p <;> simp_all [marks1, marksDeep, mem_unionMarks]

theorem mem_marksDeep_iff (p : Payload) (m : String) : m ∈ p.marksDeep ↔ m ∈ p.marks1 ∨ m ∈ p.unmark1.marksDeep := by
  cases p <;> simp [marks1, unmark1, marksDeep, mem_unionMarks]

theorem mem_marksDeep_withMarks {p : Payload} {ms : List String} {m : String} :
    m ∈ (p.withMarks ms).marksDeep ↔ m ∈ ms ∨ m ∈ p.marksDeep := by
  rw [mem_marksDeep_iff, mem_marks1_withMarks, unmark1_withMarks, mem_marksDeep_iff p]
  constructor
  · rintro ((h | h) | h) <;> simp [h]
  · rintro (h | h | h) <;> simp [h]

theorem isMarked_unmark1_of_wf {p : Payload} (h : p.markerWF = true) : p.unmark1.isMarked = false := by
  cases p <;> simp_all [unmark1, isMarked, markerWF]

theorem markerWF_unmark1 {p : Payload} (h : p.markerWF = true) : p.unmark1.markerWF = true := by
  cases p <;> simp_all [unmark1, markerWF]

theorem setsClean_unmark1 {p : Payload} (h : p.setsClean = true) : p.unmark1.setsClean = true := by
  cases p <;> simp_all [unmark1, setsClean]

theorem marks1_eq_nil_of_not_marked {p : Payload} (h : p.isMarked = false) : p.marks1 = [] := by
  cases p <;> simp_all [marks1, isMarked]

theorem unmark1_eq_of_not_marked {p : Payload} (h : p.isMarked = false) : p.unmark1 = p := by
  cases p <;> simp_all [unmark1, isMarked]

mutual
theorem whollyKnown_stripMarks : ∀ p : Payload, (stripMarks p).whollyKnown = p.whollyKnown
  | .marked _ r => by simpa [stripMarks, whollyKnown] using whollyKnown_stripMarks r
  | .seq vs => by simpa [stripMarks, whollyKnown] using whollyKnownL_stripMarksL vs
  | .smap _ vs => by simpa [stripMarks, whollyKnown] using whollyKnownL_stripMarksL vs
  | .sset _ vs => by simpa [stripMarks, whollyKnown] using whollyKnownL_stripMarksL vs
  | .null | .unk _ | .b _ | .n _ | .s _ | .caps | .bad _ => by simp [stripMarks]
theorem whollyKnownL_stripMarksL : ∀ vs : List Payload, whollyKnownL (stripMarksL vs) = whollyKnownL vs
  | [] => rfl
  | v :: vs => by simp [stripMarksL, whollyKnownL, whollyKnown_stripMarks v, whollyKnownL_stripMarksL vs]
end

/-- members of a list: marks of a member are marks of the list -/
theorem marksDeepL_of_mem {vs : List Payload} {p : Payload} (hp : p ∈ vs) {m : String} (hm : m ∈ p.marksDeep) :
    m ∈ marksDeepL vs := by
  induction vs with
  | nil => simp at hp
  | cons v vs ih =>
    simp only [marksDeepL, mem_unionMarks]
    rcases List.mem_cons.mp hp with rfl | h
    · exact .inl hm
    · exact .inr (ih h)

theorem mem_marksDeepL {vs : List Payload} {m : String} : m ∈ marksDeepL vs ↔ ∃ p ∈ vs, m ∈ p.marksDeep := by
  induction vs with
  | nil => simp [marksDeepL]
  | cons v vs ih => simp [marksDeepL, mem_unionMarks, ih]

theorem containsMarkedL_eq_any (vs : List Payload) : containsMarkedL vs = vs.any containsMarked := by
  induction vs with
  | nil => rfl
  | cons v vs ih => simp [containsMarkedL, ih]

end Payload

namespace Value

/-- the hypothesis of the operation-method theorems: marker layers as the API
builds them (non-empty, never nested directly) and no mark inside a set -/
def MarksWF (v : Value) : Prop := v.v.markerWF = true ∧ v.v.setsClean = true

mutual
theorem markerWF_of_clean : ∀ p : Payload, p.containsMarked = false → p.markerWF = true
  | .marked _ _, h => by simp [Payload.containsMarked] at h
  | .seq vs, h => by simpa [Payload.markerWF] using markerWFL_of_clean vs (by simpa [Payload.containsMarked] using h)
  | .smap _ vs, h => by simpa [Payload.markerWF] using markerWFL_of_clean vs (by simpa [Payload.containsMarked] using h)
  | .sset _ vs, h => by simpa [Payload.markerWF] using markerWFL_of_clean vs (by simpa [Payload.containsMarked] using h)
  | .null, _ | .unk _, _ | .b _, _ | .n _, _ | .s _, _ | .caps, _ | .bad _, _ => by simp [Payload.markerWF]
theorem markerWFL_of_clean : ∀ vs : List Payload, Payload.containsMarkedL vs = false → Payload.markerWFL vs = true
  | [], _ => rfl
  | v :: vs, h => by
    simp only [Payload.containsMarkedL, Bool.or_eq_false_iff] at h
    simp [Payload.markerWFL, markerWF_of_clean v h.1, markerWFL_of_clean vs h.2]
end

mutual
theorem setsClean_of_clean : ∀ p : Payload, p.containsMarked = false → p.setsClean = true
  | .marked _ _, h => by simp [Payload.containsMarked] at h
  | .seq vs, h => by simpa [Payload.setsClean] using setsCleanL_of_clean vs (by simpa [Payload.containsMarked] using h)
  | .smap _ vs, h => by simpa [Payload.setsClean] using setsCleanL_of_clean vs (by simpa [Payload.containsMarked] using h)
  | .sset _ vs, h => by simpa [Payload.setsClean, Payload.containsMarked] using h
  | .null, _ | .unk _, _ | .b _, _ | .n _, _ | .s _, _ | .caps, _ | .bad _, _ => by simp [Payload.setsClean]
theorem setsCleanL_of_clean : ∀ vs : List Payload, Payload.containsMarkedL vs = false → Payload.setsCleanL vs = true
  | [], _ => rfl
  | v :: vs, h => by
    simp only [Payload.containsMarkedL, Bool.or_eq_false_iff] at h
    simp [Payload.setsCleanL, setsClean_of_clean v h.1, setsCleanL_of_clean vs h.2]
end

theorem markerWF_unmarkDeep (v : Value) : v.unmarkDeep.v.markerWF = true :=
  markerWF_of_clean _ (Payload.containsMarked_stripMarks _)

theorem markerWF_withMarks {v : Value} (h : v.v.markerWF = true) (ms : List String) : (v.withMarks ms).v.markerWF = true := by
  show (Payload.withMarks v.v ms).markerWF = true
  rw [Payload.withMarks_def]
  split
  · exact h
  · rename_i hne
    simp only [Payload.markerWF, Bool.and_eq_true, Bool.not_eq_true']
    exact ⟨⟨by simpa using hne, Payload.isMarked_unmark1_of_wf h⟩, Payload.markerWF_unmark1 h⟩

theorem withMarks_nil_of_unmarked {v : Value} (h : v.isMarked = false) : v.withMarks [] = v := by
  obtain ⟨t, p⟩ := v
  show (⟨t, Payload.withMarks p []⟩ : Value) = _
  rw [Payload.withMarks_def, Payload.marks1_eq_nil_of_not_marked h]
  simp [unionMarks]

theorem unmarkDeep_withMarks (v : Value) (ms : List String) : (v.withMarks ms).unmarkDeep = v.unmarkDeep := by
  simp [unmarkDeep, withMarks, Payload.stripMarks_withMarks]

theorem unmarkDeep_unmark (v : Value) : v.unmark.unmarkDeep = v.unmarkDeep := by
  simp [unmarkDeep, unmark, Payload.stripMarks_unmark1]

theorem isMarked_unmarkDeep (v : Value) : v.unmarkDeep.isMarked = false := Payload.isMarked_stripMarks _

theorem MarksWF.unmark {v : Value} (h : v.MarksWF) : v.unmark.MarksWF :=
  ⟨Payload.markerWF_unmark1 h.1, Payload.setsClean_unmark1 h.2⟩

theorem MarksWF.isMarked_unmark {v : Value} (h : v.MarksWF) : v.unmark.isMarked = false :=
  Payload.isMarked_unmark1_of_wf h.1

theorem unmark_of_not_marked {v : Value} (h : v.isMarked = false) : v.unmark = v := by
  cases v; simp [unmark, Payload.unmark1_eq_of_not_marked (by simpa [isMarked] using h)]

theorem marks_of_not_marked {v : Value} (h : v.isMarked = false) : v.marks = [] :=
  Payload.marks1_eq_nil_of_not_marked h

theorem mem_marksDeep_withMarks {v : Value} {ms : List String} {m : String} :
    m ∈ (v.withMarks ms).marksDeep ↔ m ∈ ms ∨ m ∈ v.marksDeep := Payload.mem_marksDeep_withMarks

theorem marks_subset_marksDeep {v : Value} {m : String} (h : m ∈ v.marks) : m ∈ v.marksDeep :=
  Payload.marks1_subset_marksDeep h

theorem marksDeep_unmark_subset {v : Value} {m : String} (h : m ∈ v.unmark.marksDeep) : m ∈ v.marksDeep :=
  Payload.marksDeep_unmark1_subset h

theorem unmarkDeep_of_clean {v : Value} (h : v.containsMarked = false) : v.unmarkDeep = v := by
  cases v; simp [unmarkDeep, Payload.stripMarks_of_clean _ (by simpa [containsMarked] using h)]

theorem containsMarked_unmarkDeep (v : Value) : v.unmarkDeep.containsMarked = false :=
  Payload.containsMarked_stripMarks _

theorem marksDeep_unmarkDeep (v : Value) : v.unmarkDeep.marksDeep = [] := Payload.marksDeep_stripMarks _

end Value

namespace Res
theorem map_map {α β γ} (f : α → β) (g : β → γ) (r : Res α) : (r.map f).map g = r.map (g ∘ f) := by
  cases r <;> rfl
theorem map_congr {α β} {f g : α → β} (r : Res α) (h : ∀ a, r = .ok a → f a = g a) : r.map f = r.map g := by
  cases r <;> simp [Res.map]
  exact h _ rfl
theorem map_id' {α} (r : Res α) : r.map (fun a => a) = r := by cases r <;> rfl
theorem map_eq_ok {α β} {f : α → β} {r : Res α} {b : β} : r.map f = .ok b ↔ ∃ a, r = .ok a ∧ f a = b := by
  cases r <;> simp [Res.map]
end Res

end CtyModel
