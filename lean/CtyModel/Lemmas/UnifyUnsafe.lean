/-
"Unsafe unification succeeds whenever safe unification does": what holds of the
preference loop (any environment, any depth), for placeholder-free results.
-/
import CtyModel.Lemmas.UnifyNoPanic
import CtyModel.Lemmas.ConvertSafe
namespace CtyModel
namespace Unify
open Convert Ty

/-- candidate `w` (= `want`) is acceptable: every other input equals it or converts to it -/
def CandOk (E : Env) (uns : Bool) (w : Nat) (want : Ty) (i : Nat) (rest : List Ty) : Prop :=
  ∀ (k : Nat) (ty : Ty), rest[k]? = some ty → i + k = w ∨ ty.equals want = true ∨ (getConv E ty want uns).isSome = true

theorem candOk_tail {E : Env} {uns : Bool} {w : Nat} {want : Ty} {i : Nat} {t : Ty} {rest : List Ty}
    (h : CandOk E uns w want i (t :: rest)) : CandOk E uns w want (i + 1) rest := by
  intro k ty hk
  have := h (k + 1) ty (by simpa using hk)
  have e : i + (k + 1) = i + 1 + k := by omega
  rw [e] at this; exact this

theorem tryCandidate_true_iff (E : Env) (uns : Bool) (w : Nat) (want : Ty) :
    ∀ (rest : List Ty) (i : Nat) (buf : Convs), (tryCandidate E uns w want i rest buf).2 = true ↔ CandOk E uns w want i rest
  | [], _, _ => by simp [tryCandidate, CandOk]
  | t :: rest, i, buf => by
    simp only [tryCandidate]
    constructor
    · intro h
      have hrest : CandOk E uns w want (i + 1) rest ∧
          (i = w ∨ t.equals want = true ∨ (getConv E t want uns).isSome = true) := by
        split at h
        · rename_i hiw
          exact ⟨(tryCandidate_true_iff E uns w want rest (i + 1) _).mp h, .inl (by simpa using hiw)⟩
        · split at h
          · rename_i he
            exact ⟨(tryCandidate_true_iff E uns w want rest (i + 1) _).mp h, .inr (.inl he)⟩
          · split at h
            · simp at h
            · rename_i p hp
              exact ⟨(tryCandidate_true_iff E uns w want rest (i + 1) _).mp h, .inr (.inr (by simp [hp]))⟩
      intro k ty hk
      cases k with
      | zero =>
        simp only [List.getElem?_cons_zero, Option.some.injEq] at hk
        subst hk
        simpa using hrest.2
      | succ k =>
        have := hrest.1 k ty (by simpa using hk)
        have e : i + 1 + k = i + (k + 1) := by omega
        rw [e] at this; exact this
    · intro h
      have h0 := h 0 t rfl
      have ht := candOk_tail h
      split
      · exact (tryCandidate_true_iff E uns w want rest (i + 1) _).mpr ht
      · rename_i hiw
        split
        · exact (tryCandidate_true_iff E uns w want rest (i + 1) _).mpr ht
        · rename_i he
          split
          · rename_i hn
            rcases h0 with h0 | h0 | h0
            · simp at hiw; omega
            · exact absurd h0 he
            · simp [hn] at h0
          · exact (tryCandidate_true_iff E uns w want rest (i + 1) _).mpr ht

/-- a successful preference loop names an acceptable candidate of its order -/
theorem prefLoop_some_inv (E : Env) (uns : Bool) (types : List Ty) {t : Ty} {cs : Convs} :
    ∀ (ws : List Nat) (buf : Convs), prefLoop E uns types ws buf = .ok (some (t, cs)) →
      ∃ w ∈ ws, types[w]? = some t ∧ CandOk E uns w t 0 types
  | [], _, h => by simp [prefLoop] at h
  | w :: ws, buf, h => by
    simp only [prefLoop] at h
    obtain ⟨want, hw, h⟩ := Res.bind_eq_ok h
    have hwant : types[w]? = some want := by
      unfold idxR at hw
      split at hw
      · simp at hw; subst hw; assumption
      · simp at hw
    split at h
    · rename_i hok
      simp only [Res.ok.injEq, Option.some.injEq, Prod.mk.injEq] at h
      obtain ⟨rfl, _⟩ := h
      exact ⟨w, by simp, hwant, (tryCandidate_true_iff E uns w want types 0 buf).mp hok⟩
    · obtain ⟨w', hw', h1, h2⟩ := prefLoop_some_inv E uns types ws _ h
      exact ⟨w', List.mem_cons_of_mem _ hw', h1, h2⟩

/-- a preference loop whose order holds an acceptable candidate succeeds -/
theorem prefLoop_of_cand (E : Env) (uns : Bool) (types : List Ty) :
    ∀ (ws : List Nat) (buf : Convs), (∀ w ∈ ws, w < types.length) →
      (∃ w ∈ ws, ∃ t, types[w]? = some t ∧ CandOk E uns w t 0 types) →
      ∃ t' cs', prefLoop E uns types ws buf = .ok (some (t', cs'))
  | [], _, _, h => by obtain ⟨w, hw, _⟩ := h; simp at hw
  | w :: ws, buf, hlt, h => by
    simp only [prefLoop]
    rw [idxR_ok types w (hlt w (by simp))]
    simp only [Res.bind]
    split
    · exact ⟨_, _, rfl⟩
    · rename_i hnot
      apply prefLoop_of_cand E uns types ws _ (fun x hx => hlt x (List.mem_cons_of_mem _ hx))
      obtain ⟨w', hw', t, ht, hc⟩ := h
      rcases List.mem_cons.mp hw' with rfl | hw'
      · exfalso
        have hlt' := hlt w' (by simp)
        rw [List.getElem?_eq_getElem hlt'] at ht
        simp only [Option.some.injEq] at ht
        subst ht
        exact hnot ((tryCandidate_true_iff E uns w' _ types 0 buf).mpr hc)
      · exact ⟨w', hw', t, ht, hc⟩

/-- THE PREFERENCE LOOP: where the safe loop finds a placeholder-free target, the unsafe
loop finds a target too (that one, or one earlier in the order) -/
theorem general_unsafe_of_safe (E : Env) (types : List Ty) (hne : types ≠ []) {t : Ty} {cs : Convs}
    (ht : t.hasDyn = false) (h : general E false types = .ok (some (t, cs))) :
    ∃ t' cs', general E true types = .ok (some (t', cs')) := by
  obtain ⟨w, hw, hwt, hc⟩ := prefLoop_some_inv E false types _ _ h
  apply prefLoop_of_cand E true types _ _ (sortTypes_lt types hne)
  refine ⟨w, hw, t, hwt, ?_⟩
  intro k ty hk
  rcases hc k ty hk with h1 | h1 | h1
  · exact .inl h1
  · exact .inr (.inl h1)
  · right; right
    obtain ⟨p, hp⟩ := Option.isSome_iff_exists.mp h1
    obtain ⟨c, hc', _⟩ := Option.map_eq_some_iff.mp hp
    simp [getConv, gck_up E ty t c ht hc']

/-- lists whose kinds skip the `switch` of `unify` go straight to the preference loop -/
theorem unifyStep_generalKinds (E : Env) (uns : Bool) (self : Bool → List Ty → Res UOut) (types : List Ty)
    (h : generalKinds types = true) : unifyStep E uns self types = general E uns types := by
  simp only [generalKinds, Bool.and_eq_true, Bool.not_eq_true', Bool.not_eq_eq_eq_not, Bool.not_true] at h
  obtain ⟨⟨⟨⟨⟨⟨⟨⟨h0, h1⟩, h2⟩, h3⟩, h4⟩, h5⟩, h6⟩, h7⟩, h8⟩ := h
  unfold unifyStep
  simp only [h0, h1, h2, h3, h4, h5, h6, h7, h8, Bool.false_eq_true, if_false]

end Unify
end CtyModel
