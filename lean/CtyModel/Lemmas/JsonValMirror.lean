/-
C15 — the encoder's output for a set-free value against its own placeholder-free type
has the value's structure (`mirrors`): no wrapper objects, one array entry per element, the
value's own keys.
-/
import CtyModel.Lemmas.JsonValDoc
namespace CtyModel
namespace JsonVal
open Ty

theorem map_eq_ok {α β} {r : Res α} {f : α → β} {b : β} (h : r.map f = .ok b) : ∃ a, r = .ok a ∧ b = f a := by
  cases r with
  | ok a => simp [Res.map] at h; exact ⟨a, rfl, h.symm⟩
  | _ => simp [Res.map] at h

/-- hypotheses: the type has no placeholder and no set, the payload is the one the type
dictates, wholly known and unmarked -/
structure MH (t : Ty) (p : Payload) : Prop where
  noDyn : hasDyn t = false
  noSet : setFree t = true
  wfp : wfP t p = true
  known : p.whollyKnown = true
  unmarked : p.containsMarked = false

theorem isDyn_of_hasDyn {t : Ty} (h : hasDyn t = false) : t.isDyn = false := by
  cases t <;> simp_all [hasDyn, Ty.isDyn]

mutual
theorem mirror_known (env : JEnv) : ∀ (p : Payload) (t : Ty) (j : Json), MH t p →
    marshalKnown env t t p = .ok j → mirrors p j = true
  | .null, _, j, _, hj => by simp [marshalKnown] at hj; subst hj; rfl
  | .unk _, _, _, h, _ => by have := h.known; simp [Payload.whollyKnown] at this
  | .marked _ _, _, _, h, _ => by have := h.unmarked; simp [Payload.containsMarked] at this
  | .caps, t, _, h, _ => by have := h.wfp; cases t <;> simp [wfP] at this
  | .bad _, t, _, h, _ => by have := h.wfp; cases t <;> simp [wfP] at this
  | .sset _ _, t, _, h, _ => by
    have hw := h.wfp
    have hs := h.noSet
    cases t <;> simp [wfP] at hw
    simp [setFree] at hs
  | .b x, t, j, h, hj => by
    have hw := h.wfp
    cases t with
    | bool => simp [marshalKnown] at hj; subst hj; simp [mirrors]
    | _ => simp [wfP] at hw
  | .s x, t, j, h, hj => by
    have hw := h.wfp
    cases t with
    | string => simp [marshalKnown] at hj; subst hj; simp [mirrors]
    | _ => simp [wfP] at hw
  | .n x, t, j, h, hj => by
    have hw := h.wfp
    cases t with
    | number =>
      simp only [marshalKnown] at hj
      split at hj
      · simp at hj
      · simp at hj; subst hj; simp [mirrors]
    | _ => simp [wfP] at hw
  | .seq vs, t, j, h, hj => by
    have hw := h.wfp
    have hk : Payload.whollyKnownL vs = true := by simpa [Payload.whollyKnown] using h.known
    have hm : Payload.containsMarkedL vs = false := by simpa [Payload.containsMarked] using h.unmarked
    cases t with
    | list e =>
      simp only [marshalKnown] at hj
      obtain ⟨js, hjs, rfl⟩ := map_eq_ok hj
      simp only [wfP] at hw
      simpa [mirrors] using mirror_all env vs e js (by simpa [hasDyn] using h.noDyn)
        (by simpa [setFree] using h.noSet) hw hk hm hjs
    | tuple es =>
      simp only [marshalKnown] at hj
      obtain ⟨js, hjs, rfl⟩ := map_eq_ok hj
      simp only [wfP, Bool.and_eq_true] at hw
      simpa [mirrors] using mirror_zip env vs es js (by simpa [hasDyn] using h.noDyn)
        (by simpa [setFree] using h.noSet) hw.2 hk hm hjs
    | _ => simp [wfP] at hw
  | .smap ks vs, t, j, h, hj => by
    have hw := h.wfp
    have hk : Payload.whollyKnownL vs = true := by simpa [Payload.whollyKnown] using h.known
    have hm : Payload.containsMarkedL vs = false := by simpa [Payload.containsMarked] using h.unmarked
    cases t with
    | map e =>
      simp only [marshalKnown] at hj
      obtain ⟨js, hjs, rfl⟩ := map_eq_ok hj
      simp only [wfP, Bool.and_eq_true] at hw
      simpa [mirrors] using mirror_all env vs e js (by simpa [hasDyn] using h.noDyn)
        (by simpa [setFree] using h.noSet) hw.2 hk hm hjs
    | object ns ts os =>
      simp only [wfP, Bool.and_eq_true, beq_iff_eq] at hw
      obtain ⟨⟨hks, _⟩, hw⟩ := hw
      subst hks
      simp only [marshalKnown, beq_self_eq_true, if_true] at hj
      obtain ⟨js, hjs, rfl⟩ := map_eq_ok hj
      simpa [mirrors] using mirror_zip env vs ts js (by simpa [hasDyn] using h.noDyn)
        (by simpa [setFree] using h.noSet) hw hk hm hjs
    | _ => simp [wfP] at hw
theorem mirror_all (env : JEnv) : ∀ (vs : List Payload) (e : Ty) (js : List Json), hasDyn e = false →
    setFree e = true → wfAll e vs = true → Payload.whollyKnownL vs = true →
    Payload.containsMarkedL vs = false → marshalAll env e e vs = .ok js → mirrorsL vs js = true
  | [], _, js, _, _, _, _, _, hj => by simp [marshalAll] at hj; subst hj; rfl
  | v :: vs, e, js, hd, hs, hw, hk, hm, hj => by
    simp only [wfAll, Bool.and_eq_true] at hw
    simp only [Payload.whollyKnownL, Bool.and_eq_true] at hk
    simp only [Payload.containsMarkedL, Bool.or_eq_false_iff] at hm
    simp only [marshalAll] at hj
    rw [marshalEntry_same e v _ (isMarked_of_containsMarked hm.1)
      (isKnown_of_whollyKnown hk.1 (isMarked_of_containsMarked hm.1))] at hj
    split at hj
    · rename_i j hjv
      obtain ⟨js', hjs', rfl⟩ := map_eq_ok hj
      simp [mirrorsL, mirror_known env v e j ⟨hd, hs, hw.1, hk.1, hm.1⟩ hjv,
        mirror_all env vs e js' hd hs hw.2 hk.2 hm.2 hjs']
    · simp at hj
    · simp at hj
    · simp at hj
theorem mirror_zip (env : JEnv) : ∀ (vs : List Payload) (es : List Ty) (js : List Json), hasDynL es = false →
    setFreeL es = true → wfZip es vs = true → Payload.whollyKnownL vs = true →
    Payload.containsMarkedL vs = false → marshalZip env es es vs = .ok js → mirrorsL vs js = true
  | [], _, js, _, _, _, _, _, hj => by simp [marshalZip] at hj; subst hj; rfl
  | _ :: _, [], _, _, _, _, _, _, hj => by simp [marshalZip] at hj
  | v :: vs, e :: es, js, hd, hs, hw, hk, hm, hj => by
    simp only [hasDynL, Bool.or_eq_false_iff] at hd
    simp only [setFreeL, Bool.and_eq_true] at hs
    simp only [wfZip, Bool.and_eq_true] at hw
    simp only [Payload.whollyKnownL, Bool.and_eq_true] at hk
    simp only [Payload.containsMarkedL, Bool.or_eq_false_iff] at hm
    simp only [marshalZip] at hj
    rw [marshalEntry_same e v _ (isMarked_of_containsMarked hm.1)
      (isKnown_of_whollyKnown hk.1 (isMarked_of_containsMarked hm.1))] at hj
    split at hj
    · rename_i j hjv
      obtain ⟨js', hjs', rfl⟩ := map_eq_ok hj
      simp [mirrorsL, mirror_known env v e j ⟨hd.1, hs.1, hw.1, hk.1, hm.1⟩ hjv,
        mirror_zip env vs es js' hd.2 hs.2 hw.2 hk.2 hm.2 hjs']
    · simp at hj
    · simp at hj
    · simp at hj
end

end JsonVal
end CtyModel
