/-
d08b, part 6: "a value that already conforms to the requested type converts to itself", for targets
WITH placeholders, on the fragment where it is true and provable without laws of `unify` beyond
`UnifyLaws.same`: lists and maps nested to any depth over primitive leaves, placeholders anywhere in
the target, the value without a marker, null, unknown or EMPTY collection at a position the target
spells out (`solidFor`; below a placeholder of the target the value is arbitrary).  By induction over
the target type, i.e. over the plans `getConversionKnown` builds for such pairs.  Tuples (converted
position by position to tuples of the same length) are included.
-/
import CtyModel.Lemmas.ConvertRoundtrip
import CtyModel.Lemmas.ConvertD08Mono
import CtyModel.Lemmas.TyMisc
namespace CtyModel
namespace D08B
open Convert Ty

mutual
/-- the payload `p` of a value of type `inT` is spelled out wherever `want` is: a primitive of the
same type, or a NON-EMPTY list / map whose members are; anything unmarked under a placeholder -/
def solidFor : (want inT : Ty) → Payload → Bool
  | .dyn, _, p => !p.isMarked
  | .bool, .bool, .b _ => true
  | .number, .number, .n _ => true
  | .string, .string, .s _ => true
  | .list oe, .list ie, .seq ps => !ps.isEmpty && solidAll oe ie ps
  | .map oe, .map ie, .smap _ ps => !ps.isEmpty && solidAll oe ie ps
  | .tuple ots, .tuple its, .seq ps => solidZip ots its ps
  | _, _, _ => false
termination_by structural _ _ p => p
def solidAll : (want inT : Ty) → List Payload → Bool
  | _, _, [] => true
  | oe, ie, p :: ps => solidFor oe ie p && solidAll oe ie ps
termination_by structural _ _ ps => ps
/-- tuples: position by position, the three lists of the same length -/
def solidZip : (wants inTs : List Ty) → List Payload → Bool
  | [], [], [] => true
  | o :: os, i :: is, p :: ps => solidFor o i p && solidZip os is ps
  | _, _, _ => false
termination_by structural _ _ ps => ps
end

theorem solidAll_mem {oe ie : Ty} : ∀ {ps : List Payload}, solidAll oe ie ps = true → ∀ p ∈ ps, solidFor oe ie p = true
  | [], _, p, hp => by simp at hp
  | q :: qs, h, p, hp => by
    simp only [solidAll, Bool.and_eq_true] at h
    rcases List.mem_cons.mp hp with rfl | hp
    · exact h.1
    · exact solidAll_mem h.2 p hp

theorem solidFor_unmarked {want inT : Ty} {p : Payload} (h : solidFor want inT p = true) : p.isMarked = false := by
  cases want <;> cases inT <;> cases p <;> simp_all [solidFor, Payload.isMarked]

theorem stripNull_unmarked (e : Ty) (heo : hasOpt e = false) {p : Payload} (hm : p.isMarked = false) :
    stripNull ⟨e, p⟩ = ⟨e, p⟩ := by
  unfold stripNull
  split
  · rename_i hn
    have hp : p = .null := by
      cases p <;> simp_all [Value.isNull, Payload.isNull, Payload.unmark1, Payload.isMarked]
    subst hp
    rw [stripOpt_id_of_noOpt e heo]
    rfl
  · rfl

theorem mapRes_le_ok {f : Value → Res Value} : ∀ (xs : List Value), (∀ x ∈ xs, ResLe (f x) (.ok x)) →
    ResLe (mapRes f xs) (.ok xs)
  | [], _ => .inr rfl
  | x :: xs, h => by
    simp only [mapRes]
    rcases h x (by simp) with hx | hx
    · rw [hx]; exact .inl rfl
    · rw [hx]
      rcases mapRes_le_ok xs (fun y hy => h y (List.mem_cons_of_mem _ hy)) with hs | hs
      · simp only [Res.bind]; rw [hs]; exact .inl rfl
      · simp only [Res.bind]; rw [hs]; exact .inr rfl


theorem solidZip_length : ∀ {os is : List Ty} {ps : List Payload}, solidZip os is ps = true →
    is.length = ps.length ∧ os.length = is.length
  | [], [], [], _ => ⟨rfl, rfl⟩
  | [], [], _ :: _, h => by simp [solidZip] at h
  | [], _ :: _, _, h => by simp [solidZip] at h
  | _ :: _, [], _, h => by simp [solidZip] at h
  | _ :: _, _ :: _, [], h => by simp [solidZip] at h
  | _ :: os, _ :: is, _ :: ps, h => by
    simp only [solidZip, Bool.and_eq_true] at h
    have := solidZip_length h.2
    simp [this.1, this.2]

theorem zipTys_ty_v : ∀ (its : List Ty) (ps : List Payload), its.length = ps.length →
    (zipTys its ps).map (·.ty) = its ∧ (zipTys its ps).map (·.v) = ps
  | [], [], _ => ⟨rfl, rfl⟩
  | [], _ :: _, h => by simp at h
  | _ :: _, [], h => by simp at h
  | t :: ts, p :: ps, h => by
    have := zipTys_ty_v ts ps (by simpa using h)
    simp [zipTys, this.1, this.2]

mutual
/-- **a conforming, spelled-out value converts to itself**: list / map / tuple nests, placeholders anywhere -/
theorem conf_apply {E : Env} (hU : UnifyLaws E) : ∀ (want inT : Ty) (uns : Bool) (c : Plan),
    gck E inT want uns = some c → wf inT = true → hasDyn inT = false → hasOpt inT = false →
    ∀ (p : Payload), solidFor want inT p = true → ∀ fuel, ResLe (apply E fuel (.wrap want c) ⟨inT, p⟩) (.ok ⟨inT, p⟩)
  | .dyn, inT, uns, c, hg, _, _, _, p, hs, fuel => by
    cases fuel with
    | zero => exact .inl rfl
    | succ fuel =>
      have hm : p.isMarked = false := by simpa [solidFor] using hs
      right
      simp [apply, applyStep, Value.isMarked, hm, Ty.isDyn]
  | .bool, inT, uns, c, hg, _, _, _, p, hs, fuel => by
    cases inT <;> cases p <;> simp [solidFor] at hs
    cases uns <;> simp [gck, Ty.isDyn, isPrim, primSafe, primUnsafe] at hg
  | .number, inT, uns, c, hg, _, _, _, p, hs, fuel => by
    cases inT <;> cases p <;> simp [solidFor] at hs
    cases uns <;> simp [gck, Ty.isDyn, isPrim, primSafe, primUnsafe] at hg
  | .string, inT, uns, c, hg, _, _, _, p, hs, fuel => by
    cases inT <;> cases p <;> simp [solidFor] at hs
    cases uns <;> simp [gck, Ty.isDyn, isPrim, primSafe, primUnsafe] at hg
  | .capsule _, inT, uns, c, hg, _, _, _, p, hs, fuel => by
    cases inT <;> cases p <;> simp [solidFor] at hs
  | .set _, inT, uns, c, hg, _, _, _, p, hs, fuel => by
    cases inT <;> cases p <;> simp [solidFor] at hs
  | .tuple ots, inT, uns, c, hg, hw, hd, ho, p, hs, fuel => by
    cases inT <;> cases p <;> simp [solidFor] at hs
    rename_i its ps
    have hlen := solidZip_length hs
    simp [gck, Ty.isDyn, isPrim] at hg
    obtain ⟨_, cs, hcs, rfl⟩ := hg
    cases fuel with
    | zero => exact .inl rfl
    | succ fuel =>
      cases fuel with
      | zero => left; simp [apply, applyStep, Value.isMarked, Payload.isMarked, Ty.isDyn, Value.isKnown, Value.isNull,
          Payload.isKnown, Payload.isNull, Payload.unmark1]
      | succ fuel =>
        have hz := conf_zip hU ots its uns cs hcs (by simpa [wf] using hw) (by simpa [hasDyn] using hd)
          (by simpa [hasOpt] using ho) ps hs fuel
        have hstep : ResLe (applyStep E (apply E fuel) (.tupToTup cs) ⟨.tuple its, .seq ps⟩) (.ok ⟨.tuple its, .seq ps⟩) := by
          simp only [applyStep, elemsOf, Res.bind]
          rcases hz with h1 | h1
          · rw [h1]; exact .inl rfl
          · rw [h1]; right
            have := zipTys_ty_v its ps hlen.1
            simp [tupleVal, this.1, this.2]
        simpa [apply, applyStep, Value.isMarked, Payload.isMarked, Ty.isDyn, Value.isKnown, Value.isNull,
          Payload.isKnown, Payload.isNull, Payload.unmark1] using hstep
  | .object _ _ _, inT, uns, c, hg, _, _, _, p, hs, fuel => by
    cases inT <;> cases p <;> simp [solidFor] at hs
  | .list oe, inT, uns, c, hg, hw, hd, ho, p, hs, fuel => by
    cases inT <;> cases p <;> simp [solidFor] at hs
    rename_i ie ps
    have hwi : wf ie = true := by simpa [wf] using hw
    have hdi : hasDyn ie = false := by simpa [hasDyn] using hd
    have hoi : hasOpt ie = false := by simpa [hasOpt] using ho
    have hndi : ie.isDyn = false := not_isDyn_of_noDyn hdi
    have hps : ps ≠ [] := by intro h0; simp [h0] at hs
    have hall := solidAll_mem hs.2
    -- the element conversion: nil (equal element types) or the wrapped conversion, which returns each member
    have hconv : ∃ conv, c = .collToList oe conv ∧ ∀ q ∈ ps, ∀ fuel,
        ResLe ((applyOpt (apply E fuel) conv ⟨ie, q⟩).map stripNull) (.ok ⟨ie, q⟩) := by
      simp [gck, Ty.isDyn, isPrim] at hg
      split at hg
      · simp at hg
        refine ⟨.nil, hg.symm, fun q hq fuel => .inr ?_⟩
        simp only [applyOpt, Res.map]
        rw [stripNull_unmarked ie hoi (solidFor_unmarked (hall q hq))]
      · obtain ⟨c', hc', rfl⟩ := Option.map_eq_some_iff.mp hg
        refine ⟨_, rfl, fun q hq fuel => ?_⟩
        simp only [applyOpt]
        rcases conf_apply hU oe ie uns c' hc' hwi hdi hoi q (hall q hq) fuel with h1 | h1
        · rw [h1]; exact .inl rfl
        · rw [h1]; right
          simp only [Res.map]
          rw [stripNull_unmarked ie hoi (solidFor_unmarked (hall q hq))]
    obtain ⟨conv, rfl, hconv⟩ := hconv
    cases fuel with
    | zero => exact .inl rfl
    | succ fuel =>
      cases fuel with
      | zero => left; simp [apply, applyStep, Value.isMarked, Payload.isMarked, Ty.isDyn, Value.isKnown, Value.isNull,
          Payload.isKnown, Payload.isNull, Payload.unmark1]
      | succ fuel =>
        have hes : ∀ e ∈ ps.map (fun q => (⟨ie, q⟩ : Value)), e.ty = ie := by
          intro e he; obtain ⟨q, _, rfl⟩ := List.mem_map.mp he; rfl
        have hnz : ps.map (fun q => (⟨ie, q⟩ : Value)) ≠ [] := by simpa using hps
        have hmr := mapRes_le_ok (f := fun e => (applyOpt (apply E fuel) conv e).map stripNull)
          (ps.map fun q => (⟨ie, q⟩ : Value)) (by
            intro e he; obtain ⟨q, hq, rfl⟩ := List.mem_map.mp he; exact hconv q hq fuel)
        have hstep : ResLe (applyStep E (apply E fuel) (.collToList oe conv) ⟨.list ie, .seq ps⟩) (.ok ⟨.list ie, .seq ps⟩) := by
          simp only [applyStep, lengthKnown, Bool.not_true, Bool.false_eq_true, if_false, elemsOf, Res.bind]
          rcases hmr with h1 | h1
          · rw [h1]; exact .inl rfl
          · rw [h1]; right
            have hemp : (ps.map fun q => (⟨ie, q⟩ : Value)).isEmpty = false := by
              cases ps with
              | nil => exact absurd rfl hps
              | cons => rfl
            simp only [hemp, Bool.false_eq_true, if_false, canCollVal_same hwi hndi hnz hes, Bool.not_true]
            unfold listVal
            simp [hemp, elemTyOf_same hwi hndi hnz hes, List.map_map, Function.comp_def]
        simpa [apply, applyStep, Value.isMarked, Payload.isMarked, Ty.isDyn, Value.isKnown, Value.isNull,
          Payload.isKnown, Payload.isNull, Payload.unmark1] using hstep
  | .map oe, inT, uns, c, hg, hw, hd, ho, p, hs, fuel => by
    cases inT <;> cases p <;> simp [solidFor] at hs
    rename_i ie ks ps
    have hwi : wf ie = true := by simpa [wf] using hw
    have hdi : hasDyn ie = false := by simpa [hasDyn] using hd
    have hoi : hasOpt ie = false := by simpa [hasOpt] using ho
    have hndi : ie.isDyn = false := not_isDyn_of_noDyn hdi
    have hps : ps ≠ [] := by intro h0; simp [h0] at hs
    have hall := solidAll_mem hs.2
    simp [gck, Ty.isDyn, isPrim] at hg
    obtain ⟨c', hc', rfl⟩ := hg
    cases fuel with
    | zero => exact .inl rfl
    | succ fuel =>
      cases fuel with
      | zero => left; simp [apply, applyStep, Value.isMarked, Payload.isMarked, Ty.isDyn, Value.isKnown, Value.isNull,
          Payload.isKnown, Payload.isNull, Payload.unmark1]
      | succ fuel =>
        have hes : ∀ e ∈ ps.map (fun q => (⟨ie, q⟩ : Value)), e.ty = ie := by
          intro e he; obtain ⟨q, _, rfl⟩ := List.mem_map.mp he; rfl
        have hnz : ps.map (fun q => (⟨ie, q⟩ : Value)) ≠ [] := by simpa using hps
        have hmr := mapRes_le_ok (f := fun e => applyOpt (apply E fuel) (.wrap oe c') e)
          (ps.map fun q => (⟨ie, q⟩ : Value)) (by
            intro e he; obtain ⟨q, hq, rfl⟩ := List.mem_map.mp he
            exact conf_apply hU oe ie uns c' hc' hwi hdi hoi q (hall q hq) fuel)
        have hstep : ResLe (applyStep E (apply E fuel) (.collToMap oe (.wrap oe c')) ⟨.map ie, .smap ks ps⟩)
            (.ok ⟨.map ie, .smap ks ps⟩) := by
          simp only [applyStep, elemsOf, Res.bind]
          rcases hmr with h1 | h1
          · rw [h1]; exact .inl rfl
          · rw [h1]; right
            have hemp : (ps.map fun q => (⟨ie, q⟩ : Value)).isEmpty = false := by
              cases ps with
              | nil => exact absurd rfl hps
              | cons => rfl
            simp only [hemp, Bool.false_eq_true, if_false]
            have hun : (if isCollOrObj oe then unifyElems E (apply E fuel) false (ps.map fun q => (⟨ie, q⟩ : Value))
                else .ok (ps.map fun q => (⟨ie, q⟩ : Value))) = .ok (ps.map fun q => (⟨ie, q⟩ : Value)) := by
              split
              · exact unifyElems_same hU hwi hoi hnz hes
              · rfl
            rw [hun]
            simp only [canCollVal_same hwi hndi hnz hes, Bool.not_true, Bool.false_eq_true, if_false, keysOf]
            unfold mapVal
            simp [hemp, elemTyOf_same hwi hndi hnz hes, List.map_map, Function.comp_def]
        simpa [apply, applyStep, Value.isMarked, Payload.isMarked, Ty.isDyn, Value.isKnown, Value.isNull,
          Payload.isKnown, Payload.isNull, Payload.unmark1] using hstep
termination_by structural want => want
/-- tuple → tuple, position by position -/
theorem conf_zip {E : Env} (hU : UnifyLaws E) : ∀ (ots its : List Ty) (uns : Bool) (cs : List Plan),
    gcZip E its ots uns = some cs → wfL its = true → hasDynL its = false → hasOptL its = false →
    ∀ (ps : List Payload), solidZip ots its ps = true → ∀ fuel,
      ResLe (applyZip (apply E fuel) id cs (zipTys its ps)) (.ok (zipTys its ps))
  | [], its, uns, cs, hg, _, _, _, ps, hs, fuel => by
    cases its <;> cases ps <;> simp [solidZip] at hs
    simp [gcZip] at hg; subst hg
    exact .inr rfl
  | ot :: ots, its, uns, cs, hg, hw, hd, ho, ps, hs, fuel => by
    cases its with
    | nil => cases ps <;> simp [solidZip] at hs
    | cons it its =>
      cases ps with
      | nil => simp [solidZip] at hs
      | cons p ps =>
        simp only [solidZip, Bool.and_eq_true] at hs
        simp only [wfL, Bool.and_eq_true] at hw
        simp only [hasDynL, Bool.or_eq_false_iff] at hd
        simp only [hasOptL, Bool.or_eq_false_iff] at ho
        rw [gcZip] at hg
        have hhead : ∃ c0 cs', cs = c0 :: cs' ∧ gcZip E its ots uns = some cs' ∧
            ResLe (applyOpt (apply E fuel) c0 ⟨it, p⟩) (.ok ⟨it, p⟩) := by
          split at hg
          · obtain ⟨cs', hcs', rfl⟩ := Option.map_eq_some_iff.mp hg
            exact ⟨.nil, cs', rfl, hcs', .inr rfl⟩
          · split at hg
            · simp at hg
            · rename_i c0 hc0
              obtain ⟨cs', hcs', rfl⟩ := Option.map_eq_some_iff.mp hg
              exact ⟨_, cs', rfl, hcs', conf_apply hU ot it uns c0 hc0 hw.1 hd.1 ho.1 p hs.1 fuel⟩
        obtain ⟨c0, cs', rfl, hcs', hh⟩ := hhead
        have ih := conf_zip hU ots its uns cs' hcs' hw.2 hd.2 ho.2 ps hs.2 fuel
        simp only [zipTys, applyZip]
        rcases hh with h1 | h1
        · rw [h1]; exact .inl rfl
        · rw [h1]
          simp only [Res.bind]
          rcases ih with h2 | h2
          · rw [h2]; exact .inl rfl
          · rw [h2]; exact .inr rfl
termination_by structural ots => ots
end

end D08B
end CtyModel
