/-
d08b, part 6: "a value that already conforms to the requested type converts to itself", for targets
WITH placeholders, on the fragment where it is true and provable without laws of `unify` beyond
`UnifyLaws.same`: lists and maps nested to any depth over primitive leaves, placeholders anywhere in
the target, the value without a marker, null, unknown or EMPTY collection at a position the target
spells out (`solidFor`; below a placeholder of the target the value is arbitrary).  By induction over
the target type, i.e. over the plans `getConversionKnown` builds for such pairs.
-/
import CtyModel.Lemmas.ConvertRoundtrip
import CtyModel.Lemmas.ConvertD08Mono
import CtyModel.Lemmas.TyMisc
namespace CtyModel
namespace D08B
open Convert Ty

mutual
/-- the payload `p` of a value of type `inT` is spelled out wherever `want` is: a primitive of the
same type, or a NON-EMPTY list / map whose members are; anything unmarked under a placeholder -/
def solidFor : (want inT : Ty) → Payload → Bool
  | .dyn, _, p => !p.isMarked
  | .bool, .bool, .b _ => true
  | .number, .number, .n _ => true
  | .string, .string, .s _ => true
  | .list oe, .list ie, .seq ps => !ps.isEmpty && solidAll oe ie ps
  | .map oe, .map ie, .smap _ ps => !ps.isEmpty && solidAll oe ie ps
  | _, _, _ => false
termination_by structural _ _ p => p
def solidAll : (want inT : Ty) → List Payload → Bool
  | _, _, [] => true
  | oe, ie, p :: ps => solidFor oe ie p && solidAll oe ie ps
termination_by structural _ _ ps => ps
end

theorem solidAll_mem {oe ie : Ty} : ∀ {ps : List Payload}, solidAll oe ie ps = true → ∀ p ∈ ps, solidFor oe ie p = true
  | [], _, p, hp => by simp at hp
  | q :: qs, h, p, hp => by
    simp only [solidAll, Bool.and_eq_true] at h
    rcases List.mem_cons.mp hp with rfl | hp
    · exact h.1
    · exact solidAll_mem h.2 p hp

theorem solidFor_unmarked {want inT : Ty} {p : Payload} (h : solidFor want inT p = true) : p.isMarked = false := by
  cases want <;> cases inT <;> cases p <;> simp_all [solidFor, Payload.isMarked]

theorem stripNull_unmarked (e : Ty) (heo : hasOpt e = false) {p : Payload} (hm : p.isMarked = false) :
    stripNull ⟨e, p⟩ = ⟨e, p⟩ := by
  unfold stripNull
  split
  · rename_i hn
    have hp : p = .null := by
      cases p <;> simp_all [Value.isNull, Payload.isNull, Payload.unmark1, Payload.isMarked]
    subst hp
    rw [stripOpt_id_of_noOpt e heo]
    rfl
  · rfl

theorem mapRes_le_ok {f : Value → Res Value} : ∀ (xs : List Value), (∀ x ∈ xs, ResLe (f x) (.ok x)) →
    ResLe (mapRes f xs) (.ok xs)
  | [], _ => .inr rfl
  | x :: xs, h => by
    simp only [mapRes]
    rcases h x (by simp) with hx | hx
    · rw [hx]; exact .inl rfl
    · rw [hx]
      rcases mapRes_le_ok xs (fun y hy => h y (List.mem_cons_of_mem _ hy)) with hs | hs
      · simp only [Res.bind]; rw [hs]; exact .inl rfl
      · simp only [Res.bind]; rw [hs]; exact .inr rfl

/-- **a conforming, spelled-out value converts to itself**, list / map nests, placeholders anywhere -/
theorem conf_apply {E : Env} (hU : UnifyLaws E) : ∀ (want inT : Ty) (uns : Bool) (c : Plan),
    gck E inT want uns = some c → wf inT = true → hasDyn inT = false → hasOpt inT = false →
    ∀ (p : Payload), solidFor want inT p = true → ∀ fuel, ResLe (apply E fuel (.wrap want c) ⟨inT, p⟩) (.ok ⟨inT, p⟩)
  | .dyn, inT, uns, c, hg, _, _, _, p, hs, fuel => by
    cases fuel with
    | zero => exact .inl rfl
    | succ fuel =>
      have hm : p.isMarked = false := by simpa [solidFor] using hs
      right
      simp [apply, applyStep, Value.isMarked, hm, Ty.isDyn]
  | .bool, inT, uns, c, hg, _, _, _, p, hs, fuel => by
    cases inT <;> cases p <;> simp [solidFor] at hs
    cases uns <;> simp [gck, Ty.isDyn, isPrim, primSafe, primUnsafe] at hg
  | .number, inT, uns, c, hg, _, _, _, p, hs, fuel => by
    cases inT <;> cases p <;> simp [solidFor] at hs
    cases uns <;> simp [gck, Ty.isDyn, isPrim, primSafe, primUnsafe] at hg
  | .string, inT, uns, c, hg, _, _, _, p, hs, fuel => by
    cases inT <;> cases p <;> simp [solidFor] at hs
    cases uns <;> simp [gck, Ty.isDyn, isPrim, primSafe, primUnsafe] at hg
  | .capsule _, inT, uns, c, hg, _, _, _, p, hs, fuel => by
    cases inT <;> cases p <;> simp [solidFor] at hs
  | .set _, inT, uns, c, hg, _, _, _, p, hs, fuel => by
    cases inT <;> cases p <;> simp [solidFor] at hs
  | .tuple _, inT, uns, c, hg, _, _, _, p, hs, fuel => by
    cases inT <;> cases p <;> simp [solidFor] at hs
  | .object _ _ _, inT, uns, c, hg, _, _, _, p, hs, fuel => by
    cases inT <;> cases p <;> simp [solidFor] at hs
  | .list oe, inT, uns, c, hg, hw, hd, ho, p, hs, fuel => by
    cases inT <;> cases p <;> simp [solidFor] at hs
    rename_i ie ps
    have hwi : wf ie = true := by simpa [wf] using hw
    have hdi : hasDyn ie = false := by simpa [hasDyn] using hd
    have hoi : hasOpt ie = false := by simpa [hasOpt] using ho
    have hndi : ie.isDyn = false := not_isDyn_of_noDyn hdi
    have hps : ps ≠ [] := by intro h0; simp [h0] at hs
    have hall := solidAll_mem hs.2
    -- the element conversion: nil (equal element types) or the wrapped conversion, which returns each member
    have hconv : ∃ conv, c = .collToList oe conv ∧ ∀ q ∈ ps, ∀ fuel,
        ResLe ((applyOpt (apply E fuel) conv ⟨ie, q⟩).map stripNull) (.ok ⟨ie, q⟩) := by
      simp [gck, Ty.isDyn, isPrim] at hg
      split at hg
      · simp at hg
        refine ⟨.nil, hg.symm, fun q hq fuel => .inr ?_⟩
        simp only [applyOpt, Res.map]
        rw [stripNull_unmarked ie hoi (solidFor_unmarked (hall q hq))]
      · obtain ⟨c', hc', rfl⟩ := Option.map_eq_some_iff.mp hg
        refine ⟨_, rfl, fun q hq fuel => ?_⟩
        simp only [applyOpt]
        rcases conf_apply hU oe ie uns c' hc' hwi hdi hoi q (hall q hq) fuel with h1 | h1
        · rw [h1]; exact .inl rfl
        · rw [h1]; right
          simp only [Res.map]
          rw [stripNull_unmarked ie hoi (solidFor_unmarked (hall q hq))]
    obtain ⟨conv, rfl, hconv⟩ := hconv
    cases fuel with
    | zero => exact .inl rfl
    | succ fuel =>
      cases fuel with
      | zero => left; simp [apply, applyStep, Value.isMarked, Payload.isMarked, Ty.isDyn, Value.isKnown, Value.isNull,
          Payload.isKnown, Payload.isNull, Payload.unmark1]
      | succ fuel =>
        have hes : ∀ e ∈ ps.map (fun q => (⟨ie, q⟩ : Value)), e.ty = ie := by
          intro e he; obtain ⟨q, _, rfl⟩ := List.mem_map.mp he; rfl
        have hnz : ps.map (fun q => (⟨ie, q⟩ : Value)) ≠ [] := by simpa using hps
        have hmr := mapRes_le_ok (f := fun e => (applyOpt (apply E fuel) conv e).map stripNull)
          (ps.map fun q => (⟨ie, q⟩ : Value)) (by
            intro e he; obtain ⟨q, hq, rfl⟩ := List.mem_map.mp he; exact hconv q hq fuel)
        have hstep : ResLe (applyStep E (apply E fuel) (.collToList oe conv) ⟨.list ie, .seq ps⟩) (.ok ⟨.list ie, .seq ps⟩) := by
          simp only [applyStep, lengthKnown, Bool.not_true, Bool.false_eq_true, if_false, elemsOf, Res.bind]
          rcases hmr with h1 | h1
          · rw [h1]; exact .inl rfl
          · rw [h1]; right
            have hemp : (ps.map fun q => (⟨ie, q⟩ : Value)).isEmpty = false := by
              cases ps with
              | nil => exact absurd rfl hps
              | cons => rfl
            simp only [hemp, Bool.false_eq_true, if_false, canCollVal_same hwi hndi hnz hes, Bool.not_true]
            unfold listVal
            simp [hemp, elemTyOf_same hwi hndi hnz hes, List.map_map, Function.comp_def]
        simpa [apply, applyStep, Value.isMarked, Payload.isMarked, Ty.isDyn, Value.isKnown, Value.isNull,
          Payload.isKnown, Payload.isNull, Payload.unmark1] using hstep
  | .map oe, inT, uns, c, hg, hw, hd, ho, p, hs, fuel => by
    cases inT <;> cases p <;> simp [solidFor] at hs
    rename_i ie ks ps
    have hwi : wf ie = true := by simpa [wf] using hw
    have hdi : hasDyn ie = false := by simpa [hasDyn] using hd
    have hoi : hasOpt ie = false := by simpa [hasOpt] using ho
    have hndi : ie.isDyn = false := not_isDyn_of_noDyn hdi
    have hps : ps ≠ [] := by intro h0; simp [h0] at hs
    have hall := solidAll_mem hs.2
    simp [gck, Ty.isDyn, isPrim] at hg
    obtain ⟨c', hc', rfl⟩ := hg
    cases fuel with
    | zero => exact .inl rfl
    | succ fuel =>
      cases fuel with
      | zero => left; simp [apply, applyStep, Value.isMarked, Payload.isMarked, Ty.isDyn, Value.isKnown, Value.isNull,
          Payload.isKnown, Payload.isNull, Payload.unmark1]
      | succ fuel =>
        have hes : ∀ e ∈ ps.map (fun q => (⟨ie, q⟩ : Value)), e.ty = ie := by
          intro e he; obtain ⟨q, _, rfl⟩ := List.mem_map.mp he; rfl
        have hnz : ps.map (fun q => (⟨ie, q⟩ : Value)) ≠ [] := by simpa using hps
        have hmr := mapRes_le_ok (f := fun e => applyOpt (apply E fuel) (.wrap oe c') e)
          (ps.map fun q => (⟨ie, q⟩ : Value)) (by
            intro e he; obtain ⟨q, hq, rfl⟩ := List.mem_map.mp he
            exact conf_apply hU oe ie uns c' hc' hwi hdi hoi q (hall q hq) fuel)
        have hstep : ResLe (applyStep E (apply E fuel) (.collToMap oe (.wrap oe c')) ⟨.map ie, .smap ks ps⟩)
            (.ok ⟨.map ie, .smap ks ps⟩) := by
          simp only [applyStep, elemsOf, Res.bind]
          rcases hmr with h1 | h1
          · rw [h1]; exact .inl rfl
          · rw [h1]; right
            have hemp : (ps.map fun q => (⟨ie, q⟩ : Value)).isEmpty = false := by
              cases ps with
              | nil => exact absurd rfl hps
              | cons => rfl
            simp only [hemp, Bool.false_eq_true, if_false]
            have hun : (if isCollOrObj oe then unifyElems E (apply E fuel) false (ps.map fun q => (⟨ie, q⟩ : Value))
                else .ok (ps.map fun q => (⟨ie, q⟩ : Value))) = .ok (ps.map fun q => (⟨ie, q⟩ : Value)) := by
              split
              · exact unifyElems_same hU hwi hoi hnz hes
              · rfl
            rw [hun]
            simp only [canCollVal_same hwi hndi hnz hes, Bool.not_true, Bool.false_eq_true, if_false, keysOf]
            unfold mapVal
            simp [hemp, elemTyOf_same hwi hndi hnz hes, List.map_map, Function.comp_def]
        simpa [apply, applyStep, Value.isMarked, Payload.isMarked, Ty.isDyn, Value.isKnown, Value.isNull,
          Payload.isKnown, Payload.isNull, Payload.unmark1] using hstep
termination_by structural want => want

end D08B
end CtyModel
