/-
C05, slice d05b: the two nullness contradictions, for EVERY equality oracle and with the conclusion "the call PANICS".

`Props/C05.lean` had `rejects_null_contradiction` / `rejects_notNull_contradiction` under `[ExactOracle]` with the conclusion
"not accepted"; neither call ever compares numbers, so the idealisation was not needed: these versions are about the
code as it is.
-/
import CtyModel.Lemmas.RefineBase
namespace CtyModel
namespace Refine
namespace D05b

variable [EqOracle]

/-- `Null()` on a receiver that does not admit null panics -/
theorem step_null_panics {b : Builder} (hd : b.isDyn = false) (h1 : γB b .null = false) :
    ∃ w, step b .null = .panic w := by
  unfold step
  rw [hd]
  simp only [Bool.false_eq_true, if_false]
  split
  · exact ⟨_, rfl⟩
  · simp only [step1, stepNull]
    split
    · exact ⟨_, rfl⟩
    · have hn : b.wip.nullness = .f := by
        unfold γB γ at h1
        rw [rangeOk_null] at h1
        cases hn' : b.wip.nullness <;> simp_all [nullOk, Conc.kindOk]
      rw [if_pos hn]
      exact ⟨_, rfl⟩

/-- `NotNull()` on a receiver that admits no non-null value although its recorded range is satisfiable (a receiver
that is definitely null) panics -/
theorem step_notNull_panics {b : Builder} (hd : b.isDyn = false)
    (h1 : ∃ x, x ≠ .null ∧ Conc.kindOk b.orig.ty x = true ∧ rangeOk b.wip x = true)
    (h2 : ∀ x, x ≠ .null → γB b x = false) : ∃ w, step b .notNull = .panic w := by
  unfold step
  rw [hd]
  simp only [Bool.false_eq_true, if_false]
  split
  · exact ⟨_, rfl⟩
  · simp only [step1, stepNotNull]
    split
    · exact ⟨_, rfl⟩
    · have hn : b.wip.nullness = .t := by
        obtain ⟨x, hx, hk, hr⟩ := h1
        have := h2 x hx
        unfold γB γ at this
        rw [hk, hr] at this
        cases x <;> cases hn' : b.wip.nullness <;> simp_all [nullOk]
      rw [if_pos hn]
      exact ⟨_, rfl⟩

end D05b
end Refine
end CtyModel
