/-
Unknown values through the MessagePack codec (C16): the extension item that
`marshalUnknownValue` writes is decoded, by replaying the refinement map through
the refinement builder, into an unknown value of the same type whose refinement
admits everything the original's admitted.
-/
import CtyModel.Lemmas.MsgpackNum
namespace CtyModel
namespace Msgpack
open Refine

@[simp] theorem tri_beq (a b : Tri) : (a == b) = decide (a = b) := by
  cases a <;> cases b <;> decide
@[simp] theorem tri_bne (a b : Tri) : (a != b) = decide (a ≠ b) := by
  cases a <;> cases b <;> decide

theorem init_unknown (ty : Ty) :
    Refine.init (Value.unknown ty) = .ok ⟨⟨ty, .unk .unref⟩, [], freshWip ⟨ty, .unk .unref⟩⟩ := by
  simp [Refine.init, Value.unknown, Value.unmark, Payload.unmark1, Payload.isMarked, Value.marks, Payload.marks1]

@[simp] theorem recoverErr_ok {α : Type} (a : α) : recoverErr (Res.ok a) = .ok a := rfl

theorem unmarshal_ext_map (E : Ext) (ty : Ty) (len n : Nat) (stream : List Item)
    (h1 : 1 < len) (h2 : len ≤ maxExtLen) (hd : ty.isDyn = false) (hk : knownLenList ty n stream = false) :
    unmarshal E (.ext unknownWithRefinementsExt len (.map n) stream) ty =
      recoverErr ((rfnLoop E ty n stream ⟨⟨ty, .unk .unref⟩, [], freshWip ⟨ty, .unk .unref⟩⟩).bind Refine.newValue) := by
  have h1' : ¬ len ≤ 1 := by omega
  have h2' : ¬ len > maxExtLen := by omega
  simp [unmarshal, h1', h2', hd, init_unknown, Res.bind, hk]

/-- /repo bb6ac26 only concerns list types -/
theorem knownLenList_not_list (ty : Ty) (n : Nat) (s : List Item) (h : isListTy ty = false) :
    knownLenList ty n s = false := by
  simp [knownLenList, h]

/-- … and refinements whose two length bounds differ (or that do not say "not null") -/
theorem knownLenList_facts (ty : Ty) (n : Nat) (s : List Item) (nn : Bool) (lo hi : Int)
    (hf : lenFacts n s (false, 0, Refine.maxInt) = (nn, lo, hi)) (h : nn = false ∨ lo ≠ hi) :
    knownLenList ty n s = false := by
  simp only [knownLenList, hf]
  rcases h with h | h
  · simp [h]
  · simp [h]

theorem unmarshal_plain (E : Ext) (ty : Ty) : unmarshal E plainUnknown ty = .ok ⟨ty, .unk .unref⟩ := by
  simp [unmarshal, plainUnknown, Value.unknown]

theorem loop_done (E : Ext) (ty : Ty) (s : List Item) (b : Builder) : rfnLoop E ty 0 s b = .ok b := by
  cases s <;> simp [rfnLoop]

theorem loop_null (E : Ext) (ty : Ty) (n : Nat) (f : Bool) (rest : List Item) (b : Builder) :
    rfnLoop E ty (n + 1) (.int keyNullness :: .bool f :: rest) b =
      (Refine.step b (if f then .null else .notNull)).bind fun b' => rfnLoop E ty n rest b' := by
  simp only [rfnLoop, decInt64, decBool, if_true]
  cases Refine.step b (if f then .null else .notNull) <;> rfl

theorem loop_prefix (E : Ext) (n : Nat) (s : String) (rest : List Item) (b : Builder) :
    rfnLoop E .string (n + 1) (.int keyStringPrefix :: .str s :: rest) b =
      (Refine.step b (.stringPrefixFull (E.norm s))).bind fun b' => rfnLoop E .string n rest b' := by
  simp only [rfnLoop, decInt64, decString]
  simp only [keyStringPrefix, keyNullness, Ty.isString]
  simp
  cases Refine.step b (.stringPrefixFull (E.norm s)) <;> rfl

theorem decInt64_encInt (i : Int) (h0 : 0 ≤ i) (h1 : i ≤ maxI64) : decInt64 (encInt i) = some i := by
  unfold encInt
  by_cases h : i > 127
  · simp only [h, if_true, decInt64]
    have : ¬ ((i.toNat : Int) > maxI64) := by omega
    simp only [this, if_false]; congr 1; omega
  · simp [h, decInt64]

@[simp] theorem decInt64_int (i : Int) : decInt64 (.int i) = some i := rfl

theorem loop_len (E : Ext) (ty : Ty) (hc : isCollection ty = true) (n : Nat) (lower : Bool) (v : Int)
    (h0 : 0 ≤ v) (h1 : v ≤ maxI64) (rest : List Item) (b : Builder) :
    rfnLoop E ty (n + 1) (.int (if lower then keyLengthMin else keyLengthMax) :: encInt v :: rest) b =
      (Refine.step b (if lower then .lenLower v else .lenUpper v)).bind fun b' => rfnLoop E ty n rest b' := by
  cases lower
  · simp only [rfnLoop, decInt64_int, decInt64_encInt v h0 h1, hc]
    simp [keyLengthMax, keyLengthMin, keyStringPrefix, keyNullness]
    cases Refine.step b (.lenUpper v) <;> rfl
  · simp only [rfnLoop, decInt64_int, decInt64_encInt v h0 h1, hc]
    simp [keyLengthMax, keyLengthMin, keyStringPrefix, keyNullness]
    cases Refine.step b (.lenLower v) <;> rfl

theorem unmarshal_encNum (E : Ext) (x : Num) :
    unmarshal E (encNum x) .number = (unmarshalNumber (encNum x)).map fun y => ⟨.number, .n y⟩ := by
  unfold encNum
  cases route x with
  | inf n => simp [unmarshal]
  | int i =>
    simp only [encInt]
    by_cases h : i > 127 <;> simp [h, unmarshal]
  | f64 f => simp [unmarshal]
  | str s => simp [unmarshal]

theorem unmarshal_bound (E : Ext) (x y : Num) (i : Bool) (h : unmarshalNumber (encNum x) = .ok y) :
    unmarshal E (.arr [encNum x, .bool i]) boundTy = .ok ⟨boundTy, .seq [.n y, .b i]⟩ := by
  simp [unmarshal, boundTy, unmarshalZip, unmarshal_encNum, h, Res.map, tupleVal, types, payloads]

theorem loop_bound (E : Ext) (n : Nat) (lower : Bool) (x y : Num) (i : Bool) (h : unmarshalNumber (encNum x) = .ok y)
    (rest : List Item) (b : Builder) :
    rfnLoop E .number (n + 1) (.int (if lower then keyNumberMin else keyNumberMax) :: .arr [encNum x, .bool i] :: rest) b =
      (Refine.step b (if lower then .numLower (.known y) i else .numUpper (.known y) i)).bind
        fun b' => rfnLoop E .number n rest b' := by
  cases lower
  · simp only [rfnLoop, decInt64_int, unmarshal_bound E x y i h]
    simp [keyNumberMax, keyNumberMin, keyLengthMax, keyLengthMin, keyStringPrefix, keyNullness, Ty.isNumber,
      Value.isNull, Value.isKnown, Payload.isNull, Payload.isKnown, Payload.unmark1]
    cases Refine.step b (.numUpper (.known y) i) <;> rfl
  · simp only [rfnLoop, decInt64_int, unmarshal_bound E x y i h]
    simp [keyNumberMax, keyNumberMin, keyLengthMax, keyLengthMin, keyStringPrefix, keyNullness, Ty.isNumber,
      Value.isNull, Value.isKnown, Payload.isNull, Payload.isKnown, Payload.unmark1]
    cases Refine.step b (.numLower (.known y) i) <;> rfl


/-! ### builder steps on the fresh builder of an unknown value -/

/-- the builder `cty.UnknownVal(ty).Refine()` after some calls: unknown receiver, no marks -/
def bld (ty : Ty) (wip : Rfn) : Builder := ⟨⟨ty, .unk .unref⟩, [], wip⟩

theorem bld_isDyn (ty : Ty) (wip : Rfn) (hd : ty.isDyn = false) : (bld ty wip).isDyn = false := by
  cases ty <;> simp_all [bld, Builder.isDyn, isDynVal, Ty.isDyn]

theorem bld_notKnown (ty : Ty) (wip : Rfn) : (bld ty wip).orig.isKnown = false := by
  simp [bld, Value.isKnown, Payload.isKnown, Payload.unmark1]

theorem step_notNull (ty : Ty) (wip : Rfn) (hd : ty.isDyn = false) (hw : wip ≠ .unref) (hn : wip.nullness ≠ .t) :
    Refine.step (bld ty wip) .notNull = .ok (bld ty (setNull .f wip)) := by
  simp [Refine.step, bld_isDyn ty wip hd, step1, stepNotNull, bld_notKnown]
  simp [bld, hw, hn]

theorem newValue_bld (ty : Ty) (wip : Rfn) (hd : ty.isDyn = false) (hw : wip ≠ .unref) (hn : wip.nullness ≠ .t)
    (hc : wip.nullness = .f → collapse ty wip = .ok none) :
    Refine.newValue (bld ty wip) = .ok ⟨ty, .unk wip⟩ := by
  have hwm : ∀ p : Payload, p.marks1 = [] → Payload.withMarks p [] = p := by
    intro p hp; simp [Payload.withMarks, hp, unionMarks]
  unfold Refine.newValue
  simp only [bld_notKnown, bld_isDyn ty wip hd, Bool.false_or, Bool.false_eq_true, if_false]
  cases hnn : wip.nullness with
  | t => exact absurd hnn hn
  | u =>
    cases wip <;> simp_all [bld, Value.withMarks, Payload.withMarks, Payload.marks1, unionMarks, Rfn.nullness]
  | f =>
    have := hc hnn
    cases wip <;> simp_all [bld, Value.withMarks, Payload.withMarks, Payload.marks1, unionMarks, Rfn.nullness]


/-- the optional nullness entry at the head of the refinement map -/
def nnEntry (nullF : Bool) : List Item := if nullF then [.int keyNullness, .bool false] else []

theorem loop_nn (E : Ext) (ty : Ty) (k : Nat) (nullF : Bool) (rest : List Item) (wip : Rfn)
    (hd : ty.isDyn = false) (hw : wip ≠ .unref) (hn : wip.nullness ≠ .t) :
    rfnLoop E ty (k + (if nullF then 1 else 0)) (nnEntry nullF ++ rest) (bld ty wip) =
      rfnLoop E ty k rest (bld ty (if nullF then setNull .f wip else wip)) := by
  cases nullF
  · simp [nnEntry]
  · simp only [nnEntry, if_true, List.cons_append, List.nil_append]
    rw [loop_null]
    simp [step_notNull ty wip hd hw hn, Res.bind]

theorem weaker_refl (t : Ty) (r : Rfn) : Weaker t r r := fun _ h => h

theorem weaker_dyn (r' r : Rfn) (h : r' = .unref) : Weaker .dyn r' r := by
  subst h
  intro c _
  cases c <;> simp [γ, Conc.kindOk, nullOk, rangeOk, Rfn.nullness]

/-- `unref` and a refinement that only says "nullness unknown" admit the same values -/
theorem weaker_unref_of (t : Ty) (r : Rfn) (hn : r.nullness = .u) : Weaker t .unref r := by
  intro c h
  simp only [γ, Bool.and_eq_true] at h ⊢
  refine ⟨⟨h.1.1, ?_⟩, by simp [rangeOk]⟩
  have := h.1.2
  rw [hn] at this
  simpa [Rfn.nullness] using this

theorem marshalUnknown_plain (E : Ext) (vt : Ty) (r : Rfn) (hd : vt.isDyn = false) (hn : r.nullness ≠ .f)
    (he : rfnEntries E vt r = .ok []) : marshalUnknown E vt r = .ok plainUnknown := by
  simp [marshalUnknown, hd, he, hn]

theorem marshalUnknown_ext (E : Ext) (vt : Ty) (r : Rfn) (sp : List Item) (hd : vt.isDyn = false)
    (he : rfnEntries E vt r = .ok sp) (hne : (nnEntry (decide (r.nullness = .f)) ++ sp).isEmpty = false) :
    marshalUnknown E vt r = .ok (.ext unknownWithRefinementsExt
      (seqHdr ((nnEntry (decide (r.nullness = .f)) ++ sp).length / 2) + encSizeL (nnEntry (decide (r.nullness = .f)) ++ sp))
      (.map ((nnEntry (decide (r.nullness = .f)) ++ sp).length / 2)) (nnEntry (decide (r.nullness = .f)) ++ sp)) := by
  have hnn : (if r.nullness = .f then [Item.int keyNullness, .bool false] else []) = nnEntry (decide (r.nullness = .f)) := by
    by_cases h : r.nullness = .f <;> simp [nnEntry, h]
  simp only [marshalUnknown, hd, he, hnn]
  simp only [hne]
  simp

theorem seqHdr_pos (n : Nat) : 1 ≤ seqHdr n := by unfold seqHdr; split <;> (try split) <;> omega
theorem intSize_pos (i : Int) : 1 ≤ intSize i := by
  unfold intSize; repeat' split
  all_goals omega

theorem encSizeL_int_pos (k : Int) (rest : List Item) : 1 ≤ encSizeL (.int k :: rest) := by
  simp only [encSizeL, encSize]
  have := intSize_pos k
  omega


/-- the work-in-progress refinement `Refine()` starts from, for an unknown value of type `ty` -/
def fw (ty : Ty) : Rfn := freshWip ⟨ty, .unk .unref⟩

theorem fw_ne (ty : Ty) (hd : ty.isDyn = false) : fw ty ≠ .unref ∧ (fw ty).nullness = .u := by
  cases ty <;> simp_all [fw, freshWip, Ty.isDyn, Rfn.nullness]

theorem setNull_ne (n : Tri) (r : Rfn) (h : r ≠ .unref) : setNull n r ≠ .unref := by
  cases r <;> simp_all [setNull]

theorem setNull_nullness (n : Tri) (r : Rfn) (h : r ≠ .unref) : (setNull n r).nullness = n := by
  cases r <;> simp_all [setNull, Rfn.nullness]

/-- assembling the round trip of an unknown value from the run of the decoder's
loop over the type-specific entries -/
theorem unknown_rt_core (E : Ext) (vt : Ty) (r r' : Rfn) (sp : List Item) (hd : vt.isDyn = false)
    (hkl : knownLenList vt ((nnEntry (decide (r.nullness = .f)) ++ sp).length / 2)
      (nnEntry (decide (r.nullness = .f)) ++ sp) = false)
    (he : rfnEntries E vt r = .ok sp) (hrn : r.nullness ≠ .t)
    (hsize : (match marshalUnknown E vt r with
              | .ok (.ext _ len _ _) => decide (len ≤ maxExtLen)
              | _ => false) = true)
    (hfirst : ∀ x rest, sp = x :: rest → ∃ k, x = .int k)
    (htr : trivialRfn r = (nnEntry (decide (r.nullness = .f)) ++ sp).isEmpty)
    (hrest : (nnEntry (decide (r.nullness = .f)) ++ sp).isEmpty = false →
      rfnLoop E vt (sp.length / 2) sp (bld vt (if r.nullness = .f then setNull .f (fw vt) else fw vt)) =
        .ok (bld vt r') ∧
      Refine.newValue (bld vt r') = .ok ⟨vt, .unk r'⟩ ∧ Weaker vt r' r ∧ keptBodyE E r' r) :
    ∃ it, marshalUnknown E vt r = .ok it ∧ ∃ r'', unmarshal E it vt = .ok ⟨vt, .unk r''⟩ ∧ Weaker vt r'' r ∧
      RfnKeptE E r'' r := by
  obtain ⟨hfw1, hfw2⟩ := fw_ne vt hd
  by_cases hemp : (nnEntry (decide (r.nullness = .f)) ++ sp).isEmpty = true
  · -- no refinement to write: the compact representation
    have hnf : r.nullness ≠ .f := by
      intro h; simp [nnEntry, h] at hemp
    have hsp : sp = [] := by
      cases sp with
      | nil => rfl
      | cons _ _ => simp [nnEntry, hnf] at hemp
    subst hsp
    refine ⟨plainUnknown, marshalUnknown_plain E vt r hd hnf he, .unref, unmarshal_plain E vt, ?_,
      by have ht : trivialRfn r = true := by rw [htr]; exact hemp
         simp [RfnKeptE, ht]⟩
    apply weaker_unref_of
    cases hn : r.nullness <;> simp_all
  · have hne : (nnEntry (decide (r.nullness = .f)) ++ sp).isEmpty = false := by simpa using hemp
    obtain ⟨hloop, hnv, hweak, hkept⟩ := hrest hne
    have hm := marshalUnknown_ext E vt r sp hd he hne
    rw [hm] at hsize
    simp only [decide_eq_true_eq] at hsize
    refine ⟨_, hm, r', ?_, hweak, by
      have ht : trivialRfn r = false := by rw [htr]; exact hne
      simp [RfnKeptE, ht, hkept]⟩
    -- the stream starts with an integer key, so the body is longer than one byte
    have hbig : 1 < seqHdr ((nnEntry (decide (r.nullness = .f)) ++ sp).length / 2) +
        encSizeL (nnEntry (decide (r.nullness = .f)) ++ sp) := by
      have h1 := seqHdr_pos ((nnEntry (decide (r.nullness = .f)) ++ sp).length / 2)
      have h2 : 1 ≤ encSizeL (nnEntry (decide (r.nullness = .f)) ++ sp) := by
        by_cases hf : r.nullness = .f
        · simp only [nnEntry, hf, decide_true, if_true, List.cons_append]
          exact encSizeL_int_pos _ _
        · cases sp with
          | nil => simp [nnEntry, hf] at hne
          | cons x rest =>
            obtain ⟨k, rfl⟩ := hfirst x rest rfl
            simp only [nnEntry, hf, decide_false]
            exact encSizeL_int_pos _ _
      omega
    rw [unmarshal_ext_map E vt _ _ _ hbig hsize hd hkl]
    have hcount : (nnEntry (decide (r.nullness = .f)) ++ sp).length / 2 =
        sp.length / 2 + (if decide (r.nullness = .f) then 1 else 0) := by
      by_cases hf : r.nullness = .f <;> simp [nnEntry, hf] <;> omega
    have hb0 : (⟨⟨vt, .unk .unref⟩, [], freshWip ⟨vt, .unk .unref⟩⟩ : Builder) = bld vt (fw vt) := rfl
    rw [hb0, hcount, loop_nn E vt _ _ sp (fw vt) hd hfw1 (by simp [hfw2])]
    have hif : (if decide (r.nullness = .f) = true then setNull .f (fw vt) else fw vt) =
        (if r.nullness = .f then setNull .f (fw vt) else fw vt) := by
      by_cases hf : r.nullness = .f <;> simp [hf]
    rw [hif, hloop]
    simp [Res.bind, hnv]


theorem knl_nn (vt : Ty) (b : Bool) :
    knownLenList vt ((nnEntry b ++ []).length / 2) (nnEntry b ++ []) = false := by
  cases b <;> simp [knownLenList, nnEntry, lenFacts, decInt64, decBool, keyNullness, Refine.maxInt]

/-- no type-specific entry: only the nullness travels -/
theorem unknown_rt_plain (E : Ext) (vt : Ty) (r : Rfn) (hd : vt.isDyn = false)
    (he : rfnEntries E vt r = .ok []) (hrn : r.nullness ≠ .t)
    (hsize : (match marshalUnknown E vt r with
              | .ok (.ext _ len _ _) => decide (len ≤ maxExtLen)
              | _ => false) = true)
    (hr : r.nullness = .f → r = setNull .f (fw vt))
    (hc : collapse vt (setNull .f (fw vt)) = .ok none)
    (htr : trivialRfn r = (nnEntry (decide (r.nullness = Tri.f)) ++ ([] : List Item)).isEmpty)
    (hkept : r.nullness = .f → keptBodyE E r r) :
    ∃ it, marshalUnknown E vt r = .ok it ∧ ∃ r'', unmarshal E it vt = .ok ⟨vt, .unk r''⟩ ∧ Weaker vt r'' r ∧
      RfnKeptE E r'' r := by
  obtain ⟨hfw1, hfw2⟩ := fw_ne vt hd
  apply unknown_rt_core E vt r (setNull .f (fw vt)) [] hd (knl_nn vt _) he hrn hsize (by simp) htr
  intro hne
  have hf : r.nullness = .f := by
    by_cases hf : r.nullness = .f
    · exact hf
    · simp [nnEntry, hf] at hne
  refine ⟨by simp [hf, loop_done], ?_, ?_, ?_⟩
  · apply newValue_bld vt _ hd (setNull_ne _ _ hfw1)
    · rw [setNull_nullness _ _ hfw1]; simp
    · intro _; exact hc
  · rw [← hr hf]; exact weaker_refl _ _
  · rw [← hr hf]; exact hkept hf


/-! ### collections: length bounds -/

theorem step_lenLower (ty : Ty) (nl : Tri) (lo0 hi0 v : Int) (hd : ty.isDyn = false) :
    Refine.step (bld ty (.coll nl lo0 hi0)) (.lenLower v) =
      if lo0 > v then .ok (bld ty (.coll nl lo0 hi0))
      else if hi0 < v then .panic "length upper bound is less than lower bound"
      else .ok (bld ty (.coll nl v hi0)) := by
  simp [Refine.step, bld_isDyn ty _ hd, step1, stepLenLower, bld_notKnown]
  simp [bld]

theorem step_lenUpper (ty : Ty) (nl : Tri) (lo0 hi0 v : Int) (hd : ty.isDyn = false) :
    Refine.step (bld ty (.coll nl lo0 hi0)) (.lenUpper v) =
      if hi0 < v then .ok (bld ty (.coll nl lo0 hi0))
      else if v < lo0 then .panic "length upper bound is less than lower bound"
      else .ok (bld ty (.coll nl lo0 v)) := by
  simp [Refine.step, bld_isDyn ty _ hd, step1, stepLenUpper, bld_notKnown]
  simp [bld]

theorem collapse_coll (vt : Ty) (n : Tri) (lo hi : Int) (h : collStaysUnknown vt lo hi = true) :
    collapse vt (.coll n lo hi) = .ok none := by
  unfold collStaysUnknown at h
  unfold collapse
  by_cases he : lo = hi
  · subst he
    simp at h
    cases vt <;> simp_all
  · simp [he]

theorem maxInt_eq : Refine.maxInt = maxI64 := rfl

theorem lenFacts_coll (n : Tri) (lo hi : Int) (h0 : 0 ≤ lo) (hle : lo ≤ hi) (hmax : hi ≤ Refine.maxInt) :
    lenFacts ((nnEntry (decide ((Rfn.coll n lo hi).nullness = .f)) ++
        ((if lo ≠ 0 then [.int keyLengthMin, encInt lo] else []) ++
         (if hi ≠ Refine.maxInt then [.int keyLengthMax, encInt hi] else []))).length / 2)
      (nnEntry (decide ((Rfn.coll n lo hi).nullness = .f)) ++
        ((if lo ≠ 0 then [Item.int keyLengthMin, encInt lo] else []) ++
         (if hi ≠ Refine.maxInt then [Item.int keyLengthMax, encInt hi] else [])))
      (false, 0, Refine.maxInt) = (decide (n = .f), lo, hi) := by
  have hlo64 : lo ≤ maxI64 := by rw [← maxInt_eq]; omega
  have hhi64 : hi ≤ maxI64 := by rw [← maxInt_eq]; omega
  have hhi0 : 0 ≤ hi := by omega
  have e1 := decInt64_encInt lo h0 hlo64
  have e2 := decInt64_encInt hi hhi0 hhi64
  by_cases hn : n = .f <;> by_cases h1 : lo = 0 <;> by_cases h2 : hi = Refine.maxInt <;>
    simp [Rfn.nullness, nnEntry, hn, h1, h2, lenFacts, decInt64_int, decBool, e1, e2,
      keyNullness, keyLengthMin, keyLengthMax] <;> omega

theorem unknown_rt_coll (E : Ext) (vt : Ty) (n : Tri) (lo hi : Int) (hc : isCollection vt = true)
    (h : rfnOK E vt (.coll n lo hi) = true) :
    ∃ it, marshalUnknown E vt (.coll n lo hi) = .ok it ∧
      ∃ r'', unmarshal E it vt = .ok ⟨vt, .unk r''⟩ ∧ Weaker vt r'' (.coll n lo hi) ∧
        RfnKeptE E r'' (.coll n lo hi) := by
  have hd : vt.isDyn = false := by cases vt <;> simp_all [isCollection, Ty.isDyn]
  have hfw : fw vt = .coll .u 0 Refine.maxInt := by cases vt <;> simp_all [isCollection, fw, freshWip]
  simp only [rfnOK, Bool.and_eq_true, decide_eq_true_eq, Rfn.nullness, tri_bne, Bool.or_eq_true] at h
  obtain ⟨⟨⟨_, hnt⟩, hsize⟩, ⟨⟨⟨h0, hle⟩, hmax⟩, hstay⟩⟩ := h
  have hnt' : n ≠ .t := by simpa using hnt
  have hwip : (if (Rfn.coll n lo hi).nullness = .f then setNull .f (fw vt) else fw vt) = .coll n 0 Refine.maxInt := by
    show (if n = .f then setNull .f (fw vt) else fw vt) = _
    rw [hfw]; cases n <;> simp_all [setNull]
  have he : rfnEntries E vt (.coll n lo hi) = .ok
      ((if lo ≠ 0 then [.int keyLengthMin, encInt lo] else []) ++
       (if hi ≠ Refine.maxInt then [.int keyLengthMax, encInt hi] else [])) := by
    cases vt <;> simp_all [isCollection, rfnEntries]
  have hlo64 : lo ≤ maxI64 := by rw [← maxInt_eq]; omega
  have hhi64 : hi ≤ maxI64 := by rw [← maxInt_eq]; omega
  have hhi0 : 0 ≤ hi := by omega
  have hkl : knownLenList vt
      ((nnEntry (decide ((Rfn.coll n lo hi).nullness = .f)) ++
        ((if lo ≠ 0 then [.int keyLengthMin, encInt lo] else []) ++
         (if hi ≠ Refine.maxInt then [.int keyLengthMax, encInt hi] else []))).length / 2)
      (nnEntry (decide ((Rfn.coll n lo hi).nullness = .f)) ++
        ((if lo ≠ 0 then [Item.int keyLengthMin, encInt lo] else []) ++
         (if hi ≠ Refine.maxInt then [Item.int keyLengthMax, encInt hi] else []))) = false := by
    by_cases hl : isListTy vt = true
    · apply knownLenList_facts vt _ _ _ lo hi (lenFacts_coll n lo hi h0 hle hmax)
      rcases hstay with hs | hs
      · left; simpa [Rfn.nullness] using hs
      · right
        cases vt <;> simp_all [isListTy, collStaysUnknown]
    · exact knownLenList_not_list _ _ _ (by simpa using hl)
  apply unknown_rt_core E vt (.coll n lo hi) (.coll n lo hi) _ hd hkl he (by simpa [Rfn.nullness] using hnt') hsize
  · intro x rest hx
    by_cases h1 : lo ≠ 0 <;> by_cases h2 : hi ≠ Refine.maxInt <;> simp [h1, h2] at hx
    · exact ⟨_, hx.1.symm⟩
    · exact ⟨_, hx.1.symm⟩
    · exact ⟨_, hx.1.symm⟩
  · by_cases hn : n = .f <;> by_cases h1 : lo = 0 <;> by_cases h2 : hi = Refine.maxInt <;>
      simp [trivialRfn, Rfn.nullness, nnEntry, hn, h1, h2]
  · intro _
    rw [hwip]
    refine ⟨?_, ?_, weaker_refl _ _, rfl⟩
    · have kmin : keyLengthMin = (if true then keyLengthMin else keyLengthMax) := rfl
      have kmax : keyLengthMax = (if false then keyLengthMin else keyLengthMax) := rfl
      by_cases h1 : lo = 0 <;> by_cases h2 : hi = Refine.maxInt
      · subst h1 h2; simp [loop_done]
      · subst h1
        simp only [ne_eq, not_true_eq_false, if_false, h2, not_false_eq_true, if_true, List.nil_append,
          List.length_cons, List.length_nil]
        rw [kmax, loop_len E vt hc 0 false hi hhi0 hhi64]
        simp only [Bool.false_eq_true, if_false]
        rw [step_lenUpper vt n 0 Refine.maxInt hi hd]
        have : ¬ Refine.maxInt < hi := by omega
        have h3 : ¬ hi < 0 := by omega
        simp [this, h3, Res.bind, loop_done]
      · subst h2
        simp only [ne_eq, h1, not_false_eq_true, if_true, not_true_eq_false, if_false, List.append_nil,
          List.length_cons, List.length_nil]
        rw [kmin, loop_len E vt hc 0 true lo h0 hlo64]
        simp only [if_true]
        rw [step_lenLower vt n 0 Refine.maxInt lo hd]
        have : ¬ (0 > lo) := by omega
        have h3 : ¬ Refine.maxInt < lo := by omega
        simp [this, h3, Res.bind, loop_done]
      · simp only [ne_eq, h1, not_false_eq_true, if_true, h2, List.cons_append, List.nil_append,
          List.length_cons, List.length_nil]
        rw [kmin, loop_len E vt hc 1 true lo h0 hlo64]
        simp only [if_true]
        rw [step_lenLower vt n 0 Refine.maxInt lo hd]
        have : ¬ (0 > lo) := by omega
        have h3 : ¬ Refine.maxInt < lo := by omega
        simp only [this, h3, if_false, Res.bind]
        rw [kmax, loop_len E vt hc 0 false hi hhi0 hhi64]
        simp only [Bool.false_eq_true, if_false]
        rw [step_lenUpper vt n lo Refine.maxInt hi hd]
        have h4 : ¬ Refine.maxInt < hi := by omega
        have h5 : ¬ hi < lo := by omega
        simp [h4, h5, Res.bind, loop_done]
    · apply newValue_bld vt _ hd (by simp) (by simpa [Rfn.nullness] using hnt')
      intro hf
      simp only [Rfn.nullness] at hf
      apply collapse_coll
      rcases hstay with hs | hs
      · exact absurd hf (by simpa using hs)
      · exact hs


/-! ### strings: the prefix -/

theorem bytes_empty : bytes "" = [] := by simp [bytes]

theorem step_prefix (n : Tri) (q : String) :
    Refine.step (bld .string (.str n "")) (.stringPrefixFull q) =
      .ok (bld .string (.str n (if (bytes q).length > 0 then q else ""))) := by
  simp [Refine.step, bld_isDyn .string _ rfl, step1, stepPrefix, bld_notKnown, overlapDiffers]
  simp [bld, bytes_empty]

theorem isPrefixOf_trans {α} [BEq α] [LawfulBEq α] {a b c : List α}
    (h1 : a.isPrefixOf b = true) (h2 : b.isPrefixOf c = true) : a.isPrefixOf c = true := by
  rw [List.isPrefixOf_iff_prefix] at *
  exact List.IsPrefix.trans h1 h2

theorem weaker_str (n : Tri) (q p : String) (h : (bytes q).isPrefixOf (bytes p) = true) :
    Weaker .string (.str n q) (.str n p) := by
  intro c hc
  simp only [γ, Bool.and_eq_true, Rfn.nullness] at hc ⊢
  refine ⟨hc.1, ?_⟩
  cases c <;> simp_all [rangeOk]
  exact List.IsPrefix.trans h hc.2

theorem unknown_rt_str (E : Ext) (n : Tri) (p : String) (h : rfnOK E .string (.str n p) = true) :
    ∃ it, marshalUnknown E .string (.str n p) = .ok it ∧
      ∃ r'', unmarshal E it .string = .ok ⟨.string, .unk r''⟩ ∧ Weaker .string r'' (.str n p) ∧
        RfnKeptE E r'' (.str n p) := by
  simp only [rfnOK, Bool.and_eq_true, Rfn.nullness, tri_bne, decide_eq_true_eq, beq_iff_eq] at h
  obtain ⟨⟨⟨_, hnt⟩, hsize⟩, hnp, hsafe⟩ := h
  have hfw : fw .string = .str .u "" := rfl
  have hwip : (if (Rfn.str n p).nullness = .f then setNull .f (fw .string) else fw .string) = .str n "" := by
    show (if n = .f then setNull .f (fw .string) else fw .string) = _
    rw [hfw]; cases n <;> simp_all [setNull]
  -- the prefix that travels
  by_cases hp : p = ""
  · subst hp
    apply unknown_rt_core E .string (.str n "") (.str n "") [] rfl (knownLenList_not_list _ _ _ rfl) (by simp [rfnEntries]) (by simpa [Rfn.nullness] using hnt) hsize
      (by simp) (by cases n <;> simp [trivialRfn, Rfn.nullness, nnEntry])
    intro _
    rw [hwip]
    refine ⟨by simp [loop_done], ?_, weaker_refl _ _, ⟨"", rfl, by simp [bytes_empty, maxPrefixLength]⟩⟩
    apply newValue_bld .string _ rfl (by simp) (by simpa [Rfn.nullness] using hnt)
    intro _; rfl
  · -- q: the prefix as written
    have hq : ∃ q, rfnEntries E .string (.str n p) = .ok [.int keyStringPrefix, .str q] ∧ E.norm q = q ∧
        (bytes q).isPrefixOf (bytes p) = true ∧
        (if (bytes p).length > maxPrefixLength then
           E.safePrefix ((bytes p).take (maxPrefixLength - 1)) = some q else q = p) := by
      by_cases hlong : (bytes p).length > maxPrefixLength
      · simp only [hlong, if_true] at hsafe
        cases hs : E.safePrefix ((bytes p).take (maxPrefixLength - 1)) with
        | none => simp [hs] at hsafe
        | some q =>
          simp only [hs, Bool.and_eq_true, beq_iff_eq] at hsafe
          exact ⟨q, by simp [rfnEntries, hp, hlong, hs], hsafe.1, hsafe.2, by simp [hlong]⟩
      · refine ⟨p, by simp [rfnEntries, hp, hlong], hnp, ?_, by simp [hlong]⟩
        rw [List.isPrefixOf_iff_prefix]
        exact List.prefix_refl _
    obtain ⟨q, he, hnq, hpre, hwhich⟩ := hq
    have hbq : bytes (if (bytes q).length > 0 then q else "") = bytes q := by
      by_cases hl : (bytes q).length > 0
      · simp [hl]
      · have : bytes q = [] := by
          cases hb : bytes q with
          | nil => rfl
          | cons _ _ => simp [hb] at hl
        simp [hl, bytes_empty, this]
    apply unknown_rt_core E .string (.str n p) (.str n (if (bytes q).length > 0 then q else "")) _ rfl (knownLenList_not_list _ _ _ rfl) he
      (by simpa [Rfn.nullness] using hnt) hsize
    · intro x rest hx
      simp at hx
      exact ⟨_, hx.1.symm⟩
    · cases n <;> simp [trivialRfn, Rfn.nullness, nnEntry, hp]
    · intro _
      rw [hwip]
      refine ⟨?_, ?_, ?_, ?_⟩
      rotate_left 3
      · refine ⟨_, rfl, ?_⟩
        by_cases hlong : (bytes p).length > maxPrefixLength
        · simp only [hlong, if_true] at hwhich ⊢
          exact ⟨q, hwhich, hbq, by rw [hbq]; exact hpre⟩
        · simp only [hlong, if_false] at hwhich ⊢
          rw [hbq, hwhich]
      · simp only [List.length_cons, List.length_nil]
        rw [loop_prefix, hnq, step_prefix]
        simp [Res.bind, loop_done]
      · apply newValue_bld .string _ rfl (by simp) (by simpa [Rfn.nullness] using hnt)
        intro _; rfl
      · apply weaker_str
        by_cases hl : (bytes q).length > 0
        · simpa [hl] using hpre
        · simp [hl, bytes_empty]


/-! ### numbers: the bounds -/
open NumCmp in
theorem step_numLower (n : Tri) (y : Num) (incl : Bool) :
    Refine.step (bld .number (.num n none none)) (.numLower (.known y) incl) =
      .ok (bld .number (.num n (some ⟨y, incl⟩) none)) := by
  have h1 : gt y (.inf false) = false := by
    have := cmp_posInf y
    simp only [gt, decide_eq_false_iff_not]; omega
  simp [Refine.step, bld_isDyn .number _ rfl, step1, stepNumLower, lowerCore, origRejectsLower, origUpper,
    lowerTighter?, consistent?]
  simp [bld, h1]

open NumCmp in
theorem step_numUpper (n : Tri) (lo : Option Bound) (z : Num) (incl : Bool)
    (hlt : ∀ l, lo = some l → Num.cmp l.v z < 0) :
    Refine.step (bld .number (.num n lo none)) (.numUpper (.known z) incl) =
      .ok (bld .number (.num n lo (some ⟨z, incl⟩))) := by
  have h1 : lt z (.inf true) = false := by
    have := cmp_negInf z
    simp only [lt, decide_eq_false_iff_not]; omega
  have hc : consistent? lo (some ⟨z, incl⟩) = some true := by
    cases lo with
    | none => rfl
    | some l =>
      have := hlt l rfl
      simp only [consistent?]
      split <;> simp [lt, le?, this]
  simp [Refine.step, bld_isDyn .number _ rfl, step1, stepNumUpper, upperCore, origRejectsUpper, origLower,
    upperTighter?]
  simp [bld, h1, hc]

/-- the decoded bound stands for the encoded one -/
def boundSame : Option Bound → Option Bound → Prop
  | none, none => True
  | some a, some b => Num.cmp a.v b.v = 0 ∧ a.incl = b.incl
  | _, _ => False

open NumCmp in
theorem weaker_num (n : Tri) (lo' hi' lo hi : Option Bound) (hl : boundSame lo' lo) (hh : boundSame hi' hi) :
    Weaker .number (.num n lo' hi') (.num n lo hi) := by
  intro c hc
  simp only [γ, Bool.and_eq_true, Rfn.nullness] at hc ⊢
  refine ⟨hc.1, ?_⟩
  cases c with
  | num x =>
    simp only [rangeOk, Bool.and_eq_true] at hc ⊢
    constructor
    · cases lo' <;> cases lo <;> simp_all [boundSame, aboveLower]
      rename_i a b
      rw [cmp_congr_right hl.1 x]; exact hc.2.1
    · cases hi' <;> cases hi <;> simp_all [boundSame, belowUpper]
      rename_i a b
      rw [cmp_congr_right hh.1 x]; exact hc.2.2
  | _ => simp [rangeOk]

theorem needsText_false {a b : Num} {p : Nat} (ha : a.isInf = true ∨ a.prec = p) (hb : b.isInf = true ∨ b.prec = p) :
    needsText a b = false := by
  cases a with
  | inf _ => simp [needsText]
  | fin na ma ea pa =>
    cases b with
    | inf _ => simp [needsText]
    | fin nb mb eb pb =>
      simp only [Num.isInf, Num.prec, Bool.false_eq_true, false_or] at ha hb
      subst ha hb
      simp [needsText]

theorem collapse_num (n : Tri) (lo hi : Option Bound)
    (h : ∀ l h', lo = some l → hi = some h' → Num.cmp l.v h'.v < 0 ∧ ((l.incl && h'.incl) = true → needsText l.v h'.v = false)) :
    collapse .number (.num n lo hi) = .ok none := by
  cases lo with
  | none => rfl
  | some l =>
    cases hi with
    | none => rfl
    | some h' =>
      obtain ⟨h1, h2⟩ := h l h' rfl rfl
      simp only [collapse]
      by_cases hi2 : (h'.incl && l.incl) = true
      · have : (l.incl && h'.incl) = true := by simpa [Bool.and_comm] using hi2
        have hne : (Num.cmp l.v h'.v == 0) = false := by
          have : ¬ Num.cmp l.v h'.v = 0 := by omega
          simpa using this
        simp [hi2, numEq?, EqOracle.eq, numEqPartial, h2 this, hne]
      · simp [hi2]

theorem unknown_rt_num (E : Ext) (n : Tri) (lo hi : Option Bound) (h : rfnOK E .number (.num n lo hi) = true) :
    ∃ it, marshalUnknown E .number (.num n lo hi) = .ok it ∧
      ∃ r'', unmarshal E it .number = .ok ⟨.number, .unk r''⟩ ∧ Weaker .number r'' (.num n lo hi) ∧
        RfnKeptE E r'' (.num n lo hi) := by
  simp only [rfnOK, Bool.and_eq_true, Rfn.nullness, tri_bne, decide_eq_true_eq] at h
  obtain ⟨⟨⟨_, hnt⟩, hsize⟩, ⟨hbl, hbh⟩, hboth⟩ := h
  have hfw : fw .number = .num .u none none := rfl
  have hwip : (if (Rfn.num n lo hi).nullness = .f then setNull .f (fw .number) else fw .number) = .num n none none := by
    show (if n = .f then setNull .f (fw .number) else fw .number) = _
    rw [hfw]; cases n <;> simp_all [setNull]
  -- decoded bounds
  have hdl : ∀ l, lo = some l → ∃ y, unmarshalNumber (encNum l.v) = .ok y ∧ Num.cmp y l.v = 0 ∧
      (y.isInf = true ∨ y.prec = decPrec l.v) := fun l hl => encNum_exact l (hl ▸ hbl)
  have hdh : ∀ l, hi = some l → ∃ y, unmarshalNumber (encNum l.v) = .ok y ∧ Num.cmp y l.v = 0 ∧
      (y.isInf = true ∨ y.prec = decPrec l.v) := fun l hl => encNum_exact l (hl ▸ hbh)
  have he : rfnEntries E .number (.num n lo hi) = .ok (boundEntry keyNumberMin lo ++ boundEntry keyNumberMax hi) := rfl
  have kmin : keyNumberMin = (if true then keyNumberMin else keyNumberMax) := rfl
  have kmax : keyNumberMax = (if false then keyNumberMin else keyNumberMax) := rfl
  have hnt' : (Rfn.num n lo hi).nullness ≠ .t := by simpa [Rfn.nullness] using hnt
  cases lo with
  | none =>
    cases hi with
    | none =>
      apply unknown_rt_core E .number _ (.num n none none) _ rfl (knownLenList_not_list _ _ _ rfl) he hnt' hsize (by simp [boundEntry])
        (by cases n <;> simp [trivialRfn, Rfn.nullness, nnEntry, boundEntry])
      intro _
      rw [hwip]
      refine ⟨by simp [boundEntry, loop_done], ?_, weaker_refl _ _, ⟨none, none, rfl, trivial, trivial⟩⟩
      exact newValue_bld .number _ rfl (by simp) hnt' (fun _ => rfl)
    | some hb =>
      obtain ⟨z, hz1, hz2, hz3⟩ := hdh hb rfl
      apply unknown_rt_core E .number _ (.num n none (some ⟨z, hb.incl⟩)) _ rfl (knownLenList_not_list _ _ _ rfl) he hnt' hsize
      · intro x rest hx; simp [boundEntry] at hx; exact ⟨_, hx.1.symm⟩
      · cases n <;> simp [trivialRfn, Rfn.nullness, nnEntry, boundEntry]
      · intro _
        rw [hwip]
        refine ⟨?_, ?_, ?_, ?_⟩
        · simp only [boundEntry, List.nil_append, List.length_cons, List.length_nil]
          rw [kmax, loop_bound E 0 false hb.v z hb.incl hz1]
          simp only [Bool.false_eq_true, if_false]
          rw [step_numUpper n none z hb.incl (by simp)]
          simp [Res.bind, loop_done]
        · exact newValue_bld .number _ rfl (by simp) hnt' (fun _ => rfl)
        · exact weaker_num n none _ none _ trivial ⟨hz2, rfl⟩
        · exact ⟨none, _, rfl, trivial, ⟨hz2, rfl⟩⟩
  | some lb =>
    obtain ⟨y, hy1, hy2, hy3⟩ := hdl lb rfl
    cases hi with
    | none =>
      apply unknown_rt_core E .number _ (.num n (some ⟨y, lb.incl⟩) none) _ rfl (knownLenList_not_list _ _ _ rfl) he hnt' hsize
      · intro x rest hx; simp [boundEntry] at hx; exact ⟨_, hx.1.symm⟩
      · cases n <;> simp [trivialRfn, Rfn.nullness, nnEntry, boundEntry]
      · intro _
        rw [hwip]
        refine ⟨?_, ?_, ?_, ?_⟩
        · simp only [boundEntry, List.append_nil, List.length_cons, List.length_nil]
          rw [kmin, loop_bound E 0 true lb.v y lb.incl hy1]
          simp only [if_true]
          rw [step_numLower]
          simp [Res.bind, loop_done]
        · exact newValue_bld .number _ rfl (by simp) hnt' (fun _ => rfl)
        · exact weaker_num n _ none _ none ⟨hy2, rfl⟩ trivial
        · exact ⟨_, none, rfl, ⟨hy2, rfl⟩, trivial⟩
    | some hb =>
      obtain ⟨z, hz1, hz2, hz3⟩ := hdh hb rfl
      simp only [Bool.and_eq_true, decide_eq_true_eq, Bool.or_eq_true, Bool.not_eq_true', beq_iff_eq] at hboth
      obtain ⟨hlt, hcol⟩ := hboth
      have hyz : Num.cmp y z < 0 := by
        rw [NumCmp.cmp_congr_left hy2 z, NumCmp.cmp_congr_right hz2 lb.v]; exact hlt
      apply unknown_rt_core E .number _ (.num n (some ⟨y, lb.incl⟩) (some ⟨z, hb.incl⟩)) _ rfl (knownLenList_not_list _ _ _ rfl) he hnt' hsize
      · intro x rest hx; simp [boundEntry] at hx; exact ⟨_, hx.1.symm⟩
      · cases n <;> simp [trivialRfn, Rfn.nullness, nnEntry, boundEntry]
      · intro _
        rw [hwip]
        refine ⟨?_, ?_, ?_, ?_⟩
        · simp only [boundEntry, List.cons_append, List.nil_append, List.length_cons, List.length_nil]
          rw [kmin, loop_bound E 1 true lb.v y lb.incl hy1]
          simp only [if_true]
          rw [step_numLower]
          simp only [Res.bind]
          rw [kmax, loop_bound E 0 false hb.v z hb.incl hz1]
          simp only [Bool.false_eq_true, if_false]
          rw [step_numUpper n _ z hb.incl (by intro l hl; cases hl; exact hyz)]
          simp [Res.bind, loop_done]
        · apply newValue_bld .number _ rfl (by simp) (by simpa [Rfn.nullness] using hnt)
          intro hf
          apply collapse_num
          intro l h' hl hh
          cases hl; cases hh
          refine ⟨hyz, ?_⟩
          intro hincl
          simp only at hincl
          have hprec : decPrec lb.v = decPrec hb.v := by
            rcases hcol with (hc | hc) | hc
            · exact absurd hf (by simpa [Rfn.nullness] using hc)
            · simp [hincl] at hc
            · exact hc
          exact needsText_false (hprec ▸ hy3) hz3
        · exact weaker_num n _ _ _ _ ⟨hy2, rfl⟩ ⟨hz2, rfl⟩
        · exact ⟨_, _, rfl, ⟨hy2, rfl⟩, ⟨hz2, rfl⟩⟩


/-! ### every kind -/

theorem collapse_fresh (vt : Ty) (hd : vt.isDyn = false) : collapse vt (setNull .f (fw vt)) = .ok none := by
  cases vt <;> simp_all [fw, freshWip, setNull, collapse, Ty.isDyn, Refine.maxInt]

/-- An unknown value of a type other than the placeholder: the item `marshalUnknownValue`
writes decodes to an unknown value of the same type with a weaker-or-equal refinement. -/
theorem unknown_rt (E : Ext) (vt : Ty) (r : Rfn) (hd : vt.isDyn = false) (h : rfnOK E vt r = true) :
    ∃ it, marshalUnknown E vt r = .ok it ∧
      ∃ r'', unmarshal E it vt = .ok ⟨vt, .unk r''⟩ ∧ Weaker vt r'' r ∧ RfnKeptE E r'' r := by
  have hparts := h
  simp only [rfnOK, Bool.and_eq_true] at hparts
  obtain ⟨⟨⟨hk, hnt⟩, hsize⟩, _⟩ := hparts
  have hnt' : r.nullness ≠ .t := by simpa using hnt
  cases r with
  | unref =>
    apply unknown_rt_plain E vt .unref hd (by cases vt <;> simp [rfnEntries]) hnt' hsize
    · intro hf; simp [Rfn.nullness] at hf
    · exact collapse_fresh vt hd
    · simp [trivialRfn, Rfn.nullness, nnEntry]
    · intro hf; simp [Rfn.nullness] at hf
  | nullable n =>
    apply unknown_rt_plain E vt (.nullable n) hd (by cases vt <;> simp_all [rfnEntries, kindOk]) hnt' hsize
    · intro hf
      simp only [Rfn.nullness] at hf
      subst hf
      cases vt <;> simp_all [kindOk, fw, freshWip, setNull]
    · exact collapse_fresh vt hd
    · cases n <;> simp [trivialRfn, Rfn.nullness, nnEntry]
    · intro _; rfl
  | str n p =>
    cases vt <;> simp [kindOk] at hk
    exact unknown_rt_str E n p h
  | num n lo hi =>
    cases vt <;> simp [kindOk] at hk
    exact unknown_rt_num E n lo hi h
  | coll n lo hi =>
    have hc : isCollection vt = true := by cases vt <;> simp_all [kindOk, isCollection]
    exact unknown_rt_coll E vt n lo hi hc h

end Msgpack
end CtyModel
