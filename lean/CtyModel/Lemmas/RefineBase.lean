/-
C05: what holds of the builder for EVERY equality oracle — in particular for
`textOracle`, i.e. for the code as it is: calls never touch the receiver, its
marks, its type or the kind of the record; `cty.DynamicVal` ignores every call;
`NewValue` returns a value of the receiver's type, and when that value is unknown
it carries exactly the record.
-/
import CtyModel.Lemmas.RefineEnds
namespace CtyModel
namespace Refine

variable [EqOracle]

/-- receiver, marks, well-formedness and non-negative length bounds are kept -/
def Base (b b' : Builder) : Prop :=
  b.sameBase b' ∧ (b.wf = true → b'.wf = true) ∧ (b.wip.lenOk = true → b'.wip.lenOk = true)

omit [EqOracle] in
theorem Base.refl (b : Builder) : Base b b := ⟨Builder.sameBase.rfl' _, id, id⟩

omit [EqOracle] in
theorem Base.trans {a b c : Builder} (h1 : Base a b) (h2 : Base b c) : Base a c :=
  ⟨h1.1.trans h2.1, fun h => h2.2.1 (h1.2.1 h), fun h => h2.2.2 (h1.2.2 h)⟩

omit [EqOracle] in
theorem Base.wip {b : Builder} {r : Rfn} (hk : kindOk b.orig.ty r = kindOk b.orig.ty b.wip)
    (hl : b.wip.lenOk = true → r.lenOk = true) : Base b { b with wip := r } :=
  ⟨b.sameBase_wip _, wf_wip hk, hl⟩

theorem stepNumLower_base {b b' : Builder} {a : NumArg} {incl : Bool} (h : stepNumLower b a incl = .ok b') :
    Base b b' := by
  obtain ⟨n, lo, hi, hw, hcase⟩ := stepNumLower_ok h
  rcases hcase with ⟨_, rfl⟩ | ⟨m, _, hcore⟩
  · exact Base.refl _
  · obtain ⟨_, hc⟩ := lowerCore_ok hcore
    rcases hc with ⟨rfl, _⟩ | ⟨_, rfl, _⟩
    · exact Base.refl _
    · exact Base.wip (by rw [hw]; exact kindOk_num _ _ _ _ _ _ _) (fun _ => rfl)

theorem stepNumUpper_base {b b' : Builder} {a : NumArg} {incl : Bool} (h : stepNumUpper b a incl = .ok b') :
    Base b b' := by
  obtain ⟨n, lo, hi, hw, hcase⟩ := stepNumUpper_ok h
  rcases hcase with ⟨_, rfl⟩ | ⟨m, _, hcore⟩
  · exact Base.refl _
  · obtain ⟨_, hc⟩ := upperCore_ok hcore
    rcases hc with ⟨rfl, _⟩ | ⟨_, rfl, _⟩
    · exact Base.refl _
    · exact Base.wip (by rw [hw]; exact kindOk_num _ _ _ _ _ _ _) (fun _ => rfl)

omit [EqOracle] in
theorem stepLenLower_base {b b' : Builder} {n : Int} (h : stepLenLower b n = .ok b') : Base b b' := by
  obtain ⟨nl, lo, hi, hw, hcase, _⟩ := stepLenLower_ok h
  rcases hcase with ⟨rfl, _⟩ | ⟨h1, _, rfl⟩
  · exact Base.refl _
  · refine Base.wip (by rw [hw]; exact kindOk_coll _ _ _ _ _ _ _) ?_
    rw [hw]; simp only [Rfn.lenOk, decide_eq_true_eq]; omega

omit [EqOracle] in
theorem stepLenUpper_base {b b' : Builder} {n : Int} (h : stepLenUpper b n = .ok b') : Base b b' := by
  obtain ⟨nl, lo, hi, hw, hcase, _⟩ := stepLenUpper_ok h
  rcases hcase with ⟨rfl, _⟩ | ⟨_, _, rfl⟩
  · exact Base.refl _
  · refine Base.wip (by rw [hw]; exact kindOk_coll _ _ _ _ _ _ _) ?_
    rw [hw]; simp only [Rfn.lenOk]; exact id

/-- every accepted call, on every receiver, for every oracle -/
theorem step_base {b b' : Builder} {c : RefineCall} (h : step b c = .ok b') : Base b b' := by
  unfold step at h
  split at h
  · simp at h; subst h; exact Base.refl _
  · split at h
    · simp at h
    · cases c with
      | notNull =>
        obtain ⟨rfl, _, _⟩ := stepNotNull_ok h
        exact Base.wip (kindOk_setNull _ _ _) (by rw [lenOk_setNull]; exact id)
      | null =>
        obtain ⟨rfl, _, _⟩ := stepNull_ok h
        exact Base.wip (kindOk_setNull _ _ _) (by rw [lenOk_setNull]; exact id)
      | numLower a incl => exact stepNumLower_base h
      | numUpper a incl => exact stepNumUpper_base h
      | lenLower n => exact stepLenLower_base h
      | lenUpper n => exact stepLenUpper_base h
      | stringPrefix p =>
        obtain ⟨n, q, hw, _, rfl, _⟩ := stepPrefix_ok h
        exact Base.wip (by rw [hw]; exact kindOk_str _ _ _ _ _) (fun _ => rfl)
      | stringPrefixFull p =>
        obtain ⟨n, q, hw, _, rfl, _⟩ := stepPrefix_ok h
        exact Base.wip (by rw [hw]; exact kindOk_str _ _ _ _ _) (fun _ => rfl)
      | numRangeInclusive lo hi =>
        simp only [step1] at h
        cases h1 : stepNumLower b lo true with
        | ok b1 => rw [h1] at h; exact (stepNumLower_base h1).trans (stepNumUpper_base h)
        | err e => rw [h1] at h; simp [Res.bind] at h
        | panic w => rw [h1] at h; simp [Res.bind] at h
        | unmodelled => rw [h1] at h; simp [Res.bind] at h
      | collectionLength n =>
        simp only [step1] at h
        cases h1 : stepLenLower b n with
        | ok b1 => rw [h1] at h; exact (stepLenLower_base h1).trans (stepLenUpper_base h)
        | err e => rw [h1] at h; simp [Res.bind] at h
        | panic w => rw [h1] at h; simp [Res.bind] at h
        | unmodelled => rw [h1] at h; simp [Res.bind] at h

theorem run_base_any {cs : List RefineCall} : ∀ {b b' : Builder}, run b cs = .ok b' → Base b b' := by
  induction cs with
  | nil => intro b b' h; simp [run] at h; subst h; exact Base.refl _
  | cons c cs ih =>
    intro b b' h
    simp only [run] at h
    cases h1 : step b c with
    | ok b1 => rw [h1] at h; exact (step_base h1).trans (ih h)
    | err e => rw [h1] at h; simp [Res.bind] at h
    | panic w => rw [h1] at h; simp [Res.bind] at h
    | unmodelled => rw [h1] at h; simp [Res.bind] at h

theorem step_dyn_any {b : Builder} (hd : b.isDyn = true) (c : RefineCall) : step b c = .ok b := by
  unfold step; rw [hd]; rfl

theorem run_dyn_any {b : Builder} (hd : b.isDyn = true) (cs : List RefineCall) : run b cs = .ok b := by
  induction cs with
  | nil => rfl
  | cons c cs ih => simp [run, step_dyn_any hd, Res.bind, ih]

theorem refine_ok_any {v w : Value} {cs : List RefineCall} (h : refine v cs = .ok w) :
    ∃ b b', init v = .ok b ∧ run b cs = .ok b' ∧ newValue b' = .ok w := by
  unfold refine at h
  cases hi : init v with
  | ok b =>
    rw [hi] at h
    simp only [Res.bind] at h
    cases hr : run b cs with
    | ok b' => rw [hr] at h; exact ⟨b, b', rfl, hr, h⟩
    | err e => rw [hr] at h; simp at h
    | panic p => rw [hr] at h; simp at h
    | unmodelled => rw [hr] at h; simp at h
  | err e => rw [hi] at h; simp [Res.bind] at h
  | panic p => rw [hi] at h; simp [Res.bind] at h
  | unmodelled => rw [hi] at h; simp [Res.bind] at h

theorem newValue_known_any {b : Builder} (hk : b.orig.isKnown = true) :
    newValue b = .ok (b.orig.withMarks b.marks) := by
  unfold newValue; simp [hk]

theorem newValue_dyn_any {b : Builder} (hd : b.isDyn = true) :
    newValue b = .ok (b.orig.withMarks b.marks) := by
  unfold newValue; simp [hd]

/-- a collapsed value is a known, unmarked value of the receiver's type -/
theorem collapse_shape {ty : Ty} {r : Rfn} {v : Value} (h : collapse ty r = .ok (some v)) :
    v.ty = ty ∧ v.v.isMarked = false ∧ v.isKnown = true := by
  cases r with
  | unref => simp [collapse] at h
  | nullable n => simp [collapse] at h
  | str n p => simp [collapse] at h
  | num n lo hi =>
    cases lo with
    | none => simp [collapse] at h
    | some lo =>
      cases hi with
      | none => simp [collapse] at h
      | some hi =>
        simp only [collapse] at h
        split at h
        · split at h
          · simp at h
          · simp at h; subst h; exact ⟨rfl, rfl, rfl⟩
          · simp at h
        · simp at h
  | coll n lo hi =>
    simp only [collapse] at h
    split at h
    · split at h
      · cases ty <;> simp at h <;> subst h <;> exact ⟨rfl, rfl, rfl⟩
      · cases ty <;> simp at h
        · split at h
          · simp at h
          · simp at h; subst h; exact ⟨rfl, rfl, rfl⟩
        · split at h
          · simp at h; subst h; exact ⟨rfl, rfl, rfl⟩
          · simp at h
    · simp at h

/-- `NewValue` never changes the type, whatever the oracle -/
theorem newValue_ty_any {b : Builder} {w : Value} (h : newValue b = .ok w) : w.ty = b.orig.ty := by
  unfold newValue at h
  split at h
  · simp at h; subst h; rfl
  · split at h
    · simp at h
    · split at h
      · simp at h; subst h; rfl
      · simp at h; subst h; rfl
      · split at h
        · rename_i v hc
          simp at h; subst h
          exact (collapse_shape hc).1
        · simp at h; subst h; rfl
        all_goals simp at h

/-- when `NewValue` returns an unknown value for an unknown receiver other than
`cty.DynamicVal`, it is the receiver's type carrying the record, and the record is
not "definitely null" — whatever the oracle -/
theorem newValue_unknown_any {b : Builder} {w : Value} (hk : b.orig.isKnown = false)
    (hd : b.isDyn = false) (h : newValue b = .ok w) (hu : w.isKnown = false) :
    w.unmark = ⟨b.orig.ty, .unk b.wip⟩ ∧ b.wip.nullness ≠ .t := by
  unfold newValue at h
  simp only [hk, hd, Bool.or_self, Bool.false_eq_true, if_false] at h
  split at h
  · simp at h
  · split at h
    · simp at h; subst h
      rw [isKnown_withMarks (by rfl)] at hu
      simp [Value.null, Value.isKnown, Payload.isKnown, Payload.unmark1] at hu
    · rename_i hn
      simp at h; subst h
      exact ⟨unmark_withMarks (by rfl) _, by rw [hn]; decide⟩
    · rename_i hn
      split at h
      · rename_i v hc
        simp at h; subst h
        obtain ⟨_, h2, h3⟩ := collapse_shape hc
        rw [isKnown_withMarks h2, h3] at hu; cases hu
      · simp at h; subst h
        exact ⟨unmark_withMarks (by rfl) _, by rw [hn]; decide⟩
      all_goals simp at h

/-- refining `cty.DynamicVal` (marked or not) returns it, whatever the calls and the oracle -/
theorem refine_dyn_any (v : Value) (cs : List RefineCall) (hd : isDynVal v.unmark = true) :
    refine v cs = .ok (v.unmark.withMarks v.marks) := by
  obtain ⟨hty, hv⟩ := isDynVal_iff.mp hd
  have hi : init v = .ok ⟨v.unmark, v.marks, freshWip v.unmark⟩ := by
    unfold init
    simp [hv, Payload.isMarked]
  have hdb : (⟨v.unmark, v.marks, freshWip v.unmark⟩ : Builder).isDyn = true := hd
  unfold refine
  rw [hi]
  simp only [Res.bind, run_dyn_any hdb, newValue_dyn_any hdb]

end Refine
end CtyModel
