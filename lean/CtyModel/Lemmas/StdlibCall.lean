/-
Lemmas: a stdlib function end to end — `XFunc.Call(args)` as the call protocol
(`Fn.call`, C10) around its `Type` and `Impl` callbacks.
-/
import CtyModel.Lemmas.StdlibFlatten
namespace CtyModel
namespace Stdlib
open Value

/-- `ElementFunc.Call(list, index)` end to end, through the call protocol -/
theorem element_call_list (e : Ty) (vs : List Payload) (x : Num)
    (hc : Ty.conformErrs e e = 0)
    (hlen : (vs.length : Int) ≤ maxInt) (hm : ∀ p ∈ vs, p.isMarked = false) :
    (Fn.call elementSpec elementType elementImpl [⟨.list e, .seq vs⟩, numVal x]).1 =
      match Gocty.int64Exact x with
      | none => .err (.callback "invalid index")
      | some i =>
        match Spec.element? vs i with
        | none => .err (.callback "cannot use element function with an empty list")
        | some p => .ok ⟨e, p⟩ := by
  have hnn : (numVal x).isNull = false := rfl
  have hnl : (⟨.list e, .seq vs⟩ : Value).isNull = false := rfl
  have hkn : (numVal x).isKnown = true := rfl
  have hkl : (⟨.list e, .seq vs⟩ : Value).isKnown = true := rfl
  have hcm : (numVal x).containsMarked = false := rfl
  have hmd : (numVal x).marksDeep = [] := rfl
  have htn : (numVal x).ty = .number := rfl
  have hty : elementType [⟨.list e, .seq vs⟩, numVal x] = .ok e := rfl
  have himpl := elementImpl_list e vs x e hlen hm
  have hcn : Ty.conformErrs .number .number = 0 := by decide
  have hcd : ∀ t, Ty.conformErrs .dyn t = 0 := fun t => by simp [Ty.conformErrs]
  simp only [Fn.call, Fn.returnTypeForValues, Fn.pass1, elementSpec, List.length_cons, List.length_nil,
    bne_self_eq_false, Bool.false_eq_true, if_false, Fn.checkLoop, Fn.Param.check, hnn, hnl, Bool.false_and,
    Ty.isDyn, htn, hcn, Fn.Param.typeArg, hcm, Bool.and_false, Bool.not_true, hty, Fn.callBody, List.take,
    List.drop, Fn.pass2, Fn.Param.callArg, hmd, Fn.Param.blocksUnknown, hkn, hkl, Bool.or_self, himpl,
    List.append_nil, List.nil_append, Bool.not_false, Nat.lt_irrefl, decide_false, hcd]
  cases hx : Gocty.int64Exact x with
  | none => simp only [hx] at himpl; simp [himpl]
  | some i =>
    cases hel : Spec.element? vs i with
    | none => simp only [hx, hel] at himpl; simp [himpl, hel]
    | some p => simp only [hx, hel] at himpl; simp [himpl, hc, hel]

end Stdlib
end CtyModel
